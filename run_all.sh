#!/bin/bash
# run every registered check once (tier from $1, default quick) and print one summary line per property
tier=${1:-quick}
cd /verif
for p in $(python3 -c "import json;print(' '.join(c['property_id'] for c in json.load(open('MANIFEST.json'))['checks']))"); do
  out=$(./check $p --tier $tier 2>&1); rc=$?
  echo "$p rc=$rc $(echo "$out" | grep -E '^\[C|^VIOLATION|^KNOWN' | tr '\n' ' ' | cut -c1-400)"
done
