from __future__ import annotations

from typing import Iterator


class Node:
    __slots__ = "type", "value", "obfuscation", "start", "end", "parent", "children"

    def __init__(
        self,
        type_: str,
        value: bytes,
        obfuscation: str = "",
        start: int = 0,
        end: int = 0,
        parent: Node | None = None,
        children: list[Node] | None = None,
    ):
        self.type = type_
        self.value = value
        self.obfuscation = obfuscation
        self.start = start
        self.end = end
        self.parent = parent
        if children:
            self.children = children
            for child in children:
                child.parent = self
        else:
            self.children = []

    @property
    def original(self) -> bytes:
        # Value before decoding
        if self.parent:
            return self.parent.value[self.start : self.end]
        return self.value

    def flatten(self) -> bytes:
        """Flatten the node's sub-tree into a single deobfuscated value.

        Returns the node's value with each child node's original data
        replaced by it's decoded value.
        This is done recursively, with each child node flattened to include
        all of it's children's deobfuscations before replacement.
        """
        offset = 0
        output = []
        for node in self.children:
            if node.start < offset:
                continue  # Only take the first of overlapping values
            node_data = node.flatten()
            if node_data != self.value[node.start : node.end]:
                output.append(self.value[offset : node.start])
                if node.type.endswith("string"):
                    node_data = b'"' + node_data + b'"'
                output.append(node_data)
                offset = node.end
        output.append(self.value[offset:])
        return b"".join(output)

    def shift(self: Node, offset: int) -> Node:
        """Shift the node's start and end value by an offset.

        The node is modified in place.
        """
        self.start += offset
        self.end += offset
        return self

    def __repr__(self) -> str:
        return (
            f"Node({self.type!r}, {self.value!r}, {self.obfuscation!r}, "
            f"{self.start!r}, {self.end!r}, ..., {self.children!r})"
        )

    def __eq__(self, other: object) -> bool:
        # Ignoring parent in eq to allow unit tests to not construct backreferences
        # and to avoid potential infinite loop problems
        return (
            isinstance(other, Node)
            and self.type == other.type
            and self.value == other.value
            and self.obfuscation == other.obfuscation
            and self.start == other.start
            and self.end == other.end
            and self.children == other.children
        )

    def __iter__(self) -> Iterator[Node]:
        """Iterates over all the children in the tree below the node.

        The nodes appear in depth-first pre-order, and the root node is not included.
        If only the direct children are wanted iterating over node.children can be used instead.
        """

        def node_generator(node: Node) -> Iterator[Node]:
            for child in node.children:
                yield child
                yield from node_generator(child)

        return node_generator(self)


def shift_nodes(nodes: list[Node], offset: int) -> list[Node]:
    """Shift the start and end values of a list of nodes

    The list is modified in place.

    Args:
        nodes: The list of nodes
        offset: the ammount to shift

    Returns:
        The list of modified nodes.
    """
    for node in nodes:
        node.start += offset
        node.end += offset
    return nodes
