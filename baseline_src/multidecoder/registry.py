"""
Module for automatically registering and collecting decoder functions
"""

from __future__ import annotations

import importlib
import inspect
import os
import pkgutil
from functools import partial
from typing import TYPE_CHECKING, Callable, Iterable, List

import multidecoder
import multidecoder.decoders
from multidecoder.keyword import find_keywords
from multidecoder.node import Node

if TYPE_CHECKING:
    from typing_extensions import TypeAlias

# Registry type
Decoder: TypeAlias = Callable[[bytes], List[Node]]
Registry: TypeAlias = List[Decoder]


def decoder(func: Decoder) -> Decoder:
    """Decorator for decoding functions"""

    func._decoder = True
    return func


def build_registry(
    directory: str = "",
    include: Iterable[str] | None = None,
    exclude: Iterable[str] | None = None,
) -> Registry:
    """Get both analyzer functions and keyword functions"""
    keywords = get_keywords(directory)
    keywords.extend(get_analyzers(include=include, exclude=exclude))
    return keywords


def get_analyzers(include: Iterable[str] | None = None, exclude: Iterable[str] | None = None) -> Registry:
    """Get all analyzers"""
    decoders: Registry = []
    include = set(include) if include else {}
    exclude = set(exclude) if exclude else {}
    for submod_info in pkgutil.iter_modules(multidecoder.decoders.__path__):
        if include and submod_info.name not in include:
            continue
        if exclude and submod_info.name in exclude:
            continue
        submodule = importlib.import_module("." + submod_info.name, package=multidecoder.decoders.__name__)
        for _, function in inspect.getmembers(submodule, inspect.isfunction):
            if hasattr(function, "_decoder"):
                decoders.append(function)
    return decoders


def get_keywords(directory: str = "") -> Registry:
    """Get keyword search functions from a directory"""
    directory = directory or os.path.join(next(iter(multidecoder.__path__)), "keywords")
    keyword_map: Registry = []
    for subdir, dirs, files in os.walk(directory):
        dirs.sort()
        for file_name in sorted(files):
            with open(os.path.join(subdir, file_name), "rb") as keyword_file:
                keywords = set(keyword_file.read().splitlines())
                keywords.discard(b"")
            if not keywords:
                continue
            keyword_map.append(partial(find_keywords, file_name, sorted(keywords)))
    return keyword_map
