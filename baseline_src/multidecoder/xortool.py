"""
xortool.py
====================

A tool to do some xor analysis:

  - guess the key length (based on count of equal chars)
  - guess the key (base on knowledge of most frequent char)

Adapted from hellman's xortool project (https://github.com/hellman/xortool) for use as library.


License: https://opensource.org/license/MIT

Copyright 2011 hellman
Permission is hereby granted, free of charge, to any person obtaining a copy of this software and associated
documentation files (the “Software”), to deal in the Software without restriction, including without limitation the
rights to use, copy, modify, merge, publish, distribute, sublicense, and/or sell copies of the Software, and to permit
persons to whom the Software is furnished to do so, subject to the following conditions:

The above copyright notice and this permission notice shall be included in all copies or substantial portions of the
Software.

THE SOFTWARE IS PROVIDED “AS IS”, WITHOUT WARRANTY OF ANY KIND, EXPRESS OR IMPLIED, INCLUDING BUT NOT LIMITED TO THE
WARRANTIES OF MERCHANTABILITY, FITNESS FOR A PARTICULAR PURPOSE AND NONINFRINGEMENT. IN NO EVENT SHALL THE AUTHORS OR
COPYRIGHT HOLDERS BE LIABLE FOR ANY CLAIM, DAMAGES OR OTHER LIABILITY, WHETHER IN AN ACTION OF CONTRACT, TORT OR
OTHERWISE, ARISING FROM, OUT OF OR IN CONNECTION WITH THE SOFTWARE OR THE USE OR OTHER DEALINGS IN THE SOFTWARE.
"""

from __future__ import annotations

import itertools
import string
from typing import TYPE_CHECKING

if TYPE_CHECKING:
    from collections.abc import Container


class AnalysisError(Exception):
    pass


def xortool(
    ciphertext: bytes,
    try_chars: list[int],
    known_key_length: int | None = None,
    *,
    max_key_length: int = 65,
    text_charset: Container[int] = string.printable.encode(),
    known_plain: bytes = b"",
    filter_output: object = False,
) -> list[bytes]:
    if not known_key_length:
        known_key_length = guess_key_length(ciphertext, max_key_length)

    (probable_keys, key_char_used) = guess_probable_keys_for_chars(ciphertext, try_chars, known_key_length)

    return produce_plaintexts(ciphertext, probable_keys, text_charset, known_plain, filter_output)


# -----------------------------------------------------------------------------
# KEYLENGTH GUESSING SECTION
# -----------------------------------------------------------------------------


def guess_key_length(text: bytes, max_key_length: int) -> int:
    """
    Try key lengths from 1 to max_key_length and print local maximums

    Set key_length to the most possible if it's not set by user.
    """
    fitnesses = calculate_fitnesses(text, max_key_length)
    if not fitnesses:
        raise AnalysisError("No candidates for key length found! Too small file?")

    guess_divisors(fitnesses, max_key_length)
    return get_max_fitnessed_key_length(fitnesses)


def calculate_fitnesses(text: bytes, max_key_length: int) -> list[tuple[int, float]]:
    """Calculate fitnesses for each keylen"""
    prev = 0.0
    pprev = 0.0
    fitnesses = []
    for key_length in range(1, max_key_length + 1):
        # smaller key-length with nearly the same fitness is preferable
        fitness = count_equals(text, key_length) / (max_key_length + key_length**1.5)

        if pprev < prev and prev > fitness:  # local maximum
            fitnesses += [(key_length - 1, prev)]

        pprev = prev
        prev = fitness

    if pprev < prev:
        fitnesses += [(key_length - 1, prev)]

    return fitnesses


def calculate_fitness_sum(fitnesses: list[tuple[int, float]]) -> float:
    return sum([f[1] for f in fitnesses])


def count_equals(text: bytes, key_length: int) -> int:
    """Count equal chars count for each offset and sum them"""
    equals_count = 0
    if key_length >= len(text):
        return 0

    for offset in range(key_length):
        chars_count = chars_count_at_offset(text, key_length, offset)
        equals_count += max(chars_count.values()) - 1  # why -1? don't know
    return equals_count


def guess_divisors(fitnesses: list[tuple[int, float]], max_key_length: int) -> int:
    """
    Guesses common divisors and returns the most common divisor
    """
    divisors_counts = [0] * (max_key_length + 1)
    for key_length, _ in fitnesses:
        for number in range(3, key_length + 1):
            if key_length % number == 0:
                divisors_counts[number] += 1
    max_divisors = max(divisors_counts)

    limit = 3
    ret = 2
    for number, divisors_count in enumerate(divisors_counts):
        if divisors_count == max_divisors:
            ret = number
            limit -= 1
            if limit == 0:
                return ret
    return ret


def get_max_fitnessed_key_length(fitnesses: list[tuple[int, float]]) -> int:
    max_fitness = 0.0
    max_fitnessed_key_length = 0
    for key_length, fitness in fitnesses:
        if fitness > max_fitness:
            max_fitness = fitness
            max_fitnessed_key_length = key_length
    return max_fitnessed_key_length


def chars_count_at_offset(text: bytes, key_length: int, offset: int) -> dict[int, int]:
    chars_count: dict[int, int] = {}
    for pos in range(offset, len(text), key_length):
        c = text[pos]
        if c in chars_count:
            chars_count[c] += 1
        else:
            chars_count[c] = 1
    return chars_count


# -----------------------------------------------------------------------------
# KEYS GUESSING SECTION
# -----------------------------------------------------------------------------


def guess_probable_keys_for_chars(
    text: bytes, try_chars: list[int], known_key_length: int
) -> tuple[list[bytes], dict[bytes, int]]:
    """
    Guess keys for list of characters.
    """
    probable_keys = []
    key_char_used = {}

    for c in try_chars:
        keys = guess_keys(text, c, known_key_length)
        for key in keys:
            key_char_used[key] = c
            if key not in probable_keys:
                probable_keys.append(key)

    return probable_keys, key_char_used


def guess_keys(text: bytes, most_char: int, known_key_length: int) -> list[bytes]:
    """
    Generate all possible keys for key length
    and the most possible char
    """
    key_length = known_key_length
    key_possible_bytes: list[list[int]] = [[] for _ in range(key_length)]

    for offset in range(key_length):  # each byte of key<
        chars_count = chars_count_at_offset(text, key_length, offset)
        max_count = max(chars_count.values())
        for char in chars_count:
            if chars_count[char] >= max_count:
                key_possible_bytes[offset].append(char ^ most_char)

    return all_keys(key_possible_bytes)


MAX_KEYS = 4096


def all_keys(key_possible_bytes: list[list[int]], key_part: tuple[int, ...] = (), offset: int = 0) -> list[bytes]:
    """
    Produce the combinations of possible key chars, in order, at most MAX_KEYS of them
    (the number of combinations is exponential in the key length when many bytes tie)
    """
    combinations = itertools.product(*key_possible_bytes[offset:])
    return [bytes((*key_part, *combination)) for combination in itertools.islice(combinations, MAX_KEYS)]


# -----------------------------------------------------------------------------
# RETURNS PERCENTAGE OF VALID TEXT CHARS
# -----------------------------------------------------------------------------


def percentage_valid(text: bytes, text_charset: Container[int]) -> float:
    "Returns percentage of valid text chars"
    x = 0.0
    for c in text:
        if c in text_charset:
            x += 1
    return x / len(text)


# -----------------------------------------------------------------------------
# DEXOR TEXT
# -----------------------------------------------------------------------------


def dexor(text: bytes, key: bytes) -> bytes:
    mod = len(key)
    return bytes(key[index % mod] ^ char for index, char in enumerate(text))


# -----------------------------------------------------------------------------
# PRODUCE OUTPUT
# -----------------------------------------------------------------------------


def produce_plaintexts(
    ciphertext: bytes,
    keys: list[bytes],
    text_charset: Container[int],
    known_plain: bytes,
    filter_output: object,
):
    """
    Produce plaintext variant for each possible key,
    returns the plaintext, the key that produced it,
    the percentage of valid characters and
    the most frequent character used
    """
    threshold_valid = 95

    out = []
    for key in keys:
        dexored = dexor(ciphertext, key)
        # ignore saving file when known plain is provided and output doesn't contain it
        if known_plain and known_plain not in dexored:
            continue
        perc = round(100 * percentage_valid(dexored, text_charset))
        if not filter_output or (filter_output and perc > threshold_valid):
            out.append(dexored)
    return out
