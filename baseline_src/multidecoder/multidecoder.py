from __future__ import annotations

from multidecoder.node import Node
from multidecoder.registry import Registry, build_registry

DEFAULT_DEPTH_LIMIT = 10


class Multidecoder:
    def __init__(self, decoders: Registry | None = None) -> None:
        self.decoders = decoders if decoders else build_registry()

    def scan(self, data: bytes, depth_limit: int = DEFAULT_DEPTH_LIMIT) -> Node:
        """Search data for all possible decodings.

        A decoded result is recursively scanned unless it is the result of more scans than the depth_limit.
        Results are organized in a tree where each result's parent is the context in which it was found.
        """
        return self.scan_node(Node("", data, "", 0, len(data)), depth_limit)

    def scan_node(self, node: Node, depth_limit: int = DEFAULT_DEPTH_LIMIT) -> Node:
        """Expand a node with decodings.

        If a node has no children it's value is searched for possible decodings.
        If a node already has children, instead it's children are scanned.
        A decoded result is recursively rescanned unless it is the result of more scans than the depth_limit.
        Results are organized in a tree where each result's parent is the context in which it was found.
        """
        if depth_limit <= 0:
            return node
        if node.children:
            # Don't rescan nodes with existing children
            for child in node.children:
                self.scan_node(child, depth_limit - 1)
            return node

        stack: list[Node] = []
        decode_end = 0  # end of the last decoded context
        offset = 0  # start of the current node relative to the start of the original node

        # Get results in sorted order
        results = sorted(
            (hit for search in self.decoders for hit in search(node.value) if hit.value),
            key=lambda t: (t.start, -t.end),
        )

        for hit in results:
            # Ignore values if in a decoded context
            if hit.end <= decode_end:
                continue
            # Return to the context that contains the current hit
            while hit.end > offset + len(node.value):
                offset -= node.start
                if stack:  # Todo: Log here
                    node = stack.pop()
            hit.shift(-offset)
            # Prevent analyzer rematching its own decoded output
            if hit.start == 0 and hit.value == node.value and hit.type == node.type:
                continue
            hit.parent = node
            node.children.append(hit)

            if hit.value.lower() != hit.original.lower() or hit.children:
                # Add decoded result and check for new IOCs
                decode_end = hit.end + offset  # absolute, like the ends it is compared with
                self.scan_node(hit, depth_limit - 1)
            else:
                # No need to rescan, set as context
                stack.append(node)
                node = hit
                offset += hit.start

        return stack[0] if stack else node
