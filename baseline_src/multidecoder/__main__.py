from __future__ import annotations

import argparse
import os
import sys

from multidecoder._version import version
from multidecoder.json_conversion import tree_to_json
from multidecoder.multidecoder import Multidecoder
from multidecoder.query import squash_replace, string_summary
from multidecoder.registry import build_registry


def main() -> None:
    parser = argparse.ArgumentParser()
    parser.add_argument("filepath", nargs="?", metavar="FILE")
    parser.add_argument("--version", "-V", action="version", version="%(prog)s " + version)
    parser.add_argument("--keywords", "-k")
    output_format = parser.add_mutually_exclusive_group()
    output_format.add_argument("--json", "-j", action="store_true")
    output_format.add_argument("--replace", "-r", action="store_true")
    args = parser.parse_args()
    if args.filepath:
        try:
            with open(args.filepath, "rb") as f:
                data = f.read()
        except Exception as e:
            print(e, file=sys.stderr)
            return
    else:
        data = sys.stdin.buffer.read()
    if args.keywords:
        if not os.path.isdir(args.keywords):
            print("--keywords argument must be a directory", file=sys.stderr)
            return
        decoders = build_registry(args.keywords)
    else:
        decoders = None
    md = Multidecoder(decoders)
    tree = md.scan(data)
    if args.json:
        print(tree_to_json(tree))
    elif args.replace:
        sys.stdout.buffer.write(squash_replace(data, tree.children))
    else:
        for string in string_summary(tree):
            print(string)


if __name__ == "__main__":
    main()
