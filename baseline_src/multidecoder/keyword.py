from __future__ import annotations

from typing import Iterable

from multidecoder.node import Node

MIXED_CASE_OBF = "MixedCase"


def is_mixed_case(value: bytes, raw: bytes) -> bool:
    # Mixed case is not possible if raw is entirely upper or lower-cased
    if raw.isupper() or raw.islower():
        return False

    for v, d in zip(raw, value):
        # Check for case discrepancy between byte characters
        if (chr(v).isupper() and not chr(d).isupper()) or (chr(v).islower() and not chr(d).islower()):
            return True

    return False


def find_keywords(label: str, keywords: Iterable[bytes], data: bytes) -> list[Node]:
    lower = data.lower()
    return [
        Node(
            label,
            keyword,
            MIXED_CASE_OBF if is_mixed_case(keyword, data[start : start + len(keyword)]) else "",
            start,
            start + len(keyword),
        )
        for keyword in keywords
        for start in find_all(keyword.lower(), lower)
    ]


def find_all(keyword: bytes, data: bytes) -> list[int]:
    if not keyword:
        return []
    starts = []
    start = data.find(keyword)
    while start >= 0:
        end = start + len(keyword)
        if (start == 0 or not data[start - 1 : start].isalnum()) and (
            end == len(data) or not data[end : end + 1].isalnum()
        ):
            starts.append(start)
        start = data.find(keyword, start + len(keyword))
    return starts
