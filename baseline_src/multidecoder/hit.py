from __future__ import annotations

from typing import Callable

import regex as re

from multidecoder.node import Node


def match_to_hit(label: str, match: re.Match[bytes], group: int = 0) -> Node:
    return Node(label, match.group(group), "", *match.span(group))


def regex_hits(label: str, regex: bytes, data: bytes, group: int = 0) -> list[Node]:
    return [match_to_hit(label, match, group) for match in re.finditer(regex, data)]


def find_and_deobfuscate(
    label: str,
    regex: bytes,
    data: bytes,
    deobfuscation: Callable[[bytes], tuple[bytes, str]],
    deob_group: int = 0,
    context_group: int = 0,
) -> list[Node]:
    return [
        Node(label, *deobfuscation(match.group(deob_group)), *match.span(context_group))
        for match in re.finditer(regex, data)
    ]
