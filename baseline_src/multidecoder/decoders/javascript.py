from __future__ import annotations

from urllib.parse import unquote_to_bytes

import regex as re

from multidecoder.node import Node
from multidecoder.registry import decoder

UNESCAPE_RE = rb"unescape\('([^']*)'\)"


@decoder
def find_unescape(data: bytes) -> list[Node]:
    return [
        Node(
            "string",
            unquote_to_bytes(match.group(1)),
            "function.unescape",
            *match.span(),
        )
        for match in re.finditer(UNESCAPE_RE, data)
    ]
