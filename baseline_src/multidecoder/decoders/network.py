"""Network indicators"""

from __future__ import annotations

import binascii
import contextlib
import socket
from ipaddress import AddressValueError, IPv4Address, IPv6Address
from urllib.parse import unquote_to_bytes, urlsplit

import regex as re

from multidecoder.domains import TOP_LEVEL_DOMAINS
from multidecoder.hit import match_to_hit
from multidecoder.keyword import MIXED_CASE_OBF
from multidecoder.node import Node, shift_nodes
from multidecoder.registry import decoder

# Type labels
DOMAIN_TYPE = "network.domain"
IP_TYPE = "network.ip"
EMAIL_TYPE = "network.email"
URL_TYPE = "network.url"

# Obfuscation labels
DOT_SEGMENT_OBF = "dot_segment"
IP_OBF = "ip_obfuscation"

# Regexes
_OCTET_RE = rb"(?:0x0*[a-f0-9]{1,2}|0*\d{1,3})"

# Specifically allowing 0 after domain names for PE strings
DOMAIN_RE = rb"(?i)(?<![-\w.\\_])(?:[a-z0-9-]+\.)+(?:xn--[a-z0-9-]{4,20}|[a-z]{2,18})(?![a-z1-9.(=_-])"
EMAIL_RE = rb"(?i)\b[a-z0-9._%+-]{3,}@(" + DOMAIN_RE[4:] + rb")\b"

IP_RE = rb"(?i)(?<![\w.-])(?:" + _OCTET_RE + rb"[.]){3}" + _OCTET_RE + rb"(?![\w.-])"

# Using some weird ranges to shorten the regex:
# $-. is $%&'()*+,-. all of which are sub-delims $&'()*+, or unreserved .-
# $-/ is the same with /
# #-/ is the same with # and /
# #-& is #-/ but stopped before '
URL_RE = (
    rb"(?i)(?:ftp|https?)://"  # scheme
    rb"(?:[\w!$-.:;=~@]*@)?"  # userinfo
    rb"(?:(?!%5B)[%A-Z0-9.-]{4,253}|(?:\[|%5B)[%0-9A-F:]{3,117}(?:\]|%5D))"  # host
    rb"(?::[0-6]?[0-9]{0,4})?"  # port
    rb"(?:[/?#](?:[\w!#-/:;=@?~]*[\w!#-&(*+\-/:=@?~])?)?"  # path, query and fragment
    # The final char class stops urls from ending in ' ) , . or ;
    # to prevent trailing characters from being included in the url.
)


# Regex validators
def is_domain(domain: bytes) -> bool:
    """Validates a potential domain.

    Checks the top level domain to ensure it is a registered top level domain.

    Args:
        domain: The domain to validate.
    Returns:
        Whether domain has a valid top level domain.
    """
    parts = domain.rsplit(b".", 1)
    if len(parts) != 2:
        return False
    name, tld = parts
    return bool(name and tld.upper() in TOP_LEVEL_DOMAINS)


def is_ip(ip: bytes) -> bool:
    """Validates a potential IPv4 address.

    Args:
        ip: The possible ip address.
    Returns:
        Whether ip is an IPv4 address.
    """
    try:
        IPv4Address(ip.decode("ascii"))
    except (AddressValueError, UnicodeDecodeError):
        return False
    return True


def is_url(url: bytes) -> bool:
    """Validates a potential URL.

    Checks that the url has a valid scheme and a hostname.

    Args:
       url: The possible url.
    Returns:
       Whether url is a URL.
    """
    try:
        split = urlsplit(url)
        split.port  # noqa: B018 urlsplit.port is a property that does validation and raises ValueError if it fails.
    except ValueError:
        return False
    return bool(split.scheme and split.hostname and split.scheme in (b"http", b"https", b"ftp"))


# False Positives


def domain_is_false_positive(domain: bytes) -> bool:
    """Flag common forms of dotted text that can be mistaken for domains."""
    domain_lower = domain.lower()
    split = domain_lower.split(b".")
    if len(split) < 2:
        return True
    tld = split[-1]
    root = split[0]

    # Common variable roots
    root_fpos = {
        b"adodb",
        b"aquota",
        b"at",
        b"array",
        b"arrayprototype",
        b"basic",
        b"button",
        b"cgroup",
        b"contributing",
        b"ctrl-alt-del",
        b"di",
        b"data",
        b"date",
        b"default",
        b"email",
        b"emergency",
        b"enduser",
        b"error",
        b"event",
        b"exit",
        b"function",
        b"functionprototype",
        b"graphical",
        b"halt",
        b"httpd",
        b"init",
        b"initrd-fs",
        b"initrd-root-fs",
        b"install",
        b"it",
        b"ipconf",
        b"local-fs",
        b"local-fs-pre",
        b"manager",
        b"memory",
        b"method",
        b"mount",
        b"multi-user",
        b"myapplication",
        b"nativedate",
        b"network",
        b"network-online",
        b"nss",
        b"nss-lookup",
        b"obj",
        b"object",
        b"org",
        b"oshlnk",
        b"path",
        b"paths",
        b"poweroff",
        b"reboot",
        b"remote",
        b"remote-fs",
        b"remote-fs-pre",
        b"rescue",
        b"response",
        b"ribbon",
        b"rpcbind",
        b"service",
        b"set",
        b"socket",
        b"sockets",
        b"string",
        b"shutdown",
        b"sigpwr",
        b"simple",
        b"startup",
        b"swap",
        b"syntaxerror",
        b"sysinit",
        b"syslog",
        b"system",
        b"table",
        b"time",
        b"timers",
        b"time-sync",
        b"tomcat",
        b"ui",
        b"umount",
        b"user",
        b"window",
        b"wscript",
        b"wshshell",
        b"zone",
    }
    # Common variable name ends
    tld_fpos = {
        b"at",
        b"app",
        b"auto",
        b"build",
        b"call",
        b"cat",
        b"center",
        b"city",
        b"click",
        b"country",
        b"data",
        b"day",
        b"direct",
        b"email",
        b"events",
        b"exposed",
        b"fail",
        b"global",
        b"green",
        b"group",
        b"how",
        b"id",
        b"in",
        b"io",
        b"info",
        b"is",
        b"it",
        b"lat",
        b"link",
        b"map",
        b"md",
        b"mobile",
        b"ms",
        b"marketing",
        b"name",
        b"next",
        b"now",
        b"open",
        b"page",
        b"pid",
        b"pl",
        b"pm",
        b"play",
        b"py",
        b"radio",
        b"read",
        b"red",
        b"run",
        b"save",
        b"search",
        b"services",
        b"sh",
        b"shell",
        b"so",
        b"software",
        b"spa",
        b"space",
        b"store",
        b"stream",
        b"style",
        b"support",
        b"tab",
        b"target",
        b"total",
        b"top",
        b"zone",
    }
    return bool(
        (tld == b"next" and b"iterator" in domain_lower)  # Iterator not domain
        or re.match(b"[a-z]+[.][A-Z][a-z]+", domain)  # attribute access not domain
        or (tld in tld_fpos and (root in root_fpos or len(root) == 1))  # variable attribute
        or domain_lower.startswith(b"this.")  # super common variable name in javascript
        or (len(split) == 3 and split[1] == b"prototype" and len(root) < 3 and len(tld) < 3)  # javascript pattern
        or (domain_lower.startswith(b"lib") and tld == "so")  # ELF false positive
    )


# Decoders
@decoder
def find_domains(data: bytes) -> list[Node]:
    """Find domains in data"""
    out = []
    for match in re.finditer(DOMAIN_RE, data):
        domain = match.group()
        if not is_domain(domain) or len(domain) < 7:
            continue
        if domain_is_false_positive(domain):
            continue
        out.append(match_to_hit(DOMAIN_TYPE, match))
    return out


@decoder
def find_emails(data: bytes) -> list[Node]:
    """Find email addresses in data"""
    return [match_to_hit(EMAIL_TYPE, match) for match in re.finditer(EMAIL_RE, data) if is_domain(match.group(1))]


@decoder
def find_ips(data: bytes) -> list[Node]:
    """Find ip addresses in data"""
    out = []
    for match in re.finditer(IP_RE, data):
        ip = match.group()
        if not is_ip(ip):
            continue
        if all(byte in b"0x." for byte in ip):
            continue  # 0.0.0.0
        if ip.endswith((b".0", b".255")):
            continue  # Class C network identifier or broadcast address
        start, end = match.span()
        prefix = data[:start][::-1]  # data[start - 1 :: -1] is the whole data reversed when start == 0
        if re.match(rb"\s*>t(?::\w+)?<", prefix):
            continue  # xml section numbering
        if re.match(rb"(?i)\s+(?:noit|[.])ces", prefix):
            continue  # section number
        offset = data.rfind(b"ersion", max(start - 10, 0), start)
        if offset >= 0 and re.match(rb'[\x00=\s"]+$', data[offset + 6 : start]):
            continue  # version number, not an ip address
        out.append(parse_ip(match.group()).shift(match.start()))
    return out


@decoder
def find_urls(data: bytes) -> list[Node]:
    """Find URLs in data"""
    # Todo: blunt hack to approximate context
    # need to do actual context aware search
    contexts = {
        ord("'"): ord("'"),
        ord("("): ord(")"),
    }
    out = []
    for match in re.finditer(URL_RE, data):
        group = match.group()
        start, end = match.span()
        prev = data[start - 1]
        if start == 0:
            pass  # No context
        elif group[prev : prev + 1] == b"0" and not _is_printable(data[start - 10 : start]):
            # Pascal string in PE file
            end = start + prev
            group = group[:prev]
        elif prev in contexts:
            close = group.find(contexts[prev])
            if close > -1:
                end = start + close
                group = group[:close]
        if not is_url(group):
            continue
        value, obfuscation = normalize_percent_encoding(group)
        if not is_url(value):
            continue  # normalization can turn an accepted host into one urlsplit rejects
        out.append(
            Node(
                URL_TYPE,
                value,
                obfuscation,
                start,
                end,
                children=parse_url(value),  # parts must index into the node's (normalized) value
            )
        )
    return out


def parse_ip(ip: bytes) -> Node:
    """Parses an IPv4 address.

    Args:
        ip: The IPv4 address as a utf-8 encoded string of a represetation accepted by socket.inet_aton.
    Returns:
        A node with the normalized IPv4 address as it's value.
    """
    try:
        address = IPv4Address(socket.inet_aton(ip.decode()))
    except (OSError, AddressValueError, UnicodeDecodeError) as ex:
        raise ValueError(f"{ip!r} is not an IPv4 address") from ex
    compressed = address.compressed.encode()
    return Node(
        IP_TYPE,
        compressed,
        IP_OBF if compressed != ip else "",
        0,
        len(ip),
    )


def parse_ipv6(ip: bytes) -> Node:
    """Parses an IPv6 address.

    Args:
        ip: The IPv6 address as a utf-8 encoded string of a represetation accepted by socket.inet_pton.
    Returns:
        A node with the normalized IPv6 address as it's value.
    """
    try:
        address = IPv6Address(socket.inet_pton(socket.AF_INET6, ip.decode()))
    except (OSError, AddressValueError, UnicodeDecodeError) as ex:
        raise ValueError(f"{ip!r} is not an IPv6 address") from ex
    return Node(
        "network.ipv6",
        address.compressed.encode(),
        IP_OBF if address.compressed.encode() != ip else "",
        0,
        len(ip),
    )


def parse_url(url_text: bytes) -> list[Node]:
    """Parses a url into a decoding tree.

    The url is separated into parts:
    - scheme
    - username
    - password
    - host (ip or domain)
    - path
    - query
    - fragment
    Each part is decoded and added as a child if it is present in the url.

    This function should only be used if a decoding tree is necessary.
    The standard library urllib.path.urlsplit is prefered if separating a url
    into subparts is all that is required. If splitting and decoding is required,
    consider using urlsplit then unquote_to_bytes to remove percent encoding
    and one of the host specific parsers (parse_ip, parse_ipv6) if necessary.
    """
    out = []
    # Parse the url
    offset = 0
    url = urlsplit(url_text)
    if url.scheme:
        out.append(
            Node(
                "network.url.scheme",
                url.scheme,
                (
                    MIXED_CASE_OBF
                    # url.scheme is normalized by urlsplit
                    if url_text[0 : len(url.scheme)] not in (url.scheme, url.scheme.upper())
                    else ""
                ),
                0,
                len(url.scheme),
            )
        )
        offset += len(url.scheme) + 1  # scheme + :
    if url.netloc:
        offset += 2  # authority begins with //
        with contextlib.suppress(ValueError):
            out.extend(shift_nodes(parse_authority(url.netloc), offset))
        offset += len(url.netloc)
    if url.path:
        out.append(
            Node(
                "network.url.path",
                *normalize_path(url.path),
                offset,
                offset := offset + len(url.path),
            )
        )
    if url.query:
        offset += 1  # query starts with ?
        out.append(
            Node(
                "network.url.query",
                unquote_to_bytes(url.query),
                start=offset,
                end=(offset := offset + len(url.query)),
            )
        )
    if url.fragment:
        if not url.query and url_text[offset : offset + 1] == b"?":
            offset += 1  # empty query: the ? is still there
        offset += 1  # fragment starts with #
        out.append(
            Node(
                "network.url.fragment",
                unquote_to_bytes(url.fragment),
                start=offset,
                end=offset + len(url.fragment),
            )
        )
    return out


def parse_authority(authority: bytes) -> list[Node]:
    """Split a URL's authority into it's consituent parts and unquote them"""
    out = []
    offset = 0
    userinfo, address = authority.rsplit(b"@", 1) if b"@" in authority else (b"", authority)
    username, password = userinfo.split(b":", 1) if b":" in userinfo else (userinfo, b"")
    host, _ = address.rsplit(b":", 1) if re.match(rb"(?r):\d*", address) else (address, b"")
    if username:
        out.append(
            Node(
                "network.url.username",
                unquote_to_bytes(username),
                "",
                0,
                len(username),
            )
        )
        offset += len(username)
    if b":" in userinfo:
        offset += 1  # for the :
    if password:
        out.append(
            Node(
                "network.url.password",
                unquote_to_bytes(password),
                "",
                offset,
                offset := offset + len(password),
            )
        )
    if not host:
        return out
    if b"@" in authority:
        offset += 1  # for the @
    host_length = len(host)  # spans index the text, which may still be percent-escaped
    host = unquote_to_bytes(host)
    if host.startswith(b"["):
        if not host.endswith(b"]"):
            raise ValueError("Invalid IPv6 URL")
        with contextlib.suppress(ValueError):
            out.append(parse_ipv6(host[1:-1]).shift(offset + 1))
    else:
        try:
            ip_node = parse_ip(host).shift(offset)
            ip_node.end = offset + host_length
            out.append(ip_node)
        except ValueError:
            if is_domain(host):
                out.append(Node("network.domain", host, "", offset, offset + host_length))
    return out


def normalize_percent_encoding(uri: bytes) -> tuple[bytes, str]:
    """Normalize the percent encoding of a URI

    Un-encodes unreserved characters.
    Sets reserved percent encodings to uppercase.

    Args:
        url: the URI

    Returns:
        A tuple of the normalized URI and the obfuscation
    """

    def normalize_percent(match: re.Match[bytes]) -> bytes:
        """Normalize a single percent encoded byte"""
        byte = binascii.unhexlify(match.group(1))
        if b"A" <= byte <= b"Z" or b"a" <= byte <= b"z" or b"0" <= byte <= b"9" or byte in (b"-", b".", b"_", b"~"):
            return byte
        return match.group(0).upper()

    normalized = re.sub(
        rb"(?i)%([0-9a-f]{2})",
        normalize_percent,
        uri,
    )
    return normalized, "escape.percent" if len(normalized) < len(uri) else ""


def normalize_path(path: bytes) -> tuple[bytes, str]:
    """
    Decodes and normalize a url path.

    Normalized a url path by removing dot segments and decoding percent encodings,
    with the exception of %2F. %2F is not decoded so that the percent encoded path
    can be recovered from the normalized path. If %2F was decoded 'path/path' and
    'path%2Fpath' would be identical after decoding, preventing re-encoding them
    correctly.

    Args:
        path: the url path
    Returns:
        the normalized path,
        the obfuscation label for dot segment removal if there were dot segments
        (defaults to the empty string)

    """
    segments = [
        # Preserve / encoded as %2F to preserve segments
        # since path/path and path%2Fpath are not identical
        # per RFC 3986
        unquote_to_bytes(path_segment).replace(b"/", b"%2F")
        for path_segment in path.split(b"/")
    ]
    # Remove dot segments
    dotless: list[bytes] = []
    for segment in segments:
        if segment == b".":
            pass
        elif segment == b"..":
            if dotless and dotless != [b""]:  # never remove the root of an absolute path
                dotless.pop()
        else:
            dotless.append(segment)
    if dotless == [b""]:
        # Maintain starting / if the entire path is dot segments
        return b"/", "url.dotpath"
    return b"/".join(dotless), "url.dotpath" if len(dotless) < len(segments) else ""


def _is_printable(b: bytes) -> bool:
    try:
        return b.decode("ascii").isprintable()
    except UnicodeDecodeError:
        return False
