"""
Character encodings
"""

from __future__ import annotations

import regex as re

from multidecoder.node import Node
from multidecoder.registry import decoder

UTF16_RE = (
    rb"(?s)(?:[^\x00-\x08\x0e-\x1f\x7f-\x9f]\x00){7,}"
    rb"(?:\x00\x00(?:\x00\x00)?(?:[^\x00-\x08\x0e-\x1f\x7f-\x9f]\x00){7,})*"
)


@decoder
def find_utf16(data: bytes) -> list[Node]:
    """Find utf-16 and convert it to utf-8"""
    return [
        Node(
            "",
            match.group().decode("utf-16").encode("utf-8"),
            "codec.uft-16",
            *match.span(),
        )
        for match in re.finditer(UTF16_RE, data)
    ]
