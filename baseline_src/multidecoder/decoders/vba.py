from __future__ import annotations

import regex as re

from multidecoder.decoders.concat import STRING_RE
from multidecoder.hit import find_and_deobfuscate
from multidecoder.node import Node
from multidecoder.registry import decoder

CREATE_OBJECT_RE = rb"(?i)createobject\("
STRREVERSE_RE = rb"(?i)StrReverse\(\s*(" + STRING_RE + rb")\s*\)"

OPEN_TO_CLOSE_MAP = {
    ord("("): ord(")"),
    ord("{"): ord("}"),
    ord("["): ord("]"),
    ord("<"): ord(">"),
}


def get_closing_brace(data: bytes, start_index: int, brace_ord: int = ord("(")) -> int:
    if brace_ord not in OPEN_TO_CLOSE_MAP:
        raise ValueError("Unsupported brace type")
    balance = 1
    index = start_index
    while index < len(data) and balance:
        if data[index] == OPEN_TO_CLOSE_MAP[brace_ord]:
            balance -= 1
        elif data[index] == brace_ord:
            balance += 1
        index += 1
    if balance == 0:
        return index
    return -1


@decoder
def find_createobject(data: bytes) -> list[Node]:
    out = []
    for match in re.finditer(CREATE_OBJECT_RE, data):
        index = get_closing_brace(data, match.end())
        if index > 0:
            out.append(
                Node(
                    "vba.function.createobject",
                    data[match.start() : index],
                    "",
                    match.start(),
                    index,
                )
            )
    return out


@decoder
def find_strreverse(data: bytes) -> list[Node]:
    return find_and_deobfuscate("vba.string", STRREVERSE_RE, data, lambda s: (s[-2:0:-1], "vba.reverse"), 1)
