from __future__ import annotations

import regex as re

from multidecoder.decoders.concat import STRING_RE
from multidecoder.node import Node
from multidecoder.registry import decoder

REPLACE_RE = rb"(?i)(" + STRING_RE + rb")\.replace\(\s*(" + STRING_RE + rb")\s*,\s*(" + STRING_RE + rb")\s*\)"
VBA_REPLACE_RE = rb"(?i)replace\(\s*(" + STRING_RE + rb")\s*,\s*(" + STRING_RE + rb")\s*,\s*(" + STRING_RE + rb")\s*\)"
POWERSHELL_REPLACE_RE = rb"(?i)(" + STRING_RE + rb")\s*-replace\s*(" + STRING_RE + rb")\s*,\s*(" + STRING_RE + rb")"
JS_REGEX_REPLACE_RE = (
    rb"(?i)(" + STRING_RE + rb")\.replace\(/([^/[\](){}\\.+*?^$,]+)/[gim]{0,3}\s*,\s*(" + STRING_RE + rb")\s*\)"
)


@decoder
def find_replace(data: bytes) -> list[Node]:
    return [
        Node(
            "string",
            match.group(1)[1:-1].replace(match.group(2)[1:-1], match.group(3)[1:-1]),
            "replace",
            *match.span(),
        )
        for match in re.finditer(REPLACE_RE, data)
    ]


@decoder
def find_powershell_replace(data: bytes) -> list[Node]:
    return [
        Node(
            "powershell.string",
            match.group(1)[1:-1].replace(match.group(2)[1:-1], match.group(3)[1:-1]),
            "replace",
            *match.span(),
        )
        for match in re.finditer(POWERSHELL_REPLACE_RE, data)
    ]


@decoder
def find_vba_replace(data: bytes) -> list[Node]:
    return [
        Node(
            "vba.string",
            match.group(1)[1:-1].replace(match.group(2)[1:-1], match.group(3)[1:-1]),
            "vba.replace",
            *match.span(),
        )
        for match in re.finditer(VBA_REPLACE_RE, data)
    ]


@decoder
def find_js_regex_replace(data: bytes) -> list[Node]:
    return [
        Node(
            "javascript.string",
            match.group(1)[1:-1].replace(match.group(2), match.group(3)[1:-1]),
            "replace",
            *match.span(),
        )
        for match in re.finditer(JS_REGEX_REPLACE_RE, data)
    ]
