from __future__ import annotations

import regex as re

from multidecoder.node import Node
from multidecoder.registry import decoder

DOUBLE_QUOTE_ESCAPES = rb'\\""?|""|`"'
# Single or double quoted strings with various possible escapes for ' or "
DOUBLE_QUOTE_STRING_RE = rb'"(?:[^"`\\]*(?:""|`.|\\[^"]|\\""?))*[^"`\\]*"'
SINGLE_QUOTE_STRING_RE = rb"'(?:[^']*'')*[^']*'"
STRING_RE = rb"(?:" + DOUBLE_QUOTE_STRING_RE + rb"|" + SINGLE_QUOTE_STRING_RE + rb")"
# _ is VB line continuation character
CONCAT_SPACER_RE = rb"[\s_]*(?:&|\+|&amp;)[\s_]*"
CONCAT_RE = rb"(?:" + STRING_RE + CONCAT_SPACER_RE + rb")+" + STRING_RE


@decoder
def find_concat(data: bytes) -> list[Node]:
    """Find and decode string concatenation"""
    return [
        Node(
            "string",
            re.sub(rb"['\"]" + CONCAT_SPACER_RE + rb"['\"]", b"", match.group())[1:-1],
            "concatenation",
            match.start(),
            match.end(),
        )
        for match in re.finditer(CONCAT_RE, data)
    ]
