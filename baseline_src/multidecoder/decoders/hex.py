from __future__ import annotations

from binascii import Error as binascii_error
from binascii import unhexlify

import regex as re

from multidecoder.node import Node
from multidecoder.registry import decoder
from multidecoder.xor_helper import apply_xor_key, get_xorkey

HEX_RE = rb"((?:[a-f0-9]{2}){10,}|(?:[A-F0-9]{2}){10,})"
HEX_SPACE_RE = rb"(?i)(?:[a-f0-9]{2}\s+){9,}[a-f0-9]{2}"
HEX_COMMA_RE = rb"(?i)(?:[a-f0-9]{2}\s*,\s*){9,}[a-f0-9]{2}"
FROMHEXSTRING_RE = rb"(?i)(\[System.Convert\]::)?FromHexString\('" + HEX_RE + rb"'\)"


@decoder
def find_hex(data: bytes) -> list[Node]:
    """
    Find all hexadecimal encoded sections in some data.

    Args:
        data: The data to search.
    Returns:
        A list of decoded hexadecimal sections and the location indexes of the section
        in the original data.
    """
    return [
        Node("", unhexlify(match.group(0)), "decoded.hexadecimal", *match.span(0))
        for match in re.finditer(HEX_RE, data)
    ]


def find_hex_space(data: bytes) -> list[Node]:
    """Find sequences of hexadecimal octets separated by whitespace."""
    return [
        Node("", unhexlify(re.sub(rb"\s+", b"", match.group(0))), "decoded.hexadecimal", *match.span(0))
        for match in re.finditer(HEX_SPACE_RE, data)
    ]


def find_hex_comma(data: bytes) -> list[Node]:
    """Find sequences of hexadecimal octets separated by commas.

    examples:
    - a1,b2,c3,d4
    - a1, b2, c3, d4
    - a1 , b2 , c3 , d4
    Handles any combination of a single comma and optional whitespace on either side
    """
    return [
        Node("", unhexlify(re.sub(rb"[\s,]+", b"", match.group(0))), "decoded.hexadecimal", *match.span(0))
        for match in re.finditer(HEX_COMMA_RE, data)
    ]


@decoder
def find_FromHexString(data: bytes) -> list[Node]:
    """
    Find the powershell function FromHexString and decode its argument

    Inspired by https://github.com/CYB3RMX/Qu1cksc0pe/blob/1a349826b248e578b0a2ec8b152eeeddf059c388/Modules/powershell_analyzer.py#L57
    """
    out: list[Node] = []
    xorkey = get_xorkey(data)
    for match in re.finditer(FROMHEXSTRING_RE, data):
        try:
            unhex = unhexlify(match.group(2))
            hex_node = Node("powershell.bytes", unhex, "encoding.hexidecimal", *match.span())
            if xorkey:
                hex_node = apply_xor_key(xorkey, unhex, hex_node, "powershell.bytes")
            out.append(hex_node)
        except binascii_error:
            continue
    return out
