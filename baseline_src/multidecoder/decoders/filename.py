from __future__ import annotations

from typing import TYPE_CHECKING

from multidecoder.hit import regex_hits
from multidecoder.registry import decoder

if TYPE_CHECKING:
    from multidecoder.node import Node

EXECUTABLE_TYPE = "executable.filename"
LIBRARY_TYPE = "executable.library.filename"

EXT_MAP = {b".dll": LIBRARY_TYPE, b".exe": EXECUTABLE_TYPE}

EXECUTABLE_RE = rb"(?i)\b\w+[.]exe\b"
LIBRARY_RE = rb"(?i)\b\w+[.]dll\b"


@decoder
def find_executable_name(data: bytes) -> list[Node]:
    """Find exe files"""
    return regex_hits(EXECUTABLE_TYPE, EXECUTABLE_RE, data)


@decoder
def find_library(data: bytes) -> list[Node]:
    """Find dll files"""
    return regex_hits(LIBRARY_TYPE, LIBRARY_RE, data)
