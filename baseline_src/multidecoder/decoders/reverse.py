from __future__ import annotations

from typing import TYPE_CHECKING

from multidecoder.decoders.concat import STRING_RE
from multidecoder.hit import find_and_deobfuscate
from multidecoder.registry import decoder

if TYPE_CHECKING:
    from multidecoder.node import Node

REVERSE_RE = rb"(?i)reversed?\(\s*(" + STRING_RE + rb")\s*\)"


@decoder
def find_reverse(data: bytes) -> list[Node]:
    return find_and_deobfuscate("string", REVERSE_RE, data, lambda s: (s[-2:0:-1], "reverse"), 1)
