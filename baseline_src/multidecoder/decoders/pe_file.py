from __future__ import annotations

import struct

import pefile
import regex as re

from multidecoder.node import Node
from multidecoder.registry import decoder

E_ELFANEW_OFFSET = 0x3C
E_ELFANEW_FORMAT = "<I"
E_ELFANEW_SIZE = struct.calcsize(E_ELFANEW_FORMAT)


@decoder
def find_pe_files(data: bytes) -> list[Node]:
    """Searches for any PE files within data."""
    pe_files: list[Node] = []
    # Regex is faster here than anything with str.find
    # because for str.find the loop has to be implemented in python
    len_data = len(data)
    for match in re.finditer(b"MZ", data):
        mz_offset = match.start()
        e_elfanew_location = mz_offset + E_ELFANEW_OFFSET
        if len_data < e_elfanew_location + E_ELFANEW_SIZE:
            continue
        (e_elfanew,) = struct.unpack_from(E_ELFANEW_FORMAT, data, e_elfanew_location)
        pe_offset = mz_offset + e_elfanew
        if data[pe_offset : pe_offset + 4] != b"PE\0\0":
            continue
        size = pe_size(data[mz_offset:])
        if size == 0:
            continue
        end = min(mz_offset + size, len_data)  # sections may claim to extend past the end of the data
        pe_files.append(Node("pe_file", data[mz_offset:end], "", mz_offset, end))
    return pe_files


def pe_size(pe_data) -> int:
    """Find the end of a PE file.

    If there is a parsable PE file at the start of pe_data this function returns the offset of the end of that PE file
    Otherwise it returns 0. Uses the pefile library to parse the PE.
    """
    try:
        pe = pefile.PE(data=pe_data)
        return max((section.PointerToRawData + section.SizeOfRawData for section in pe.sections), default=0)
    except pefile.PEFormatError:
        return 0
