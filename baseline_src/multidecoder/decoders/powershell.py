from __future__ import annotations

import regex as re

from multidecoder.node import Node
from multidecoder.registry import decoder
from multidecoder.xor_helper import apply_xor_key, get_xorkey
from multidecoder.xortool import xortool

POWERSHELL_BYTES_RE = rb"(?i)(?:(?:0x[0-9a-f]{2}|\d{1,3}),\s*){500,}(?:0x[0-9a-f]{2}|\d{1,3})"

POWERSHELL_BYTES_TYPE = "powershell.bytes"


@decoder
def find_powershell_bytes(data: bytes) -> list[Node]:
    def decode_byte(byte: bytes) -> int:
        stripped = byte.strip()
        return int(stripped.decode(), 16 if stripped.startswith(b"0x") else 10)

    out = []
    for match in re.finditer(POWERSHELL_BYTES_RE, data):
        try:
            binary = bytes(decode_byte(byte) for byte in match.group().split(b","))
        except ValueError:
            continue  # byte not in 0-256
        node = Node(POWERSHELL_BYTES_TYPE, binary, "", *match.span())
        if key := get_xorkey(data):
            apply_xor_key(key, binary, node, POWERSHELL_BYTES_TYPE)
        elif b"-bxor" in data:
            plaintexts = xortool(binary, [0])
            if plaintexts:
                node.children.append(
                    Node(POWERSHELL_BYTES_TYPE, plaintexts[0], "cipher.multibyte_xor", 0, len(binary), parent=node)
                )
        out.append(node)

    return out
