from __future__ import annotations

import binascii

import regex as re

from multidecoder.node import Node
from multidecoder.registry import decoder

CMD_RE = rb'(?i)("(?:C:\\WINDOWS\\system32\\)?\bcmd(?:.exe)?"|(?:C:\\Windows\\System32\\)?\bc\^?m\^?d\b)[^\x00]*'
POWERSHELL_INDICATOR_RE = (
    rb'(?i)(?:^|/c|/k|/r|[;,=&\'"({\\])\s*'
    rb"(\^?\bp\^?(?:o\^?w\^?e\^?r\^?s\^?h\^?e\^?l\^?l|w\^?s\^?h)(?:\^?.\^?e\^?x\^?e)?)\b"
)
SH_RE = rb'"(\s*(?:sh|bash|zsh|csh)[^"]+)"'
ENC_RE = (
    rb"(?i)\"?(?:(?:\^?\s)*\^?(?:\s\^?-|/)[a-z^]+)*(?:\^?\s)*\^?(?:\s\^?-|/)\^?"
    rb"e\^?(?:c|n\^?(?:c\^?(?:o\^?(?:d\^?(?:e\^?(?:d\^?(?:c\^?(?:o\^?(?:m\^?(?:m\^?(?:a\^?(?:n\^?d?)?)?)?)?)?)?)?)?)?)?)?)?"
    rb"(?:\^?\s)+\^?[\"\']?[a-z0-9+/^]{4,}=?\^?=?\^?[\'\"]?"
)
POWERSHELL_ARGS_RE = rb"\s*(powershell|pwsh)?(.exe)?\s*((-|/)[^\s]+\s+)*"


def strip_carets(cmd: bytes) -> bytes:
    in_string = False
    out = []
    i = 0
    while i < len(cmd) - 1:
        character = cmd[i]
        if character == ord('"'):
            # Starts or ends a string
            in_string = not in_string
        elif character == ord("\r"):
            # Line break
            in_string = False  # Line breaks automatically end strings
        elif character == ord("^") and not in_string:
            # Skip and treat the next character literally
            i += 1
            if cmd[i : i + 2] == b"\r\n":
                i += 2  # skip \r\n
        # Add the character (or next character if ^)
        if i < len(cmd):
            out.append(cmd[i])
        i += 1
    if i < len(cmd) and (cmd[i] != ord("^") or in_string):
        out.append(cmd[i])
    return bytes(out)


def deobfuscate_cmd(cmd: bytes) -> tuple[bytes, str]:
    stripped = strip_carets(cmd)
    return stripped, "unescape.shell.carets" if stripped != cmd else ""


@decoder
def find_cmd_strings(data: bytes) -> list[Node]:
    cmd_strings = []
    for match in re.finditer(CMD_RE, data):
        full_cmd = match.group()
        start, end = match.span()
        parens = 0
        for i, char in enumerate(full_cmd):
            if char == ord(b")"):
                parens -= 1
            elif char == ord(b"("):
                parens += 1
            if parens < 0:
                full_cmd = full_cmd[:i]
                end = start + i
                break
        deobfuscated, obfuscation = deobfuscate_cmd(full_cmd)

        split = deobfuscated.split()

        # The cmd binary/command itself is at split[0]
        if (not split[0].startswith(b'"') and split[0].endswith(b'"')) or (
            not split[0].startswith(b"'") and split[0].endswith(b"'")
        ):
            # Remove the trailing quotation
            split[0] = split[0][:-1]
            deobfuscated = b" ".join(split)

        cmd_string = Node("shell.cmd", deobfuscated, obfuscation, start, end)
        cmd_strings.append(cmd_string)
    return cmd_strings


@decoder
def find_powershell_strings(data: bytes) -> list[Node]:
    out = []
    # Find the string PowerShell, possibly obfuscated or shortened to pwsh
    for indicator in re.finditer(POWERSHELL_INDICATOR_RE, data):
        start = indicator.start(1)
        # Check for encoded parameter
        enc = re.match(ENC_RE, data, pos=indicator.end())
        if enc:
            end = enc.end()
            powershell = data[start : enc.end()]
        else:
            # Look back to find the start of the string or FOR loop
            bound_match = re.search(rb'(\'\(|[\'"])', data[start::-1])
            if bound_match:
                bound = bound_match.group()
                assert bound in (b"'(", b'"', b"'")
                if bound == b"'(":
                    # In a cmd FOR loop, find the end paren
                    end = data.find(b"')", start)
                elif bound == b'"':
                    # In a double quoted string, find the end quote
                    end = data.find(b'"', start)
                else:
                    # In a single quoted string, find the end quote
                    end = data.find(b"'", start)
                if end < 0:
                    end = len(data)  # unterminated: runs to the end of the text
                powershell = data[start:end]
            else:
                # No recognizable context, assume rest of file is all powershell
                end = len(data) - start
                powershell = data[start:]
        deobfuscated, obfuscation = deobfuscate_cmd(powershell)
        cmd_node = Node("shell.cmd", deobfuscated, obfuscation, start, end) if obfuscation else None
        if enc:
            if len(deobfuscated.split()) < 2:
                continue  # no separate encoded argument left after de-escaping
            pwsh_invocation, encoded = deobfuscated.rsplit(maxsplit=1)
            encoded = encoded.strip(b"'\"")
            if len(encoded) % 4 or b"^" in encoded:
                continue  # invalid base64
            try:
                b64 = binascii.a2b_base64(encoded).decode("utf-16", errors="ignore").encode()
            except binascii.Error:
                continue  # invalid base64
            pwsh_invocation = b" -".join(pwsh_invocation.split(b"/"))  # Replace cmd style args with powershell style
            args = pwsh_invocation.split()
            # The powershell binary/command itself is at args[0]
            if (not args[0].startswith(b'"') and args[0].endswith(b'"')) or (
                not args[0].startswith(b"'") and args[0].endswith(b"'")
            ):
                # Remove the trailing quotation
                args[0] = args[0][:-1]

            deobfuscated = b" ".join(args[:-1]) + b" -Command " + b64
            if cmd_node:
                cmd_node.children.append(
                    Node(
                        "shell.powershell",
                        deobfuscated,
                        "powershell.base64",
                        0,
                        len(deobfuscated),
                        cmd_node,
                    )
                )
                out.append(cmd_node)
            else:
                out.append(
                    Node(
                        "shell.powershell",
                        deobfuscated,
                        "powershell.base64",
                        start,
                        end,
                    )
                )
        else:
            if cmd_node:
                cmd_node.children.append(
                    Node(
                        "shell.powershell",
                        deobfuscated,
                        "",
                        0,
                        len(deobfuscated),
                        cmd_node,
                    )
                )
            out.append(Node("shell.powershell", deobfuscated, obfuscation, start, end))
    return out


def get_cmd_command(cmd: bytes) -> bytes:
    # Find end of argument string
    end = re.search(rb"(?i)&|/(c|k|r)", cmd)
    if end is None:
        return b""
    arg = cmd[end.end() :].strip()
    if end.group() != b'"' and arg.startswith(b'"'):
        # strip leading and final quote
        index = arg.rfind(b'"')
        arg = arg[1:index] + arg[index + 1 :] if index > 0 else arg[1:]

    # return everything after the arguments
    return arg


def get_powershell_command(powershell: bytes) -> bytes:
    match = re.match(POWERSHELL_ARGS_RE, powershell)
    if not match:
        return powershell
    command = powershell[match.end() :]
    # Strip if the command starts and end with a double quote (34) or single quote (39)
    if len(command) > 1 and command[0] in [34, 39] and command[0] == command[-1]:
        command = command[1:-1]
    return command
