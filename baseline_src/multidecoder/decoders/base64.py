"""
Base 64 encoded text
"""

from __future__ import annotations

import binascii

import regex as re

from multidecoder.decoders.powershell import POWERSHELL_BYTES_TYPE
from multidecoder.node import Node
from multidecoder.registry import decoder
from multidecoder.xor_helper import apply_xor_key, get_xorkey

HTML_ESCAPE_RE = rb"&#(?:x[a-fA-F0-9]{1,4}|\d{1,4});"
BASE64_RE = rb"(?:[A-Za-z0-9+/]{4,}(?:<\x00  \x00)?(?:&#13;|&#xD;)?(?:&#10;|&#xA;)?\r?\n?){5,}[A-Za-z0-9+/]{2,}=?=?"
BASE64DECODE_RE = rb"(?i)Base64Decode\(['\"]([a-z0-9/+]+=?=?)['\"]\)"
FROMB64STRING_RE = rb"(?i)(\[System.Convert\]::)?FromBase64String\(['\"]([a-z0-9+/]+=?=?)['\"]\)"
ATOB_RE = rb"atob\(['\"]([A-Za-z0-9+/]+=?=?)['\"]\)"

CAMEL_RE = rb"(?i)[a-z]+"
HEX_RE = rb"(?i)[a-f0-9]+"
MIN_B64_CHARS = 6


def pad_base64(b64: bytes) -> bytes:
    """Force base64 that is the wrong length to be decodable.

    If the length is 1 or 2 characters from a multiple of 4, it is padded with '='s.
    If the length is 3 from a multiple of 4 the last character is removed.
    If the length is a multiple of 4 it is returned unchanged.
    """
    padding = -len(b64) % 4
    if not padding:
        return b64
    if padding == 3:
        return b64[:-1]  # Corrupted end, just keep the valid part
    return b64 + b"=" * padding


@decoder
def find_atob(data: bytes) -> list[Node]:
    """Find the javascript base64 decoding function atob and decode its argument."""
    out: list[Node] = []
    for match in re.finditer(ATOB_RE, data):
        try:
            b64 = binascii.a2b_base64(match.group(1))
            out.append(Node("javascript.string", b64, "encoding.base64", *match.span()))
        except binascii.Error:
            continue
    return out


@decoder
def find_base64(data: bytes) -> list[Node]:
    """
    Find all base64 encoded sections in some data.

    Args:
        data: The data to search.
    Returns:
        A list of decoded base64 sections and the location indexes of the section
        in the original data.
    """
    b64_matches = []
    for b64_match in re.finditer(BASE64_RE, data):
        b64_string = (
            re.sub(HTML_ESCAPE_RE, b"", b64_match.group())
            .replace(b"\n", b"")
            .replace(b"\r", b"")
            .replace(b"<\x00  \x00", b"")
        )
        if len(b64_string) % 4 != 0 or len(set(b64_string)) <= MIN_B64_CHARS:
            continue
        if re.fullmatch(HEX_RE, b64_string):
            # Hexadecimal characters are a subset of base64
            # Hashes commonly are hex and have multiple of 4 lengths
            continue
        if re.fullmatch(CAMEL_RE, b64_string):
            # Camel case text can be confused for base64
            # It is common in scripts as names
            continue
        if b64_string.count(b"/") / len(b64_string) > 3 / 32:
            # If there are a lot of / it as more likely a path
            continue
        try:
            b64_result = binascii.a2b_base64(b64_string)
            b64_matches.append(
                Node(
                    "",
                    b64_result,
                    "encoding.base64",
                    b64_match.start(),
                    b64_match.end(),
                )
            )
        except binascii.Error:
            pass
    return b64_matches


@decoder
def find_Base64Decode(data: bytes) -> list[Node]:
    """
    Find the vba function Base64Decode and decode its arguement
    """
    out: list[Node] = []
    for match in re.finditer(BASE64DECODE_RE, data):
        try:
            b64 = binascii.a2b_base64(match.group(1))
            out.append(Node("vba.string", b64, "encoding.base64", *match.span()))
        except binascii.Error:
            continue
    return out


@decoder
def find_FromBase64String(data: bytes) -> list[Node]:
    """
    Find the powershell function FromBase64String and decode its argument

    Supported by https://github.com/CYB3RMX/Qu1cksc0pe/blob/1a349826b248e578b0a2ec8b152eeeddf059c388/Modules/powershell_analyzer.py#L53
    """
    out: list[Node] = []
    xorkey = get_xorkey(data)
    for match in re.finditer(FROMB64STRING_RE, data):
        try:
            b64 = binascii.a2b_base64(match.group(2))
            b64_node = Node(POWERSHELL_BYTES_TYPE, b64, "encoding.base64", *match.span())
            if xorkey:
                b64_node = apply_xor_key(xorkey, b64, b64_node, POWERSHELL_BYTES_TYPE)
            out.append(b64_node)
        except binascii.Error:
            continue
    return out
