from __future__ import annotations

import regex as re

from multidecoder.node import Node
from multidecoder.registry import decoder

XML_ESCAPE_RE = rb"(?i)(?:&#(x[a-f0-9]{2}|(?:25[0-5]|2[0-4][0-9]|[0-1]?[0-9]{1,2}));){5,}"


def unescape_xml(data: bytes) -> bytes:
    return bytes(
        int(x[1:], base=16) if x.startswith((b"x", b"X")) else int(x) for x in data.replace(b"&#", b"").split(b";")[:-1]
    )


@decoder
def find_xml_hex(data: bytes) -> list[Node]:
    return [
        Node(
            "",
            unescape_xml(match.group()),
            "unescape.xml",
            match.start(),
            match.end(),
        )
        for match in re.finditer(XML_ESCAPE_RE, data)
    ]
