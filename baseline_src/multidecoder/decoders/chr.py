from __future__ import annotations

import regex as re

from multidecoder.node import Node
from multidecoder.registry import decoder

CHR_RE = rb"(?i)chr[bw]?\((0*\d{1,5})\)"


@decoder
def find_chr(data: bytes) -> list[Node]:
    """Find and decode calls to the chr function"""
    out = []
    for match in re.finditer(CHR_RE, data):
        try:
            character = chr(int(match.group(1))).encode()
        except (ValueError, UnicodeEncodeError):
            continue
        out.append(Node("string", character, "function.chr", *match.span()))
    return out
