from __future__ import annotations

import ntpath

import regex as re

from multidecoder.decoders.filename import EXT_MAP
from multidecoder.decoders.network import is_domain, parse_ip
from multidecoder.hit import regex_hits
from multidecoder.node import Node
from multidecoder.registry import decoder

# Posix style paths
PATH_RE = rb"[.]?[.]?/(\w{3,}/)+[\w.]{3,}"

# Windows Paths
# See https://learn.microsoft.com/en-us/dotnet/standard/io/file-path-formats
WINDOWS_PATH_RE = (
    rb"(?i)(?:\\\\[.?]\\(?:[a-z]:\\|UNC\\[\w.-]+\\(?:[a-z][$]\\)?|Volume\{[a-z0-9-]{36}\}\\)?"  # DOS device path
    rb"|\\\\[\w.-]+(?:@SSL)?(?:@\d{,5})?\\(?:[a-z][$]\\)?"  # UNC path
    rb"|[a-z]:\\?|\\)?"  # absolute or drive relative path
    rb"(?:(?:[.]|[.][.]|[\w.-]{3,})\\)+"  # path segments
    rb"[\w.-]{3,}"  # filename
)


@decoder
def find_path(data: bytes) -> list[Node]:
    return regex_hits("path", PATH_RE, data)


@decoder
def find_windows_path(data: bytes) -> list[Node]:
    output = []
    for match in re.finditer(WINDOWS_PATH_RE, data):
        path = match.group()
        length = len(path)
        path = ntpath.normpath(path)
        obfuscation = "windows.dotpath" if len(path) < length else ""
        children = []
        segments = path.split(b"\\")
        if path.startswith((b"\\\\.\\", b"\\\\?\\")):
            path_type = "windows.device.path"
            if segments[3].upper() == b"UNC":
                hostname = segments[4].split(b"@", maxsplit=1)[0]
                try:
                    children.append(parse_ip(hostname).shift(8))
                except ValueError:
                    if is_domain(hostname):
                        children.append(Node("network.domain", hostname, "", 8, 8 + len(hostname)))
        elif path.startswith(Rb"\\"):
            path_type = "windows.unc.path"
            hostname = segments[2].split(b"@", maxsplit=1)[0]
            try:
                children.append(parse_ip(hostname).shift(2))
            except ValueError:
                if is_domain(hostname):
                    children.append(Node("network.domain", hostname, "", 2, 2 + len(hostname)))
        else:
            path_type = "windows.path"
        filename = segments[-1]
        basename, extension = ntpath.splitext(filename)
        if extension:
            type_ = EXT_MAP.get(extension.lower(), "filename")
            children.append(Node(type_, filename, "", len(path) - len(filename), len(path)))
        output.append(Node(path_type, path, obfuscation, *match.span(), children=children))
    return output
