"""Helper functions for xor capabilities."""

import regex as re

from multidecoder.node import Node

# Supported by https://github.com/CYB3RMX/Qu1cksc0pe/blob/1a349826b248e578b0a2ec8b152eeeddf059c388/Modules/powershell_analyzer.py#L116
XOR_RE = rb"(?i)-b?xor\s*(\d{1,3})"


def get_xorkey(data: bytes) -> int:
    xorkey = re.search(XOR_RE, data)
    if xorkey:
        return int(xorkey.group(1))
    return None


def apply_xor_key(xorkey: int, data: bytes, node: Node, new_node_type: str) -> Node:
    if xorkey > 255:
        return node  # not a single-byte key
    data = bytes(b ^ xorkey for b in data)
    node.children.append(
        Node(
            new_node_type,
            data,
            "cipher.xor" + str(xorkey),
            end=len(data),
            parent=node,
        )
    )
    return node
