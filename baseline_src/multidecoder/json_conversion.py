from __future__ import annotations

import json
from typing import Any

from multidecoder.node import Node


def node_to_dict(node: Node) -> dict[str, Any]:
    return {
        "type": node.type,
        "value": node.value.hex(),
        "obfuscation": node.obfuscation,
        "start": node.start,
        "end": node.end,
        # Ignore parent to avoid circularity
        "children": [node_to_dict(child) for child in node.children],
    }


class NodeEncoder(json.JSONEncoder):
    def default(self, node):
        if isinstance(node, Node):
            return node_to_dict(node)
        return json.JSONEncoder.default(self, node)


def as_node(d: dict[str, Any], parent: Node | None = None) -> Node:
    node = Node(
        type_=d["type"],
        value=bytes.fromhex(d["value"]),
        obfuscation=d["obfuscation"],
        start=d["start"],
        end=d["end"],
        parent=parent,
    )
    node.children = [as_node(child, node) for child in d["children"]]
    return node


def tree_to_json(tree: Node, **kargs) -> str:
    return json.dumps(tree, cls=NodeEncoder, **kargs)


def json_to_tree(serialized: str, **kargs) -> Node:
    return as_node(json.loads(serialized, **kargs))
