"""Helper functions for type coersion between string and bytes."""

from __future__ import annotations


def make_str(string: str | bytes) -> str:
    """Helper function for bytes to str coercion."""
    return string.decode(errors="ignore") if isinstance(string, bytes) else string


def make_bytes(string: str | bytes) -> bytes:
    """Helper function for str to bytes coercion"""
    return string.encode(errors="ignore") if isinstance(string, str) else string
