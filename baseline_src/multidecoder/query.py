from __future__ import annotations

import warnings
from collections import Counter
from typing import TYPE_CHECKING

if TYPE_CHECKING:
    from multidecoder.node import Node


def invert_tree(tree: list[Node]) -> list[Node]:
    warnings.warn(
        "invert_tree is obsolete. Use list(root_node) instead.",
        DeprecationWarning,
        stacklevel=2,
    )
    nodes: list[Node] = []
    for node in tree:
        nodes.extend(node)
    return nodes


def make_label(node: Node | None) -> str:
    label_list = []
    while node:
        if node.type:
            label_list.append(node.type)
        if node.obfuscation:
            label_list.append(">" + node.obfuscation)
        node = node.parent
    return "/".join(label_list[::-1])


def string_summary(tree: Node) -> list[str]:
    return [make_label(node) + " " + repr(node.value)[2:-1] for node in tree]


def squash_replace(data: bytes, tree: list[Node]) -> bytes:
    warnings.warn("squash_replace is depricated. Use node.flatten() instead", DeprecationWarning, stacklevel=2)
    offset = 0
    output = []
    for node in tree:
        node_data = squash_replace(node.value, node.children)
        if node_data != data[node.start : node.end]:
            output.append(data[offset : node.start])
            if node.type.endswith("string"):
                node_data = b'"' + node_data + b'"'
            output.append(node_data)
            offset = node.end
    output.append(data[offset:])
    return b"".join(output)


def obfuscation_counts(tree: list[Node]) -> Counter[str]:
    warnings.warn(
        "obfuscation_counts is obsolete. Use Counter(child.obfuscation for child in node) instead.",
        DeprecationWarning,
        stacklevel=2,
    )
    counts: Counter[str] = Counter()
    for node in tree:
        if node.obfuscation:
            counts.update(node.obfuscation)
        counts.update(obfuscation_counts(node.children))
    return counts
