# setup: full .vo build of the Coq development + extracted correspondence runner
.PHONY: setup clean
setup:
	PYTHONPATH=/repo/src PYTHONHASHSEED=0 PYTHONDONTWRITEBYTECODE=1 /venv/bin/python harness/setup.py
clean:
	rm -rf build coq/Makefile coq/Makefile.conf coq/.Makefile.d
	find coq -name '*.vo' -o -name '*.vok' -o -name '*.vos' -o -name '*.glob' -o -name '.*.aux' | xargs rm -f
