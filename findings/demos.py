"""Concrete reproductions of the defects found in /repo (DESIGN.md section 5).
Usage: PYTHONPATH=<tree>/src /venv/bin/python demos.py [F1 F2 ...]
Prints, per finding, PRESENT (defect reproduces) or ABSENT."""
import signal
import sys


class TO(Exception):
    pass


def with_timeout(f, secs=3):
    def h(*a):
        raise TO()
    signal.signal(signal.SIGALRM, h)
    signal.setitimer(signal.ITIMER_REAL, secs)
    try:
        return f()
    finally:
        signal.setitimer(signal.ITIMER_REAL, 0)


def raises(f, *exc):
    try:
        f()
    except exc:
        return True
    return False


def F1():
    from multidecoder.decoders.shell import strip_carets
    return raises(lambda: strip_carets(b"abc^\r"), IndexError) or raises(lambda: strip_carets(b"abc^\r\n"), IndexError) \
        or strip_carets(b"a^\rXb") != b"a\rXb"


def F2():
    from multidecoder.decoders.xml import find_xml_hex
    return raises(lambda: find_xml_hex(b"&#xzz;" * 5), ValueError)


def F3():
    from multidecoder.decoders.base64 import find_FromBase64String
    return raises(lambda: find_FromBase64String(b"FromBase64String('ZHVjaw==') -bxor 999"), ValueError)


def F4():
    from multidecoder.decoders.shell import find_powershell_strings
    return raises(lambda: find_powershell_strings(b"powershell/e^\r\nAAAA"), ValueError)


def _pe(section_end):
    import struct
    hdr = bytearray(0x200)
    hdr[0:2] = b"MZ"
    struct.pack_into("<I", hdr, 0x3C, 0x80)
    hdr[0x80:0x84] = b"PE\0\0"
    struct.pack_into("<HHIIIHH", hdr, 0x84, 0x14C, 1, 0, 0, 0, 0xE0, 0x102)
    struct.pack_into("<H", hdr, 0x98, 0x10B)
    sec = 0x98 + 0xE0
    hdr[sec:sec + 8] = b".text\0\0\0"
    struct.pack_into("<IIII", hdr, sec + 8, 0x100, 0x1000, section_end - 0x200, 0x200)
    return bytes(hdr)


def F5():
    from multidecoder.multidecoder import Multidecoder
    from multidecoder.decoders.pe_file import find_pe_files
    data = _pe(0x5000)  # section claims to end far past EOF
    hits = find_pe_files(data)
    if not hits:
        return False
    if hits[0].end <= len(data):
        return False
    try:
        with_timeout(lambda: Multidecoder([find_pe_files]).scan(data), 2)
    except TO:
        return True
    return True


def F6():
    from multidecoder.decoders.shell import find_powershell_strings
    hits = find_powershell_strings(b"xxxxxxxxxxxxxxxxxxxxxxxxxxxxxxxxxxxxxxxxx;powershell -nop Get-Item x")
    return any(h.end < h.start for h in hits)


def F7():
    from multidecoder.decoders.shell import find_powershell_strings
    hits = find_powershell_strings(b'x = "powershell -nop Get-Item and no closing quote')
    return any(h.end < 0 for h in hits)


def F8():
    from multidecoder.decoders.network import find_urls
    (u,) = find_urls(b"http://ex%61mple.com/a%62c?q=1")
    return any(u.value[c.start:c.end] not in (b"http", b"example.com", b"/abc", b"q=1") for c in u.children)


def F9():
    from multidecoder.decoders.network import normalize_path
    return normalize_path(b"/a/../../b")[0] != b"/b" or normalize_path(b"/..")[0] != b"/"


def F12():
    from multidecoder.decoders.shell import find_cmd_strings
    (h,) = find_cmd_strings(b"cmd a) b) c")
    return (h.start, h.end) != (0, 5)


def F13():
    from multidecoder.decoders.filename import find_library
    return any(h.type != "executable.library.filename" for h in find_library(b"load kernel32.dll now"))


def F14():
    from multidecoder.json_conversion import json_to_tree, tree_to_json
    from multidecoder.node import Node
    t = Node("", b"ab", "", 0, 2, children=[Node("x", b"a", "o", 0, 1)])
    try:
        return json_to_tree(tree_to_json(t)) != t
    except TypeError:
        return True


def F15():
    from multidecoder.multidecoder import Multidecoder
    from multidecoder.node import Node
    def dec(v):
        if v == b"abcdef":
            return [Node("t2", b"bc", "", 1, 3), Node("t0", b"D0", "", 1, 2), Node("t1", b"b", "", 1, 2)]
        return []
    t = Multidecoder([dec]).scan(b"abcdef")
    ctx = t.children[0]
    return [c.type for c in ctx.children] != ["t0"]  # the raw hit inside the decoded span must be suppressed


def F16():
    import os, subprocess
    code = ("from multidecoder.multidecoder import Multidecoder;from multidecoder.json_conversion import tree_to_json;"
            "print(tree_to_json(Multidecoder().scan(b'call StrLen and strlen plus WriteFile writefile here')))")
    outs = set()
    for seed in ("0", "1", "2", "3", "4", "5"):
        env = dict(os.environ, PYTHONHASHSEED=seed)
        outs.add(subprocess.run([sys.executable, "-c", code], env=env, capture_output=True).stdout)
    return len(outs) > 1




def F18():
    from multidecoder.decoders.network import find_urls
    (u,) = find_urls(b"see http://a.com/p?#frag now")
    return any(c.type == "network.url.fragment" and u.value[c.start:c.end] != b"frag" for c in u.children)


def F19():
    from multidecoder.decoders.shell import find_powershell_strings
    hits = find_powershell_strings(b"^powershell -enc 0x41,0x42,V")
    return any(not (0 <= c.start <= c.end <= len(h.value)) for h in hits for c in h.children)


def F10():
    import base64
    from multidecoder.decoders.base64 import find_base64
    payload = b"The quick brown fox jumps over the lazy dog!! and again the fox"
    b64 = base64.b64encode(payload)
    text = b"&#xD;&#xA;".join(b64[i:i + 20] for i in range(0, len(b64), 20))
    hits = find_base64(b"zz " + text + b" zz")
    return not (len(hits) == 1 and hits[0].value == payload and (hits[0].start, hits[0].end) == (3, 3 + len(text)))


def F20():
    from multidecoder.decoders.path import find_windows_path
    bad = False
    for d in (b"\\\\.abc\\UNC\\1.2.3.4\\file.txt", b"\\\\..\\UNC\\evil.com\\file.txt"):
        for h in find_windows_path(d):
            for c in h.children:
                if c.type in ("network.ip", "network.domain") and h.value[c.start:c.end] != c.value:
                    bad = True
    return bad


def F21():
    from multidecoder.decoders.network import find_urls
    return raises(lambda: find_urls(b"x http://[::1%2E]/ y"), ValueError)


def F22():
    from multidecoder.decoders.network import find_urls
    bad = False
    for d, host in ((b"http://@host.com/", b"host.com"), (b"http://user:@host.com/", b"host.com"), (b"http://a%20b.com/x", b"a%20b.com")):
        for u in find_urls(d):
            for c in u.children:
                if c.type in ("network.domain", "network.ip") and u.value[c.start:c.end] != host:
                    bad = True
    return bad


def F23():
    from multidecoder.decoders.network import find_ips
    return len(find_ips(b"1.2.3.4 <t>")) != len(find_ips(b" 1.2.3.4 <t>"))


def F24():
    from multidecoder.decoders.powershell import find_powershell_bytes
    data = b",".join(b"%d" % (i % 256) for i in range(600)) + b" -bxor $k"
    try:
        with_timeout(lambda: find_powershell_bytes(data), 10)
    except TO:
        return True
    return False


def F25():
    from multidecoder.decoders.network import find_domains, find_emails, is_domain
    d = b"portal.international"
    return is_domain(d) and (not find_domains(b"see " + d + b" now") or not find_emails(b"mail bob@" + d + b" now"))


def F26():
    from multidecoder.multidecoder import Multidecoder
    t = Multidecoder().scan(b"createobject(" * 1200 + b"x" + b")" * 1200)
    try:
        t.flatten()
    except RecursionError:
        return True
    return False


ALL = ["F1", "F2", "F3", "F4", "F5", "F6", "F7", "F8", "F9", "F12", "F13", "F14", "F15", "F16", "F18", "F19", "F10", "F20", "F21", "F22", "F23", "F24", "F25", "F26"]
if __name__ == "__main__":
    for name in (sys.argv[1:] or ALL):
        try:
            r = globals()[name]()
        except Exception as ex:
            r = f"demo error {type(ex).__name__}: {ex}"
        print(name, "PRESENT" if r is True else ("ABSENT" if r is False else r))

