(* Regular-expression toolkit: syntax, erased language, Brzozowski derivatives,
   monitors and the product exploration.  DEFINITIONS ONLY - the lemmas are in
   Regex/DerivProofs.v and Regex/MonitorProofs.v.
   Bytes are N (a well-formed byte is < 256), words are list N. *)
From Coq Require Import List NArith PArith Arith Bool FMapPositive.
Import ListNotations.
Local Open Scope nat_scope.

(* ------------------------------------------------------------------ *)
(* Syntax                                                              *)
(* ------------------------------------------------------------------ *)
Inductive re :=
| Emp
| Eps
| Cls (mask : N)                          (* byte c is in the class iff N.testbit mask c *)
| Seq (a b : re)
| Alt (a b : re)
| Rep (lo : nat) (hi : option nat) (a : re)   (* greedy a{lo,hi}; hi = None is unbounded *)
| Grp (k : nat) (a : re)                  (* capture group k *)
| NLook (behind : bool) (a : re)          (* negative look-ahead / look-behind *)
| WordB | Bol | Eol.

(* ------------------------------------------------------------------ *)
(* Language of the erased regex                                        *)
(* ------------------------------------------------------------------ *)
Definition hi_ok (hi : option nat) (n : nat) : Prop :=
  match hi with Some h => n <= h | None => True end.

(* concatenation of n words of L *)
Fixpoint lpow (L : list N -> Prop) (n : nat) (w : list N) : Prop :=
  match n with
  | O => w = []
  | S n' => exists u v, w = u ++ v /\ L u /\ lpow L n' v
  end.

Fixpoint Lang (r : re) (w : list N) : Prop :=
  match r with
  | Emp => False
  | Eps => w = []
  | Cls m => exists c, w = [c] /\ N.testbit m c = true
  | Seq a b => exists u v, w = u ++ v /\ Lang a u /\ Lang b v
  | Alt a b => Lang a w \/ Lang b w
  | Rep lo hi a => exists n, lo <= n /\ hi_ok hi n /\ lpow (Lang a) n w
  | Grp _ a => Lang a w
  | NLook _ _ | WordB | Bol | Eol => w = []
  end.

(* ------------------------------------------------------------------ *)
(* Boolean equality                                                    *)
(* ------------------------------------------------------------------ *)
Definition onat_eqb (a b : option nat) : bool :=
  match a, b with
  | None, None => true
  | Some x, Some y => Nat.eqb x y
  | _, _ => false
  end.

Fixpoint re_eqb (x y : re) : bool :=
  match x, y with
  | Emp, Emp | Eps, Eps | WordB, WordB | Bol, Bol | Eol, Eol => true
  | Cls m, Cls m' => N.eqb m m'
  | Seq a b, Seq a' b' => re_eqb a a' && re_eqb b b'
  | Alt a b, Alt a' b' => re_eqb a a' && re_eqb b b'
  | Rep lo hi a, Rep lo' hi' a' => Nat.eqb lo lo' && onat_eqb hi hi' && re_eqb a a'
  | Grp k a, Grp k' a' => Nat.eqb k k' && re_eqb a a'
  | NLook d a, NLook d' a' => Bool.eqb d d' && re_eqb a a'
  | _, _ => false
  end.

(* ------------------------------------------------------------------ *)
(* nullable, smart constructors, derivative, matcher                   *)
(* ------------------------------------------------------------------ *)
Definition lo_le_hi (lo : nat) (hi : option nat) : bool :=
  match hi with Some h => Nat.leb lo h | None => true end.

Fixpoint nullable (r : re) : bool :=
  match r with
  | Emp | Cls _ => false
  | Eps | NLook _ _ | WordB | Bol | Eol => true
  | Seq a b => nullable a && nullable b
  | Alt a b => nullable a || nullable b
  | Rep lo hi a => match lo with O => true | S _ => nullable a && lo_le_hi lo hi end
  | Grp _ a => nullable a
  end.

Definition is_emp (r : re) : bool := match r with Emp => true | _ => false end.

Definition mkSeq (a b : re) : re :=
  match a, b with
  | Emp, _ => Emp
  | _, Emp => Emp
  | Eps, _ => b
  | _, Eps => a
  | _, _ => Seq a b
  end.

(* a total pre-order used only to keep alternatives sorted (no property of it is needed) *)
Definition re_rank (r : re) : nat :=
  match r with
  | Emp => 0 | Eps => 1 | Cls _ => 2 | Seq _ _ => 3 | Alt _ _ => 4 | Rep _ _ _ => 5
  | Grp _ _ => 6 | NLook _ _ => 7 | WordB => 8 | Bol => 9 | Eol => 10
  end.

Definition lex (c1 c2 : comparison) : comparison :=
  match c1 with Eq => c2 | _ => c1 end.

Definition onat_compare (a b : option nat) : comparison :=
  match a, b with
  | None, None => Eq
  | None, Some _ => Gt
  | Some _, None => Lt
  | Some x, Some y => Nat.compare x y
  end.

Fixpoint re_compare (x y : re) : comparison :=
  match x, y with
  | Cls m, Cls m' => N.compare m m'
  | Seq a b, Seq a' b' => lex (re_compare a a') (re_compare b b')
  | Alt a b, Alt a' b' => lex (re_compare a a') (re_compare b b')
  | Rep lo hi a, Rep lo' hi' a' =>
      lex (Nat.compare lo lo') (lex (onat_compare hi hi') (re_compare a a'))
  | Grp k a, Grp k' a' => lex (Nat.compare k k') (re_compare a a')
  | NLook d a, NLook d' a' =>
      lex (match d, d' with false, true => Lt | true, false => Gt | _, _ => Eq end) (re_compare a a')
  | _, _ => Nat.compare (re_rank x) (re_rank y)
  end.

(* insert the alternative x into the right-nested, sorted, duplicate-free alternation b *)
Fixpoint alt_insert (x b : re) : re :=
  match b with
  | Emp => x
  | Alt y b' =>
      match re_compare x y with
      | Lt => Alt x b
      | Eq => if re_eqb x y then b else Alt x b
      | Gt => Alt y (alt_insert x b')
      end
  | _ =>
      match re_compare x b with
      | Lt => Alt x b
      | Eq => if re_eqb x b then b else Alt x b
      | Gt => Alt b x
      end
  end.

(* alternation modulo associativity, commutativity and idempotence *)
Fixpoint mkAlt (a b : re) : re :=
  match a with
  | Emp => b
  | Alt a1 a2 => mkAlt a1 (mkAlt a2 b)
  | _ => alt_insert a b
  end.

Definition mkRep (lo : nat) (hi : option nat) (a : re) : re :=
  match hi with
  | Some h => if Nat.ltb h lo then Emp
              else match h with O => Eps | S _ => Rep lo hi a end
  | None => Rep lo hi a
  end.

Fixpoint deriv (c : N) (r : re) : re :=
  match r with
  | Emp | Eps | NLook _ _ | WordB | Bol | Eol => Emp
  | Cls m => if N.testbit m c then Eps else Emp
  | Seq a b => if nullable a then mkAlt (mkSeq (deriv c a) b) (deriv c b)
               else mkSeq (deriv c a) b
  | Alt a b => mkAlt (deriv c a) (deriv c b)
  | Rep lo hi a =>
      match hi with
      | Some O => Emp
      | _ => mkSeq (deriv c a) (mkRep (pred lo) (option_map pred hi) a)
      end
  | Grp _ a => deriv c a
  end.

Definition derivs (r : re) (w : list N) : re := fold_left (fun r c => deriv c r) w r.
Definition matchb (r : re) (w : list N) : bool := nullable (derivs r w).

(* every repeated body is non-nullable (the translator guarantees it) *)
Fixpoint wf (r : re) : bool :=
  match r with
  | Emp | Eps | Cls _ | WordB | Bol | Eol => true
  | Seq a b | Alt a b => wf a && wf b
  | Rep _ _ a => negb (nullable a) && wf a
  | Grp _ a => wf a
  | NLook _ a => wf a
  end.

(* ------------------------------------------------------------------ *)
(* Simple analyses / transformations                                   *)
(* ------------------------------------------------------------------ *)
(* lower bound on the length of the words of Lang r *)
Fixpoint minlen (r : re) : nat :=
  match r with
  | Emp | Eps | NLook _ _ | WordB | Bol | Eol => 0
  | Cls _ => 1
  | Seq a b => minlen a + minlen b
  | Alt a b => match a, b with
               | Emp, _ => minlen b
               | _, Emp => minlen a
               | _, _ => Nat.min (minlen a) (minlen b)
               end
  | Rep lo _ a => lo * minlen a
  | Grp _ a => minlen a
  end.

(* relax k r: every minimum repeat count above k is lowered to k and every maximum
   repeat count above k is dropped.  Lang r is included in Lang (relax k r). *)
Definition relax_hi (k : nat) (hi : option nat) : option nat :=
  match hi with
  | Some h => if Nat.leb h k then Some h else None
  | None => None
  end.

Fixpoint relax (k : nat) (r : re) : re :=
  match r with
  | Seq a b => Seq (relax k a) (relax k b)
  | Alt a b => Alt (relax k a) (relax k b)
  | Rep lo hi a => Rep (Nat.min lo k) (relax_hi k hi) (relax k a)
  | Grp g a => Grp g (relax k a)
  | _ => r
  end.

(* all the class masks occurring in r (look-around bodies excluded: they are erased) *)
Fixpoint masks (r : re) : list N :=
  match r with
  | Cls m => [m]
  | Seq a b | Alt a b => masks a ++ masks b
  | Rep _ _ a | Grp _ a => masks a
  | _ => []
  end.

(* a mask only talks about bytes 0..255 *)
Definition mask_ok (m : N) : bool := N.ltb (N.log2 m) 256.
Definition masks_ok (r : re) : bool := forallb mask_ok (masks r).

(* cheap structural hash, used only to pick a bucket of the seen-set *)
Definition hmask : N := 1073741823.  (* 2^30 - 1 *)
Definition times5 (x : N) : N := x + N.double (N.double x).
Definition times33 (x : N) : N := x + N.double (N.double (N.double (N.double (N.double x)))).
Definition hcomb (t x y : N) : N := N.land (t + times5 x + times33 y) hmask.
Definition hnat (n : nat) : N := N.of_nat n.
Definition honat (o : option nat) : N :=
  match o with None => 0 | Some n => N.succ (N.of_nat n) end.
Definition hfold (m : N) : N :=
  let m1 := N.shiftr m 48 in
  let m2 := N.shiftr m1 48 in
  N.land m hmask + N.land m1 hmask + times5 (N.land m2 hmask).

Fixpoint re_hash (r : re) : N :=
  match r with
  | Emp => 1
  | Eps => 2
  | Cls m => hcomb 3 (hfold m) 5
  | Seq a b => hcomb 4 (re_hash a) (re_hash b)
  | Alt a b => hcomb 5 (re_hash a) (re_hash b)
  | Rep lo hi a => hcomb 6 (hcomb 61 (hnat lo) (honat hi)) (re_hash a)
  | Grp k a => hcomb 7 (hnat k) (re_hash a)
  | NLook d a => hcomb (if d then 8 else 9) (re_hash a) 11
  | WordB => 10
  | Bol => 11
  | Eol => 12
  end.

(* ------------------------------------------------------------------ *)
(* Monitors                                                            *)
(* ------------------------------------------------------------------ *)
(* A deterministic automaton over a small state type.  The step function sees a byte
   only through its class [mclass c].  [mhash] is only a bucket hint (any function is
   fine).  [mtop q = true] declares q an accepting sink: exploration is pruned there. *)
Record monitor := {
  mst : Type;
  meqb : mst -> mst -> bool;
  mhash : mst -> N;
  mclass : N -> N;
  mstep : mst -> N -> mst;       (* second argument: the CLASS of the byte *)
  macc : mst -> bool;
  mtop : mst -> bool;
  meqb_eq : forall a b, meqb a b = true -> a = b;
  mtop_ok : forall q, mtop q = true -> macc q = true /\ forall k, mtop (mstep q k) = true
}.

Definition run (M : monitor) (q0 : mst M) (w : list N) : mst M :=
  fold_left (fun q c => mstep M q (mclass M c)) w q0.

(* ------------------------------------------------------------------ *)
(* Byte classes: one representative per class                          *)
(* ------------------------------------------------------------------ *)
Definition bytes256 : list N := map N.of_nat (seq 0 256).

(* c and c' agree on every mask of ms and on cls *)
Definition same_class (ms : list N) (cls : N -> N) (c c' : N) : bool :=
  N.eqb (cls c) (cls c') &&
  forallb (fun m => Bool.eqb (N.testbit m c) (N.testbit m c')) ms.

Fixpoint nub (same : N -> N -> bool) (l acc : list N) : list N :=
  match l with
  | [] => acc
  | c :: l' => if existsb (fun c' => same c' c) acc then nub same l' acc
               else nub same l' (c :: acc)
  end.

Definition class_reps (ms : list N) (cls : N -> N) : list N :=
  nub (same_class ms cls) bytes256 [].

(* ------------------------------------------------------------------ *)
(* Product exploration                                                 *)
(* ------------------------------------------------------------------ *)
Inductive cex_result := CexNone | CexFuel | CexBadMask | CexWord (w : list N).

Section Explore.
  Variable M : monitor.
  Definition pairT := (re * mst M)%type.
  Definition seenT := PositiveMap.t (list pairT).

  Definition pair_eqb (p p' : pairT) : bool :=
    re_eqb (fst p) (fst p') && meqb M (snd p) (snd p').

  Definition pkey (p : pairT) : positive :=
    N.succ_pos (N.land (re_hash (fst p) + 8191 * mhash M (snd p)) 16777215).

  Definition seen_mem (p : pairT) (s : seenT) : bool :=
    match PositiveMap.find (pkey p) s with
    | Some l => existsb (pair_eqb p) l
    | None => false
    end.

  Definition seen_add (p : pairT) (s : seenT) : seenT :=
    let k := pkey p in
    match PositiveMap.find k s with
    | Some l => PositiveMap.add k (p :: l) s
    | None => PositiveMap.add k [p] s
    end.

  Definition succs (reps : list N) (r : re) (q : mst M) (rest : list pairT) : list pairT :=
    fold_right (fun c acc => let r' := deriv c r in
                             if is_emp r' then acc
                             else (r', mstep M q (mclass M c)) :: acc) rest reps.

  Fixpoint explore_loop (reps : list N) (fuel : nat) (todo : list pairT) (seen : seenT) : bool :=
    match fuel with
    | O => false
    | S f =>
        match todo with
        | [] => true
        | p :: rest =>
            let (r, q) := p in
            if mtop M q then explore_loop reps f rest seen
            else if seen_mem p seen then explore_loop reps f rest seen
            else if nullable r && negb (macc M q) then false
            else explore_loop reps f (succs reps r q rest) (seen_add p seen)
        end
    end.

  (* true only if every reachable (r', q) with nullable r' has macc q *)
  Definition explore (fuel : nat) (r : re) (q0 : mst M) : bool :=
    masks_ok r &&
    explore_loop (class_reps (masks r) (mclass M)) fuel [(r, q0)] (PositiveMap.empty _).

  (* the same exploration carrying the (reversed) word that leads to each pair *)
  Definition succs_cex (reps : list N) (r : re) (q : mst M) (w : list N)
             (rest : list (pairT * list N)) : list (pairT * list N) :=
    fold_right (fun c acc => let r' := deriv c r in
                             if is_emp r' then acc
                             else ((r', mstep M q (mclass M c)), c :: w) :: acc) rest reps.

  Fixpoint explore_cex_loop (reps : list N) (fuel : nat) (todo : list (pairT * list N))
           (seen : seenT) : cex_result :=
    match fuel with
    | O => CexFuel
    | S f =>
        match todo with
        | [] => CexNone
        | (p, w) :: rest =>
            let (r, q) := p in
            if mtop M q then explore_cex_loop reps f rest seen
            else if seen_mem p seen then explore_cex_loop reps f rest seen
            else if nullable r && negb (macc M q) then CexWord (rev w)
            else explore_cex_loop reps f (succs_cex reps r q w rest) (seen_add p seen)
        end
    end.

  Definition explore_cex (fuel : nat) (r : re) (q0 : mst M) : cex_result :=
    if masks_ok r then
      explore_cex_loop (class_reps (masks r) (mclass M)) fuel [((r, q0), [])] (PositiveMap.empty _)
    else CexBadMask.

  (* number of distinct pairs visited (diagnostics) *)
  Fixpoint explore_count (reps : list N) (fuel : nat) (todo : list pairT) (seen : seenT) (n : N) : N :=
    match fuel with
    | O => n
    | S f =>
        match todo with
        | [] => n
        | p :: rest =>
            let (r, q) := p in
            if mtop M q then explore_count reps f rest seen n
            else if seen_mem p seen then explore_count reps f rest seen n
            else explore_count reps f (succs reps r q rest) (seen_add p seen) (N.succ n)
        end
    end.
End Explore.

