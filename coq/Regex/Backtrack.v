(* A model of the matching semantics of the `regex` / `re` engines on the fragment the shipped patterns use:
   priority-ordered backtracking (ordered alternation, greedy bounded repeats), capture groups (the most
   recent iteration wins), negative look-ahead / fixed-width look-behind, ASCII \b, ^ and $ (no MULTILINE).
   Case-insensitivity and DOTALL are resolved into the class masks by the translator.
   Definitions only.  The tie to the real engine is the `finditer` probe (spans and group spans). *)
From Coq Require Import List ZArith NArith Bool.
From MD Require Import Regex.Syntax.
Import ListNotations.
Open Scope Z_scope.

(* a position inside the subject: index, bytes before it (nearest first), bytes after it *)
Record pos := { p_i : Z; p_before : list N; p_after : list N }.

Definition start_pos (data : list N) : pos := {| p_i := 0; p_before := []; p_after := data |}.

Definition adv (p : pos) : option (N * pos) :=
  match p_after p with
  | [] => None
  | c :: a => Some (c, {| p_i := p_i p + 1; p_before := c :: p_before p; p_after := a |})
  end.

Fixpoint back (w : nat) (p : pos) : option pos :=
  match w with
  | O => Some p
  | S w' => match p_before p with
            | [] => None
            | c :: b => back w' {| p_i := p_i p - 1; p_before := b; p_after := c :: p_after p |}
            end
  end.

Fixpoint seek (n : nat) (p : pos) : pos :=
  match n with
  | O => p
  | S n' => match adv p with Some (_, p') => seek n' p' | None => p end
  end.

Definition caps := list (nat * (Z * Z)).          (* most recent first *)
Inductive out := NoMatch | Fuel | Found (e : pos) (c : caps).

Definition is_word (c : N) : bool :=
  ((48 <=? c) && (c <=? 57) || (65 <=? c) && (c <=? 90) || (97 <=? c) && (c <=? 122) || (c =? 95))%N.
Definition word_at (l : list N) : bool := match l with c :: _ => is_word c | [] => false end.

(* width of a fixed-width expression (look-behind bodies) *)
Fixpoint width (r : re) : option nat :=
  match r with
  | Emp => None
  | Eps | NLook _ _ | WordB | Bol | Eol => Some O
  | Cls _ => Some 1%nat
  | Seq a b => match width a, width b with Some x, Some y => Some (x + y)%nat | _, _ => None end
  | Alt a b => match width a, width b with Some x, Some y => if Nat.eqb x y then Some x else None | _, _ => None end
  | Rep lo (Some hi) a => if Nat.eqb lo hi then match width a with Some x => Some (lo * x)%nat | None => None end else None
  | Rep _ None _ => None
  | Grp _ a => width a
  end.

Fixpoint m (fuel : nat) (r : re) (p : pos) (c : caps) (k : pos -> caps -> out) {struct fuel} : out :=
  match fuel with
  | O => Fuel
  | S f =>
    match r with
    | Emp => NoMatch
    | Eps => k p c
    | Cls mk => match adv p with
                | Some (b, p') => if N.testbit mk b then k p' c else NoMatch
                | None => NoMatch
                end
    | Seq a b => m f a p c (fun p' c' => m f b p' c' k)
    | Alt a b => match m f a p c k with NoMatch => m f b p c k | o => o end
    | Rep lo hi a =>
        match hi with
        | Some O => match lo with O => k p c | S _ => NoMatch end
        | _ =>
          let again :=
            m f a p c (fun p' c' => if p_i p' =? p_i p then NoMatch
                                    else m f (Rep (pred lo) (option_map pred hi) a) p' c' k) in
          match lo with
          | S _ => again
          | O => match again with NoMatch => k p c | o => o end
          end
        end
    | Grp g a => m f a p c (fun p' c' => k p' ((g, (p_i p, p_i p')) :: c'))
    | NLook false a =>
        match m f a p c (fun p' c' => Found p' c') with
        | NoMatch => k p c
        | Fuel => Fuel
        | Found _ _ => NoMatch
        end
    | NLook true a =>
        match width a with
        | None => Fuel                       (* not in the fragment: the translator rejects it *)
        | Some w =>
          match back w p with
          | None => k p c                    (* fewer than w bytes before: the body cannot match *)
          | Some q =>
            match m f a q c (fun p' c' => if p_i p' =? p_i p then Found p' c' else NoMatch) with
            | NoMatch => k p c
            | Fuel => Fuel
            | Found _ _ => NoMatch
            end
          end
        end
    | WordB => if xorb (word_at (p_before p)) (word_at (p_after p)) then k p c else NoMatch
    | Bol => match p_before p with [] => k p c | _ => NoMatch end
    | Eol => match p_after p with
             | [] => k p c
             | [10%N] => k p c
             | _ => NoMatch
             end
    end
  end.

Definition default_fuel : nat := Z.to_nat 4000000.

(* match.span(g) for g = 0 .. ngroups : None = the group did not participate *)
Definition mtch := list (option (Z * Z)).

Fixpoint lookup_cap (g : nat) (c : caps) : option (Z * Z) :=
  match c with
  | [] => None
  | (g', sp) :: c' => if Nat.eqb g g' then Some sp else lookup_cap g c'
  end.

Definition mk_mtch (ng : nat) (s e : Z) (c : caps) : mtch :=
  Some (s, e) :: map (fun g => lookup_cap g c) (seq 1 ng).

(* anchored attempt at p *)
Definition match_here (fuel : nat) (r : re) (p : pos) : out := m fuel r p [] (fun p' c' => Found p' c').

Inductive sres := SNone | SFuel | SFound (s : pos) (e : pos) (c : caps).

(* first position >= p at which the pattern matches (scan structural on the remaining bytes) *)
Fixpoint search_pos (fuel : nat) (r : re) (n : nat) (p : pos) : sres :=
  match match_here fuel r p with
  | Found e c => SFound p e c
  | Fuel => SFuel
  | NoMatch =>
      match n with
      | O => SNone
      | S n' => match adv p with
                | Some (_, p') => search_pos fuel r n' p'
                | None => SNone
                end
      end
  end.

(* finditer: left to right, resume at the end of the previous match (one byte further after an empty match).
   None = out of fuel (reported, never silently truncated). *)
Fixpoint finditer_pos (fuel : nat) (r : re) (ng : nat) (n : nat) (p : pos) : option (list mtch) :=
  match n with
  | O => Some []
  | S n' =>
      match search_pos fuel r (length (p_after p)) p with
      | SNone => Some []
      | SFuel => None
      | SFound s e c =>
          let next := if p_i e =? p_i s then match adv e with Some (_, q) => Some q | None => None end else Some e in
          match next with
          | None => Some [mk_mtch ng (p_i s) (p_i e) c]
          | Some q => match finditer_pos fuel r ng n' q with
                      | Some rest => Some (mk_mtch ng (p_i s) (p_i e) c :: rest)
                      | None => None
                      end
          end
      end
  end.

Definition finditer (r : re) (ng : nat) (data : list N) : option (list mtch) :=
  finditer_pos default_fuel r ng (S (length data)) (start_pos data).

(* re.search(r, data) *)
Definition search (r : re) (ng : nat) (data : list N) : option (option mtch) :=
  match search_pos default_fuel r (length data) (start_pos data) with
  | SNone => Some None
  | SFuel => None
  | SFound s e c => Some (Some (mk_mtch ng (p_i s) (p_i e) c))
  end.

(* re.match(r, data, pos=k) : anchored at k, look-behind / \b / ^ still see the whole subject *)
Definition match_at (r : re) (ng : nat) (data : list N) (k : Z) : option (option mtch) :=
  if (k <? 0) || (Z.of_nat (length data) <? k) then Some None else
  let p := seek (Z.to_nat k) (start_pos data) in
  match match_here default_fuel r p with
  | NoMatch => Some None
  | Fuel => None
  | Found e c => Some (Some (mk_mtch ng (p_i p) (p_i e) c))
  end.

(* re.fullmatch(r, data): the engine backtracks until the match ends at the end of the subject *)
Definition fullmatch (r : re) (data : list N) : option bool :=
  match m default_fuel r (start_pos data) [] (fun p' c' => match p_after p' with [] => Found p' c' | _ => NoMatch end) with
  | NoMatch => Some false
  | Fuel => None
  | Found _ _ => Some true
  end.
