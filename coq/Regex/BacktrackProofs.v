(* Soundness of the backtracking matcher of Regex/Backtrack.v w.r.t. the erased language Lang of
   Regex/Syntax.v: whatever the matcher reports (overall span and group spans) is a word of the
   language of the pattern (resp. of the body of the group), spans are nested and in bounds, and
   finditer reports ordered, non-overlapping matches.  No wf hypothesis is needed for soundness.
   Last section: existence-completeness of the anchored attempt for assertion-free wf patterns. *)
From Coq Require Import List ZArith NArith Bool Lia Arith.
From MD Require Import Lib.Base Regex.Syntax Regex.DerivProofs Regex.Backtrack.
Import ListNotations.
Open Scope Z_scope.

(* ------------------------------------------------------------------ *)
(* Definitions                                                         *)
(* ------------------------------------------------------------------ *)
Definition pos_ok (data : list N) (p : pos) : Prop :=
  data = rev (p_before p) ++ p_after p /\ p_i p = Z.of_nat (List.length (p_before p)).

(* the bytes between two positions of the same subject (q at or after p) *)
Definition seg (p q : pos) : list N := firstn (Z.to_nat (p_i q - p_i p)) (p_after p).

(* data[s:e] for 0 <= s <= e (see sub_slice for the tie to Base.slice) *)
Definition sub (data : list N) (s e : Z) : list N :=
  firstn (Z.to_nat (e - s)) (skipn (Z.to_nat s) data).

(* the bodies of the Grp g _ sub-terms of r (look-around bodies included) *)
Fixpoint group_re (r : re) (g : nat) : list re :=
  match r with
  | Seq a b | Alt a b => group_re a g ++ group_re b g
  | Rep _ _ a => group_re a g
  | Grp k a => (if Nat.eqb k g then [a] else []) ++ group_re a g
  | NLook _ a => group_re a g
  | _ => []
  end.

(* one capture (g, (s, e)) recorded while matching r between offsets lo and hi *)
Definition cap_ok (data : list N) (r : re) (lo hi : Z) (cp : nat * (Z * Z)) : Prop :=
  lo <= fst (snd cp) /\ fst (snd cp) <= snd (snd cp) /\ snd (snd cp) <= hi /\
  exists body, In body (group_re r (fst cp)) /\ Lang body (sub data (fst (snd cp)) (snd (snd cp))).

(* c2 is c plus captures added (in front) while matching r from p to q *)
Definition caps_ext (data : list N) (r : re) (p q : pos) (c c2 : caps) : Prop :=
  exists added, c2 = added ++ c /\ Forall (cap_ok data r (p_i p) (p_i q)) added.

(* ------------------------------------------------------------------ *)
(* Lists                                                               *)
(* ------------------------------------------------------------------ *)
Lemma skipn_skipn' {A} : forall x y (l : list A), skipn x (skipn y l) = skipn (y + x) l.
Proof.
  intros x y. induction y as [|y IH]; intros l; [reflexivity|].
  destruct l as [|a l]; [destruct x; reflexivity|]. simpl. apply IH.
Qed.

Lemma firstn_plus {A} : forall x y (l : list A), firstn (x + y) l = firstn x l ++ firstn y (skipn x l).
Proof.
  induction x as [|x IH]; intros y l; [reflexivity|].
  destruct l as [|a l]; [destruct y; reflexivity|]. simpl. rewrite IH. reflexivity.
Qed.

Lemma sub_app data a b c : 0 <= a -> a <= b -> b <= c -> sub data a c = sub data a b ++ sub data b c.
Proof.
  intros Ha Hab Hbc. unfold sub.
  replace (Z.to_nat (c - a)) with (Z.to_nat (b - a) + Z.to_nat (c - b))%nat by lia.
  rewrite firstn_plus. f_equal. rewrite skipn_skipn'. f_equal. f_equal. lia.
Qed.

Lemma sub_nil data a : sub data a a = [].
Proof. unfold sub. rewrite Z.sub_diag. reflexivity. Qed.

Lemma sub_slice (data : list N) s e : 0 <= s -> s <= e -> e <= blen data -> sub data s e = slice data s e.
Proof.
  intros H0 H1 H2. unfold sub, slice, clamp_idx.
  destruct (s <? 0) eqn:E1; [lia|]. destruct (e <? 0) eqn:E2; [lia|].
  rewrite !Z.min_l by lia. reflexivity.
Qed.

Lemma sub_full (data : list N) : sub data 0 (blen data) = data.
Proof.
  unfold sub, blen. simpl. rewrite Z.sub_0_r, Nat2Z.id. apply firstn_all.
Qed.

(* ------------------------------------------------------------------ *)
(* Positions                                                           *)
(* ------------------------------------------------------------------ *)
Lemma start_pos_ok data : pos_ok data (start_pos data).
Proof. split; reflexivity. Qed.

Lemma pos_ok_after data p : pos_ok data p -> skipn (Z.to_nat (p_i p)) data = p_after p.
Proof.
  intros [Hd Hi]. rewrite Hi, Nat2Z.id, Hd.
  rewrite skipn_app, rev_length, Nat.sub_diag.
  rewrite <- (rev_length (p_before p)), skipn_all. reflexivity.
Qed.

Lemma pos_ok_len data p : pos_ok data p -> blen data = p_i p + blen (p_after p).
Proof.
  intros [Hd Hi]. unfold blen. rewrite Hd at 1. rewrite app_length, rev_length. lia.
Qed.

Lemma pos_ok_bounds data p : pos_ok data p -> 0 <= p_i p <= blen data.
Proof. intros H. pose proof (pos_ok_len _ _ H) as E. destruct H as [_ Hi]. unfold blen in *. lia. Qed.

Lemma seg_sub data p q : pos_ok data p -> seg p q = sub data (p_i p) (p_i q).
Proof. intros H. unfold seg, sub. rewrite (pos_ok_after _ _ H). reflexivity. Qed.

Lemma seg_refl p : seg p p = [].
Proof. unfold seg. rewrite Z.sub_diag. reflexivity. Qed.

Lemma seg_same_i p q : p_i q = p_i p -> seg p q = [].
Proof. intros E. unfold seg. rewrite E, Z.sub_diag. reflexivity. Qed.

Lemma seg_app data p q1 q :
  pos_ok data p -> pos_ok data q1 -> p_i p <= p_i q1 -> p_i q1 <= p_i q ->
  seg p q = seg p q1 ++ seg q1 q.
Proof.
  intros Hp Hq1 H1 H2. rewrite (seg_sub data p q), (seg_sub data p q1), (seg_sub data q1 q) by assumption.
  apply sub_app; [apply (pos_ok_bounds _ _ Hp) | assumption | assumption].
Qed.

Lemma seg_split data p q : pos_ok data p -> pos_ok data q -> p_i p <= p_i q -> p_after p = seg p q ++ p_after q.
Proof.
  intros Hp Hq Hle. unfold seg.
  rewrite <- (pos_ok_after _ _ Hq), <- (pos_ok_after _ _ Hp).
  pose proof (pos_ok_bounds _ _ Hp) as Bp.
  replace (Z.to_nat (p_i q)) with (Z.to_nat (p_i p) + Z.to_nat (p_i q - p_i p))%nat by lia.
  rewrite <- skipn_skipn'. symmetry. apply firstn_skipn.
Qed.

Lemma adv_ok data p b p' :
  pos_ok data p -> adv p = Some (b, p') ->
  pos_ok data p' /\ p_i p' = p_i p + 1 /\ seg p p' = [b].
Proof.
  intros [Hd Hi] H. unfold adv in H. destruct (p_after p) as [|c a] eqn:Ea; [discriminate H|].
  injection H as <- <-. split; [|split].
  - split; cbn [p_before p_after p_i].
    + rewrite Hd. simpl. rewrite <- app_assoc. reflexivity.
    + simpl List.length. lia.
  - reflexivity.
  - unfold seg. cbn [p_i]. rewrite Ea. replace (p_i p + 1 - p_i p) with 1 by lia. reflexivity.
Qed.

Lemma seek_ok data : forall n p,
  pos_ok data p ->
  pos_ok data (seek n p) /\ p_i p <= p_i (seek n p) /\
  (Z.of_nat n <= blen (p_after p) -> p_i (seek n p) = p_i p + Z.of_nat n).
Proof.
  induction n as [|n IH]; intros p Hp.
  - simpl. repeat split; [apply Hp | apply Hp | lia | lia].
  - cbn [seek]. destruct (adv p) as [[b p']|] eqn:Ea.
    + destruct (adv_ok _ _ _ _ Hp Ea) as (Hp' & Hi' & _).
      destruct (IH p' Hp') as (H1 & H2 & H3). split; [exact H1|]. split; [lia|].
      intros Hlen. rewrite H3; [lia|].
      unfold adv in Ea. destruct (p_after p) as [|c a] eqn:E; [discriminate Ea|].
      injection Ea as _ <-. cbn [p_after]. unfold blen in *. simpl List.length in Hlen. lia.
    + split; [exact Hp|]. split; [lia|]. intros Hlen.
      unfold adv in Ea. destruct (p_after p) as [|c a] eqn:E; [|discriminate Ea].
      unfold blen in Hlen. simpl in Hlen. lia.
Qed.

(* ------------------------------------------------------------------ *)
(* Captures                                                            *)
(* ------------------------------------------------------------------ *)
Lemma cap_ok_mono data r r' lo hi lo' hi' cp :
  lo' <= lo -> hi <= hi' -> (forall g, incl (group_re r g) (group_re r' g)) ->
  cap_ok data r lo hi cp -> cap_ok data r' lo' hi' cp.
Proof.
  intros Hlo Hhi Hinc (H1 & H2 & H3 & body & Hin & HL).
  split; [lia|]. split; [exact H2|]. split; [lia|]. exists body. split; [apply Hinc; exact Hin | exact HL].
Qed.

Lemma caps_ext_refl data r p c : caps_ext data r p p c c.
Proof. exists []. split; [reflexivity | constructor]. Qed.

Lemma caps_ext_mono data r r' p q p' q' c c2 :
  p_i p' <= p_i p -> p_i q <= p_i q' -> (forall g, incl (group_re r g) (group_re r' g)) ->
  caps_ext data r p q c c2 -> caps_ext data r' p' q' c c2.
Proof.
  intros Hlo Hhi Hinc (added & E & HF). exists added. split; [exact E|].
  revert HF. apply Forall_impl. intros cp. apply cap_ok_mono; assumption.
Qed.

Lemma caps_ext_trans data r p q1 q c c1 c2 :
  p_i p <= p_i q1 -> p_i q1 <= p_i q ->
  caps_ext data r p q1 c c1 -> caps_ext data r q1 q c1 c2 -> caps_ext data r p q c c2.
Proof.
  intros H1 H2 (ad1 & E1 & F1) (ad2 & E2 & F2). exists (ad2 ++ ad1). split.
  - rewrite E2, E1, app_assoc. reflexivity.
  - apply Forall_app. split.
    + revert F2. apply Forall_impl. intros cp. apply cap_ok_mono; [lia | lia | intros g; apply incl_refl].
    + revert F1. apply Forall_impl. intros cp. apply cap_ok_mono; [lia | lia | intros g; apply incl_refl].
Qed.

(* ------------------------------------------------------------------ *)
(* 1 + 2.  Core soundness of m (language and captures)                 *)
(* ------------------------------------------------------------------ *)
Ltac dmatch H :=
  repeat match type of H with
         | match ?x with _ => _ end = _ => destruct x
         end.

Lemma group_re_incl_seq_l a b g : incl (group_re a g) (group_re (Seq a b) g).
Proof. simpl. apply incl_appl, incl_refl. Qed.
Lemma group_re_incl_seq_r a b g : incl (group_re b g) (group_re (Seq a b) g).
Proof. simpl. apply incl_appr, incl_refl. Qed.
Lemma group_re_incl_alt_l a b g : incl (group_re a g) (group_re (Alt a b) g).
Proof. simpl. apply incl_appl, incl_refl. Qed.
Lemma group_re_incl_alt_r a b g : incl (group_re b g) (group_re (Alt a b) g).
Proof. simpl. apply incl_appr, incl_refl. Qed.
Lemma group_re_incl_grp k a g : incl (group_re a g) (group_re (Grp k a) g).
Proof. cbn [group_re]. apply incl_appr, incl_refl. Qed.
Lemma group_re_grp_in k a : In a (group_re (Grp k a) k).
Proof. cbn [group_re]. rewrite Nat.eqb_refl. left. reflexivity. Qed.

Theorem m_sound : forall fuel r data p c k e c',
  pos_ok data p -> m fuel r p c k = Found e c' ->
  exists q c2, pos_ok data q /\ p_i p <= p_i q /\ Lang r (seg p q) /\
               caps_ext data r p q c c2 /\ k q c2 = Found e c'.
Proof.
  induction fuel as [|f IH]; intros r data p c k e c' Hp H; [discriminate H|].
  (* zero-width success: the continuation is called at p with c *)
  assert (ZW : forall r0, Lang r0 [] -> k p c = Found e c' ->
                 exists q c2, pos_ok data q /\ p_i p <= p_i q /\ Lang r0 (seg p q) /\
                              caps_ext data r0 p q c c2 /\ k q c2 = Found e c').
  { intros r0 H0 Hk. exists p, c. split; [exact Hp|]. split; [lia|]. split; [rewrite seg_refl; exact H0|].
    split; [apply caps_ext_refl | exact Hk]. }
  destruct r as [| |mk|a b|a b|lo hi a|g a|bh a| | |]; cbn [m] in H.
  - discriminate H.
  - apply ZW; [reflexivity | exact H].
  - (* Cls *)
    destruct (adv p) as [[b p']|] eqn:Ea; [|discriminate H].
    destruct (N.testbit mk b) eqn:Eb; [|discriminate H].
    destruct (adv_ok _ _ _ _ Hp Ea) as (Hp' & Hi' & Hs).
    exists p', c. split; [exact Hp'|]. split; [lia|]. split.
    + rewrite Hs. exists b. split; [reflexivity | exact Eb].
    + split; [exists []; split; [reflexivity | constructor] | exact H].
  - (* Seq *)
    destruct (IH _ _ _ _ _ _ _ Hp H) as (q1 & c1 & Hq1 & Hle1 & HL1 & Hx1 & Hk1).
    destruct (IH _ _ _ _ _ _ _ Hq1 Hk1) as (q & c2 & Hq & Hle2 & HL2 & Hx2 & Hk2).
    exists q, c2. split; [exact Hq|]. split; [lia|]. split.
    + exists (seg p q1), (seg q1 q). split; [apply (seg_app data); assumption|]. split; assumption.
    + split; [|exact Hk2].
      apply (caps_ext_trans data (Seq a b) p q1 q c c1 c2); [assumption | assumption | |].
      * revert Hx1. apply caps_ext_mono; [lia | lia | intros g; apply group_re_incl_seq_l].
      * revert Hx2. apply caps_ext_mono; [lia | lia | intros g; apply group_re_incl_seq_r].
  - (* Alt *)
    destruct (m f a p c k) as [| |e0 c0] eqn:Ea.
    + destruct (IH _ _ _ _ _ _ _ Hp H) as (q & c2 & Hq & Hle & HL & Hx & Hk).
      exists q, c2. split; [exact Hq|]. split; [exact Hle|]. split; [right; exact HL|]. split; [|exact Hk].
      revert Hx. apply caps_ext_mono; [lia | lia | intros g; apply group_re_incl_alt_r].
    + discriminate H.
    + rewrite H in Ea.
      destruct (IH _ _ _ _ _ _ _ Hp Ea) as (q & c2 & Hq & Hle & HL & Hx & Hk).
      exists q, c2. split; [exact Hq|]. split; [exact Hle|]. split; [left; exact HL|]. split; [|exact Hk].
      revert Hx. apply caps_ext_mono; [lia | lia | intros g; apply group_re_incl_alt_l].
  - (* Rep *)
    assert (Zero : lo = 0%nat -> Lang (Rep lo hi a) []).
    { intros ->. exists 0%nat. split; [lia|]. split; [destruct hi; simpl; [lia | exact I] | reflexivity]. }
    assert (Again : hi <> Some 0%nat ->
              m f a p c (fun p' c' => if p_i p' =? p_i p then NoMatch
                                      else m f (Rep (pred lo) (option_map pred hi) a) p' c' k) = Found e c' ->
              exists q c2, pos_ok data q /\ p_i p <= p_i q /\ Lang (Rep lo hi a) (seg p q) /\
                           caps_ext data (Rep lo hi a) p q c c2 /\ k q c2 = Found e c').
    { intros Hne HA.
      destruct (IH _ _ _ _ _ _ _ Hp HA) as (q1 & c1 & Hq1 & Hle1 & HL1 & Hx1 & Hk1).
      destruct (p_i q1 =? p_i p) eqn:Eq; [discriminate Hk1|].
      destruct (IH _ _ _ _ _ _ _ Hq1 Hk1) as (q & c2 & Hq & Hle2 & HL2 & Hx2 & Hk2).
      exists q, c2. split; [exact Hq|]. split; [lia|]. split.
      - destruct HL2 as (n & Hn1 & Hn2 & Hn3). exists (S n). split; [lia|].
        split; [apply hi_ok_succ; assumption|].
        exists (seg p q1), (seg q1 q). split; [apply (seg_app data); assumption|]. split; assumption.
      - split; [|exact Hk2].
        apply (caps_ext_trans data (Rep lo hi a) p q1 q c c1 c2); [assumption | assumption | |].
        + revert Hx1. apply caps_ext_mono; [lia | lia | intros g; apply incl_refl].
        + revert Hx2. apply caps_ext_mono; [lia | lia | intros g; apply incl_refl]. }
    destruct hi as [[|h]|].
    + destruct lo as [|lo]; [|discriminate H]. apply ZW; [apply Zero; reflexivity | exact H].
    + destruct lo as [|lo].
      * match type of H with match ?x with _ => _ end = _ => destruct x eqn:EA end.
        -- apply ZW; [apply Zero; reflexivity | exact H].
        -- discriminate H.
        -- apply Again; [discriminate | exact H].
      * apply Again; [discriminate | exact H].
    + destruct lo as [|lo].
      * match type of H with match ?x with _ => _ end = _ => destruct x eqn:EA end.
        -- apply ZW; [apply Zero; reflexivity | exact H].
        -- discriminate H.
        -- apply Again; [discriminate | exact H].
      * apply Again; [discriminate | exact H].
  - (* Grp *)
    destruct (IH _ _ _ _ _ _ _ Hp H) as (q & c1 & Hq & Hle & HL & Hx & Hk).
    exists q, ((g, (p_i p, p_i q)) :: c1). split; [exact Hq|]. split; [exact Hle|]. split; [exact HL|].
    split; [|exact Hk].
    destruct Hx as (added & E & HF). exists ((g, (p_i p, p_i q)) :: added). split; [rewrite E; reflexivity|].
    constructor.
    + unfold cap_ok. cbn [fst snd]. split; [lia|]. split; [exact Hle|]. split; [lia|].
      exists a. split; [apply group_re_grp_in|]. rewrite <- (seg_sub data) by exact Hp. exact HL.
    + revert HF. apply Forall_impl. intros cp.
      apply cap_ok_mono; [lia | lia | intros g'; apply group_re_incl_grp].
  - (* NLook *)
    destruct bh; dmatch H; try discriminate H; (apply ZW; [reflexivity | exact H]).
  - dmatch H; try discriminate H; (apply ZW; [reflexivity | exact H]).
  - dmatch H; try discriminate H; (apply ZW; [reflexivity | exact H]).
  - dmatch H; try discriminate H; (apply ZW; [reflexivity | exact H]).
Qed.

(* the same statement with the added captures spelled out and Python slices *)
Corollary m_caps_sound : forall fuel r data p c k e c',
  pos_ok data p -> m fuel r p c k = Found e c' ->
  exists q added,
    pos_ok data q /\ p_i p <= p_i q /\ Lang r (slice data (p_i p) (p_i q)) /\
    k q (added ++ c) = Found e c' /\
    forall g s t, In (g, (s, t)) added ->
      p_i p <= s /\ s <= t /\ t <= p_i q /\
      exists body, In body (group_re r g) /\ Lang body (slice data s t).
Proof.
  intros fuel r data p c k e c' Hp H.
  destruct (m_sound _ _ _ _ _ _ _ _ Hp H) as (q & c2 & Hq & Hle & HL & (added & E & HF) & Hk).
  pose proof (pos_ok_bounds _ _ Hp) as Bp. pose proof (pos_ok_bounds _ _ Hq) as Bq.
  exists q, added. split; [exact Hq|]. split; [exact Hle|]. split.
  - rewrite <- sub_slice by lia. rewrite <- (seg_sub data) by exact Hp. exact HL.
  - split; [rewrite <- E; exact Hk|].
    intros g s t Hin. rewrite Forall_forall in HF. destruct (HF _ Hin) as (H1 & H2 & H3 & body & Hb & HLb).
    cbn [fst snd] in *. split; [exact H1|]. split; [exact H2|]. split; [exact H3|].
    exists body. split; [exact Hb|]. rewrite <- sub_slice by lia. exact HLb.
Qed.

Lemma match_here_sound fuel r data p e c :
  pos_ok data p -> match_here fuel r p = Found e c ->
  pos_ok data e /\ p_i p <= p_i e /\ Lang r (sub data (p_i p) (p_i e)) /\
  Forall (cap_ok data r (p_i p) (p_i e)) c.
Proof.
  intros Hp H. unfold match_here in H.
  destruct (m_sound _ _ _ _ _ _ _ _ Hp H) as (q & c2 & Hq & Hle & HL & (added & E & HF) & Hk).
  injection Hk as <- <-. split; [exact Hq|]. split; [exact Hle|]. split.
  - rewrite <- (seg_sub data) by exact Hp. exact HL.
  - rewrite E, app_nil_r. exact HF.
Qed.

(* ------------------------------------------------------------------ *)
(* 3.  Match objects: finditer / search / match_at / fullmatch          *)
(* ------------------------------------------------------------------ *)
Definition mtch_ok (r : re) (ng : nat) (data : list N) (mt : mtch) : Prop :=
  exists s e groups,
    mt = Some (s, e) :: groups /\ List.length groups = ng /\
    0 <= s /\ s <= e /\ e <= blen data /\ Lang r (sub data s e) /\
    forall k gs ge, nth_error groups k = Some (Some (gs, ge)) ->
      s <= gs /\ gs <= ge /\ ge <= e /\
      exists body, In body (group_re r (S k)) /\ Lang body (sub data gs ge).

Definition mstart (mt : mtch) : Z := match mt with Some (s, _) :: _ => s | _ => 0 end.
Definition mend (mt : mtch) : Z := match mt with Some (_, e) :: _ => e | _ => 0 end.

(* consecutive matches: e_i <= s_(i+1) and s_i < s_(i+1) *)
Fixpoint ordered (ms : list mtch) : Prop :=
  match ms with
  | [] => True
  | a :: rest =>
      match rest with
      | [] => True
      | b :: _ => mend a <= mstart b /\ mstart a < mstart b
      end /\ ordered rest
  end.

Definition matches_ok (r : re) (ng : nat) (data : list N) (ms : list mtch) : Prop :=
  Forall (mtch_ok r ng data) ms /\ ordered ms.

Lemma lookup_cap_in g : forall c sp, lookup_cap g c = Some sp -> In (g, sp) c.
Proof.
  induction c as [|[g' sp'] c IH]; intros sp H; [discriminate H|].
  cbn [lookup_cap] in H. destruct (Nat.eqb g g') eqn:E.
  - apply Nat.eqb_eq in E. subst g'. injection H as ->. left. reflexivity.
  - right. apply IH. exact H.
Qed.

Lemma nth_error_seq_some start len k x : nth_error (seq start len) k = Some x -> x = (start + k)%nat.
Proof.
  revert start k. induction len as [|len IH]; intros start k H; [destruct k; discriminate H|].
  destruct k as [|k]; simpl in H.
  - injection H as <-. lia.
  - apply IH in H. lia.
Qed.

Lemma mk_mtch_ok r ng data s e c :
  0 <= s -> s <= e -> e <= blen data -> Lang r (sub data s e) ->
  Forall (cap_ok data r s e) c -> mtch_ok r ng data (mk_mtch ng s e c).
Proof.
  intros H0 H1 H2 HL HF. unfold mk_mtch.
  exists s, e, (map (fun g => lookup_cap g c) (seq 1 ng)).
  split; [reflexivity|]. split; [rewrite map_length, seq_length; reflexivity|].
  split; [exact H0|]. split; [exact H1|]. split; [exact H2|]. split; [exact HL|].
  intros k gs ge Hn. rewrite nth_error_map in Hn.
  destruct (nth_error (seq 1 ng) k) as [g|] eqn:En; [|discriminate Hn].
  apply nth_error_seq_some in En. simpl in Hn. injection Hn as Hn.
  apply lookup_cap_in in Hn. rewrite Forall_forall in HF.
  destruct (HF _ Hn) as (G1 & G2 & G3 & body & Hb & HLb). cbn [fst snd] in *.
  split; [exact G1|]. split; [exact G2|]. split; [exact G3|].
  exists body. split; [|exact HLb]. replace (S k) with g by lia. exact Hb.
Qed.

Lemma mstart_mk ng s e c : mstart (mk_mtch ng s e c) = s.
Proof. reflexivity. Qed.
Lemma mend_mk ng s e c : mend (mk_mtch ng s e c) = e.
Proof. reflexivity. Qed.

Lemma found_mtch_ok fuel r ng data s e c :
  pos_ok data s -> match_here fuel r s = Found e c ->
  mtch_ok r ng data (mk_mtch ng (p_i s) (p_i e) c) /\ pos_ok data e /\ p_i s <= p_i e.
Proof.
  intros Hs H. destruct (match_here_sound _ _ _ _ _ _ Hs H) as (He & Hle & HL & HF).
  split; [|split; assumption].
  apply mk_mtch_ok; try assumption.
  - apply (pos_ok_bounds _ _ Hs).
  - apply (pos_ok_bounds _ _ He).
Qed.

Lemma search_pos_sound fuel r data : forall n p s e c,
  pos_ok data p -> search_pos fuel r n p = SFound s e c ->
  pos_ok data s /\ p_i p <= p_i s /\ match_here fuel r s = Found e c.
Proof.
  induction n as [|n IH]; intros p s e c Hp H; cbn [search_pos] in H;
    destruct (match_here fuel r p) as [| |e0 c0] eqn:EM; try discriminate H.
  - injection H as <- <- <-. split; [exact Hp|]. split; [lia | exact EM].
  - destruct (adv p) as [[b p']|] eqn:Ea; [|discriminate H].
    destruct (adv_ok _ _ _ _ Hp Ea) as (Hp' & Hi' & _).
    destruct (IH _ _ _ _ Hp' H) as (G1 & G2 & G3). split; [exact G1|]. split; [lia | exact G3].
  - injection H as <- <- <-. split; [exact Hp|]. split; [lia | exact EM].
Qed.

Lemma ordered_cons a rest lo :
  mend a <= lo -> mstart a < lo -> Forall (fun mt => lo <= mstart mt) rest -> ordered rest ->
  ordered (a :: rest).
Proof.
  intros H1 H2 HF HO. cbn [ordered]. split; [|exact HO].
  destruct rest as [|b rest']; [exact I|]. inversion HF as [|? ? Hb _]. lia.
Qed.

Lemma finditer_pos_sound fuel r ng data : forall n p ms,
  pos_ok data p -> finditer_pos fuel r ng n p = Some ms ->
  Forall (mtch_ok r ng data) ms /\ ordered ms /\ Forall (fun mt => p_i p <= mstart mt) ms.
Proof.
  induction n as [|n IH]; intros p ms Hp H; cbn [finditer_pos] in H.
  - injection H as <-. repeat split; constructor.
  - destruct (search_pos fuel r (List.length (p_after p)) p) as [| |s e c] eqn:ES.
    + injection H as <-. repeat split; constructor.
    + discriminate H.
    + destruct (search_pos_sound _ _ _ _ _ _ _ _ Hp ES) as (Hs & Hps & HM).
      destruct (found_mtch_ok _ _ ng _ _ _ _ Hs HM) as (Hok & He & Hse).
      assert (One : Forall (mtch_ok r ng data) [mk_mtch ng (p_i s) (p_i e) c] /\
                    ordered [mk_mtch ng (p_i s) (p_i e) c] /\
                    Forall (fun mt => p_i p <= mstart mt) [mk_mtch ng (p_i s) (p_i e) c]).
      { split; [constructor; [exact Hok | constructor]|]. split; [simpl; auto|].
        constructor; [rewrite mstart_mk; exact Hps | constructor]. }
      assert (Next : forall q, pos_ok data q -> p_i e <= p_i q -> p_i s < p_i q ->
                match finditer_pos fuel r ng n q with
                | Some rest => Some (mk_mtch ng (p_i s) (p_i e) c :: rest)
                | None => None
                end = Some ms ->
                Forall (mtch_ok r ng data) ms /\ ordered ms /\ Forall (fun mt => p_i p <= mstart mt) ms).
      { intros q Hq Heq Hsq HN.
        destruct (finditer_pos fuel r ng n q) as [rest|] eqn:ER; [|discriminate HN].
        injection HN as <-. destruct (IH _ _ Hq ER) as (R1 & R2 & R3).
        split; [constructor; assumption|]. split.
        - apply (ordered_cons _ _ (p_i q)); [rewrite mend_mk; exact Heq | rewrite mstart_mk; exact Hsq | exact R3 | exact R2].
        - constructor; [rewrite mstart_mk; exact Hps|].
          revert R3. apply Forall_impl. intros mt. lia. }
      destruct (p_i e =? p_i s) eqn:Ee.
      * apply Z.eqb_eq in Ee. destruct (adv e) as [[b q]|] eqn:Ea.
        -- destruct (adv_ok _ _ _ _ He Ea) as (Hq & Hiq & _).
           apply (Next q); [exact Hq | lia | lia | exact H].
        -- injection H as <-. exact One.
      * apply Z.eqb_neq in Ee. apply (Next e); [exact He | lia | lia | exact H].
Qed.

Theorem finditer_sound r ng data ms : finditer r ng data = Some ms -> matches_ok r ng data ms.
Proof.
  unfold finditer. intros H.
  destruct (finditer_pos_sound _ _ _ _ _ _ _ (start_pos_ok data) H) as (H1 & H2 & _).
  split; assumption.
Qed.

Theorem search_sound r ng data mt : search r ng data = Some (Some mt) -> mtch_ok r ng data mt.
Proof.
  unfold search. intros H.
  destruct (search_pos default_fuel r (List.length data) (start_pos data)) as [| |s e c] eqn:ES;
    try discriminate H.
  injection H as <-.
  destruct (search_pos_sound _ _ _ _ _ _ _ _ (start_pos_ok data) ES) as (Hs & _ & HM).
  apply (found_mtch_ok _ _ ng _ _ _ _ Hs HM).
Qed.

Theorem match_at_sound r ng data k mt :
  match_at r ng data k = Some (Some mt) -> mtch_ok r ng data mt /\ mstart mt = k.
Proof.
  unfold match_at. intros H.
  destruct ((k <? 0) || (Z.of_nat (List.length data) <? k)) eqn:Ek; [discriminate H|].
  apply orb_false_iff in Ek. destruct Ek as [Ek1 Ek2].
  apply Z.ltb_ge in Ek1. apply Z.ltb_ge in Ek2.
  destruct (seek_ok data (Z.to_nat k) (start_pos data) (start_pos_ok data)) as (Hp & _ & Hi).
  cbn [start_pos p_after p_i] in Hi. unfold blen in Hi. rewrite Z2Nat.id in Hi by lia.
  specialize (Hi Ek2). simpl in Hi.
  destruct (match_here default_fuel r (seek (Z.to_nat k) (start_pos data))) as [| |e c] eqn:EM;
    try discriminate H.
  injection H as <-. split.
  - apply (found_mtch_ok _ _ ng _ _ _ _ Hp EM).
  - rewrite mstart_mk. exact Hi.
Qed.

Theorem fullmatch_sound r data : fullmatch r data = Some true -> Lang r data.
Proof.
  unfold fullmatch. intros H.
  match type of H with match ?x with _ => _ end = _ => destruct x as [| |e c] eqn:EM end; try discriminate H.
  destruct (m_sound _ _ _ _ _ _ _ _ (start_pos_ok data) EM) as (q & c2 & Hq & Hle & HL & _ & Hk).
  destruct (p_after q) as [|x l] eqn:Eq; [|discriminate Hk].
  pose proof (seg_split _ _ _ (start_pos_ok data) Hq Hle) as E.
  rewrite Eq, app_nil_r in E. cbn [start_pos p_after] in E. rewrite E. exact HL.
Qed.

(* mtch_ok restated with Python slices *)
Lemma mtch_ok_slice r ng data mt :
  mtch_ok r ng data mt ->
  exists s e groups,
    mt = Some (s, e) :: groups /\ List.length groups = ng /\
    0 <= s /\ s <= e /\ e <= blen data /\ Lang r (slice data s e) /\
    forall k gs ge, nth_error groups k = Some (Some (gs, ge)) ->
      s <= gs /\ gs <= ge /\ ge <= e /\
      exists body, In body (group_re r (S k)) /\ Lang body (slice data gs ge).
Proof.
  intros (s & e & groups & E & Hl & H0 & H1 & H2 & HL & HG).
  exists s, e, groups. split; [exact E|]. split; [exact Hl|]. split; [exact H0|]. split; [exact H1|].
  split; [exact H2|]. split; [rewrite <- sub_slice by lia; exact HL|].
  intros k gs ge Hn. destruct (HG _ _ _ Hn) as (G1 & G2 & G3 & body & Hb & HLb).
  split; [exact G1|]. split; [exact G2|]. split; [exact G3|].
  exists body. split; [exact Hb|]. rewrite <- sub_slice by lia. exact HLb.
Qed.

(* ------------------------------------------------------------------ *)
(* 4.  Existence-completeness for assertion-free, wf patterns           *)
(* ------------------------------------------------------------------ *)
Fixpoint no_asserts (r : re) : bool :=
  match r with
  | Emp | Eps | Cls _ => true
  | Seq a b | Alt a b => no_asserts a && no_asserts b
  | Rep _ _ a | Grp _ a => no_asserts a
  | NLook _ _ | WordB | Bol | Eol => false
  end.

Lemma seek_word : forall u p x n,
  p_after p = u ++ x ->
  seek (List.length u + n) p = seek n (seek (List.length u) p) /\
  p_after (seek (List.length u) p) = x /\
  p_i (seek (List.length u) p) = p_i p + Z.of_nat (List.length u).
Proof.
  induction u as [|b u IH]; intros p x n H.
  - simpl. repeat split; [exact H | lia].
  - cbn [List.length Nat.add seek]. unfold adv. rewrite H. cbn [app].
    match goal with |- context [seek _ ?q] => destruct (IH q x n) as (G1 & G2 & G3); [reflexivity|] end.
    split; [exact G1|]. split; [exact G2|]. rewrite G3. cbn [p_i]. lia.
Qed.

Lemma nonnull_nonempty a u : nullable a = false -> Lang a u -> u <> [].
Proof.
  intros Hn HL ->. apply nullable_correct in HL. congruence.
Qed.

Theorem m_complete : forall fuel r p c k,
  no_asserts r = true -> wf r = true -> m fuel r p c k = NoMatch ->
  forall w rest, p_after p = w ++ rest -> Lang r w ->
  exists c2, k (seek (List.length w) p) c2 = NoMatch.
Proof.
  induction fuel as [|f IH]; intros r p c k Hna Hwf H w rest Hw HL; [discriminate H|].
  destruct r as [| |mk|a b|a b|lo hi a|g a|bh a| | |]; cbn [m] in H; cbn [no_asserts wf] in Hna, Hwf;
    try discriminate Hna.
  - destruct HL.
  - cbn [Lang] in HL. subst w. exists c. exact H.
  - (* Cls *)
    destruct HL as (b & -> & Hb). unfold adv in H. rewrite Hw in H. cbn [app] in H. rewrite Hb in H.
    exists c. cbn [List.length seek]. unfold adv. rewrite Hw. cbn [app]. exact H.
  - (* Seq *)
    apply andb_true_iff in Hna. destruct Hna as [Hna1 Hna2].
    apply andb_true_iff in Hwf. destruct Hwf as [Hwf1 Hwf2].
    destruct HL as (u & v & -> & Hu & Hv). rewrite <- app_assoc in Hw.
    destruct (IH _ _ _ _ Hna1 Hwf1 H _ _ Hw Hu) as (c1 & H1).
    destruct (seek_word u p (v ++ rest) (List.length v) Hw) as (S1 & S2 & _).
    destruct (IH _ _ _ _ Hna2 Hwf2 H1 _ _ S2 Hv) as (c2 & H2).
    exists c2. rewrite app_length, S1. exact H2.
  - (* Alt *)
    apply andb_true_iff in Hna. destruct Hna as [Hna1 Hna2].
    apply andb_true_iff in Hwf. destruct Hwf as [Hwf1 Hwf2].
    destruct (m f a p c k) eqn:Ea; try discriminate H.
    destruct HL as [HL|HL].
    + apply (IH _ _ _ _ Hna1 Hwf1 Ea _ _ Hw HL).
    + apply (IH _ _ _ _ Hna2 Hwf2 H _ _ Hw HL).
  - (* Rep *)
    apply andb_true_iff in Hwf. destruct Hwf as [Hnn Hwfa]. apply negb_true_iff in Hnn.
    destruct HL as (n & Hlo & Hhi & Hp).
    assert (Again : forall n' u v, n = S n' -> w = u ++ v -> Lang a u -> lpow (Lang a) n' v ->
              m f a p c (fun p' c' => if p_i p' =? p_i p then NoMatch
                                      else m f (Rep (pred lo) (option_map pred hi) a) p' c' k) = NoMatch ->
              exists c2, k (seek (List.length w) p) c2 = NoMatch).
    { intros n' u v -> -> Hu Hv HA. rewrite <- app_assoc in Hw.
      destruct (IH _ _ _ _ Hna Hwfa HA _ _ Hw Hu) as (c1 & H1).
      destruct (seek_word u p (v ++ rest) (List.length v) Hw) as (S1 & S2 & S3).
      assert (Hne : u <> []) by (apply (nonnull_nonempty a); assumption).
      destruct (p_i (seek (List.length u) p) =? p_i p) eqn:Eq.
      { apply Z.eqb_eq in Eq. destruct u; [congruence | simpl List.length in *; lia]. }
      assert (HLr : Lang (Rep (pred lo) (option_map pred hi) a) v).
      { exists n'. split; [lia|]. split; [apply hi_ok_pred; exact Hhi | exact Hv]. }
      assert (Hwf' : wf (Rep (pred lo) (option_map pred hi) a) = true).
      { cbn [wf]. rewrite Hnn, Hwfa. reflexivity. }
      destruct (IH (Rep (pred lo) (option_map pred hi) a) _ _ _ Hna Hwf' H1 _ _ S2 HLr) as (c2 & H2).
      exists c2. rewrite app_length, S1. exact H2. }
    destruct n as [|n'].
    + (* no iteration *)
      cbn [lpow] in Hp. subst w. assert (lo = 0%nat) by lia. subst lo. cbn [List.length seek].
      destruct hi as [[|h]|]; [exists c; exact H | |];
        (match type of H with match ?x with _ => _ end = _ => destruct x end; try discriminate H;
         exists c; exact H).
    + destruct Hp as (u & v & E & Hu & Hv).
      destruct hi as [[|h]|]; [simpl in Hhi; lia | |];
        (destruct lo as [|lo];
         [ match type of H with match ?x with _ => _ end = _ => destruct x eqn:EA end; try discriminate H;
           apply (Again n' u v eq_refl E Hu Hv); reflexivity
         | apply (Again n' u v eq_refl E Hu Hv); exact H ]).
  - (* Grp *)
    cbn [Lang] in HL.
    destruct (IH _ _ _ _ Hna Hwf H _ _ Hw HL) as (c1 & H1).
    eexists. exact H1.
Qed.

Theorem match_here_complete fuel r p :
  no_asserts r = true -> wf r = true -> match_here fuel r p = NoMatch ->
  forall w rest, p_after p = w ++ rest -> ~ Lang r w.
Proof.
  intros Hna Hwf H w rest Hw HL. unfold match_here in H.
  destruct (m_complete _ _ _ _ _ Hna Hwf H _ _ Hw HL) as (c2 & Hc). discriminate Hc.
Qed.

(* fullmatch decides the language on assertion-free wf patterns (when it does not run out of fuel) *)
Lemma fullmatch_complete_gen fuel r data :
  no_asserts r = true -> wf r = true ->
  m fuel r (start_pos data) [] (fun p' c' => match p_after p' with [] => Found p' c' | _ => NoMatch end) = NoMatch ->
  ~ Lang r data.
Proof.
  intros Hna Hwf EM HL.
  assert (Hw : p_after (start_pos data) = data ++ []) by (rewrite app_nil_r; reflexivity).
  destruct (m_complete _ _ _ _ _ Hna Hwf EM _ _ Hw HL) as (c2 & Hc).
  destruct (seek_word data (start_pos data) [] 0 Hw) as (_ & S2 & _).
  cbv beta in Hc. rewrite S2 in Hc. discriminate Hc.
Qed.

Lemma fullmatch_false_gen fuel r data :
  no_asserts r = true -> wf r = true ->
  match m fuel r (start_pos data) [] (fun p' c' => match p_after p' with [] => Found p' c' | _ => NoMatch end) with
  | NoMatch => Some false
  | Fuel => None
  | Found _ _ => Some true
  end = Some false -> ~ Lang r data.
Proof.
  intros Hna Hwf H.
  match type of H with match ?x with _ => _ end = _ => destruct x as [| |e c] eqn:EM end; try discriminate H.
  exact (fullmatch_complete_gen _ _ _ Hna Hwf EM).
Qed.

Theorem fullmatch_complete r data :
  no_asserts r = true -> wf r = true -> fullmatch r data = Some false -> ~ Lang r data.
Proof. exact (fullmatch_false_gen default_fuel r data). Qed.

Corollary fullmatch_correct r data b :
  no_asserts r = true -> wf r = true -> fullmatch r data = Some b -> (b = true <-> Lang r data).
Proof.
  intros Hna Hwf H. destruct b.
  - split; [intros _; apply fullmatch_sound; exact H | reflexivity].
  - split; [discriminate|]. intros HL. exfalso. revert HL. apply fullmatch_complete; assumption.
Qed.

(* ------------------------------------------------------------------ *)
(* Regression examples (expected values = what Python re and regex      *)
(* print for the same pattern / subject: finditer spans per group,      *)
(* fullmatch, Pattern.match with pos, search)                           *)
(* ------------------------------------------------------------------ *)
Definition xa : re := Cls (2 ^ 97).
Definition xb : re := Cls (2 ^ 98).
Definition xc : re := Cls (2 ^ 99).
Definition xd : re := Cls (2 ^ 100).
Definition xopt (r : re) : re := Rep 0 (Some 1%nat) r.
Definition xstar (r : re) : re := Rep 0 None r.
Definition xplus (r : re) : re := Rep 1 None r.
(* group 1 = a or ab, then optional group 2 = c or bcd *)
Definition xr1 : re := Seq (Grp 1 (Alt xa (Seq xa xb))) (xopt (Grp 2 (Alt xc (Seq xb (Seq xc xd))))).

Example bt_ex01 : finditer xr1 2 [97;98;99;100]%N = Some [[Some (0, 4); Some (0, 1); Some (1, 4)]].
Proof. vm_compute. reflexivity. Qed.
Example bt_ex02 : finditer (xstar (Grp 1 xa)) 1 [97;97;98]%N
                  = Some [[Some (0, 2); Some (1, 2)]; [Some (2, 2); None]; [Some (3, 3); None]].
Proof. vm_compute. reflexivity. Qed.
Example bt_ex03 : finditer (Seq xa (NLook false xb)) 0 [97;98;97;99]%N = Some [[Some (2, 3)]].
Proof. vm_compute. reflexivity. Qed.
Example bt_ex04 : finditer (Seq (NLook true xa) xb) 0 [97;98;98;98]%N = Some [[Some (2, 3)]; [Some (3, 4)]].
Proof. vm_compute. reflexivity. Qed.
Example bt_ex05 : finditer (Seq WordB (Seq xa (Seq xb WordB))) 0 [97;98;32;99;97;98;32;97;98]%N
                  = Some [[Some (0, 2)]; [Some (7, 9)]].
Proof. vm_compute. reflexivity. Qed.
Example bt_ex06 : finditer (Seq xa Eol) 0 [98;97;10]%N = Some [[Some (1, 2)]].
Proof. vm_compute. reflexivity. Qed.
Example bt_ex07 : finditer (Seq Bol xa) 0 [97;97]%N = Some [[Some (0, 1)]].
Proof. vm_compute. reflexivity. Qed.
Example bt_ex08 : finditer (Rep 2 (Some 3%nat) (Seq xa xb)) 0 [97;98;97;98;97;98;97;98;97;98]%N
                  = Some [[Some (0, 6)]; [Some (6, 10)]].
Proof. vm_compute. reflexivity. Qed.
Example bt_ex09 : finditer (Seq (xstar (Alt (Grp 1 xa) (Grp 2 xb))) xc) 2 [97;98;97;99]%N
                  = Some [[Some (0, 4); Some (2, 3); Some (1, 2)]].
Proof. vm_compute. reflexivity. Qed.
Example bt_ex10 : finditer xr1 2 [97;98;99]%N = Some [[Some (0, 1); Some (0, 1); None]].
Proof. vm_compute. reflexivity. Qed.
Example bt_ex11 : finditer (xplus (Alt (Grp 1 xa) xb)) 1 [97;98]%N = Some [[Some (0, 2); Some (0, 1)]].
Proof. vm_compute. reflexivity. Qed.
Example bt_ex12 : fullmatch xr1 [97;98;99]%N = Some true.
Proof. vm_compute. reflexivity. Qed.
Example bt_ex13 : fullmatch xr1 [97;98;99;99]%N = Some false.
Proof. vm_compute. reflexivity. Qed.
Example bt_ex14 : match_at (Seq WordB xb) 0 [97;98]%N 1 = Some None.
Proof. vm_compute. reflexivity. Qed.
Example bt_ex15 : match_at xb 0 [97;98]%N 1 = Some (Some [Some (1, 2)]).
Proof. vm_compute. reflexivity. Qed.
Example bt_ex16 : match_at (Seq (NLook true xa) xb) 0 [97;98]%N 1 = Some None.
Proof. vm_compute. reflexivity. Qed.
Example bt_ex17 : search (Seq (Grp 1 xb) (xopt (Grp 2 xc))) 2 [97;98;100]%N
                  = Some (Some [Some (1, 2); Some (1, 2); None]).
Proof. vm_compute. reflexivity. Qed.
Example bt_ex18 : group_re xr1 2 = [Alt xc (Seq xb (Seq xc xd))].
Proof. reflexivity. Qed.
Example bt_ex19 : no_asserts xr1 = true /\ wf xr1 = true.
Proof. split; reflexivity. Qed.

Print Assumptions m_sound.
Print Assumptions m_caps_sound.
Print Assumptions match_here_sound.
Print Assumptions finditer_sound.
Print Assumptions search_sound.
Print Assumptions match_at_sound.
Print Assumptions fullmatch_sound.
Print Assumptions mtch_ok_slice.
Print Assumptions sub_slice.
Print Assumptions m_complete.
Print Assumptions match_here_complete.
Print Assumptions fullmatch_complete.
Print Assumptions fullmatch_correct.
