(* Correctness of nullable / deriv / matchb w.r.t. Lang, plus minlen and relax. *)
From Coq Require Import List NArith PArith Arith Bool Lia.
From MD Require Import Regex.Syntax.
Import ListNotations.
Local Open Scope nat_scope.

(* ------------------------------------------------------------------ *)
(* Boolean equality                                                    *)
(* ------------------------------------------------------------------ *)
Lemma onat_eqb_eq a b : onat_eqb a b = true -> a = b.
Proof.
  destruct a as [x|], b as [y|]; simpl; intros H; try discriminate; try reflexivity.
  apply Nat.eqb_eq in H. subst. reflexivity.
Qed.

Lemma re_eqb_eq : forall a b, re_eqb a b = true -> a = b.
Proof.
  induction a as [| |m|a1 IH1 a2 IH2|a1 IH1 a2 IH2|lo hi a IH|k a IH|d a IH| | |];
    intros b H; destruct b; simpl in H; try discriminate H; try reflexivity.
  - apply N.eqb_eq in H. subst. reflexivity.
  - apply andb_true_iff in H. destruct H as [H1 H2].
    apply IH1 in H1. apply IH2 in H2. subst. reflexivity.
  - apply andb_true_iff in H. destruct H as [H1 H2].
    apply IH1 in H1. apply IH2 in H2. subst. reflexivity.
  - apply andb_true_iff in H. destruct H as [H1 H3].
    apply andb_true_iff in H1. destruct H1 as [H1 H2].
    apply Nat.eqb_eq in H1. apply onat_eqb_eq in H2. apply IH in H3. subst. reflexivity.
  - apply andb_true_iff in H. destruct H as [H1 H2].
    apply Nat.eqb_eq in H1. apply IH in H2. subst. reflexivity.
  - apply andb_true_iff in H. destruct H as [H1 H2].
    apply eqb_prop in H1. apply IH in H2. subst. reflexivity.
Qed.

Lemma onat_eqb_refl a : onat_eqb a a = true.
Proof. destruct a; simpl; [apply Nat.eqb_refl | reflexivity]. Qed.

Lemma re_eqb_refl : forall a, re_eqb a a = true.
Proof.
  induction a; simpl; try reflexivity;
    repeat (apply andb_true_iff; split); auto using N.eqb_refl, Nat.eqb_refl, onat_eqb_refl, eqb_reflx.
Qed.

Lemma re_eqb_iff a b : re_eqb a b = true <-> a = b.
Proof. split; [apply re_eqb_eq | intros ->; apply re_eqb_refl]. Qed.

(* ------------------------------------------------------------------ *)
(* lpow                                                                *)
(* ------------------------------------------------------------------ *)
Lemma lpow_nil (L : list N -> Prop) n : L [] -> lpow L n [].
Proof.
  intros H. induction n as [|n IH]; simpl; [reflexivity|].
  exists [], []. auto.
Qed.

Lemma lpow_nil_inv (L : list N -> Prop) n : lpow L (S n) [] -> L [].
Proof.
  simpl. intros (u & v & E & Hu & _).
  symmetry in E. apply app_eq_nil in E. destruct E as [-> _]. exact Hu.
Qed.

(* padding with empty iterations *)
Lemma lpow_pad (L : list N -> Prop) n m w : L [] -> n <= m -> lpow L n w -> lpow L m w.
Proof.
  intros H0 Hle. induction Hle as [|m Hle IH]; intros H; [exact H|].
  simpl. exists [], w. auto.
Qed.

Lemma lpow_mono (L L' : list N -> Prop) :
  (forall w, L w -> L' w) -> forall n w, lpow L n w -> lpow L' n w.
Proof.
  intros HL. induction n as [|n IH]; simpl; intros w H; [exact H|].
  destruct H as (u & v & E & Hu & Hv). exists u, v. auto.
Qed.

Lemma lpow_ext (L L' : list N -> Prop) :
  (forall w, L w <-> L' w) -> forall n w, lpow L n w <-> lpow L' n w.
Proof.
  intros HL n w. split; apply lpow_mono; intros w'; apply HL.
Qed.

(* a non-empty word of L^n: strip the empty leading iterations *)
Lemma lpow_cons (L : list N -> Prop) n c w :
  lpow L n (c :: w) ->
  exists m u v, m < n /\ w = u ++ v /\ L (c :: u) /\ lpow L m v /\ (S m = n \/ L []).
Proof.
  revert w. induction n as [|n IH]; simpl; intros w H; [discriminate H|].
  destruct H as (u & v & E & Hu & Hv).
  destruct u as [|c' u].
  - simpl in E. subst v. destruct (IH _ Hv) as (m & u & v & Hm & E & Hcu & Hp & _).
    exists m, u, v. repeat split; auto.
  - simpl in E. injection E as <- ->.
    exists n, u, v. repeat split; auto.
Qed.

(* ------------------------------------------------------------------ *)
(* nullable                                                            *)
(* ------------------------------------------------------------------ *)
Theorem nullable_correct : forall r, nullable r = true <-> Lang r [].
Proof.
  induction r as [| |m|a IHa b IHb|a IHa b IHb|lo hi a IH|k a IH|d a IH| | |]; simpl.
  - split; [discriminate | tauto].
  - split; auto.
  - split; [discriminate|]. intros (c & E & _). discriminate E.
  - rewrite andb_true_iff, IHa, IHb. split.
    + intros [Ha Hb]. exists [], []. auto.
    + intros (u & v & E & Hu & Hv). symmetry in E. apply app_eq_nil in E.
      destruct E as [-> ->]. auto.
  - rewrite orb_true_iff, IHa, IHb. tauto.
  - destruct lo as [|lo].
    + split; auto. intros _. exists 0. split; [lia|]. split; [|reflexivity].
      destruct hi; simpl; [lia | exact I].
    + rewrite andb_true_iff, IH. split.
      * intros [Ha Hle]. exists (S lo). split; [lia|]. split.
        -- destruct hi as [h|]; cbn [hi_ok lo_le_hi] in *; [apply Nat.leb_le in Hle; lia | exact I].
        -- apply lpow_nil. exact Ha.
      * intros (n & Hlo & Hhi & Hp). destruct n as [|n]; [lia|]. split.
        -- eapply lpow_nil_inv. exact Hp.
        -- destruct hi as [h|]; cbn [hi_ok lo_le_hi] in *; [apply Nat.leb_le; lia | reflexivity].
  - exact IH.
  - split; auto.
  - split; auto.
  - split; auto.
  - split; auto.
Qed.

(* ------------------------------------------------------------------ *)
(* Smart constructors                                                  *)
(* ------------------------------------------------------------------ *)
Lemma is_emp_true r : is_emp r = true -> r = Emp.
Proof. destruct r; simpl; intros H; try discriminate H; reflexivity. Qed.

Lemma mkSeq_cases a b :
  (a = Emp /\ mkSeq a b = Emp) \/ (b = Emp /\ mkSeq a b = Emp) \/
  (a = Eps /\ mkSeq a b = b) \/ (b = Eps /\ mkSeq a b = a) \/ mkSeq a b = Seq a b.
Proof. destruct a; destruct b; simpl; tauto. Qed.

Lemma Lang_mkSeq a b w : Lang (mkSeq a b) w <-> Lang (Seq a b) w.
Proof.
  destruct (mkSeq_cases a b) as [[-> ->]|[[-> ->]|[[-> ->]|[[-> ->]| ->]]]]; simpl.
  - split; [tauto|]. intros (u & v & _ & H & _). exact H.
  - split; [tauto|]. intros (u & v & _ & _ & H). exact H.
  - split.
    + intros H. exists [], w. auto.
    + intros (u & v & -> & -> & H). exact H.
  - split.
    + intros H. exists w, []. rewrite app_nil_r. auto.
    + intros (u & v & -> & H & ->). rewrite app_nil_r. exact H.
  - tauto.
Qed.

Lemma Lang_alt_insert x : forall b w, Lang (alt_insert x b) w <-> Lang x w \/ Lang b w.
Proof.
  assert (G : forall y w,
             Lang (match re_compare x y with
                   | Lt => Alt x y
                   | Eq => if re_eqb x y then y else Alt x y
                   | Gt => Alt y x end) w <-> Lang x w \/ Lang y w).
  { intros y w. destruct (re_compare x y); [| simpl; tauto | simpl; tauto].
    destruct (re_eqb x y) eqn:E; [|simpl; tauto].
    apply re_eqb_eq in E. subst y. tauto. }
  induction b as [| |m|a IHa b IHb|a IHa b IHb|lo hi a IH|k a IH|d a IH| | |]; intros w;
    try apply G.
  - simpl. tauto.
  - cbn [alt_insert]. destruct (re_compare x a); [| simpl; tauto |].
    + destruct (re_eqb x a) eqn:E; [|simpl; tauto].
      apply re_eqb_eq in E. subst a. simpl. tauto.
    + simpl. rewrite IHb. tauto.
Qed.

Lemma Lang_mkAlt : forall a b w, Lang (mkAlt a b) w <-> Lang (Alt a b) w.
Proof.
  induction a as [| |m|a1 IH1 a2 IH2|a1 IH1 a2 IH2|lo hi a IH|k a IH|d a IH| | |]; intros b w;
    try (cbn [mkAlt]; rewrite Lang_alt_insert; simpl; tauto).
  - simpl. tauto.
  - cbn [mkAlt]. rewrite IH1. simpl. rewrite IH2. simpl. tauto.
Qed.

Lemma Lang_mkRep lo hi a w : Lang (mkRep lo hi a) w <-> Lang (Rep lo hi a) w.
Proof.
  unfold mkRep. destruct hi as [h|]; [|tauto].
  destruct (Nat.ltb h lo) eqn:E.
  - apply Nat.ltb_lt in E. simpl. split; [tauto|]. intros (n & H1 & H2 & _). lia.
  - apply Nat.ltb_ge in E. destruct h as [|h]; [|tauto]. simpl. split.
    + intros ->. exists 0. repeat split; lia.
    + intros (n & H1 & H2 & H3). assert (n = 0) by lia. subst n. exact H3.
Qed.

(* ------------------------------------------------------------------ *)
(* Derivative                                                          *)
(* ------------------------------------------------------------------ *)
Lemma hi_ok_pred hi n : hi_ok hi (S n) -> hi_ok (option_map pred hi) n.
Proof. destruct hi as [h|]; simpl; [lia | auto]. Qed.

Lemma hi_ok_succ hi n : hi <> Some 0 -> hi_ok (option_map pred hi) n -> hi_ok hi (S n).
Proof.
  destruct hi as [h|]; simpl; [|auto]. intros Hne H.
  destruct h as [|h]; [congruence | simpl in H; lia].
Qed.

Lemma hi_ok_le hi n m : m <= n -> hi_ok hi n -> hi_ok hi m.
Proof. destruct hi as [h|]; simpl; [lia | auto]. Qed.

Theorem deriv_correct_nowf : forall r c w, Lang (deriv c r) w <-> Lang r (c :: w).
Proof.
  induction r as [| |m|a IHa b IHb|a IHa b IHb|lo hi a IH|k a IH|d a IH| | |];
    intros c w; simpl.
  - tauto.
  - split; [tauto | discriminate].
  - destruct (N.testbit m c) eqn:E; simpl.
    + split.
      * intros ->. exists c. auto.
      * intros (c' & E' & _). injection E' as _ ->. reflexivity.
    + split; [tauto|]. intros (c' & E' & H). injection E' as -> _. congruence.
  - (* Seq *)
    assert (S1 : Lang (mkSeq (deriv c a) b) w <->
                 exists u v, w = u ++ v /\ Lang a (c :: u) /\ Lang b v).
    { rewrite Lang_mkSeq. simpl. split; intros (u & v & E & Hu & Hv); exists u, v;
        (split; [exact E|]); (split; [apply IHa; exact Hu | exact Hv]). }
    assert (S2 : (exists u v, c :: w = u ++ v /\ Lang a u /\ Lang b v) <->
                 (exists u v, w = u ++ v /\ Lang a (c :: u) /\ Lang b v) \/
                 (Lang a [] /\ Lang b (c :: w))).
    { split.
      - intros (u & v & E & Hu & Hv). destruct u as [|c' u].
        + simpl in E. subst v. right. auto.
        + simpl in E. injection E as <- ->. left. exists u, v. auto.
      - intros [(u & v & -> & Hu & Hv) | [Ha Hb]].
        + exists (c :: u), v. auto.
        + exists [], (c :: w). auto. }
    rewrite S2. destruct (nullable a) eqn:En.
    + rewrite Lang_mkAlt. simpl. rewrite S1, IHb.
      apply nullable_correct in En. tauto.
    + rewrite S1. split; [tauto|]. intros [H|[Ha _]]; [exact H|].
      apply nullable_correct in Ha. congruence.
  - rewrite Lang_mkAlt. simpl. rewrite IHa, IHb. tauto.
  - (* Rep *)
    assert (R : Lang (mkSeq (deriv c a) (mkRep (pred lo) (option_map pred hi) a)) w <->
                exists u v, w = u ++ v /\ Lang a (c :: u) /\
                            exists m, pred lo <= m /\ hi_ok (option_map pred hi) m /\ lpow (Lang a) m v).
    { rewrite Lang_mkSeq. simpl. split; intros (u & v & E & Hu & Hv); exists u, v;
        (split; [exact E|]); (split; [apply IH; exact Hu | apply Lang_mkRep in Hv; exact Hv]). }
    assert (Main : hi <> Some 0 ->
                   ((exists u v, w = u ++ v /\ Lang a (c :: u) /\
                                 exists m, pred lo <= m /\ hi_ok (option_map pred hi) m /\ lpow (Lang a) m v)
                    <-> exists n, lo <= n /\ hi_ok hi n /\ lpow (Lang a) n (c :: w))).
    { intros Hne. split.
      - intros (u & v & -> & Hu & m & Hm & Hh & Hp). exists (S m).
        split; [lia|]. split; [apply hi_ok_succ; assumption|].
        simpl. exists (c :: u), v. auto.
      - intros (n & Hlo & Hhi & Hp).
        destruct (lpow_cons _ _ _ _ Hp) as (m & u & v & Hm & E & Hcu & Hpm & Hor).
        exists u, v. split; [exact E|]. split; [exact Hcu|].
        destruct n as [|n]; [lia|].
        destruct Hor as [Hor|H0].
        + injection Hor as ->. exists n. split; [lia|]. split; [apply hi_ok_pred; exact Hhi | exact Hpm].
        + exists n. split; [lia|]. split; [apply hi_ok_pred; exact Hhi|].
          apply (lpow_pad _ m n); [exact H0 | lia | exact Hpm]. }
    destruct hi as [[|h]|].
    + simpl. split; [tauto|]. intros (n & _ & Hn & Hp).
      assert (n = 0) by lia. subst n. discriminate Hp.
    + rewrite R. apply Main. discriminate.
    + rewrite R. apply Main. discriminate.
  - apply IH.
  - split; [tauto | discriminate].
  - split; [tauto | discriminate].
  - split; [tauto | discriminate].
  - split; [tauto | discriminate].
Qed.

(* the statement asked for (the wf hypothesis is not needed) *)
Theorem deriv_correct r c w : wf r = true -> (Lang (deriv c r) w <-> Lang r (c :: w)).
Proof. intros _. apply deriv_correct_nowf. Qed.

Lemma derivs_cons r c w : derivs r (c :: w) = derivs (deriv c r) w.
Proof. reflexivity. Qed.

Theorem derivs_correct : forall w r v, Lang (derivs r w) v <-> Lang r (w ++ v).
Proof.
  induction w as [|c w IH]; intros r v; [simpl; tauto|].
  rewrite derivs_cons, IH, deriv_correct_nowf. simpl. tauto.
Qed.

Theorem matchb_correct_nowf r w : matchb r w = true <-> Lang r w.
Proof.
  unfold matchb. rewrite nullable_correct, derivs_correct, app_nil_r. tauto.
Qed.

Theorem matchb_correct r w : wf r = true -> (matchb r w = true <-> Lang r w).
Proof. intros _. apply matchb_correct_nowf. Qed.

Corollary matchb_false r w : matchb r w = false <-> ~ Lang r w.
Proof.
  rewrite <- matchb_correct_nowf. destruct (matchb r w); split; congruence.
Qed.

Lemma Lang_Emp_deriv r w : is_emp r = true -> ~ Lang r w.
Proof. intros H. apply is_emp_true in H. subst r. simpl. tauto. Qed.

(* ------------------------------------------------------------------ *)
(* masks of derivatives                                                *)
(* ------------------------------------------------------------------ *)
Lemma masks_mkSeq a b : incl (masks (mkSeq a b)) (masks a ++ masks b).
Proof.
  destruct (mkSeq_cases a b) as [[-> ->]|[[-> ->]|[[-> ->]|[[-> ->]| ->]]]]; simpl;
    try apply incl_nil_l; try apply incl_refl.
  rewrite app_nil_r. apply incl_refl.
Qed.

Lemma masks_alt_insert x : forall b, incl (masks (alt_insert x b)) (masks x ++ masks b).
Proof.
  assert (G : forall y,
             incl (masks (match re_compare x y with
                          | Lt => Alt x y
                          | Eq => if re_eqb x y then y else Alt x y
                          | Gt => Alt y x end)) (masks x ++ masks y)).
  { intros y. destruct (re_compare x y); simpl; try apply incl_refl.
    - destruct (re_eqb x y); simpl; [apply incl_appr, incl_refl | apply incl_refl].
    - apply incl_app; [apply incl_appr, incl_refl | apply incl_appl, incl_refl]. }
  induction b as [| |m|a IHa b IHb|a IHa b IHb|lo hi a IH|k a IH|d a IH| | |];
    try apply G.
  - simpl. rewrite app_nil_r. apply incl_refl.
  - cbn [alt_insert]. destruct (re_compare x a).
    + destruct (re_eqb x a); [apply incl_appr, incl_refl | apply incl_refl].
    + apply incl_refl.
    + cbn [masks]. apply incl_app.
      * apply incl_appr, incl_appl, incl_refl.
      * eapply incl_tran; [exact IHb|].
        apply incl_app; [apply incl_appl, incl_refl | apply incl_appr, incl_appr, incl_refl].
Qed.

Lemma masks_mkAlt : forall a b, incl (masks (mkAlt a b)) (masks a ++ masks b).
Proof.
  induction a as [| |m|a1 IH1 a2 IH2|a1 IH1 a2 IH2|lo hi a IH|k a IH|d a IH| | |]; intros b;
    try apply masks_alt_insert.
  - simpl. apply incl_refl.
  - cbn [mkAlt masks]. eapply incl_tran; [apply IH1|].
    rewrite <- app_assoc. apply incl_app; [apply incl_appl, incl_refl|].
    apply incl_appr. apply IH2.
Qed.

Lemma masks_mkRep lo hi a : incl (masks (mkRep lo hi a)) (masks a).
Proof.
  unfold mkRep. destruct hi as [h|]; [|apply incl_refl].
  destruct (Nat.ltb h lo); [apply incl_nil_l|].
  destruct h; [apply incl_nil_l | apply incl_refl].
Qed.

Lemma masks_deriv c : forall r, incl (masks (deriv c r)) (masks r).
Proof.
  induction r as [| |m|a IHa b IHb|a IHa b IHb|lo hi a IH|k a IH|d a IH| | |]; simpl;
    try apply incl_nil_l.
  - destruct (N.testbit m c); apply incl_nil_l.
  - assert (H1 : incl (masks (mkSeq (deriv c a) b)) (masks a ++ masks b)).
    { eapply incl_tran; [apply masks_mkSeq|]. apply incl_app; [apply incl_appl, IHa | apply incl_appr, incl_refl]. }
    destruct (nullable a); [|exact H1].
    eapply incl_tran; [apply masks_mkAlt|]. apply incl_app; [exact H1 | apply incl_appr, IHb].
  - eapply incl_tran; [apply masks_mkAlt|].
    apply incl_app; [apply incl_appl, IHa | apply incl_appr, IHb].
  - assert (H1 : incl (masks (mkSeq (deriv c a) (mkRep (pred lo) (option_map pred hi) a))) (masks a)).
    { eapply incl_tran; [apply masks_mkSeq|]. apply incl_app; [exact IH | apply masks_mkRep]. }
    destruct hi as [[|h]|]; [apply incl_nil_l | exact H1 | exact H1].
  - exact IH.
Qed.

(* two bytes that agree on every mask of r have the same derivative *)
Lemma deriv_same_class c c' : forall r,
  (forall m, In m (masks r) -> N.testbit m c = N.testbit m c') -> deriv c r = deriv c' r.
Proof.
  induction r as [| |m|a IHa b IHb|a IHa b IHb|lo hi a IH|k a IH|d a IH| | |]; simpl; intros H;
    try reflexivity.
  - rewrite (H m); [reflexivity | left; reflexivity].
  - rewrite IHa, IHb; [reflexivity | |]; intros m Hm; apply H; apply in_or_app; auto.
  - rewrite IHa, IHb; [reflexivity | |]; intros m Hm; apply H; apply in_or_app; auto.
  - rewrite IH; [reflexivity | exact H].
  - apply IH. exact H.
Qed.

(* ------------------------------------------------------------------ *)
(* masks_ok: words of the language are made of bytes                   *)
(* ------------------------------------------------------------------ *)
Lemma mask_ok_bit m c : mask_ok m = true -> N.testbit m c = true -> (c < 256)%N.
Proof.
  unfold mask_ok. intros Hm Hc. apply N.ltb_lt in Hm.
  destruct (N.lt_ge_cases c 256) as [Hlt|Hge]; [exact Hlt|].
  rewrite N.bits_above_log2 in Hc; [discriminate Hc|].
  eapply N.lt_le_trans; [exact Hm | exact Hge].
Qed.

Lemma lpow_Forall (L : list N -> Prop) (P : N -> Prop) :
  (forall w, L w -> Forall P w) -> forall n w, lpow L n w -> Forall P w.
Proof.
  intros HL. induction n as [|n IH]; simpl; intros w H.
  - subst w. constructor.
  - destruct H as (u & v & -> & Hu & Hv). apply Forall_app. split; [apply HL; exact Hu | apply IH; exact Hv].
Qed.

Lemma Lang_bytes : forall r w,
  (forall m, In m (masks r) -> mask_ok m = true) -> Lang r w -> Forall (fun c => (c < 256)%N) w.
Proof.
  induction r as [| |m|a IHa b IHb|a IHa b IHb|lo hi a IH|k a IH|d a IH| | |]; simpl; intros w Hm H;
    try (subst w; constructor); try tauto.
  - destruct H as (c & -> & Hc). constructor; [|constructor].
    eapply mask_ok_bit; [apply Hm; left; reflexivity | exact Hc].
  - destruct H as (u & v & -> & Hu & Hv). apply Forall_app. split.
    + apply IHa; [|exact Hu]. intros m Hin. apply Hm, in_or_app. auto.
    + apply IHb; [|exact Hv]. intros m Hin. apply Hm, in_or_app. auto.
  - destruct H as [H|H].
    + apply IHa; [|exact H]. intros m Hin. apply Hm, in_or_app. auto.
    + apply IHb; [|exact H]. intros m Hin. apply Hm, in_or_app. auto.
  - destruct H as (n & _ & _ & Hp). revert Hp. apply lpow_Forall.
    intros w' Hw'. apply IH; assumption.
  - apply IH; assumption.
Qed.

Lemma masks_ok_spec r : masks_ok r = true -> forall m, In m (masks r) -> mask_ok m = true.
Proof. unfold masks_ok. intros H. apply forallb_forall. exact H. Qed.

(* ------------------------------------------------------------------ *)
(* minlen                                                              *)
(* ------------------------------------------------------------------ *)
Lemma lpow_minlen (L : list N -> Prop) k :
  (forall w, L w -> k <= List.length w) -> forall n w, lpow L n w -> n * k <= List.length w.
Proof.
  intros HL. induction n as [|n IH]; simpl; intros w H; [lia|].
  destruct H as (u & v & -> & Hu & Hv). rewrite app_length.
  apply HL in Hu. apply IH in Hv. lia.
Qed.

Theorem minlen_correct : forall r w, Lang r w -> minlen r <= List.length w.
Proof.
  induction r as [| |m|a IHa b IHb|a IHa b IHb|lo hi a IH|k a IH|d a IH| | |]; intros w H;
    try (simpl; lia).
  - simpl in *. destruct H as (c & -> & _). simpl. lia.
  - simpl in *. destruct H as (u & v & -> & Hu & Hv). rewrite app_length.
    apply IHa in Hu. apply IHb in Hv. lia.
  - assert (G : Nat.min (minlen a) (minlen b) <= List.length w).
    { simpl in H. destruct H as [H|H]; [apply IHa in H | apply IHb in H]; lia. }
    simpl in H.
    assert (Ga : a = Emp -> minlen b <= List.length w).
    { intros ->. destruct H as [[]|H]. apply IHb. exact H. }
    assert (Gb : b = Emp -> minlen a <= List.length w).
    { intros ->. destruct H as [H|[]]. apply IHa. exact H. }
    simpl. destruct a; try (apply Ga; reflexivity); destruct b; try (apply Gb; reflexivity); exact G.
  - simpl in *. destruct H as (n & Hlo & _ & Hp).
    apply (lpow_minlen _ (minlen a)) in Hp; [|exact IH].
    assert (lo * minlen a <= n * minlen a) by (apply Nat.mul_le_mono_r; exact Hlo). lia.
  - simpl in *. apply IH. exact H.
Qed.

(* ------------------------------------------------------------------ *)
(* relax                                                               *)
(* ------------------------------------------------------------------ *)
Lemma hi_ok_relax k hi n : hi_ok hi n -> hi_ok (relax_hi k hi) n.
Proof.
  destruct hi as [h|]; simpl; [|auto]. destruct (Nat.leb h k); simpl; auto.
Qed.

Theorem relax_sound k : forall r w, Lang r w -> Lang (relax k r) w.
Proof.
  induction r as [| |m|a IHa b IHb|a IHa b IHb|lo hi a IH|g a IH|d a IH| | |]; simpl; intros w H;
    try exact H.
  - destruct H as (u & v & E & Hu & Hv). exists u, v. auto.
  - destruct H as [H|H]; auto.
  - destruct H as (n & Hlo & Hhi & Hp). exists n. split; [lia|].
    split; [apply hi_ok_relax; exact Hhi|]. revert Hp. apply lpow_mono. exact IH.
  - apply IH. exact H.
Qed.

(* ------------------------------------------------------------------ *)
(* Regression examples                                                 *)
(* ------------------------------------------------------------------ *)
Definition ex_a : re := Cls (2 ^ 97).
Definition ex_b : re := Cls (2 ^ 98).
Definition ex_ab23 : re := Rep 2 (Some 3) (Seq ex_a ex_b).

Example ex_match1 : matchb ex_ab23 [97; 98; 97; 98]%N = true.
Proof. vm_compute. reflexivity. Qed.
Example ex_match2 : matchb ex_ab23 [97; 98]%N = false.
Proof. vm_compute. reflexivity. Qed.
Example ex_match3 : matchb ex_ab23 [97; 98; 97; 98; 97; 98]%N = true.
Proof. vm_compute. reflexivity. Qed.
Example ex_match4 : matchb ex_ab23 [97; 98; 97; 98; 97; 98; 97; 98]%N = false.
Proof. vm_compute. reflexivity. Qed.
Example ex_match5 : matchb (Rep 0 None (Alt ex_a Eps)) [97; 97; 97]%N = true.
Proof. vm_compute. reflexivity. Qed.
Example ex_match6 : matchb (Rep 2 (Some 1) ex_a) [97]%N = false.
Proof. vm_compute. reflexivity. Qed.
Example ex_match7 : matchb (Seq (Grp 1 ex_a) (Seq WordB (NLook false ex_b))) [97]%N = true.
Proof. vm_compute. reflexivity. Qed.
Example ex_match8 : matchb (Rep 3 (Some 5) (Alt ex_a Eps)) [97]%N = true.
Proof. vm_compute. reflexivity. Qed.
Example ex_match9 : matchb (Rep 3 (Some 5) (Alt ex_a Eps)) [97; 97; 97; 97; 97; 97]%N = false.
Proof. vm_compute. reflexivity. Qed.
Example ex_minlen : minlen (Seq ex_ab23 (Alt ex_a Emp)) = 5.
Proof. vm_compute. reflexivity. Qed.
Example ex_wf1 : wf ex_ab23 = true.
Proof. vm_compute. reflexivity. Qed.
Example ex_wf2 : wf (Rep 0 None (Alt ex_a Eps)) = false.
Proof. vm_compute. reflexivity. Qed.

Print Assumptions re_eqb_iff.
Print Assumptions nullable_correct.
Print Assumptions deriv_correct_nowf.
Print Assumptions deriv_correct.
Print Assumptions matchb_correct_nowf.
Print Assumptions matchb_correct.
Print Assumptions masks_deriv.
Print Assumptions deriv_same_class.
Print Assumptions Lang_bytes.
Print Assumptions minlen_correct.
Print Assumptions relax_sound.
