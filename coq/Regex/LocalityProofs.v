(* Position independence of the backtracking matcher of Regex/Backtrack.v.
   An anchored match attempt at a position depends only on the bytes AFTER the position and on at most
   [lb_width r] bytes BEFORE it; the absolute index only shifts the reported spans.  Look-ahead is
   unbounded in general (a greedy repeat reads to the end of the subject), so only the "before" side
   is local: that is the clause of the detection property about absolute position and preceding text. *)
From Coq Require Import List ZArith NArith Bool Lia Arith.
From MD Require Import Lib.Base Regex.Syntax Regex.Backtrack Regex.BacktrackProofs Generated.Regexes.
Import ListNotations.
Open Scope Z_scope.

(* ------------------------------------------------------------------ *)
(* Definitions                                                         *)
(* ------------------------------------------------------------------ *)
(* width of a look-behind body, 0 when it is not fixed-width (the matcher then answers Fuel at once) *)
Definition owidth (r : re) : nat := match width r with Some w => w | None => O end.

(* how many bytes before the START position an attempt to match r may depend on.  An assertion deeper in
   the pattern looks before a later position, whose "before" starts with the bytes the match itself has
   consumed: similarity (below) is preserved by consuming a byte, so the maximum over the assertions is a
   sound bound.  A look-behind re-matches its body from [width] bytes back, and assertions inside the body
   look further back from there, hence the sum. *)
Fixpoint lb_width (r : re) : nat :=
  match r with
  | Emp | Eps | Cls _ | Eol => O
  | Seq a b | Alt a b => Nat.max (lb_width a) (lb_width b)
  | Rep _ _ a | Grp _ a => lb_width a
  | NLook false a => lb_width a
  | NLook true a => (owidth a + lb_width a)%nat
  | WordB | Bol => 1%nat
  end.

(* k-similar positions: same bytes after, same k nearest bytes before (if one of them has fewer than k
   bytes before, then the other has exactly the same bytes before).  For k >= 1 this implies that the two
   positions are both / neither at the very start of their subject (sim_nil_iff). *)
Definition sim (k : nat) (p q : pos) : Prop :=
  p_after p = p_after q /\ firstn k (p_before p) = firstn k (p_before q).

Definition shift_span (d : Z) (sp : Z * Z) : Z * Z := (fst sp + d, snd sp + d).
Definition shift_caps (d : Z) (c : caps) : caps := map (fun gc => (fst gc, shift_span d (snd gc))) c.
Definition shift_pos (d : Z) (p : pos) : pos :=
  {| p_i := p_i p + d; p_before := p_before p; p_after := p_after p |}.
(* add d to every index of an answer: the index of the end position and all capture spans *)
Definition shift_out (d : Z) (o : out) : out :=
  match o with
  | Found e c => Found (shift_pos d e) (shift_caps d c)
  | NoMatch => NoMatch
  | Fuel => Fuel
  end.
Definition shift_mtch (d : Z) (mt : mtch) : mtch := map (option_map (shift_span d)) mt.

(* keep only the k nearest bytes before *)
Definition trim_pos (k : nat) (p : pos) : pos :=
  {| p_i := p_i p; p_before := firstn k (p_before p); p_after := p_after p |}.
Definition trim_out (k : nat) (o : out) : out :=
  match o with
  | Found e c => Found (trim_pos k e) c
  | NoMatch => NoMatch
  | Fuel => Fuel
  end.

(* two answers that are equal up to the shift d and up to the bytes further than k before the end *)
Definition out_sim (k : nat) (d : Z) (o1 o2 : out) : Prop :=
  match o1, o2 with
  | NoMatch, NoMatch => True
  | Fuel, Fuel => True
  | Found e1 c1, Found e2 c2 => sim k e1 e2 /\ p_i e2 = p_i e1 + d /\ c2 = shift_caps d c1
  | _, _ => False
  end.

(* related continuations: on similar positions with the same shift they give shift-related answers *)
Definition k_rel (n : nat) (d : Z) (k k' : pos -> caps -> out) : Prop :=
  forall p' q' c', sim n p' q' -> p_i q' = p_i p' + d -> out_sim n d (k p' c') (k' q' (shift_caps d c')).

Definition sres_sim (n : nat) (d : Z) (s1 s2 : sres) : Prop :=
  match s1, s2 with
  | SNone, SNone => True
  | SFuel, SFuel => True
  | SFound s e c, SFound s' e' c' =>
      sim n s s' /\ p_i s' = p_i s + d /\ sim n e e' /\ p_i e' = p_i e + d /\ c' = shift_caps d c
  | _, _ => False
  end.

(* the position at offset |pre| of the subject pre ++ body *)
Definition pos_at (pre body : list N) : pos :=
  {| p_i := Z.of_nat (List.length pre); p_before := rev pre; p_after := body |}.

(* ------------------------------------------------------------------ *)
(* Similarity                                                          *)
(* ------------------------------------------------------------------ *)
Lemma firstn_le_eq {A} (j k : nat) (l1 l2 : list A) :
  (j <= k)%nat -> firstn k l1 = firstn k l2 -> firstn j l1 = firstn j l2.
Proof.
  intros Hle H. replace j with (Nat.min j k) by lia.
  rewrite <- !firstn_firstn. rewrite H. reflexivity.
Qed.

Lemma sim_refl k p : sim k p p.
Proof. split; reflexivity. Qed.

Lemma sim_sym k p q : sim k p q -> sim k q p.
Proof. intros [H1 H2]. split; symmetry; assumption. Qed.

Lemma sim_trans k p q s : sim k p q -> sim k q s -> sim k p s.
Proof. intros [H1 H2] [H3 H4]. split; etransitivity; eassumption. Qed.

Lemma sim_le j k p q : (j <= k)%nat -> sim k p q -> sim j p q.
Proof. intros Hle [H1 H2]. split; [exact H1 | exact (firstn_le_eq _ _ _ _ Hle H2)]. Qed.

Lemma sim_nil_iff k p q : (1 <= k)%nat -> sim k p q -> (p_before p = [] <-> p_before q = []).
Proof.
  intros Hk [_ H]. destruct k as [|k]; [lia|].
  destruct (p_before p) as [|x l1], (p_before q) as [|y l2]; cbn [firstn] in H; try discriminate H.
  - split; reflexivity.
  - split; intros E; discriminate E.
Qed.

Lemma sim_word_at k p q : (1 <= k)%nat -> sim k p q -> word_at (p_before p) = word_at (p_before q).
Proof.
  intros Hk [_ H]. destruct k as [|k]; [lia|].
  destruct (p_before p) as [|x l1], (p_before q) as [|y l2]; cbn [firstn] in H; try discriminate H.
  - reflexivity.
  - injection H as -> _. reflexivity.
Qed.

Lemma sim_trim k p : sim k p (trim_pos k p).
Proof.
  split; [reflexivity|]. cbn [trim_pos p_before]. rewrite firstn_firstn, Nat.min_id. reflexivity.
Qed.

Lemma sim_trim_eq k p q : sim k p q -> p_i q = p_i p -> trim_pos k q = trim_pos k p.
Proof. intros [H1 H2] Hi. unfold trim_pos. rewrite H1, H2, Hi. reflexivity. Qed.

Lemma sim_adv_some n d p q b p' :
  sim n p q -> p_i q = p_i p + d -> adv p = Some (b, p') ->
  exists q', adv q = Some (b, q') /\ sim n p' q' /\ p_i q' = p_i p' + d.
Proof.
  intros [Ha Hb] Hi H. unfold adv in *. rewrite <- Ha.
  destruct (p_after p) as [|x a]; [discriminate H|]. injection H as <- <-.
  eexists. split; [reflexivity|]. cbn [p_i p_before p_after]. split; [|lia].
  split; cbn [p_before p_after]; [reflexivity|].
  destruct n as [|n]; [reflexivity|]. cbn [firstn]. f_equal.
  apply (firstn_le_eq n (S n)); [lia | exact Hb].
Qed.

Lemma sim_adv_none n p q : sim n p q -> adv p = None -> adv q = None.
Proof.
  intros [Ha _] H. unfold adv in *. rewrite <- Ha. destruct (p_after p); [reflexivity | discriminate H].
Qed.

(* stepping back w <= n bytes: possible on both sides or on neither, the results are (n - w)-similar *)
Lemma sim_back d : forall w n p q,
  (w <= n)%nat -> sim n p q -> p_i q = p_i p + d ->
  match back w p, back w q with
  | None, None => True
  | Some p', Some q' => sim (n - w) p' q' /\ p_i q' = p_i p' + d
  | _, _ => False
  end.
Proof.
  induction w as [|w IH]; intros n p q Hle Hs Hi.
  - cbn [back]. rewrite Nat.sub_0_r. split; assumption.
  - destruct n as [|n]; [lia|]. destruct Hs as [Ha Hb]. cbn [back].
    destruct (p_before p) as [|x l1] eqn:E1, (p_before q) as [|y l2] eqn:E2; cbn [firstn] in Hb;
      try discriminate Hb; [exact I|].
    injection Hb as -> Hb.
    cbn [Nat.sub]. apply (IH n); [lia | | cbn [p_i]; lia].
    split; cbn [p_before p_after]; [rewrite Ha; reflexivity | exact Hb].
Qed.

(* ------------------------------------------------------------------ *)
(* Shifts                                                              *)
(* ------------------------------------------------------------------ *)
Lemma shift_span_0 sp : shift_span 0 sp = sp.
Proof. destruct sp as [s e]. unfold shift_span. cbn [fst snd]. rewrite !Z.add_0_r. reflexivity. Qed.

Lemma shift_caps_0 c : shift_caps 0 c = c.
Proof.
  unfold shift_caps. induction c as [|[g sp] c IH]; [reflexivity|].
  cbn [map fst snd]. rewrite shift_span_0, IH. reflexivity.
Qed.

Lemma shift_pos_0 p : shift_pos 0 p = p.
Proof. destruct p as [i b a]. unfold shift_pos. cbn [p_i p_before p_after]. rewrite Z.add_0_r. reflexivity. Qed.

Lemma shift_out_0 o : shift_out 0 o = o.
Proof. destruct o as [| |e c]; [reflexivity | reflexivity |]. cbn [shift_out]. rewrite shift_pos_0, shift_caps_0. reflexivity. Qed.

Lemma shift_mtch_0 mt : shift_mtch 0 mt = mt.
Proof.
  unfold shift_mtch. induction mt as [|[sp|] mt IH]; [reflexivity | |]; cbn [map option_map].
  - rewrite shift_span_0, IH. reflexivity.
  - rewrite IH. reflexivity.
Qed.

Lemma map_shift_mtch_0 ms : map (shift_mtch 0) ms = ms.
Proof. induction ms as [|mt ms IH]; [reflexivity|]. cbn [map]. rewrite shift_mtch_0, IH. reflexivity. Qed.

Lemma lookup_cap_shift d g : forall c,
  lookup_cap g (shift_caps d c) = option_map (shift_span d) (lookup_cap g c).
Proof.
  induction c as [|[g' sp] c IH]; [reflexivity|].
  cbn [shift_caps map fst snd lookup_cap]. destruct (Nat.eqb g g'); [reflexivity | exact IH].
Qed.

Lemma mk_mtch_shift ng d s e c :
  mk_mtch ng (s + d) (e + d) (shift_caps d c) = shift_mtch d (mk_mtch ng s e c).
Proof.
  unfold mk_mtch, shift_mtch. cbn [map option_map]. unfold shift_span at 1. cbn [fst snd]. f_equal.
  rewrite map_map. apply map_ext. intros g. apply lookup_cap_shift.
Qed.

(* out_sim as a literal equation: equal after forgetting everything further than k bytes before the end *)
Lemma out_sim_trim k d o1 o2 : out_sim k d o1 o2 <-> trim_out k o2 = trim_out k (shift_out d o1).
Proof.
  destruct o1 as [| |e1 c1], o2 as [| |e2 c2]; cbn [out_sim trim_out shift_out];
    try (split; [intros [] | intros H; discriminate H]); try (split; [reflexivity | exact (fun _ => I)]).
  split.
  - intros ([Ha Hb] & Hi & ->). unfold trim_pos, shift_pos. cbn [p_i p_before p_after].
    rewrite Ha, Hb, Hi. reflexivity.
  - intros H. injection H as H1 H2 H3 H4. cbn [p_i p_before p_after] in *.
    split; [split; symmetry; assumption|]. split; assumption.
Qed.

Lemma out_sim_alt n d o1 o2 x1 x2 :
  out_sim n d o1 o2 -> out_sim n d x1 x2 ->
  out_sim n d (match o1 with NoMatch => x1 | Fuel => Fuel | Found e c => Found e c end)
              (match o2 with NoMatch => x2 | Fuel => Fuel | Found e c => Found e c end).
Proof.
  intros H Hx. destruct o1 as [| |e1 c1], o2 as [| |e2 c2]; cbn [out_sim] in H; try contradiction;
    [exact Hx | exact I | exact H].
Qed.

Lemma out_sim_alt2 n d o1 o2 x1 x2 :
  out_sim n d o1 o2 -> out_sim n d x1 x2 ->
  out_sim n d (match o1 with NoMatch => x1 | Fuel => o1 | Found _ _ => o1 end)
              (match o2 with NoMatch => x2 | Fuel => o2 | Found _ _ => o2 end).
Proof.
  intros H Hx. destruct o1 as [| |e1 c1], o2 as [| |e2 c2]; cbn [out_sim] in H; try contradiction;
    [exact Hx | exact I | exact H].
Qed.

Lemma out_sim_neg n n' d o1 o2 x1 x2 :
  out_sim n' d o1 o2 -> out_sim n d x1 x2 ->
  out_sim n d (match o1 with NoMatch => x1 | Fuel => Fuel | Found _ _ => NoMatch end)
              (match o2 with NoMatch => x2 | Fuel => Fuel | Found _ _ => NoMatch end).
Proof.
  intros H Hx. destruct o1 as [| |e1 c1], o2 as [| |e2 c2]; cbn [out_sim] in H; try contradiction;
    [exact Hx | exact I | exact I].
Qed.

Lemma out_sim_eol n d (l : list N) o1 o2 :
  out_sim n d o1 o2 ->
  out_sim n d (match l with [] => o1 | [10%N] => o1 | _ => NoMatch end)
              (match l with [] => o2 | [10%N] => o2 | _ => NoMatch end).
Proof.
  intros H. destruct l as [|x [|y l]]; [exact H | |];
    (destruct x as [|px]; [exact I|];
     repeat (destruct px as [px|px|]; try exact I; try exact H)).
Qed.

Lemma k_rel_found n d : k_rel n d (fun p' c' => Found p' c') (fun p' c' => Found p' c').
Proof. intros p' q' c' Hs Hi. cbn [out_sim]. split; [exact Hs|]. split; [exact Hi | reflexivity]. Qed.

(* ------------------------------------------------------------------ *)
(* 1.  The core: m is local                                            *)
(* ------------------------------------------------------------------ *)
Theorem m_local : forall fuel r n d p q c k k',
  (lb_width r <= n)%nat -> sim n p q -> p_i q = p_i p + d -> k_rel n d k k' ->
  out_sim n d (m fuel r p c k) (m fuel r q (shift_caps d c) k').
Proof.
  induction fuel as [|f IH]; intros r n d p q c k k' Hw Hs Hi Hk; [exact I|].
  destruct r as [| |mk|a b|a b|lo hi a|g a|bh a| | |]; cbn [m]; cbn [lb_width] in Hw.
  - exact I.
  - apply Hk; assumption.
  - (* Cls *)
    destruct (adv p) as [[x p']|] eqn:Ea.
    + destruct (sim_adv_some _ _ _ _ _ _ Hs Hi Ea) as (q' & Eq & Hs' & Hi'). rewrite Eq.
      destruct (N.testbit mk x); [apply Hk; assumption | exact I].
    + rewrite (sim_adv_none _ _ _ Hs Ea). exact I.
  - (* Seq *)
    apply IH; [lia | assumption | assumption|].
    intros p' q' c' Hs' Hi'. apply IH; [lia | assumption | assumption | assumption].
  - (* Alt *)
    apply out_sim_alt; (apply IH; [lia | assumption | assumption | assumption]).
  - (* Rep *)
    assert (Again : out_sim n d
              (m f a p c (fun p' c' => if p_i p' =? p_i p then NoMatch
                                       else m f (Rep (pred lo) (option_map pred hi) a) p' c' k))
              (m f a q (shift_caps d c) (fun p' c' => if p_i p' =? p_i q then NoMatch
                                       else m f (Rep (pred lo) (option_map pred hi) a) p' c' k'))).
    { apply IH; [lia | assumption | assumption|].
      intros p' q' c' Hs' Hi'.
      replace (p_i q' =? p_i q) with (p_i p' =? p_i p)
        by (destruct (p_i p' =? p_i p) eqn:E1, (p_i q' =? p_i q) eqn:E2; lia).
      destruct (p_i p' =? p_i p); [exact I|].
      apply IH; [cbn [lb_width]; lia | assumption | assumption | assumption]. }
    assert (Zero : out_sim n d (k p c) (k' q (shift_caps d c))) by (apply Hk; assumption).
    destruct hi as [[|h]|].
    + destruct lo as [|lo]; [exact Zero | exact I].
    + destruct lo as [|lo]; [apply out_sim_alt2; assumption | exact Again].
    + destruct lo as [|lo]; [apply out_sim_alt2; assumption | exact Again].
  - (* Grp *)
    apply IH; [lia | assumption | assumption|].
    intros p' q' c' Hs' Hi'.
    replace ((g, (p_i q, p_i q')) :: shift_caps d c') with (shift_caps d ((g, (p_i p, p_i p')) :: c'))
      by (cbn [shift_caps map fst snd]; unfold shift_span; cbn [fst snd]; rewrite Hi, Hi'; reflexivity).
    apply Hk; assumption.
  - (* NLook *)
    assert (Zero : out_sim n d (k p c) (k' q (shift_caps d c))) by (apply Hk; assumption).
    destruct bh.
    + (* look-behind *)
      unfold owidth in Hw. destruct (width a) as [w|]; [|exact I].
      pose proof (sim_back d w n p q ltac:(lia) Hs Hi) as Hb.
      destruct (back w p) as [pb|], (back w q) as [qb|]; try contradiction; [|exact Zero].
      destruct Hb as [Hsb Hib].
      apply (out_sim_neg n (n - w)); [|exact Zero].
      apply IH; [lia | assumption | assumption|].
      intros p' q' c' Hs' Hi'.
      replace (p_i q' =? p_i q) with (p_i p' =? p_i p)
        by (destruct (p_i p' =? p_i p) eqn:E1, (p_i q' =? p_i q) eqn:E2; lia).
      destruct (p_i p' =? p_i p); [|exact I].
      cbn [out_sim]. split; [exact Hs'|]. split; [exact Hi' | reflexivity].
    + (* look-ahead *)
      apply (out_sim_neg n n); [|exact Zero].
      apply IH; [lia | assumption | assumption | apply k_rel_found].
  - (* WordB *)
    rewrite <- (sim_word_at n p q Hw Hs). destruct Hs as [Ha Hb]. rewrite <- Ha.
    destruct (xorb (word_at (p_before p)) (word_at (p_after p))); [|exact I].
    apply Hk; [split; assumption | assumption].
  - (* Bol *)
    pose proof (sim_nil_iff n p q Hw Hs) as Hn.
    destruct (p_before p) as [|x l1] eqn:E1, (p_before q) as [|y l2] eqn:E2.
    + apply Hk; assumption.
    + destruct Hn as [Hn _]. specialize (Hn eq_refl). discriminate Hn.
    + destruct Hn as [_ Hn]. specialize (Hn eq_refl). discriminate Hn.
    + exact I.
  - (* Eol *)
    pose proof Hs as [Ha _]. rewrite <- Ha. apply out_sim_eol. apply Hk; assumption.
Qed.

(* the same as an equation (the form asked for), modulo the bytes further than n before the end position *)
Corollary m_local_eq fuel r n d p q c k k' :
  (lb_width r <= n)%nat -> sim n p q -> p_i q = p_i p + d -> k_rel n d k k' ->
  trim_out n (m fuel r q (shift_caps d c) k') = trim_out n (shift_out d (m fuel r p c k)).
Proof. intros Hw Hs Hi Hk. apply out_sim_trim. apply m_local; assumption. Qed.

(* ------------------------------------------------------------------ *)
(* 2.  Anchored attempts                                               *)
(* ------------------------------------------------------------------ *)
Theorem match_here_local_sim fuel r p q :
  sim (lb_width r) p q ->
  out_sim (lb_width r) (p_i q - p_i p) (match_here fuel r p) (match_here fuel r q).
Proof.
  intros Hs. unfold match_here.
  change (@nil (nat * (Z * Z))) with (shift_caps (p_i q - p_i p) []) at 2.
  apply m_local; [lia | exact Hs | lia | apply k_rel_found].
Qed.

Theorem match_here_local fuel r p q :
  sim (lb_width r) p q ->
  trim_out (lb_width r) (match_here fuel r q)
  = trim_out (lb_width r) (shift_out (p_i q - p_i p) (match_here fuel r p)).
Proof. intros Hs. apply out_sim_trim. apply match_here_local_sim. exact Hs. Qed.

(* what a client observes of an answer: the end index, the remaining bytes and the captures *)
Definition out_obs (o : out) : option (option (Z * list N * caps)) :=
  match o with
  | NoMatch => Some None
  | Fuel => None
  | Found e c => Some (Some (p_i e, p_after e, c))
  end.

Corollary match_here_local_obs fuel r p q :
  sim (lb_width r) p q ->
  out_obs (match_here fuel r q) = out_obs (shift_out (p_i q - p_i p) (match_here fuel r p)).
Proof.
  intros Hs. pose proof (match_here_local_sim fuel r p q Hs) as H.
  destruct (match_here fuel r p) as [| |e1 c1], (match_here fuel r q) as [| |e2 c2];
    cbn [out_sim] in H; try contradiction; try reflexivity.
  destruct H as ([Ha _] & Hi & ->). cbn [shift_out out_obs shift_pos p_i p_after].
  rewrite Ha, Hi. reflexivity.
Qed.

(* an attempt does not see more than lb_width r bytes before its start *)
Corollary match_here_trim fuel r p :
  trim_out (lb_width r) (match_here fuel r (trim_pos (lb_width r) p))
  = trim_out (lb_width r) (match_here fuel r p).
Proof.
  rewrite (match_here_local fuel r p (trim_pos (lb_width r) p) (sim_trim _ _)).
  cbn [trim_pos p_i]. rewrite Z.sub_diag, shift_out_0. reflexivity.
Qed.

(* patterns of width 0 (no look-behind, no word boundary, no start anchor): only the bytes after matter *)
Corollary match_here_local_w0 fuel r p q :
  lb_width r = 0%nat -> p_after p = p_after q ->
  out_obs (match_here fuel r q) = out_obs (shift_out (p_i q - p_i p) (match_here fuel r p)).
Proof.
  intros H0 Ha. apply match_here_local_obs. rewrite H0. split; [exact Ha | reflexivity].
Qed.

(* ------------------------------------------------------------------ *)
(* 3.  Scans                                                           *)
(* ------------------------------------------------------------------ *)
Lemma match_here_local_gen fuel r n d p q :
  (lb_width r <= n)%nat -> sim n p q -> p_i q = p_i p + d ->
  out_sim n d (match_here fuel r p) (match_here fuel r q).
Proof.
  intros Hw Hs Hi. unfold match_here.
  change (@nil (nat * (Z * Z))) with (shift_caps d []) at 2.
  apply m_local; [assumption | assumption | assumption | apply k_rel_found].
Qed.

Lemma search_pos_local fuel r n d :
  (lb_width r <= n)%nat ->
  forall cnt p q, sim n p q -> p_i q = p_i p + d ->
  sres_sim n d (search_pos fuel r cnt p) (search_pos fuel r cnt q).
Proof.
  intros Hw. induction cnt as [|cnt IH]; intros p q Hs Hi; cbn [search_pos];
    pose proof (match_here_local_gen fuel r n d p q Hw Hs Hi) as HM;
    destruct (match_here fuel r p) as [| |e1 c1], (match_here fuel r q) as [| |e2 c2];
    cbn [out_sim] in HM; try contradiction.
  - exact I.
  - exact I.
  - destruct HM as (He & Hie & ->). cbn [sres_sim].
    split; [exact Hs|]. split; [exact Hi|]. split; [exact He|]. split; [exact Hie | reflexivity].
  - destruct (adv p) as [[x p']|] eqn:Ea.
    + destruct (sim_adv_some _ _ _ _ _ _ Hs Hi Ea) as (q' & Eq & Hs' & Hi'). rewrite Eq.
      apply IH; assumption.
    + rewrite (sim_adv_none _ _ _ Hs Ea). exact I.
  - exact I.
  - destruct HM as (He & Hie & ->). cbn [sres_sim].
    split; [exact Hs|]. split; [exact Hi|]. split; [exact He|]. split; [exact Hie | reflexivity].
Qed.

Theorem finditer_pos_local fuel r ng d : forall cnt p q,
  sim (lb_width r) p q -> p_i q = p_i p + d ->
  finditer_pos fuel r ng cnt q = option_map (map (shift_mtch d)) (finditer_pos fuel r ng cnt p).
Proof.
  induction cnt as [|cnt IH]; intros p q Hs Hi; cbn [finditer_pos]; [reflexivity|].
  pose proof Hs as [Ha _]. rewrite <- Ha.
  pose proof (search_pos_local fuel r (lb_width r) d (le_n _) (List.length (p_after p)) p q Hs Hi) as HS.
  destruct (search_pos fuel r (List.length (p_after p)) p) as [| |s1 e1 c1],
           (search_pos fuel r (List.length (p_after p)) q) as [| |s2 e2 c2];
    cbn [sres_sim] in HS; try contradiction; try reflexivity.
  destruct HS as (Hss & His & Hse & Hie & ->).
  rewrite His, Hie, mk_mtch_shift.
  replace (p_i e1 + d =? p_i s1 + d) with (p_i e1 =? p_i s1)
    by (destruct (p_i e1 =? p_i s1) eqn:E1, (p_i e1 + d =? p_i s1 + d) eqn:E2; lia).
  destruct (p_i e1 =? p_i s1).
  - destruct (adv e1) as [[x p']|] eqn:Ea.
    + destruct (sim_adv_some _ _ _ _ _ _ Hse Hie Ea) as (q' & Eq & Hs' & Hi'). rewrite Eq.
      rewrite (IH p' q' Hs' Hi').
      destruct (finditer_pos fuel r ng cnt p'); reflexivity.
    + rewrite (sim_adv_none _ _ _ Hse Ea). reflexivity.
  - rewrite (IH e1 e2 Hse Hie).
    destruct (finditer_pos fuel r ng cnt e1); reflexivity.
Qed.

Lemma seek_app : forall u p x,
  p_after p = u ++ x ->
  seek (List.length u) p
  = {| p_i := p_i p + Z.of_nat (List.length u); p_before := rev u ++ p_before p; p_after := x |}.
Proof.
  induction u as [|b u IH]; intros p x H.
  - cbn [List.length seek rev app]. destruct p as [i bf af]. cbn [p_i p_before p_after] in *.
    rewrite Z.add_0_r. subst af. reflexivity.
  - cbn [List.length seek]. unfold adv. rewrite H. cbn [app].
    match goal with |- seek _ ?p0 = _ => rewrite (IH p0 x eq_refl) end. cbn [p_i p_before p_after rev]. rewrite <- app_assoc. cbn [app].
    f_equal. lia.
Qed.

Lemma seek_start_pos pre body : seek (List.length pre) (start_pos (pre ++ body)) = pos_at pre body.
Proof.
  rewrite (seek_app pre (start_pos (pre ++ body)) body eq_refl).
  unfold pos_at. cbn [start_pos p_i p_before]. rewrite app_nil_r. reflexivity.
Qed.

Lemma pos_at_sim k pre1 pre2 body :
  firstn k (rev pre1) = firstn k (rev pre2) -> sim k (pos_at pre1 body) (pos_at pre2 body).
Proof. intros H. split; [reflexivity | exact H]. Qed.

(* The matches found when the scan is (re)started at the beginning of body - i.e. all the matches that
   START inside body once the scan has reached the beginning of body - are the same in pre1 ++ body and in
   pre2 ++ body, up to the shift |pre2| - |pre1|, as soon as pre1 and pre2 agree on their last lb_width r
   bytes (or are equal when shorter than that). *)
Theorem finditer_suffix_local_gen fuel r ng cnt pre1 pre2 body :
  firstn (lb_width r) (rev pre1) = firstn (lb_width r) (rev pre2) ->
  finditer_pos fuel r ng cnt (seek (List.length pre2) (start_pos (pre2 ++ body)))
  = option_map (map (shift_mtch (Z.of_nat (List.length pre2) - Z.of_nat (List.length pre1))))
      (finditer_pos fuel r ng cnt (seek (List.length pre1) (start_pos (pre1 ++ body)))).
Proof.
  intros H. rewrite !seek_start_pos.
  apply finditer_pos_local; [apply pos_at_sim; exact H | cbn [pos_at p_i]; lia].
Qed.

(* the form of the assignment: a common tail of at least lb_width r bytes *)
Theorem finditer_suffix_local fuel r ng cnt x1 x2 tail body :
  (lb_width r <= List.length tail)%nat ->
  let pre1 := x1 ++ tail in
  let pre2 := x2 ++ tail in
  finditer_pos fuel r ng cnt (seek (List.length pre2) (start_pos (pre2 ++ body)))
  = option_map (map (shift_mtch (Z.of_nat (List.length pre2) - Z.of_nat (List.length pre1))))
      (finditer_pos fuel r ng cnt (seek (List.length pre1) (start_pos (pre1 ++ body)))).
Proof.
  intros Hlen pre1 pre2. apply finditer_suffix_local_gen. unfold pre1, pre2.
  rewrite !rev_app_distr, !firstn_app.
  replace (lb_width r - List.length (rev tail))%nat with 0%nat by (rewrite rev_length; lia).
  reflexivity.
Qed.

(* width 0: scanning the tail of any subject = scanning the tail alone, shifted *)
Corollary finditer_suffix_w0 r ng pre body cnt :
  lb_width r = 0%nat ->
  finditer_pos default_fuel r ng cnt (seek (List.length pre) (start_pos (pre ++ body)))
  = option_map (map (shift_mtch (Z.of_nat (List.length pre))))
      (finditer_pos default_fuel r ng cnt (start_pos body)).
Proof.
  intros H0.
  pose proof (finditer_suffix_local_gen default_fuel r ng cnt [] pre body) as H.
  rewrite H0 in H. specialize (H eq_refl).
  cbn [List.length seek app] in H. rewrite Z.sub_0_r in H. exact H.
Qed.

(* ------------------------------------------------------------------ *)
(* 3b.  The full scan from offset 0                                     *)
(* ------------------------------------------------------------------ *)
(* A failed attempt is skipped: the scan from p is the scan from the next position. *)
Lemma finditer_pos_skip fuel r ng cnt p x p' :
  match_here fuel r p = NoMatch -> adv p = Some (x, p') ->
  finditer_pos fuel r ng cnt p = finditer_pos fuel r ng cnt p'.
Proof.
  intros HM Ea. destruct cnt as [|cnt]; [reflexivity|]. cbn [finditer_pos].
  assert (E : search_pos fuel r (List.length (p_after p)) p
              = search_pos fuel r (List.length (p_after p')) p').
  { unfold adv in Ea. destruct (p_after p) as [|y a] eqn:Eaf; [discriminate Ea|].
    injection Ea as _ <-. cbn [p_after List.length search_pos]. rewrite HM.
    unfold adv. rewrite Eaf. reflexivity. }
  rewrite E. reflexivity.
Qed.

(* no attempt succeeds at the offsets 0 .. |u|-1 counted from p *)
Fixpoint quiet (fuel : nat) (r : re) (j : nat) (p : pos) : Prop :=
  match j with
  | O => True
  | S j' => match_here fuel r p = NoMatch /\
            match adv p with Some (_, p') => quiet fuel r j' p' | None => True end
  end.

Lemma finditer_pos_quiet fuel r ng cnt : forall j p,
  (j <= List.length (p_after p))%nat -> quiet fuel r j p ->
  finditer_pos fuel r ng cnt p = finditer_pos fuel r ng cnt (seek j p).
Proof.
  induction j as [|j IH]; intros p Hlen Hq; [reflexivity|].
  cbn [quiet] in Hq. destruct Hq as [HM Hq]. cbn [seek].
  destruct (adv p) as [[x p']|] eqn:Ea.
  - rewrite (finditer_pos_skip _ _ _ _ _ _ _ HM Ea). apply IH; [|exact Hq].
    unfold adv in Ea. destruct (p_after p) as [|y a]; [discriminate Ea|].
    injection Ea as _ <-. cbn [p_after List.length] in *. lia.
  - reflexivity.
Qed.

(* If no attempt succeeds inside pre1 (in pre1 ++ body) nor inside pre2 (in pre2 ++ body), the two complete
   scans from offset 0 report the same matches up to the shift.  (Without the two "quiet" hypotheses the
   full scans may differ: a match that starts in the prefix can end inside body and hide matches there.) *)
Theorem finditer_full_local fuel r ng cnt pre1 pre2 body :
  firstn (lb_width r) (rev pre1) = firstn (lb_width r) (rev pre2) ->
  quiet fuel r (List.length pre1) (start_pos (pre1 ++ body)) ->
  quiet fuel r (List.length pre2) (start_pos (pre2 ++ body)) ->
  finditer_pos fuel r ng cnt (start_pos (pre2 ++ body))
  = option_map (map (shift_mtch (Z.of_nat (List.length pre2) - Z.of_nat (List.length pre1))))
      (finditer_pos fuel r ng cnt (start_pos (pre1 ++ body))).
Proof.
  intros H Q1 Q2.
  rewrite (finditer_pos_quiet fuel r ng cnt (List.length pre2) (start_pos (pre2 ++ body)));
    [| cbn [start_pos p_after]; rewrite app_length; lia | exact Q2].
  rewrite (finditer_pos_quiet fuel r ng cnt (List.length pre1) (start_pos (pre1 ++ body)));
    [| cbn [start_pos p_after]; rewrite app_length; lia | exact Q1].
  apply finditer_suffix_local_gen. exact H.
Qed.

(* the iteration bound of finditer_pos is irrelevant once it exceeds the number of remaining bytes *)
Lemma finditer_pos_cnt_irrel fuel r ng data : forall cnt cnt' p,
  pos_ok data p -> (List.length (p_after p) < cnt)%nat -> (List.length (p_after p) < cnt')%nat ->
  finditer_pos fuel r ng cnt p = finditer_pos fuel r ng cnt' p.
Proof.
  induction cnt as [|cnt IH]; intros cnt' p Hp H1 H2; [lia|].
  destruct cnt' as [|cnt']; [lia|]. cbn [finditer_pos].
  destruct (search_pos fuel r (List.length (p_after p)) p) as [| |s e c] eqn:ES; try reflexivity.
  destruct (search_pos_sound _ _ _ _ _ _ _ _ Hp ES) as (Hs & Hps & HM).
  destruct (match_here_sound _ _ _ _ _ _ Hs HM) as (He & Hse & _).
  pose proof (pos_ok_len _ _ Hp) as Lp. pose proof (pos_ok_len _ _ He) as Le. unfold blen in *.
  destruct (p_i e =? p_i s) eqn:Ee.
  - destruct (adv e) as [[x q]|] eqn:Ea; [|reflexivity].
    destruct (adv_ok _ _ _ _ He Ea) as (Hq & Hiq & _).
    pose proof (pos_ok_len _ _ Hq) as Lq. unfold blen in Lq.
    rewrite (IH cnt' q Hq); [reflexivity | lia | lia].
  - apply Z.eqb_neq in Ee. rewrite (IH cnt' e He); [reflexivity | lia | lia].
Qed.

(* The complete finditer of the two subjects, under the same two hypotheses. *)
Theorem finditer_quiet_prefix_local r ng pre1 pre2 body :
  firstn (lb_width r) (rev pre1) = firstn (lb_width r) (rev pre2) ->
  quiet default_fuel r (List.length pre1) (start_pos (pre1 ++ body)) ->
  quiet default_fuel r (List.length pre2) (start_pos (pre2 ++ body)) ->
  finditer r ng (pre2 ++ body)
  = option_map (map (shift_mtch (Z.of_nat (List.length pre2) - Z.of_nat (List.length pre1))))
      (finditer r ng (pre1 ++ body)).
Proof.
  intros H Q1 Q2. unfold finditer.
  set (cnt := S (List.length (pre1 ++ body) + List.length (pre2 ++ body))).
  rewrite (finditer_pos_cnt_irrel default_fuel r ng (pre2 ++ body) _ cnt _ (start_pos_ok _));
    [| cbn [start_pos p_after]; lia | cbn [start_pos p_after]; unfold cnt; lia].
  rewrite (finditer_pos_cnt_irrel default_fuel r ng (pre1 ++ body) _ cnt _ (start_pos_ok _));
    [| cbn [start_pos p_after]; lia | cbn [start_pos p_after]; unfold cnt; lia].
  apply finditer_full_local; assumption.
Qed.

(* Pattern.match(data, pos) at the beginning of body *)
Theorem match_at_local r ng pre1 pre2 body :
  firstn (lb_width r) (rev pre1) = firstn (lb_width r) (rev pre2) ->
  match_at r ng (pre2 ++ body) (Z.of_nat (List.length pre2))
  = option_map (option_map (shift_mtch (Z.of_nat (List.length pre2) - Z.of_nat (List.length pre1))))
      (match_at r ng (pre1 ++ body) (Z.of_nat (List.length pre1))).
Proof.
  intros H. unfold match_at.
  assert (C : forall pre : list N,
            (Z.of_nat (List.length pre) <? 0) || (Z.of_nat (List.length (pre ++ body)) <? Z.of_nat (List.length pre)) = false).
  { intros pre. rewrite app_length. apply orb_false_iff. split; apply Z.ltb_ge; lia. }
  rewrite !C, !Nat2Z.id, !seek_start_pos.
  pose proof (match_here_local_gen default_fuel r (lb_width r)
                (Z.of_nat (List.length pre2) - Z.of_nat (List.length pre1))
                (pos_at pre1 body) (pos_at pre2 body) (le_n _) (pos_at_sim _ _ _ _ H)
                ltac:(cbn [pos_at p_i]; lia)) as HM.
  destruct (match_here default_fuel r (pos_at pre1 body)) as [| |e1 c1],
           (match_here default_fuel r (pos_at pre2 body)) as [| |e2 c2];
    cbn [out_sim] in HM; try contradiction; try reflexivity.
  destruct HM as (_ & Hie & ->). cbn [option_map]. rewrite Hie.
  replace (p_i (pos_at pre2 body))
    with (p_i (pos_at pre1 body) + (Z.of_nat (List.length pre2) - Z.of_nat (List.length pre1)))
    by (cbn [pos_at p_i]; lia).
  rewrite mk_mtch_shift. reflexivity.
Qed.

(* ------------------------------------------------------------------ *)
(* 4.  Widths of the shipped indicator patterns                         *)
(* ------------------------------------------------------------------ *)
Example lbw_IP : lb_width RE_network_IP_RE = 1%nat.
Proof. vm_compute. reflexivity. Qed.
Example lbw_DOMAIN : lb_width RE_network_DOMAIN_RE = 1%nat.
Proof. vm_compute. reflexivity. Qed.
Example lbw_URL : lb_width RE_network_URL_RE = 0%nat.
Proof. vm_compute. reflexivity. Qed.
Example lbw_EMAIL : lb_width RE_network_EMAIL_RE = 1%nat.
Proof. vm_compute. reflexivity. Qed.
Example lbw_PATH : lb_width RE_path_PATH_RE = 0%nat.
Proof. vm_compute. reflexivity. Qed.
Example lbw_WINDOWS_PATH : lb_width RE_path_WINDOWS_PATH_RE = 0%nat.
Proof. vm_compute. reflexivity. Qed.
Example lbw_EXECUTABLE : lb_width RE_filename_EXECUTABLE_RE = 1%nat.
Proof. vm_compute. reflexivity. Qed.

(* ------------------------------------------------------------------ *)
(* Regression examples.  The expected values are what the regex module  *)
(* prints for compile(P).finditer(pre + body, len(pre)) resp.           *)
(* compile(P).match(pre + body, len(pre)) (span of every group).        *)
(* ------------------------------------------------------------------ *)
Definition scan_from (r : re) (ng : nat) (pre body : list N) : option (list mtch) :=
  finditer_pos default_fuel r ng (S (List.length body)) (seek (List.length pre) (start_pos (pre ++ body))).

Definition ip_body : list N := L"1.2.3.4 x".
Example loc_ex01 : scan_from RE_network_IP_RE 0 (L"") ip_body = Some [[Some (0, 7)]].
Proof. vm_compute. reflexivity. Qed.
Example loc_ex02 : scan_from RE_network_IP_RE 0 (L"ab ") ip_body = Some [[Some (3, 10)]].
Proof. vm_compute. reflexivity. Qed.
Example loc_ex03 : scan_from RE_network_IP_RE 0 (L"zzzzzz ") ip_body = Some [[Some (7, 14)]].
Proof. vm_compute. reflexivity. Qed.
(* the width 1 is needed: one different byte just before the body changes the answer *)
Example loc_ex04 : scan_from RE_network_IP_RE 0 (L"zzzzza") ip_body = Some [].
Proof. vm_compute. reflexivity. Qed.
Example loc_ex05 : match_at RE_network_IP_RE 0 (L"a." ++ ip_body) 2 = Some None.
Proof. vm_compute. reflexivity. Qed.
Example loc_ex06 : match_at RE_network_IP_RE 0 (L"ab " ++ ip_body) 3 = Some (Some [Some (3, 10)]).
Proof. vm_compute. reflexivity. Qed.

Definition exe_body : list N := L"a.exe b.exe".
Example loc_ex07 : scan_from RE_filename_EXECUTABLE_RE 0 (L"") exe_body = Some [[Some (0, 5)]; [Some (6, 11)]].
Proof. vm_compute. reflexivity. Qed.
Example loc_ex08 : scan_from RE_filename_EXECUTABLE_RE 0 (L"zzzzzz ") exe_body = Some [[Some (7, 12)]; [Some (13, 18)]].
Proof. vm_compute. reflexivity. Qed.
Example loc_ex09 : scan_from RE_filename_EXECUTABLE_RE 0 (L"_") exe_body = Some [[Some (7, 12)]].
Proof. vm_compute. reflexivity. Qed.

Definition mail_body : list N := L"joe@example.com, http://a.bc/d".
Example loc_ex10 : scan_from RE_network_EMAIL_RE 1 (L"") mail_body = Some [[Some (0, 15); Some (4, 15)]].
Proof. vm_compute. reflexivity. Qed.
Example loc_ex11 : scan_from RE_network_EMAIL_RE 1 (L"zzzzzz ") mail_body = Some [[Some (7, 22); Some (11, 22)]].
Proof. vm_compute. reflexivity. Qed.
Example loc_ex12 : scan_from RE_network_EMAIL_RE 1 (L"zzzzza") mail_body = Some [].
Proof. vm_compute. reflexivity. Qed.
Example loc_ex13 : scan_from RE_network_DOMAIN_RE 0 (L"ab ") mail_body = Some [[Some (7, 18)]; [Some (27, 31)]].
Proof. vm_compute. reflexivity. Qed.
Example loc_ex14 : scan_from RE_network_DOMAIN_RE 0 (L"zzzzza") mail_body = Some [[Some (10, 21)]; [Some (30, 34)]].
Proof. vm_compute. reflexivity. Qed.
(* width 0: the bytes before are irrelevant *)
Example loc_ex15 : scan_from RE_network_URL_RE NG_network_URL_RE (L"") mail_body
                   = option_map (map (shift_mtch (-6))) (scan_from RE_network_URL_RE NG_network_URL_RE (L"zzzzza") mail_body).
Proof. vm_compute. reflexivity. Qed.
Example loc_ex16 : option_map (map (fun mt => hd None mt)) (scan_from RE_network_URL_RE NG_network_URL_RE (L"zzzzza") mail_body)
                   = Some [Some (23, 36)].
Proof. vm_compute. reflexivity. Qed.
Example loc_ex17 : scan_from RE_path_PATH_RE 1 (L"zzzzza") (L"./usr/local/bin.x y") = Some [[Some (6, 23); Some (12, 18)]].
Proof. vm_compute. reflexivity. Qed.
Example loc_ex18 : shift_out 3 (Found (start_pos [1%N]) [(1%nat, (0, 1))])
                   = Found {| p_i := 3; p_before := []; p_after := [1%N] |} [(1%nat, (3, 4))].
Proof. reflexivity. Qed.
Example loc_ex19 : lb_width (Seq (NLook true (Seq WordB (Cls 1))) Bol) = 2%nat.
Proof. reflexivity. Qed.

Print Assumptions m_local.
Print Assumptions m_local_eq.
Print Assumptions match_here_local_sim.
Print Assumptions match_here_local.
Print Assumptions match_here_local_obs.
Print Assumptions match_here_trim.
Print Assumptions match_here_local_w0.
Print Assumptions search_pos_local.
Print Assumptions finditer_pos_local.
Print Assumptions finditer_suffix_local_gen.
Print Assumptions finditer_suffix_local.
Print Assumptions finditer_suffix_w0.
Print Assumptions finditer_full_local.
Print Assumptions finditer_quiet_prefix_local.
Print Assumptions match_at_local.
