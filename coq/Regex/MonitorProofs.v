(* Soundness of the product exploration (regex derivatives x monitor) and worked monitors. *)
From Coq Require Import List NArith PArith Arith Bool Lia FMapPositive.
From MD Require Import Regex.Syntax Regex.DerivProofs.
Import ListNotations.
Local Open Scope nat_scope.

(* ------------------------------------------------------------------ *)
(* Byte classes                                                        *)
(* ------------------------------------------------------------------ *)
Lemma nub_complete (same : N -> N -> bool) :
  (forall x, same x x = true) ->
  forall l acc c,
    (In c l \/ exists c', In c' acc /\ same c' c = true) ->
    exists c', In c' (nub same l acc) /\ same c' c = true.
Proof.
  intros Hrefl. induction l as [|x l IH]; simpl; intros acc c H.
  - destruct H as [[]|H]. exact H.
  - destruct (existsb (fun c' => same c' x) acc) eqn:E.
    + apply IH. destruct H as [[->|H]|H]; auto.
      right. apply existsb_exists in E. exact E.
    + apply IH. destruct H as [[->|H]|(c' & Hin & Hs)]; auto.
      * right. exists c. split; [left; reflexivity | apply Hrefl].
      * right. exists c'. split; [right; exact Hin | exact Hs].
Qed.

Lemma same_class_refl ms cls c : same_class ms cls c c = true.
Proof.
  unfold same_class. rewrite N.eqb_refl. simpl. apply forallb_forall.
  intros m _. apply eqb_reflx.
Qed.

Lemma same_class_spec ms cls c c' :
  same_class ms cls c c' = true ->
  cls c = cls c' /\ forall m, In m ms -> N.testbit m c = N.testbit m c'.
Proof.
  unfold same_class. intros H. apply andb_true_iff in H. destruct H as [H1 H2].
  apply N.eqb_eq in H1. split; [exact H1|]. intros m Hm.
  rewrite forallb_forall in H2. apply eqb_prop. apply H2. exact Hm.
Qed.

Lemma bytes256_in c : (c < 256)%N -> In c bytes256.
Proof.
  intros H. unfold bytes256. apply in_map_iff. exists (N.to_nat c). split.
  - apply N2Nat.id.
  - apply in_seq. lia.
Qed.

Lemma class_reps_complete ms cls c :
  (c < 256)%N ->
  exists c', In c' (class_reps ms cls) /\ cls c' = cls c /\
             forall m, In m ms -> N.testbit m c' = N.testbit m c.
Proof.
  intros H. unfold class_reps.
  destruct (nub_complete (same_class ms cls) (same_class_refl ms cls) bytes256 [] c) as (c' & Hin & Hs).
  - left. apply bytes256_in. exact H.
  - exists c'. split; [exact Hin|]. apply same_class_spec. exact Hs.
Qed.

(* ------------------------------------------------------------------ *)
(* Exploration                                                         *)
(* ------------------------------------------------------------------ *)
Section Sound.
  Variable M : monitor.
  Notation pairT := (pairT M).
  Notation seenT := (seenT M).

  Definition InSeen (p : pairT) (s : seenT) : Prop :=
    exists k l, PositiveMap.find k s = Some l /\ In p l.

  Lemma pair_eqb_eq p p' : pair_eqb M p p' = true -> p = p'.
  Proof.
    unfold pair_eqb. destruct p as [r q], p' as [r' q']. simpl. intros H.
    apply andb_true_iff in H. destruct H as [H1 H2].
    apply re_eqb_eq in H1. apply (meqb_eq M) in H2. subst. reflexivity.
  Qed.

  Lemma seen_mem_spec p s : seen_mem M p s = true -> InSeen p s.
  Proof.
    unfold seen_mem. destruct (PositiveMap.find (pkey M p) s) as [l|] eqn:E; [|discriminate].
    intros H. apply existsb_exists in H. destruct H as (x & Hin & Hx).
    apply pair_eqb_eq in Hx. subst x. exists (pkey M p), l. auto.
  Qed.

  Lemma InSeen_empty p : ~ InSeen p (PositiveMap.empty _).
  Proof. intros (k & l & H & _). rewrite PositiveMap.gempty in H. discriminate H. Qed.

  Lemma seen_add_here p s : InSeen p (seen_add M p s).
  Proof.
    unfold seen_add. destruct (PositiveMap.find (pkey M p) s) as [l|] eqn:E.
    - exists (pkey M p), (p :: l). rewrite PositiveMap.gss. split; [reflexivity | left; reflexivity].
    - exists (pkey M p), [p]. rewrite PositiveMap.gss. split; [reflexivity | left; reflexivity].
  Qed.

  Lemma seen_add_mono p p' s : InSeen p' s -> InSeen p' (seen_add M p s).
  Proof.
    intros (k & l & Hk & Hin). unfold seen_add.
    destruct (Pos.eq_dec k (pkey M p)) as [->|Hne].
    - rewrite Hk. exists (pkey M p), (p :: l). rewrite PositiveMap.gss.
      split; [reflexivity | right; exact Hin].
    - destruct (PositiveMap.find (pkey M p) s) as [l'|];
        exists k, l; (rewrite PositiveMap.gso by exact Hne); auto.
  Qed.

  Lemma seen_add_inv p p' s : InSeen p' (seen_add M p s) -> p' = p \/ InSeen p' s.
  Proof.
    unfold seen_add. intros (k & l & Hk & Hin).
    destruct (Pos.eq_dec k (pkey M p)) as [->|Hne].
    - destruct (PositiveMap.find (pkey M p) s) as [l'|] eqn:E;
        rewrite PositiveMap.gss in Hk; injection Hk as <-.
      + destruct Hin as [<-|Hin]; [left; reflexivity|].
        right. exists (pkey M p), l'. auto.
      + destruct Hin as [<-|[]]. left. reflexivity.
    - right. exists k, l. split; [|exact Hin].
      destruct (PositiveMap.find (pkey M p) s) as [l'|];
        rewrite PositiveMap.gso in Hk by exact Hne; exact Hk.
  Qed.

  Lemma succs_rest reps r q rest p : In p rest -> In p (succs M reps r q rest).
  Proof.
    intros H. unfold succs. induction reps as [|c reps IH]; simpl; [exact H|].
    destruct (is_emp (deriv c r)); [exact IH | right; exact IH].
  Qed.

  Lemma succs_step reps r q rest c :
    In c reps -> is_emp (deriv c r) = false ->
    In (deriv c r, mstep M q (mclass M c)) (succs M reps r q rest).
  Proof.
    intros H He. unfold succs. induction reps as [|c' reps IH]; simpl; [destruct H|].
    destruct H as [->|H].
    - rewrite He. left. reflexivity.
    - destruct (is_emp (deriv c' r)); [apply IH; exact H | right; apply IH; exact H].
  Qed.

  (* local correctness of a pair w.r.t. a set S of pairs *)
  Definition good (reps : list N) (S : pairT -> Prop) (p : pairT) : Prop :=
    (nullable (fst p) = true -> macc M (snd p) = true) /\
    (mtop M (snd p) = true \/
     forall c, In c reps -> is_emp (deriv c (fst p)) = false ->
               S (deriv c (fst p), mstep M (snd p) (mclass M c))).

  Lemma good_mono reps (S S' : pairT -> Prop) p :
    (forall x, S x -> S' x) -> good reps S p -> good reps S' p.
  Proof.
    intros HS [H1 H2]. split; [exact H1|].
    destruct H2 as [H2|H2]; [left; exact H2 | right].
    intros c Hc He. apply HS. apply H2; assumption.
  Qed.

  Lemma explore_loop_inv reps : forall fuel todo seen,
    explore_loop M reps fuel todo seen = true ->
    exists S : pairT -> Prop,
      (forall p, InSeen p seen -> S p) /\
      (forall p, In p todo -> S p) /\
      (forall p, S p -> InSeen p seen \/ good reps S p).
  Proof.
    induction fuel as [|f IH]; intros todo seen H; simpl in H; [discriminate H|].
    destruct todo as [|[r q] rest].
    - exists (fun p => InSeen p seen). split; [auto|]. split; [intros p []|]. auto.
    - destruct (mtop M q) eqn:Etop.
      { destruct (IH _ _ H) as (S & H1 & H2 & H3).
        exists (fun p => S p \/ mtop M (snd p) = true). split; [|split].
        - intros p Hp. left. apply H1. exact Hp.
        - intros p [<-|Hp]; [right; exact Etop | left; apply H2; exact Hp].
        - intros p [Hp|Hp].
          + destruct (H3 p Hp) as [Hs|Hg]; [left; exact Hs | right].
            revert Hg. apply good_mono. auto.
          + right. split; [|left; exact Hp].
            intros _. apply (mtop_ok M). exact Hp. }
      destruct (seen_mem M (r, q) seen) eqn:Emem.
      { destruct (IH _ _ H) as (S & H1 & H2 & H3).
        exists S. split; [exact H1|]. split; [|exact H3].
        intros p [<-|Hp]; [|apply H2; exact Hp].
        apply H1. apply seen_mem_spec. exact Emem. }
      destruct (nullable r && negb (macc M q)) eqn:Esafe; [discriminate H|].
      destruct (IH _ _ H) as (S & H1 & H2 & H3).
      exists S. split; [|split].
      + intros p Hp. apply H1. apply seen_add_mono. exact Hp.
      + intros p [<-|Hp].
        * apply H1. apply seen_add_here.
        * apply H2. apply succs_rest. exact Hp.
      + intros p Hp. destruct (H3 p Hp) as [Hs|Hg]; [|right; exact Hg].
        apply seen_add_inv in Hs. destruct Hs as [->|Hs]; [|left; exact Hs].
        right. split; simpl.
        * intros Hn. rewrite Hn in Esafe. simpl in Esafe.
          destruct (macc M q); [reflexivity | discriminate Esafe].
        * right. intros c Hc He. apply H2. apply succs_step; assumption.
  Qed.

  Lemma mtop_run : forall w q, mtop M q = true -> macc M (run M q w) = true.
  Proof.
    unfold run. induction w as [|c w IH]; simpl; intros q H.
    - apply (mtop_ok M). exact H.
    - apply IH. apply (mtop_ok M). exact H.
  Qed.

  Lemma closed_set_sound (ms : list N) (S : pairT -> Prop) :
    (forall m, In m ms -> mask_ok m = true) ->
    (forall p, S p -> good (class_reps ms (mclass M)) S p) ->
    forall w r q, S (r, q) -> incl (masks r) ms -> Lang r w -> macc M (run M q w) = true.
  Proof.
    intros Hok Hgood. induction w as [|c w IH]; intros r q HS Hincl HL.
    - simpl. destruct (Hgood _ HS) as [Hsafe _]. apply Hsafe. simpl.
      apply nullable_correct. exact HL.
    - destruct (Hgood _ HS) as [_ [Htop|Hclosed]]; [apply mtop_run; exact Htop|].
      simpl in Hclosed.
      assert (Hc : (c < 256)%N).
      { assert (HF : Forall (fun c => (c < 256)%N) (c :: w)).
        { apply (Lang_bytes r); [|exact HL]. intros m Hm. apply Hok, Hincl, Hm. }
        inversion HF; assumption. }
      destruct (class_reps_complete ms (mclass M) c Hc) as (c' & Hin & Hcls & Hbits).
      assert (Ed : deriv c' r = deriv c r).
      { apply deriv_same_class. intros m Hm. apply Hbits, Hincl, Hm. }
      apply deriv_correct_nowf in HL.
      assert (He : is_emp (deriv c' r) = false).
      { rewrite Ed. destruct (is_emp (deriv c r)) eqn:E; [|reflexivity].
        exfalso. eapply Lang_Emp_deriv; [exact E | exact HL]. }
      specialize (Hclosed c' Hin He). rewrite Ed, Hcls in Hclosed.
      change (run M q (c :: w)) with (run M (mstep M q (mclass M c)) w).
      apply (IH (deriv c r)); [exact Hclosed | | exact HL].
      eapply incl_tran; [apply masks_deriv | exact Hincl].
  Qed.

  Theorem explore_sound_nowf fuel r q0 :
    explore M fuel r q0 = true -> forall w, Lang r w -> macc M (run M q0 w) = true.
  Proof.
    unfold explore. intros H w HL. apply andb_true_iff in H. destruct H as [Hok H].
    destruct (explore_loop_inv _ _ _ _ H) as (S & H1 & H2 & H3).
    apply (closed_set_sound (masks r) S) with (r := r); auto.
    - apply masks_ok_spec. exact Hok.
    - intros p Hp. destruct (H3 p Hp) as [Hs|Hg]; [|exact Hg].
      exfalso. eapply InSeen_empty. exact Hs.
    - apply H2. left. reflexivity.
    - apply incl_refl.
  Qed.

  (* the statement asked for (wf is not needed) *)
  Theorem explore_sound fuel r q0 :
    wf r = true -> explore M fuel r q0 = true ->
    forall w, Lang r w -> macc M (run M q0 w) = true.
  Proof. intros _. apply explore_sound_nowf. Qed.

  (* exploring the relaxed regex is enough *)
  Corollary explore_relax_sound k fuel r q0 :
    explore M fuel (relax k r) q0 = true ->
    forall w, Lang r w -> macc M (run M q0 w) = true.
  Proof.
    intros H w HL. apply (explore_sound_nowf fuel (relax k r)); [exact H|].
    apply relax_sound. exact HL.
  Qed.
End Sound.

(* ------------------------------------------------------------------ *)
(* Worked monitor 1: every byte is in a given mask                     *)
(* ------------------------------------------------------------------ *)
Definition alphabet_monitor (m : N) : monitor.
Proof.
  refine {| mst := bool;
            meqb := Bool.eqb;
            mhash := fun q => if q then 1%N else 0%N;
            mclass := fun c => if N.testbit m c then 1%N else 0%N;
            mstep := fun q k => q && N.eqb k 1;
            macc := fun q => q;
            mtop := fun _ => false |}.
  - intros a b H. apply eqb_prop. exact H.
  - intros q H. discriminate H.
Defined.

Lemma alphabet_run m : forall w q,
  run (alphabet_monitor m) q w = q && forallb (N.testbit m) w.
Proof.
  unfold run. induction w as [|c w IH]; intros q; simpl.
  - rewrite andb_true_r. reflexivity.
  - rewrite IH. destruct (N.testbit m c); simpl.
    + rewrite andb_true_r. reflexivity.
    + rewrite andb_false_r. reflexivity.
Qed.

Theorem alphabet_sound_nowf m fuel r :
  explore (alphabet_monitor m) fuel r true = true ->
  forall w, Lang r w -> Forall (fun c => N.testbit m c = true) w.
Proof.
  intros H w HL. apply Forall_forall. apply forallb_forall.
  pose proof (explore_sound_nowf (alphabet_monitor m) fuel r true H w HL) as G.
  rewrite alphabet_run in G. exact G.
Qed.

Theorem alphabet_sound m fuel r :
  wf r = true -> explore (alphabet_monitor m) fuel r true = true ->
  forall w, Lang r w -> Forall (fun c => N.testbit m c = true) w.
Proof. intros _. apply alphabet_sound_nowf. Qed.

Corollary alphabet_relax_sound m k fuel r :
  explore (alphabet_monitor m) fuel (relax k r) true = true ->
  forall w, Lang r w -> Forall (fun c => N.testbit m c = true) w.
Proof.
  intros H w HL. apply (alphabet_sound_nowf m fuel (relax k r) H). apply relax_sound. exact HL.
Qed.

(* ------------------------------------------------------------------ *)
(* Worked monitor 2: the length is even                                *)
(* ------------------------------------------------------------------ *)
Definition even_monitor : monitor.
Proof.
  refine {| mst := bool;
            meqb := Bool.eqb;
            mhash := fun q => if q then 1%N else 0%N;
            mclass := fun _ => 0%N;
            mstep := fun q _ => negb q;
            macc := fun q => q;
            mtop := fun _ => false |}.
  - intros a b H. apply eqb_prop. exact H.
  - intros q H. discriminate H.
Defined.

Lemma even_run : forall w q,
  run even_monitor q w = if Nat.even (List.length w) then q else negb q.
Proof.
  unfold run. induction w as [|c w IH]; intros q; [reflexivity|].
  cbn [fold_left List.length]. rewrite IH. rewrite Nat.even_succ, <- Nat.negb_even.
  cbn [mstep even_monitor]. destruct (Nat.even (List.length w)); simpl; [reflexivity|].
  apply negb_involutive.
Qed.

Theorem even_sound_nowf fuel r :
  explore even_monitor fuel r true = true ->
  forall w, Lang r w -> Nat.even (List.length w) = true.
Proof.
  intros H w HL.
  pose proof (explore_sound_nowf even_monitor fuel r true H w HL) as G.
  rewrite even_run in G. destruct (Nat.even (List.length w)); [reflexivity | discriminate G].
Qed.

Theorem even_sound fuel r :
  wf r = true -> explore even_monitor fuel r true = true ->
  forall w, Lang r w -> Nat.even (List.length w) = true.
Proof. intros _. apply even_sound_nowf. Qed.

(* ------------------------------------------------------------------ *)
(* Worked monitor 3 (uses the accepting sink): some byte is in a mask  *)
(* ------------------------------------------------------------------ *)
Definition contains_monitor (m : N) : monitor.
Proof.
  refine {| mst := bool;
            meqb := Bool.eqb;
            mhash := fun q => if q then 1%N else 0%N;
            mclass := fun c => if N.testbit m c then 1%N else 0%N;
            mstep := fun q k => q || N.eqb k 1;
            macc := fun q => q;
            mtop := fun q => q |}.
  - intros a b H. apply eqb_prop. exact H.
  - intros q H. subst q. split; [reflexivity|]. intros k. reflexivity.
Defined.

Lemma contains_run m : forall w q,
  run (contains_monitor m) q w = q || existsb (N.testbit m) w.
Proof.
  unfold run. induction w as [|c w IH]; intros q; simpl.
  - rewrite orb_false_r. reflexivity.
  - rewrite IH. destruct (N.testbit m c); simpl.
    + rewrite orb_true_r. reflexivity.
    + rewrite orb_false_r. reflexivity.
Qed.

Theorem contains_sound m fuel r :
  explore (contains_monitor m) fuel r false = true ->
  forall w, Lang r w -> Exists (fun c => N.testbit m c = true) w.
Proof.
  intros H w HL.
  pose proof (explore_sound_nowf (contains_monitor m) fuel r false H w HL) as G.
  rewrite contains_run in G. simpl in G. apply Exists_exists.
  apply existsb_exists in G. exact G.
Qed.

(* ------------------------------------------------------------------ *)
(* Examples                                                            *)
(* ------------------------------------------------------------------ *)
Module Examples.
  (* case-folded classes *)
  Definition c_x : re := Cls 1329227996094400882725152129005125632.     (* x X *)
  Definition c_0 : re := Cls 281474976710656.                            (* 0 *)
  Definition c_hex : re := Cls 9982748479121884238975116247040.          (* 0-9 a-f A-F *)
  Definition c_dig : re := Cls 287948901175001088.                       (* 0-9 *)
  Definition c_comma : re := Cls 17592186044416.
  Definition c_sp : re := Cls 4294983168.                                (* space \t \n \v \f \r *)
  Definition c_dot : re := Cls 70368744177664.
  Definition c_ldh : re := Cls 10633823810298881996667037783081091072.   (* a-z A-Z 0-9 - *)
  Definition c_az : re := Cls 10633823810298881996379053697534001152.    (* a-z A-Z *)
  (* 0-9 a-f A-F x X comma and the six white-space bytes *)
  Definition psb_alphabet : N := 1329237978842880004609408700602400256.
  Definition dom_alphabet : N := 10633823810298881996667108151825268736. (* a-z A-Z 0-9 - . *)

  (* POWERSHELL_BYTES_RE with minimum count n: an item is 0x and two hex digits, or 1-3 digits;
     items are separated by a comma and optional white space *)
  Definition psb_item : re :=
    Alt (Seq c_0 (Seq c_x (Rep 2 (Some 2) c_hex))) (Rep 1 (Some 3) c_dig).
  Definition psb (n : nat) : re :=
    Seq (Rep n None (Seq psb_item (Seq c_comma (Rep 0 None c_sp)))) psb_item.

  Definition big_fuel : nat := N.to_nat 1000000.

  Example psb_wf : wf (psb 500) = true.
  Proof. vm_compute. reflexivity. Qed.

  (* PERFORMANCE TARGET: the unrelaxed repeat-500 regex, 3507 product states.
     vm_compute takes about 3 s on the build machine (relaxed version below: under 0.1 s). *)
  Example psb500_explore : explore (alphabet_monitor psb_alphabet) big_fuel (psb 500) true = true.
  Proof. vm_compute. reflexivity. Qed.

  Example psb500_alphabet w :
    Lang (psb 500) w -> Forall (fun c => N.testbit psb_alphabet c = true) w.
  Proof. apply (alphabet_sound psb_alphabet big_fuel); [exact psb_wf | exact psb500_explore]. Qed.

  Example psb500_explore_relaxed :
    explore (alphabet_monitor psb_alphabet) 1000 (relax 1 (psb 500)) true = true.
  Proof. vm_compute. reflexivity. Qed.

  Example psb500_alphabet_via_relax w :
    Lang (psb 500) w -> Forall (fun c => N.testbit psb_alphabet c = true) w.
  Proof. apply (alphabet_relax_sound psb_alphabet 1 1000). exact psb500_explore_relaxed. Qed.

  Example psb500_minlen w : Lang (psb 500) w -> 1001 <= List.length w.
  Proof. intros H. apply minlen_correct in H. exact H. Qed.

  (* a too small alphabet (white space removed) is refuted, with a witness *)
  Example psb_bad_alphabet :
    explore (alphabet_monitor (psb_alphabet - 4294983168)) 3000 (psb 2) true = false.
  Proof. vm_compute. reflexivity. Qed.

  Example psb_bad_alphabet_cex :
    explore_cex (alphabet_monitor (psb_alphabet - 4294983168)) 3000 (psb 2) true
    = CexWord [49; 49; 49; 44; 49; 49; 49; 44; 9; 49]%N.
  Proof. vm_compute. reflexivity. Qed.

  (* the derivative matcher agrees with regex.fullmatch / re.fullmatch (minimum count 2) *)
  Example psb_py1 : matchb (psb 2) [49; 44; 50; 44; 51]%N = true.
  Proof. vm_compute. reflexivity. Qed.
  Example psb_py2 : matchb (psb 2) [48; 120; 49; 70; 44; 32; 48; 88; 97; 66; 44; 9; 55]%N = true.
  Proof. vm_compute. reflexivity. Qed.
  Example psb_py3 : matchb (psb 2) [49; 44; 50]%N = false.
  Proof. vm_compute. reflexivity. Qed.
  Example psb_py4 : matchb (psb 2) [49; 44; 50; 44]%N = false.
  Proof. vm_compute. reflexivity. Qed.
  Example psb_py5 : matchb (psb 2) [49; 50; 51; 52; 44; 50; 44; 51]%N = false.
  Proof. vm_compute. reflexivity. Qed.
  Example psb_py6 : matchb (psb 2) [48; 120; 49; 44; 50; 44; 51]%N = false.
  Proof. vm_compute. reflexivity. Qed.
  Example psb_py7 : matchb (psb 2) [49; 50; 44; 10; 10; 32; 48; 120; 102; 102; 44; 50; 53; 53]%N = true.
  Proof. vm_compute. reflexivity. Qed.
  Example psb_py8 : matchb (psb 2) [] = false.
  Proof. vm_compute. reflexivity. Qed.
  Example psb_py9 : matchb (psb 2) [49; 44; 44; 50; 44; 51]%N = false.
  Proof. vm_compute. reflexivity. Qed.
  Example psb_py10 : matchb (psb 2) [48; 120; 49; 103; 44; 50; 44; 51]%N = false.
  Proof. vm_compute. reflexivity. Qed.
  Example psb_py11 : matchb (psb 2) [48; 48; 49; 44; 48; 120; 48; 48; 44; 57; 44; 57; 44; 57]%N = true.
  Proof. vm_compute. reflexivity. Qed.

  (* even length: one or more pairs of hex digits *)
  Definition hexpairs : re := Rep 1 None (Rep 2 (Some 2) c_hex).

  Example hexpairs_even_explore : explore even_monitor 1000 hexpairs true = true.
  Proof. vm_compute. reflexivity. Qed.

  Example hexpairs_even w : Lang hexpairs w -> Nat.even (List.length w) = true.
  Proof. apply (even_sound_nowf 1000). exact hexpairs_even_explore. Qed.

  Example hexrun_not_even : explore even_monitor 1000 (Rep 1 None c_hex) true = false.
  Proof. vm_compute. reflexivity. Qed.

  Example hexrun_not_even_cex : explore_cex even_monitor 1000 (Rep 1 None c_hex) true = CexWord [48%N].
  Proof. vm_compute. reflexivity. Qed.

  (* domain-like regex: one or more labels each followed by a dot, then 2-12 letters *)
  Definition dom : re := Seq (Rep 1 None (Seq (Rep 1 None c_ldh) c_dot)) (Rep 2 (Some 12) c_az).

  Example dom_alphabet_explore : explore (alphabet_monitor dom_alphabet) 3000 dom true = true.
  Proof. vm_compute. reflexivity. Qed.

  Example dom_has_dot_explore : explore (contains_monitor 70368744177664) 3000 dom false = true.
  Proof. vm_compute. reflexivity. Qed.

  Example dom_has_dot w : Lang dom w -> Exists (fun c => N.testbit 70368744177664 c = true) w.
  Proof. apply (contains_sound _ 3000). exact dom_has_dot_explore. Qed.

  (* fuel exhaustion and out-of-range masks answer false *)
  Example fuel_exhausted : explore even_monitor 3 hexpairs true = false.
  Proof. vm_compute. reflexivity. Qed.

  Example bad_mask : explore even_monitor 100 (Cls (2 ^ 256)) false = false.
  Proof. vm_compute. reflexivity. Qed.
End Examples.

Print Assumptions explore_sound.
Print Assumptions explore_sound_nowf.
Print Assumptions explore_relax_sound.
Print Assumptions alphabet_sound.
Print Assumptions alphabet_relax_sound.
Print Assumptions even_sound.
Print Assumptions contains_sound.
Print Assumptions Examples.psb500_alphabet.
Print Assumptions Examples.hexpairs_even.
Print Assumptions Examples.dom_has_dot.
