From Coq Require Extraction.
From Coq Require ExtrOcamlBasic.
From MD Require Import Extract.Probes.
Extraction Language OCaml.
Extraction "model.ml" probe.
