(* Dispatcher used by the correspondence runner: probe name + generic argument -> generic result.
   All glue between the text protocol and the model lives here, in Gallina. *)
From MD Require Import Lib.Base Lib.Latin1 Model.Node Model.Keyword Model.Engine Model.Reference.
From MD Require Import Model.Flatten Model.Json Model.Query Model.Dec.Carets.
From MD Require Import Regex.Syntax Regex.Backtrack Generated.Regexes.
From MD Require Import Model.Registry Generated.RegistryTable Generated.Keywords Model.EngineR Model.Default.

Definition bad_args : pval := VErr (L"bad-args").

Definition bytes_list (l : list pval) : list bytes :=
  map (fun v => match v with VBytes b => b | _ => [] end) l.

Definition vnodes (l : list node) : pval := VList (map val_of_node l).
Definition vints (l : list Z) : pval := VList (map VInt l).

(* synthetic registry: value -> hits it reports (in registry order) *)
Fixpoint table_search (tbl : list (bytes * list node)) (v : bytes) : list node :=
  match tbl with
  | [] => []
  | (k, hs) :: rest => if beqb k v then hs else table_search rest v
  end.

Definition table_of_val (v : pval) : list (bytes * list node) :=
  match v with
  | VList entries =>
      map (fun e => match e with
                    | VList [VBytes k; VList hs] => (k, map node_of_val hs)
                    | _ => ([], []) end) entries
  | _ => []
  end.

Definition scan_node_z (search : bytes -> list node) (depth : Z) (n : node) : res node :=
  if depth <=? 0 then Ok n else scan_node search (Z.to_nat depth) n.

Fixpoint val_of_jv (j : jv) : pval :=
  match j with
  | JStr s => VStr s
  | JInt z => VInt z
  | JArr l => VList [VStr (L"arr"); VList (map val_of_jv l)]
  | JObj fs => VList [VStr (L"obj"); VList (map (fun kv => VList [VStr (fst kv); val_of_jv (snd kv)]) fs)]
  end.

Fixpoint jv_of_val (v : pval) : jv :=
  match v with
  | VStr s => JStr s
  | VInt z => JInt z
  | VList [VStr tag; VList items] =>
      if beqb tag (L"arr") then JArr (map jv_of_val items)
      else JObj (map (fun kv => match kv with
                                | VList [VStr k; x] => (k, jv_of_val x)
                                | _ => ([], JInt 0) end) items)
  | _ => JInt 0
  end.

(* list(node): depth-first pre-order, root excluded *)
Fixpoint preorder_nodes (n : node) : list node :=
  match n with Node _ _ _ _ _ ks => flat_map (fun c => c :: preorder_nodes c) ks end.

Definition header_val (n : node) : pval :=
  VList [VStr (n_ty n); VBytes (n_val n); VStr (n_obf n); VInt (n_st n); VInt (n_en n)].

Fixpoint lookup_re (name : list N) (tbl : list (string * (re * nat))) : option (re * nat) :=
  match tbl with
  | [] => None
  | (k, v) :: rest => if beqb (s2b k) name then Some v else lookup_re name rest
  end.

Definition val_of_mtch (m : mtch) : pval :=
  VList (map (fun sp => match sp with Some (s, e) => VList [VInt s; VInt e] | None => VList [] end) m).
Definition no_fuel : pval := VErr (L"regex-fuel").

Definition labels_of (v : pval) : list label :=
  match v with VList l => map (fun x => match x with VStr s => s | _ => [] end) l | _ => [] end.

Fixpoint dtree_of_val (v : pval) : dtree :=
  match v with
  | VList [VList files; VList subs] =>
      Dir (map (fun f => match f with VList [VStr n; VBytes c] => (n, c) | _ => ([], []) end) files)
          (map (fun d => match d with VList [VStr n; t] => (n, dtree_of_val t) | _ => ([], Dir [] []) end) subs)
  | _ => Dir [] []
  end.

Definition val_of_searchers (l : list (label * list bytes)) : pval :=
  VList (map (fun kw => VList [VStr (fst kw); VList (map VBytes (snd kw))]) l).

Fixpoint tbl_z (tbl : list pval) (k : bytes) : Z :=
  match tbl with
  | VList [VBytes k'; VInt z] :: rest => if beqb k k' then z else tbl_z rest k
  | _ :: rest => tbl_z rest k
  | [] => 0
  end.
Fixpoint tbl_l (tbl : list pval) (k : bytes) : list bytes :=
  match tbl with
  | VList [VBytes k'; VList l] :: rest => if beqb k k' then bytes_list l else tbl_l rest k
  | _ :: rest => tbl_l rest k
  | [] => []
  end.
Definition plist (v : pval) : list pval := match v with VList l => l | _ => [] end.

(* decoders modelled in files that are added to the dispatcher here rather than in Model/Default.v *)
Definition extra_decoders (pe xor : pval) (name : label) : option (bytes -> res (list node)) := None.

Definition probe (name : list N) (arg : pval) : pval :=
  if beqb name (L"find_keywords") then
    match arg with
    | VList [VStr lbl; VList kws; VBytes data] => val_of_res vnodes (find_keywords lbl (bytes_list kws) data)
    | _ => bad_args end
  else if beqb name (L"find_all") then
    match arg with
    | VList [VBytes kw; VBytes data] => val_of_res vints (find_all kw data)
    | _ => bad_args end
  else if beqb name (L"is_mixed_case") then
    match arg with
    | VList [VBytes value; VBytes raw] => VBool (is_mixed_case value raw)
    | _ => bad_args end
  else if beqb name (L"latin1") then
    match arg with
    | VInt c => VList [VBool (uni_isupper (Z.to_N c)); VBool (uni_islower (Z.to_N c)); VBool (uni_isprintable (Z.to_N c))]
    | _ => bad_args end
  else if beqb name (L"scan_node") then
    match arg with
    | VList [tbl; VInt depth; n] =>
        val_of_res val_of_node (scan_node_z (table_search (table_of_val tbl)) depth (node_of_val n))
    | _ => bad_args end
  else if beqb name (L"scan") then
    match arg with
    | VList [tbl; VInt depth; VBytes data] =>
        val_of_res val_of_node (scan (table_search (table_of_val tbl)) depth data)
    | _ => bad_args end
  else if beqb name (L"sort_hits") then
    match arg with
    | VList hs => vnodes (sort_hits (map node_of_val hs))
    | _ => bad_args end
  else if beqb name (L"ref_scan_node") then
    match arg with
    | VList [tbl; VInt depth; n] =>
        if depth <=? 0 then VList [VStr (L"ok"); val_of_node (node_of_val n)] else
        val_of_res (fun t => val_of_node (erase t))
                   (ref_scan_node (table_search (table_of_val tbl)) (Z.to_nat depth) KRoot 0 0 (node_of_val n))
    | _ => bad_args end
  else if beqb name (L"flatten") then VBytes (flatten (node_of_val arg))
  else if beqb name (L"squash_replace") then
    match arg with
    | VList [VBytes data; VList tree] => VBytes (squash_replace data (map node_of_val tree))
    | _ => bad_args end
  else if beqb name (L"node_to_dict") then val_of_jv (node_to_dict (node_of_val arg))
  else if beqb name (L"as_node") then val_of_res val_of_node (as_node (jv_of_val arg))
  else if beqb name (L"json_roundtrip") then val_of_res val_of_node (as_node (node_to_dict (node_of_val arg)))
  else if beqb name (L"node_eqb") then
    match arg with
    | VList [a; b] => VBool (node_eqb (node_of_val a) (node_of_val b))
    | _ => bad_args end
  else if beqb name (L"string_summary") then VList (map VStr (string_summary (node_of_val arg)))
  else if beqb name (L"py_repr") then
    match arg with VBytes b => VStr (py_repr b) | _ => bad_args end
  else if beqb name (L"preorder") then VList (map header_val (preorder_nodes (node_of_val arg)))
  else if beqb name (L"strip_carets") then
    match arg with VBytes b => val_of_res VBytes (strip_carets_impl b) | _ => bad_args end
  else if beqb name (L"cmd_unescape") then
    match arg with VBytes b => VBytes (cmd_unescape b) | _ => bad_args end
  else if beqb name (L"deobfuscate_cmd") then
    match arg with VBytes b => val_of_res (fun p => VList [VBytes (fst p); VStr (snd p)]) (deobfuscate_cmd b) | _ => bad_args end
  else if beqb name (L"paren_cut") then
    match arg with VBytes b => VInt (paren_cut b) | _ => bad_args end
  else if beqb name (L"finditer") then
    match arg with
    | VList [VStr rn; VBytes data] =>
        match lookup_re rn all_regexes with
        | Some (r, ng) => match finditer r ng data with Some ms => VList (map val_of_mtch ms) | None => no_fuel end
        | None => VErr (L"unknown-regex") end
    | _ => bad_args end
  else if beqb name (L"re_match_at") then
    match arg with
    | VList [VStr rn; VBytes data; VInt k] =>
        match lookup_re rn all_regexes with
        | Some (r, ng) => match match_at r ng data k with
                          | Some (Some m) => VList [val_of_mtch m] | Some None => VList [] | None => no_fuel end
        | None => VErr (L"unknown-regex") end
    | _ => bad_args end
  else if beqb name (L"re_fullmatch") then
    match arg with
    | VList [VStr rn; VBytes data] =>
        match lookup_re rn all_regexes with
        | Some (r, _) => match fullmatch r data with Some b => VBool b | None => no_fuel end
        | None => VErr (L"unknown-regex") end
    | _ => bad_args end
  else if beqb name (L"get_analyzers") then
    match arg with
    | VList [inc; exc] =>
        VList (map VStr (get_analyzers decoder_modules (labels_of inc) (labels_of exc)))
    | _ => bad_args end
  else if beqb name (L"get_keywords") then val_of_searchers (get_keywords (dtree_of_val arg))
  else if beqb name (L"splitlines") then
    match arg with VBytes b => VList (map VBytes (splitlines b)) | _ => bad_args end
  else if beqb name (L"decoder") then
    match arg with
    | VList [VStr dn; VBytes data; pe; xor] =>
        val_of_res vnodes (decoder_by_name (tbl_z (plist pe)) (tbl_l (plist xor)) (extra_decoders pe xor) dn data)
    | _ => bad_args end
  else if beqb name (L"scan_default") then
    match arg with
    | VList [VInt depth; VBytes data; pe; xor] =>
        val_of_res val_of_node (scan_default (tbl_z (plist pe)) (tbl_l (plist xor)) (extra_decoders pe xor) decoder_modules shipped_keywords depth data)
    | _ => bad_args end
  else VErr (L"unknown-probe").
