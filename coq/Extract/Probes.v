(* Dispatcher used by the correspondence runner: probe name + generic argument -> generic result.
   All glue between the text protocol and the model lives here, in Gallina. *)
From MD Require Import Lib.Base Lib.Latin1 Model.Node Model.Keyword Model.Engine.

Definition bad_args : pval := VErr (L"bad-args").

Definition bytes_list (l : list pval) : list bytes :=
  map (fun v => match v with VBytes b => b | _ => [] end) l.

Definition vnodes (l : list node) : pval := VList (map val_of_node l).
Definition vints (l : list Z) : pval := VList (map VInt l).

(* synthetic registry: value -> hits it reports (in registry order) *)
Fixpoint table_search (tbl : list (bytes * list node)) (v : bytes) : list node :=
  match tbl with
  | [] => []
  | (k, hs) :: rest => if beqb k v then hs else table_search rest v
  end.

Definition table_of_val (v : pval) : list (bytes * list node) :=
  match v with
  | VList entries =>
      map (fun e => match e with
                    | VList [VBytes k; VList hs] => (k, map node_of_val hs)
                    | _ => ([], []) end) entries
  | _ => []
  end.

Definition scan_node_z (search : bytes -> list node) (depth : Z) (n : node) : res node :=
  if depth <=? 0 then Ok n else scan_node search (Z.to_nat depth) n.

Definition probe (name : list N) (arg : pval) : pval :=
  if beqb name (L"find_keywords") then
    match arg with
    | VList [VStr lbl; VList kws; VBytes data] => val_of_res vnodes (find_keywords lbl (bytes_list kws) data)
    | _ => bad_args end
  else if beqb name (L"find_all") then
    match arg with
    | VList [VBytes kw; VBytes data] => val_of_res vints (find_all kw data)
    | _ => bad_args end
  else if beqb name (L"is_mixed_case") then
    match arg with
    | VList [VBytes value; VBytes raw] => VBool (is_mixed_case value raw)
    | _ => bad_args end
  else if beqb name (L"latin1") then
    match arg with
    | VInt c => VList [VBool (uni_isupper (Z.to_N c)); VBool (uni_islower (Z.to_N c)); VBool (uni_isprintable (Z.to_N c))]
    | _ => bad_args end
  else if beqb name (L"scan_node") then
    match arg with
    | VList [tbl; VInt depth; n] =>
        val_of_res val_of_node (scan_node_z (table_search (table_of_val tbl)) depth (node_of_val n))
    | _ => bad_args end
  else if beqb name (L"scan") then
    match arg with
    | VList [tbl; VInt depth; VBytes data] =>
        val_of_res val_of_node (scan (table_search (table_of_val tbl)) depth data)
    | _ => bad_args end
  else if beqb name (L"sort_hits") then
    match arg with
    | VList hs => vnodes (sort_hits (map node_of_val hs))
    | _ => bad_args end
  else VErr (L"unknown-probe").
