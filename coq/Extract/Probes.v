(* Dispatcher used by the correspondence runner: probe name + generic argument -> generic result.
   All glue between the text protocol and the model lives here, in Gallina. *)
From MD Require Import Lib.Base Lib.Latin1 Model.Node Model.Keyword.

Definition bad_args : pval := VErr (L"bad-args").

Definition bytes_list (l : list pval) : list bytes :=
  map (fun v => match v with VBytes b => b | _ => [] end) l.

Definition vnodes (l : list node) : pval := VList (map val_of_node l).
Definition vints (l : list Z) : pval := VList (map VInt l).

Definition probe (name : list N) (arg : pval) : pval :=
  if beqb name (L"find_keywords") then
    match arg with
    | VList [VStr lbl; VList kws; VBytes data] => val_of_res vnodes (find_keywords lbl (bytes_list kws) data)
    | _ => bad_args end
  else if beqb name (L"find_all") then
    match arg with
    | VList [VBytes kw; VBytes data] => val_of_res vints (find_all kw data)
    | _ => bad_args end
  else if beqb name (L"is_mixed_case") then
    match arg with
    | VList [VBytes value; VBytes raw] => VBool (is_mixed_case value raw)
    | _ => bad_args end
  else if beqb name (L"latin1") then
    match arg with
    | VInt c => VList [VBool (uni_isupper (Z.to_N c)); VBool (uni_islower (Z.to_N c)); VBool (uni_isprintable (Z.to_N c))]
    | _ => bad_args end
  else VErr (L"unknown-probe").
