(* keyword.py : is_mixed_case, find_all, find_keywords *)
From MD Require Import Lib.Base Lib.Latin1 Model.Node.

Definition MIXED_CASE_OBF : label := L"MixedCase".

(* zip(raw, value) loop *)
Fixpoint case_discrepancy (raw value : bytes) : bool :=
  match raw, value with
  | v :: raw', d :: value' =>
      if (uni_isupper v && negb (uni_isupper d)) || (uni_islower v && negb (uni_islower d))
      then true else case_discrepancy raw' value'
  | _, _ => false
  end.

Definition is_mixed_case (value raw : bytes) : bool :=
  if isupper raw || islower raw then false else case_discrepancy raw value.

(* the neighbour test of find_all *)
Definition delimited (kw data : bytes) (start : Z) : bool :=
  let en := start + blen kw in
  ((start =? 0) || negb (isalnum (slice data (start - 1) start))) &&
  ((en =? blen data) || negb (isalnum (slice data en (en + 1)))).

(* the `while start >= 0` loop, as written; Hang = fuel exhausted (proved unreachable) *)
Fixpoint find_all_loop (fuel : nat) (kw data : bytes) (start : Z) (acc : list Z) : res (list Z) :=
  match fuel with
  | O => Hang
  | S f =>
      if start <? 0 then Ok (rev acc)
      else find_all_loop f kw data (find_from data kw (start + blen kw))
                         (if delimited kw data start then start :: acc else acc)
  end.

Definition find_all (kw data : bytes) : res (list Z) :=
  match kw with
  | [] => Ok []
  | _ => find_all_loop (S (List.length data)) kw data (find data kw) []
  end.

Definition keyword_hit (lbl : label) (data kw : bytes) (start : Z) : node :=
  Node lbl kw
       (if is_mixed_case kw (slice data start (start + blen kw)) then MIXED_CASE_OBF else [])
       start (start + blen kw) [].

Fixpoint find_keywords (lbl : label) (kws : list bytes) (data : bytes) : res (list node) :=
  match kws with
  | [] => Ok []
  | kw :: rest =>
      do starts <- find_all (lower kw) (lower data);
      do more <- find_keywords lbl rest data;
      Ok (map (keyword_hit lbl data kw) starts ++ more)
  end.
