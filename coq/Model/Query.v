(* query.py : make_label / string_summary, with CPython's bytes.__repr__.  Definitions only.
   Parent pointers are implicit in the rose tree: `node.parent` chains are modelled by the list of
   ancestors, innermost first (the node itself at the head, the root last).  This assumes what
   Node.__init__ / as_node / Multidecoder.scan establish: child.parent is the node whose `children`
   list contains it. *)
From MD Require Import Lib.Base Model.Node.

(* ---------- repr(b) for bytes ---------- *)
Definition squote : N := 39%N.
Definition dquote : N := 34%N.
Definition backslash : N := 92%N.

Definition memN (c : N) (b : list N) : bool := existsb (N.eqb c) b.

(* CPython: single quotes, unless the value contains a single quote and no double quote *)
Definition repr_quote (b : bytes) : N :=
  if memN squote b && negb (memN dquote b) then dquote else squote.

Definition hexdigit (d : N) : N := (if d <? 10 then 48 + d else 87 + d)%N.

Definition repr_byte (q c : N) : list N :=
  if (c =? q)%N || (c =? backslash)%N then [backslash; c]
  else if (c =? 9)%N then [backslash; 116%N]                 (* \t *)
  else if (c =? 10)%N then [backslash; 110%N]                (* \n *)
  else if (c =? 13)%N then [backslash; 114%N]                (* \r *)
  else if (c <? 32)%N || (127 <=? c)%N then [backslash; 120%N; hexdigit (c / 16); hexdigit (c mod 16)]
  else [c].

(* the whole of repr(b): letter b, quote, escaped body, quote *)
Definition py_repr (b : bytes) : list N :=
  let q := repr_quote b in
  [98%N; q] ++ flat_map (repr_byte q) b ++ [q].

(* repr(b)[2:-1] *)
Definition py_repr_bytes (b : bytes) : list N := slice (py_repr b) 2 (-1).

(* ---------- str.join ---------- *)
Fixpoint join (sep : list N) (parts : list (list N)) : list N :=
  match parts with
  | [] => []
  | [p] => p
  | p :: ps => p ++ sep ++ join sep ps
  end.

(* ---------- make_label ---------- *)
Definition nonempty (s : list N) : bool := match s with [] => false | _ => true end.

(* what one iteration of `while node:` appends to label_list (a Node is always truthy: it defines
   __iter__ but neither __bool__ nor __len__) *)
Definition label_parts (n : node) : list (list N) :=
  (if nonempty (n_ty n) then [n_ty n] else []) ++
  (if nonempty (n_obf n) then [62%N :: n_obf n] else []).

(* [chain] = node :: parent :: ... :: root *)
Definition make_label (chain : list node) : list N :=
  join [47%N] (rev (flat_map label_parts chain)).

(* one element of the list comprehension in string_summary *)
Definition summary_line (chain : list node) (c : node) : list N :=
  make_label chain ++ [32%N] ++ py_repr_bytes (n_val c).

(* lines for the nodes strictly below [n] in depth-first pre-order (Node.__iter__);
   [anc] = proper ancestors of [n], innermost first *)
Fixpoint summary_below (anc : list node) (n : node) {struct n} : list (list N) :=
  match n with
  | Node _ _ _ _ _ ks =>
      (fix go (l : list node) : list (list N) :=
         match l with
         | [] => []
         | c :: l' => summary_line (c :: n :: anc) c :: summary_below (n :: anc) c ++ go l'
         end) ks
  end.

Definition string_summary (t : node) : list (list N) := summary_below [] t.
