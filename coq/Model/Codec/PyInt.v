(* Python 3.12 int(b, base) for a bytes argument (base 10 or 16), str(n).encode(), bytes(iterable of ints).
   Definitions only; proofs are in Proofs/PyIntProofs.v. *)
From MD Require Import Lib.Base.

Definition value_error : label := L"ValueError".

(* _PyLong_DigitValue: 0-9, a-z, A-Z -> 0..35 *)
Definition digit_value (c : N) : option Z :=
  if is_digit_ascii c then Some (Z.of_N c - 48)
  else if is_lower_ascii c then Some (Z.of_N c - 87)
  else if is_upper_ascii c then Some (Z.of_N c - 55)
  else None.

(* Py_ISSPACE is exactly is_space_ascii (9..13 and 32) for bytes input *)
Fixpoint lstrip_space (b : bytes) : bytes :=
  match b with
  | [] => []
  | c :: r => if is_space_ascii c then lstrip_space r else b
  end.

Fixpoint rstrip_space (b : bytes) : bytes :=
  match b with
  | [] => []
  | c :: r =>
      match rstrip_space r with
      | [] => if is_space_ascii c then [] else [c]
      | r' => c :: r'
      end
  end.

(* The digit loop of PyLong_FromString.  prev_us = "the previous character was an underscore, or we
   are at the very start": an underscore is then illegal, and so is the end of the text.
   Result: (value, number of digit characters, underscores not counted). *)
Fixpoint parse_digits (base : Z) (prev_us : bool) (acc cnt : Z) (s : bytes) : option (Z * Z) :=
  match s with
  | [] => if prev_us then None else Some (acc, cnt)
  | c :: s' =>
      if (c =? 95)%N then (if prev_us then None else parse_digits base true acc cnt s')
      else match digit_value c with
           | Some d => if d <? base then parse_digits base false (acc * base + d) (cnt + 1) s' else None
           | None => None
           end
  end.

Definition strip_sign (b : bytes) : bool * bytes :=
  match b with
  | c :: r => if (c =? 45)%N then (true, r) else if (c =? 43)%N then (false, r) else (false, b)
  | [] => (false, [])
  end.

(* base 16 only: "0x" / "0X", then ONE optional underscore *)
Definition strip_prefix16 (base : Z) (b : bytes) : bytes :=
  if base =? 16 then
    match b with
    | z :: x :: r =>
        if (z =? 48)%N && ((x =? 120)%N || (x =? 88)%N)
        then match r with
             | u :: r' => if (u =? 95)%N then r' else r
             | [] => r
             end
        else b
    | _ => b
    end
  else b.

(* None = "invalid literal".  Some (v, cnt): value and number of digit characters. *)
Definition int_parse (base : Z) (b : bytes) : option (Z * Z) :=
  let s := rstrip_space (lstrip_space b) in
  let (neg, s1) := strip_sign s in
  match parse_digits base true 0 0 (strip_prefix16 base s1) with
  | Some (v, cnt) => Some (if neg then - v else v, cnt)
  | None => None
  end.

(* sys.get_int_max_str_digits() default; applies to bases that are not powers of two *)
Definition MAX_STR_DIGITS : Z := 4300.

Definition int_of_bytes (base : Z) (b : bytes) : res Z :=
  match int_parse base b with
  | None => Raise value_error
  | Some (v, cnt) =>
      if (base =? 10) && (MAX_STR_DIGITS <? cnt) then Raise value_error else Ok v
  end.

(* str(n).encode().  (Python itself raises ValueError when abs n >= 10^4300.) *)
Fixpoint dec_digits_fuel (fuel : nat) (n : Z) (acc : bytes) : bytes :=
  match fuel with
  | O => acc
  | S f =>
      let acc' := Z.to_N (48 + n mod 10) :: acc in
      if n <? 10 then acc' else dec_digits_fuel f (n / 10) acc'
  end.

Definition dec_digits (n : Z) : bytes := dec_digits_fuel (S (Z.to_nat (Z.log2 n))) n [].

Definition str_of_Z (n : Z) : bytes :=
  if n <? 0 then 45%N :: dec_digits (- n) else dec_digits n.

(* specification helpers: strings of ASCII decimal digits and their numeric value *)
Definition all_digits (d : bytes) : Prop := Forall (fun c => is_digit_ascii c = true) d.
Definition dec_value (d : bytes) : Z := fold_left (fun a c => a * 10 + (Z.of_N c - 48)) d 0.

(* bytes(iterable_of_ints) *)
Definition byte_of_int (z : Z) : res N :=
  if (z <? 0) || (255 <? z) then Raise value_error else Ok (Z.to_N z).

Definition bytes_of_ints (l : list Z) : res bytes := mapM byte_of_int l.
