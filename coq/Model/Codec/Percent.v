(* urllib.parse.unquote_to_bytes (bytes argument) and network.py normalize_percent_encoding.
   Definitions only; proofs are in Proofs/PercentProofs.v. *)
From MD Require Import Lib.Base.

Definition PCT : N := 37%N.

Definition is_hex_ascii (c : N) : bool :=
  is_digit_ascii c || ((97 <=? c)%N && (c <=? 102)%N) || ((65 <=? c)%N && (c <=? 70)%N).

Definition hex_val (c : N) : N :=
  if is_digit_ascii c then (c - 48)%N
  else if (97 <=? c)%N then (c - 87)%N
  else (c - 55)%N.

Definition hex_byte (h1 h2 : N) : N := (hex_val h1 * 16 + hex_val h2)%N.

(* unquote_to_bytes, as one left-to-right scan.  Python splits on "%" and looks up the first two
   bytes of every later chunk in the table of the 22*22 hex pairs; a chunk contains no "%", so this
   is the same as testing the two bytes that follow the "%" (PercentProofs.unquote_to_bytes_split). *)
Fixpoint unquote_to_bytes (b : bytes) : bytes :=
  match b with
  | [] => []
  | c :: r =>
      if (c =? PCT)%N then
        match r with
        | h1 :: h2 :: r' =>
            if is_hex_ascii h1 && is_hex_ascii h2
            then hex_byte h1 h2 :: unquote_to_bytes r'
            else c :: unquote_to_bytes r
        | _ => c :: unquote_to_bytes r
        end
      else c :: unquote_to_bytes r
  end.

Definition hex_digit_upper (v : N) : N := if (v <? 10)%N then (48 + v)%N else (55 + v)%N.

Definition quote_byte (c : N) : bytes := [PCT; hex_digit_upper (c / 16); hex_digit_upper (c mod 16)].

(* every byte as %XX, upper case *)
Definition quote_all (b : bytes) : bytes := flat_map quote_byte b.

(* RFC 3986 unreserved: ALPHA DIGIT - . _ ~ *)
Definition is_unreserved (c : N) : bool :=
  is_alnum_ascii c || (c =? 45)%N || (c =? 46)%N || (c =? 95)%N || (c =? 126)%N.

(* re.sub of the pattern  percent, hex, hex  (case-insensitive), left to right, non overlapping *)
Fixpoint normalize_percent (b : bytes) : bytes :=
  match b with
  | [] => []
  | c :: r =>
      if (c =? PCT)%N then
        match r with
        | h1 :: h2 :: r' =>
            if is_hex_ascii h1 && is_hex_ascii h2
            then (if is_unreserved (hex_byte h1 h2)
                  then hex_byte h1 h2 :: normalize_percent r'
                  else c :: upper1 h1 :: upper1 h2 :: normalize_percent r')
            else c :: normalize_percent r
        | _ => c :: normalize_percent r
        end
      else c :: normalize_percent r
  end.

Definition PERCENT_OBF : label := L"escape.percent".

Definition normalize_percent_encoding (uri : bytes) : bytes * label :=
  let normalized := normalize_percent uri in
  (normalized, if blen normalized <? blen uri then PERCENT_OBF else []).

(* every "%" of b starts a well-formed escape *)
Fixpoint percent_wfb (b : bytes) : bool :=
  match b with
  | [] => true
  | c :: r =>
      if (c =? PCT)%N then
        match r with
        | h1 :: h2 :: r' => is_hex_ascii h1 && is_hex_ascii h2 && percent_wfb r'
        | _ => false
        end
      else percent_wfb r
  end.
