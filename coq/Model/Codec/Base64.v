(* Base64 codecs: RFC 4648 encoder / strict decoder (specification) and a faithful model of
   CPython 3.12.1 binascii.a2b_base64 (default non-strict mode), plus pad_base64 from
   multidecoder/decoders/base64.py.  Definitions only; proofs are in Proofs/Base64Proofs.v. *)
From MD Require Import Lib.Base.

Definition b64_pad : N := 61.  (* '=' *)

(* value of an alphabet character: A-Z -> 0..25, a-z -> 26..51, 0-9 -> 52..61, + -> 62, / -> 63 *)
Definition b64_alphabet_index (c : N) : option N :=
  if is_upper_ascii c then Some (c - 65)%N
  else if is_lower_ascii c then Some (c - 71)%N
  else if is_digit_ascii c then Some (c + 4)%N
  else if (c =? 43)%N then Some 62%N
  else if (c =? 47)%N then Some 63%N
  else None.

Definition is_b64_char (c : N) : bool :=
  match b64_alphabet_index c with Some _ => true | None => false end.

(* the characters a decoder looks at: alphabet or '='; everything else is junk for a2b_base64 *)
Definition b64_significant (c : N) : bool := is_b64_char c || (c =? b64_pad)%N.

(* character of a sextet; total: the argument is reduced modulo 64 *)
Definition b64_char (n : N) : N :=
  let v := (n mod 64)%N in
  if (v <? 26)%N then (v + 65)%N
  else if (v <? 52)%N then (v + 71)%N
  else if (v <? 62)%N then (v - 4)%N
  else if (v =? 62)%N then 43%N
  else 47%N.

(* base64.b64encode / binascii.b2a_base64(newline=False): standard alphabet, '=' padding *)
Fixpoint b64_encode (p : bytes) : bytes :=
  match p with
  | [] => []
  | [x] => [b64_char (x / 4); b64_char ((x mod 4) * 16); b64_pad; b64_pad]%N
  | [x; y] => [b64_char (x / 4); b64_char ((x mod 4) * 16 + y / 16);
               b64_char ((y mod 16) * 4); b64_pad]%N
  | x :: y :: z :: rest =>
      (b64_char (x / 4) :: b64_char ((x mod 4) * 16 + y / 16)
       :: b64_char ((y mod 16) * 4 + z / 64) :: b64_char (z mod 64) :: b64_encode rest)%N
  end.

(* ---------- RFC 4648 decoding specification ---------- *)
(* The three byte values carried by sextets a b c d (each < 64).  In C these are
   (a << 2) | (b >> 4), ((b & 15) << 4) | (c >> 2), ((c & 3) << 6) | d ; the or-ed bit
   fields are disjoint so + is the same operation. *)
Definition b64_byte1 (a b : N) : N := (a * 4 + b / 16)%N.
Definition b64_byte2 (b c : N) : N := ((b mod 16) * 16 + c / 4)%N.
Definition b64_byte3 (c d : N) : N := ((c mod 4) * 64 + d)%N.

(* a complete group of 4 alphabet characters -> 3 bytes *)
Definition b64_dec_quad (a b c d : N) : option bytes :=
  match b64_alphabet_index a, b64_alphabet_index b, b64_alphabet_index c, b64_alphabet_index d with
  | Some ia, Some ib, Some ic, Some id => Some [b64_byte1 ia ib; b64_byte2 ib ic; b64_byte3 ic id]
  | _, _, _, _ => None
  end.

(* the final group: xxxx, xxx= or xx== .
   CHOICE for non-canonical trailing bits: the unused low bits of the last sextet (4 bits for
   xx==, 2 bits for xxx=) are IGNORED, not required to be zero (RFC 4648 section 3.5 lets a
   decoder do either).  This is what base64.b64decode does, with or without validate=True:
   b64decode(b"AB==") = b64decode(b"AP==") = b"\x00",  b64decode(b"AA/=") = b"\x00\x0f". *)
Definition b64_dec_last (a b c d : N) : option bytes :=
  if (d =? b64_pad)%N then
    if (c =? b64_pad)%N then
      match b64_alphabet_index a, b64_alphabet_index b with
      | Some ia, Some ib => Some [b64_byte1 ia ib]
      | _, _ => None
      end
    else
      match b64_alphabet_index a, b64_alphabet_index b, b64_alphabet_index c with
      | Some ia, Some ib, Some ic => Some [b64_byte1 ia ib; b64_byte2 ib ic]
      | _, _, _ => None
      end
  else b64_dec_quad a b c d.

(* Strict decoding: length is a multiple of 4, every character is in the alphabet except
   that the LAST group may end in one or two '='; nothing else is accepted (no whitespace,
   no data after padding, no padding in the middle).  The empty text decodes to b"". *)
Fixpoint b64_decode_strict (t : bytes) : option bytes :=
  match t with
  | [] => Some []
  | a :: b :: c :: d :: rest =>
      match rest with
      | [] => b64_dec_last a b c d
      | _ :: _ =>
          match b64_dec_quad a b c d, b64_decode_strict rest with
          | Some q, Some r => Some (q ++ r)
          | _, _ => None
          end
      end
  | _ => None
  end.

(* ---------- binascii.a2b_base64 (CPython 3.12.1, strict_mode=False) ---------- *)
Definition b64_error : label := L"Error".   (* binascii.Error *)

(* prepend an output byte to the result of the rest of the loop; an exception discards it *)
Definition b64_emit (x : N) (r : res bytes) : res bytes :=
  match r with Ok l => Ok (x :: l) | Raise e => Raise e | Hang => Hang end.

(* The main loop.  State: quad_pos (0..3, number of sextets of the current group already
   read), leftchar (the bits of the previous sextet not yet output), pads (number of '='
   seen since the last alphabet character, counted only while quad_pos >= 2).
   - '=': if quad_pos >= 2 then pads is incremented and, if quad_pos + pads >= 4, decoding
     STOPS successfully and everything after is ignored (even garbage); if quad_pos < 2 the
     '=' is skipped like any other junk byte.
   - a byte outside the alphabet is skipped (and does not reset pads).
   - an alphabet character resets pads and advances quad_pos, emitting a byte unless quad_pos was 0.
   - end of input: quad_pos must be 0, else binascii.Error ("Incorrect padding", or the
     "number of data characters cannot be 1 more than a multiple of 4" message when quad_pos = 1;
     both are the same exception class). *)
Fixpoint a2b_loop (d : bytes) (quad_pos leftchar pads : N) : res bytes :=
  match d with
  | [] => if (quad_pos =? 0)%N then Ok [] else Raise b64_error
  | ch :: d' =>
      if (ch =? b64_pad)%N then
        if (2 <=? quad_pos)%N then
          if (4 <=? quad_pos + (pads + 1))%N then Ok []
          else a2b_loop d' quad_pos leftchar (pads + 1)%N
        else a2b_loop d' quad_pos leftchar pads
      else
        match b64_alphabet_index ch with
        | None => a2b_loop d' quad_pos leftchar pads
        | Some v =>
            if (quad_pos =? 0)%N then a2b_loop d' 1%N v 0%N
            else if (quad_pos =? 1)%N then
              b64_emit (leftchar * 4 + v / 16)%N (a2b_loop d' 2%N (v mod 16)%N 0%N)
            else if (quad_pos =? 2)%N then
              b64_emit (leftchar * 16 + v / 4)%N (a2b_loop d' 3%N (v mod 4)%N 0%N)
            else
              b64_emit (leftchar * 64 + v)%N (a2b_loop d' 0%N 0%N 0%N)
        end
  end.

Definition a2b_base64 (data : bytes) : res bytes := a2b_loop data 0%N 0%N 0%N.

(* ---------- multidecoder.decoders.base64.pad_base64 ---------- *)
(* padding = -len(b64) % 4 (Python modulo: 0..3); 0 -> unchanged; 3 -> b64[:-1]; else b64 + b"=" * padding *)
Definition pad_base64 (b64 : bytes) : bytes :=
  let padding := (- blen b64) mod 4 in
  if padding =? 0 then b64
  else if padding =? 3 then slice_to b64 (-1)
  else b64 ++ repeat b64_pad (Z.to_nat padding).
