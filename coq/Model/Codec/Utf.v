(* UTF-8 encode / decode and CPython 3.12 UTF-16 decoding (native order = little endian).
   Definitions only; proofs are in Proofs/UtfProofs.v. *)
From MD Require Import Lib.Base Model.Codec.PyInt.

Definition overflow_error : label := L"OverflowError".
Definition unicode_encode_error : label := L"UnicodeEncodeError".
Definition unicode_decode_error : label := L"UnicodeDecodeError".

Definition is_surrogate (n : Z) : bool := (55296 <=? n) && (n <=? 57343).

(* the raw 1-4 byte encoding; meaningful for 0 <= n <= 0x10FFFF *)
Definition utf8_bytes_cp (n : Z) : bytes :=
  if n <? 128 then [Z.to_N n]
  else if n <? 2048 then [Z.to_N (192 + n / 64); Z.to_N (128 + n mod 64)]
  else if n <? 65536 then
    [Z.to_N (224 + n / 4096); Z.to_N (128 + (n / 64) mod 64); Z.to_N (128 + n mod 64)]
  else
    [Z.to_N (240 + n / 262144); Z.to_N (128 + (n / 4096) mod 64);
     Z.to_N (128 + (n / 64) mod 64); Z.to_N (128 + n mod 64)].

(* chr(n).encode(): chr raises OverflowError outside the C int range, ValueError outside
   range(0x110000); encode raises UnicodeEncodeError for surrogates *)
Definition utf8_encode_cp (n : Z) : res bytes :=
  if (n <? -2147483648) || (2147483647 <? n) then Raise overflow_error
  else if (n <? 0) || (1114111 <? n) then Raise value_error
  else if is_surrogate n then Raise unicode_encode_error
  else Ok (utf8_bytes_cp n).

(* str.encode("utf-8") of a str given as its list of code points (each in range(0x110000)) *)
Definition utf8_encode (l : list Z) : res bytes :=
  do bs <- mapM utf8_encode_cp l; Ok (concat bs).

Definition is_cont (z : Z) : bool := (128 <=? z) && (z <? 192).

(* strict UTF-8 decoding: shortest form only, no surrogates, at most 0x10FFFF; None = invalid *)
Fixpoint utf8_decode (b : bytes) : option (list Z) :=
  match b with
  | [] => Some []
  | c0 :: r0 =>
      let z0 := Z.of_N c0 in
      if z0 <? 128 then option_map (cons z0) (utf8_decode r0)
      else if z0 <? 194 then None
      else if z0 <? 224 then
        match r0 with
        | c1 :: r1 =>
            let z1 := Z.of_N c1 in
            if is_cont z1
            then option_map (cons ((z0 - 192) * 64 + (z1 - 128))) (utf8_decode r1)
            else None
        | _ => None
        end
      else if z0 <? 240 then
        match r0 with
        | c1 :: c2 :: r2 =>
            let z1 := Z.of_N c1 in
            let z2 := Z.of_N c2 in
            let n := (z0 - 224) * 4096 + (z1 - 128) * 64 + (z2 - 128) in
            if is_cont z1 && is_cont z2 && (2048 <=? n) && negb (is_surrogate n)
            then option_map (cons n) (utf8_decode r2)
            else None
        | _ => None
        end
      else if z0 <? 245 then
        match r0 with
        | c1 :: c2 :: c3 :: r3 =>
            let z1 := Z.of_N c1 in
            let z2 := Z.of_N c2 in
            let z3 := Z.of_N c3 in
            let n := (z0 - 240) * 262144 + (z1 - 128) * 4096 + (z2 - 128) * 64 + (z3 - 128) in
            if is_cont z1 && is_cont z2 && is_cont z3 && (65536 <=? n) && (n <=? 1114111)
            then option_map (cons n) (utf8_decode r3)
            else None
        | _ => None
        end
      else None
  end.

(* ---------- UTF-16 ---------- *)
Definition utf16_unit (big_endian : bool) (x y : N) : Z :=
  if big_endian then Z.of_N x * 256 + Z.of_N y else Z.of_N y * 256 + Z.of_N x.

Definition is_high_surrogate (u : Z) : bool := (55296 <=? u) && (u <=? 56319).
Definition is_low_surrogate (u : Z) : bool := (56320 <=? u) && (u <=? 57343).
Definition combine_surrogates (hi lo : Z) : Z := 65536 + (hi - 55296) * 1024 + (lo - 56320).

(* The code-unit loop of PyUnicode_DecodeUTF16Stateful.  With errors="ignore":
   - a lone low surrogate, or a high surrogate followed by a complete non-low unit: those 2 bytes are skipped;
   - a high surrogate followed by fewer than 2 bytes ("unexpected end of data"): everything to the end is skipped;
   - a trailing odd byte ("truncated data") is skipped. *)
Fixpoint utf16_units (be ign : bool) (b : bytes) : res (list Z) :=
  match b with
  | [] => Ok []
  | [_] => if ign then Ok [] else Raise unicode_decode_error
  | x :: y :: rest =>
      let u := utf16_unit be x y in
      if is_high_surrogate u then
        match rest with
        | x2 :: y2 :: rest' =>
            let u2 := utf16_unit be x2 y2 in
            if is_low_surrogate u2
            then do r <- utf16_units be ign rest'; Ok (combine_surrogates u u2 :: r)
            else if ign then utf16_units be ign rest else Raise unicode_decode_error
        | _ => if ign then Ok [] else Raise unicode_decode_error
        end
      else if is_low_surrogate u then
        (if ign then utf16_units be ign rest else Raise unicode_decode_error)
      else do r <- utf16_units be ign rest; Ok (u :: r)
  end.

(* b.decode("utf-16") / b.decode("utf-16", errors="ignore"): BOM sniffing, then the loop *)
Definition utf16_decode (ignore_errors : bool) (b : bytes) : res (list Z) :=
  match b with
  | x :: y :: rest =>
      if (x =? 255)%N && (y =? 254)%N then utf16_units false ignore_errors rest
      else if (x =? 254)%N && (y =? 255)%N then utf16_units true ignore_errors rest
      else utf16_units false ignore_errors b
  | _ => utf16_units false ignore_errors b
  end.

(* b.decode("utf-16").encode("utf-8") *)
Definition utf16_to_utf8 (b : bytes) : res bytes :=
  do cps <- utf16_decode false b; utf8_encode cps.

(* b.decode("utf-16", errors="ignore").encode()   (shell.py) *)
Definition utf16_ignore_to_utf8 (b : bytes) : res bytes :=
  do cps <- utf16_decode true b; utf8_encode cps.
