(* Hexadecimal codecs: binascii.unhexlify / binascii.hexlify (= bytes.hex) and bytes.fromhex
   as in CPython 3.12.1.  Definitions only; proofs are in Proofs/HexProofs.v. *)
From MD Require Import Lib.Base.

(* value of a hex digit: 0-9, a-f, A-F *)
Definition hex_digit_val (c : N) : option N :=
  if is_digit_ascii c then Some (c - 48)%N
  else if (97 <=? c)%N && (c <=? 102)%N then Some (c - 87)%N
  else if (65 <=? c)%N && (c <=? 70)%N then Some (c - 55)%N
  else None.

Definition is_hex_digit (c : N) : bool :=
  match hex_digit_val c with Some _ => true | None => false end.

(* lower-case digit of a nibble; total: the argument is reduced modulo 16 *)
Definition hex_digit (n : N) : N :=
  let v := (n mod 16)%N in if (v <? 10)%N then (v + 48)%N else (v + 87)%N.

(* binascii.hexlify(b) = b.hex().encode("ascii") *)
Fixpoint hexlify (p : bytes) : bytes :=
  match p with
  | [] => []
  | x :: rest => hex_digit (x / 16) :: hex_digit (x mod 16) :: hexlify rest
  end.

Definition hex_error : label := L"Error".   (* binascii.Error *)

(* the pair loop of binascii.unhexlify: "Non-hexadecimal digit found" *)
Fixpoint unhex_pairs (t : bytes) : res bytes :=
  match t with
  | [] => Ok []
  | [_] => Raise hex_error
  | a :: b :: rest =>
      match hex_digit_val a, hex_digit_val b with
      | Some x, Some y => do r <- unhex_pairs rest; Ok ((x * 16 + y)%N :: r)
      | _, _ => Raise hex_error
      end
  end.

(* binascii.unhexlify(bytes): the length test ("Odd-length string") comes first; both failures
   are binascii.Error.  No whitespace is tolerated. *)
Definition unhexlify (t : bytes) : res bytes :=
  if Z.odd (blen t) then Raise hex_error else unhex_pairs t.

(* bytes.fromhex(s) for a str given as code points.  ASCII whitespace (space, \t \n \v \f \r;
   NOT \x1c-\x1f, NOT \x85 / \xa0) is skipped before each byte pair and at the end, never
   inside a pair.  Anything else - a non-hex character (this includes every non-ASCII code
   point), a lone trailing digit, whitespace inside a pair - raises ValueError. *)
Definition value_error : label := L"ValueError".

Fixpoint fromhex (s : list N) : res bytes :=
  match s with
  | [] => Ok []
  | c :: s' =>
      if is_space_ascii c then fromhex s'
      else
        match hex_digit_val c with
        | None => Raise value_error
        | Some x =>
            match s' with
            | [] => Raise value_error
            | c2 :: s'' =>
                match hex_digit_val c2 with
                | None => Raise value_error
                | Some y => do r <- fromhex s''; Ok ((x * 16 + y)%N :: r)
                end
            end
        end
  end.
