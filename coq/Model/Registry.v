(* registry.py : get_analyzers / get_keywords / build_registry as functions of explicit data.
   - the decoder modules and the functions each one marks for registration come from the translator
     (Generated/RegistryTable.v), in pkgutil.iter_modules / inspect.getmembers order (both sorted by name);
   - the keyword directory is a value [dtree]: what os.walk reports, in WHATEVER order the file system
     enumerates it; get_keywords sorts (registry.py: dirs.sort(), sorted(files), sorted(keywords)).
   Definitions only. *)
From MD Require Import Lib.Base Model.Node Model.Keyword.

(* ---------- get_analyzers ---------- *)
Definition mem_label (x : label) (l : list label) : bool := existsb (beqb x) l.

(* include / exclude: None and the empty list both mean "no filter" (`set(include) if include else {}`) *)
Definition selected (inc exc : list label) (m : label) : bool :=
  (match inc with [] => true | _ => mem_label m inc end) && negb (mem_label m exc).

Definition get_analyzers {D} (modules : list (label * list D)) (inc exc : list label) : list D :=
  flat_map (fun md => if selected inc exc (fst md) then snd md else []) modules.

(* ---------- bytes.splitlines() : \n, \r, \r\n ---------- *)
Fixpoint splitlines_aux (cur : bytes) (d : bytes) : list bytes :=
  match d with
  | [] => match cur with [] => [] | _ => [rev cur] end
  | 13%N :: 10%N :: d' => rev cur :: splitlines_aux [] d'
  | 13%N :: d' => rev cur :: splitlines_aux [] d'
  | 10%N :: d' => rev cur :: splitlines_aux [] d'
  | c :: d' => splitlines_aux (c :: cur) d'
  end.
Definition splitlines (d : bytes) : list bytes := splitlines_aux [] d.

(* ---------- sorted(set(...)) on byte strings / names: lexicographic by element ---------- *)
Fixpoint lex_ltb (a b : list N) : bool :=
  match a, b with
  | [], [] => false
  | [], _ :: _ => true
  | _ :: _, [] => false
  | x :: a', y :: b' => if (x <? y)%N then true else if (y <? x)%N then false else lex_ltb a' b'
  end.

Fixpoint insert_uniq (x : list N) (l : list (list N)) : list (list N) :=
  match l with
  | [] => [x]
  | y :: l' => if lex_ltb x y then x :: y :: l' else if beqb x y then y :: l' else y :: insert_uniq x l'
  end.
Definition sort_uniq (l : list (list N)) : list (list N) := fold_right insert_uniq [] l.

(* insertion sort of (name, payload) pairs by name; names in one directory are distinct *)
Fixpoint insert_named {A} (x : label * A) (l : list (label * A)) : list (label * A) :=
  match l with
  | [] => [x]
  | y :: l' => if lex_ltb (fst x) (fst y) then x :: y :: l' else y :: insert_named x l'
  end.
Definition sort_named {A} (l : list (label * A)) : list (label * A) := fold_right insert_named [] l.

(* ---------- the keyword directory ---------- *)
Inductive dtree : Type := Dir (files : list (label * bytes)) (subdirs : list (label * dtree)).

Definition keywords_of (content : bytes) : list bytes :=
  sort_uniq (filter (fun w => match w with [] => false | _ => true end) (splitlines content)).

(* one searcher per non-empty keyword file: (type label = file name, words) *)
Definition file_searchers (files : list (label * bytes)) : list (label * list bytes) :=
  flat_map (fun f => match keywords_of (snd f) with [] => [] | ws => [(fst f, ws)] end) (sort_named files).

(* os.walk top-down: the directory's own files first, then each sub-directory (in sorted order) recursively.
   The recursion is done on the listing as given and the results are put in sorted order afterwards: the same
   list, since sorting is by name and each payload travels with its name. *)
Fixpoint get_keywords (t : dtree) : list (label * list bytes) :=
  match t with
  | Dir files subdirs =>
      file_searchers files ++
      concat (map snd (sort_named
        ((fix go (l : list (label * dtree)) : list (label * list (label * list bytes)) :=
            match l with
            | [] => []
            | (n, d) :: l' => (n, get_keywords d) :: go l'
            end) subdirs)))
  end.

(* ---------- build_registry ---------- *)
Inductive searcher (D : Type) := KeywordSearch (lbl : label) (words : list bytes) | DecoderFn (d : D).
Arguments KeywordSearch {D}. Arguments DecoderFn {D}.

Definition build_registry {D} (modules : list (label * list D)) (kwdir : dtree) (inc exc : list label) : list (searcher D) :=
  map (fun kw => KeywordSearch (fst kw) (snd kw)) (get_keywords kwdir) ++ map DecoderFn (get_analyzers modules inc exc).
