(* multidecoder.py : Multidecoder.scan / scan_node as a step machine over the sorted hits.
   Mutation (hits shifted and appended in place, `node`/`stack` re-bound) becomes a zipper of
   frames; raising / never terminating are values of [res]. *)
From MD Require Import Lib.Base Model.Node.

(* ---------- sorted(results, key=lambda t: (t.start, -t.end)) : stable ---------- *)
Definition hit_le (a b : node) : bool :=
  (n_st a <? n_st b) || ((n_st a =? n_st b) && (n_en b <=? n_en a)).

Fixpoint insert_hit (x : node) (l : list node) : list node :=
  match l with
  | [] => [x]
  | y :: l' => if hit_le x y then x :: y :: l' else y :: insert_hit x l'
  end.

Definition sort_hits (l : list node) : list node := fold_right insert_hit [] l.

Definition nonempty_val (h : node) : bool := match n_val h with [] => false | _ => true end.

(* ---------- the context stack ---------- *)
Record frame := { f_node : node; f_rkids : list node }.   (* children appended so far, newest first *)

Definition close (f : frame) : node := set_kids (f_node f) (rev (f_rkids f)).
Definition add_kid (f : frame) (k : node) : frame := {| f_node := f_node f; f_rkids := k :: f_rkids f |}.
Definition open_frame (n : node) : frame := {| f_node := n; f_rkids := [] |}.

Record state := { cur : frame; stack : list frame; decode_end : Z; offset : Z }.

(* `while hit.end > offset + len(node.value): offset -= node.start; if stack: node = stack.pop()`
   With an empty stack the loop keeps subtracting the same start: it exits only if that start is
   negative (after k more rounds), otherwise it never terminates. *)
Fixpoint pop_until (hend : Z) (c : frame) (stk : list frame) (off : Z) : res (frame * list frame * Z) :=
  if hend >? off + blen (n_val (f_node c)) then
    match stk with
    | p :: stk' => pop_until hend (add_kid p (close c)) stk' (off - n_st (f_node c))
    | [] =>
        let s := n_st (f_node c) in
        if s <? 0 then
          let need := hend - off - blen (n_val (f_node c)) in     (* > 0 *)
          let k := (need + (- s) - 1) / (- s) in
          Ok (c, [], off + k * (- s))
        else Hang
    end
  else Ok (c, stk, off).

Definition is_decoding (parent_val : bytes) (h : node) : bool :=
  negb (beqb (lower (n_val h)) (lower (original parent_val h)))
  || match n_kids h with [] => false | _ => true end.

Definition restates (parent h : node) : bool :=
  (n_st h =? 0) && beqb (n_val h) (n_val parent) && beqb (n_ty h) (n_ty parent).

Section Engine.
  Variable search : bytes -> list node.       (* the registry: all decoders' hits, in registry order *)

  (* one iteration of `for hit in results` *)
  Definition step (rec : node -> res node) (s : state) (hit : node) : res state :=
    if n_en hit <=? decode_end s then Ok s else
    do r <- pop_until (n_en hit) (cur s) (stack s) (offset s);
    let '(c, stk, off) := r in
    let hit' := shift hit (- off) in
    let nd := f_node c in
    if restates nd hit' then
      Ok {| cur := c; stack := stk; decode_end := decode_end s; offset := off |}
    else if is_decoding (n_val nd) hit' then
      do h2 <- rec hit';
      Ok {| cur := add_kid c h2; stack := stk; decode_end := n_en hit' + off; offset := off |}
    else
      Ok {| cur := open_frame hit'; stack := c :: stk; decode_end := decode_end s; offset := off + n_st hit' |}.

  (* `return stack[0] if stack else node` : every open context is already linked into its parent *)
  Fixpoint unwind (c : frame) (stk : list frame) : node :=
    match stk with
    | [] => close c
    | p :: stk' => unwind (add_kid p (close c)) stk'
    end.

  Definition init_state (n : node) : state :=
    {| cur := open_frame n; stack := []; decode_end := 0; offset := 0 |}.

  Definition results (n : node) : list node := sort_hits (filter nonempty_val (search (n_val n))).

  Fixpoint scan_node (d : nat) (n : node) : res node :=
    match d with
    | O => Ok n
    | S d' =>
        match n_kids n with
        | _ :: _ => do ks <- mapM (scan_node d') (n_kids n); Ok (set_kids n ks)
        | [] => do s <- foldM (step (scan_node d')) (results n) (init_state n);
                Ok (unwind (cur s) (stack s))
        end
    end.

  Definition root_node (data : bytes) : node := Node [] data [] 0 (blen data) [].

  (* Multidecoder.scan(data, depth_limit) for any integer depth_limit *)
  Definition scan (depth : Z) (data : bytes) : res node :=
    if depth <=? 0 then Ok (root_node data) else scan_node (Z.to_nat depth) (root_node data).
End Engine.
