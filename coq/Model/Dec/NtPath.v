(* ntpath.normpath / ntpath.splitroot / ntpath.splitext for BYTES arguments, as CPython 3.12.1 executes
   them on Linux (Lib/ntpath.py: the pure-Python normpath is used because nt._path_normpath does not
   exist; Lib/genericpath.py _splitext).  Definitions only; proofs are in Proofs/NtPathProofs.v. *)
From MD Require Import Lib.Base Model.Dec.Ip.

Definition SEP : N := 92%N.      (* backslash *)
Definition ALTSEP : N := 47%N.   (* slash *)
Definition COLON : N := 58%N.
Definition DOT : N := 46%N.
Definition CURDIR : bytes := [DOT].
Definition PARDIR : bytes := [DOT; DOT].

(* p.replace(altsep, sep) *)
Definition replace_altsep (p : bytes) : bytes := map (fun c => if (c =? ALTSEP)%N then SEP else c) p.

(* normp[i] == sep, where normp = p.replace(altsep, sep) *)
Definition is_sep (c : N) : bool := (c =? SEP)%N || (c =? ALTSEP)%N.

(* normp.find(sep) as a split of p: (p[:index], None) when index = -1,
   (p[:index], Some (p[index], p[index+1:])) otherwise *)
Fixpoint break_sep (s : bytes) : bytes * option (N * bytes) :=
  match s with
  | [] => ([], None)
  | c :: s' =>
      if is_sep c then ([], Some (c, s'))
      else let '(a, r) := break_sep s' in (c :: a, r)
  end.

(* the 8 bytes  backslash backslash ? backslash U N C backslash *)
Definition UNC_PREFIX : bytes := [SEP; SEP; 63%N; SEP; 85%N; 78%N; 67%N; SEP].

(* start = 8 if normp[:8].upper() == unc_prefix else 2 *)
Definition unc_start (p : bytes) : nat :=
  if beqb (upper (replace_altsep (firstn 8 p))) UNC_PREFIX then 8%nat else 2%nat.

(* ntpath.splitroot(p) = (drive, root, tail) *)
Definition ntpath_splitroot (p : bytes) : bytes * bytes * bytes :=
  match p with
  | [] => ([], [], [])
  | c0 :: r0 =>
      if is_sep c0 then
        match r0 with
        | [] => ([], [c0], r0)
        | c1 :: _ =>
            if is_sep c1 then
              (* UNC drives and device drives *)
              let st := unc_start p in
              match break_sep (skipn st p) with
              | (_, None) => (p, [], [])
              | (a, Some (s1, b)) =>
                  match break_sep b with
                  | (_, None) => (p, [], [])
                  | (c, Some (s2, tail)) => (firstn st p ++ a ++ s1 :: c, [s2], tail)
                  end
              end
            else ([], [c0], r0)       (* relative path with root *)
        end
      else
        match r0 with
        | [] => ([], [], p)
        | c1 :: r1 =>
            if (c1 =? COLON)%N then
              match r1 with
              | [] => ([c0; c1], [], r1)
              | c2 :: r2 => if is_sep c2 then ([c0; c1], [c2], r2)   (* absolute drive-letter path *)
                            else ([c0; c1], [], r1)                  (* relative path with drive *)
              end
            else ([], [], p)
        end
  end.

Definition ntpath_splitdrive (p : bytes) : bytes * bytes :=
  let '(drive, root, tail) := ntpath_splitroot p in (drive, root ++ tail).

(* One iteration of the `while i < len(comps)` loop of normpath.  [out] is comps[:i] reversed
   (the components already examined and kept), [c] is comps[i]. *)
Definition norm_step (rooted : bool) (out : list bytes) (c : bytes) : list bytes :=
  if beqb c [] || beqb c CURDIR then out
  else if beqb c PARDIR then
    match out with
    | prev :: out' => if beqb prev PARDIR then c :: out else out'
    | [] => if rooted then out else [c]
    end
  else c :: out.

Definition norm_comps (rooted : bool) (comps : list bytes) : list bytes :=
  rev (fold_left (norm_step rooted) comps []).

(* ntpath.normpath(path), pure-Python fallback *)
Definition ntpath_normpath (path : bytes) : bytes :=
  let path := replace_altsep path in
  let '(drive, root, tail) := ntpath_splitroot path in
  let prefix := drive ++ root in
  let comps := norm_comps (negb (beqb root [])) (split_on SEP tail) in
  let comps := match prefix, comps with
               | [], [] => [CURDIR]
               | _, _ => comps
               end in
  prefix ++ join [SEP] comps.

(* ---------- genericpath._splitext ---------- *)
(* p.rfind(c) for a one-byte needle: [i] is the index of the head of [p], [last] the best index so far *)
Fixpoint rfind_from (c : N) (p : bytes) (i last : Z) : Z :=
  match p with
  | [] => last
  | x :: p' => rfind_from c p' (i + 1) (if (x =? c)%N then i else last)
  end.
Definition rfind1 (p : bytes) (c : N) : Z := rfind_from c p 0 (-1).

Definition generic_splitext (p : bytes) (sep altsep extsep : N) : bytes * bytes :=
  let sepIndex := Z.max (rfind1 p sep) (rfind1 p altsep) in
  let dotIndex := rfind1 p extsep in
  if sepIndex <? dotIndex then
    (* the while loop returns at the first non-dot byte of p[sepIndex+1:dotIndex] *)
    if existsb (fun c => negb (c =? extsep)%N) (slice p (sepIndex + 1) dotIndex)
    then (slice_to p dotIndex, slice_from p dotIndex)
    else (p, [])
  else (p, []).

Definition ntpath_splitext (p : bytes) : bytes * bytes := generic_splitext p SEP ALTSEP DOT.
