(* The `regex` calls of the decoders, on top of the backtracking model (Regex/Backtrack.v) and the
   translator-generated regex terms (Generated/Regexes.v).  Running out of matcher fuel is reported as
   [Hang] (the real engine would still be backtracking), never as a silent "no match". *)
From MD Require Import Lib.Base Model.Node Regex.Syntax Regex.Backtrack.

Definition fi (r : re) (ng : nat) (data : bytes) : res (list mtch) :=
  match finditer r ng data with Some ms => Ok ms | None => Hang end.

Definition re_search (r : re) (ng : nat) (data : bytes) : res (option mtch) :=
  match search r ng data with Some o => Ok o | None => Hang end.

Definition re_match_at (r : re) (ng : nat) (data : bytes) (k : Z) : res (option mtch) :=
  match match_at r ng data k with Some o => Ok o | None => Hang end.

Definition re_match (r : re) (ng : nat) (data : bytes) : res (option mtch) := re_match_at r ng data 0.

Definition re_fullmatch (r : re) (data : bytes) : res bool :=
  match fullmatch r data with Some b => Ok b | None => Hang end.

(* match.span(k): (-1,-1) when the group did not participate *)
Definition span (m : mtch) (k : nat) : Z * Z :=
  match nth k m None with Some sp => sp | None => (-1, -1) end.
Definition m_start (m : mtch) (k : nat) : Z := fst (span m k).
Definition m_end (m : mtch) (k : nat) : Z := snd (span m k).
Definition participates (m : mtch) (k : nat) : bool :=
  match nth k m None with Some _ => true | None => false end.

(* match.group(k) as bytes; a non-participating group (Python None) is rendered [] - use [participates]
   where the code distinguishes None *)
Definition group (data : bytes) (m : mtch) (k : nat) : bytes :=
  match nth k m None with Some (s, e) => slice data s e | None => [] end.

(* re.sub(r, repl, data) for a constant replacement and a non-nullable pattern *)
Fixpoint splice_const (data repl : bytes) (pos : Z) (ms : list mtch) : bytes :=
  match ms with
  | [] => slice_from data pos
  | m :: rest => slice data pos (m_start m 0) ++ repl ++ splice_const data repl (m_end m 0) rest
  end.

Definition re_sub_const (r : re) (ng : nat) (repl data : bytes) : res bytes :=
  do ms <- fi r ng data; Ok (splice_const data repl 0 ms).

(* re.sub with a function of the match *)
Fixpoint splice_fn (data : bytes) (f : mtch -> bytes) (pos : Z) (ms : list mtch) : bytes :=
  match ms with
  | [] => slice_from data pos
  | m :: rest => slice data pos (m_start m 0) ++ f m ++ splice_fn data f (m_end m 0) rest
  end.

Definition re_sub_fn (r : re) (ng : nat) (f : mtch -> bytes) (data : bytes) : res bytes :=
  do ms <- fi r ng data; Ok (splice_fn data f 0 ms).

(* Node(label, match.group(g), "", *match.span(g))  - hit.py match_to_hit *)
Definition match_to_hit (lbl : label) (data : bytes) (m : mtch) (g : nat) : node :=
  Node lbl (group data m g) [] (m_start m g) (m_end m g) [].
