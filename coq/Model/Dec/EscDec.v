(* Character-escape decoders: decoders/xml.py find_xml_hex, decoders/chr.py find_chr,
   decoders/javascript.py find_unescape, decoders/codec.py find_utf16.
   Definitions only; proofs are in Proofs/EscDecProofs.v.
   Every decoder is  finditer(PATTERN, data)  followed by the Python written in the *_post function;
   the regex terms are referred to by the names of Generated/Regexes.v only. *)
From MD Require Import Lib.Base Model.Node Regex.Syntax Regex.Backtrack Generated.Regexes Model.Dec.ReLib.
From MD Require Import Model.Codec.PyInt Model.Codec.Utf Model.Codec.Percent Model.Dec.XmlChr.

Definition type_error : label := L"TypeError".
Definition attribute_error : label := L"AttributeError".

(* match.group(k) for an expression that goes on to USE the bytes: a group number the pattern does not
   have is IndexError ("no such group") raised by match.group itself; a group that did not participate
   is None, and the first use of None raises [none_exn] (TypeError for subscripting / int(), AttributeError
   inside urllib's unquote_to_bytes).  The shipped patterns make every group they use mandatory. *)
Definition group_req (none_exn : label) (data : bytes) (m : mtch) (k : nat) : res bytes :=
  if (k <? List.length m)%nat then
    match nth k m None with
    | Some (s, e) => Ok (slice data s e)
    | None => Raise none_exn
    end
  else Raise index_err.

(* ---------- xml.py ----------
   [ Node("", unescape_xml(match.group()), "unescape.xml", match.start(), match.end()) for match in ... ]
   A ValueError of unescape_xml aborts the comprehension, i.e. the whole decoder. *)
Definition xml_node (data : bytes) (m : mtch) : res node :=
  do g <- group_req type_error data m 0;
  do v <- unescape_xml g;
  Ok (Node [] v (L"unescape.xml") (m_start m 0) (m_end m 0) []).

Definition find_xml_hex_post (data : bytes) (ms : list mtch) : res (list node) := mapM (xml_node data) ms.

Definition find_xml_hex (data : bytes) : res (list node) :=
  do ms <- fi RE_xml_XML_ESCAPE_RE NG_xml_XML_ESCAPE_RE data; find_xml_hex_post data ms.

(* ---------- chr.py ----------
   for match in ...:
       try: character = chr(int(match.group(1))).encode()
       except (ValueError, UnicodeEncodeError): continue
       out.append(Node("string", character, "function.chr", *match.span()))
   chr_value_res is exactly the try block with its except clause (OverflowError is NOT caught). *)
Fixpoint find_chr_post (data : bytes) (ms : list mtch) : res (list node) :=
  match ms with
  | [] => Ok []
  | m :: rest =>
      do g <- group_req type_error data m 1;
      do o <- chr_value_res g;
      do out <- find_chr_post data rest;
      Ok (match o with
          | Some character => Node (L"string") character (L"function.chr") (m_start m 0) (m_end m 0) [] :: out
          | None => out
          end)
  end.

Definition find_chr (data : bytes) : res (list node) :=
  do ms <- fi RE_chr_CHR_RE NG_chr_CHR_RE data; find_chr_post data ms.

(* ---------- javascript.py ----------
   [ Node("string", unquote_to_bytes(match.group(1)), "function.unescape", *match.span()) for match in ... ] *)
Definition unescape_node (data : bytes) (m : mtch) : res node :=
  do g <- group_req attribute_error data m 1;
  Ok (Node (L"string") (unquote_to_bytes g) (L"function.unescape") (m_start m 0) (m_end m 0) []).

Definition find_unescape_post (data : bytes) (ms : list mtch) : res (list node) := mapM (unescape_node data) ms.

Definition find_unescape (data : bytes) : res (list node) :=
  do ms <- fi RE_javascript_UNESCAPE_RE NG_javascript_UNESCAPE_RE data; find_unescape_post data ms.

(* ---------- codec.py ----------
   [ Node("", match.group().decode("utf-16").encode("utf-8"), "codec.uft-16", *match.span()) for match in ... ]
   (the label really is spelled "uft").  A UnicodeDecodeError would abort the decoder. *)
Definition utf16_node (data : bytes) (m : mtch) : res node :=
  do g <- group_req attribute_error data m 0;
  do v <- utf16_to_utf8 g;
  Ok (Node [] v (L"codec.uft-16") (m_start m 0) (m_end m 0) []).

Definition find_utf16_post (data : bytes) (ms : list mtch) : res (list node) := mapM (utf16_node data) ms.

Definition find_utf16 (data : bytes) : res (list node) :=
  do ms <- fi RE_codec_UTF16_RE NG_codec_UTF16_RE data; find_utf16_post data ms.
