(* decoders/shell.py: find_cmd_strings, find_powershell_strings, get_cmd_command,
   get_powershell_command.  Definitions only; proofs are in Proofs/ShellProofs.v.
   strip_carets / deobfuscate_cmd / the parenthesis loop are in Model/Dec/Carets.v. *)
From MD Require Import Lib.Base Model.Node Regex.Syntax Regex.Backtrack Generated.Regexes
  Model.Dec.ReLib Model.Codec.PyInt Model.Codec.Base64 Model.Codec.Utf Model.Dec.Carets Model.Dec.Ip.

(* ------------------------------------------------------------------ *)
(* byte constants and labels *)
Definition ch_space  : N := 32%N.
Definition ch_squote : N := 39%N.   (* single quote *)
Definition ch_slash  : N := 47%N.

Definition cmd_type : label := L"shell.cmd".
Definition ps_type : label := L"shell.powershell".
Definition ps_b64_label : label := L"powershell.base64".
Definition assertion_error : label := L"AssertionError".

(* ------------------------------------------------------------------ *)
(* bytes methods *)

(* bytes.split() without arguments: split on runs of ASCII whitespace (Py_ISSPACE = is_space_ascii:
   space, tab, LF, VT, FF, CR), no empty strings in the result *)
Fixpoint split_ws (b : bytes) : list bytes :=
  match b with
  | [] => []
  | c :: r =>
      if is_space_ascii c then split_ws r
      else match r with
           | [] => [[c]]
           | d :: _ =>
               if is_space_ascii d then [c] :: split_ws r
               else match split_ws r with
                    | w :: ws => (c :: w) :: ws
                    | [] => [[c]]
                    end
           end
  end.

Fixpoint drop_ws (b : bytes) : bytes :=
  match b with
  | [] => []
  | c :: r => if is_space_ascii c then drop_ws r else b
  end.

Fixpoint take_word (b : bytes) : bytes :=
  match b with
  | [] => []
  | c :: r => if is_space_ascii c then [] else c :: take_word r
  end.

Fixpoint drop_word (b : bytes) : bytes :=
  match b with
  | [] => []
  | c :: r => if is_space_ascii c then b else drop_word r
  end.

(* bytes.rsplit(maxsplit=1) (CPython rsplit_whitespace): scanning from the right, skip whitespace, take
   the last word, skip whitespace again; what is left (leading whitespace included) is the first item,
   omitted when nothing is left.  Result has 0, 1 or 2 items. *)
Definition rsplit_ws1 (b : bytes) : list bytes :=
  let r := drop_ws (rev b) in
  match r with
  | [] => []
  | _ :: _ =>
      let w := take_word r in
      let rest := drop_ws (drop_word r) in
      match rest with
      | [] => [rev w]
      | _ :: _ => [rev rest; rev w]
      end
  end.

(* bytes.strip(chars) for the two quote characters *)
Definition is_quote (c : N) : bool := (c =? ch_squote)%N || (c =? ch_dquote)%N.

Fixpoint lstrip_quotes (b : bytes) : bytes :=
  match b with
  | [] => []
  | c :: r => if is_quote c then lstrip_quotes r else b
  end.

Definition strip_quotes (b : bytes) : bytes := rev (lstrip_quotes (rev (lstrip_quotes b))).

(* bytes.strip() *)
Definition strip_ws (b : bytes) : bytes := rstrip_space (lstrip_space b).

(* bytes.find(p, start) for ANY integer start (a negative start counts from the end, clamped at 0) *)
Definition py_find (d p : bytes) (start : Z) : Z :=
  let s := if start <? 0 then Z.max 0 (start + blen d) else start in
  find_from d p s.

(* bytes.rfind(one byte): index of the last occurrence, -1 if none *)
Fixpoint rfind1_from (c : N) (b : bytes) (i last : Z) : Z :=
  match b with
  | [] => last
  | x :: r => rfind1_from c r (i + 1) (if (x =? c)%N then i else last)
  end.
Definition rfind1 (b : bytes) (c : N) : Z := rfind1_from c b 0 (-1).

(* data[start::-1]: the bytes at indices start, start-1, ..., 0 (for ANY integer start: a negative start
   counts from the end and gives the empty string when still negative; a start past the end begins at
   the last byte) *)
Definition rev_prefix (data : bytes) (start : Z) : bytes :=
  let n := blen data in
  let s := if start <? 0 then start + n else start in
  if s <? 0 then [] else rev (firstn (Z.to_nat (Z.min s (n - 1) + 1)) data).

(* x[0] of a Python list *)
Definition list_head (l : list bytes) : res bytes :=
  match l with [] => Raise index_err | w :: _ => Ok w end.

(* (not w.startswith(dq) and w.endswith(dq)) or (not w.startswith(sq) and w.endswith(sq)) *)
Definition trailing_quote (w : bytes) : bool :=
  (negb (startswith w [ch_dquote]) && endswith w [ch_dquote]) ||
  (negb (startswith w [ch_squote]) && endswith w [ch_squote]).

(* the in-place repair  x[0] = x[0][:-1]  (the caller has checked that x is not empty) *)
Definition drop_last_of_head (l : list bytes) : list bytes :=
  match l with [] => [] | w :: ws => slice_to w (-1) :: ws end.

(* ------------------------------------------------------------------ *)
(* find_cmd_strings *)

(* one iteration of the for loop *)
Definition cmd_one (data : bytes) (mt : mtch) : res node :=
  let full_cmd := group data mt 0 in
  let start := m_start mt 0 in
  let cut := paren_cut full_cmd in
  (* the loop either breaks at index cut (then end = start + cut) or runs to completion (end = match.end()) *)
  let en := if cut <? blen full_cmd then start + cut else m_end mt 0 in
  do (deobfuscated, obfuscation) <- deobfuscate_cmd (cmd_cut full_cmd);
  let split := split_ws deobfuscated in
  do w0 <- list_head split;
  let value := if trailing_quote w0 then Ip.join [ch_space] (drop_last_of_head split) else deobfuscated in
  Ok (Node cmd_type value obfuscation start en []).

Definition find_cmd_strings_post (data : bytes) (ms : list mtch) : res (list node) :=
  mapM (cmd_one data) ms.

Definition find_cmd_strings (data : bytes) : res (list node) :=
  do ms <- fi RE_shell_CMD_RE NG_shell_CMD_RE data; find_cmd_strings_post data ms.

(* ------------------------------------------------------------------ *)
(* find_powershell_strings *)

(* what the two regex calls of one iteration found *)
Inductive ps_ctx :=
| CtxEnc (enc_end : Z)        (* ENC_RE matched at indicator.end(); enc.end() *)
| CtxBound (bound : bytes)    (* no ENC; the look-back search matched; bound_match.group() *)
| CtxNone.                    (* neither *)

Definition ctx_is_enc (c : ps_ctx) : bool := match c with CtxEnc _ => true | _ => false end.

Definition bound_for : bytes := [ch_squote; ch_lparen].     (* quote + open paren, as seen in the reversed text *)
Definition close_for : bytes := [ch_squote; ch_rparen].

(* the regex calls of one iteration *)
Definition ps_context (data : bytes) (ind : mtch) : res ps_ctx :=
  let start := m_start ind 1 in
  do enc <- re_match_at RE_shell_ENC_RE NG_shell_ENC_RE data (m_end ind 0);
  match enc with
  | Some e => Ok (CtxEnc (m_end e 0))
  | None =>
      let back := rev_prefix data start in
      do b <- re_search RE_shell_find_powershell_strings_0 NG_shell_find_powershell_strings_0 back;
      match b with
      | Some bm => Ok (CtxBound (group back bm 0))
      | None => Ok CtxNone
      end
  end.

(* the closing delimiter searched for; the assert on the look-back text *)
Definition ps_delim (bound : bytes) : res bytes :=
  if negb (beqb bound bound_for || beqb bound [ch_dquote] || beqb bound [ch_squote])
  then Raise assertion_error
  else if beqb bound bound_for then Ok close_for
  else if beqb bound [ch_dquote] then Ok [ch_dquote]
  else Ok [ch_squote].

(* (end, powershell) *)
Definition ps_span (data : bytes) (start : Z) (ctx : ps_ctx) : res (Z * bytes) :=
  match ctx with
  | CtxEnc e => Ok (e, slice data start e)
  | CtxBound bound =>
      do delim <- ps_delim bound;
      let e := py_find data delim start in
      let e := if e <? 0 then blen data else e in
      Ok (e, slice data start e)
  | CtxNone => Ok (blen data - start, slice_from data start)
  end.

(* the ENC branch up to the new value; None = one of the three `continue` statements *)
Definition ps_enc_value (deobfuscated : bytes) : res (option bytes) :=
  if blen (split_ws deobfuscated) <? 2 then Ok None else
  do (pwsh_invocation, encoded) <-
     match rsplit_ws1 deobfuscated with
     | [a; b] => Ok (a, b)
     | _ => Raise (L"ValueError")          (* tuple unpacking *)
     end;
  let encoded := strip_quotes encoded in
  if negb (blen encoded mod 4 =? 0) || existsb (N.eqb ch_caret) encoded then Ok None else
  match a2b_base64 encoded with
  | Raise e => if beqb e b64_error then Ok None else Raise e
  | Hang => Hang
  | Ok raw =>
      do b64 <- utf16_ignore_to_utf8 raw;
      let pwsh_invocation := Ip.join [ch_space; 45%N] (Ip.split_on ch_slash pwsh_invocation) in
      let args := split_ws pwsh_invocation in
      do a0 <- list_head args;
      let args := if trailing_quote a0 then drop_last_of_head args else args in
      Ok (Some (Ip.join [ch_space] (slice_to args (-1)) ++ L" -Command " ++ b64))
  end.

(* the nodes appended to out by one iteration *)
Definition ps_nodes (start en : Z) (is_enc : bool) (deobfuscated : bytes) (obfuscation : label)
  : res (list node) :=
  if is_enc then
    do v <- ps_enc_value deobfuscated;
    match v with
    | None => Ok []
    | Some value =>
        match obfuscation with
        | [] => Ok [Node ps_type value ps_b64_label start en []]
        | _ :: _ =>
            Ok [Node cmd_type deobfuscated obfuscation start en
                  [Node ps_type value ps_b64_label 0 (blen value) []]]
        end
    end
  else
    (* when obfuscation is non-empty a shell.cmd node with a shell.powershell child is built here too,
       but it is never appended to out *)
    Ok [Node ps_type deobfuscated obfuscation start en []].

(* the Python of one iteration after its regex calls *)
Definition ps_body (data : bytes) (start : Z) (ctx : ps_ctx) : res (list node) :=
  do (en, powershell) <- ps_span data start ctx;
  do (deobfuscated, obfuscation) <- deobfuscate_cmd powershell;
  ps_nodes start en (ctx_is_enc ctx) deobfuscated obfuscation.

(* the loop, with the regex calls of each iteration abstracted *)
Definition find_powershell_strings_post_with (ctx_of : mtch -> res ps_ctx) (data : bytes) (ms : list mtch)
  : res (list node) :=
  do ls <- mapM (fun ind => do ctx <- ctx_of ind; ps_body data (m_start ind 1) ctx) ms;
  Ok (concat ls).

Definition find_powershell_strings_post (data : bytes) (ms : list mtch) : res (list node) :=
  find_powershell_strings_post_with (ps_context data) data ms.

Definition find_powershell_strings (data : bytes) : res (list node) :=
  do ms <- fi RE_shell_POWERSHELL_INDICATOR_RE NG_shell_POWERSHELL_INDICATOR_RE data;
  find_powershell_strings_post data ms.

(* ------------------------------------------------------------------ *)
(* get_cmd_command *)
Definition get_cmd_command_post (cmd : bytes) (en : option mtch) : bytes :=
  match en with
  | None => []
  | Some e =>
      let arg := strip_ws (slice_from cmd (m_end e 0)) in
      if negb (beqb (group cmd e 0) [ch_dquote]) && startswith arg [ch_dquote] then
        let index := rfind1 arg ch_dquote in
        if 0 <? index then slice arg 1 index ++ slice_from arg (index + 1) else slice_from arg 1
      else arg
  end.

Definition get_cmd_command (cmd : bytes) : res bytes :=
  do en <- re_search RE_shell_get_cmd_command_0 NG_shell_get_cmd_command_0 cmd;
  Ok (get_cmd_command_post cmd en).

(* ------------------------------------------------------------------ *)
(* get_powershell_command *)
Definition get_powershell_command_post (powershell : bytes) (mt : option mtch) : res bytes :=
  match mt with
  | None => Ok powershell
  | Some m0 =>
      let command := slice_from powershell (m_end m0 0) in
      if 1 <? blen command then
        do c0 <- getitem command 0;
        if (c0 =? ch_dquote)%N || (c0 =? ch_squote)%N then
          do cl <- getitem command (-1);
          if (c0 =? cl)%N then Ok (slice command 1 (-1)) else Ok command
        else Ok command
      else Ok command
  end.

Definition get_powershell_command (powershell : bytes) : res bytes :=
  do mt <- re_match RE_shell_POWERSHELL_ARGS_RE NG_shell_POWERSHELL_ARGS_RE powershell;
  get_powershell_command_post powershell mt.
