(* decoders/xml.py unescape_xml and the body of decoders/chr.py find_chr.
   Definitions only; proofs are in Proofs/XmlChrProofs.v. *)
From MD Require Import Lib.Base Model.Codec.PyInt Model.Codec.Utf Model.Codec.Percent.

(* bytes.replace(old, new) for non-empty old: leftmost, non overlapping, the output is not rescanned.
   skip = number of bytes of an already matched occurrence still to be dropped. *)
Fixpoint replace_aux (old new : bytes) (skip : nat) (b : bytes) : bytes :=
  match b with
  | [] => []
  | c :: r =>
      match skip with
      | S k => replace_aux old new k r
      | O =>
          if prefixb old b
          then new ++ replace_aux old new (Nat.pred (List.length old)) r
          else c :: replace_aux old new O r
      end
  end.

Definition replace (b old new : bytes) : bytes :=
  match old with
  | [] => new ++ flat_map (fun c => c :: new) b
  | _ => replace_aux old new O b
  end.

(* bytes.split(sep) for a one-byte separator: never the empty list *)
Fixpoint split_on (sep : N) (b : bytes) : list bytes :=
  match b with
  | [] => [[]]
  | c :: r =>
      match split_on sep r with
      | h :: t => if (c =? sep)%N then [] :: h :: t else (c :: h) :: t
      | [] => [[c]]
      end
  end.

(* int(x[1:], base=16) if x.startswith((b"x", b"X")) else int(x) *)
Definition xml_item_value (x : bytes) : res Z :=
  if startswith x (L"x") || startswith x (L"X")
  then int_of_bytes 16 (slice_from x 1)
  else int_of_bytes 10 x.

Definition unescape_xml (data : bytes) : res bytes :=
  let items := removelast (split_on 59%N (replace data (L"&#") [])) in
  do ints <- mapM xml_item_value items;
  bytes_of_ints ints.

(* Specification side: the shape of the references matched by XML_ESCAPE_RE
   ("x" or "X" and exactly two hex digits, or 1-3 decimal digits with value at most 255)
   and the byte each one denotes. *)
Definition is_x (c : N) : bool := (c =? 120)%N || (c =? 88)%N.

Definition xml_item_okb (i : bytes) : bool :=
  match i with
  | p :: rest =>
      if is_x p
      then match rest with
           | [h1; h2] => is_hex_ascii h1 && is_hex_ascii h2
           | _ => false
           end
      else forallb is_digit_ascii i && (blen i <=? 3) && (dec_value i <=? 255)
  | [] => false
  end.

Definition xml_items_ok (items : list bytes) : Prop := Forall (fun i => xml_item_okb i = true) items.

Definition xml_item_num (i : bytes) : N :=
  match i with
  | p :: rest =>
      if is_x p
      then match rest with
           | [h1; h2] => hex_byte h1 h2
           | _ => 0%N
           end
      else Z.to_N (dec_value i)
  | [] => 0%N
  end.

Definition xml_reference (i : bytes) : bytes := L"&#" ++ i ++ L";".

(* chr(int(group1)).encode() with the except clause of find_chr:
   Ok (Some b) = node reported with value b, Ok None = ValueError / UnicodeEncodeError swallowed
   ("continue"), Raise = any other exception escapes from find_chr. *)
Definition chr_value_res (digits : bytes) : res (option bytes) :=
  match int_of_bytes 10 digits with
  | Ok n =>
      match utf8_encode_cp n with
      | Ok b => Ok (Some b)
      | Raise e => if beqb e value_error || beqb e unicode_encode_error then Ok None else Raise e
      | Hang => Hang
      end
  | Raise e => if beqb e value_error then Ok None else Raise e
  | Hang => Hang
  end.

Definition chr_value (digits : bytes) : option bytes :=
  match chr_value_res digits with
  | Ok o => o
  | _ => None
  end.
