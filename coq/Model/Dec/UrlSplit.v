(* urllib.parse.urlsplit for a BYTES argument (CPython 3.12.1, urllib/parse.py) together with the
   SplitResultBytes properties .hostname and .port, and the part of the ipaddress module that
   urlsplit reaches through _check_bracketed_host (IPv6Address(str), IPv4Address(str) = Ip.is_ip).
   Definitions only; proofs are in Proofs/UrlSplitProofs.v.

   What is modelled, in the order of the Python source:
   - _coerce_args / _decode_args: the bytes are decoded as ASCII; a byte >= 128 raises
     UnicodeDecodeError (a subclass of ValueError, see [is_value_error]);
   - url.lstrip(_WHATWG_C0_CONTROL_OR_SPACE): leading bytes <= 0x20 are dropped;
   - the three _UNSAFE_URL_BYTES_TO_REMOVE (tab, CR, LF) are removed everywhere;
   - scheme: text before the first colon when it is non-empty, starts with an ASCII letter and
     consists of scheme_chars; it is lower-cased;
   - netloc: only when the rest starts with two slashes; it ends at the first slash, question mark or hash;
   - bracket checks (ValueError "Invalid IPv6 URL"), _check_bracketed_host (IPvFuture form or
     ipaddress.ip_address: must be an IPv6Address, an IPv4Address is rejected);
   - fragment = text after the first hash, query = text after the first question mark before it;
   - _checknetloc is called on the DECODED netloc, which is ASCII, so it returns immediately;
   - the lru_cache has no observable effect. *)
From MD Require Import Lib.Base Model.Dec.Ip.

Definition unicode_decode_error : label := L"UnicodeDecodeError".

(* "except ValueError" also catches the subclass UnicodeDecodeError *)
Definition is_value_error (e : label) : bool := beqb e value_error || beqb e unicode_decode_error.

(* ---------- small str / bytes helpers ---------- *)
Definition nonempty {A} (l : list A) : bool := match l with [] => false | _ :: _ => true end.

(* longest prefix without a byte satisfying p, and the rest (which starts with such a byte or is empty) *)
Fixpoint span_until (p : N -> bool) (s : bytes) : bytes * bytes :=
  match s with
  | [] => ([], [])
  | c :: t => if p c then ([], s) else let (a, r) := span_until p t in (c :: a, r)
  end.

(* s.partition(c) for a one-byte separator: (before, found, after); not found: (s, false, "") *)
Definition partition (c : N) (s : bytes) : bytes * bool * bytes :=
  let (a, r) := span_until (N.eqb c) s in
  match r with
  | [] => (a, false, [])
  | _ :: t => (a, true, t)
  end.

(* s.rpartition(c): (before, found, after); not found: ("", false, s) *)
Definition rpartition (c : N) (s : bytes) : bytes * bool * bytes :=
  let '(a, f, b) := partition c (rev s) in
  if f then (rev b, true, rev a) else ([], false, s).

Definition has_byte (c : N) (s : bytes) : bool := existsb (N.eqb c) s.

Definition b_colon : N := 58%N.
Definition b_slash : N := 47%N.
Definition b_qmark : N := 63%N.
Definition b_hash : N := 35%N.
Definition b_at : N := 64%N.
Definition b_lbr : N := 91%N.
Definition b_rbr : N := 93%N.
Definition b_pct : N := 37%N.
Definition b_v : N := 118%N.
Definition b_nl : N := 10%N.

(* ---------- ipaddress.IPv6Address(str) succeeds (str is ASCII here) ---------- *)
Definition hextet_ok (h : bytes) : bool :=
  nonempty h && forallb is_hex h && (blen h <=? 4).

Definition is_nil (x : bytes) : bool := match x with [] => true | _ :: _ => false end.

Fixpoint index_of_nil (l : list bytes) (i : nat) : option nat :=
  match l with
  | [] => None
  | x :: t => if is_nil x then Some i else index_of_nil t (S i)
  end.

Definition count_nil (l : list bytes) : nat := List.length (filter is_nil l).

(* the part of _ip_int_from_string after the IPv4 suffix has been replaced by two hextets;
   [parts] has at least 3 elements *)
Definition ipv6_parts_ok (parts : list bytes) : bool :=
  let n := List.length parts in
  if (9 <? n)%nat then false else
  let middle := removelast (tl parts) in
  if (1 <? count_nil middle)%nat then false else
  match index_of_nil middle 1 with
  | Some k =>
      let first_empty := is_nil (hd [] parts) in
      let last_empty := is_nil (last parts []) in
      let hi := if first_empty then (k - 1)%nat else k in
      let lo0 := (n - k - 1)%nat in
      let lo := if last_empty then (lo0 - 1)%nat else lo0 in
      if first_empty && negb (Nat.eqb hi 0) then false
      else if last_empty && negb (Nat.eqb lo 0) then false
      else if (8 - (hi + lo) <? 1)%nat then false
      else forallb hextet_ok (firstn hi parts) && forallb hextet_ok (skipn (n - lo) parts)
  | None =>
      Nat.eqb n 8 && forallb hextet_ok parts
  end.

(* _BaseV6._ip_int_from_string does not raise *)
Definition ipv6_int_from_string_ok (s : bytes) : bool :=
  match s with
  | [] => false
  | _ :: _ =>
      let parts := split_on b_colon s in
      if (List.length parts <? 3)%nat then false else
      let lastp := last parts [] in
      if has_byte ch_dot lastp
      then (if is_ip lastp then ipv6_parts_ok (removelast parts ++ [[ch_zero]; [ch_zero]]) else false)
      else ipv6_parts_ok parts
  end.

(* IPv6Address(s) does not raise: no slash, optional non-empty scope id without a percent sign *)
Definition ipv6address_ok (s : bytes) : bool :=
  if has_byte b_slash s then false else
  let '(addr, found, scope) := partition b_pct s in
  if found && (is_nil scope || has_byte b_pct scope) then false
  else ipv6_int_from_string_ok addr.

(* the IPvFuture test of _check_bracketed_host: a full match of  v, one or more hex digits, a dot,
   one or more characters other than a newline  (the argument starts with v) *)
Definition ipvfuture_ok (h : bytes) : bool :=
  match h with
  | [] => false
  | _ :: t =>
      let (hx, rest) := span_until (fun c => negb (is_hex c)) t in
      match rest with
      | c :: rest' => nonempty hx && (c =? ch_dot)%N && nonempty rest'
                      && forallb (fun c' => negb (c' =? b_nl)%N) rest'
      | [] => false
      end
  end.

(* _check_bracketed_host does not raise *)
Definition check_bracketed_host (h : bytes) : bool :=
  if startswith h [b_v] then ipvfuture_ok h
  else if is_ip h then false                 (* "An IPv4 address cannot be in brackets" *)
  else ipv6address_ok h.

(* netloc.partition("[")[2].partition("]")[0] *)
Definition bracketed_host (netloc : bytes) : bytes :=
  let '(_, _, after) := partition b_lbr netloc in
  let '(h, _, _) := partition b_rbr after in h.

Definition check_netloc (netloc : bytes) : res unit :=
  let ob := has_byte b_lbr netloc in
  let cb := has_byte b_rbr netloc in
  if (ob && negb cb) || (cb && negb ob) then Raise value_error
  else if ob && cb then (if check_bracketed_host (bracketed_host netloc) then Ok tt else Raise value_error)
  else Ok tt.

(* ---------- urlsplit ---------- *)
Record split_result := mkSplit {
  sr_scheme : bytes; sr_netloc : bytes; sr_path : bytes; sr_query : bytes; sr_fragment : bytes }.

Definition is_c0_or_space (c : N) : bool := (c <=? 32)%N.

Fixpoint lstrip_c0 (s : bytes) : bytes :=
  match s with
  | [] => []
  | c :: t => if is_c0_or_space c then lstrip_c0 t else s
  end.

Definition is_unsafe (c : N) : bool := (c =? 9)%N || (c =? 10)%N || (c =? 13)%N.
Definition remove_unsafe (s : bytes) : bytes := filter (fun c => negb (is_unsafe c)) s.

Definition scheme_char (c : N) : bool :=
  is_alnum_ascii c || (c =? 43)%N || (c =? 45)%N || (c =? 46)%N.

(* (scheme, rest of the url) *)
Definition split_scheme (url : bytes) : bytes * bytes :=
  let (pre, rest) := span_until (N.eqb b_colon) url in
  match pre, rest with
  | c0 :: _, _ :: after =>
      if is_alpha_ascii c0 && forallb scheme_char pre then (lower pre, after) else ([], url)
  | _, _ => ([], url)
  end.

Definition is_netloc_delim (c : N) : bool := (c =? b_slash)%N || (c =? b_qmark)%N || (c =? b_hash)%N.

(* Some (netloc, rest) when url starts with two slashes *)
Definition split_netloc (url : bytes) : option (bytes * bytes) :=
  match url with
  | c1 :: c2 :: t => if (c1 =? b_slash)%N && (c2 =? b_slash)%N then Some (span_until is_netloc_delim t) else None
  | _ => None
  end.

(* the cleaned text urlsplit works on *)
Definition clean_url (b : bytes) : bytes := remove_unsafe (lstrip_c0 b).

Definition urlsplit (b : bytes) : res split_result :=
  if negb (is_ascii b) then Raise unicode_decode_error else
  let url0 := clean_url b in
  let (scheme, url1) := split_scheme url0 in
  do nl <- match split_netloc url1 with
           | Some (netloc, rest) => do _ <- check_netloc netloc; Ok (netloc, rest)
           | None => Ok ([], url1)
           end;
  let '(netloc, url2) := nl in
  let '(url3, _, fragment) := partition b_hash url2 in
  let '(path, _, query) := partition b_qmark url3 in
  Ok (mkSplit scheme netloc path query fragment).

(* ---------- SplitResultBytes._hostinfo, .hostname, .port ---------- *)
Definition hostinfo (netloc : bytes) : bytes * option bytes :=
  let '(_, _, hi) := rpartition b_at netloc in
  let '(_, have_open_br, bracketed) := partition b_lbr hi in
  let '(hostname, port) :=
    if have_open_br then
      let '(h, _, p) := partition b_rbr bracketed in
      let '(_, _, p') := partition b_colon p in (h, p')
    else
      let '(h, _, p) := partition b_colon hi in (h, p) in
  (hostname, if nonempty port then Some port else None).

(* .hostname : None when empty; the part before a percent sign is lower-cased *)
Definition sr_hostname (r : split_result) : option bytes :=
  let h := fst (hostinfo (sr_netloc r)) in
  if nonempty h then
    let '(a, found, zone) := partition b_pct h in
    Some (lower a ++ (if found then [b_pct] else []) ++ zone)
  else None.

(* int() refuses more than 4300 digits (sys.int_max_str_digits) with ValueError *)
Definition int_max_str_digits : Z := 4300.

(* .port : ValueError unless ASCII digits with value <= 65535 *)
Definition sr_port (r : split_result) : res (option Z) :=
  match snd (hostinfo (sr_netloc r)) with
  | None => Ok None
  | Some p =>
      if negb (forallb is_digit_ascii p) then Raise value_error
      else if int_max_str_digits <? blen p then Raise value_error
      else let v := dec_value p in
           if 65535 <? v then Raise value_error else Ok (Some v)
  end.
