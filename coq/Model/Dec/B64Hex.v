(* xor_helper.py (get_xorkey, apply_xor_key), decoders/base64.py (find_atob, find_base64, find_Base64Decode,
   find_FromBase64String), decoders/hex.py (find_hex, find_hex_space, find_hex_comma, find_FromHexString) and
   decoders/powershell.py (find_powershell_bytes).  Definitions only; proofs are in Proofs/B64HexProofs.v.

   Every decoder is `finditer` followed by a little Python per match: [find_xxx_post data ms] is that Python,
   for an arbitrary list of matches, and [find_xxx data] runs the model of the regex engine first.
   Exceptions are the Python class names.  `except binascii.Error` catches only the label "Error";
   `except ValueError` catches "ValueError" and its subclass "UnicodeDecodeError". *)
From MD Require Import Lib.Base Model.Node Regex.Syntax Regex.Backtrack Generated.Regexes Model.Dec.ReLib.
From MD Require Import Model.Codec.Base64 Model.Codec.Hex Model.Codec.PyInt Model.Dec.XmlChr.

Definition type_error : label := L"TypeError".
Definition unicode_decode_error : label := L"UnicodeDecodeError".
Definition zero_division_error : label := L"ZeroDivisionError".
Definition binascii_error : label := L"Error".           (* binascii.Error, = b64_error = hex_error *)
Definition py_value_error : label := L"ValueError".      (* = PyInt.value_error = Hex.value_error *)

(* match.group(g) used as a bytes argument: a group that did not participate is None, and every use below
   (a2b_base64(None), unhexlify(None), re.sub(.., None), None.split) raises TypeError *)
Definition group_arg (data : bytes) (m : mtch) (g : nat) : res bytes :=
  if participates m g then Ok (group data m g) else Raise type_error.

(* out.append(x) when x was produced, `continue` otherwise *)
Definition cons_opt {A} (o : option A) (l : list A) : list A :=
  match o with Some a => a :: l | None => l end.

(* ------------------------------------------------------------------ *)
(* xor_helper.py                                                       *)
(* ------------------------------------------------------------------ *)

(* the part of get_xorkey after re.search: int(xorkey.group(1)) or None *)
Definition get_xorkey_of (data : bytes) (o : option mtch) : res (option Z) :=
  match o with
  | None => Ok None
  | Some m => do t <- group_arg data m 1; do k <- int_of_bytes 10 t; Ok (Some k)
  end.

Definition get_xorkey (data : bytes) : res (option Z) :=
  do o <- re_search RE_xor_helper_XOR_RE NG_xor_helper_XOR_RE data; get_xorkey_of data o.

(* `if xorkey:` - None and 0 are both falsy *)
Definition truthy_key (o : option Z) : option Z :=
  match o with
  | Some k => if k =? 0 then None else Some k
  | None => None
  end.

(* bytes(b ^ xorkey for b in data): Python ints, so a negative key gives negative items and ValueError *)
Definition xor_bytes (key : Z) (data : bytes) : res bytes :=
  mapM (fun b => byte_of_int (Z.lxor (Z.of_N b) key)) data.

(* apply_xor_key(xorkey, data, node, new_node_type); the node is mutated in place in Python, here the new node is returned.
   `end=len(data)` is evaluated after `data` was rebound to the xored bytes. *)
Definition apply_xor_key (key : Z) (data : bytes) (nd : node) (ty : label) : res node :=
  if 255 <? key then Ok nd
  else
    do x <- xor_bytes key data;
    Ok (set_kids nd (n_kids nd ++ [Node ty x (L"cipher.xor" ++ str_of_Z key) 0 (blen x) []])).

(* `if xorkey: node = apply_xor_key(xorkey, value, node, ty)` *)
Definition maybe_xor (key : option Z) (value : bytes) (nd : node) (ty : label) : res node :=
  match truthy_key key with
  | Some k => apply_xor_key k value nd ty
  | None => Ok nd
  end.

(* ------------------------------------------------------------------ *)
(* decoders/base64.py                                                  *)
(* ------------------------------------------------------------------ *)

(* Tie: no generated constant is available for MIN_B64_CHARS (Generated/Consts.v does not export it);
   the main developer ties this definition to the source. *)
Definition MIN_B64_CHARS : Z := 6.

Definition POWERSHELL_BYTES_TYPE : label := L"powershell.bytes".
Definition ENC_B64 : label := L"encoding.base64".

(* try: binascii.a2b_base64(t)  except binascii.Error: (nothing) *)
Definition try_a2b (t : bytes) : res (option bytes) :=
  match a2b_base64 t with
  | Ok b => Ok (Some b)
  | Raise e => if beqb e binascii_error then Ok None else Raise e
  | Hang => Hang
  end.

(* the common loop of find_atob and find_Base64Decode:
     try: b64 = a2b_base64(match.group(g)); out.append(Node(ty, b64, "encoding.base64", *match.span()))
     except binascii.Error: continue *)
Fixpoint b64_call_post (ty : label) (g : nat) (data : bytes) (ms : list mtch) : res (list node) :=
  match ms with
  | [] => Ok []
  | m :: rest =>
      do t <- group_arg data m g;
      do o <- try_a2b t;
      do out <- b64_call_post ty g data rest;
      Ok (cons_opt (option_map (fun b => Node ty b ENC_B64 (m_start m 0) (m_end m 0) []) o) out)
  end.

Definition find_atob_post : bytes -> list mtch -> res (list node) := b64_call_post (L"javascript.string") 1.
Definition find_atob (data : bytes) : res (list node) :=
  do ms <- fi RE_base64_ATOB_RE NG_base64_ATOB_RE data; find_atob_post data ms.

Definition find_Base64Decode_post : bytes -> list mtch -> res (list node) := b64_call_post (L"vba.string") 1.
Definition find_Base64Decode (data : bytes) : res (list node) :=
  do ms <- fi RE_base64_BASE64DECODE_RE NG_base64_BASE64DECODE_RE data; find_Base64Decode_post data ms.

(* find_FromBase64String: the xor key is looked up once, on the whole data, before the loop.  apply_xor_key is
   inside the try block, but it cannot raise binascii.Error, so its exceptions escape. *)
Fixpoint find_FromBase64String_post (xorkey : option Z) (data : bytes) (ms : list mtch) : res (list node) :=
  match ms with
  | [] => Ok []
  | m :: rest =>
      do t <- group_arg data m 2;
      do o <- try_a2b t;
      do hd <- match o with
               | None => Ok None
               | Some b64 =>
                   do nd <- maybe_xor xorkey b64
                              (Node POWERSHELL_BYTES_TYPE b64 ENC_B64 (m_start m 0) (m_end m 0) [])
                              POWERSHELL_BYTES_TYPE;
                   Ok (Some nd)
               end;
      do out <- find_FromBase64String_post xorkey data rest;
      Ok (cons_opt hd out)
  end.

Definition find_FromBase64String (data : bytes) : res (list node) :=
  do xorkey <- get_xorkey data;
  do ms <- fi RE_base64_FROMB64STRING_RE NG_base64_FROMB64STRING_RE data;
  find_FromBase64String_post xorkey data ms.

(* --- find_base64 --- *)

Definition B64_MARKER : bytes := [60; 0; 32; 32; 0]%N.     (* "<", NUL, two spaces, NUL *)

(* re.sub(HTML_ESCAPE_RE, b"", text).replace(LF, b"").replace(CR, b"").replace(marker, b"") *)
Definition b64_clean (t : bytes) : res bytes :=
  do s <- re_sub_const RE_base64_HTML_ESCAPE_RE NG_base64_HTML_ESCAPE_RE [] t;
  Ok (replace (replace (replace s [10%N] []) [13%N] []) B64_MARKER []).

(* len(set(s)) *)
Fixpoint distinct (l : bytes) : bytes :=
  match l with
  | [] => []
  | c :: r => if existsb (N.eqb c) r then distinct r else c :: distinct r
  end.
Definition n_distinct (l : bytes) : Z := blen (distinct l).

(* s.count(one byte) *)
Definition count_byte (c : N) (s : bytes) : Z := blen (filter (N.eqb c) s).

(* The filters of find_base64 in source order; Ok true = the decode is attempted.
   The float test  count / len > 3 / 32  is modelled with integers as  32 * count > 3 * len : 3/32 is a binary
   fraction and count/len is correctly rounded, so the two agree whenever len < 2^52.  The division would raise
   ZeroDivisionError on an empty text; the model keeps that case (it is unreachable: see b64_accept_no_raise). *)
Definition b64_accept (s : bytes) : res bool :=
  if negb (blen s mod 4 =? 0) || (n_distinct s <=? MIN_B64_CHARS) then Ok false
  else
    do h <- re_fullmatch RE_base64_HEX_RE s;
    if h then Ok false
    else
      do c <- re_fullmatch RE_base64_CAMEL_RE s;
      if c then Ok false
      else if blen s =? 0 then Raise zero_division_error
      else if 3 * blen s <? 32 * count_byte 47%N s then Ok false
      else Ok true.

Fixpoint find_base64_post (data : bytes) (ms : list mtch) : res (list node) :=
  match ms with
  | [] => Ok []
  | m :: rest =>
      do t <- group_arg data m 0;
      do s <- b64_clean t;
      do ok <- b64_accept s;
      do o <- (if ok then try_a2b s else Ok None);
      do out <- find_base64_post data rest;
      Ok (cons_opt (option_map (fun b => Node [] b ENC_B64 (m_start m 0) (m_end m 0) []) o) out)
  end.

Definition find_base64 (data : bytes) : res (list node) :=
  do ms <- fi RE_base64_BASE64_RE NG_base64_BASE64_RE data; find_base64_post data ms.

(* ------------------------------------------------------------------ *)
(* decoders/hex.py                                                     *)
(* ------------------------------------------------------------------ *)

Definition DEC_HEX : label := L"decoded.hexadecimal".
Definition ENC_HEX : label := L"encoding.hexidecimal".     (* spelled like this in the source *)

(* the three list comprehensions: an exception of unhexlify is NOT caught and aborts the decoder.
   [prep] is what is applied to match.group(0) before unhexlify. *)
Definition hex_list_post (prep : bytes -> res bytes) (data : bytes) (ms : list mtch) : res (list node) :=
  mapM (fun m =>
          do t <- group_arg data m 0;
          do s <- prep t;
          do v <- unhexlify s;
          Ok (Node [] v DEC_HEX (m_start m 0) (m_end m 0) [])) ms.

Definition find_hex_post : bytes -> list mtch -> res (list node) := hex_list_post (fun t => Ok t).
Definition find_hex (data : bytes) : res (list node) :=
  do ms <- fi RE_hex_HEX_RE NG_hex_HEX_RE data; find_hex_post data ms.

Definition find_hex_space_post : bytes -> list mtch -> res (list node) :=
  hex_list_post (re_sub_const RE_hex_find_hex_space_0 NG_hex_find_hex_space_0 []).
Definition find_hex_space (data : bytes) : res (list node) :=
  do ms <- fi RE_hex_HEX_SPACE_RE NG_hex_HEX_SPACE_RE data; find_hex_space_post data ms.

Definition find_hex_comma_post : bytes -> list mtch -> res (list node) :=
  hex_list_post (re_sub_const RE_hex_find_hex_comma_0 NG_hex_find_hex_comma_0 []).
Definition find_hex_comma (data : bytes) : res (list node) :=
  do ms <- fi RE_hex_HEX_COMMA_RE NG_hex_HEX_COMMA_RE data; find_hex_comma_post data ms.

Definition try_unhexlify (t : bytes) : res (option bytes) :=
  match unhexlify t with
  | Ok b => Ok (Some b)
  | Raise e => if beqb e binascii_error then Ok None else Raise e
  | Hang => Hang
  end.

Fixpoint find_FromHexString_post (xorkey : option Z) (data : bytes) (ms : list mtch) : res (list node) :=
  match ms with
  | [] => Ok []
  | m :: rest =>
      do t <- group_arg data m 2;
      do o <- try_unhexlify t;
      do hd <- match o with
               | None => Ok None
               | Some unhex =>
                   do nd <- maybe_xor xorkey unhex
                              (Node POWERSHELL_BYTES_TYPE unhex ENC_HEX (m_start m 0) (m_end m 0) [])
                              POWERSHELL_BYTES_TYPE;
                   Ok (Some nd)
               end;
      do out <- find_FromHexString_post xorkey data rest;
      Ok (cons_opt hd out)
  end.

Definition find_FromHexString (data : bytes) : res (list node) :=
  do xorkey <- get_xorkey data;
  do ms <- fi RE_hex_FROMHEXSTRING_RE NG_hex_FROMHEXSTRING_RE data;
  find_FromHexString_post xorkey data ms.

(* ------------------------------------------------------------------ *)
(* decoders/powershell.py                                              *)
(* ------------------------------------------------------------------ *)

(* bytes.strip(): ASCII whitespace 9..13 and 32 on both sides *)
Definition strip (b : bytes) : bytes := rstrip_space (lstrip_space b).

(* stripped.decode(): ASCII text is unchanged; a byte >= 128 is reported as UnicodeDecodeError.
   (Deviation, unreachable through the pattern: valid multi-byte UTF-8 would decode, and int() would then
   raise ValueError - caught by the same handler - unless the text consists of non-ASCII Unicode digits.) *)
Definition decode_ascii (b : bytes) : res (list N) :=
  if forallb (fun c => (c <? 128)%N) b then Ok b else Raise unicode_decode_error.

(* On ASCII text int(str, base) is int(bytes, base) (CPython parses the ASCII buffer with the same
   PyLong_FromString; in particular the separators 28..31 are NOT stripped although str.isspace holds for them). *)
Definition decode_byte (tok : bytes) : res Z :=
  let stripped := strip tok in
  do u <- decode_ascii stripped;
  int_of_bytes (if startswith stripped (L"0x") then 16 else 10) u.

(* try: bytes(decode_byte(byte) for byte in text.split(b","))  except ValueError: continue
   The generator is consumed lazily: token by token, conversion then range check. *)
Definition ps_binary (t : bytes) : res (option bytes) :=
  match mapM (fun tok => do z <- decode_byte tok; byte_of_int z) (split_on 44%N t) with
  | Ok b => Ok (Some b)
  | Raise e => if beqb e py_value_error || beqb e unicode_decode_error then Ok None else Raise e
  | Hang => Hang
  end.

Definition contains (d p : bytes) : bool := 0 <=? find d p.

Section Powershell.
  (* The key-guessing tool multidecoder.xortool.xortool is NOT modelled: [xortool binary] stands for the list
     `xortool(binary, [0])` of candidate plaintexts, assumed to be a total function of the ciphertext
     (it is deterministic Python without I/O; exceptions it might raise are outside this model). *)
  Variable xortool : bytes -> list bytes.

  (* get_xorkey(data) is evaluated again for every match that produced a node, as in the source *)
  Fixpoint find_powershell_bytes_post (data : bytes) (ms : list mtch) : res (list node) :=
    match ms with
    | [] => Ok []
    | m :: rest =>
        do t <- group_arg data m 0;
        do ob <- ps_binary t;
        do hd <- match ob with
                 | None => Ok None
                 | Some binary =>
                     let nd := Node POWERSHELL_BYTES_TYPE binary [] (m_start m 0) (m_end m 0) [] in
                     do key <- get_xorkey data;
                     match truthy_key key with
                     | Some k => do nd' <- apply_xor_key k binary nd POWERSHELL_BYTES_TYPE; Ok (Some nd')
                     | None =>
                         if contains data (L"-bxor") then
                           match xortool binary with
                           | p :: _ =>
                               Ok (Some (set_kids nd [Node POWERSHELL_BYTES_TYPE p (L"cipher.multibyte_xor")
                                                           0 (blen binary) []]))
                           | [] => Ok (Some nd)
                           end
                         else Ok (Some nd)
                     end
                 end;
        do out <- find_powershell_bytes_post data rest;
        Ok (cons_opt hd out)
    end.

  Definition find_powershell_bytes (data : bytes) : res (list node) :=
    do ms <- fi RE_powershell_POWERSHELL_BYTES_RE NG_powershell_POWERSHELL_BYTES_RE data;
    find_powershell_bytes_post data ms.
End Powershell.
