(* URL path normalisation (decoders/network.py: normalize_path) and
   urllib.parse.unquote_to_bytes on bytes (Python 3.12.1).  Definitions only. *)
From MD Require Import Lib.Base Model.Dec.Ip.

Definition ch_slash : N := 47%N.
Definition ch_percent : N := 37%N.

(* ---------- urllib.parse.unquote_to_bytes(bytes) ----------
   Python splits on "%" and looks the first two bytes of every later piece up in a table
   whose keys are the 22*22 pairs of hex digits; a failed lookup re-emits "%" + piece.
   A key never contains "%", so this is a left-to-right scan. *)
Definition hex_byte (h1 h2 : N) : option N :=
  match hex_val h1, hex_val h2 with
  | Some a, Some b => Some (Z.to_N (16 * a + b))
  | _, _ => None
  end.

Fixpoint unquote_to_bytes (s : bytes) : bytes :=
  match s with
  | [] => []
  | c :: t =>
      if (c =? ch_percent)%N then
        match t with
        | h1 :: h2 :: rest =>
            match hex_byte h1 h2 with
            | Some b => b :: unquote_to_bytes rest
            | None => c :: unquote_to_bytes t
            end
        | _ => c :: unquote_to_bytes t
        end
      else c :: unquote_to_bytes t
  end.

(* bytes.replace(b"/", b"%2F") *)
Definition pct_2f : bytes := L"%2F".
Definition replace_slash (s : bytes) : bytes :=
  flat_map (fun c => if (c =? ch_slash)%N then pct_2f else [c]) s.

Definition decode_segment (seg : bytes) : bytes := replace_slash (unquote_to_bytes seg).

Definition seg_dot : bytes := [ch_dot].
Definition seg_dotdot : bytes := [ch_dot; ch_dot].
Definition is_dot (s : bytes) : bool := beqb s seg_dot.
Definition is_dotdot (s : bytes) : bool := beqb s seg_dotdot.

(* The dot-segment loop.  The Python list [dotless] is kept as a stack (head = last element):
   dotless = rev stk, append = cons, pop = tl.
   "dotless and dotless != [b'']"  <->  stk is neither [] nor [[]]. *)
Definition can_pop (stk : list bytes) : bool :=
  match stk with
  | [] => false
  | [[]] => false
  | _ => true
  end.

Definition dot_step (stk : list bytes) (seg : bytes) : list bytes :=
  if is_dot seg then stk
  else if is_dotdot seg then (if can_pop stk then tl stk else stk)
  else seg :: stk.

Definition dot_loop (segments : list bytes) : list bytes := rev (fold_left dot_step segments []).

Definition dotpath : label := L"url.dotpath".

Definition path_segments (path : bytes) : list bytes := map decode_segment (split_on ch_slash path).

Definition normalize_path (path : bytes) : bytes * label :=
  let segments := path_segments path in
  let dotless := dot_loop segments in
  match dotless with
  | [[]] => ([ch_slash], dotpath)
  | _ => (join [ch_slash] dotless,
          if blen dotless <? blen segments then dotpath else [])
  end.

(* ---------- SPECIFICATION of dot-segment removal on decoded segment lists ----------
   "every '.' segment dropped and every '..' segment cancelling the nearest remaining
   segment before it but never the root, so an absolute path stays absolute".
   Written right to left: [cancel l] returns the surviving segments of l and the number of
   '..' segments of l that found nothing to cancel inside l; an ordinary segment survives
   iff no '..' to its right is still looking for a partner. *)
Fixpoint cancel (l : list bytes) : list bytes * nat :=
  match l with
  | [] => ([], O)
  | s :: l' =>
      let (kept, pending) := cancel l' in
      if is_dot s then (kept, pending)
      else if is_dotdot s then (kept, S pending)
      else match pending with
           | O => (s :: kept, O)
           | S p => (kept, p)
           end
  end.

(* the root of an absolute path is its leading empty segment ("/a".split("/") = ["", "a"]) *)
Definition remove_dot_segments_spec (segs : list bytes) : list bytes :=
  match segs with
  | [] :: rest => [] :: fst (cancel rest)
  | _ => fst (cancel segs)
  end.

(* how a segment list is written back: the list [""] of an absolute path is the root "/" *)
Definition render_segments (segs : list bytes) : bytes :=
  match segs with
  | [[]] => [ch_slash]
  | _ => join [ch_slash] segs
  end.
