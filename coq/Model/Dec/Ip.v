(* IPv4 normalisation (decoders/network.py: is_ip, parse_ip) together with the library
   routines it relies on: socket.inet_aton (glibc 2.36 inet_aton_end + strtoul base 0),
   ipaddress.IPv4Address(str) and IPv4Address(packed).compressed (Python 3.12.1).
   Definitions only; proofs are in Proofs/IpProofs.v. *)
From MD Require Import Lib.Base Model.Node.

(* ---------- bytes.split(sep) for a one-byte separator, sep.join(list) ---------- *)
Fixpoint split_on (sep : N) (s : bytes) : list bytes :=
  match s with
  | [] => [[]]
  | c :: s' =>
      if (c =? sep)%N then [] :: split_on sep s'
      else match split_on sep s' with
           | x :: r => (c :: x) :: r
           | [] => [[c]]
           end
  end.

Fixpoint join (sep : bytes) (l : list bytes) : bytes :=
  match l with
  | [] => []
  | x :: l' => match l' with [] => x | _ :: _ => x ++ sep ++ join sep l' end
  end.

Definition ch_dot : N := 46%N.
Definition ch_zero : N := 48%N.

(* ---------- str(int) for one octet, dotted quad ---------- *)
Definition digit_char (d : Z) : N := Z.to_N (48 + d).

Definition dec_octet (n : Z) : bytes :=
  if n <? 10 then [digit_char n]
  else if n <? 100 then [digit_char (n / 10); digit_char (n mod 10)]
  else [digit_char (n / 100); digit_char (n / 10 mod 10); digit_char (n mod 10)].

Definition quad (a b c d : Z) : bytes :=
  dec_octet a ++ ch_dot :: dec_octet b ++ ch_dot :: dec_octet c ++ ch_dot :: dec_octet d.

(* IPv4Address(n.to_bytes(4,'big')).compressed.encode() = '.'.join(map(str, packed)) *)
Definition ipv4_compressed (n : Z) : bytes :=
  quad (n / 16777216 mod 256) (n / 65536 mod 256) (n / 256 mod 256) (n mod 256).

Definition octets_value (a b c d : Z) : Z := a * 16777216 + b * 65536 + c * 256 + d.

(* ---------- SPECIFICATION: canonical dotted quad ----------
   four parts separated by single dots, each part being the decimal rendering str(n) of
   some n in 0..255 (hence no leading zeros, no sign, no other characters). *)
Definition octet_range : list Z := map Z.of_nat (seq 0 256).
Definition canonical_octet (o : bytes) : bool := existsb (fun n => beqb o (dec_octet n)) octet_range.
Definition canonical_quad (s : bytes) : bool :=
  match split_on ch_dot s with
  | [a; b; c; d] => canonical_octet a && canonical_octet b && canonical_octet c && canonical_octet d
  | _ => false
  end.

(* ---------- ipaddress.IPv4Address(str) : is_ip ---------- *)
Definition is_ascii (s : bytes) : bool := forallb (fun c => (c <? 128)%N) s.

(* int(s, 10) on ASCII digits *)
Definition dec_value (s : bytes) : Z :=
  fold_left (fun acc c => acc * 10 + (Z.of_N c - 48)) s 0.

(* IPv4Address._parse_octet: None = ValueError *)
Definition parse_octet (o : bytes) : option Z :=
  match o with
  | [] => None
  | c0 :: _ =>
      if negb (forallb is_digit_ascii o) then None
      else if 3 <? blen o then None
      else if negb (beqb o [ch_zero]) && (c0 =? ch_zero)%N then None
      else let v := dec_value o in
           if 255 <? v then None else Some v
  end.

Definition octet_ok (o : bytes) : bool := match parse_octet o with Some _ => true | None => false end.

(* network.is_ip: ip.decode("ascii") then IPv4Address(str) *)
Definition is_ip (ip : bytes) : bool :=
  is_ascii ip &&
  match split_on ch_dot ip with
  | [a; b; c; d] => octet_ok a && octet_ok b && octet_ok c && octet_ok d
  | _ => false
  end.

(* ---------- strtoul(cp, &endp, 0) when *cp is a digit (no white space / sign to skip) ---------- *)
Definition hex_val (c : N) : option Z :=
  if is_digit_ascii c then Some (Z.of_N c - 48)
  else if (97 <=? c)%N && (c <=? 102)%N then Some (Z.of_N c - 87)
  else if (65 <=? c)%N && (c <=? 70)%N then Some (Z.of_N c - 55)
  else None.

Definition digit_val (base : Z) (c : N) : option Z :=
  match hex_val c with
  | Some d => if d <? base then Some d else None
  | None => None
  end.

(* consume the digits of the base; the value is kept unbounded (the caller rejects everything
   above 0xffffffff, which covers both ULONG_MAX/ERANGE and 32 < bits <= 64) *)
Fixpoint scan_digits (base : Z) (s : bytes) (acc : Z) : Z * bytes :=
  match s with
  | [] => (acc, [])
  | c :: s' =>
      match digit_val base c with
      | Some d => scan_digits base s' (acc * base + d)
      | None => (acc, s)
      end
  end.

Definition is_x (c : N) : bool := (c =? 120)%N || (c =? 88)%N.
Definition is_hex (c : N) : bool := match hex_val c with Some _ => true | None => false end.

(* base 0: "0x"/"0X" + at least one hex digit -> 16 (a bare "0x" converts the "0" only and
   leaves endp on the x), leading "0" -> 8, otherwise 10 *)
Definition strtoul0 (s : bytes) : Z * bytes :=
  match s with
  | c0 :: t0 =>
      if (c0 =? ch_zero)%N then
        match t0 with
        | c1 :: t1 =>
            if is_x c1 then
              match t1 with
              | c2 :: _ => if is_hex c2 then scan_digits 16 t1 0 else scan_digits 8 s 0
              | [] => scan_digits 8 s 0
              end
            else scan_digits 8 s 0
        | [] => scan_digits 8 s 0
        end
      else scan_digits 10 s 0
  | [] => (0, [])
  end.

(* ---------- glibc inet_aton_end ---------- *)
Definition os_error : label := L"OSError".
Definition value_error : label := L"ValueError".

Definition max_last (stored : nat) : Z :=
  match stored with
  | O => 4294967295
  | S O => 16777215
  | S (S O) => 65535
  | _ => 255
  end.

(* res.word | htonl(val) with res.bytes = stored ++ zeros, as a host integer, big endian *)
Definition pack (stored : list Z) (v : Z) : Z :=
  Z.lor (Z.lor (Z.lor (Z.shiftl (nth 0 stored 0) 24) (Z.shiftl (nth 1 stored 0) 16))
               (Z.shiftl (nth 2 stored 0) 8)) v.

(* trailing characters: end of string or one ASCII white-space character (nothing after it is examined) *)
Definition trailing_ok (rest : bytes) : bool :=
  match rest with
  | [] => true
  | c :: _ => (c <? 128)%N && is_space_ascii c
  end.

Definition starts_with_digit (s : bytes) : bool :=
  match s with c :: _ => is_digit_ascii c | [] => false end.

(* [room] = number of bytes that may still be stored before the last part (pp <= res.bytes + 2) *)
Fixpoint aton_parts (room : nat) (s : bytes) (stored : list Z) : res Z :=
  if negb (starts_with_digit s) then Raise os_error else
  let '(v, rest) := strtoul0 s in
  if 4294967295 <? v then Raise os_error else
  match rest with
  | c :: rest' =>
      if (c =? ch_dot)%N then
        match room with
        | S room' => if 255 <? v then Raise os_error else aton_parts room' rest' (stored ++ [v])
        | O => Raise os_error
        end
      else if negb (trailing_ok rest) then Raise os_error
      else if max_last (List.length stored) <? v then Raise os_error
      else Ok (pack stored v)
  | [] =>
      if max_last (List.length stored) <? v then Raise os_error else Ok (pack stored v)
  end.

(* socket.inet_aton(text) where [s] is the UTF-8 encoding of text (what the "s" argument
   converter hands to C): embedded NUL -> ValueError, otherwise glibc; the packed result is
   returned as the integer int.from_bytes(packed, 'big') *)
Definition inet_aton (s : bytes) : res Z :=
  if existsb (fun c => (c =? 0)%N) s then Raise value_error
  else aton_parts 3 s [].

(* ---------- bytes.decode() (UTF-8, strict) succeeds ---------- *)
Definition cont (c : N) : bool := (128 <=? c)%N && (c <=? 191)%N.
Definition in_rng (lo hi c : N) : bool := (lo <=? c)%N && (c <=? hi)%N.

Fixpoint utf8_valid (s : bytes) : bool :=
  match s with
  | [] => true
  | c0 :: t0 =>
      if (c0 <? 128)%N then utf8_valid t0
      else match t0 with
      | [] => false
      | c1 :: t1 =>
          if in_rng 194 223 c0 then cont c1 && utf8_valid t1
          else match t1 with
          | [] => false
          | c2 :: t2 =>
              if in_rng 224 239 c0 then
                (if (c0 =? 224)%N then in_rng 160 191 c1
                 else if (c0 =? 237)%N then in_rng 128 159 c1
                 else cont c1) && cont c2 && utf8_valid t2
              else match t2 with
              | [] => false
              | c3 :: t3 =>
                  if in_rng 240 244 c0 then
                    (if (c0 =? 240)%N then in_rng 144 191 c1
                     else if (c0 =? 244)%N then in_rng 128 143 c1
                     else cont c1) && cont c2 && cont c3 && utf8_valid t3
                  else false
              end
          end
      end
  end.

(* ---------- network.parse_ip : (value, obfuscation, end); start is 0 ---------- *)
Definition ip_obf : label := L"ip_obfuscation".

Definition parse_ip (ip : bytes) : res (bytes * label * Z) :=
  if negb (utf8_valid ip) then Raise value_error          (* UnicodeDecodeError -> ValueError *)
  else match inet_aton ip with
       | Ok n =>
           let compressed := ipv4_compressed n in
           Ok (compressed, if beqb compressed ip then [] else ip_obf, blen ip)
       | Raise _ => Raise value_error                      (* OSError -> ValueError; NUL: ValueError propagates *)
       | Hang => Hang
       end.

(* network.parse_ip as a Node (start 0, no children) *)
Definition ip_type : label := L"network.ip".
Definition parse_ip_node (ip : bytes) : res node :=
  do r <- parse_ip ip;
  let '(v, o, e) := r in Ok (Node ip_type v o 0 e []).
