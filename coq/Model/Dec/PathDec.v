(* decoders/filename.py (find_executable_name, find_library), decoders/path.py (find_path,
   find_windows_path) and decoders/pe_file.py (find_pe_files).  Definitions only; proofs are in
   Proofs/PathDecProofs.v.  The two things that are not modelled are arguments of the model functions:
   network.is_domain (a table of top level domains) and pe_file.pe_size (the pefile library). *)
From MD Require Import Lib.Base Model.Node Regex.Syntax Regex.Backtrack Model.Dec.ReLib
  Model.Dec.Ip Model.Dec.NtPath Generated.Regexes.

(* ---------- hit.regex_hits(label, regex, data) with group = 0 ---------- *)
Definition regex_hits_post (lbl : label) (data : bytes) (ms : list mtch) : res (list node) :=
  Ok (map (fun m => match_to_hit lbl data m 0) ms).

(* ---------- filename.py ---------- *)
Definition EXECUTABLE_TYPE : label := L"executable.filename".
Definition LIBRARY_TYPE : label := L"executable.library.filename".
Definition FILENAME_TYPE : label := L"filename".
Definition EXT_DLL : bytes := [46; 100; 108; 108]%N.
Definition EXT_EXE : bytes := [46; 101; 120; 101]%N.

(* EXT_MAP.get(ext, "filename") *)
Definition ext_map (ext : bytes) : label :=
  if beqb ext EXT_DLL then LIBRARY_TYPE
  else if beqb ext EXT_EXE then EXECUTABLE_TYPE
  else FILENAME_TYPE.

Definition find_executable_name_post (data : bytes) (ms : list mtch) : res (list node) :=
  regex_hits_post EXECUTABLE_TYPE data ms.
Definition find_executable_name (data : bytes) : res (list node) :=
  do ms <- fi RE_filename_EXECUTABLE_RE NG_filename_EXECUTABLE_RE data; find_executable_name_post data ms.

Definition find_library_post (data : bytes) (ms : list mtch) : res (list node) :=
  regex_hits_post LIBRARY_TYPE data ms.
Definition find_library (data : bytes) : res (list node) :=
  do ms <- fi RE_filename_LIBRARY_RE NG_filename_LIBRARY_RE data; find_library_post data ms.

(* ---------- path.py : find_path ---------- *)
Definition PATH_TYPE : label := L"path".
Definition find_path_post (data : bytes) (ms : list mtch) : res (list node) :=
  regex_hits_post PATH_TYPE data ms.
Definition find_path (data : bytes) : res (list node) :=
  do ms <- fi RE_path_PATH_RE NG_path_PATH_RE data; find_path_post data ms.

(* ---------- path.py : find_windows_path ---------- *)
Definition DEVICE_PATH_TYPE : label := L"windows.device.path".
Definition UNC_PATH_TYPE : label := L"windows.unc.path".
Definition WINDOWS_PATH_TYPE : label := L"windows.path".
Definition DOTPATH_OBF : label := L"windows.dotpath".
Definition DOMAIN_TYPE : label := L"network.domain".
Definition AT : N := 64%N.
Definition PFX_UNC : bytes := [SEP; SEP].           (* two backslashes *)
Definition PFX_DEV_DOT : bytes := [SEP; SEP; DOT; SEP].  (* two backslashes, a dot, a backslash *)
Definition PFX_DEV_QM : bytes := [SEP; SEP; 63%N; SEP].  (* two backslashes, a question mark, a backslash *)
Definition UNC_NAME : bytes := [85; 78; 67]%N.      (* the word UNC *)

(* segments[i] for i >= 0 *)
Definition seg_at (segments : list bytes) (i : nat) : res bytes :=
  match nth_error segments i with Some s => Ok s | None => Raise index_err end.

(* segments[-1] *)
Definition seg_last (segments : list bytes) : res bytes :=
  match rev segments with s :: _ => Ok s | [] => Raise index_err end.

(* seg.split(b"@", maxsplit=1)[0] *)
Definition before_at (seg : bytes) : bytes :=
  match split_on AT seg with x :: _ => x | [] => [] end.

(* try: children.append(parse_ip(hostname).shift(off))
   except ValueError: if is_domain(hostname): children.append(Node("network.domain", hostname, "", off, off + len(hostname))) *)
Definition host_children (is_domain : bytes -> bool) (hostname : bytes) (off : Z) : res (list node) :=
  match parse_ip_node hostname with
  | Ok n => Ok [shift n off]
  | Raise e =>
      if beqb e value_error then
        if is_domain hostname then Ok [Node DOMAIN_TYPE hostname [] off (off + blen hostname) []] else Ok []
      else Raise e
  | Hang => Hang
  end.

Definition windows_path_node (is_domain : bytes -> bool) (data : bytes) (m : mtch) : res node :=
  let text := group data m 0 in
  let length := blen text in
  let path := ntpath_normpath text in
  let obfuscation := if blen path <? length then DOTPATH_OBF else [] in
  let segments := split_on SEP path in
  do tc <-
    (if startswith path PFX_DEV_DOT || startswith path PFX_DEV_QM then
       do s3 <- seg_at segments 3;
       do ch <- (if beqb (upper s3) UNC_NAME then
                   do s4 <- seg_at segments 4; host_children is_domain (before_at s4) 8
                 else Ok []);
       Ok (DEVICE_PATH_TYPE, ch)
     else if startswith path PFX_UNC then
       do s2 <- seg_at segments 2;
       do ch <- host_children is_domain (before_at s2) 2;
       Ok (UNC_PATH_TYPE, ch)
     else Ok (WINDOWS_PATH_TYPE, []));
  let '(path_type, children) := tc in
  do filename <- seg_last segments;
  let '(_, extension) := ntpath_splitext filename in
  let children :=
    match extension with
    | [] => children
    | _ :: _ => children ++ [Node (ext_map (lower extension)) filename []
                                  (blen path - blen filename) (blen path) []]
    end in
  Ok (Node path_type path obfuscation (m_start m 0) (m_end m 0) children).

Definition find_windows_path_post (is_domain : bytes -> bool) (data : bytes) (ms : list mtch) : res (list node) :=
  mapM (windows_path_node is_domain data) ms.
Definition find_windows_path (is_domain : bytes -> bool) (data : bytes) : res (list node) :=
  do ms <- fi RE_path_WINDOWS_PATH_RE NG_path_WINDOWS_PATH_RE data; find_windows_path_post is_domain data ms.

(* ---------- pe_file.py : find_pe_files ---------- *)
Definition PE_TYPE : label := L"pe_file".
Definition E_ELFANEW_OFFSET : Z := 60.
Definition E_ELFANEW_SIZE : Z := 4.
Definition PE_SIG : bytes := [80; 69; 0; 0]%N.
Definition MZ_SIG : bytes := [77; 90]%N.
Definition struct_error : label := L"error".   (* struct.error: the class is named error *)

Definition byte_at (data : bytes) (i : Z) : Z := Z.of_N (nth (Z.to_nat i) data 0%N).

(* little-endian unsigned 32-bit value of data[loc:loc+4] for 0 <= loc, loc + 4 <= len data *)
Definition le32_at (data : bytes) (loc : Z) : Z :=
  byte_at data loc + 256 * byte_at data (loc + 1) + 65536 * byte_at data (loc + 2)
  + 16777216 * byte_at data (loc + 3).

(* struct.unpack_from("<I", data, offset)[0], including the negative-offset rules of _struct.c *)
Definition unpack_from_le32 (data : bytes) (offset : Z) : res Z :=
  let n := blen data in
  if offset <? 0 then
    if 0 <? offset + 4 then Raise struct_error
    else if n + offset <? 0 then Raise struct_error
    else if n - (n + offset) <? 4 then Raise struct_error
    else Ok (le32_at data (n + offset))
  else if n - offset <? 4 then Raise struct_error
  else Ok (le32_at data offset).

(* the loop body: None = `continue` *)
Definition pe_node (pe_size : bytes -> Z) (data : bytes) (m : mtch) : res (option node) :=
  let len_data := blen data in
  let mz_offset := m_start m 0 in
  let e_elfanew_location := mz_offset + E_ELFANEW_OFFSET in
  if len_data <? e_elfanew_location + E_ELFANEW_SIZE then Ok None
  else
    do e_elfanew <- unpack_from_le32 data e_elfanew_location;
    let pe_offset := mz_offset + e_elfanew in
    if negb (beqb (slice data pe_offset (pe_offset + 4)) PE_SIG) then Ok None
    else
      let size := pe_size (slice_from data mz_offset) in
      if size =? 0 then Ok None
      else
        let en := Z.min (mz_offset + size) len_data in
        Ok (Some (Node PE_TYPE (slice data mz_offset en) [] mz_offset en [])).

Fixpoint find_pe_files_post (pe_size : bytes -> Z) (data : bytes) (ms : list mtch) : res (list node) :=
  match ms with
  | [] => Ok []
  | m :: rest =>
      do o <- pe_node pe_size data m;
      do ns <- find_pe_files_post pe_size data rest;
      Ok (match o with Some n => n :: ns | None => ns end)
  end.

Definition find_pe_files (pe_size : bytes -> Z) (data : bytes) : res (list node) :=
  do ms <- fi RE_pe_file_find_pe_files_0 NG_pe_file_find_pe_files_0 data; find_pe_files_post pe_size data ms.
