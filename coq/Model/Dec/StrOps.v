(* Concatenation / reversal / replacement decoders: hit.py find_and_deobfuscate, decoders/concat.py find_concat,
   decoders/reverse.py find_reverse, decoders/replace.py (four decoders), decoders/vba.py get_closing_brace,
   find_createobject, find_strreverse.
   Definitions only; proofs are in Proofs/StrOpsProofs.v.
   The regex terms are referred to by the names of Generated/Regexes.v only. *)
From MD Require Import Lib.Base Model.Node Regex.Syntax Regex.Backtrack Generated.Regexes Model.Dec.ReLib.
From MD Require Import Model.Dec.XmlChr Model.Dec.EscDec.

(* match.span(k) with the IndexError of a group number the pattern does not have *)
Definition span_req (m : mtch) (k : nat) : res (Z * Z) :=
  if (k <? List.length m)%nat then Ok (span m k) else Raise index_err.

(* ---------- hit.py find_and_deobfuscate ----------
   [ Node(label, *deobfuscation(match.group(deob_group)), *match.span(context_group)) for match in ... ]
   The callable receives None when the group did not participate; the two lambdas used in the library
   subscript their argument, hence TypeError. *)
Definition deob_node (lbl : label) (deob : bytes -> res (bytes * label)) (deob_group context_group : nat)
           (data : bytes) (m : mtch) : res node :=
  do g <- group_req type_error data m deob_group;
  do vo <- deob g;
  do se <- span_req m context_group;
  Ok (Node lbl (fst vo) (snd vo) (fst se) (snd se) []).

Definition find_and_deobfuscate_post (lbl : label) (deob : bytes -> res (bytes * label))
           (deob_group context_group : nat) (data : bytes) (ms : list mtch) : res (list node) :=
  mapM (deob_node lbl deob deob_group context_group data) ms.

Definition find_and_deobfuscate (lbl : label) (r : re) (ng : nat) (data : bytes)
           (deob : bytes -> res (bytes * label)) (deob_group context_group : nat) : res (list node) :=
  do ms <- fi r ng data; find_and_deobfuscate_post lbl deob deob_group context_group data ms.

(* ---------- extended slices with step -1 ----------
   PySlice_AdjustIndices for a negative step: a negative bound gets len added and is then clipped to -1,
   a bound >= len is clipped to len - 1. *)
Definition adj_neg_step (n i : Z) : Z :=
  if i <? 0 then (if i + n <? 0 then -1 else i + n) else (if n <=? i then n - 1 else i).

(* s[start:stop:-1] : the elements at indices start', start'-1, ..., stop'+1 (adjusted bounds) *)
Definition slice_rev (s : bytes) (start stop : Z) : bytes :=
  let n := blen s in
  let lo := adj_neg_step n start in
  let hi := adj_neg_step n stop in
  map (fun k => nth (Z.to_nat (lo - Z.of_nat k)) s 0%N) (seq 0 (Z.to_nat (lo - hi))).

(* s[-2:0:-1] *)
Definition rev_slice (s : bytes) : bytes := slice_rev s (-2) 0.

(* reverse.py:  find_and_deobfuscate("string", REVERSE_RE, data, lambda s: (s[-2:0:-1], "reverse"), 1) *)
Definition reverse_deob (s : bytes) : res (bytes * label) := Ok (rev_slice s, L"reverse").

Definition find_reverse_post (data : bytes) (ms : list mtch) : res (list node) :=
  find_and_deobfuscate_post (L"string") reverse_deob 1 0 data ms.

Definition find_reverse (data : bytes) : res (list node) :=
  find_and_deobfuscate (L"string") RE_reverse_REVERSE_RE NG_reverse_REVERSE_RE data reverse_deob 1 0.

(* vba.py:  find_and_deobfuscate("vba.string", STRREVERSE_RE, data, lambda s: (s[-2:0:-1], "vba.reverse"), 1) *)
Definition strreverse_deob (s : bytes) : res (bytes * label) := Ok (rev_slice s, L"vba.reverse").

Definition find_strreverse_post (data : bytes) (ms : list mtch) : res (list node) :=
  find_and_deobfuscate_post (L"vba.string") strreverse_deob 1 0 data ms.

Definition find_strreverse (data : bytes) : res (list node) :=
  find_and_deobfuscate (L"vba.string") RE_vba_STRREVERSE_RE NG_vba_STRREVERSE_RE data strreverse_deob 1 0.

(* ---------- concat.py ----------
   [ Node("string", re.sub(INNER, b"", match.group())[1:-1], "concatenation", match.start(), match.end()) ... ]
   INNER (quote, CONCAT_SPACER_RE, quote) is RE_concat_find_concat_0; it is run on the match TEXT, so the
   inner spans are relative to match.group(). *)
Definition concat_value (g : bytes) (inner : list mtch) : bytes :=
  slice (splice_const g [] 0 inner) 1 (-1).

Definition concat_node (data : bytes) (m : mtch) : res node :=
  do g <- group_req type_error data m 0;
  do inner <- fi RE_concat_find_concat_0 NG_concat_find_concat_0 g;
  Ok (Node (L"string") (concat_value g inner) (L"concatenation") (m_start m 0) (m_end m 0) []).

Definition find_concat_post (data : bytes) (ms : list mtch) : res (list node) := mapM (concat_node data) ms.

Definition find_concat (data : bytes) : res (list node) :=
  do ms <- fi RE_concat_CONCAT_RE NG_concat_CONCAT_RE data; find_concat_post data ms.

(* ---------- replace.py ----------
   bytes.replace(old, new): XmlChr.replace models it for every old, the empty one included
   (the replacement is inserted before every byte and at the end). *)
Definition py_replace (x old new : bytes) : bytes := XmlChr.replace x old new.

(* [ Node(TYPE, match.group(1)[1:-1].replace(match.group(2)[1:-1], match.group(3)[1:-1]), OBF, *match.span()) ... ]
   find_js_regex_replace passes match.group(2) unsliced ([strip2] = false). *)
Definition replace_node (ty obf : label) (strip2 : bool) (data : bytes) (m : mtch) : res node :=
  do g1 <- group_req type_error data m 1;
  do g2 <- group_req type_error data m 2;
  do g3 <- group_req type_error data m 3;
  Ok (Node ty
           (py_replace (slice g1 1 (-1)) (if strip2 then slice g2 1 (-1) else g2) (slice g3 1 (-1)))
           obf (m_start m 0) (m_end m 0) []).

Definition find_replace_post (data : bytes) (ms : list mtch) : res (list node) :=
  mapM (replace_node (L"string") (L"replace") true data) ms.
Definition find_replace (data : bytes) : res (list node) :=
  do ms <- fi RE_replace_REPLACE_RE NG_replace_REPLACE_RE data; find_replace_post data ms.

Definition find_powershell_replace_post (data : bytes) (ms : list mtch) : res (list node) :=
  mapM (replace_node (L"powershell.string") (L"replace") true data) ms.
Definition find_powershell_replace (data : bytes) : res (list node) :=
  do ms <- fi RE_replace_POWERSHELL_REPLACE_RE NG_replace_POWERSHELL_REPLACE_RE data;
  find_powershell_replace_post data ms.

Definition find_vba_replace_post (data : bytes) (ms : list mtch) : res (list node) :=
  mapM (replace_node (L"vba.string") (L"vba.replace") true data) ms.
Definition find_vba_replace (data : bytes) : res (list node) :=
  do ms <- fi RE_replace_VBA_REPLACE_RE NG_replace_VBA_REPLACE_RE data; find_vba_replace_post data ms.

Definition find_js_regex_replace_post (data : bytes) (ms : list mtch) : res (list node) :=
  mapM (replace_node (L"javascript.string") (L"replace") false data) ms.
Definition find_js_regex_replace (data : bytes) : res (list node) :=
  do ms <- fi RE_replace_JS_REGEX_REPLACE_RE NG_replace_JS_REGEX_REPLACE_RE data;
  find_js_regex_replace_post data ms.

(* ---------- vba.py get_closing_brace ----------
   OPEN_TO_CLOSE_MAP: round, curly, square and angle brackets *)
Definition open_to_close (brace_ord : Z) : option Z :=
  if brace_ord =? 40 then Some 41
  else if brace_ord =? 123 then Some 125
  else if brace_ord =? 91 then Some 93
  else if brace_ord =? 60 then Some 62
  else None.

(*   while index < len(data) and balance:
         if data[index] == close: balance -= 1
         elif data[index] == brace_ord: balance += 1
         index += 1
     return index if balance == 0 else -1
   data[index] is Python indexing (a negative start_index wraps around, or raises IndexError). *)
Fixpoint gcb_loop (fuel : nat) (data : bytes) (op cl : Z) (index balance : Z) : res Z :=
  if (index <? blen data) && negb (balance =? 0) then
    match fuel with
    | O => Hang
    | S f =>
        do c <- getitem data index;
        let balance' :=
          if Z.of_N c =? cl then balance - 1
          else if Z.of_N c =? op then balance + 1
          else balance in
        gcb_loop f data op cl (index + 1) balance'
    end
  else Ok (if balance =? 0 then index else -1).

Definition get_closing_brace (data : bytes) (start_index : Z) (brace_ord : Z) : res Z :=
  match open_to_close brace_ord with
  | None => Raise (L"ValueError")
  | Some cl => gcb_loop (S (Z.to_nat (blen data - start_index))) data brace_ord cl start_index 1
  end.

(*   for match in finditer(CREATE_OBJECT_RE, data):
         index = get_closing_brace(data, match.end())
         if index > 0: out.append(Node("vba.function.createobject", data[match.start():index], "", match.start(), index)) *)
Fixpoint find_createobject_post (data : bytes) (ms : list mtch) : res (list node) :=
  match ms with
  | [] => Ok []
  | m :: rest =>
      do index <- get_closing_brace data (m_end m 0) 40;
      do out <- find_createobject_post data rest;
      Ok (if 0 <? index
          then Node (L"vba.function.createobject") (slice data (m_start m 0) index) [] (m_start m 0) index [] :: out
          else out)
  end.

Definition find_createobject (data : bytes) : res (list node) :=
  do ms <- fi RE_vba_CREATE_OBJECT_RE NG_vba_CREATE_OBJECT_RE data; find_createobject_post data ms.
