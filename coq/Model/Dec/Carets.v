(* decoders/shell.py: cmd.exe caret removal (strip_carets, deobfuscate_cmd) and the
   parenthesis cut of find_cmd_strings.  Definitions only; proofs in Proofs/CaretsProofs.v. *)
From MD Require Import Lib.Base Model.Node.

(* byte constants *)
Definition ch_dquote : N := 34%N.  (* double quote *)
Definition ch_cr     : N := 13%N.
Definition ch_lf     : N := 10%N.
Definition ch_caret  : N := 94%N.
Definition ch_lparen : N := 40%N.
Definition ch_rparen : N := 41%N.

(* ------------------------------------------------------------------ *)
(* IMPLEMENTATION: transliteration of strip_carets.
     while i < len(cmd) - 1:
         character = cmd[i]
         if character == quote:   in_string = not in_string
         elif character == CR:    in_string = False
         elif character == caret and not in_string:
             i += 1
             if cmd[i : i + 2] == CR LF: i += 2
         if i < len(cmd): out.append(cmd[i])
         i += 1
     if i < len(cmd) and (cmd[i] != caret or in_string): out.append(cmd[i])
     return bytes(out)                                                     *)

(* the if / elif / elif chain of one iteration: new (in_string, i) *)
Definition strip_step (cmd : bytes) (character : N) (i : Z) (in_string : bool) : bool * Z :=
  if (character =? ch_dquote)%N then (negb in_string, i)
  else if (character =? ch_cr)%N then (false, i)
  else if (character =? ch_caret)%N && negb in_string then
    let i1 := i + 1 in
    if beqb (slice cmd i1 (i1 + 2)) [ch_cr; ch_lf] then (in_string, i1 + 2) else (in_string, i1)
  else (in_string, i).

Fixpoint strip_loop (fuel : nat) (cmd : bytes) (i : Z) (in_string : bool) (out : bytes)
  : res bytes :=
  match fuel with
  | O => Hang
  | S fuel' =>
    if i <? blen cmd - 1 then
      do character <- getitem cmd i;
      let '(in_string', i') := strip_step cmd character i in_string in
      do out' <- (if i' <? blen cmd then do c <- getitem cmd i'; Ok (out ++ [c]) else Ok out);
      strip_loop fuel' cmd (i' + 1) in_string' out'
    else if i <? blen cmd then
      do c <- getitem cmd i;
      if negb (c =? ch_caret)%N || in_string then Ok (out ++ [c]) else Ok out
    else Ok out
  end.

Definition strip_carets_impl (cmd : bytes) : res bytes :=
  strip_loop (S (List.length cmd)) cmd 0 false [].

(* ------------------------------------------------------------------ *)
(* SPECIFICATION (written from the prose description, not from the code):
   outside double quotes a caret is dropped and the next character is kept literally
   (a caret before CR LF is a line continuation: all three vanish and the character
   after them is kept literally; a trailing caret is dropped); inside quotes carets are
   literal; a CR ends a quoted region; an unescaped double quote toggles the quoted state. *)
Fixpoint cmd_unescape_from (in_string : bool) (l : bytes) : bytes :=
  match l with
  | [] => []
  | c :: t =>
    if (c =? ch_caret)%N && negb in_string then
      (* escaping caret: dropped; what follows is literal (no toggle) *)
      match t with
      | [] => []                                        (* trailing caret *)
      | d :: t1 =>
        match t1 with
        | e :: t2 =>
          if (d =? ch_cr)%N && (e =? ch_lf)%N then       (* line continuation *)
            match t2 with
            | [] => []
            | f :: t3 => f :: cmd_unescape_from false t3
            end
          else d :: cmd_unescape_from false t1
        | [] => d :: cmd_unescape_from false t1
        end
      end
    else
      c :: cmd_unescape_from
             (if (c =? ch_dquote)%N then negb in_string
              else if (c =? ch_cr)%N then false
              else in_string) t
  end.

Definition cmd_unescape (cmd : bytes) : bytes := cmd_unescape_from false cmd.

(* ------------------------------------------------------------------ *)
(* deobfuscate_cmd: (stripped, "unescape.shell.carets" if stripped != cmd else "") *)
Definition carets_label : label := L"unescape.shell.carets".

Definition deobfuscate_cmd (cmd : bytes) : res (bytes * label) :=
  do stripped <- strip_carets_impl cmd;
  Ok (stripped, if negb (beqb stripped cmd) then carets_label else []).

(* ------------------------------------------------------------------ *)
(* find_cmd_strings: the enumerate loop over full_cmd
       if char == rparen: parens -= 1  elif char == lparen: parens += 1
       if parens < 0: full_cmd = full_cmd[:i]; end = start + i; break
   paren_cut d is the cut index i (or len(d) when the loop runs to completion), so that
   afterwards full_cmd = d[:paren_cut d] and end = start + paren_cut d. *)
Definition paren_delta (c : N) : Z :=
  if (c =? ch_rparen)%N then -1 else if (c =? ch_lparen)%N then 1 else 0.

Fixpoint paren_cut_from (d : bytes) (i parens : Z) : Z :=
  match d with
  | [] => i
  | c :: t =>
    let parens' := parens + paren_delta c in
    if parens' <? 0 then i else paren_cut_from t (i + 1) parens'
  end.

Definition paren_cut (d : bytes) : Z := paren_cut_from d 0 0.

(* running balance of a byte string (used to state the specification of paren_cut) *)
Fixpoint balance (d : bytes) : Z :=
  match d with
  | [] => 0
  | c :: t => paren_delta c + balance t
  end.

(* the text kept by find_cmd_strings before de-obfuscation *)
Definition cmd_cut (full_cmd : bytes) : bytes := slice full_cmd 0 (paren_cut full_cmd).
