(* decoders/network.py (current source): is_domain, is_url, domain_is_false_positive, find_domains,
   find_emails, find_ips, find_urls, parse_url, parse_authority, parse_ipv6, _is_printable.
   The library routines are modelled next to their users: socket.inet_pton(AF_INET6) (glibc 2.36
   inet_pton6 / inet_pton4) and IPv6Address(packed).compressed (ipaddress, Python 3.12.1).
   is_ip / parse_ip are in Model/Dec/Ip.v, normalize_path in Model/Dec/UrlPath.v,
   unquote_to_bytes / normalize_percent_encoding in Model/Codec/Percent.v, urlsplit in Model/Dec/UrlSplit.v.
   The TLD set and the two false-positive word sets are parameters.  Definitions only. *)
From MD Require Import Lib.Base Model.Node Regex.Syntax Regex.Backtrack Generated.Regexes Generated.Consts
  Model.Dec.ReLib Model.Dec.Ip Model.Codec.Percent Model.Dec.UrlPath Model.Dec.UrlSplit.

(* ---------- labels ---------- *)
Definition DOMAIN_TYPE : label := L"network.domain".
Definition IP_TYPE : label := L"network.ip".
Definition EMAIL_TYPE : label := L"network.email".
Definition URL_TYPE : label := L"network.url".
Definition IPV6_TYPE : label := L"network.ipv6".
Definition SCHEME_TYPE : label := L"network.url.scheme".
Definition USERNAME_TYPE : label := L"network.url.username".
Definition PASSWORD_TYPE : label := L"network.url.password".
Definition PATH_TYPE : label := L"network.url.path".
Definition QUERY_TYPE : label := L"network.url.query".
Definition FRAGMENT_TYPE : label := L"network.url.fragment".

(* ---------- generic helpers ---------- *)
Definition mem (x : bytes) (l : list bytes) : bool := existsb (beqb x) l.

Definition is_some {A} (o : option A) : bool := match o with Some _ => true | None => false end.

(* the body of a "for match in finditer: ... continue / out.append(node)" loop *)
Fixpoint collect {A} (f : A -> res (option node)) (l : list A) : res (list node) :=
  match l with
  | [] => Ok []
  | x :: xs =>
      do o <- f x;
      do rest <- collect f xs;
      Ok (match o with Some n => n :: rest | None => rest end)
  end.

(* try: r  except ValueError: h   (UnicodeDecodeError is a ValueError) *)
Definition catch_value_error {A} (r : res A) (h : res A) : res A :=
  match r with
  | Raise e => if is_value_error e then h else Raise e
  | other => other
  end.

(* highest i with lo <= i, i + len p <= hi and d[i:i+len p] = p, for the list d whose head has index i0; -1 if none *)
Fixpoint rfind_at (p d : bytes) (i0 lo hi : Z) : Z :=
  match d with
  | [] => -1
  | _ :: d' =>
      let r := rfind_at p d' (i0 + 1) lo hi in
      if 0 <=? r then r
      else if (lo <=? i0) && (i0 + blen p <=? hi) && prefixb p d then i0 else -1
  end.

(* data.rfind(p, lo, hi) for a non-empty p *)
Definition rfind (d p : bytes) (lo hi : Z) : Z :=
  rfind_at p d 0 (clamp_idx (blen d) lo) (clamp_idx (blen d) hi).

(* _is_printable: ASCII and str.isprintable, i.e. every byte in 0x20..0x7e (true for the empty string) *)
Definition is_printable (b : bytes) : bool := forallb (fun c => (32 <=? c)%N && (c <=? 126)%N) b.

(* ---------- socket.inet_pton(AF_INET6, text): glibc inet_pton4 / inet_pton6 ---------- *)
(* inet_pton4 on the whole remaining text: Some [a;b;c;d] *)
Fixpoint pton4_loop (src : bytes) (saw_digit : bool) (octets : nat) (cur : Z) (done : list Z) : option (list Z) :=
  match src with
  | [] => if (octets <? 4)%nat then None else Some (done ++ [cur])
  | ch :: rest =>
      if is_digit_ascii ch then
        let nw := cur * 10 + (Z.of_N ch - 48) in
        if saw_digit && (cur =? 0) then None
        else if 255 <? nw then None
        else if saw_digit then pton4_loop rest true octets nw done
        else if (4 <? S octets)%nat then None
        else pton4_loop rest true (S octets) nw done
      else if (ch =? ch_dot)%N && saw_digit then
        if Nat.eqb octets 4 then None
        else pton4_loop rest false octets 0 (done ++ [cur])
      else None
  end.

Definition inet_pton4 (src : bytes) : option (list Z) := pton4_loop src false O 0 [].

Definition two_bytes (v : Z) : list Z := [v / 256; v mod 256].

(* the tail of inet_pton6: store a pending group, expand the double colon, require 16 bytes *)
Definition pton6_finish (seen : nat) (val : Z) (acc : list Z) (colonp : option nat) : option (list Z) :=
  let acc1 :=
    if Nat.eqb seen 0 then Some acc
    else if (16 <? List.length acc + 2)%nat then None
    else Some (acc ++ two_bytes val) in
  match acc1 with
  | None => None
  | Some a =>
      match colonp with
      | Some cp =>
          if Nat.eqb (List.length a) 16 then None
          else Some (firstn cp a ++ repeat 0 (16 - List.length a) ++ skipn cp a)
      | None => if Nat.eqb (List.length a) 16 then Some a else None
      end
  end.

(* the main loop; [curtok] is the text from the start of the current group *)
Fixpoint pton6_loop (src curtok : bytes) (seen : nat) (val : Z) (acc : list Z) (colonp : option nat)
  : option (list Z) :=
  match src with
  | [] => pton6_finish seen val acc colonp
  | ch :: rest =>
      match Ip.hex_val ch with
      | Some d =>
          if Nat.eqb seen 4 then None
          else let val' := val * 16 + d in
               if 65535 <? val' then None
               else pton6_loop rest curtok (S seen) val' acc colonp
      | None =>
          if (ch =? b_colon)%N then
            if Nat.eqb seen 0 then
              match colonp with
              | Some _ => None
              | None => pton6_loop rest rest O val acc (Some (List.length acc))
              end
            else if negb (nonempty rest) then None
            else if (16 <? List.length acc + 2)%nat then None
            else pton6_loop rest rest O 0 (acc ++ two_bytes val) colonp
          else if (ch =? ch_dot)%N && (List.length acc + 4 <=? 16)%nat then
            match inet_pton4 curtok with
            | Some quad => pton6_finish O 0 (acc ++ quad) colonp
            | None => None
            end
          else None
      end
  end.

(* glibc inet_pton6: Some (the 16 bytes) *)
Definition inet_pton6 (s : bytes) : option (list Z) :=
  match s with
  | [] => None
  | c :: t =>
      if (c =? b_colon)%N then
        match t with
        | c2 :: _ => if (c2 =? b_colon)%N then pton6_loop t t O 0 [] None else None
        | [] => None
        end
      else pton6_loop s s O 0 [] None
  end.

(* ---------- IPv6Address(packed).compressed ---------- *)
Definition hex_digit_lower (d : Z) : N := Z.to_N (if d <? 10 then 48 + d else 87 + d).

(* "%x" % v for 0 <= v < 65536 *)
Definition hextet_str (v : Z) : bytes :=
  if v <? 16 then [hex_digit_lower v]
  else if v <? 256 then [hex_digit_lower (v / 16); hex_digit_lower (v mod 16)]
  else if v <? 4096 then [hex_digit_lower (v / 256); hex_digit_lower (v / 16 mod 16); hex_digit_lower (v mod 16)]
  else [hex_digit_lower (v / 4096); hex_digit_lower (v / 256 mod 16); hex_digit_lower (v / 16 mod 16);
        hex_digit_lower (v mod 16)].

Fixpoint hextets_of (packed : list Z) : list Z :=
  match packed with
  | hi :: lo :: rest => (hi * 256 + lo) :: hextets_of rest
  | _ => []
  end.

(* the scan of _compress_hextets: (best_start, best_len, cur_start, cur_len) *)
Definition zero_run_step (st : Z * Z * Z * Z) (ih : Z * Z) : Z * Z * Z * Z :=
  let '(bs, bl, cs, cl) := st in
  let '(index, h) := ih in
  if h =? 0 then
    let cl' := cl + 1 in
    let cs' := if cs =? -1 then index else cs in
    if bl <? cl' then (cs', cl', cs', cl') else (bs, bl, cs', cl')
  else (bs, bl, -1, 0).

Definition indexed {A} (l : list A) : list (Z * A) := combine (map Z.of_nat (seq 0 (List.length l))) l.

Definition best_zero_run (hs : list Z) : Z * Z :=
  let '(bs, bl, _, _) := fold_left zero_run_step (indexed hs) (-1, 0, -1, 0) in (bs, bl).

Definition compress_hextets (hs : list Z) : list bytes :=
  let strs := map hextet_str hs in
  let '(bs, bl) := best_zero_run hs in
  if 1 <? bl then
    let be := bs + bl in
    (if bs =? 0 then [[]] else []) ++ firstn (Z.to_nat bs) strs ++ [[]] ++ skipn (Z.to_nat be) strs
    ++ (if be =? blen strs then [[]] else [])
  else strs.

Definition ipv6_compressed (packed : list Z) : bytes := Ip.join [b_colon] (compress_hextets (hextets_of packed)).

(* ---------- parse_ipv6 ---------- *)
(* every failure ends as ValueError: UnicodeDecodeError and OSError are converted, the
   "embedded null character" ValueError of the argument parser propagates *)
Definition parse_ipv6 (ip : bytes) : res node :=
  if negb (utf8_valid ip) then Raise value_error
  else if has_byte 0%N ip then Raise value_error
  else match inet_pton6 ip with
       | None => Raise value_error
       | Some packed =>
           let compressed := ipv6_compressed packed in
           Ok (Node IPV6_TYPE compressed (if beqb compressed ip then [] else ip_obf) 0 (blen ip) [])
       end.

(* ---------- is_url ---------- *)
Definition url_schemes : list bytes := [L"http"; L"https"; L"ftp"].

(* try: urlsplit, .port  except ValueError: False *)
Definition is_url (url : bytes) : res bool :=
  catch_value_error
    (do sp <- urlsplit url;
     do _ <- sr_port sp;
     Ok (nonempty (sr_scheme sp)
         && match sr_hostname sp with Some h => nonempty h | None => false end
         && mem (sr_scheme sp) url_schemes))
    (Ok false).

Section Tables.
Variable tlds : list bytes.          (* TOP_LEVEL_DOMAINS, upper case *)
Variable root_fpos : list bytes.
Variable tld_fpos : list bytes.

(* ---------- is_domain ---------- *)
Definition is_domain (domain : bytes) : bool :=
  let '(name, found, tld) := rpartition ch_dot domain in
  found && nonempty name && mem (upper tld) tlds.

(* ---------- domain_is_false_positive ---------- *)
Definition contains (d p : bytes) : bool := 0 <=? find d p.

Definition domain_is_false_positive (domain : bytes) : res bool :=
  let domain_lower := lower domain in
  let split := Ip.split_on ch_dot domain_lower in
  if blen split <? 2 then Ok true else
  let tld := last split [] in
  let root := hd [] split in
  if beqb tld (L"next") && contains domain_lower (L"iterator") then Ok true else
  do attr <- re_match RE_network_domain_is_false_positive_0 NG_network_domain_is_false_positive_0 domain;
  if is_some attr then Ok true else
  Ok ((mem tld tld_fpos && (mem root root_fpos || (blen root =? 1)))
      || startswith domain_lower (L"this.")
      || ((blen split =? 3) && beqb (nth 1 split []) (L"prototype") && (blen root <? 3) && (blen tld <? 3))
      (* tld == "so" compares bytes with str: always False *)
      || (startswith domain_lower (L"lib") && false)).

(* ---------- find_domains ---------- *)
Definition find_domains_one (data : bytes) (mt : mtch) : res (option node) :=
  let domain := group data mt 0 in
  if negb (is_domain domain) || (blen domain <? 7) then Ok None else
  do fp <- domain_is_false_positive domain;
  if fp then Ok None else Ok (Some (match_to_hit DOMAIN_TYPE data mt 0)).

Definition find_domains_post (data : bytes) (ms : list mtch) : res (list node) :=
  collect (find_domains_one data) ms.

Definition find_domains (data : bytes) : res (list node) :=
  do ms <- fi RE_network_DOMAIN_RE NG_network_DOMAIN_RE data; find_domains_post data ms.

(* ---------- find_emails ---------- *)
Definition find_emails_one (data : bytes) (mt : mtch) : res (option node) :=
  if is_domain (group data mt 1) then Ok (Some (match_to_hit EMAIL_TYPE data mt 0)) else Ok None.

Definition find_emails_post (data : bytes) (ms : list mtch) : res (list node) :=
  collect (find_emails_one data) ms.

Definition find_emails (data : bytes) : res (list node) :=
  do ms <- fi RE_network_EMAIL_RE NG_network_EMAIL_RE data; find_emails_post data ms.

(* ---------- parse_authority ---------- *)
(* re.match of the reverse pattern  colon, digits  : the address ends with a colon followed by digits only *)
Definition ends_colon_digits (address : bytes) : bool :=
  let '(_, found, after) := rpartition b_colon address in
  found && forallb is_digit_ascii after.

(* the splits at the top of parse_authority: (userinfo, username, password, host) *)
Definition auth_split (authority : bytes) : bytes * bytes * bytes * bytes :=
  let '(userinfo, address) :=
    let '(u, found, a) := rpartition b_at authority in
    if found then (u, a) else ([], authority) in
  let '(username, password) :=
    let '(u, found, p) := partition b_colon userinfo in
    if found then (u, p) else (userinfo, []) in
  let host := if ends_colon_digits address then fst (fst (rpartition b_colon address)) else address in
  (userinfo, username, password, host).

(* the username / password nodes and the offset after them; the offset is advanced for the colon whenever
   the userinfo contains one, also when the password is empty *)
Definition auth_user_nodes (userinfo username password : bytes) : list node * Z :=
  let '(out1, offset1) :=
    if nonempty username
    then ([Node USERNAME_TYPE (Percent.unquote_to_bytes username) [] 0 (blen username) []], blen username)
    else ([], 0) in
  let offset1' := if has_byte b_colon userinfo then offset1 + 1 else offset1 in
  if nonempty password
  then (out1 ++ [Node PASSWORD_TYPE (Percent.unquote_to_bytes password) [] offset1'
                      (offset1' + blen password) []],
        offset1' + blen password)
  else (out1, offset1').

(* ip_node.end = e *)
Definition set_end (n : node) (e : Z) : node :=
  match n with Node t v o s _ k => Node t v o s e k end.

(* the node appended for the unquoted host [host'] whose still escaped text starts at [offset] and is
   [host_length] bytes long *)
Definition auth_host_nodes (host' : bytes) (offset host_length : Z) : res (list node) :=
  if startswith host' [b_lbr] then
    if negb (endswith host' [b_rbr]) then Raise value_error
    else catch_value_error
           (do n <- parse_ipv6 (slice host' 1 (-1)); Ok [shift n (offset + 1)])
           (Ok [])
  else
    catch_value_error
      (do n <- parse_ip_node host'; Ok [set_end (shift n offset) (offset + host_length)])
      (Ok (if is_domain host'
           then [Node DOMAIN_TYPE host' [] offset (offset + host_length) []]
           else [])).

Definition parse_authority (authority : bytes) : res (list node) :=
  let '(userinfo, username, password, host) := auth_split authority in
  let '(out2, offset2) := auth_user_nodes userinfo username password in
  if negb (nonempty host) then Ok out2 else
  let offset := if has_byte b_at authority then offset2 + 1 else offset2 in
  do hn <- auth_host_nodes (Percent.unquote_to_bytes host) offset (blen host);
  Ok (out2 ++ hn).

(* ---------- parse_url ---------- *)
(* the scheme node and the offset after "scheme:" *)
Definition url_scheme_nodes (url_text scheme : bytes) : list node * Z :=
  if nonempty scheme
  then ([Node SCHEME_TYPE scheme
              (let head := slice url_text 0 (blen scheme) in
               if beqb head scheme || beqb head (upper scheme) then [] else G_MIXED_CASE_OBF)
              0 (blen scheme) []],
        blen scheme + 1)
  else ([], 0).

(* path, query and fragment nodes, from the offset after the authority *)
Definition url_tail_nodes (url_text : bytes) (url : split_result) (offset2 : Z) : list node :=
  let path := sr_path url in
  let '(out3, offset3) :=
    if nonempty path
    then (let '(v, o) := normalize_path path in [Node PATH_TYPE v o offset2 (offset2 + blen path) []],
          offset2 + blen path)
    else ([], offset2) in
  let query := sr_query url in
  let '(out4, offset4) :=
    if nonempty query
    then (out3 ++ [Node QUERY_TYPE (Percent.unquote_to_bytes query) [] (offset3 + 1) (offset3 + 1 + blen query) []],
          offset3 + 1 + blen query)
    else (out3, offset3) in
  let fragment := sr_fragment url in
  if nonempty fragment
  then (* an empty query whose question mark is still in the text *)
       let offset5 := if negb (nonempty query) && beqb (slice url_text offset4 (offset4 + 1)) [b_qmark]
                      then offset4 + 1 else offset4 in
       out4 ++ [Node FRAGMENT_TYPE (Percent.unquote_to_bytes fragment) [] (offset5 + 1)
                     (offset5 + 1 + blen fragment) []]
  else out4.

Definition parse_url (url_text : bytes) : res (list node) :=
  do url <- urlsplit url_text;
  let '(out1, offset1) := url_scheme_nodes url_text (sr_scheme url) in
  let netloc := sr_netloc url in
  do r2 <- (if nonempty netloc then
              let off := offset1 + 2 in
              (* with contextlib.suppress(ValueError): out.extend(shift_nodes(parse_authority(netloc), offset)) *)
              do auth <- catch_value_error
                           (do a <- parse_authority netloc; Ok (map (fun n => shift n off) a))
                           (Ok []);
              Ok (auth, off + blen netloc)
            else Ok ([], offset1));
  let '(auth, offset2) := r2 in
  Ok (out1 ++ auth ++ url_tail_nodes url_text url offset2).

(* ---------- find_ips ---------- *)
Definition find_ips_one (data : bytes) (mt : mtch) : res (option node) :=
  let ip := group data mt 0 in
  if negb (is_ip ip) then Ok None else
  if forallb (fun c => has_byte c (L"0x.")) ip then Ok None else
  if endswith ip (L".0") || endswith ip (L".255") then Ok None else
  let start := m_start mt 0 in
  let prefix := rev (slice data 0 start) in
  do m0 <- re_match RE_network_find_ips_0 NG_network_find_ips_0 prefix;
  if is_some m0 then Ok None else
  do m1 <- re_match RE_network_find_ips_1 NG_network_find_ips_1 prefix;
  if is_some m1 then Ok None else
  let offset := rfind data (L"ersion") (Z.max (start - 10) 0) start in
  do version <- (if 0 <=? offset
                 then do m2 <- re_match RE_network_find_ips_2 NG_network_find_ips_2 (slice data (offset + 6) start);
                      Ok (is_some m2)
                 else Ok false);
  if version then Ok None else
  do n <- parse_ip_node ip;
  Ok (Some (shift n start)).

Definition find_ips_post (data : bytes) (ms : list mtch) : res (list node) :=
  collect (find_ips_one data) ms.

Definition find_ips (data : bytes) : res (list node) :=
  do ms <- fi RE_network_IP_RE NG_network_IP_RE data; find_ips_post data ms.

(* ---------- find_urls ---------- *)
Definition contexts (prev : N) : option N :=
  if (prev =? 39)%N then Some 39%N else if (prev =? 40)%N then Some 41%N else None.

(* the context cut: (group, end) *)
Definition url_context_cut (data group0 : bytes) (start end_ : Z) (prev : N) : bytes * Z :=
  let pz := Z.of_N prev in
  if start =? 0 then (group0, end_)
  else if beqb (slice group0 pz (pz + 1)) [ch_zero] && negb (is_printable (slice data (start - 10) start))
  then (slice group0 0 pz, start + pz)
  else match contexts prev with
       | Some closing =>
           let close := find group0 [closing] in
           if -1 <? close then (slice group0 0 close, start + close) else (group0, end_)
       | None => (group0, end_)
       end.

Definition find_urls_one (data : bytes) (mt : mtch) : res (option node) :=
  let group0 := group data mt 0 in
  let start := m_start mt 0 in
  let end_ := m_end mt 0 in
  do prev <- getitem data (start - 1);
  let '(grp, en) := url_context_cut data group0 start end_ prev in
  do ok <- is_url grp;
  if negb ok then Ok None else
  let '(value, obfuscation) := normalize_percent_encoding grp in
  do ok2 <- is_url value;
  if negb ok2 then Ok None else
  do kids <- parse_url value;
  Ok (Some (Node URL_TYPE value obfuscation start en kids)).

Definition find_urls_post (data : bytes) (ms : list mtch) : res (list node) :=
  collect (find_urls_one data) ms.

Definition find_urls (data : bytes) : res (list node) :=
  do ms <- fi RE_network_URL_RE NG_network_URL_RE data; find_urls_post data ms.

End Tables.
