(* The Node class (node.py) as an immutable rose tree.  Parent pointers are implicit. *)
From MD Require Import Lib.Base.

Inductive node : Type :=
| Node (ty : label) (val : bytes) (obf : label) (st en : Z) (kids : list node).

Definition n_ty (n : node) := match n with Node t _ _ _ _ _ => t end.
Definition n_val (n : node) := match n with Node _ v _ _ _ _ => v end.
Definition n_obf (n : node) := match n with Node _ _ o _ _ _ => o end.
Definition n_st (n : node) := match n with Node _ _ _ s _ _ => s end.
Definition n_en (n : node) := match n with Node _ _ _ _ e _ => e end.
Definition n_kids (n : node) := match n with Node _ _ _ _ _ k => k end.

Definition set_kids (n : node) (ks : list node) : node :=
  match n with Node t v o s e _ => Node t v o s e ks end.

(* Node.shift *)
Definition shift (n : node) (off : Z) : node :=
  match n with Node t v o s e k => Node t v o (s + off) (e + off) k end.

(* Node.original for a child of a node whose value is pv *)
Definition original (pv : bytes) (c : node) : bytes := slice pv (n_st c) (n_en c).

(* induction principle for the nested type *)
Section node_ind'.
  Variable P : node -> Prop.
  Hypothesis H : forall t v o s e ks, Forall P ks -> P (Node t v o s e ks).
  Fixpoint node_ind' (n : node) : P n :=
    match n with
    | Node t v o s e ks =>
      H t v o s e ks
        ((fix go (l : list node) : Forall P l :=
            match l with
            | [] => Forall_nil P
            | x :: xs => Forall_cons x (node_ind' x) (go xs)
            end) ks)
    end.
End node_ind'.

(* __eq__ *)
Fixpoint node_eqb (a b : node) : bool :=
  match a, b with
  | Node t1 v1 o1 s1 e1 k1, Node t2 v2 o2 s2 e2 k2 =>
    beqb t1 t2 && beqb v1 v2 && beqb o1 o2 && (s1 =? s2) && (e1 =? e2) &&
    (fix go (l1 l2 : list node) : bool :=
       match l1, l2 with
       | [], [] => true
       | x :: xs, y :: ys => node_eqb x y && go xs ys
       | _, _ => false
       end) k1 k2
  end.

(* canonical value form used by the correspondence runner *)
Fixpoint val_of_node (n : node) : pval :=
  match n with
  | Node t v o s e ks => VList [VStr t; VBytes v; VStr o; VInt s; VInt e; VList (map val_of_node ks)]
  end.

Definition node_of_val_default : node := Node [] [] [] 0 0 [].
Fixpoint node_of_val (v : pval) : node :=
  match v with
  | VList [VStr t; VBytes b; VStr o; VInt s; VInt e; VList ks] =>
      Node t b o s e (map node_of_val ks)
  | _ => node_of_val_default
  end.
