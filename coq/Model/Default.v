(* The shipped registry as a function of data: every decoder function the source marks for registration
   (names from Generated/RegistryTable.v), dispatched to its model; keyword searchers from the shipped keyword
   directory (Generated/Keywords.v).  A decoder the source registers but the model does not know makes the model
   raise `UnmodelledDecoder` (fail closed).  External tools are explicit oracles:
     pe_size  : pefile's end-of-PE computation (pe_file.py pe_size)
     xortool  : the key-guessing tool of powershell.py (float scoring, not modelled) *)
From MD Require Import Lib.Base Model.Node Model.Keyword Model.Engine Model.EngineR Model.Registry.
From MD Require Import Model.Dec.EscDec Model.Dec.StrOps Model.Dec.Shell Model.Dec.B64Hex Model.Dec.PathDec Model.Dec.Network.
From MD Require Import Generated.Tables.

Definition is_domain_default : bytes -> bool := Network.is_domain TOP_LEVEL_DOMAINS.

Section Default.
  Variable pe_size : bytes -> Z.
  Variable xortool : bytes -> list bytes.
  Variable extra : label -> option (bytes -> res (list node)).    (* decoders modelled in files added later *)

  Definition decoder_by_name (name : label) : bytes -> res (list node) :=
    if beqb name (L"find_xml_hex") then find_xml_hex
    else if beqb name (L"find_chr") then find_chr
    else if beqb name (L"find_unescape") then find_unescape
    else if beqb name (L"find_utf16") then find_utf16
    else if beqb name (L"find_concat") then find_concat
    else if beqb name (L"find_reverse") then find_reverse
    else if beqb name (L"find_strreverse") then find_strreverse
    else if beqb name (L"find_replace") then find_replace
    else if beqb name (L"find_powershell_replace") then find_powershell_replace
    else if beqb name (L"find_vba_replace") then find_vba_replace
    else if beqb name (L"find_js_regex_replace") then find_js_regex_replace
    else if beqb name (L"find_createobject") then find_createobject
    else if beqb name (L"find_cmd_strings") then find_cmd_strings
    else if beqb name (L"find_powershell_strings") then find_powershell_strings
    else if beqb name (L"find_atob") then find_atob
    else if beqb name (L"find_base64") then find_base64
    else if beqb name (L"find_Base64Decode") then find_Base64Decode
    else if beqb name (L"find_FromBase64String") then find_FromBase64String
    else if beqb name (L"find_hex") then find_hex
    else if beqb name (L"find_FromHexString") then find_FromHexString
    else if beqb name (L"find_powershell_bytes") then find_powershell_bytes xortool
    else if beqb name (L"find_executable_name") then find_executable_name
    else if beqb name (L"find_library") then find_library
    else if beqb name (L"find_path") then find_path
    else if beqb name (L"find_windows_path") then find_windows_path is_domain_default
    else if beqb name (L"find_pe_files") then find_pe_files pe_size
    else if beqb name (L"find_domains") then Network.find_domains TOP_LEVEL_DOMAINS root_fpos tld_fpos
    else if beqb name (L"find_emails") then Network.find_emails TOP_LEVEL_DOMAINS
    else if beqb name (L"find_ips") then Network.find_ips
    else if beqb name (L"find_urls") then Network.find_urls TOP_LEVEL_DOMAINS
    else match extra name with
         | Some f => f
         | None => fun _ => Raise (L"UnmodelledDecoder")
         end.

  Definition keyword_searcher (kw : label * list bytes) : bytes -> res (list node) :=
    fun data => find_keywords (fst kw) (snd kw) data.

  (* build_registry(directory, include, exclude) *)
  Definition registry (modules : list (label * list label)) (kwdir : dtree) (inc exc : list label)
    : list (bytes -> res (list node)) :=
    map keyword_searcher (get_keywords kwdir) ++ map decoder_by_name (get_analyzers modules inc exc).

  Definition search_default (modules : list (label * list label)) (kwdir : dtree) : bytes -> res (list node) :=
    run_all (registry modules kwdir [] []).

  Definition scan_default (modules : list (label * list label)) (kwdir : dtree) (depth : Z) (data : bytes) : res node :=
    scan_r (search_default modules kwdir) depth data.
End Default.
