(* multidecoder.py : scan / scan_node over a registry whose decoders may raise.
   In Python the generator `(hit for search in self.decoders for hit in search(node.value) if hit.value)`
   is consumed by sorted() before the first hit is processed: every decoder is run, in registry order,
   and an exception of any of them leaves scan_node before any hit is attached. *)
From MD Require Import Lib.Base Model.Node Model.Engine.

Section EngineR.
  Variable searchr : bytes -> res (list node).

  Fixpoint scan_node_r (d : nat) (n : node) : res node :=
    match d with
    | O => Ok n
    | S d' =>
        match n_kids n with
        | _ :: _ => do ks <- mapM (scan_node_r d') (n_kids n); Ok (set_kids n ks)
        | [] => do hits <- searchr (n_val n);
                do s <- foldM (step (scan_node_r d')) (sort_hits (filter nonempty_val hits)) (init_state n);
                Ok (unwind (cur s) (stack s))
        end
    end.

  Definition scan_r (depth : Z) (data : bytes) : res node :=
    if depth <=? 0 then Ok (root_node data) else scan_node_r (Z.to_nat depth) (root_node data).
End EngineR.

(* a registry as a list of searchers, each possibly raising: all are run, in order, results concatenated *)
Fixpoint run_all (ds : list (bytes -> res (list node))) (v : bytes) : res (list node) :=
  match ds with
  | [] => Ok []
  | d :: ds' => do a <- d v; do b <- run_all ds' v; Ok (a ++ b)
  end.

(* the pure registry read off a registry that never raises (anything else is mapped to no hits) *)
Definition search_of (searchr : bytes -> res (list node)) (v : bytes) : list node :=
  match searchr v with Ok hs => hs | _ => [] end.
