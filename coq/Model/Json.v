(* json_conversion.py : node_to_dict / as_node over a JSON value AST.  Definitions only.
   json.dumps / json.loads themselves are NOT modelled (trusted oracle: loads(dumps v) = v on this AST). *)
From MD Require Import Lib.Base Model.Node.

Inductive jv : Type :=
| JStr (s : list N)
| JInt (z : Z)
| JArr (l : list jv)
| JObj (fields : list (list N * jv)).

(* ---------- bytes.hex() / bytes.fromhex() ---------- *)
Definition hexdigit (d : N) : N := (if d <? 10 then 48 + d else 87 + d)%N.   (* 0-9 a-f *)

Fixpoint hexlify (b : bytes) : list N :=
  match b with
  | [] => []
  | c :: b' => hexdigit (c / 16) :: hexdigit (c mod 16) :: hexlify b'
  end.

Definition hexval (c : N) : option N :=
  if (48 <=? c)%N && (c <=? 57)%N then Some (c - 48)%N
  else if (97 <=? c)%N && (c <=? 102)%N then Some (c - 87)%N
  else if (65 <=? c)%N && (c <=? 70)%N then Some (c - 55)%N
  else None.

Definition value_error : label := L"ValueError".
Definition type_error : label := L"TypeError".
Definition key_error : label := L"KeyError".

(* bytes.fromhex(str): ASCII whitespace is skipped between pairs only; anything else that is not a
   pair of hex digits (either case) is a ValueError (this includes every non-ASCII code point). *)
Fixpoint fromhex (s : list N) : res bytes :=
  match s with
  | [] => Ok []
  | c :: s' =>
      if is_space_ascii c then fromhex s'
      else match hexval c, s' with
           | Some hi, d :: s'' =>
               match hexval d with
               | Some lo => do r <- fromhex s''; Ok ((hi * 16 + lo)%N :: r)
               | None => Raise value_error
               end
           | _, _ => Raise value_error
           end
  end.

(* ---------- node_to_dict ---------- *)
Definition k_type : list N := L"type".
Definition k_value : list N := L"value".
Definition k_obfuscation : list N := L"obfuscation".
Definition k_start : list N := L"start".
Definition k_end : list N := L"end".
Definition k_children : list N := L"children".

Fixpoint node_to_dict (n : node) : jv :=
  match n with
  | Node t v o s e ks =>
      JObj [ (k_type, JStr t);
             (k_value, JStr (hexlify v));
             (k_obfuscation, JStr o);
             (k_start, JInt s);
             (k_end, JInt e);
             (k_children, JArr (map node_to_dict ks)) ]
  end.

(* ---------- as_node ---------- *)
(* d[key] on a dict (first binding; a Python dict has no duplicate keys) *)
Fixpoint jlookup (k : list N) (fs : list (list N * jv)) : res jv :=
  match fs with
  | [] => Raise key_error
  | (k', v) :: fs' => if beqb k' k then Ok v else jlookup k fs'
  end.

(* The Node constructor does not check field types; the model's [node] is typed, so a field of the
   wrong JSON type is reported as TypeError (inexact outside the image of node_to_dict, allowed). *)
Definition as_str (v : jv) : res (list N) :=
  match v with JStr s => Ok s | _ => Raise type_error end.
Definition as_int (v : jv) : res Z :=
  match v with JInt z => Ok z | _ => Raise type_error end.

(* `d[...]` on something that is not a dict: list / str indices must be integers, int is not
   subscriptable - TypeError in all three cases. *)
Fixpoint as_node (d : jv) : res node :=
  match d with
  | JObj fields =>
      do t <- (do x <- jlookup k_type fields; as_str x);
      do v <- (do x <- jlookup k_value fields; do h <- as_str x; fromhex h);
      do o <- (do x <- jlookup k_obfuscation fields; as_str x);
      do s <- (do x <- jlookup k_start fields; as_int x);
      do e <- (do x <- jlookup k_end fields; as_int x);
      (* [as_node(child, node) for child in d["children"]] ; the search for the key is inlined so that
         the recursion is structural *)
      do ks <- (fix find (fs : list (list N * jv)) : res (list node) :=
                  match fs with
                  | [] => Raise key_error
                  | (k', c) :: fs' =>
                      if beqb k' k_children then
                        match c with
                        | JArr l =>
                            (fix go (l : list jv) : res (list node) :=
                               match l with
                               | [] => Ok []
                               | x :: xs => do y <- as_node x; do ys <- go xs; Ok (y :: ys)
                               end) l
                        | JStr [] => Ok []                 (* iterating "" *)
                        | JObj [] => Ok []                 (* iterating {} *)
                        | JStr _ => Raise type_error       (* as_node("c") : str indices *)
                        | JObj _ => Raise type_error       (* iterating a dict yields str keys *)
                        | JInt _ => Raise type_error       (* int is not iterable *)
                        end
                      else find fs'
                  end) fields;
      Ok (Node t v o s e ks)
  | _ => Raise type_error
  end.

(* every value in the tree is a byte string (elements < 256) *)
Inductive wf_node : node -> Prop :=
| wf_node_intro t v o s e ks : wf_bytes v -> Forall wf_node ks -> wf_node (Node t v o s e ks).
