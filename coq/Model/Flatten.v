(* node.py : Node.flatten, and query.py : squash_replace (deprecated twin of flatten).
   Definitions only.  Slices are Python slices (Base.slice / Base.slice_from), so both functions
   are defined - and agree with Python - on malformed spans as well (negative, crossed, out of range).
   The join of the output list is the concatenation of the appended pieces in order; the loop below produces
   that concatenation directly (piece ++ piece ++ rest) instead of carrying the `output` list. *)
From MD Require Import Lib.Base Model.Node.

(* if node.type.endswith('string'): node_data = dquote + node_data + dquote *)
Definition str_string : label := L"string".
Definition dquote : N := 34%N.

Definition quote_if_string (ty : label) (d : bytes) : bytes :=
  if endswith ty str_string then [dquote] ++ d ++ [dquote] else d.

(* The `for node in self.children` loop of Node.flatten for a parent value [v]; [fl] is the recursive
   call `node.flatten()`, [offset] the loop variable.  The end of the list is `self.value[offset:]`. *)
Definition flatten_loop (fl : node -> bytes) (v : bytes) : list node -> Z -> bytes :=
  fix go (l : list node) (offset : Z) {struct l} : bytes :=
    match l with
    | [] => slice_from v offset
    | c :: l' =>
        if n_st c <? offset then go l' offset
        else
          let d := fl c in
          if beqb d (slice v (n_st c) (n_en c)) then go l' offset
          else slice v offset (n_st c) ++ quote_if_string (n_ty c) d ++ go l' (n_en c)
    end.

Fixpoint flatten (n : node) : bytes :=
  match n with
  | Node _ v _ _ _ ks => flatten_loop flatten v ks 0
  end.

(* query.py squash_replace(data, tree): same loop WITHOUT the `node.start < offset` skip; the recursive
   call is squash_replace(node.value, node.children). *)
Definition squash_loop (sq : node -> bytes) (data : bytes) : list node -> Z -> bytes :=
  fix go (l : list node) (offset : Z) {struct l} : bytes :=
    match l with
    | [] => slice_from data offset
    | c :: l' =>
        let d := sq c in
        if beqb d (slice data (n_st c) (n_en c)) then go l' offset
        else slice data offset (n_st c) ++ quote_if_string (n_ty c) d ++ go l' (n_en c)
    end.

(* squash_replace(node.value, node.children) *)
Fixpoint squash_node (n : node) : bytes :=
  match n with
  | Node _ v _ _ _ ks => squash_loop squash_node v ks 0
  end.

Definition squash_replace (data : bytes) (tree : list node) : bytes :=
  squash_loop squash_node data tree 0.
