(* The interval-nesting reference procedure of C06, written in ABSOLUTE coordinates of the searched
   text (no running offset, no in-place shifting): order hits by (start asc, end desc, registry order);
   drop a hit that ends inside an already-decoded span; close open contexts until one CONTAINS the
   hit's interval; drop a hit restating that context; a decoding hit is searched recursively with one
   less depth, any other hit becomes a new open context.  The result is a tree annotated with ghost
   data (how each node got there and which absolute interval its hit reported), erased by [erase]. *)
From MD Require Import Lib.Base Model.Node Model.Engine.

Inductive kind := KRoot | KCtx | KDec | KPre.
(* KRoot: the node handed to the scan; KCtx: undecoded context attached by the scan; KDec: decoded hit
   attached by the scan; KPre: sub-structure a decoder supplied itself *)

Inductive anode : Type :=
| ANode (k : kind) (a b : Z) (n : node) (kids : list anode).
(* [n] carries the header (type, value, obfuscation, start, end relative to the parent's value);
   its own child list is ignored: the children are [kids]. [a,b) = the interval the hit reported in the
   text of the search pass that attached it (for KPre / KRoot: its own start / end). *)

Definition a_kind x := match x with ANode k _ _ _ _ => k end.
Definition a_lo x := match x with ANode _ a _ _ _ => a end.
Definition a_hi x := match x with ANode _ _ b _ _ => b end.
Definition a_node x := match x with ANode _ _ _ n _ => n end.
Definition a_kids x := match x with ANode _ _ _ _ ks => ks end.

Fixpoint erase (x : anode) : node :=
  match x with ANode _ _ _ n kids => set_kids n (map erase kids) end.

(* a node that is not searched: its (decoder-supplied) sub-structure is kept as is *)
Fixpoint inject (k : kind) (a b : Z) (n : node) : anode :=
  match n with
  | Node t v o s e ks => ANode k a b (Node t v o s e ks) (map (fun c => inject KPre (n_st c) (n_en c) c) ks)
  end.

Record rframe := { r_kind : kind; r_a : Z; r_b : Z; r_node : node; r_rkids : list anode }.

(* the interval of the searched text a frame stands for: a context stands for the interval its hit
   reported, the scanned node for the whole text *)
Definition f_lo (f : rframe) : Z := match r_kind f with KCtx => r_a f | _ => 0 end.
Definition f_hi (f : rframe) : Z := match r_kind f with KCtx => r_b f | _ => blen (n_val (r_node f)) end.

Definition rclose (f : rframe) : anode := ANode (r_kind f) (r_a f) (r_b f) (r_node f) (rev (r_rkids f)).
Definition radd (f : rframe) (x : anode) : rframe :=
  {| r_kind := r_kind f; r_a := r_a f; r_b := r_b f; r_node := r_node f; r_rkids := x :: r_rkids f |}.

Record rstate := { rcur : rframe; rstack : list rframe; rdec : Z }.

Definition contains (f : rframe) (a b : Z) : bool := (f_lo f <=? a) && (b <=? f_hi f).

(* close open contexts until one contains [a,b) *)
Fixpoint rpop (a b : Z) (c : rframe) (stk : list rframe) : res (rframe * list rframe) :=
  if contains c a b then Ok (c, stk)
  else match stk with
       | p :: stk' => rpop a b (radd p (rclose c)) stk'
       | [] => Hang          (* not even the scanned node contains the hit: outside the C06 precondition *)
       end.

Definition has_kids (h : node) : bool := match n_kids h with [] => false | _ => true end.

Section Reference.
  Variable search : bytes -> list node.

  Definition rstep (text : bytes) (rec : Z -> Z -> node -> res anode) (s : rstate) (hit : node) : res rstate :=
    let a := n_st hit in
    let b := n_en hit in
    if b <=? rdec s then Ok s else
    do r <- rpop a b (rcur s) (rstack s);
    let '(c, stk) := r in
    let P := r_node c in
    if (a =? f_lo c) && beqb (n_val hit) (n_val P) && beqb (n_ty hit) (n_ty P) then
      Ok {| rcur := c; rstack := stk; rdec := rdec s |}
    else
      let rel := shift hit (- f_lo c) in
      if negb (beqb (lower (n_val hit)) (lower (slice text a b))) || has_kids hit then
        do h2 <- rec a b rel;
        Ok {| rcur := radd c h2; rstack := stk; rdec := b |}
      else
        Ok {| rcur := {| r_kind := KCtx; r_a := a; r_b := b; r_node := rel; r_rkids := [] |};
              rstack := c :: stk; rdec := rdec s |}.

  Fixpoint runwind (c : rframe) (stk : list rframe) : anode :=
    match stk with
    | [] => rclose c
    | p :: stk' => runwind (radd p (rclose c)) stk'
    end.

  Definition rinit (k : kind) (a b : Z) (n : node) : rstate :=
    {| rcur := {| r_kind := k; r_a := a; r_b := b; r_node := n; r_rkids := [] |}; rstack := []; rdec := 0 |}.

  (* [k] must not be KCtx for the node handed to a scan (KRoot / KDec / KPre) *)
  Fixpoint ref_scan_node (d : nat) (k : kind) (a b : Z) (n : node) : res anode :=
    match d with
    | O => Ok (inject k a b n)
    | S d' =>
        match n_kids n with
        | _ :: _ =>
            do ks <- mapM (fun c => ref_scan_node d' KPre (n_st c) (n_en c) c) (n_kids n);
            Ok (ANode k a b n ks)
        | [] =>
            do s <- foldM (rstep (n_val n) (ref_scan_node d' KDec)) (results search n) (rinit k a b n);
            Ok (runwind (rcur s) (rstack s))
        end
    end.

  Definition ref_scan (depth : Z) (data : bytes) : res anode :=
    let root := root_node data in
    if depth <=? 0 then Ok (inject KRoot 0 (blen data) root)
    else ref_scan_node (Z.to_nat depth) KRoot 0 (blen data) root.
End Reference.
