(* Python-semantics primitives shared by the whole model.
   bytes = list N (every element < 256 for well-formed values), Python ints = Z,
   labels (str) = list N of code points. *)
From Coq Require Export String Ascii.
From Coq Require Export List ZArith NArith Bool Lia.
Export ListNotations.
Notation length := List.length (only parsing).
Open Scope Z_scope.

Definition byte := N.
Definition bytes := list N.
Definition label := list N.

Definition blen {A} (b : list A) : Z := Z.of_nat (List.length b).

Definition wf_bytes (b : bytes) : Prop := Forall (fun c => (c < 256)%N) b.

(* string literal -> label / bytes *)
Fixpoint s2b (s : string) : list N :=
  match s with
  | EmptyString => []
  | String a s' => N_of_ascii a :: s2b s'
  end.
Arguments s2b s%string.
Notation L := s2b (only parsing).

(* ---------- outcomes ---------- *)
Inductive res (A : Type) : Type :=
| Ok (a : A)
| Raise (exn : label)
| Hang.
Arguments Ok {A} a.
Arguments Raise {A} exn.
Arguments Hang {A}.

Definition bind {A B} (r : res A) (f : A -> res B) : res B :=
  match r with Ok a => f a | Raise e => Raise e | Hang => Hang end.
Notation "'do' x <- r ; k" := (bind r (fun x => k)) (at level 200, x pattern, r at level 100, k at level 200).

Fixpoint mapM {A B} (f : A -> res B) (l : list A) : res (list B) :=
  match l with
  | [] => Ok []
  | x :: xs => do y <- f x; do ys <- mapM f xs; Ok (y :: ys)
  end.

Fixpoint foldM {A S} (f : S -> A -> res S) (l : list A) (s : S) : res S :=
  match l with
  | [] => Ok s
  | x :: xs => do s' <- f s x; foldM f xs s'
  end.

(* ---------- equality on lists of N ---------- *)
Fixpoint beqb (a b : list N) : bool :=
  match a, b with
  | [], [] => true
  | x :: a', y :: b' => N.eqb x y && beqb a' b'
  | _, _ => false
  end.

Lemma beqb_eq a b : beqb a b = true <-> a = b.
Proof.
  revert b; induction a as [|x a IH]; intros [|y b]; simpl; split; try congruence; try tauto.
  - rewrite andb_true_iff, N.eqb_eq, IH. intros [-> ->]; reflexivity.
  - intros H; injection H as -> ->. rewrite N.eqb_refl. simpl. apply IH. reflexivity.
Qed.

Lemma beqb_refl a : beqb a a = true.
Proof. apply beqb_eq; reflexivity. Qed.

Lemma beqb_neq a b : beqb a b = false <-> a <> b.
Proof.
  split.
  - intros H E. apply beqb_eq in E. congruence.
  - intros H. destruct (beqb a b) eqn:E; [apply beqb_eq in E; contradiction | reflexivity].
Qed.

(* ---------- Python slicing b[lo:hi] (step 1), any integers ---------- *)
Definition clamp_idx (n i : Z) : Z := if i <? 0 then Z.max 0 (n + i) else Z.min i n.

Definition slice {A} (b : list A) (lo hi : Z) : list A :=
  let n := blen b in
  let l := clamp_idx n lo in
  let h := clamp_idx n hi in
  firstn (Z.to_nat (h - l)) (skipn (Z.to_nat l) b).

Definition slice_from {A} (b : list A) (lo : Z) : list A :=
  skipn (Z.to_nat (clamp_idx (blen b) lo)) b.

Definition slice_to {A} (b : list A) (hi : Z) : list A :=
  firstn (Z.to_nat (clamp_idx (blen b) hi)) b.

(* b[i] with IndexError *)
Definition index_err : label := L"IndexError".
Definition getitem (b : bytes) (i : Z) : res N :=
  let n := blen b in
  let j := if i <? 0 then n + i else i in
  if (j <? 0) || (n <=? j) then Raise index_err
  else match nth_error b (Z.to_nat j) with Some c => Ok c | None => Raise index_err end.

(* ---------- ASCII case (bytes methods are ASCII-only) ---------- *)
Definition is_upper_ascii (c : N) : bool := (65 <=? c)%N && (c <=? 90)%N.
Definition is_lower_ascii (c : N) : bool := (97 <=? c)%N && (c <=? 122)%N.
Definition is_digit_ascii (c : N) : bool := (48 <=? c)%N && (c <=? 57)%N.
Definition is_alpha_ascii (c : N) : bool := is_upper_ascii c || is_lower_ascii c.
Definition is_alnum_ascii (c : N) : bool := is_alpha_ascii c || is_digit_ascii c.
Definition is_space_ascii (c : N) : bool :=
  (c =? 32)%N || ((9 <=? c)%N && (c <=? 13)%N).
Definition lower1 (c : N) : N := if is_upper_ascii c then (c + 32)%N else c.
Definition upper1 (c : N) : N := if is_lower_ascii c then (c - 32)%N else c.
Definition lower (b : bytes) : bytes := map lower1 b.
Definition upper (b : bytes) : bytes := map upper1 b.

(* bytes.isupper(): at least one cased byte and no lower-case byte *)
Definition isupper (b : bytes) : bool := existsb is_upper_ascii b && negb (existsb is_lower_ascii b).
Definition islower (b : bytes) : bool := existsb is_lower_ascii b && negb (existsb is_upper_ascii b).
(* bytes.isalnum(): non-empty and all alphanumeric *)
Definition isalnum (b : bytes) : bool :=
  match b with [] => false | _ => forallb is_alnum_ascii b end.

(* ---------- prefix / find ---------- *)
Fixpoint prefixb (p d : bytes) : bool :=
  match p, d with
  | [], _ => true
  | x :: p', y :: d' => N.eqb x y && prefixb p' d'
  | _ :: _, [] => false
  end.

Definition startswith (d p : bytes) : bool := prefixb p d.
Definition endswith (d p : bytes) : bool := prefixb (rev p) (rev d).

(* first index >= i (i = absolute index of the head of d) at which p occurs; -1 if none *)
Fixpoint find_at (p d : bytes) (i : Z) : Z :=
  if prefixb p d then i
  else match d with
       | [] => -1
       | _ :: d' => find_at p d' (i + 1)
       end.

(* bytes.find(p, start) for 0 <= start *)
Definition find_from (d p : bytes) (start : Z) : Z :=
  if blen d <? start then -1 else find_at p (skipn (Z.to_nat start) d) start.
Definition find (d p : bytes) : Z := find_from d p 0.

(* ---------- generic values for the correspondence runner ---------- *)
Inductive pval :=
| VInt (z : Z)
| VBytes (b : list N)
| VStr (s : list N)
| VList (l : list pval).

Definition VBool (b : bool) : pval := VInt (if b then 1 else 0).
Definition VErr (s : list N) : pval := VList [VStr (L"error"); VStr s].

Definition val_of_res {A} (f : A -> pval) (r : res A) : pval :=
  match r with
  | Ok a => VList [VStr (L"ok"); f a]
  | Raise e => VList [VStr (L"raise"); VStr e]
  | Hang => VList [VStr (L"hang")]
  end.
