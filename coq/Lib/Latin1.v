(* str.isupper / str.islower / str.isprintable of chr(i), i in 0..255 (CPython 3.12 Unicode
   database), as 256-bit masks.  Pinned on every run by the `latin1` primitive probe. *)
From MD Require Import Lib.Base.
Definition uni_upper_mask : N := 13427317181463939568597867765832190697453934127509333512862994268160%N.
Definition uni_lower_mask : N := 115565932799544588895910149233534132031241124358194924711095082864630065790976%N.
Definition uni_printable_mask : N := 115792089237316195423570973033143491564021614088107513993966208250913461633024%N.
Definition uni_isupper (c : N) : bool := N.testbit uni_upper_mask c.
Definition uni_islower (c : N) : bool := N.testbit uni_lower_mask c.
Definition uni_isprintable (c : N) : bool := N.testbit uni_printable_mask c.
