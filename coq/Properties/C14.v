(* C14 - Character-escape decodings (XML refs, chr(), unescape(), UTF-16) are exact.  Statements pinned from the proof files by harness/mkprop.py; the shape hypotheses (xml_m_ok, chr_m_ok, utf16_m_ok) are discharged from the generated regexes in Proofs/Shapes1.v (end-to-end theorems at the bottom when present). *)
From MD Require Import Lib.Base Model.Node Model.Codec.PyInt Model.Codec.Utf Model.Codec.Percent Model.Dec.XmlChr Model.Dec.ReLib Model.Dec.EscDec.
From MD Require Import Proofs.UtfProofs Proofs.PercentProofs Proofs.PyIntProofs Proofs.XmlChrProofs Proofs.EscDecProofs.
From MD Require Import Regex.Syntax Generated.Regexes Proofs.Shapes1.
From MD Require Import Regex.LocalityProofs Proofs.RoundTrip.
From MD Require Import Proofs.RoundTrip7.

(* a run of references with decimal 0-255 / two-digit hex items decodes to exactly those bytes (any count) *)
Theorem C14_xml_codec : forall items : list bytes, xml_items_ok items -> unescape_xml (concat (map xml_reference items)) = Ok (map xml_item_num items) /\ wf_bytes (map xml_item_num items).
Proof. exact unescape_xml_items. Qed.
Print Assumptions C14_xml_codec.

(* node: value = the listed bytes, label unescape.xml, span = the match span *)
Theorem C14_xml_nodes : forall (data : bytes) (ms : list Backtrack.mtch) (itemss : list (list bytes)), Forall2 (xml_m_ok data) ms itemss -> find_xml_hex_post data ms = Ok (map xml_expected (combine ms itemss)).
Proof. exact find_xml_hex_post_exact. Qed.
Print Assumptions C14_xml_nodes.

Theorem C14_xml_outcomes : forall (data : bytes) (ms : list Backtrack.mtch), Forall (fun m : Backtrack.mtch => span_ok data m 0) ms -> (exists nodes : list node, find_xml_hex_post data ms = Ok nodes) \/ find_xml_hex_post data ms = Raise value_error.
Proof. exact find_xml_hex_post_outcomes. Qed.
Print Assumptions C14_xml_outcomes.

(* chr(n): UTF-8 of code point n exactly when n is encodable *)
Theorem C14_chr_codec : forall d b : bytes, all_digits d -> d <> [] -> blen d <= MAX_STR_DIGITS -> chr_value d = Some b <-> utf8_encode_cp (dec_value d) = Ok b.
Proof. exact chr_value_spec. Qed.
Print Assumptions C14_chr_codec.

Theorem C14_chr_regex_shape : forall (k : nat) (d' : bytes), all_digits d' -> 1 <= blen d' <= 5 -> let d := repeat 48%N k ++ d' in chr_value_res d = Ok (chr_value d) /\ (blen d <= MAX_STR_DIGITS -> chr_value d = (if is_surrogate (dec_value d') then None else Some (utf8_bytes_cp (dec_value d')))).
Proof. exact chr_value_regex_shape. Qed.
Print Assumptions C14_chr_regex_shape.

(* unencodable code points (surrogates) are not reported *)
Theorem C14_chr_nodes : forall (data : bytes) (ms : list Backtrack.mtch) (kds : list (nat * bytes)), Forall2 (chr_m_ok data) ms kds -> find_chr_post data ms = Ok (flat_map chr_expected (combine ms kds)).
Proof. exact find_chr_post_exact. Qed.
Print Assumptions C14_chr_nodes.

Theorem C14_utf8_roundtrip : forall (n : Z) (b : bytes), utf8_encode_cp n = Ok b -> utf8_decode b = Some [n].
Proof. exact utf8_roundtrip. Qed.
Print Assumptions C14_utf8_roundtrip.

Theorem C14_utf8_ok_iff : forall n : Z, (exists b : bytes, utf8_encode_cp n = Ok b) <-> valid_scalar n.
Proof. exact utf8_encode_cp_ok_iff. Qed.
Print Assumptions C14_utf8_ok_iff.

(* unescape('...'): value = percent-decoded argument *)
Theorem C14_unescape_nodes : forall (data : bytes) (ms : list Backtrack.mtch), Forall (fun m : Backtrack.mtch => span_ok data m 1) ms -> find_unescape_post data ms = Ok (map (unescape_expected data) ms).
Proof. exact find_unescape_post_exact. Qed.
Print Assumptions C14_unescape_nodes.

Theorem C14_unquote_quote : forall b : bytes, wf_bytes b -> unquote_to_bytes (quote_all b) = b.
Proof. exact unquote_quote_all. Qed.
Print Assumptions C14_unquote_quote.

Theorem C14_unescape_quote_all : forall (data : bytes) (ms : list Backtrack.mtch) (bs : list bytes), Forall2 (fun (m : Backtrack.mtch) (b : bytes) => span_ok data m 1 /\ group data m 1 = quote_all b /\ wf_bytes b) ms bs -> find_unescape_post data ms = Ok (map (fun mb : Backtrack.mtch * bytes => Node (s2b "string") (snd mb) (s2b "function.unescape") (m_start (fst mb) 0) (m_end (fst mb) 0) []) (combine ms bs)).
Proof. exact find_unescape_post_quote_all. Qed.
Print Assumptions C14_unescape_quote_all.

(* UTF-16LE Latin-1 code units decode to the UTF-8 text of those characters; never raises on such input *)
Theorem C14_utf16_codec : forall units : list N, Forall (fun c : N => (c < 256)%N) units -> utf16_to_utf8 (interleave0 units) = Ok (flat_map utf8_latin1 units).
Proof. exact utf16_to_utf8_latin1. Qed.
Print Assumptions C14_utf16_codec.

Theorem C14_utf16_nodes : forall (data : bytes) (ms : list Backtrack.mtch) (unitss : list bytes), Forall2 (utf16_m_ok data) ms unitss -> find_utf16_post data ms = Ok (map utf16_expected (combine ms unitss)).
Proof. exact find_utf16_post_exact. Qed.
Print Assumptions C14_utf16_nodes.

Theorem C14_utf16_runs : forall (r : bytes) (rest : list (bool * bytes)), wf_bytes r -> Forall (fun sr : bool * bytes => wf_bytes (snd sr)) rest -> utf16_to_utf8 (utf16_runs_text r rest) = Ok (flat_map utf8_latin1 r ++ flat_map (fun sr : bool * list N => utf16_sep_units (fst sr) ++ flat_map utf8_latin1 (snd sr)) rest).
Proof. exact find_utf16_runs_value. Qed.
Print Assumptions C14_utf16_runs.

Theorem C14_utf16_outcomes : forall (data : bytes) (ms : list Backtrack.mtch), wf_bytes data -> Forall (fun m : Backtrack.mtch => span_ok data m 0) ms -> (exists nodes : list node, find_utf16_post data ms = Ok nodes) \/ find_utf16_post data ms = Raise unicode_decode_error.
Proof. exact find_utf16_post_outcomes. Qed.
Print Assumptions C14_utf16_outcomes.

(* END TO END (regex-dependent steps by vm_compute of explore on the regex term regenerated from the source): every word XML_ESCAPE_RE can match is a run of >= 5 well-formed references *)
Theorem C14_xml_regex_shape : forall w : list N, Lang RE_xml_XML_ESCAPE_RE w -> xml_shape w.
Proof. exact xml_lang_shape. Qed.
Print Assumptions C14_xml_regex_shape.

(* find_xml_hex on EVERY input: never raises; every node decodes exactly its references *)
Theorem C14_xml_total : forall data : bytes, find_xml_hex data = Hang \/ (exists nodes : list node, find_xml_hex data = Ok nodes /\ Forall (xml_node_ok data) nodes).
Proof. exact find_xml_hex_total. Qed.
Print Assumptions C14_xml_total.

Theorem C14_chr_group_shape : forall (body : re) (w : list N), In body (BacktrackProofs.group_re RE_chr_CHR_RE 1) -> Lang body w -> chr_shape w.
Proof. exact chr_group1_shape. Qed.
Print Assumptions C14_chr_group_shape.

Theorem C14_chr_total : forall data : bytes, find_chr data = Hang \/ (exists nodes : list node, find_chr data = Ok nodes /\ Forall (chr_node_ok data) nodes).
Proof. exact find_chr_total. Qed.
Print Assumptions C14_chr_total.

Theorem C14_unescape_total : forall data : bytes, find_unescape data = Hang \/ (exists nodes : list node, find_unescape data = Ok nodes /\ Forall (unescape_node_ok data) nodes).
Proof. exact find_unescape_total. Qed.
Print Assumptions C14_unescape_total.

Theorem C14_utf16_regex_shape : forall w : list N, Lang RE_codec_UTF16_RE w -> utf16_shape w.
Proof. exact utf16_lang_shape. Qed.
Print Assumptions C14_utf16_regex_shape.

Theorem C14_utf16_total : forall data : bytes, find_utf16 data = Hang \/ (exists nodes : list node, find_utf16 data = Ok nodes /\ Forall (utf16_node_ok data) nodes).
Proof. exact find_utf16_total. Qed.
Print Assumptions C14_utf16_total.

(* END-TO-END ROUND TRIP (Proofs/RoundTrip.v): for EVERY payload, the encoded form embedded after any neutral prefix (no byte that can start a match of the pattern) and before ANY suffix is found by the model's matcher on the regenerated pattern, as ONE node with exactly the form's span and the payload as value; later nodes start after it.  `Hang` (matcher fuel on the arbitrary suffix) is the only alternative. *)
Theorem C14_unescape_roundtrip : forall (pre : list N) (p : bytes) (suf : list N), wf_bytes p -> (Datatypes.length (quote_all p) + 64 <= Backtrack.default_fuel)%nat -> neutral RE_javascript_UNESCAPE_RE pre = true -> let form := s2b "unescape('" ++ quote_all p ++ s2b "')" in let data := pre ++ form ++ suf in find_unescape data = Hang \/ (exists rest : list node, find_unescape data = Ok (Node (s2b "string") p (s2b "function.unescape") (blen pre) (blen pre + blen form) [] :: rest) /\ Forall (fun nd : node => blen pre + blen form <= n_st nd) rest).
Proof. exact find_unescape_roundtrip. Qed.
Print Assumptions C14_unescape_roundtrip.

(* UTF-16LE text of >= 7 Latin-1 units, suffix not continuing the run *)
Theorem C14_utf16_roundtrip : forall (pre units : list N) (suf : bytes), forallb utf16_unit units = true -> (7 <= Datatypes.length units)%nat -> utf16_stop suf = true -> (Datatypes.length (interleave0 units) + 64 <= Backtrack.default_fuel)%nat -> neutral RE_codec_UTF16_RE pre = true -> let form := interleave0 units in let data := pre ++ form ++ suf in find_utf16 data = Hang \/ (exists rest : list node, find_utf16 data = Ok (Node [] (flat_map utf8_latin1 units) (s2b "codec.uft-16") (blen pre) (blen pre + blen form) [] :: rest) /\ Forall (fun nd : node => blen pre + blen form <= n_st nd) rest).
Proof. exact find_utf16_roundtrip. Qed.
Print Assumptions C14_utf16_roundtrip.

(* >= 5 decimal character references, suffix not continuing the run *)
Theorem C14_xml_roundtrip : forall (pre : list N) (p suf : bytes), wf_bytes p -> (5 <= Datatypes.length p)%nat -> xml_stop suf = true -> (Datatypes.length (xml_form p) + 64 <= Backtrack.default_fuel)%nat -> neutral RE_xml_XML_ESCAPE_RE pre = true -> let form := xml_form p in let data := pre ++ form ++ suf in find_xml_hex data = Hang \/ (exists rest : list node, find_xml_hex data = Ok (Node [] p (s2b "unescape.xml") (blen pre) (blen pre + blen form) [] :: rest) /\ Forall (fun nd : node => blen pre + blen form <= n_st nd) rest).
Proof. exact find_xml_hex_roundtrip. Qed.
Print Assumptions C14_xml_roundtrip.

(* END TO END (Proofs/RoundTrip7.v): >= 5 references, each decimal or two-digit hex (either case of x and of the digits), freely mixed: the bytes, exact span *)
Theorem C14_xml_hexrefs_roundtrip : forall (pre : list N) (l : list (xml_sp * N)) (suf : bytes), wf_bytes (map snd l) -> (5 <= Datatypes.length l)%nat -> xml_stop suf = true -> (Datatypes.length (xml_form_sp l) + 64 <= Backtrack.default_fuel)%nat -> neutral RE_xml_XML_ESCAPE_RE pre = true -> let form := xml_form_sp l in let data := pre ++ form ++ suf in find_xml_hex data = Hang \/ (exists rest : list node, find_xml_hex data = Ok (Node [] (map snd l) (s2b "unescape.xml") (blen pre) (blen pre + blen form) [] :: rest) /\ Forall (fun nd : node => blen pre + blen form <= n_st nd) rest).
Proof. exact find_xml_hex_roundtrip_hexrefs. Qed.
Print Assumptions C14_xml_hexrefs_roundtrip.

(* chr / chrw / chrb(n), any letter case, leading zeros: the UTF-8 encoding of code point n, exact span *)
Theorem C14_chr_roundtrip : forall (nm : bytes) (pre : list N) (k : nat) (d' : bytes) (suf : list N), chr_name nm -> all_digits d' -> 1 <= blen d' <= 5 -> is_surrogate (dec_value d') = false -> Z.of_nat k + blen d' <= MAX_STR_DIGITS -> neutral RE_chr_CHR_RE pre = true -> let form := nm ++ s2b "(" ++ (repeat 48%N k ++ d') ++ s2b ")" in let data := pre ++ form ++ suf in find_chr data = Hang \/ (exists rest : list node, find_chr data = Ok (Node (s2b "string") (utf8_bytes_cp (dec_value d')) (s2b "function.chr") (blen pre) (blen pre + blen form) [] :: rest) /\ Forall (fun nd : node => blen pre + blen form <= n_st nd) rest).
Proof. exact find_chr_roundtrip. Qed.
Print Assumptions C14_chr_roundtrip.

(* surrogates (and arguments beyond the int-conversion limit) are not reported *)
Theorem C14_chr_unencodable : forall (nm : bytes) (pre : list N) (k : nat) (d' : bytes) (suf : list N), chr_name nm -> all_digits d' -> 1 <= blen d' <= 5 -> is_surrogate (dec_value d') = true \/ MAX_STR_DIGITS < Z.of_nat k + blen d' -> (k + 100 <= Backtrack.default_fuel)%nat -> neutral RE_chr_CHR_RE pre = true -> let form := nm ++ s2b "(" ++ (repeat 48%N k ++ d') ++ s2b ")" in let data := pre ++ form ++ suf in find_chr data = Hang \/ (exists rest : list node, find_chr data = Ok rest /\ Forall (fun nd : node => blen pre + blen form <= n_st nd) rest).
Proof. exact find_chr_no_node. Qed.
Print Assumptions C14_chr_unencodable.

Example C14_example :
  find_xml_hex (L"zz &#72;&#x69;&#33;&#10;&#x41; zz") = Ok [Node [] [72; 105; 33; 10; 65]%N (L"unescape.xml") 3 30 []]
  /\ find_chr (L"x = ChrW(233) & chr(55296)") = Ok [Node (L"string") [195; 169]%N (L"function.chr") 4 13 []].
Proof. vm_compute. split; reflexivity. Qed.
Print Assumptions C14_example.
