(* C08 - Sub-results of a decoded node are exactly a scan of its decoded value. *)
From MD Require Import Lib.Base Model.Node Model.Engine Model.Reference.
From MD Require Import Proofs.EngineRefine Proofs.EngineInv Proofs.EngineDepth.

(* what a scan attaches below a node depends on its type and value only - not on where it sits
   (start / end), nor on its obfuscation label *)
Theorem C08_fresh : forall search, wf_search search -> forall d ty v o s e o' s' e' t,
  scan_node search d (Node ty v o s e []) = Ok t ->
  scan_node search d (Node ty v o' s' e' []) = Ok (Node ty v o' s' e' (n_kids t)) /\
  (exists ks, t = Node ty v o s e ks).
Proof. exact scan_node_fresh. Qed.
Print Assumptions C08_fresh.

(* every decoded hit without decoder-supplied children receives the children of an independent scan, with the
   remaining depth, of a fresh node of the same type and value: the whole engine, restated *)
Theorem C08_engine_attaches_fresh_scans : forall search, wf_search search -> forall d n, n_kids n = [] ->
  scan_node search (S d) n =
  do s <- foldM (step (rec_fresh search d)) (results search n) (init_state n); Ok (unwind (cur s) (stack s)).
Proof. exact scan_node_attaches_fresh_scans. Qed.
Print Assumptions C08_engine_attaches_fresh_scans.

Theorem C08_decoded_fresh : forall search, wf_search search -> forall d h h2, n_kids h = [] ->
  scan_node search d h = Ok h2 ->
  exists t, scan_node search d (fresh_node h) = Ok t /\ h2 = set_kids h (n_kids t).
Proof. exact scan_node_decoded_fresh. Qed.
Print Assumptions C08_decoded_fresh.

(* on the annotated tree: every decoded node of every pass IS the reference scan of its own header with one
   less depth (deep_ok records it for each KDec node) *)
Theorem C08_every_decoded_node : forall search, wf_search search -> forall d k a b n t,
  k <> KCtx -> ref_scan_node search d k a b n = Ok t -> deep_ok search d t.
Proof. exact ref_deep_ok. Qed.
Print Assumptions C08_every_decoded_node.

Example C08_example :
  let search := fun v => if beqb v (L"xx AAAA yy") then [Node (L"b") (L"ping 10.0.0.1") (L"enc") 3 7 []]
                         else if beqb v (L"ping 10.0.0.1") then [Node (L"ip") (L"10.0.0.1") [] 5 13 []] else [] in
  option_map n_kids (match scan search 5 (L"xx AAAA yy") with Ok (Node _ _ _ _ _ [d]) => Some d | _ => None end)
  = option_map n_kids (match scan_node search 4 (Node (L"b") (L"ping 10.0.0.1") [] 0 13 []) with Ok t => Some t | _ => None end).
Proof. vm_compute. reflexivity. Qed.
Print Assumptions C08_example.
