(* C08 - Sub-results of a decoded node are exactly a scan of its decoded value. *)
From MD Require Import Lib.Base Model.Node Model.Engine Model.Reference.
From MD Require Import Proofs.EngineRefine Proofs.EngineInv Proofs.EngineDepth.

(* what a scan attaches below a node depends on its type and value only - not on where it sits
   (start / end), nor on its obfuscation label *)
Theorem C08_fresh : forall search, wf_search search -> forall d ty v o s e o' s' e' t,
  scan_node search d (Node ty v o s e []) = Ok t ->
  scan_node search d (Node ty v o' s' e' []) = Ok (Node ty v o' s' e' (n_kids t)) /\
  (exists ks, t = Node ty v o s e ks).
Proof. exact scan_node_fresh. Qed.
Print Assumptions C08_fresh.

(* every decoded hit without decoder-supplied children receives the children of an independent scan, with the
   remaining depth, of a fresh node of the same type and value: the whole engine, restated *)
Theorem C08_engine_attaches_fresh_scans : forall search, wf_search search -> forall d n, n_kids n = [] ->
  scan_node search (S d) n =
  do s <- foldM (step (rec_fresh search d)) (results search n) (init_state n); Ok (unwind (cur s) (stack s)).
Proof. exact scan_node_attaches_fresh_scans. Qed.
Print Assumptions C08_engine_attaches_fresh_scans.

Theorem C08_decoded_fresh : forall search, wf_search search -> forall d h h2, n_kids h = [] ->
  scan_node search d h = Ok h2 ->
  exists t, scan_node search d (fresh_node h) = Ok t /\ h2 = set_kids h (n_kids t).
Proof. exact scan_node_decoded_fresh. Qed.
Print Assumptions C08_decoded_fresh.

(* on the annotated tree: every decoded node of every pass IS the reference scan of its own header with one
   less depth (deep_ok records it for each KDec node) *)
Theorem C08_every_decoded_node : forall search, wf_search search -> forall d k a b n t,
  k <> KCtx -> ref_scan_node search d k a b n = Ok t -> deep_ok search d t.
Proof. exact ref_deep_ok. Qed.
Print Assumptions C08_every_decoded_node.

Example C08_example :
  let search := fun v => if beqb v (L"xx AAAA yy") then [Node (L"b") (L"ping 10.0.0.1") (L"enc") 3 7 []]
                         else if beqb v (L"ping 10.0.0.1") then [Node (L"ip") (L"10.0.0.1") [] 5 13 []] else [] in
  option_map n_kids (match scan search 5 (L"xx AAAA yy") with Ok (Node _ _ _ _ _ [d]) => Some d | _ => None end)
  = option_map n_kids (match scan_node search 4 (Node (L"b") (L"ping 10.0.0.1") [] 0 13 []) with Ok t => Some t | _ => None end).
Proof. vm_compute. reflexivity. Qed.
Print Assumptions C08_example.

(* BEGIN shipped-registry instances *)
(* THE SHIPPED SCANNER (Proofs/DefaultEngine.v): the theorems above hold for any registry with in-bounds hits; these are the same statements about the model of Multidecoder().scan itself - the regenerated registry of all 30 decoders and the keyword searchers (scan_default), the registry with find_powershell_strings replaced by any conforming decoder ps (scan_default_with ... ps; F6 is the reason it does not conform itself), and the registry with the shell module excluded (scan_noshell) - for every input, depth limit, keyword directory and tool oracle (pe_size non-negative). *)
From MD Require Import Model.EngineR Model.Default Model.Flatten Proofs.DefaultWf Proofs.DefaultEngine Proofs.ChainProofs.

(* scan_default itself (all 30 decoders, F6 included): no hypothesis at all *)
Theorem C08_shipped_fresh : forall (pe_size : Base.bytes -> BinNums.Z) (xortool : Base.bytes -> list Base.bytes) (extra : Base.label -> option (Base.bytes -> Base.res (list Node.node))) (kwdir : Registry.dtree) (d : nat) (ty : Base.label) (v : Base.bytes) (o : Base.label) (s e : BinNums.Z) (o' : Base.label) (s' e' : BinNums.Z) (t : Node.node), scan_node_r (search_default pe_size xortool extra RegistryTable.decoder_modules kwdir) d (Node.Node ty v o s e nil) = Base.Ok t -> scan_node_r (search_default pe_size xortool extra RegistryTable.decoder_modules kwdir) d (Node.Node ty v o' s' e' nil) = Base.Ok (Node.Node ty v o' s' e' (Node.n_kids t)) /\ (exists ks : list Node.node, t = Node.Node ty v o s e ks).
Proof. exact shipped_scan_fresh. Qed.
Print Assumptions C08_shipped_fresh.

Theorem C08_shipped_decoded_fresh : forall (pe_size : Base.bytes -> BinNums.Z) (xortool : Base.bytes -> list Base.bytes) (extra : Base.label -> option (Base.bytes -> Base.res (list Node.node))) (kwdir : Registry.dtree) (d : nat) (h h2 : Node.node), Node.n_kids h = nil -> scan_node_r (search_default pe_size xortool extra RegistryTable.decoder_modules kwdir) d h = Base.Ok h2 -> exists t : Node.node, scan_node_r (search_default pe_size xortool extra RegistryTable.decoder_modules kwdir) d (EngineDepth.fresh_node h) = Base.Ok t /\ h2 = Node.set_kids h (Node.n_kids t).
Proof. exact shipped_scan_decoded_fresh. Qed.
Print Assumptions C08_shipped_decoded_fresh.

Theorem C08_shipped_attaches_fresh_scans : forall (pe_size : Base.bytes -> BinNums.Z) (xortool : Base.bytes -> list Base.bytes) (extra : Base.label -> option (Base.bytes -> Base.res (list Node.node))) (kwdir : Registry.dtree) (d : nat) (n : Node.node), Node.n_kids n = nil -> scan_node_r (search_default pe_size xortool extra RegistryTable.decoder_modules kwdir) (S d) n = Base.bind (search_default pe_size xortool extra RegistryTable.decoder_modules kwdir (Node.n_val n)) (fun hits : list Node.node => Base.bind (Base.foldM (Engine.step (rec_fresh_r (search_default pe_size xortool extra RegistryTable.decoder_modules kwdir) d)) (Engine.sort_hits (List.filter Engine.nonempty_val hits)) (Engine.init_state n)) (fun s : Engine.state => Base.Ok (Engine.unwind (Engine.cur s) (Engine.stack s)))).
Proof. exact shipped_scan_attaches_fresh_scans. Qed.
Print Assumptions C08_shipped_attaches_fresh_scans.

Theorem C08_default_fresh : forall pe_size : Base.bytes -> BinNums.Z, (forall b : Base.bytes, BinInt.Z.le BinNums.Z0 (pe_size b)) -> forall (xortool : Base.bytes -> list Base.bytes) (extra : Base.label -> option (Base.bytes -> Base.res (list Node.node))) (ps : Base.bytes -> Base.res (list Node.node)) (kwdir : Registry.dtree) (d : nat) (ty : Base.label) (v : Base.bytes) (o : Base.label) (s e : BinNums.Z) (o' : Base.label) (s' e' : BinNums.Z) (t : Node.node), strong_ok ps -> scan_node_r (search_default_with pe_size xortool extra ps kwdir) d (Node.Node ty v o s e nil) = Base.Ok t -> scan_node_r (search_default_with pe_size xortool extra ps kwdir) d (Node.Node ty v o' s' e' nil) = Base.Ok (Node.Node ty v o' s' e' (Node.n_kids t)) /\ (exists ks : list Node.node, t = Node.Node ty v o s e ks).
Proof. exact default_scan_fresh. Qed.
Print Assumptions C08_default_fresh.

(* END shipped-registry instances *)
