(* C12 - URL and Windows-path parts index into, and decode from, their parent's value.  Statements pinned by harness/mkprop.py from Proofs/UrlPathProofs.v, Proofs/NetworkProofs.v, Proofs/NtPathProofs.v, Proofs/PathDecProofs.v. *)
From MD Require Import Lib.Base Model.Node Model.Codec.Percent Model.Dec.Ip Model.Dec.UrlPath Model.Dec.ReLib Model.Dec.UrlSplit Model.Dec.Network Model.Dec.NtPath Model.Dec.PathDec.
From MD Require Import Proofs.IpProofs Proofs.UrlPathProofs Proofs.UrlSplitProofs Proofs.NetworkProofs Proofs.NtPathProofs Proofs.PathDecProofs.
From MD Require Import Regex.LocalityProofs Proofs.RoundTrip Proofs.RoundTrip2 Proofs.RoundTrip3 Proofs.RoundTrip4 Proofs.RoundTrip5 Proofs.RoundTrip6.
From MD Require Import Proofs.RoundTrip9.
From MD Require Import Proofs.RoundTrip8.

(* every part child's span selects the component text inside the URL text and its value is the decoded component (scheme lower-cased + MixedCase iff, path via normalize_path, query / fragment percent-decoded); only side condition: '//' present implies a non-empty authority (always true for nodes find_urls emits: is_url requires a host) *)
Theorem C12_url_parts : forall (tlds : list bytes) (u : bytes) (r : split_result) (raw : bytes) (hs hn hq hf : bool) (kids : list node), urlsplit u = Ok r -> url_shape u r raw hs hn hq hf -> (hn = true -> sr_netloc r <> []) -> parse_url tlds u = Ok kids -> Forall (url_child tlds u r raw) kids.
Proof. exact parse_url_spans. Qed.
Print Assumptions C12_url_parts.

Theorem C12_url_parts_clean : forall (tlds : list bytes) (u : bytes) (r : split_result) (kids : list node), clean u -> urlsplit u = Ok r -> parse_url tlds u = Ok kids -> exists (raw : bytes) (hs hn hq hf : bool), url_shape u r raw hs hn hq hf /\ ((hn = true -> sr_netloc r <> []) -> Forall (url_child tlds u r raw) kids).
Proof. exact parse_url_spans_clean. Qed.
Print Assumptions C12_url_parts_clean.

(* user name, password and host index the authority text; the one remaining side condition concerns a percent-escaped opening bracket of an IPv6 literal *)
Theorem C12_authority_parts : forall (tlds : list bytes) (a userinfo username password host : bytes) (kids : list node), auth_split a = (userinfo, username, password, host) -> v6_host_literal host -> parse_authority tlds a = Ok kids -> Forall (auth_child tlds a username password host) kids.
Proof. exact parse_authority_spans. Qed.
Print Assumptions C12_authority_parts.

Theorem C12_authority_parts_unescaped : forall (tlds : list bytes) (a userinfo username password host : bytes) (kids : list node), auth_split a = (userinfo, username, password, host) -> Percent.unquote_to_bytes host = host -> parse_authority tlds a = Ok kids -> Forall (auth_child tlds a username password host) kids.
Proof. exact parse_authority_spans_unescaped. Qed.
Print Assumptions C12_authority_parts_unescaped.

Theorem C12_urlsplit_shape : forall (u : bytes) (r : split_result), urlsplit u = Ok r -> exists (raw : bytes) (hs hn hq hf : bool), url_shape (clean_url u) r raw hs hn hq hf.
Proof. exact urlsplit_shape. Qed.
Print Assumptions C12_urlsplit_shape.

(* absolute paths: the value is the RFC 3986 reduction that never pops the root, percent-decoded except %2F *)
Theorem C12_path_spec : forall p : bytes, startswith p [ch_slash] = true -> fst (normalize_path p) = render_segments (remove_dot_segments_spec (path_segments p)).
Proof. exact normalize_path_spec. Qed.
Print Assumptions C12_path_spec.

(* an absolute path stays absolute (defect F9 cannot recur) *)
Theorem C12_path_absolute : forall p : bytes, startswith p [ch_slash] = true -> startswith (fst (normalize_path p)) [ch_slash] = true.
Proof. exact normalize_path_absolute. Qed.
Print Assumptions C12_path_absolute.

Theorem C12_path_label_iff : forall p : bytes, snd (normalize_path p) = (if has_dot_segment (path_segments p) || beqb p [] then dotpath else []).
Proof. exact normalize_path_label_iff. Qed.
Print Assumptions C12_path_label_iff.

Theorem C12_path_no_dots : forall p : bytes, Forall UrlPathProofs.plain (split_on ch_slash (fst (normalize_path p))).
Proof. exact normalize_path_no_dots. Qed.
Print Assumptions C12_path_no_dots.

(* Windows path node: value = normpath of the covered text, labelled iff shorter *)
Theorem C12_winpath_value : forall (is_domain : bytes -> bool) (data : bytes) (m : Backtrack.mtch) (n : node), windows_path_node is_domain data m = Ok n -> let text := group data m 0 in n_val n = ntpath_normpath text /\ n_st n = m_start m 0 /\ n_en n = m_end m 0 /\ (n_obf n = DOTPATH_OBF <-> blen (n_val n) < blen text) /\ (n_obf n = [] <-> blen text <= blen (n_val n)) /\ (n_ty n = DEVICE_PATH_TYPE /\ is_device_path (n_val n) = true \/ n_ty n = UNC_PATH_TYPE /\ is_device_path (n_val n) = false /\ startswith (n_val n) PFX_UNC = true \/ n_ty n = WINDOWS_PATH_TYPE /\ startswith (n_val n) PFX_UNC = false).
Proof. exact windows_path_node_value. Qed.
Print Assumptions C12_winpath_value.

Theorem C12_winpath_children_in_bounds : forall (is_domain : bytes -> bool) (data : bytes) (m : Backtrack.mtch) (n : node), windows_path_node is_domain data m = Ok n -> Forall (child_in_bounds (n_val n)) (n_kids n).
Proof. exact windows_path_node_children_in_bounds. Qed.
Print Assumptions C12_winpath_children_in_bounds.

(* host and file-name children index the corresponding text of the value - unconditional since the F20 fix *)
Theorem C12_winpath_children_faithful : forall (is_domain : bytes -> bool) (data : bytes) (m : Backtrack.mtch) (n : node), windows_path_node is_domain data m = Ok n -> Forall (child_faithful (n_val n)) (n_kids n).
Proof. exact windows_path_node_children_faithful. Qed.
Print Assumptions C12_winpath_children_faithful.

Theorem C12_winpath_file_child : forall (is_domain : bytes -> bool) (data : bytes) (m : Backtrack.mtch) (n : node), windows_path_node is_domain data m = Ok n -> exists fn : bytes, seg_last (split_on SEP (n_val n)) = Ok fn /\ (forall c : node, In c (n_kids n) -> n_ty c <> ip_type -> n_ty c <> DOMAIN_TYPE -> n_val c = fn /\ n_st c = blen (n_val n) - blen fn /\ n_en c = blen (n_val n) /\ slice (n_val n) (n_st c) (n_en c) = fn /\ n_ty c = ext_map (lower (snd (ntpath_splitext fn))) /\ snd (ntpath_splitext fn) <> []).
Proof. exact windows_path_node_file_child. Qed.
Print Assumptions C12_winpath_file_child.

Theorem C12_winpath_host_child : forall (is_domain : bytes -> bool) (data : bytes) (m : Backtrack.mtch) (n c : node), windows_path_node is_domain data m = Ok n -> In c (n_kids n) -> n_ty c = ip_type \/ n_ty c = DOMAIN_TYPE -> exists pre host : bytes, host_at (n_val n) pre host /\ n_st c = blen pre /\ n_en c = blen pre + blen host /\ n_kids c = [] /\ (n_ty n = UNC_PATH_TYPE /\ pre = PFX_UNC \/ n_ty n = DEVICE_PATH_TYPE /\ blen pre = 8 /\ (exists (x : N) (u : bytes), (x = DOT \/ x = 63%N) /\ upper u = UNC_NAME /\ pre = [SEP; SEP; x; SEP] ++ u ++ [SEP])) /\ (n_ty c = DOMAIN_TYPE /\ n_val c = host /\ n_obf c = [] /\ is_domain host = true \/ n_ty c = ip_type /\ parse_ip host = Ok (n_val c, n_obf c, blen host)).
Proof. exact windows_path_node_host_child. Qed.
Print Assumptions C12_winpath_host_child.

Theorem C12_splitext : forall p : bytes, fst (ntpath_splitext p) ++ snd (ntpath_splitext p) = p.
Proof. exact ntpath_splitext_concat. Qed.
Print Assumptions C12_splitext.

(* END TO END (Proofs/RoundTrip6.v): for the simple URL class the node the scanner reports has exactly the children scheme / domain / path / query / fragment at the positions of those components in its value *)
Theorem C12_url_parts_end_to_end : forall (tlds : list bytes) (pre : list N) (scheme : bytes) (labels : list bytes) (tld path : bytes) (q f : option bytes) (suf : bytes), url_scheme_ok scheme -> labels_ok labels = true -> tld_ok tld = true -> In (upper tld) tlds -> let host := dotted labels ++ tld in (URL_HOST_MIN <= Datatypes.length host <= URL_HOST_MAX)%nat -> url_qf_ok path q f = true -> url_stop suf = true -> let form := url_form scheme host (url_rest path q f) in neutral Regexes.RE_network_URL_RE pre = true -> url_ctx_ok pre form suf = true -> (Datatypes.length form + Datatypes.length (take_trail suf) + 100 <= Backtrack.default_fuel)%nat -> let data := pre ++ form ++ suf in find_urls tlds data = Hang \/ (exists rest : list node, find_urls tlds data = Ok (Node URL_TYPE form [] (blen pre) (blen pre + blen form) (url_qf_kids scheme host path q f) :: rest) /\ Forall (fun nd : node => blen pre + blen form <= n_st nd) rest).
Proof. exact find_urls_roundtrip_query. Qed.
Print Assumptions C12_url_parts_end_to_end.

Theorem C12_windows_path_end_to_end : forall (is_domain : bytes -> bool) (pre : list N) (d : N) (segs : list bytes) (base ext suf : bytes), is_alpha_ascii d = true -> wsegs_ok segs = true -> wfile_ok base ext = true -> wpath_stop suf = true -> let form := wpath_form d segs (wfile base ext) in neutral Regexes.RE_path_WINDOWS_PATH_RE pre = true -> (2 * Datatypes.length form + 100 <= Backtrack.default_fuel)%nat -> let data := pre ++ form ++ suf in find_windows_path is_domain data = Hang \/ (exists rest : list node, find_windows_path is_domain data = Ok (Node WINDOWS_PATH_TYPE form [] (blen pre) (blen pre + blen form) (wpath_kids form base ext) :: rest) /\ Forall (fun nd : node => blen pre + blen form <= n_st nd) rest).
Proof. exact find_windows_path_roundtrip_drive. Qed.
Print Assumptions C12_windows_path_end_to_end.

(* END TO END (Proofs/RoundTrip9.v): the UNC node the scanner reports carries the host child (network.domain at 2 .. 2+|host| of the value) and the file-name children at the positions of the value *)
Theorem C12_unc_path_end_to_end : forall (tlds : list bytes) (pre : list N) (labels : list bytes) (tld share : bytes) (dirs : list bytes) (base ext suf : bytes), labels_ok labels = true -> tld_ok tld = true -> In (upper tld) tlds -> let host := dotted labels ++ tld in whost_ok host = true -> wsegs_ok (share :: dirs) = true -> wfile_ok base ext = true -> wpath_stop suf = true -> let form := wunc_form host (share :: dirs) (wfile base ext) in neutral Regexes.RE_path_WINDOWS_PATH_RE pre = true -> (2 * Datatypes.length form + 100 <= Backtrack.default_fuel)%nat -> let data := pre ++ form ++ suf in find_windows_path (is_domain tlds) data = Hang \/ (exists rest : list node, find_windows_path (is_domain tlds) data = Ok (Node UNC_PATH_TYPE form [] (blen pre) (blen pre + blen form) (Node DOMAIN_TYPE host [] 2 (2 + blen host) [] :: wpath_kids form base ext) :: rest) /\ Forall (fun nd : node => blen pre + blen form <= n_st nd) rest).
Proof. exact find_windows_path_roundtrip_unc_domain. Qed.
Print Assumptions C12_unc_path_end_to_end.

Theorem C12_unc_host_child_spec : forall (is_domain : bytes -> bool) (host : bytes), host_kid_spec is_domain host 2 (wunc_host_kids is_domain host).
Proof. exact wunc_host_kids_spec. Qed.
Print Assumptions C12_unc_host_child_spec.

(* END TO END (Proofs/RoundTrip8.v): scheme / host / port / path children at the positions of the value *)
Theorem C12_url_port_parts_end_to_end : forall (tlds : list bytes) (pre : list N) (scheme : bytes) (labels : list bytes) (tld port path suf : bytes), url_scheme_ok scheme -> labels_ok labels = true -> tld_ok tld = true -> In (upper tld) tlds -> let host := dotted labels ++ tld in (URL_HOST_MIN <= Datatypes.length host <= URL_HOST_MAX)%nat -> port_ok port = true -> url_path_ok path = true -> url_stop suf = true -> let form := url_form scheme (hostport host port) path in neutral Regexes.RE_network_URL_RE pre = true -> url_ctx_ok pre form suf = true -> (Datatypes.length form + Datatypes.length (take_trail suf) + 200 <= Backtrack.default_fuel)%nat -> let data := pre ++ form ++ suf in find_urls tlds data = Hang \/ (exists rest : list node, find_urls tlds data = Ok (Node URL_TYPE form [] (blen pre) (blen pre + blen form) (url_port_kids scheme host port path) :: rest) /\ Forall (fun nd : node => blen pre + blen form <= n_st nd) rest).
Proof. exact find_urls_roundtrip_port. Qed.
Print Assumptions C12_url_port_parts_end_to_end.

Theorem C12_url_ip_host_parts_end_to_end : forall (tlds : list bytes) (pre : list N) (scheme q path suf : bytes), url_scheme_ok scheme -> canonical_quad q = true -> url_path_ok path = true -> url_stop suf = true -> let form := url_form scheme q path in neutral Regexes.RE_network_URL_RE pre = true -> url_ctx_ok pre form suf = true -> (Datatypes.length form + Datatypes.length (take_trail suf) + 100 <= Backtrack.default_fuel)%nat -> let data := pre ++ form ++ suf in find_urls tlds data = Hang \/ (exists rest : list node, find_urls tlds data = Ok (Node URL_TYPE form [] (blen pre) (blen pre + blen form) (url_ip_kids scheme q path) :: rest) /\ Forall (fun nd : node => blen pre + blen form <= n_st nd) rest).
Proof. exact find_urls_roundtrip_iphost. Qed.
Print Assumptions C12_url_ip_host_parts_end_to_end.

Example C12_example :
  normalize_path (L"/a/../../b/./%2e%2e/c%2Fd") = (L"/c%2Fd", L"url.dotpath").
Proof. vm_compute. reflexivity. Qed.
Print Assumptions C12_example.
