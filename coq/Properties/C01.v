(* C01 - Scanning is total.  Engine: for ANY registry whose searchers return (no raise, no hang) hits that are non-empty and in bounds, the scan returns a tree for every input, node and integer depth; a raising / hanging searcher makes the scan raise / hang (nothing is swallowed), and the in-bounds precondition is necessary (C01_needs_bounds).  Decoders: END-TO-END never-raise theorems for the shipped decoders (regex-shape facts discharged by vm_compute of a verified exploration on the regex terms regenerated from the source).  The read-only views (flatten, iteration, string_summary, node_to_dict) are total Gallina functions by construction; their only partial Python primitives (slicing, hex, repr) are total in Python too.  Statements pinned by harness/mkprop.py. *)
From MD Require Import Lib.Base Model.Node Model.Engine Model.EngineR Model.Reference Model.Dec.ReLib Model.Dec.EscDec Model.Dec.Shell Model.Dec.Carets Model.Dec.B64Hex Model.Dec.PathDec Model.Dec.Network Model.Registry Model.Default.
From MD Require Import Generated.RegistryTable.
From MD Require Import Proofs.EngineRefine Proofs.EngineDepth Proofs.EngineTotal Proofs.CaretsProofs Proofs.Shapes1 Proofs.Shapes2 Proofs.Shapes3 Proofs.DefaultTotal.

(* THE WHOLE SHIPPED REGISTRY: for every input, every integer depth limit, every keyword directory and any answers of the two external tools, the scan of the default registry (all decoder functions the source marks for registration - the generated table decoder_modules, checked by vm_compute against the modelled names - plus the keyword searchers) never raises: it returns a tree, or the model's regex matcher ran out of fuel (Hang) *)
Theorem C01_scan_default_never_raises : forall (pe_size : bytes -> Z) (xortool : bytes -> list bytes) (extra : label -> option (bytes -> res (list node))), (forall b : bytes, 0 <= pe_size b) -> forall (kwdir : dtree) (depth : Z) (data : bytes), scan_default pe_size xortool extra decoder_modules kwdir depth data = Hang \/ (exists t : node, scan_default pe_size xortool extra decoder_modules kwdir depth data = Ok t).
Proof. exact scan_default_never_raises. Qed.
Print Assumptions C01_scan_default_never_raises.

Theorem C01_scan_default_no_raise : forall (pe_size : bytes -> Z) (xortool : bytes -> list bytes) (extra : label -> option (bytes -> res (list node))) (kwdir : dtree) (depth : Z) (data : bytes) (e : label), scan_default pe_size xortool extra decoder_modules kwdir depth data <> Raise e.
Proof. exact scan_default_no_raise. Qed.
Print Assumptions C01_scan_default_no_raise.

(* every searcher of the registry, for any include / exclude selection: Hang, or Ok with hits ending inside the value *)
Theorem C01_registry_ok : forall (pe_size : bytes -> Z) (xortool : bytes -> list bytes) (extra : label -> option (bytes -> res (list node))) (kwdir : dtree) (inc exc : list label), Forall dec_ok (registry pe_size xortool extra decoder_modules kwdir inc exc).
Proof. exact registry_ok. Qed.
Print Assumptions C01_registry_ok.

Theorem C01_every_registered_decoder_is_modelled : forallb (fun n : list N => existsb (beqb n) modelled_names) (concat (map snd decoder_modules)) = true.
Proof. exact registered_names_modelled_b. Qed.
Print Assumptions C01_every_registered_decoder_is_modelled.

(* the engine needs only the END of each hit to lie inside the value (known finding F6 reports end < start: harmless for totality) *)
Theorem C01_engine_total_weak : forall search : list N -> list node, (forall (v : list N) (h : node), In h (search v) -> nonempty_val h = true -> n_en h <= blen v) -> forall (d : nat) (n : node), exists t : node, scan_node search d n = Ok t.
Proof. exact scan_node_total_weak. Qed.
Print Assumptions C01_engine_total_weak.

(* a Raise / Hang of the scan is the Raise / Hang of some registry call: the engine adds neither *)
Theorem C01_engine_failure_origin : forall searchr : bytes -> res (list node), (forall (v : bytes) (hs : list node), searchr v = Ok hs -> forall h : node, In h hs -> nonempty_val h = true -> n_en h <= blen v) -> forall (d : nat) (n : node), origin searchr (scan_node_r searchr d n).
Proof. exact scan_node_r_failure_origin. Qed.
Print Assumptions C01_engine_failure_origin.

(* pure registry: wf_search -> every scan returns a tree *)
Theorem C01_engine_total : forall search : bytes -> list node, wf_search search -> forall (depth : Z) (data : bytes), exists t : node, scan search depth data = Ok t.
Proof. exact scan_total. Qed.
Print Assumptions C01_engine_total.

Theorem C01_engine_total_node : forall search : bytes -> list node, wf_search search -> forall (d : nat) (n : node), exists t : node, scan_node search d n = Ok t.
Proof. exact scan_node_total. Qed.
Print Assumptions C01_engine_total_node.

(* registry that may raise: total when every searcher call is Ok with in-bounds hits *)
Theorem C01_engine_total_res : forall searchr : bytes -> res (list node), (forall v : bytes, exists hs : list node, searchr v = Ok hs /\ (forall h : node, In h hs -> nonempty_val h = true -> hit_ok v h)) -> forall (depth : Z) (data : bytes), exists t : node, scan_r searchr depth data = Ok t.
Proof. exact scan_r_total. Qed.
Print Assumptions C01_engine_total_res.

(* registry = list of searchers run in order (build_registry): total when each is *)
Theorem C01_registry_list_total : forall ds : list (bytes -> res (list node)), (forall v : bytes, Forall (fun d : bytes -> res (list node) => exists hs : list node, d v = Ok hs /\ (forall h : node, In h hs -> nonempty_val h = true -> hit_ok v h)) ds) -> forall (depth : Z) (data : bytes), exists t : node, scan_r (run_all ds) depth data = Ok t.
Proof. exact scan_run_all_total. Qed.
Print Assumptions C01_registry_list_total.

(* a raising decoder makes the scan raise: the model swallows nothing *)
Theorem C01_raise_propagates : forall (searchr : bytes -> res (list node)) (d : nat) (n : node) (e : label), searchr (n_val n) = Raise e -> n_kids n = [] -> scan_node_r searchr (S d) n = Raise e.
Proof. exact scan_r_raise_propagates. Qed.
Print Assumptions C01_raise_propagates.

Theorem C01_hang_propagates : forall (searchr : bytes -> res (list node)) (d : nat) (n : node), searchr (n_val n) = Hang -> n_kids n = [] -> scan_node_r searchr (S d) n = Hang.
Proof. exact scan_r_hang_propagates. Qed.
Print Assumptions C01_hang_propagates.

Theorem C01_nonpositive_depth : forall (searchr : bytes -> res (list node)) (depth : Z) (data : bytes), depth <= 0 -> scan_r searchr depth data = Ok (root_node data).
Proof. exact scan_r_nonpositive. Qed.
Print Assumptions C01_nonpositive_depth.

(* a hit ending past the value makes the real loop spin forever (this was defect F5: PE section table past EOF) *)
Theorem C01_needs_bounds : scan search_oob 1 (s2b "ab") = Hang.
Proof. exact scan_total_needs_bounds_scan. Qed.
Print Assumptions C01_needs_bounds.

(* defect F1 (IndexError on a caret before a line break at end of input) cannot recur: total on every byte string *)
Theorem C01_strip_carets_total : forall cmd : bytes, exists out : bytes, strip_carets_impl cmd = Ok out.
Proof. exact strip_carets_total. Qed.
Print Assumptions C01_strip_carets_total.

(* defect F2 (non-hex after &#x) cannot recur while this re-proves on the current regex *)
Theorem C01_xml_total : forall data : bytes, find_xml_hex data = Hang \/ (exists nodes : list node, find_xml_hex data = Ok nodes /\ Forall (xml_node_ok data) nodes).
Proof. exact find_xml_hex_total. Qed.
Print Assumptions C01_xml_total.

Theorem C01_chr_total : forall data : bytes, find_chr data = Hang \/ (exists nodes : list node, find_chr data = Ok nodes /\ Forall (chr_node_ok data) nodes).
Proof. exact find_chr_total. Qed.
Print Assumptions C01_chr_total.

Theorem C01_unescape_total : forall data : bytes, find_unescape data = Hang \/ (exists nodes : list node, find_unescape data = Ok nodes /\ Forall (unescape_node_ok data) nodes).
Proof. exact find_unescape_total. Qed.
Print Assumptions C01_unescape_total.

Theorem C01_utf16_total : forall data : bytes, find_utf16 data = Hang \/ (exists nodes : list node, find_utf16 data = Ok nodes /\ Forall (utf16_node_ok data) nodes).
Proof. exact find_utf16_total. Qed.
Print Assumptions C01_utf16_total.

Theorem C01_cmd_total : forall data : bytes, find_cmd_strings data = Hang \/ (exists nodes : list node, find_cmd_strings data = Ok nodes /\ Forall (cmd_node_ok data) nodes /\ (exists ms : list Backtrack.mtch, fi Regexes.RE_shell_CMD_RE Regexes.NG_shell_CMD_RE data = Ok ms /\ Forall (ShellProofs.cmd_match_ok data) ms /\ Forall2 (ShellProofs.cmd_node_of data) ms nodes)).
Proof. exact find_cmd_strings_never_raises. Qed.
Print Assumptions C01_cmd_total.

(* defects F4 / F7 (rsplit unpack, find() = -1) cannot recur *)
Theorem C01_powershell_total : forall data : bytes, find_powershell_strings data = Hang \/ (exists nodes : list node, find_powershell_strings data = Ok nodes).
Proof. exact find_powershell_strings_never_raises. Qed.
Print Assumptions C01_powershell_total.

Theorem C01_hex_total : forall data : bytes, find_hex data = Hang \/ (exists nodes : list node, find_hex data = Ok nodes /\ Forall (hex_node_ok data) nodes).
Proof. exact find_hex_total. Qed.
Print Assumptions C01_hex_total.

Theorem C01_FromHexString_total : forall data : bytes, find_FromHexString data = Hang \/ (exists (key : option Z) (nodes : list node), get_xorkey data = Ok key /\ B64HexProofs.key_ok key /\ find_FromHexString data = Ok nodes /\ Forall (fromhex_node_ok data key) nodes).
Proof. exact find_FromHexString_total. Qed.
Print Assumptions C01_FromHexString_total.

Theorem C01_atob_total : forall data : bytes, find_atob data = Hang \/ (exists nodes : list node, find_atob data = Ok nodes /\ Forall (b64_node_ok (s2b "javascript.string") data) nodes).
Proof. exact find_atob_total. Qed.
Print Assumptions C01_atob_total.

Theorem C01_Base64Decode_total : forall data : bytes, find_Base64Decode data = Hang \/ (exists nodes : list node, find_Base64Decode data = Ok nodes /\ Forall (b64_node_ok (s2b "vba.string") data) nodes).
Proof. exact find_Base64Decode_total. Qed.
Print Assumptions C01_Base64Decode_total.

Theorem C01_FromBase64String_total : forall data : bytes, find_FromBase64String data = Hang \/ (exists (key : option Z) (nodes : list node), get_xorkey data = Ok key /\ B64HexProofs.key_ok key /\ find_FromBase64String data = Ok nodes /\ Forall (fromb64_node_ok data key) nodes).
Proof. exact find_FromBase64String_total. Qed.
Print Assumptions C01_FromBase64String_total.

Theorem C01_base64_total : forall data : bytes, find_base64 data = Hang \/ (exists nodes : list node, find_base64 data = Ok nodes /\ Forall (base64_node_ok data) nodes).
Proof. exact find_base64_total. Qed.
Print Assumptions C01_base64_total.

(* defect F3 (xor key above 255 -> ValueError) cannot recur: never raises for any key the regex admits *)
Theorem C01_powershell_bytes_total : forall (xortool : bytes -> list bytes) (data : bytes), find_powershell_bytes xortool data = Hang \/ (exists nodes : list node, find_powershell_bytes xortool data = Ok nodes /\ Forall (psb_node_ok xortool data) nodes).
Proof. exact find_powershell_bytes_total. Qed.
Print Assumptions C01_powershell_bytes_total.

Theorem C01_xorkey_total : forall data : bytes, get_xorkey data = Hang \/ (exists k : option Z, get_xorkey data = Ok k).
Proof. exact get_xorkey_total. Qed.
Print Assumptions C01_xorkey_total.

Theorem C01_windows_path_total : forall (is_domain : bytes -> bool) (data : bytes), find_windows_path is_domain data = Hang \/ (exists nodes : list node, find_windows_path is_domain data = Ok nodes /\ Forall (wpath_node_ok data) nodes).
Proof. exact find_windows_path_total. Qed.
Print Assumptions C01_windows_path_total.

Theorem C01_pe_files_total : forall (pe_size : bytes -> Z) (data : bytes), find_pe_files pe_size data = Hang \/ (exists nodes : list node, find_pe_files pe_size data = Ok nodes /\ Forall (PathDecProofs.pe_node_ok data) nodes /\ ((forall b : bytes, 0 <= pe_size b) -> Forall (fun n : node => 0 <= n_st n /\ n_st n < n_en n /\ n_en n <= blen data /\ n_val n <> []) nodes)).
Proof. exact find_pe_files_total. Qed.
Print Assumptions C01_pe_files_total.

Theorem C01_executable_name_total : forall data : bytes, find_executable_name data = Hang \/ (exists nodes : list node, find_executable_name data = Ok nodes /\ Forall (hit_node_ok Regexes.RE_filename_EXECUTABLE_RE (s2b "executable.filename") data) nodes).
Proof. exact find_executable_name_total. Qed.
Print Assumptions C01_executable_name_total.

Theorem C01_library_total : forall data : bytes, find_library data = Hang \/ (exists nodes : list node, find_library data = Ok nodes /\ Forall (hit_node_ok Regexes.RE_filename_LIBRARY_RE (s2b "executable.library.filename") data) nodes).
Proof. exact find_library_total. Qed.
Print Assumptions C01_library_total.

Theorem C01_path_total : forall data : bytes, find_path data = Hang \/ (exists nodes : list node, find_path data = Ok nodes /\ Forall (hit_node_ok Regexes.RE_path_PATH_RE (s2b "path") data) nodes).
Proof. exact find_path_total. Qed.
Print Assumptions C01_path_total.

Theorem C01_urls_total : forall (tlds : list bytes) (data : bytes), find_urls tlds data = Hang \/ (exists nodes : list node, find_urls tlds data = Ok nodes /\ Forall (NetworkProofs.url_node_ok tlds data) nodes).
Proof. exact find_urls_total. Qed.
Print Assumptions C01_urls_total.

Theorem C01_emails_total : forall (tlds : list bytes) (data : bytes), find_emails tlds data = Hang \/ (exists nodes : list node, find_emails tlds data = Ok nodes /\ Forall (email_node_total_ok tlds data) nodes).
Proof. exact find_emails_total. Qed.
Print Assumptions C01_emails_total.

Theorem C01_ips_total : forall data : bytes, find_ips data = Hang \/ (exists nodes : list node, find_ips data = Ok nodes /\ Forall (NetworkProofs.ip_node_ok data) nodes).
Proof. exact find_ips_total. Qed.
Print Assumptions C01_ips_total.

Theorem C01_domains_total : forall (tlds root_fpos tld_fpos : list bytes) (data : bytes), find_domains tlds root_fpos tld_fpos data = Hang \/ (exists nodes : list node, find_domains tlds root_fpos tld_fpos data = Ok nodes /\ Forall (NetworkProofs.domain_node_ok tlds data) nodes).
Proof. exact find_domains_total. Qed.
Print Assumptions C01_domains_total.

Example C01_example :
  scan_r (run_all [find_xml_hex; find_chr; find_cmd_strings]) 10 (L"abc^" ++ [13]%N) = Ok (root_node (L"abc^" ++ [13]%N)).
Proof. vm_compute. reflexivity. Qed.
Print Assumptions C01_example.
