(* C16 - Shell commands are delimited and de-escaped by cmd.exe rules.  Statements pinned from Proofs/CaretsProofs.v and Proofs/ShellProofs.v by harness/mkprop.py.  Known finding F6 (the no-context PowerShell branch ends at len(data) - start) is kept in the model as coded; ps_end_ge_start_except_no_context proves it is the ONLY branch that can misplace the end. *)
From MD Require Import Lib.Base Model.Node Model.Dec.Carets Model.Dec.ReLib Model.Dec.Shell.
From MD Require Import Proofs.CaretsProofs Proofs.ShellProofs.
From MD Require Import Regex.Syntax Generated.Regexes Proofs.Shapes1.
From MD Require Import Regex.LocalityProofs Proofs.RoundTrip Proofs.RoundTrip2 Proofs.RoundTrip3 Proofs.RoundTrip4 Proofs.RoundTrip5 Proofs.RoundTrip6.

(* the index loop of strip_carets (as written, with getitem that can raise) equals the cmd.exe specification cmd_unescape on EVERY byte string: never raises, never hangs *)
Theorem C16_carets : forall cmd : bytes, strip_carets_impl cmd = Ok (cmd_unescape cmd).
Proof. exact strip_carets_correct. Qed.
Print Assumptions C16_carets.

Theorem C16_no_caret_identity : forall cmd : bytes, ~ In 94%N cmd -> cmd_unescape cmd = cmd.
Proof. exact cmd_unescape_no_caret. Qed.
Print Assumptions C16_no_caret_identity.

(* labelled caret-unescaped exactly when de-escaping changed the text *)
Theorem C16_label_iff : forall cmd : bytes, exists lab : label, deobfuscate_cmd cmd = Ok (cmd_unescape cmd, lab) /\ (lab = carets_label \/ lab = []) /\ (lab = carets_label <-> cmd_unescape cmd <> cmd) /\ (lab = [] <-> cmd_unescape cmd = cmd).
Proof. exact deobfuscate_label_iff. Qed.
Print Assumptions C16_label_iff.

Theorem C16_changed_iff_shorter : forall cmd : bytes, cmd_unescape cmd <> cmd <-> (Datatypes.length (cmd_unescape cmd) < Datatypes.length cmd)%nat.
Proof. exact cmd_unescape_changed_iff_shorter. Qed.
Print Assumptions C16_changed_iff_shorter.

(* the cut is the first index at which the running parenthesis balance goes negative, else the length *)
Theorem C16_paren_cut : forall d : bytes, 0 <= paren_cut d <= blen d /\ (forall k : Z, 0 <= k <= paren_cut d -> 0 <= balance (slice d 0 k)) /\ (paren_cut d < blen d -> getitem d (paren_cut d) = Ok ch_rparen /\ balance (slice d 0 (paren_cut d)) = 0 /\ balance (slice d 0 (paren_cut d + 1)) = -1) /\ (paren_cut d = blen d -> forall k : Z, 0 <= balance (slice d 0 k)).
Proof. exact paren_cut_spec. Qed.
Print Assumptions C16_paren_cut.

(* cmd result: starts at the cmd token, ends at the first unbalanced ')' (else the end of the match), value = de-escaped text of exactly that span, except for the quote repair which is characterised exactly *)
Theorem C16_cmd_span : forall (data : list N) (mt : list (option (Z * Z))) (s e : Z), nth 0 mt None = Some (s, e) -> 0 <= s -> s <= e -> e <= blen data -> let k := paren_cut (slice data s e) in let cut := slice data s (s + k) in let deob := cmd_unescape cut in 0 <= k <= e - s /\ match split_ws deob with | [] => cmd_one data mt = Raise index_err | w0 :: ws => exists n : node, cmd_one data mt = Ok n /\ n_ty n = cmd_type /\ n_st n = s /\ n_en n = s + k /\ n_kids n = [] /\ (n_obf n = carets_label /\ deob <> cut \/ n_obf n = [] /\ deob = cut) /\ (trailing_quote w0 = false -> n_val n = deob) /\ (trailing_quote w0 = true -> exists (c : N) (body : list N) (q : N), w0 = c :: body ++ [q] /\ (q = ch_dquote \/ q = ch_squote) /\ c <> q /\ n_val n = Ip.join [ch_space] ((c :: body) :: ws) /\ split_ws (n_val n) = (c :: body) :: ws) end.
Proof. exact cmd_span. Qed.
Print Assumptions C16_cmd_span.

Theorem C16_cmd_raises_iff : forall (data : bytes) (mt : Backtrack.mtch), (has_word (cmd_unescape (cmd_cut (group data mt 0))) = false -> cmd_one data mt = Raise index_err) /\ (has_word (cmd_unescape (cmd_cut (group data mt 0))) = true -> exists n : node, cmd_one data mt = Ok n).
Proof. exact cmd_one_raises_iff. Qed.
Print Assumptions C16_cmd_raises_iff.

Theorem C16_cmd_total : forall (data : bytes) (ms : list Backtrack.mtch), Forall (cmd_match_ok data) ms -> exists nodes : list node, find_cmd_strings_post data ms = Ok nodes /\ Forall2 (cmd_node_of data) ms nodes.
Proof. exact find_cmd_strings_total. Qed.
Print Assumptions C16_cmd_total.

(* PowerShell result: to the close of the enclosing quoted string / FOR-loop clause, else to the end of the text *)
Theorem C16_ps_end_context : forall (data : list N) (start : Z) (b : bytes), 0 <= start <= blen data -> let e := ps_end data start (CtxBound b) in start <= e <= blen data /\ (occurs_at data (close_of b) e /\ (forall j : Z, start <= j < e -> ~ occurs_at data (close_of b) j) \/ e = blen data /\ (forall j : Z, start <= j <= blen data -> ~ occurs_at data (close_of b) j)).
Proof. exact ps_end_context. Qed.
Print Assumptions C16_ps_end_context.

Theorem C16_ps_end_ge_start_except_no_context : forall (data : list N) (start : Z) (ctx : ps_ctx), 0 <= start <= blen data -> ctx_ok data start ctx -> match ctx with | CtxNone => ps_end data start ctx = blen data - start /\ (ps_end data start ctx < start <-> blen data < 2 * start) | _ => start <= ps_end data start ctx <= blen data end.
Proof. exact ps_end_ge_start_except_no_context. Qed.
Print Assumptions C16_ps_end_ge_start_except_no_context.

Theorem C16_ps_node_shapes : forall (data : bytes) (start : Z) (ctx : ps_ctx), ctx_assert_ok ctx -> let en := ps_end data start ctx in let text := ps_text data start ctx in let deob := cmd_unescape text in if ctx_is_enc ctx then exists r : option bytes, ps_enc_value deob = Ok r /\ ps_body data start ctx = Ok match r with | Some v => if beqb deob text then [Node ps_type v ps_b64_label start en []] else [Node cmd_type deob carets_label start en [Node ps_type v ps_b64_label 0 (blen v) []]] | None => [] end else ps_body data start ctx = Ok [Node ps_type deob (if beqb deob text then [] else carets_label) start en []].
Proof. exact ps_node_shapes. Qed.
Print Assumptions C16_ps_node_shapes.

(* encoded-command switch and its argument replaced by -Command and the UTF-16 decoding of the base64 text *)
Theorem C16_enc_value : forall (inv : list N) (c : N) (ws : list N) (e : N) (enc : list N) (raw u : bytes), is_space_ascii c = false -> ws <> [] -> has_word ws = false -> forallb nonws (e :: enc) = true -> let e64 := strip_quotes (e :: enc) in blen e64 mod 4 = 0 -> ~ In ch_caret e64 -> Base64.a2b_base64 e64 = Ok raw -> Utf.utf16_ignore_to_utf8 raw = Ok u -> exists (a0 : bytes) (rest : list bytes), split_ws (slash_to_dash (inv ++ [c])) = a0 :: rest /\ ps_enc_value ((inv ++ [c]) ++ ws ++ e :: enc) = Ok (Some (Ip.join [ch_space] (slice_to (if trailing_quote a0 then slice_to a0 (-1) :: rest else a0 :: rest) (-1)) ++ s2b " -Command " ++ u)).
Proof. exact ps_enc_value_spec. Qed.
Print Assumptions C16_enc_value.

Theorem C16_enc_total : forall deob : bytes, exists r : option bytes, ps_enc_value deob = Ok r.
Proof. exact ps_enc_value_total. Qed.
Print Assumptions C16_enc_total.

Theorem C16_ps_total : forall (data : bytes) (ms : list Backtrack.mtch), ps_bounds_ok data ms -> forall e : label, find_powershell_strings_post data ms <> Raise e.
Proof. exact find_powershell_strings_post_total. Qed.
Print Assumptions C16_ps_total.

(* END TO END: what CMD_RE (regenerated from the source) can match starts with a byte that is not white-space, caret or ')' *)
Theorem C16_cmd_regex_shape : forall w : list N, Lang RE_shell_CMD_RE w -> cmd_shape w.
Proof. exact cmd_lang_shape. Qed.
Print Assumptions C16_cmd_regex_shape.

(* find_cmd_strings on EVERY input: never raises; nodes in bounds with start < end *)
Theorem C16_cmd_never_raises : forall data : bytes, find_cmd_strings data = Hang \/ (exists nodes : list node, find_cmd_strings data = Ok nodes /\ Forall (cmd_node_ok data) nodes /\ (exists ms : list Backtrack.mtch, fi RE_shell_CMD_RE NG_shell_CMD_RE data = Ok ms /\ Forall (cmd_match_ok data) ms /\ Forall2 (cmd_node_of data) ms nodes)).
Proof. exact find_cmd_strings_never_raises. Qed.
Print Assumptions C16_cmd_never_raises.

Theorem C16_ps_lookback_shape : forall w : list N, Lang RE_shell_find_powershell_strings_0 w -> bound_ok w.
Proof. exact ps_lookback_lang_shape. Qed.
Print Assumptions C16_ps_lookback_shape.

(* find_powershell_strings on EVERY input never raises *)
Theorem C16_ps_never_raises : forall data : bytes, find_powershell_strings data = Hang \/ (exists nodes : list node, find_powershell_strings data = Ok nodes).
Proof. exact find_powershell_strings_never_raises. Qed.
Print Assumptions C16_ps_never_raises.

(* END TO END (Proofs/RoundTrip5.v): a cmd command line after a neutral prefix is reported from the cmd token to end of text / NUL / the first unbalanced closing parenthesis, value = de-escaped text, labelled exactly when that changed it *)
Theorem C16_cmd_found : forall (kw : bytes) (sp : N) (args pre : list N) (suf : bytes), lower kw = s2b "cmd" -> is_space_ascii sp = true -> forallb nn_byte args = true -> let form := kw ++ sp :: args in par_ok form 0 = true -> cmd_end_ok form suf = true -> neutral RE_shell_CMD_RE pre = true -> Backtrack.word_at (rev pre) = false -> (Datatypes.length form + Datatypes.length suf + 80 <= Backtrack.default_fuel)%nat -> let data := pre ++ form ++ suf in find_cmd_strings data = Hang \/ (exists rest : list node, find_cmd_strings data = Ok (Node (s2b "shell.cmd") (cmd_unescape form) (cmd_label form) (blen pre) (blen pre + blen form) [] :: rest) /\ Forall (fun nd : node => blen pre + blen form <= n_st nd) rest).
Proof. exact find_cmd_strings_roundtrip. Qed.
Print Assumptions C16_cmd_found.

(* the caret layer round trip: for a caret-escaped spelling e of p the value is cmd /c p *)
Theorem C16_caret_layer : forall (pre : list N) (e p suf : bytes), cmd_unescape e = p -> forallb nn_byte e = true -> par_ok e 0 = true -> cmd_end_ok e suf = true -> neutral RE_shell_CMD_RE pre = true -> Backtrack.word_at (rev pre) = false -> (Datatypes.length e + Datatypes.length suf + 90 <= Backtrack.default_fuel)%nat -> let form := s2b "cmd /c " ++ e in let data := pre ++ form ++ suf in find_cmd_strings data = Hang \/ (exists rest : list node, find_cmd_strings data = Ok (Node (s2b "shell.cmd") (s2b "cmd /c " ++ p) (if beqb p e then [] else carets_label) (blen pre) (blen pre + blen form) [] :: rest) /\ Forall (fun nd : node => blen pre + blen form <= n_st nd) rest).
Proof. exact find_cmd_strings_caret_layer. Qed.
Print Assumptions C16_caret_layer.

Example C16_example :
  strip_carets_impl (L"m^sh^ta ^^ ""a^b"" x^") = Ok (L"mshta ^ ""a^b"" x")
  /\ find_cmd_strings (L"(cmd /c e^cho (a) b) c") = Ok [Node (L"shell.cmd") (L"cmd /c echo (a) b") (L"unescape.shell.carets") 1 19 []].
Proof. vm_compute. split; reflexivity. Qed.
Print Assumptions C16_example.
