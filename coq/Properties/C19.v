(* C19 - Flattening substitutes decoded values for their original spans and nothing else. *)
From MD Require Import Lib.Base Model.Node Model.Flatten Proofs.FlattenProofs.

(* flatten = the node's value with the left-to-right selected children spliced in *)
Theorem C19_flatten_spec : forall n, flatten n = splice (n_val n) (selected flatten (n_val n) (n_kids n) 0).
Proof. exact flatten_spec. Qed.
Print Assumptions C19_flatten_spec.

(* the selection never goes backwards: each selected span starts at or after the end of the previous one *)
Theorem C19_selected_chained : forall fl v l off, chained off (selected fl v l off).
Proof. exact selected_chained. Qed.
Print Assumptions C19_selected_chained.

(* every substituted triple comes from a child whose flattened value differs from the text it covers,
   with exactly that child's span and (quoted) flattened value as replacement *)
Theorem C19_selected_from_child : forall fl v l off x, In x (selected fl v l off) ->
  exists c, In c l /\ t_st x = n_st c /\ t_en x = n_en c /\ fl c <> original v c /\
            t_rep x = quote_if_string (n_ty c) (fl c).
Proof. exact selected_from_child. Qed.
Print Assumptions C19_selected_from_child.

Theorem C19_quotes : forall n x, In x (selected flatten (n_val n) (n_kids n) 0) ->
  exists c, In c (n_kids n) /\ t_st x = n_st c /\ t_en x = n_en c /\
    (endswith (n_ty c) (L"string") = true -> t_rep x = [34%N] ++ flatten c ++ [34%N]) /\
    (endswith (n_ty c) (L"string") = false -> t_rep x = flatten c).
Proof. exact flatten_quotes. Qed.
Print Assumptions C19_quotes.

(* bytes before the first and after the last substituted span are preserved *)
Theorem C19_outside_preserved : forall n x0 rest,
  Forall (in_bounds (n_val n)) (n_kids n) ->
  selected flatten (n_val n) (n_kids n) 0 = x0 :: rest ->
  exists mid, flatten n = firstn (Z.to_nat (t_st x0)) (n_val n) ++ mid ++ skipn (Z.to_nat (t_en (last rest x0))) (n_val n).
Proof. exact flatten_outside_preserved. Qed.
Print Assumptions C19_outside_preserved.

Theorem C19_length : forall n, Forall (in_bounds (n_val n)) (n_kids n) ->
  blen (flatten n) = blen (n_val n) + delta (selected flatten (n_val n) (n_kids n) 0).
Proof. exact flatten_length. Qed.
Print Assumptions C19_length.

(* a tree in which no node's value differs from the text it covers flattens to the root value *)
Theorem C19_identity : forall n, all_original n -> flatten n = n_val n.
Proof. exact flatten_identity_original. Qed.
Print Assumptions C19_identity.

Theorem C19_leaf : forall t v o s e, flatten (Node t v o s e []) = v.
Proof. exact flatten_leaf. Qed.
Print Assumptions C19_leaf.

Example C19_example :
  flatten (Node [] (L"xxHELLOworldyy") [] 0 14
            [Node (L"a") (L"HELLO") [] 2 7 []; Node (L"string") (L"DEC") (L"o") 4 12 []; Node (L"b") (L"Q") [] 12 13 []])
  = L"xxHE""DEC""Qy".
Proof. vm_compute. reflexivity. Qed.
Print Assumptions C19_example.
