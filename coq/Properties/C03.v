(* C03 - The result is a well-formed tree over the input with in-bounds spans.  Engine part: what the scan attaches, for ANY registry whose hits are in bounds (wf_search).  Registry part (Proofs/DefaultWf.v): that precondition is DISCHARGED for the shipped registry - every shipped decoder except find_powershell_strings reports only in-bounds, non-inverted spans on every input (keyword searchers included), so whole scans with that decoder replaced by any conforming one (or the shell module excluded) have every span in bounds at every level; find_powershell_strings is proved NOT to conform (known finding F6: the test-suite input gives span (68,35)), so the carve-out is exact.  Parent pointers are mutable aliasing outside a value-level model: checked on the implementation side of every correspondence case. *)
From Coq Require Import Sorting.Sorted.
From MD Require Import Lib.Base Model.Node Model.Engine Model.Reference Model.EngineR Model.Default Model.Dec.Shell.
From MD Require Import Proofs.EngineRefine Proofs.EngineInv Proofs.EngineDepth Proofs.DefaultWf.

(* every child the scan attaches lies inside its parent's value, with start < end *)
Theorem C03_spans : forall (search : bytes -> list node) (d : nat) (n t : node), wf_search search -> n_kids n = [] -> scan_node search (S d) n = Ok t -> n_val t = n_val n /\ Forall (fun c : node => 0 <= n_st c /\ n_st c < n_en c <= blen (n_val t)) (n_kids t) /\ StronglySorted sib_lt (n_kids t).
Proof. exact scan_children_spans. Qed.
Print Assumptions C03_spans.

(* ... at every nesting level and every depth: the annotated reference tree (which the engine's tree is the erasure of, C06) satisfies deep_ok *)
Theorem C03_all_levels : forall search : bytes -> list node, wf_search search -> forall (d : nat) (k : kind) (a b : Z) (n : node) (t : anode), k <> KCtx -> ref_scan_node search d k a b n = Ok t -> deep_ok search d t.
Proof. exact ref_deep_ok. Qed.
Print Assumptions C03_all_levels.

(* nothing appears from nowhere: every node attached by a pass carries position, type, value and obfuscation of a hit the registry reported on the searched value *)
Theorem C03_nodes_from_hits : forall (search : bytes -> list node) (d : nat) (k : kind) (a b : Z) (n : node) (t : anode), n_kids n = [] -> ref_scan_node search (S d) k a b n = Ok t -> forall x : anode, In x (pass_nodes (a_kids t)) -> exists h : node, In h (search (n_val n)) /\ nonempty_val h = true /\ n_st h = a_lo x /\ n_en h = a_hi x /\ n_ty h = n_ty (a_node x) /\ n_val h = n_val (a_node x) /\ n_obf h = n_obf (a_node x).
Proof. exact attached_from_hit. Qed.
Print Assumptions C03_nodes_from_hits.

(* the header of a scanned node is never modified, only its child list *)
Theorem C03_header_kept : forall (search : bytes -> list node) (d : nat) (n t : node), scan_node search d n = Ok t -> exists ks : list node, t = set_kids n ks.
Proof. exact scan_node_hdr. Qed.
Print Assumptions C03_header_kept.

(* REGISTRY PART. each of the 29 shipped decoders other than find_powershell_strings: on every input, every reported hit with a non-empty value has 0 <= start < end <= len (pefile oracle: any non-negative size) *)
Theorem C03_shipped_decoders_in_bounds : forall pe_size : bytes -> Z, (forall b : bytes, 0 <= pe_size b) -> forall (xortool : bytes -> list bytes) (extra : label -> option (bytes -> res (list node))) (name : label), In name strong_names -> strong_ok (decoder_by_name pe_size xortool extra name).
Proof. exact strong_names_ok. Qed.
Print Assumptions C03_shipped_decoders_in_bounds.

Theorem C03_keyword_searchers_in_bounds : forall (lbl : label) (kws : list bytes), strong_ok (Keyword.find_keywords lbl kws).
Proof. exact find_keywords_strong. Qed.
Print Assumptions C03_keyword_searchers_in_bounds.

(* the whole registry (any keyword directory, any include / exclude) conforms as soon as find_powershell_strings does *)
Theorem C03_registry_in_bounds : forall pe_size : bytes -> Z, (forall b : bytes, 0 <= pe_size b) -> forall (xortool : bytes -> list bytes) (extra : label -> option (bytes -> res (list node))) (kwdir : Registry.dtree) (inc exc : list label), strong_ok find_powershell_strings -> Forall strong_ok (registry pe_size xortool extra RegistryTable.decoder_modules kwdir inc exc).
Proof. exact registry_strong_ok_hyp. Qed.
Print Assumptions C03_registry_in_bounds.

Theorem C03_registry_without_shell : forall pe_size : bytes -> Z, (forall b : bytes, 0 <= pe_size b) -> forall (xortool : bytes -> list bytes) (extra : label -> option (bytes -> res (list node))) (kwdir : Registry.dtree) (inc exc : list label), Registry.mem_label (s2b "shell") exc = true -> Forall strong_ok (registry pe_size xortool extra RegistryTable.decoder_modules kwdir inc exc).
Proof. exact registry_noshell_strong_ok. Qed.
Print Assumptions C03_registry_without_shell.

(* ... which is exactly the engine theorems' precondition *)
Theorem C03_registry_wf_search : forall ds : list (bytes -> res (list node)), Forall strong_ok ds -> wf_search (search_of (run_all ds)).
Proof. exact run_all_wf_search. Qed.
Print Assumptions C03_registry_wf_search.

(* whole scan with the shipped registry, find_powershell_strings replaced by ANY conforming decoder: root value = input, children in bounds, sorted *)
Theorem C03_default_scan_spans : forall pe_size : bytes -> Z, (forall b : bytes, 0 <= pe_size b) -> forall (xortool : bytes -> list bytes) (extra : label -> option (bytes -> res (list node))) (ps : bytes -> res (list node)) (kwdir : Registry.dtree) (depth : Z) (data : bytes) (t : node), strong_ok ps -> 0 < depth -> scan_default_with pe_size xortool extra ps kwdir depth data = Ok t -> n_val t = data /\ Forall (child_span_ok data) (n_kids t) /\ StronglySorted sib_lt (n_kids t).
Proof. exact default_scan_spans_in_bounds. Qed.
Print Assumptions C03_default_scan_spans.

Theorem C03_default_scan_all_levels : forall pe_size : bytes -> Z, (forall b : bytes, 0 <= pe_size b) -> forall (xortool : bytes -> list bytes) (extra : label -> option (bytes -> res (list node))) (ps : bytes -> res (list node)) (kwdir : Registry.dtree) (depth : Z) (data : bytes) (t : node), strong_ok ps -> scan_default_with pe_size xortool extra ps kwdir depth data = Ok t -> exists a : anode, ref_scan (search_of (search_default_with pe_size xortool extra ps kwdir)) depth data = Ok a /\ erase a = t /\ deep_ok (search_of (search_default_with pe_size xortool extra ps kwdir)) (Z.to_nat depth) a.
Proof. exact default_scan_deep_ok. Qed.
Print Assumptions C03_default_scan_all_levels.

Theorem C03_scan_default_if_ps_conforms : forall pe_size : bytes -> Z, (forall b : bytes, 0 <= pe_size b) -> forall (xortool : bytes -> list bytes) (extra : label -> option (bytes -> res (list node))) (kwdir : Registry.dtree) (depth : Z) (data : bytes) (t : node), strong_ok find_powershell_strings -> 0 < depth -> scan_default pe_size xortool extra RegistryTable.decoder_modules kwdir depth data = Ok t -> n_val t = data /\ Forall (child_span_ok data) (n_kids t) /\ StronglySorted sib_lt (n_kids t).
Proof. exact scan_default_spans_in_bounds_hyp. Qed.
Print Assumptions C03_scan_default_if_ps_conforms.

Theorem C03_scan_exclude_shell : forall pe_size : bytes -> Z, (forall b : bytes, 0 <= pe_size b) -> forall (xortool : bytes -> list bytes) (extra : label -> option (bytes -> res (list node))) (kwdir : Registry.dtree) (depth : Z) (data : bytes) (t : node), let ds := registry pe_size xortool extra RegistryTable.decoder_modules kwdir [] [s2b "shell"] in scan_r (run_all ds) depth data = Ok t -> exists a : anode, ref_scan (search_of (run_all ds)) depth data = Ok a /\ erase a = t /\ deep_ok (search_of (run_all ds)) (Z.to_nat depth) a.
Proof. exact scan_exclude_shell_deep_ok. Qed.
Print Assumptions C03_scan_exclude_shell.

(* the carve-out is exact: find_powershell_strings does NOT conform (known finding F6) *)
Theorem C03_F6_carve_out_exact : ~ strong_ok find_powershell_strings.
Proof. exact find_powershell_strings_not_strong. Qed.
Print Assumptions C03_F6_carve_out_exact.

Theorem C03_F6_witness : exists h : node, find_powershell_strings DefaultTotal.f6_text = Ok [Node (s2b "shell.powershell") DefaultTotal.f6_text [] 0 103 []; h] /\ (n_st h, n_en h) = (68, 35) /\ blen DefaultTotal.f6_text = 103 /\ nonempty_val h = true /\ ~ hit_ok DefaultTotal.f6_text h.
Proof. exact f6_hit_68_35. Qed.
Print Assumptions C03_F6_witness.

Theorem C03_pe_oracle_hypothesis_needed : ~ strong_ok (PathDec.find_pe_files (fun _ : bytes => -10)).
Proof. exact pe_negative_size_not_strong. Qed.
Print Assumptions C03_pe_oracle_hypothesis_needed.

(* the root carries the unmodified input, empty type / obfuscation, span 0..len (any registry, any depth) *)
Theorem C03_root : forall search depth data t, scan search depth data = Ok t ->
  exists ks, t = Node [] data [] 0 (blen data) ks.
Proof.
  intros search depth data t H. unfold scan in H. destruct (depth <=? 0).
  - injection H as <-. exists []. reflexivity.
  - destruct (scan_node_hdr search _ _ _ H) as [ks ->]. exists ks. reflexivity.
Qed.
Print Assumptions C03_root.

(* the precondition is needed: a hit past the end of the value makes the real loop spin forever *)
Example C03_out_of_bounds_hangs :
  scan (fun v => [Node (L"t") (L"x") [] 0 (blen v + 1) []]) 1 (L"ab") = Hang.
Proof. vm_compute. reflexivity. Qed.
Print Assumptions C03_out_of_bounds_hangs.

