(* C03 - The result is a well-formed tree over the input with in-bounds spans.
   Engine part: what the scan attaches.  The discharge of the precondition (wf_search, in-bounds
   decoder-supplied children) for the shipped decoders is per decoder (Properties of C10/C12/C13/C16 ...);
   parent pointers are mutable aliasing outside a value-level model: checked on the implementation side of
   every correspondence case. *)
From Coq Require Import Sorting.Sorted.
From MD Require Import Lib.Base Model.Node Model.Engine Model.Reference.
From MD Require Import Proofs.EngineRefine Proofs.EngineInv Proofs.EngineDepth.

(* the root carries the unmodified input, empty type / obfuscation, span 0..len (any registry, any depth) *)
Theorem C03_root : forall search depth data t, scan search depth data = Ok t ->
  exists ks, t = Node [] data [] 0 (blen data) ks.
Proof.
  intros search depth data t H. unfold scan in H. destruct (depth <=? 0).
  - injection H as <-. exists []. reflexivity.
  - destruct (scan_node_hdr search _ _ _ H) as [ks ->]. exists ks. reflexivity.
Qed.
Print Assumptions C03_root.

(* every child the scan attaches lies inside its parent's value, with start < end *)
Theorem C03_spans : forall search d n t, wf_search search -> n_kids n = [] ->
  scan_node search (S d) n = Ok t ->
  n_val t = n_val n /\
  Forall (fun c => 0 <= n_st c /\ n_st c < n_en c /\ n_en c <= blen (n_val t)) (n_kids t) /\
  StronglySorted sib_lt (n_kids t).
Proof. exact scan_children_spans. Qed.
Print Assumptions C03_spans.

(* ... at every nesting level and every depth: the annotated reference tree (which the engine's tree is the
   erasure of, C06) satisfies deep_ok: each search pass places every node in bounds of its parent's value *)
Theorem C03_all_levels : forall search, wf_search search -> forall d k a b n t,
  k <> KCtx -> ref_scan_node search d k a b n = Ok t -> deep_ok search d t.
Proof. exact ref_deep_ok. Qed.
Print Assumptions C03_all_levels.

(* nothing appears from nowhere: every node attached by a pass carries position, type, value and
   obfuscation of a hit the registry reported on the searched value *)
Theorem C03_nodes_from_hits : forall search d k a b n t,
  n_kids n = [] -> ref_scan_node search (S d) k a b n = Ok t ->
  forall x, In x (pass_nodes (a_kids t)) ->
  exists h, In h (search (n_val n)) /\ nonempty_val h = true /\
            n_st h = a_lo x /\ n_en h = a_hi x /\
            n_ty h = n_ty (a_node x) /\ n_val h = n_val (a_node x) /\ n_obf h = n_obf (a_node x).
Proof. exact attached_from_hit. Qed.
Print Assumptions C03_nodes_from_hits.

(* the header of a scanned node is never modified, only its child list *)
Theorem C03_header_kept : forall search d n t, scan_node search d n = Ok t -> exists ks, t = set_kids n ks.
Proof. exact scan_node_hdr. Qed.
Print Assumptions C03_header_kept.

(* the precondition is needed: a hit past the end of the value makes the real loop spin forever *)
Example C03_out_of_bounds_hangs :
  scan (fun v => [Node (L"t") (L"x") [] 0 (blen v + 1) []]) 1 (L"ab") = Hang.
Proof. vm_compute. reflexivity. Qed.
Print Assumptions C03_out_of_bounds_hangs.
