(* C15 - String concatenation, reversal and replacement are evaluated exactly.  Statements pinned from Proofs/StrOpsProofs.v by harness/mkprop.py. *)
From MD Require Import Lib.Base Model.Node Model.Dec.XmlChr Model.Dec.ReLib Model.Dec.StrOps.
From MD Require Import Proofs.EscDecProofs Proofs.StrOpsProofs.
From MD Require Import Regex.LocalityProofs Proofs.RoundTrip Proofs.RoundTrip2.

(* s[-2:0:-1] of a quoted literal is its contents reversed - for every contents, incl. empty and one byte *)
Theorem C15_reverse_slice : forall (q q' : N) (s : bytes), rev_slice (q :: s ++ [q']) = rev s.
Proof. exact rev_slice_quoted. Qed.
Print Assumptions C15_reverse_slice.

Theorem C15_reverse_slice_spec : forall s : bytes, rev_slice s = rev (slice s 1 (-1)).
Proof. exact rev_slice_spec. Qed.
Print Assumptions C15_reverse_slice_spec.

Theorem C15_reverse_nodes : forall (data : bytes) (ms : list Backtrack.mtch) (lits : list lit), Forall2 (rev_m_ok data) ms lits -> find_reverse_post data ms = Ok (map (rev_expected (s2b "string") (s2b "reverse")) (combine ms lits)).
Proof. exact find_reverse_post_exact. Qed.
Print Assumptions C15_reverse_nodes.

Theorem C15_strreverse_nodes : forall (data : bytes) (ms : list Backtrack.mtch) (lits : list lit), Forall2 (rev_m_ok data) ms lits -> find_strreverse_post data ms = Ok (map (rev_expected (s2b "vba.string") (s2b "vba.reverse")) (combine ms lits)).
Proof. exact find_strreverse_post_exact. Qed.
Print Assumptions C15_strreverse_nodes.

(* bytes.replace = the leftmost non-overlapping substitution of every occurrence (inductive spec subst_all), uniquely *)
Theorem C15_replace_is_subst_all : forall (x : bytes) (a : list N) (b : bytes), a <> [] -> subst_all a b x (py_replace x a b).
Proof. exact py_replace_subst_all. Qed.
Print Assumptions C15_replace_is_subst_all.

Theorem C15_replace_unique : forall (x y : bytes) (a : list N) (b : bytes), a <> [] -> subst_all a b x y -> y = py_replace x a b.
Proof. exact subst_all_unique. Qed.
Print Assumptions C15_replace_unique.

Theorem C15_replace_first_occurrence : forall (u a v : list N) (b : bytes), a <> [] -> ~ occurs a (u ++ firstn (Datatypes.length a - 1) a) -> py_replace (u ++ a ++ v) a b = u ++ b ++ py_replace v a b.
Proof. exact py_replace_first_occurrence. Qed.
Print Assumptions C15_replace_first_occurrence.

Theorem C15_replace_no_occurrence : forall x a b : bytes, ~ occurs a x -> py_replace x a b = x.
Proof. exact py_replace_no_occurrence. Qed.
Print Assumptions C15_replace_no_occurrence.

Theorem C15_replace_same : forall x a : bytes, py_replace x a a = x.
Proof. exact py_replace_same. Qed.
Print Assumptions C15_replace_same.

Theorem C15_replace_length : forall (x a : list N) (b : bytes), a <> [] -> exists k : Z, 0 <= k /\ k * blen a <= blen x /\ blen (py_replace x a b) = blen x + k * (blen b - blen a).
Proof. exact py_replace_length. Qed.
Print Assumptions C15_replace_length.

Theorem C15_replace_nodes : forall (data : bytes) (ms : list Backtrack.mtch) (ts : list (lit * lit * lit)), Forall2 (replace_m_ok data) ms ts -> find_replace_post data ms = Ok (map (replace_expected (s2b "string") (s2b "replace")) (combine ms ts)).
Proof. exact find_replace_post_exact. Qed.
Print Assumptions C15_replace_nodes.

Theorem C15_ps_replace_nodes : forall (data : bytes) (ms : list Backtrack.mtch) (ts : list (lit * lit * lit)), Forall2 (replace_m_ok data) ms ts -> find_powershell_replace_post data ms = Ok (map (replace_expected (s2b "powershell.string") (s2b "replace")) (combine ms ts)).
Proof. exact find_powershell_replace_post_exact. Qed.
Print Assumptions C15_ps_replace_nodes.

Theorem C15_vba_replace_nodes : forall (data : bytes) (ms : list Backtrack.mtch) (ts : list (lit * lit * lit)), Forall2 (replace_m_ok data) ms ts -> find_vba_replace_post data ms = Ok (map (replace_expected (s2b "vba.string") (s2b "vba.replace")) (combine ms ts)).
Proof. exact find_vba_replace_post_exact. Qed.
Print Assumptions C15_vba_replace_nodes.

Theorem C15_js_replace_nodes : forall (data : bytes) (ms : list Backtrack.mtch) (ts : list (lit * lit)), Forall2 (js_replace_m_ok data) ms ts -> find_js_regex_replace_post data ms = Ok (map (js_replace_expected data) (combine ms ts)).
Proof. exact find_js_regex_replace_post_exact. Qed.
Print Assumptions C15_js_replace_nodes.

(* a chain of literals joined at the quote-spacer-quote junctions yields the concatenation of their contents *)
Theorem C15_concat_chain : forall (c : chain) (inner : list Backtrack.mtch), map (fun mi : Backtrack.mtch => span mi 0) inner = junction_spans (1 + blen (c_l1 c)) (c_rest c) -> concat_value (chain_text c) inner = chain_value c.
Proof. exact concat_value_chain. Qed.
Print Assumptions C15_concat_chain.

Theorem C15_concat_nodes : forall (data : bytes) (ms : list Backtrack.mtch) (chains : list chain), Forall2 (concat_m_ok data) ms chains -> find_concat_post data ms = Ok (map concat_expected (combine ms chains)).
Proof. exact find_concat_post_exact. Qed.
Print Assumptions C15_concat_nodes.

Theorem C15_totality : forall (ty obf : label) (strip2 : bool) (data : bytes) (ms : list Backtrack.mtch), Forall (spans_ok4 data) ms -> exists nodes : list node, mapM (replace_node ty obf strip2 data) ms = Ok nodes /\ Datatypes.length nodes = Datatypes.length ms.
Proof. exact replace_post_total. Qed.
Print Assumptions C15_totality.

(* END-TO-END ROUND TRIP with span selection by the matcher (Proofs/RoundTrip2.v): for every payload in the literal class, every neutral prefix and ANY suffix, the expression is found as ONE node with exactly its span and the decoded string as value; later nodes start after it *)
Theorem C15_reverse_roundtrip : forall (nm : bytes) (pre : list N) (ws1 : bytes) (q : N) (p ws2 : bytes) (suf : list N), lower nm = s2b "reverse(" \/ lower nm = s2b "reversed(" -> ws_ok ws1 = true -> ws_ok ws2 = true -> is_quote q -> lit_ok q p = true -> (Datatypes.length p + Datatypes.length ws1 + Datatypes.length ws2 + 100 <= Backtrack.default_fuel)%nat -> neutral Regexes.RE_reverse_REVERSE_RE pre = true -> let form := nm ++ ws1 ++ quoted q (rev p) ++ ws2 ++ s2b ")" in let data := pre ++ form ++ suf in find_reverse data = Hang \/ (exists rest : list node, find_reverse data = Ok (Node (s2b "string") p (s2b "reverse") (blen pre) (blen pre + blen form) [] :: rest) /\ Forall (fun nd : node => blen pre + blen form <= n_st nd) rest).
Proof. exact find_reverse_roundtrip. Qed.
Print Assumptions C15_reverse_roundtrip.

Theorem C15_strreverse_roundtrip : forall (nm : bytes) (pre : list N) (ws1 : bytes) (q : N) (p ws2 : bytes) (suf : list N), lower nm = s2b "strreverse(" -> ws_ok ws1 = true -> ws_ok ws2 = true -> is_quote q -> lit_ok q p = true -> (Datatypes.length p + Datatypes.length ws1 + Datatypes.length ws2 + 100 <= Backtrack.default_fuel)%nat -> neutral Regexes.RE_vba_STRREVERSE_RE pre = true -> let form := nm ++ ws1 ++ quoted q (rev p) ++ ws2 ++ s2b ")" in let data := pre ++ form ++ suf in find_strreverse data = Hang \/ (exists rest : list node, find_strreverse data = Ok (Node (s2b "vba.string") p (s2b "vba.reverse") (blen pre) (blen pre + blen form) [] :: rest) /\ Forall (fun nd : node => blen pre + blen form <= n_st nd) rest).
Proof. exact find_strreverse_roundtrip. Qed.
Print Assumptions C15_strreverse_roundtrip.

(* value = the leftmost non-overlapping substitution py_replace x a b *)
Theorem C15_replace_roundtrip : forall (nm : bytes) (pre : list N) (q1 : N) (x ws1 : bytes) (q2 : N) (a ws2 ws3 : bytes) (q3 : N) (b ws4 : bytes) (suf : list N), lower nm = s2b ".replace(" -> is_quote q1 -> is_quote q2 -> is_quote q3 -> lit_ok q1 x = true -> lit_ok q2 a = true -> lit_ok q3 b = true -> ws_ok ws1 = true -> ws_ok ws2 = true -> ws_ok ws3 = true -> ws_ok ws4 = true -> (Datatypes.length x + Datatypes.length a + Datatypes.length b + Datatypes.length ws1 + Datatypes.length ws2 + Datatypes.length ws3 + Datatypes.length ws4 + 200 <= Backtrack.default_fuel)%nat -> neutral Regexes.RE_replace_REPLACE_RE pre = true -> let form := quoted q1 x ++ nm ++ ws1 ++ quoted q2 a ++ ws2 ++ s2b "," ++ ws3 ++ quoted q3 b ++ ws4 ++ s2b ")" in let data := pre ++ form ++ suf in find_replace data = Hang \/ (exists rest : list node, find_replace data = Ok (Node (s2b "string") (py_replace x a b) (s2b "replace") (blen pre) (blen pre + blen form) [] :: rest) /\ Forall (fun nd : node => blen pre + blen form <= n_st nd) rest).
Proof. exact find_replace_roundtrip. Qed.
Print Assumptions C15_replace_roundtrip.

Theorem C15_vba_replace_roundtrip : forall (nm : bytes) (pre : list N) (ws1 : bytes) (q1 : N) (x ws2 ws3 : bytes) (q2 : N) (a ws4 ws5 : bytes) (q3 : N) (b ws6 : bytes) (suf : list N), lower nm = s2b "replace(" -> is_quote q1 -> is_quote q2 -> is_quote q3 -> lit_ok q1 x = true -> lit_ok q2 a = true -> lit_ok q3 b = true -> ws_ok ws1 = true -> ws_ok ws2 = true -> ws_ok ws3 = true -> ws_ok ws4 = true -> ws_ok ws5 = true -> ws_ok ws6 = true -> (Datatypes.length x + Datatypes.length a + Datatypes.length b + Datatypes.length ws1 + Datatypes.length ws2 + Datatypes.length ws3 + Datatypes.length ws4 + Datatypes.length ws5 + Datatypes.length ws6 + 200 <= Backtrack.default_fuel)%nat -> neutral Regexes.RE_replace_VBA_REPLACE_RE pre = true -> let form := nm ++ ws1 ++ quoted q1 x ++ ws2 ++ s2b "," ++ ws3 ++ quoted q2 a ++ ws4 ++ s2b "," ++ ws5 ++ quoted q3 b ++ ws6 ++ s2b ")" in let data := pre ++ form ++ suf in find_vba_replace data = Hang \/ (exists rest : list node, find_vba_replace data = Ok (Node (s2b "vba.string") (py_replace x a b) (s2b "vba.replace") (blen pre) (blen pre + blen form) [] :: rest) /\ Forall (fun nd : node => blen pre + blen form <= n_st nd) rest).
Proof. exact find_vba_replace_roundtrip. Qed.
Print Assumptions C15_vba_replace_roundtrip.

Theorem C15_powershell_replace_roundtrip : forall (nm : bytes) (pre : list N) (q1 : N) (x ws1 ws2 : bytes) (q2 : N) (a ws3 ws4 : bytes) (q3 : N) (b suf : bytes), lower nm = s2b "-replace" -> is_quote q1 -> is_quote q2 -> is_quote q3 -> lit_ok q1 x = true -> lit_ok q2 a = true -> lit_ok q3 b = true -> ws_ok ws1 = true -> ws_ok ws2 = true -> ws_ok ws3 = true -> ws_ok ws4 = true -> stop_q q3 suf = true -> (Datatypes.length x + Datatypes.length a + Datatypes.length b + Datatypes.length ws1 + Datatypes.length ws2 + Datatypes.length ws3 + Datatypes.length ws4 + 200 <= Backtrack.default_fuel)%nat -> neutral Regexes.RE_replace_POWERSHELL_REPLACE_RE pre = true -> let form := quoted q1 x ++ ws1 ++ nm ++ ws2 ++ quoted q2 a ++ ws3 ++ s2b "," ++ ws4 ++ quoted q3 b in let data := pre ++ form ++ suf in find_powershell_replace data = Hang \/ (exists rest : list node, find_powershell_replace data = Ok (Node (s2b "powershell.string") (py_replace x a b) (s2b "replace") (blen pre) (blen pre + blen form) [] :: rest) /\ Forall (fun nd : node => blen pre + blen form <= n_st nd) rest).
Proof. exact find_powershell_replace_roundtrip. Qed.
Print Assumptions C15_powershell_replace_roundtrip.

(* decode-encode: hiding a byte string behind a token whose first byte does not occur in the payload is undone by the replacement *)
Theorem C15_replace_inverse : forall (p c : list N) (t : N) (tok' : list N), c <> [] -> ~ In t p -> py_replace (py_replace p c (t :: tok')) (t :: tok') c = p.
Proof. exact py_replace_inverse. Qed.
Print Assumptions C15_replace_inverse.

Theorem C15_replace_decodes : forall (pre : list N) (q : N) (p c : bytes) (t : N) (tok' suf : list N), let tok := t :: tok' in let x := py_replace p c tok in is_quote q -> lit_ok q p = true -> lit_ok q c = true -> lit_ok q tok = true -> c <> [] -> ~ In t p -> (Datatypes.length x + Datatypes.length tok + Datatypes.length c + 201 <= Backtrack.default_fuel)%nat -> neutral Regexes.RE_replace_REPLACE_RE pre = true -> let form := quoted q x ++ s2b ".replace(" ++ quoted q tok ++ s2b ", " ++ quoted q c ++ s2b ")" in let data := pre ++ form ++ suf in find_replace data = Hang \/ (exists rest : list node, find_replace data = Ok (Node (s2b "string") p (s2b "replace") (blen pre) (blen pre + blen form) [] :: rest) /\ Forall (fun nd : node => blen pre + blen form <= n_st nd) rest).
Proof. exact find_replace_decodes. Qed.
Print Assumptions C15_replace_decodes.

(* a chain of n >= 2 literals (any mix of the admitted quotes / operators / blanks): one node spanning the whole chain, value = the concatenation *)
Theorem C15_concat_roundtrip : forall (pre : list N) (q : N) (p : bytes) (js : list cpart) (suf : bytes), is_quote q -> part_ok p = true -> Forall cpart_ok js -> js <> [] -> concat_stop (last_q q js) suf = true -> (Datatypes.length (concat_form q p js) + Datatypes.length (take_wsu suf) + 150 <= Backtrack.default_fuel)%nat -> neutral Regexes.RE_concat_CONCAT_RE pre = true -> let form := concat_form q p js in let data := pre ++ form ++ suf in find_concat data = Hang \/ (exists rest : list node, find_concat data = Ok (Node (s2b "string") (concat_payload p js) (s2b "concatenation") (blen pre) (blen pre + blen form) [] :: rest) /\ Forall (fun nd : node => blen pre + blen form <= n_st nd) rest).
Proof. exact find_concat_roundtrip. Qed.
Print Assumptions C15_concat_roundtrip.

Example C15_example :
  find_concat (L"x = 'ab' & 'cd' + 'e'") = Ok [Node (L"string") (L"abcde") (L"concatenation") 4 21 []]
  /\ find_reverse (L"reverse(""olleh"")") = Ok [Node (L"string") (L"hello") (L"reverse") 0 16 []]
  /\ find_vba_replace (L"Replace('aXbXc', 'X', '--')") = Ok [Node (L"vba.string") (L"a--b--c") (L"vba.replace") 0 27 []].
Proof. vm_compute. repeat split; reflexivity. Qed.
Print Assumptions C15_example.
