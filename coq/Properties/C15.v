(* C15 - String concatenation, reversal and replacement are evaluated exactly.  Statements pinned from Proofs/StrOpsProofs.v by harness/mkprop.py. *)
From MD Require Import Lib.Base Model.Node Model.Dec.XmlChr Model.Dec.ReLib Model.Dec.StrOps.
From MD Require Import Proofs.EscDecProofs Proofs.StrOpsProofs.

(* s[-2:0:-1] of a quoted literal is its contents reversed - for every contents, incl. empty and one byte *)
Theorem C15_reverse_slice : forall (q q' : N) (s : bytes), rev_slice (q :: s ++ [q']) = rev s.
Proof. exact rev_slice_quoted. Qed.
Print Assumptions C15_reverse_slice.

Theorem C15_reverse_slice_spec : forall s : bytes, rev_slice s = rev (slice s 1 (-1)).
Proof. exact rev_slice_spec. Qed.
Print Assumptions C15_reverse_slice_spec.

Theorem C15_reverse_nodes : forall (data : bytes) (ms : list Backtrack.mtch) (lits : list lit), Forall2 (rev_m_ok data) ms lits -> find_reverse_post data ms = Ok (map (rev_expected (s2b "string") (s2b "reverse")) (combine ms lits)).
Proof. exact find_reverse_post_exact. Qed.
Print Assumptions C15_reverse_nodes.

Theorem C15_strreverse_nodes : forall (data : bytes) (ms : list Backtrack.mtch) (lits : list lit), Forall2 (rev_m_ok data) ms lits -> find_strreverse_post data ms = Ok (map (rev_expected (s2b "vba.string") (s2b "vba.reverse")) (combine ms lits)).
Proof. exact find_strreverse_post_exact. Qed.
Print Assumptions C15_strreverse_nodes.

(* bytes.replace = the leftmost non-overlapping substitution of every occurrence (inductive spec subst_all), uniquely *)
Theorem C15_replace_is_subst_all : forall (x : bytes) (a : list N) (b : bytes), a <> [] -> subst_all a b x (py_replace x a b).
Proof. exact py_replace_subst_all. Qed.
Print Assumptions C15_replace_is_subst_all.

Theorem C15_replace_unique : forall (x y : bytes) (a : list N) (b : bytes), a <> [] -> subst_all a b x y -> y = py_replace x a b.
Proof. exact subst_all_unique. Qed.
Print Assumptions C15_replace_unique.

Theorem C15_replace_first_occurrence : forall (u a v : list N) (b : bytes), a <> [] -> ~ occurs a (u ++ firstn (Datatypes.length a - 1) a) -> py_replace (u ++ a ++ v) a b = u ++ b ++ py_replace v a b.
Proof. exact py_replace_first_occurrence. Qed.
Print Assumptions C15_replace_first_occurrence.

Theorem C15_replace_no_occurrence : forall x a b : bytes, ~ occurs a x -> py_replace x a b = x.
Proof. exact py_replace_no_occurrence. Qed.
Print Assumptions C15_replace_no_occurrence.

Theorem C15_replace_same : forall x a : bytes, py_replace x a a = x.
Proof. exact py_replace_same. Qed.
Print Assumptions C15_replace_same.

Theorem C15_replace_length : forall (x a : list N) (b : bytes), a <> [] -> exists k : Z, 0 <= k /\ k * blen a <= blen x /\ blen (py_replace x a b) = blen x + k * (blen b - blen a).
Proof. exact py_replace_length. Qed.
Print Assumptions C15_replace_length.

Theorem C15_replace_nodes : forall (data : bytes) (ms : list Backtrack.mtch) (ts : list (lit * lit * lit)), Forall2 (replace_m_ok data) ms ts -> find_replace_post data ms = Ok (map (replace_expected (s2b "string") (s2b "replace")) (combine ms ts)).
Proof. exact find_replace_post_exact. Qed.
Print Assumptions C15_replace_nodes.

Theorem C15_ps_replace_nodes : forall (data : bytes) (ms : list Backtrack.mtch) (ts : list (lit * lit * lit)), Forall2 (replace_m_ok data) ms ts -> find_powershell_replace_post data ms = Ok (map (replace_expected (s2b "powershell.string") (s2b "replace")) (combine ms ts)).
Proof. exact find_powershell_replace_post_exact. Qed.
Print Assumptions C15_ps_replace_nodes.

Theorem C15_vba_replace_nodes : forall (data : bytes) (ms : list Backtrack.mtch) (ts : list (lit * lit * lit)), Forall2 (replace_m_ok data) ms ts -> find_vba_replace_post data ms = Ok (map (replace_expected (s2b "vba.string") (s2b "vba.replace")) (combine ms ts)).
Proof. exact find_vba_replace_post_exact. Qed.
Print Assumptions C15_vba_replace_nodes.

Theorem C15_js_replace_nodes : forall (data : bytes) (ms : list Backtrack.mtch) (ts : list (lit * lit)), Forall2 (js_replace_m_ok data) ms ts -> find_js_regex_replace_post data ms = Ok (map (js_replace_expected data) (combine ms ts)).
Proof. exact find_js_regex_replace_post_exact. Qed.
Print Assumptions C15_js_replace_nodes.

(* a chain of literals joined at the quote-spacer-quote junctions yields the concatenation of their contents *)
Theorem C15_concat_chain : forall (c : chain) (inner : list Backtrack.mtch), map (fun mi : Backtrack.mtch => span mi 0) inner = junction_spans (1 + blen (c_l1 c)) (c_rest c) -> concat_value (chain_text c) inner = chain_value c.
Proof. exact concat_value_chain. Qed.
Print Assumptions C15_concat_chain.

Theorem C15_concat_nodes : forall (data : bytes) (ms : list Backtrack.mtch) (chains : list chain), Forall2 (concat_m_ok data) ms chains -> find_concat_post data ms = Ok (map concat_expected (combine ms chains)).
Proof. exact find_concat_post_exact. Qed.
Print Assumptions C15_concat_nodes.

Theorem C15_totality : forall (ty obf : label) (strip2 : bool) (data : bytes) (ms : list Backtrack.mtch), Forall (spans_ok4 data) ms -> exists nodes : list node, mapM (replace_node ty obf strip2 data) ms = Ok nodes /\ Datatypes.length nodes = Datatypes.length ms.
Proof. exact replace_post_total. Qed.
Print Assumptions C15_totality.

Example C15_example :
  find_concat (L"x = 'ab' & 'cd' + 'e'") = Ok [Node (L"string") (L"abcde") (L"concatenation") 4 21 []]
  /\ find_reverse (L"reverse(""olleh"")") = Ok [Node (L"string") (L"hello") (L"reverse") 0 16 []]
  /\ find_vba_replace (L"Replace('aXbXc', 'X', '--')") = Ok [Node (L"vba.string") (L"a--b--c") (L"vba.replace") 0 27 []].
Proof. vm_compute. repeat split; reflexivity. Qed.
Print Assumptions C15_example.
