(* C13 - Base64, hexadecimal and XOR decodings are bit-exact.  Statements pinned from Proofs/Base64Proofs.v, Proofs/HexProofs.v, Proofs/B64HexProofs.v by harness/mkprop.py.  Known finding F11 (HEX_RE alternation order) concerns span SELECTION by the regex engine, not these codec laws.  The converse for the CALL FORMS is now proved end to end (round-trip theorems below); for the bare base64 / hex forms it is proved too (RoundTrip4: lower / upper hex with the F11 hypothesis made exact, base64 incl. LF / CR LF wrapping); character-reference line separators remain exercised. *)
From MD Require Import Lib.Base Model.Node Model.Codec.Base64 Model.Codec.Hex Model.Dec.ReLib Model.Dec.B64Hex.
From MD Require Import Proofs.Base64Proofs Proofs.HexProofs Proofs.B64HexProofs.
From MD Require Generated.Consts.
From MD Require Import Regex.Syntax Generated.Regexes Proofs.Shapes1 Proofs.Shapes2.
From MD Require Import Regex.LocalityProofs Proofs.RoundTrip.
From MD Require Import Proofs.RoundTrip2 Proofs.RoundTrip4.
From MD Require Import Proofs.RoundTrip7.

(* RFC 4648: decode (encode p) = p for every payload (all lengths mod 3) *)
Theorem C13_b64_roundtrip : forall p : bytes, wf_bytes p -> b64_decode_strict (b64_encode p) = Some p.
Proof. exact b64_roundtrip. Qed.
Print Assumptions C13_b64_roundtrip.

Theorem C13_b64_encode_length : forall p : bytes, blen (b64_encode p) = 4 * ((blen p + 2) / 3).
Proof. exact b64_encode_length. Qed.
Print Assumptions C13_b64_encode_length.

(* CPython's lenient a2b_base64 agrees with the RFC 4648 decoding on every canonical text *)
Theorem C13_a2b_agrees_strict : forall t p : bytes, b64_decode_strict t = Some p -> a2b_base64 t = Ok p.
Proof. exact a2b_agrees_strict. Qed.
Print Assumptions C13_a2b_agrees_strict.

Theorem C13_a2b_encode : forall p : bytes, wf_bytes p -> a2b_base64 (b64_encode p) = Ok p.
Proof. exact a2b_encode. Qed.
Print Assumptions C13_a2b_encode.

Theorem C13_a2b_skips_junk : forall t : list N, a2b_base64 (filter b64_significant t) = a2b_base64 t.
Proof. exact a2b_skips_junk. Qed.
Print Assumptions C13_a2b_skips_junk.

(* atob / Base64Decode / FromBase64String: exact characterisation of the emitted nodes (value = a2b_base64 of the argument group, span = whole match), never raises *)
Theorem C13_call_forms_spec : forall (ty : label) (g : nat) (data : bytes) (ms : list Backtrack.mtch), Forall (fun m : Backtrack.mtch => participates m g = true) ms -> b64_call_post ty g data ms = Ok (flat_map (b64_nodes ty g data) ms).
Proof. exact b64_call_post_spec. Qed.
Print Assumptions C13_call_forms_spec.

Theorem C13_call_forms_canonical : forall (ty : label) (g : nat) (data : bytes) (ms : list Backtrack.mtch) (m : Backtrack.mtch), ms_ok_b64 g data ms -> In m ms -> blen (group data m g) mod 4 = 0 -> exists (p : bytes) (out : list node), b64_decode_strict (group data m g) = Some p /\ b64_call_post ty g data ms = Ok out /\ In (Node ty p (s2b "encoding.base64") (m_start m 0) (m_end m 0) []) out.
Proof. exact b64_call_post_canonical. Qed.
Print Assumptions C13_call_forms_canonical.

Theorem C13_atob : forall (data : bytes) (ms : list Backtrack.mtch), ms_ok_b64 1 data ms -> find_atob_post data ms = Ok (flat_map (b64_nodes (s2b "javascript.string") 1 data) ms).
Proof. exact find_atob_post_spec. Qed.
Print Assumptions C13_atob.

Theorem C13_Base64Decode : forall (data : bytes) (ms : list Backtrack.mtch), ms_ok_b64 1 data ms -> find_Base64Decode_post data ms = Ok (flat_map (b64_nodes (s2b "vba.string") 1 data) ms).
Proof. exact find_Base64Decode_post_spec. Qed.
Print Assumptions C13_Base64Decode.

Theorem C13_FromBase64String : forall (key : option Z) (data : bytes) (ms : list Backtrack.mtch), key_ok key -> Forall (fun m : Backtrack.mtch => participates m 2 = true) ms -> find_FromBase64String_post key data ms = Ok (flat_map (fromb64_nodes key data) ms).
Proof. exact find_FromBase64String_post_spec. Qed.
Print Assumptions C13_FromBase64String.

(* bare base64: HTML escapes, CR, LF and the marker are removed before decoding *)
Theorem C13_clean : forall t s : bytes, b64_clean t = Ok s <-> (exists hs : list Backtrack.mtch, fi RE_base64_HTML_ESCAPE_RE NG_base64_HTML_ESCAPE_RE t = Ok hs /\ s = XmlChr.replace (XmlChr.replace (XmlChr.replace (splice_const t [] 0 hs) [10%N] []) [13%N] []) B64_MARKER []).
Proof. exact b64_clean_spec. Qed.
Print Assumptions C13_clean.

(* the documented acceptance rules, exactly *)
Theorem C13_accept_iff : forall s : bytes, b64_accept s = Ok true <-> accept_facts s.
Proof. exact b64_accept_true. Qed.
Print Assumptions C13_accept_iff.

Theorem C13_find_base64_sound : forall (data : bytes) (ms : list Backtrack.mtch) (out : list node) (n : node), Forall (fun m : Backtrack.mtch => participates m 0 = true) ms -> find_base64_post data ms = Ok out -> In n out -> exists (m : Backtrack.mtch) (s : bytes), In m ms /\ b64_clean (group data m 0) = Ok s /\ accept_facts s /\ a2b_base64 s = Ok (n_val n) /\ n = Node [] (n_val n) (s2b "encoding.base64") (m_start m 0) (m_end m 0) [].
Proof. exact find_base64_post_sound. Qed.
Print Assumptions C13_find_base64_sound.

Theorem C13_find_base64_complete : forall (data : bytes) (ms : list Backtrack.mtch) (out : list node) (m : Backtrack.mtch) (s b : bytes), Forall (fun m0 : Backtrack.mtch => participates m0 0 = true) ms -> find_base64_post data ms = Ok out -> In m ms -> b64_clean (group data m 0) = Ok s -> b64_accept s = Ok true -> a2b_base64 s = Ok b -> In (Node [] b (s2b "encoding.base64") (m_start m 0) (m_end m 0) []) out.
Proof. exact find_base64_post_complete. Qed.
Print Assumptions C13_find_base64_complete.

Theorem C13_find_base64_no_raise : forall (data : bytes) (ms : list Backtrack.mtch) (e : label), Forall (fun m : Backtrack.mtch => participates m 0 = true) ms -> find_base64_post data ms <> Raise e.
Proof. exact find_base64_post_no_raise. Qed.
Print Assumptions C13_find_base64_no_raise.

Theorem C13_unhexlify_hexlify : forall p : bytes, wf_bytes p -> unhexlify (hexlify p) = Ok p.
Proof. exact unhexlify_hexlify. Qed.
Print Assumptions C13_unhexlify_hexlify.

Theorem C13_unhexlify_ok_iff : forall t : bytes, (exists p : bytes, unhexlify t = Ok p) <-> Z.even (blen t) = true /\ forallb is_hex_digit t = true.
Proof. exact unhexlify_ok_iff. Qed.
Print Assumptions C13_unhexlify_ok_iff.

(* hex node value = the bytes spelled by the hex digits of the match *)
Theorem C13_hex_nodes : forall (data : bytes) (ms : list Backtrack.mtch), ms_ok_hex 0 data ms -> exists out : list node, find_hex_post data ms = Ok out /\ Forall2 (fun (m : Backtrack.mtch) (n : node) => exists v : bytes, hex_spells (group data m 0) v /\ n = Node [] v (s2b "decoded.hexadecimal") (m_start m 0) (m_end m 0) []) ms out.
Proof. exact find_hex_post_spec. Qed.
Print Assumptions C13_hex_nodes.

Theorem C13_FromHexString : forall (key : option Z) (data : bytes) (ms : list Backtrack.mtch), key_ok key -> Forall (fun m : Backtrack.mtch => participates m 2 = true) ms -> find_FromHexString_post key data ms = Ok (flat_map (fromhex_nodes key data) ms).
Proof. exact find_FromHexString_post_spec. Qed.
Print Assumptions C13_FromHexString.

(* xor child = parent bytes XORed with the stated single-byte key; keys above 255 leave the node unchanged (no exception) *)
Theorem C13_xor_child : forall (key : Z) (data : bytes) (nd : node) (ty : label), 0 <= key -> wf_bytes data -> apply_xor_key key data nd ty = Ok (set_kids nd (n_kids nd ++ xor_kids ty key data)).
Proof. exact apply_xor_key_spec. Qed.
Print Assumptions C13_xor_child.

Theorem C13_xor_bytes : forall (key : Z) (data : bytes), 0 <= key <= 255 -> wf_bytes data -> xor_bytes key data = Ok (map (N.lxor (Z.to_N key)) data).
Proof. exact xor_bytes_ok. Qed.
Print Assumptions C13_xor_bytes.

Theorem C13_xorkey : forall (data : bytes) (o : option Backtrack.mtch), match o with | Some m => grp_ok data m 1 key_text_ok | None => True end -> exists k : option Z, get_xorkey_of data o = Ok k /\ key_ok k.
Proof. exact get_xorkey_of_ok. Qed.
Print Assumptions C13_xorkey.

(* PowerShell byte array tokens: 0x + 2 hex digits or 1-3 decimal digits; a token above 255 skips the array *)
Theorem C13_ps_bytes : forall (t : bytes) (vals : list Z), Forall2 ps_tok (XmlChr.split_on 44 t) vals -> ps_binary t = Ok (if forallb (fun v : Z => v <=? 255) vals then Some (map Z.to_N vals) else None).
Proof. exact ps_binary_spec. Qed.
Print Assumptions C13_ps_bytes.

(* END TO END: whatever HEX_RE (regenerated from the source) matches is an even number (>= 20) of hex digits *)
Theorem C13_hex_regex_shape : forall w : list N, Lang RE_hex_HEX_RE w -> hex_shape w.
Proof. exact hex_lang_shape. Qed.
Print Assumptions C13_hex_regex_shape.

(* find_hex on EVERY input: never raises; every node's value is the bytes spelled by the digits it covers *)
Theorem C13_find_hex_total : forall data : bytes, find_hex data = Hang \/ (exists nodes : list node, find_hex data = Ok nodes /\ Forall (hex_node_ok data) nodes).
Proof. exact find_hex_total. Qed.
Print Assumptions C13_find_hex_total.

Theorem C13_find_FromHexString_total : forall data : bytes, find_FromHexString data = Hang \/ (exists (key : option Z) (nodes : list node), get_xorkey data = Ok key /\ key_ok key /\ find_FromHexString data = Ok nodes /\ Forall (fromhex_node_ok data key) nodes).
Proof. exact find_FromHexString_total. Qed.
Print Assumptions C13_find_FromHexString_total.

(* call forms on EVERY input: value = a2b_base64 of the argument, = the RFC 4648 decoding when the argument is canonical *)
Theorem C13_find_atob_total : forall data : bytes, find_atob data = Hang \/ (exists nodes : list node, find_atob data = Ok nodes /\ Forall (b64_node_ok (s2b "javascript.string") data) nodes).
Proof. exact find_atob_total. Qed.
Print Assumptions C13_find_atob_total.

Theorem C13_find_Base64Decode_total : forall data : bytes, find_Base64Decode data = Hang \/ (exists nodes : list node, find_Base64Decode data = Ok nodes /\ Forall (b64_node_ok (s2b "vba.string") data) nodes).
Proof. exact find_Base64Decode_total. Qed.
Print Assumptions C13_find_Base64Decode_total.

Theorem C13_find_FromBase64String_total : forall data : bytes, find_FromBase64String data = Hang \/ (exists (key : option Z) (nodes : list node), get_xorkey data = Ok key /\ key_ok key /\ find_FromBase64String data = Ok nodes /\ Forall (fromb64_node_ok data key) nodes).
Proof. exact find_FromBase64String_total. Qed.
Print Assumptions C13_find_FromBase64String_total.

(* bare base64 on EVERY input: the cleaned text passed the acceptance rules and the value is its decoding *)
Theorem C13_find_base64_total : forall data : bytes, find_base64 data = Hang \/ (exists nodes : list node, find_base64 data = Ok nodes /\ Forall (base64_node_ok data) nodes).
Proof. exact find_base64_total. Qed.
Print Assumptions C13_find_base64_total.

Theorem C13_xorkey_range : forall (data : bytes) (k : option Z) (key : Z), get_xorkey data = Ok k -> k = Some key -> 0 <= key <= 999.
Proof. exact get_xorkey_range. Qed.
Print Assumptions C13_xorkey_range.

Theorem C13_ps_bytes_total : forall (xortool : bytes -> list bytes) (data : bytes), find_powershell_bytes xortool data = Hang \/ (exists nodes : list node, find_powershell_bytes xortool data = Ok nodes /\ Forall (psb_node_ok xortool data) nodes).
Proof. exact find_powershell_bytes_total. Qed.
Print Assumptions C13_ps_bytes_total.

(* CONVERSE HALF, call forms: END-TO-END ROUND TRIP (Proofs/RoundTrip.v): for EVERY payload, the encoded form embedded after any neutral prefix (no byte that can start a match of the pattern) and before ANY suffix is found by the model's matcher on the regenerated pattern, as ONE node with exactly the form's span and the payload as value; later nodes start after it.  `Hang` (matcher fuel on the arbitrary suffix) is the only alternative. *)
Theorem C13_atob_roundtrip : forall (pre : list N) (p : bytes) (suf : list N) (q q' : N), wf_bytes p -> p <> [] -> is_quote q -> is_quote q' -> (Datatypes.length (b64_encode p) + 64 <= Backtrack.default_fuel)%nat -> neutral RE_base64_ATOB_RE pre = true -> let form := s2b "atob(" ++ [q] ++ b64_encode p ++ [q'] ++ s2b ")" in let data := pre ++ form ++ suf in find_atob data = Hang \/ (exists rest : list node, find_atob data = Ok (Node (s2b "javascript.string") p ENC_B64 (blen pre) (blen pre + blen form) [] :: rest) /\ Forall (fun nd : node => blen pre + blen form <= n_st nd) rest).
Proof. exact find_atob_roundtrip. Qed.
Print Assumptions C13_atob_roundtrip.

(* the same under the weaker hypothesis that no match of the pattern starts inside the prefix *)
Theorem C13_atob_roundtrip_quiet : forall (pre : list N) (p : bytes) (suf : list N) (q q' : N), wf_bytes p -> p <> [] -> is_quote q -> is_quote q' -> (Datatypes.length (b64_encode p) + 64 <= Backtrack.default_fuel)%nat -> let form := s2b "atob(" ++ [q] ++ b64_encode p ++ [q'] ++ s2b ")" in let data := pre ++ form ++ suf in quiet Backtrack.default_fuel RE_base64_ATOB_RE (Datatypes.length pre) (Backtrack.start_pos data) -> find_atob data = Hang \/ (exists rest : list node, find_atob data = Ok (Node (s2b "javascript.string") p ENC_B64 (blen pre) (blen pre + blen form) [] :: rest) /\ Forall (fun nd : node => blen pre + blen form <= n_st nd) rest).
Proof. exact find_atob_roundtrip_quiet. Qed.
Print Assumptions C13_atob_roundtrip_quiet.

(* any letter case of the function name *)
Theorem C13_Base64Decode_roundtrip : forall (nm : bytes) (pre : list N) (p : bytes) (suf : list N) (q q' : N), lower nm = s2b "base64decode(" -> wf_bytes p -> p <> [] -> is_quote q -> is_quote q' -> (Datatypes.length (b64_encode p) + 64 <= Backtrack.default_fuel)%nat -> neutral RE_base64_BASE64DECODE_RE pre = true -> let form := nm ++ [q] ++ b64_encode p ++ [q'] ++ s2b ")" in let data := pre ++ form ++ suf in find_Base64Decode data = Hang \/ (exists rest : list node, find_Base64Decode data = Ok (Node (s2b "vba.string") p ENC_B64 (blen pre) (blen pre + blen form) [] :: rest) /\ Forall (fun nd : node => blen pre + blen form <= n_st nd) rest).
Proof. exact find_Base64Decode_roundtrip. Qed.
Print Assumptions C13_Base64Decode_roundtrip.

(* no xor key in the text (hypothesis on prefix and suffix) *)
Theorem C13_FromBase64String_roundtrip : forall (nm : bytes) (pre : list N) (p : bytes) (suf : list N) (q q' : N), lower nm = s2b "frombase64string(" -> wf_bytes p -> p <> [] -> is_quote q -> is_quote q' -> (Datatypes.length (b64_encode p) + 64 <= Backtrack.default_fuel)%nat -> neutral RE_base64_FROMB64STRING_RE pre = true -> neutral RE_xor_helper_XOR_RE pre = true -> neutral RE_xor_helper_XOR_RE suf = true -> let form := nm ++ [q] ++ b64_encode p ++ [q'] ++ s2b ")" in let data := pre ++ form ++ suf in find_FromBase64String data = Hang \/ (exists rest : list node, find_FromBase64String data = Ok (Node (s2b "powershell.bytes") p ENC_B64 (blen pre) (blen pre + blen form) [] :: rest) /\ Forall (fun nd : node => blen pre + blen form <= n_st nd) rest).
Proof. exact find_FromBase64String_roundtrip. Qed.
Print Assumptions C13_FromBase64String_roundtrip.

(* at least 10 payload bytes *)
Theorem C13_FromHexString_roundtrip : forall (nm : bytes) (pre : list N) (p : bytes) (suf : list N), lower nm = s2b "fromhexstring(" -> wf_bytes p -> (10 <= Datatypes.length p)%nat -> (Datatypes.length (hexlify p) + 64 <= Backtrack.default_fuel)%nat -> neutral RE_hex_FROMHEXSTRING_RE pre = true -> neutral RE_xor_helper_XOR_RE pre = true -> neutral RE_xor_helper_XOR_RE suf = true -> let form := nm ++ s2b "'" ++ hexlify p ++ s2b "')" in let data := pre ++ form ++ suf in find_FromHexString data = Hang \/ (exists rest : list node, find_FromHexString data = Ok (Node (s2b "powershell.bytes") p ENC_HEX (blen pre) (blen pre + blen form) [] :: rest) /\ Forall (fun nd : node => blen pre + blen form <= n_st nd) rest).
Proof. exact find_FromHexString_roundtrip. Qed.
Print Assumptions C13_FromHexString_roundtrip.

Theorem C13_neutral_prefix_is_quiet : forall (r : re) (pre body : list N), startable r = true -> (spine r <= Backtrack.default_fuel)%nat -> neutral r pre = true -> quiet Backtrack.default_fuel r (Datatypes.length pre) (Backtrack.start_pos (pre ++ body)).
Proof. exact quiet_no_first. Qed.
Print Assumptions C13_neutral_prefix_is_quiet.

(* generic: a form the pattern runs over exactly is the first match after a neutral prefix *)
Theorem C13_form_is_matched : forall (r : re) (ng : nat) (pre form suf : list N) (n : nat) (cf : Z -> Backtrack.caps -> Backtrack.caps), startable r = true -> (spine r <= Backtrack.default_fuel)%nat -> neutral r pre = true -> runs n r form suf cf -> (n <= Backtrack.default_fuel)%nat -> form <> [] -> fi r ng (pre ++ form ++ suf) = Hang \/ (exists rest : list Backtrack.mtch, fi r ng (pre ++ form ++ suf) = Ok (Backtrack.mk_mtch ng (blen pre) (blen pre + blen form) (cf (blen pre) []) :: rest) /\ Forall (fun mt : Backtrack.mtch => blen pre + blen form <= m_start mt 0) rest).
Proof. exact fi_form_neutral. Qed.
Print Assumptions C13_form_is_matched.

(* CONVERSE HALF, BARE FORMS (Proofs/RoundTrip4.v): a lower-case hex run of >= 10 pairs after a neutral prefix, not continued by a same-case pair, is decoded as ONE node covering exactly the run *)
Theorem C13_hex_lower_roundtrip : forall (pre : list N) (p suf : bytes), wf_bytes p -> (10 <= Datatypes.length p)%nat -> hex_stop_lower suf = true -> (Datatypes.length (hexlify p) + 64 <= Backtrack.default_fuel)%nat -> neutral RE_hex_HEX_RE pre = true -> let form := hexlify p in let data := pre ++ form ++ suf in find_hex data = Hang \/ (exists rest : list node, find_hex data = Ok (Node [] p DEC_HEX (blen pre) (blen pre + blen form) [] :: rest) /\ Forall (fun nd : node => blen pre + blen form <= n_st nd) rest).
Proof. exact find_hex_roundtrip_lower. Qed.
Print Assumptions C13_hex_lower_roundtrip.

(* upper-case spelling: the EXACT extra hypothesis (a letter among the first 20 characters) that separates it from the known finding F11 *)
Theorem C13_hex_upper_roundtrip : forall (pre : list N) (p suf : bytes), wf_bytes p -> (10 <= Datatypes.length p)%nat -> hex_stop_upper suf = true -> upper_has_letter (upper (hexlify p)) = true -> (Datatypes.length (hexlify p) + 64 <= Backtrack.default_fuel)%nat -> neutral RE_hex_HEX_RE pre = true -> let form := upper (hexlify p) in let data := pre ++ form ++ suf in find_hex data = Hang \/ (exists rest : list node, find_hex data = Ok (Node [] p DEC_HEX (blen pre) (blen pre + blen form) [] :: rest) /\ Forall (fun nd : node => blen pre + blen form <= n_st nd) rest).
Proof. exact find_hex_roundtrip_upper. Qed.
Print Assumptions C13_hex_upper_roundtrip.

(* ... and without it the statement is false (the known finding, proved about the model) *)
Theorem C13_F11_is_exact : let p := [48%N; 49%N; 50%N; 51%N; 52%N; 53%N; 54%N; 55%N; 56%N; 57%N; 171%N] in let pre := s2b "x = " in let suf := s2b "; y" in let form := upper (hexlify p) in let data := pre ++ form ++ suf in wf_bytes p /\ (10 <= Datatypes.length p)%nat /\ hex_stop_upper suf = true /\ neutral RE_hex_HEX_RE pre = true /\ upper_has_letter form = false /\ ~ (find_hex data = Hang \/ (exists rest : list node, find_hex data = Ok (Node [] p DEC_HEX (blen pre) (blen pre + blen form) [] :: rest) /\ Forall (fun nd : node => blen pre + blen form <= n_st nd) rest)).
Proof. exact rt4_F11_counterexample. Qed.
Print Assumptions C13_F11_is_exact.

(* bare RFC 4648 text meeting the acceptance rules (as the boolean b64_acceptable), payload of at least 16 bytes, not continued by an alphabet / padding / separator byte *)
Theorem C13_base64_roundtrip : forall (pre : list N) (p suf : bytes), wf_bytes p -> (16 <= Datatypes.length p)%nat -> b64_acceptable (b64_encode p) = true -> b64_stop suf = true -> (Datatypes.length (b64_encode p) + 64 <= Backtrack.default_fuel)%nat -> neutral RE_base64_BASE64_RE pre = true -> let form := b64_encode p in let data := pre ++ form ++ suf in find_base64 data = Hang \/ (exists rest : list node, find_base64 data = Ok (Node [] p ENC_B64 (blen pre) (blen pre + blen form) [] :: rest) /\ Forall (fun nd : node => blen pre + blen form <= n_st nd) rest).
Proof. exact find_base64_roundtrip. Qed.
Print Assumptions C13_base64_roundtrip.

(* the 16-byte minimum is needed: a 15-byte payload is not found although its encoding is acceptable *)
Theorem C13_base64_min_length : let p := s2b "Hello, World!12" in let pre := s2b "$_ = '" in let suf := s2b "';" in let form := b64_encode p in let data := pre ++ form ++ suf in wf_bytes p /\ Datatypes.length p = 15%nat /\ b64_acceptable form = true /\ b64_stop suf = true /\ neutral RE_base64_BASE64_RE pre = true /\ ~ (find_base64 data = Hang \/ (exists rest : list node, find_base64 data = Ok (Node [] p ENC_B64 (blen pre) (blen pre + blen form) [] :: rest) /\ Forall (fun nd : node => blen pre + blen form <= n_st nd) rest)).
Proof. exact rt4_b64_min_length_counterexample. Qed.
Print Assumptions C13_base64_min_length.

(* line-wrapped (LF / CR LF) encodings: one node spanning the line breaks *)
Theorem C13_base64_wrapped_roundtrip : forall (pre : list N) (p : bytes) (ls : list (list N * list N)) (lm pad : list N) (suf : bytes), wf_bytes p -> lines_ok ls -> forallb is_b64_char lm = true -> pad_ok pad -> b64_encode p = concat (map fst ls) ++ lm ++ pad -> (4 * (5 - Datatypes.length ls) + 2 <= Datatypes.length lm)%nat -> b64_acceptable (b64_encode p) = true -> b64_stop suf = true -> let form := wtext ls lm ++ pad in (Datatypes.length form + 100 <= Backtrack.default_fuel)%nat -> neutral RE_base64_BASE64_RE pre = true -> let data := pre ++ form ++ suf in find_base64 data = Hang \/ (exists rest : list node, find_base64 data = Ok (Node [] p ENC_B64 (blen pre) (blen pre + blen form) [] :: rest) /\ Forall (fun nd : node => blen pre + blen form <= n_st nd) rest).
Proof. exact find_base64_roundtrip_wrapped. Qed.
Print Assumptions C13_base64_wrapped_roundtrip.

(* a comma-separated array of >= 501 decimal / 0xHH elements (no xor key in the text): one powershell.bytes node, the bytes, exact span *)
Theorem C13_powershell_bytes_roundtrip : forall (xortool : bytes -> list bytes) (pre : list N) (els : list (ps_el * bytes)) (last : ps_el) (suf : bytes), ps_els_ok els -> el_ok last = true -> (500 <= Datatypes.length els)%nat -> ps_stop suf = true -> (2 * Datatypes.length (psb_text els last) + 100 <= Backtrack.default_fuel)%nat -> neutral RE_powershell_POWERSHELL_BYTES_RE pre = true -> neutral RE_xor_helper_XOR_RE pre = true -> neutral RE_xor_helper_XOR_RE suf = true -> let form := psb_text els last in let data := pre ++ form ++ suf in find_powershell_bytes xortool data = Hang \/ (exists rest : list node, find_powershell_bytes xortool data = Ok (Node (s2b "powershell.bytes") (ps_values els last) [] (blen pre) (blen pre + blen form) [] :: rest) /\ Forall (fun nd : node => blen pre + blen form <= n_st nd) rest).
Proof. exact find_powershell_bytes_roundtrip. Qed.
Print Assumptions C13_powershell_bytes_roundtrip.

Theorem C13_min_chars_tied : MIN_B64_CHARS = Generated.Consts.G_MIN_B64_CHARS.
Proof. reflexivity. Qed.
Print Assumptions C13_min_chars_tied.

Example C13_example :
  find_atob (L"x = atob('aGVsbG8=') ;") = Ok [Node (L"javascript.string") (L"hello") (L"encoding.base64") 4 20 []]
  /\ find_hex (L"zz 68656c6c6f20776f726c6421 zz") = Ok [Node [] (L"hello world!") (L"decoded.hexadecimal") 3 27 []].
Proof. vm_compute. split; reflexivity. Qed.
Print Assumptions C13_example.
