(* C06 - The scan engine conforms to the interval-nesting reference for any registry.
   Model/Engine.v is the code's algorithm (relative coordinates, running offset, in-place shift, context
   stack); Model/Reference.v is the property's procedure in absolute coordinates (containment of the reported
   interval, original text taken from the searched text).  Only statements and `exact` here. *)
From Coq Require Import Sorting.Sorted Sorting.Permutation.
From MD Require Import Lib.Base Model.Node Model.Engine Model.Reference Proofs.SortProofs Proofs.EngineRefine.
From MD Require Generated.Consts.

(* for every registry whose kept hits are non-empty and in bounds, every node, every depth budget and every
   ghost annotation of the scanned node: the engine returns exactly the (erased) reference tree - or fails
   exactly as the reference does *)
Theorem C06_refines : forall search, wf_search search ->
  forall d k a b n, k <> KCtx ->
  scan_node search d n = map_res erase (ref_scan_node search d k a b n).
Proof. exact engine_refines_reference. Qed.
Print Assumptions C06_refines.

Theorem C06_scan_refines : forall search, wf_search search ->
  forall depth data, scan search depth data = map_res erase (ref_scan search depth data).
Proof. exact scan_refines_reference. Qed.
Print Assumptions C06_scan_refines.

(* the order the hits are processed in: a permutation of the reported non-empty hits (none lost, none
   duplicated), sorted by start ascending then end descending, ties in registry order (stable) *)
Theorem C06_order_perm : forall l, Permutation (sort_hits l) l.
Proof. exact sort_hits_perm. Qed.
Print Assumptions C06_order_perm.

Theorem C06_order_sorted : forall l, StronglySorted hit_leP (sort_hits l).
Proof. exact sort_hits_sorted. Qed.
Print Assumptions C06_order_sorted.

Theorem C06_order_key : forall a b, hit_le a b = true <-> (n_st a < n_st b \/ (n_st a = n_st b /\ n_en b <= n_en a)).
Proof. exact hit_le_spec. Qed.
Print Assumptions C06_order_key.

Theorem C06_order_stable : forall k l, filter (same_key k) (sort_hits l) = filter (same_key k) l.
Proof. exact sort_hits_stable. Qed.
Print Assumptions C06_order_stable.

(* the default depth limit of the model is the one in the source *)
Theorem C06_depth_tied : Generated.Consts.DEFAULT_DEPTH_LIMIT = 10.
Proof. reflexivity. Qed.
Print Assumptions C06_depth_tied.

(* non-vacuity: a registry satisfying wf_search on which engine and reference build a 3-level tree:
   a context [1,5), inside it a decoding hit [2,4) whose value is searched again, a sibling after it *)
Definition ex_search (v : bytes) : list node :=
  if beqb v (L"abcdef") then
    [Node (L"ctx") (L"bcde") [] 1 5 []; Node (L"dec") (L"XYZ") (L"o") 2 4 []; Node (L"in") (L"c") [] 2 3 [];
     Node (L"sib") (L"e") [] 4 5 []]
  else if beqb v (L"XYZ") then [Node (L"y") (L"Y") [] 1 2 []]
  else [].

Example C06_example :
  scan ex_search 10 (L"abcdef")
  = Ok (Node [] (L"abcdef") [] 0 6
         [Node (L"ctx") (L"bcde") [] 1 5
            [Node (L"dec") (L"XYZ") (L"o") 1 3 [Node (L"y") (L"Y") [] 1 2 []];
             Node (L"sib") (L"e") [] 3 4 []]])
  /\ map_res erase (ref_scan ex_search 10 (L"abcdef")) = scan ex_search 10 (L"abcdef").
Proof. vm_compute. split; reflexivity. Qed.
Print Assumptions C06_example.
