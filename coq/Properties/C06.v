(* C06 - The scan engine conforms to the interval-nesting reference for any registry.
   Model/Engine.v is the code's algorithm (relative coordinates, running offset, in-place shift, context
   stack); Model/Reference.v is the property's procedure in absolute coordinates (containment of the reported
   interval, original text taken from the searched text).  Only statements and `exact` here. *)
From Coq Require Import Sorting.Sorted Sorting.Permutation.
From MD Require Import Lib.Base Model.Node Model.Engine Model.Reference Proofs.SortProofs Proofs.EngineRefine.
From MD Require Generated.Consts.

(* for every registry whose kept hits are non-empty and in bounds, every node, every depth budget and every
   ghost annotation of the scanned node: the engine returns exactly the (erased) reference tree - or fails
   exactly as the reference does *)
Theorem C06_refines : forall search, wf_search search ->
  forall d k a b n, k <> KCtx ->
  scan_node search d n = map_res erase (ref_scan_node search d k a b n).
Proof. exact engine_refines_reference. Qed.
Print Assumptions C06_refines.

Theorem C06_scan_refines : forall search, wf_search search ->
  forall depth data, scan search depth data = map_res erase (ref_scan search depth data).
Proof. exact scan_refines_reference. Qed.
Print Assumptions C06_scan_refines.

(* the order the hits are processed in: a permutation of the reported non-empty hits (none lost, none
   duplicated), sorted by start ascending then end descending, ties in registry order (stable) *)
Theorem C06_order_perm : forall l, Permutation (sort_hits l) l.
Proof. exact sort_hits_perm. Qed.
Print Assumptions C06_order_perm.

Theorem C06_order_sorted : forall l, StronglySorted hit_leP (sort_hits l).
Proof. exact sort_hits_sorted. Qed.
Print Assumptions C06_order_sorted.

Theorem C06_order_key : forall a b, hit_le a b = true <-> (n_st a < n_st b \/ (n_st a = n_st b /\ n_en b <= n_en a)).
Proof. exact hit_le_spec. Qed.
Print Assumptions C06_order_key.

Theorem C06_order_stable : forall k l, filter (same_key k) (sort_hits l) = filter (same_key k) l.
Proof. exact sort_hits_stable. Qed.
Print Assumptions C06_order_stable.

(* the default depth limit of the model is the one in the source *)
Theorem C06_depth_tied : Generated.Consts.DEFAULT_DEPTH_LIMIT = 10.
Proof. reflexivity. Qed.
Print Assumptions C06_depth_tied.

(* non-vacuity: a registry satisfying wf_search on which engine and reference build a 3-level tree:
   a context [1,5), inside it a decoding hit [2,4) whose value is searched again, a sibling after it *)
Definition ex_search (v : bytes) : list node :=
  if beqb v (L"abcdef") then
    [Node (L"ctx") (L"bcde") [] 1 5 []; Node (L"dec") (L"XYZ") (L"o") 2 4 []; Node (L"in") (L"c") [] 2 3 [];
     Node (L"sib") (L"e") [] 4 5 []]
  else if beqb v (L"XYZ") then [Node (L"y") (L"Y") [] 1 2 []]
  else [].

Example C06_example :
  scan ex_search 10 (L"abcdef")
  = Ok (Node [] (L"abcdef") [] 0 6
         [Node (L"ctx") (L"bcde") [] 1 5
            [Node (L"dec") (L"XYZ") (L"o") 1 3 [Node (L"y") (L"Y") [] 1 2 []];
             Node (L"sib") (L"e") [] 3 4 []]])
  /\ map_res erase (ref_scan ex_search 10 (L"abcdef")) = scan ex_search 10 (L"abcdef").
Proof. vm_compute. split; reflexivity. Qed.
Print Assumptions C06_example.

(* BEGIN shipped-registry instances *)
(* THE SHIPPED SCANNER (Proofs/DefaultEngine.v): the theorems above hold for any registry with in-bounds hits; these are the same statements about the model of Multidecoder().scan itself - the regenerated registry of all 30 decoders and the keyword searchers (scan_default), the registry with find_powershell_strings replaced by any conforming decoder ps (scan_default_with ... ps; F6 is the reason it does not conform itself), and the registry with the shell module excluded (scan_noshell) - for every input, depth limit, keyword directory and tool oracle (pe_size non-negative). *)
From MD Require Import Model.EngineR Model.Default Model.Flatten Proofs.DefaultWf Proofs.DefaultEngine Proofs.ChainProofs.

Theorem C06_shipped_refines : forall pe_size : Base.bytes -> BinNums.Z, (forall b : Base.bytes, BinInt.Z.le BinNums.Z0 (pe_size b)) -> forall (xortool : Base.bytes -> list Base.bytes) (extra : Base.label -> option (Base.bytes -> Base.res (list Node.node))) (ps : Base.bytes -> Base.res (list Node.node)) (kwdir : Registry.dtree) (depth : BinNums.Z) (data : Base.bytes) (t : Node.node), strong_ok ps -> scan_default_with pe_size xortool extra ps kwdir depth data = Base.Ok t -> EngineRefine.map_res Reference.erase (Reference.ref_scan (search_of (search_default_with pe_size xortool extra ps kwdir)) depth data) = Base.Ok t /\ Engine.scan (search_of (search_default_with pe_size xortool extra ps kwdir)) depth data = Base.Ok t.
Proof. exact default_scan_refines_reference. Qed.
Print Assumptions C06_shipped_refines.

Theorem C06_shipped_node_refines : forall pe_size : Base.bytes -> BinNums.Z, (forall b : Base.bytes, BinInt.Z.le BinNums.Z0 (pe_size b)) -> forall (xortool : Base.bytes -> list Base.bytes) (extra : Base.label -> option (Base.bytes -> Base.res (list Node.node))) (ps : Base.bytes -> Base.res (list Node.node)) (kwdir : Registry.dtree) (d : nat) (n t : Node.node), strong_ok ps -> scan_node_r (search_default_with pe_size xortool extra ps kwdir) d n = Base.Ok t -> forall (k : Reference.kind) (a b : BinNums.Z), k <> Reference.KCtx -> EngineRefine.map_res Reference.erase (Reference.ref_scan_node (search_of (search_default_with pe_size xortool extra ps kwdir)) d k a b n) = Base.Ok t.
Proof. exact default_scan_node_refines_reference. Qed.
Print Assumptions C06_shipped_node_refines.

(* processing order = sorted, stable permutation of the hits the shipped registry reports *)
Theorem C06_shipped_order : forall (pe_size : Base.bytes -> BinNums.Z) (xortool : Base.bytes -> list Base.bytes) (extra : Base.label -> option (Base.bytes -> Base.res (list Node.node))) (ps : Base.bytes -> Base.res (list Node.node)) (kwdir : Registry.dtree) (d : nat) (n t : Node.node), Node.n_kids n = nil -> scan_node_r (search_default_with pe_size xortool extra ps kwdir) (S d) n = Base.Ok t -> exists (hits : list Node.node) (s : Engine.state), search_default_with pe_size xortool extra ps kwdir (Node.n_val n) = Base.Ok hits /\ Engine.results (search_of (search_default_with pe_size xortool extra ps kwdir)) n = Engine.sort_hits (List.filter Engine.nonempty_val hits) /\ Base.foldM (Engine.step (scan_node_r (search_default_with pe_size xortool extra ps kwdir) d)) (Engine.results (search_of (search_default_with pe_size xortool extra ps kwdir)) n) (Engine.init_state n) = Base.Ok s /\ t = Engine.unwind (Engine.cur s) (Engine.stack s) /\ Permutation.Permutation (Engine.results (search_of (search_default_with pe_size xortool extra ps kwdir)) n) (List.filter Engine.nonempty_val hits) /\ Sorted.StronglySorted SortProofs.hit_leP (Engine.results (search_of (search_default_with pe_size xortool extra ps kwdir)) n) /\ (forall k : Node.node, List.filter (SortProofs.same_key k) (Engine.results (search_of (search_default_with pe_size xortool extra ps kwdir)) n) = List.filter (SortProofs.same_key k) (List.filter Engine.nonempty_val hits)).
Proof. exact default_scan_order. Qed.
Print Assumptions C06_shipped_order.

Theorem C06_shipped_registry_concat : forall (pe_size : Base.bytes -> BinNums.Z) (xortool : Base.bytes -> list Base.bytes) (extra : Base.label -> option (Base.bytes -> Base.res (list Node.node))) (ps : Base.bytes -> Base.res (list Node.node)) (kwdir : Registry.dtree) (v : Base.bytes) (hs : list Node.node), search_default_with pe_size xortool extra ps kwdir v = Base.Ok hs -> exists ls : list (list Node.node), List.Forall2 (fun (d : Base.bytes -> Base.res (list Node.node)) (l : list Node.node) => d v = Base.Ok l) (registry_with pe_size xortool extra ps RegistryTable.decoder_modules kwdir nil nil) ls /\ hs = List.concat ls.
Proof. exact default_search_concat. Qed.
Print Assumptions C06_shipped_registry_concat.

Theorem C06_noshell_refines : forall pe_size : Base.bytes -> BinNums.Z, (forall b : Base.bytes, BinInt.Z.le BinNums.Z0 (pe_size b)) -> forall (xortool : Base.bytes -> list Base.bytes) (extra : Base.label -> option (Base.bytes -> Base.res (list Node.node))) (kwdir : Registry.dtree) (depth : BinNums.Z) (data : Base.bytes) (t : Node.node), scan_noshell pe_size xortool extra kwdir depth data = Base.Ok t -> EngineRefine.map_res Reference.erase (Reference.ref_scan (search_of (search_noshell pe_size xortool extra kwdir)) depth data) = Base.Ok t /\ Engine.scan (search_of (search_noshell pe_size xortool extra kwdir)) depth data = Base.Ok t.
Proof. exact noshell_scan_refines_reference. Qed.
Print Assumptions C06_noshell_refines.

(* scan_default itself, find_powershell_strings included, no hypothesis *)
Theorem C06_shipped_order_unconditional : forall (pe_size : Base.bytes -> BinNums.Z) (xortool : Base.bytes -> list Base.bytes) (extra : Base.label -> option (Base.bytes -> Base.res (list Node.node))) (kwdir : Registry.dtree) (d : nat) (n t : Node.node), Node.n_kids n = nil -> scan_node_r (search_default pe_size xortool extra RegistryTable.decoder_modules kwdir) (S d) n = Base.Ok t -> exists (hits : list Node.node) (s : Engine.state), search_default pe_size xortool extra RegistryTable.decoder_modules kwdir (Node.n_val n) = Base.Ok hits /\ Engine.results (search_of (search_default pe_size xortool extra RegistryTable.decoder_modules kwdir)) n = Engine.sort_hits (List.filter Engine.nonempty_val hits) /\ Base.foldM (Engine.step (scan_node_r (search_default pe_size xortool extra RegistryTable.decoder_modules kwdir) d)) (Engine.results (search_of (search_default pe_size xortool extra RegistryTable.decoder_modules kwdir)) n) (Engine.init_state n) = Base.Ok s /\ t = Engine.unwind (Engine.cur s) (Engine.stack s) /\ Permutation.Permutation (Engine.results (search_of (search_default pe_size xortool extra RegistryTable.decoder_modules kwdir)) n) (List.filter Engine.nonempty_val hits) /\ Sorted.StronglySorted SortProofs.hit_leP (Engine.results (search_of (search_default pe_size xortool extra RegistryTable.decoder_modules kwdir)) n) /\ (forall k : Node.node, List.filter (SortProofs.same_key k) (Engine.results (search_of (search_default pe_size xortool extra RegistryTable.decoder_modules kwdir)) n) = List.filter (SortProofs.same_key k) (List.filter Engine.nonempty_val hits)).
Proof. exact shipped_scan_order. Qed.
Print Assumptions C06_shipped_order_unconditional.

(* END shipped-registry instances *)
