(* C02 - Layered obfuscation round-trips.  PARTIAL (see DESIGN.md): (1) per layer, the codec law: decoding the encoder's image yields the payload, for ALL payloads of the layer's domain; (2) the engine part for an arbitrary registry (a decoded hit's children are exactly a scan of its value with one less depth; flatten splices the flattened child, re-quoted for string types) - the chain law itself is in Proofs/ChainProofs.v when present; (3) what each shipped decoder reports for its match list.  That the shipped regexes select exactly the encoded span under neutral embedding and that no other decoder ties or encloses it is validated by harness/props/C02.py (stacks up to the depth limit) and by the whole-scan model = implementation comparison.  Statements pinned by harness/mkprop.py. *)
From MD Require Import Lib.Base Model.Node Model.Engine Model.Flatten Model.Codec.Base64 Model.Codec.Hex Model.Codec.Utf Model.Codec.Percent Model.Dec.XmlChr Model.Dec.Carets Model.Dec.ReLib Model.Dec.StrOps Model.Dec.B64Hex.
From MD Require Import Proofs.Base64Proofs Proofs.HexProofs Proofs.UtfProofs Proofs.PercentProofs Proofs.XmlChrProofs Proofs.CaretsProofs Proofs.EscDecProofs Proofs.StrOpsProofs Proofs.B64HexProofs Proofs.EngineRefine Proofs.EngineDepth Proofs.FlattenProofs.

(* base64 (bare and the three call forms): a2b_base64 (b64_encode p) = p for every payload *)
Theorem C02_layer_base64 : forall p : bytes, wf_bytes p -> a2b_base64 (b64_encode p) = Ok p.
Proof. exact a2b_encode. Qed.
Print Assumptions C02_layer_base64.

Theorem C02_layer_base64_strict : forall p : bytes, wf_bytes p -> b64_decode_strict (b64_encode p) = Some p.
Proof. exact b64_roundtrip. Qed.
Print Assumptions C02_layer_base64_strict.

(* hexadecimal (bare and FromHexString) *)
Theorem C02_layer_hex : forall p : bytes, wf_bytes p -> unhexlify (hexlify p) = Ok p.
Proof. exact unhexlify_hexlify. Qed.
Print Assumptions C02_layer_hex.

(* UTF-16LE Latin-1 text *)
Theorem C02_layer_utf16 : forall units : list N, Forall (fun c : N => (c < 256)%N) units -> utf16_to_utf8 (interleave0 units) = Ok (flat_map utf8_latin1 units).
Proof. exact utf16_to_utf8_latin1. Qed.
Print Assumptions C02_layer_utf16.

(* XML character references *)
Theorem C02_layer_xml : forall items : list bytes, xml_items_ok items -> unescape_xml (concat (map xml_reference items)) = Ok (map xml_item_num items) /\ wf_bytes (map xml_item_num items).
Proof. exact unescape_xml_items. Qed.
Print Assumptions C02_layer_xml.

(* percent-unescape *)
Theorem C02_layer_unescape : forall b : bytes, wf_bytes b -> unquote_to_bytes (quote_all b) = b.
Proof. exact unquote_quote_all. Qed.
Print Assumptions C02_layer_unescape.

(* reversal: the slice of a quoted literal is its contents reversed (so reversing twice gives the payload) *)
Theorem C02_layer_reverse : forall (q q' : N) (s : bytes), rev_slice (q :: s ++ [q']) = rev s.
Proof. exact rev_slice_quoted. Qed.
Print Assumptions C02_layer_reverse.

(* replacement *)
Theorem C02_layer_replace : forall (x : bytes) (a : list N) (b : bytes), a <> [] -> subst_all a b x (py_replace x a b).
Proof. exact py_replace_subst_all. Qed.
Print Assumptions C02_layer_replace.

(* string concatenation *)
Theorem C02_layer_concat : forall (c : chain) (inner : list Backtrack.mtch), map (fun mi : Backtrack.mtch => span mi 0) inner = junction_spans (1 + blen (c_l1 c)) (c_rest c) -> concat_value (chain_text c) inner = chain_value c.
Proof. exact concat_value_chain. Qed.
Print Assumptions C02_layer_concat.

(* caret escaping *)
Theorem C02_layer_carets : forall cmd : bytes, strip_carets_impl cmd = Ok (cmd_unescape cmd).
Proof. exact strip_carets_correct. Qed.
Print Assumptions C02_layer_carets.

Theorem C02_layer_carets_identity : forall cmd : bytes, ~ In 94%N cmd -> cmd_unescape cmd = cmd.
Proof. exact cmd_unescape_no_caret. Qed.
Print Assumptions C02_layer_carets_identity.

(* PowerShell byte arrays *)
Theorem C02_layer_ps_bytes : forall (t : bytes) (vals : list Z), Forall2 ps_tok (split_on 44 t) vals -> ps_binary t = Ok (if forallb (fun v : Z => v <=? 255) vals then Some (map Z.to_N vals) else None).
Proof. exact ps_binary_spec. Qed.
Print Assumptions C02_layer_ps_bytes.

(* engine: every decoded hit receives the children of an independent scan of its value with one less depth *)
Theorem C02_engine_sub_results : forall search : bytes -> list node, wf_search search -> forall (d : nat) (n : node), n_kids n = [] -> scan_node search (S d) n = (do s <- foldM (step (rec_fresh search d)) (results search n) (init_state n); Ok (unwind (cur s) (stack s))).
Proof. exact scan_node_attaches_fresh_scans. Qed.
Print Assumptions C02_engine_sub_results.

Theorem C02_engine_fresh : forall search : bytes -> list node, wf_search search -> forall (d : nat) (ty : label) (v : bytes) (o : label) (s e : Z) (o' : label) (s' e' : Z) (t : node), scan_node search d (Node ty v o s e []) = Ok t -> scan_node search d (Node ty v o' s' e' []) = Ok (Node ty v o' s' e' (n_kids t)) /\ (exists ks : list node, t = Node ty v o s e ks).
Proof. exact scan_node_fresh. Qed.
Print Assumptions C02_engine_fresh.

(* flatten splices the flattened children left to right *)
Theorem C02_flatten_spec : forall n : node, flatten n = splice (n_val n) (selected flatten (n_val n) (n_kids n) 0).
Proof. exact flatten_spec. Qed.
Print Assumptions C02_flatten_spec.

Theorem C02_flatten_quotes : forall (n : node) (x : triple), In x (selected flatten (n_val n) (n_kids n) 0) -> exists c : node, In c (n_kids n) /\ t_st x = n_st c /\ t_en x = n_en c /\ (endswith (n_ty c) (s2b "string") = true -> t_rep x = [34%N] ++ flatten c ++ [34%N]) /\ (endswith (n_ty c) (s2b "string") = false -> t_rep x = flatten c).
Proof. exact flatten_quotes. Qed.
Print Assumptions C02_flatten_quotes.

Example C02_example :
  a2b_base64 (b64_encode (L"GET http://evil.example.com/payload.exe now")) = Ok (L"GET http://evil.example.com/payload.exe now")
  /\ unhexlify (hexlify (L"payload")) = Ok (L"payload").
Proof. vm_compute. split; reflexivity. Qed.
Print Assumptions C02_example.
