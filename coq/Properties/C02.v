(* C02 - Layered obfuscation round-trips.  PARTIAL (see DESIGN.md): (1) per layer, the codec law: decoding the encoder's image yields the payload, for ALL payloads of the layer's domain; (2) the engine part for an arbitrary registry (a decoded hit's children are exactly a scan of its value with one less depth; flatten splices the flattened child, re-quoted for string types) - the chain law itself is in Proofs/ChainProofs.v when present; (3) what each shipped decoder reports for its match list.  That the shipped regexes select exactly the encoded span under neutral embedding and that no other decoder ties or encloses it is validated by harness/props/C02.py (stacks up to the depth limit) and by the whole-scan model = implementation comparison.  Statements pinned by harness/mkprop.py. *)
From MD Require Import Lib.Base Model.Node Model.Engine Model.Flatten Model.Codec.Base64 Model.Codec.Hex Model.Codec.Utf Model.Codec.Percent Model.Dec.XmlChr Model.Dec.Carets Model.Dec.ReLib Model.Dec.StrOps Model.Dec.B64Hex.
From MD Require Import Proofs.Base64Proofs Proofs.HexProofs Proofs.UtfProofs Proofs.PercentProofs Proofs.XmlChrProofs Proofs.CaretsProofs Proofs.EscDecProofs Proofs.StrOpsProofs Proofs.B64HexProofs Proofs.EngineRefine Proofs.EngineDepth Proofs.FlattenProofs Proofs.ChainProofs.
From MD Require Import Model.EngineR Model.Default Model.Flatten Proofs.DefaultWf Proofs.DefaultEngine Proofs.ChainProofs.
From MD Require Import Regex.LocalityProofs Proofs.RoundTrip.
From MD Require Import Regex.LocalityProofs Proofs.RoundTrip Proofs.RoundTrip2.
From MD Require Import Regex.LocalityProofs Proofs.RoundTrip Proofs.RoundTrip2 Proofs.RoundTrip3 Proofs.RoundTrip4 Proofs.RoundTrip5 Proofs.RoundTrip6.
From MD Require Import Proofs.RoundTrip7.
From MD Require Import Proofs.Dominance.

(* base64 (bare and the three call forms): a2b_base64 (b64_encode p) = p for every payload *)
Theorem C02_layer_base64 : forall p : bytes, wf_bytes p -> a2b_base64 (b64_encode p) = Ok p.
Proof. exact a2b_encode. Qed.
Print Assumptions C02_layer_base64.

Theorem C02_layer_base64_strict : forall p : bytes, wf_bytes p -> b64_decode_strict (b64_encode p) = Some p.
Proof. exact b64_roundtrip. Qed.
Print Assumptions C02_layer_base64_strict.

(* hexadecimal (bare and FromHexString) *)
Theorem C02_layer_hex : forall p : bytes, wf_bytes p -> unhexlify (hexlify p) = Ok p.
Proof. exact unhexlify_hexlify. Qed.
Print Assumptions C02_layer_hex.

(* UTF-16LE Latin-1 text *)
Theorem C02_layer_utf16 : forall units : list N, Forall (fun c : N => (c < 256)%N) units -> utf16_to_utf8 (interleave0 units) = Ok (flat_map utf8_latin1 units).
Proof. exact utf16_to_utf8_latin1. Qed.
Print Assumptions C02_layer_utf16.

(* XML character references *)
Theorem C02_layer_xml : forall items : list bytes, xml_items_ok items -> unescape_xml (concat (map xml_reference items)) = Ok (map xml_item_num items) /\ wf_bytes (map xml_item_num items).
Proof. exact unescape_xml_items. Qed.
Print Assumptions C02_layer_xml.

(* percent-unescape *)
Theorem C02_layer_unescape : forall b : bytes, wf_bytes b -> unquote_to_bytes (quote_all b) = b.
Proof. exact unquote_quote_all. Qed.
Print Assumptions C02_layer_unescape.

(* reversal: the slice of a quoted literal is its contents reversed (so reversing twice gives the payload) *)
Theorem C02_layer_reverse : forall (q q' : N) (s : bytes), rev_slice (q :: s ++ [q']) = rev s.
Proof. exact rev_slice_quoted. Qed.
Print Assumptions C02_layer_reverse.

(* replacement *)
Theorem C02_layer_replace : forall (x : bytes) (a : list N) (b : bytes), a <> [] -> subst_all a b x (py_replace x a b).
Proof. exact py_replace_subst_all. Qed.
Print Assumptions C02_layer_replace.

(* string concatenation *)
Theorem C02_layer_concat : forall (c : StrOpsProofs.chain) (inner : list Backtrack.mtch), map (fun mi : Backtrack.mtch => span mi 0) inner = junction_spans (1 + blen (c_l1 c)) (c_rest c) -> concat_value (chain_text c) inner = chain_value c.
Proof. exact concat_value_chain. Qed.
Print Assumptions C02_layer_concat.

(* caret escaping *)
Theorem C02_layer_carets : forall cmd : bytes, strip_carets_impl cmd = Ok (cmd_unescape cmd).
Proof. exact strip_carets_correct. Qed.
Print Assumptions C02_layer_carets.

Theorem C02_layer_carets_identity : forall cmd : bytes, ~ In 94%N cmd -> cmd_unescape cmd = cmd.
Proof. exact cmd_unescape_no_caret. Qed.
Print Assumptions C02_layer_carets_identity.

(* PowerShell byte arrays *)
Theorem C02_layer_ps_bytes : forall (t : bytes) (vals : list Z), Forall2 ps_tok (split_on 44 t) vals -> ps_binary t = Ok (if forallb (fun v : Z => v <=? 255) vals then Some (map Z.to_N vals) else None).
Proof. exact ps_binary_spec. Qed.
Print Assumptions C02_layer_ps_bytes.

(* engine: every decoded hit receives the children of an independent scan of its value with one less depth *)
Theorem C02_engine_sub_results : forall search : bytes -> list node, wf_search search -> forall (d : nat) (n : node), n_kids n = [] -> scan_node search (S d) n = (do s <- foldM (step (rec_fresh search d)) (results search n) (init_state n); Ok (unwind (cur s) (stack s))).
Proof. exact scan_node_attaches_fresh_scans. Qed.
Print Assumptions C02_engine_sub_results.

Theorem C02_engine_fresh : forall search : bytes -> list node, wf_search search -> forall (d : nat) (ty : label) (v : bytes) (o : label) (s e : Z) (o' : label) (s' e' : Z) (t : node), scan_node search d (Node ty v o s e []) = Ok t -> scan_node search d (Node ty v o' s' e' []) = Ok (Node ty v o' s' e' (n_kids t)) /\ (exists ks : list node, t = Node ty v o s e ks).
Proof. exact scan_node_fresh. Qed.
Print Assumptions C02_engine_fresh.

(* flatten splices the flattened children left to right *)
Theorem C02_flatten_spec : forall n : node, flatten n = splice (n_val n) (selected flatten (n_val n) (n_kids n) 0).
Proof. exact flatten_spec. Qed.
Print Assumptions C02_flatten_spec.

Theorem C02_flatten_quotes : forall (n : node) (x : triple), In x (selected flatten (n_val n) (n_kids n) 0) -> exists c : node, In c (n_kids n) /\ t_st x = n_st c /\ t_en x = n_en c /\ (endswith (n_ty c) (s2b "string") = true -> t_rep x = [34%N] ++ flatten c ++ [34%N]) /\ (endswith (n_ty c) (s2b "string") = false -> t_rep x = flatten c).
Proof. exact flatten_quotes. Qed.
Print Assumptions C02_flatten_quotes.

(* ENGINE CHAIN LAW, arbitrary registry: when the layer's hit is dominant at the searched value (it decodes, every other reported hit lies inside its span and does not sort before it), the scanned node gets exactly ONE child: that hit, scanned with one less depth *)
Theorem C02_engine_dominant : forall (search : bytes -> list node) (d : nat) (n h h2 : node), n_kids n = [] -> dominant search (n_ty n) (n_val n) h -> scan_node search d h = Ok h2 -> scan_node search (S d) n = Ok (set_kids n [h2]).
Proof. exact scan_dominant. Qed.
Print Assumptions C02_engine_dominant.

(* one nested node per layer, outermost first, headers (type, value, label, span) exactly the layers' hits *)
Theorem C02_engine_chain : forall (search : bytes -> list node) (hs : list node) (d : nat) (n t : node), chain search d (n_ty n) (n_val n) hs -> n_kids n = [] -> scan_node search d n = Ok t -> nested t hs.
Proof. exact scan_chain. Qed.
Print Assumptions C02_engine_chain.

Theorem C02_engine_chain_scan : forall (search : bytes -> list node) (depth : Z) (data : bytes) (hs : list node) (t : node), 0 < depth -> chain search (Z.to_nat depth) [] data hs -> scan search depth data = Ok t -> n_val t = data /\ nested t hs.
Proof. exact scan_chain_scan. Qed.
Print Assumptions C02_engine_chain_scan.

Theorem C02_chain_values : forall (hs : list node) (t : node), nested t hs -> map n_val (ChainProofs.spine t (Datatypes.length hs)) = map n_val hs.
Proof. exact nested_values. Qed.
Print Assumptions C02_chain_values.

Theorem C02_flatten_single : forall (t : label) (v : list N) (o : label) (s e : Z) (c : node), 0 <= n_st c -> flatten c <> slice v (n_st c) (n_en c) -> flatten (Node t v o s e [c]) = slice v 0 (n_st c) ++ quote_if_string (n_ty c) (flatten c) ++ slice_from v (n_en c).
Proof. exact flatten_single_child. Qed.
Print Assumptions C02_flatten_single.

(* flattening the chain = the text with the innermost flattened value substituted at every level (re-quoted for string types) *)
Theorem C02_flatten_chain : forall (hs : list node) (t : node), nested t hs -> substituted (n_val t) hs (flatten (innermost t (Datatypes.length hs))) -> flatten t = flat_of (n_val t) hs (flatten (innermost t (Datatypes.length hs))).
Proof. exact flatten_chain. Qed.
Print Assumptions C02_flatten_chain.

Theorem C02_scan_flatten_chain : forall (search : bytes -> list node) (hs : list node) (h n t : node), chain search (Datatypes.length (hs ++ [h])) (n_ty n) (n_val n) (hs ++ [h]) -> n_kids n = [] -> scan_node search (Datatypes.length (hs ++ [h])) n = Ok t -> substituted (n_val n) (hs ++ [h]) (n_val h) -> flatten t = subst_chain (n_val n) (hs ++ [h]).
Proof. exact scan_flatten_chain. Qed.
Print Assumptions C02_scan_flatten_chain.

(* the engine chain law at scan_default itself *)
Theorem C02_shipped_chain : forall (pe_size : bytes -> Z) (xortool : bytes -> list bytes) (extra : label -> option (bytes -> res (list node))) (kwdir : Registry.dtree) (depth : Z) (data : bytes) (hs : list node) (t : node), 0 < depth -> chain (search_of (search_default pe_size xortool extra RegistryTable.decoder_modules kwdir)) (Z.to_nat depth) [] data hs -> scan_default pe_size xortool extra RegistryTable.decoder_modules kwdir depth data = Ok t -> n_val t = data /\ nested t hs.
Proof. exact shipped_scan_chain. Qed.
Print Assumptions C02_shipped_chain.

Theorem C02_shipped_flatten_chain : forall (pe_size : bytes -> Z) (xortool : bytes -> list bytes) (extra : label -> option (bytes -> res (list node))) (kwdir : Registry.dtree) (hs : list node) (h : node) (data : bytes) (t : node), chain (search_of (search_default pe_size xortool extra RegistryTable.decoder_modules kwdir)) (Datatypes.length (hs ++ [h])) [] data (hs ++ [h]) -> scan_default pe_size xortool extra RegistryTable.decoder_modules kwdir (Z.of_nat (Datatypes.length (hs ++ [h]))) data = Ok t -> substituted data (hs ++ [h]) (n_val h) -> flatten t = subst_chain data (hs ++ [h]).
Proof. exact shipped_scan_flatten_chain. Qed.
Print Assumptions C02_shipped_flatten_chain.

Theorem C02_shipped_node_chain : forall (pe_size : bytes -> Z) (xortool : bytes -> list bytes) (extra : label -> option (bytes -> res (list node))) (kwdir : Registry.dtree) (hs : list node) (d : nat) (n t : node), chain (search_of (search_default pe_size xortool extra RegistryTable.decoder_modules kwdir)) d (n_ty n) (n_val n) hs -> n_kids n = [] -> scan_node_r (search_default pe_size xortool extra RegistryTable.decoder_modules kwdir) d n = Ok t -> nested t hs /\ hdr_eq t n.
Proof. exact shipped_scan_node_chain. Qed.
Print Assumptions C02_shipped_node_chain.

(* PER-LAYER round trip INCLUDING span selection by the matcher: END-TO-END ROUND TRIP (Proofs/RoundTrip.v): for EVERY payload, the encoded form embedded after any neutral prefix (no byte that can start a match of the pattern) and before ANY suffix is found by the model's matcher on the regenerated pattern, as ONE node with exactly the form's span and the payload as value; later nodes start after it.  `Hang` (matcher fuel on the arbitrary suffix) is the only alternative. *)
Theorem C02_layer_atob_found : forall (pre : list N) (p : bytes) (suf : list N) (q q' : N), wf_bytes p -> p <> [] -> is_quote q -> is_quote q' -> (Datatypes.length (b64_encode p) + 64 <= Backtrack.default_fuel)%nat -> neutral Regexes.RE_base64_ATOB_RE pre = true -> let form := s2b "atob(" ++ [q] ++ b64_encode p ++ [q'] ++ s2b ")" in let data := pre ++ form ++ suf in find_atob data = Hang \/ (exists rest : list node, find_atob data = Ok (Node (s2b "javascript.string") p ENC_B64 (blen pre) (blen pre + blen form) [] :: rest) /\ Forall (fun nd : node => blen pre + blen form <= n_st nd) rest).
Proof. exact find_atob_roundtrip. Qed.
Print Assumptions C02_layer_atob_found.

Theorem C02_layer_Base64Decode_found : forall (nm : bytes) (pre : list N) (p : bytes) (suf : list N) (q q' : N), lower nm = s2b "base64decode(" -> wf_bytes p -> p <> [] -> is_quote q -> is_quote q' -> (Datatypes.length (b64_encode p) + 64 <= Backtrack.default_fuel)%nat -> neutral Regexes.RE_base64_BASE64DECODE_RE pre = true -> let form := nm ++ [q] ++ b64_encode p ++ [q'] ++ s2b ")" in let data := pre ++ form ++ suf in find_Base64Decode data = Hang \/ (exists rest : list node, find_Base64Decode data = Ok (Node (s2b "vba.string") p ENC_B64 (blen pre) (blen pre + blen form) [] :: rest) /\ Forall (fun nd : node => blen pre + blen form <= n_st nd) rest).
Proof. exact find_Base64Decode_roundtrip. Qed.
Print Assumptions C02_layer_Base64Decode_found.

Theorem C02_layer_FromBase64String_found : forall (nm : bytes) (pre : list N) (p : bytes) (suf : list N) (q q' : N), lower nm = s2b "frombase64string(" -> wf_bytes p -> p <> [] -> is_quote q -> is_quote q' -> (Datatypes.length (b64_encode p) + 64 <= Backtrack.default_fuel)%nat -> neutral Regexes.RE_base64_FROMB64STRING_RE pre = true -> neutral Regexes.RE_xor_helper_XOR_RE pre = true -> neutral Regexes.RE_xor_helper_XOR_RE suf = true -> let form := nm ++ [q] ++ b64_encode p ++ [q'] ++ s2b ")" in let data := pre ++ form ++ suf in find_FromBase64String data = Hang \/ (exists rest : list node, find_FromBase64String data = Ok (Node (s2b "powershell.bytes") p ENC_B64 (blen pre) (blen pre + blen form) [] :: rest) /\ Forall (fun nd : node => blen pre + blen form <= n_st nd) rest).
Proof. exact find_FromBase64String_roundtrip. Qed.
Print Assumptions C02_layer_FromBase64String_found.

Theorem C02_layer_FromHexString_found : forall (nm : bytes) (pre : list N) (p : bytes) (suf : list N), lower nm = s2b "fromhexstring(" -> wf_bytes p -> (10 <= Datatypes.length p)%nat -> (Datatypes.length (hexlify p) + 64 <= Backtrack.default_fuel)%nat -> neutral Regexes.RE_hex_FROMHEXSTRING_RE pre = true -> neutral Regexes.RE_xor_helper_XOR_RE pre = true -> neutral Regexes.RE_xor_helper_XOR_RE suf = true -> let form := nm ++ s2b "'" ++ hexlify p ++ s2b "')" in let data := pre ++ form ++ suf in find_FromHexString data = Hang \/ (exists rest : list node, find_FromHexString data = Ok (Node (s2b "powershell.bytes") p ENC_HEX (blen pre) (blen pre + blen form) [] :: rest) /\ Forall (fun nd : node => blen pre + blen form <= n_st nd) rest).
Proof. exact find_FromHexString_roundtrip. Qed.
Print Assumptions C02_layer_FromHexString_found.

Theorem C02_layer_unescape_found : forall (pre : list N) (p : bytes) (suf : list N), wf_bytes p -> (Datatypes.length (quote_all p) + 64 <= Backtrack.default_fuel)%nat -> neutral Regexes.RE_javascript_UNESCAPE_RE pre = true -> let form := s2b "unescape('" ++ quote_all p ++ s2b "')" in let data := pre ++ form ++ suf in EscDec.find_unescape data = Hang \/ (exists rest : list node, EscDec.find_unescape data = Ok (Node (s2b "string") p (s2b "function.unescape") (blen pre) (blen pre + blen form) [] :: rest) /\ Forall (fun nd : node => blen pre + blen form <= n_st nd) rest).
Proof. exact find_unescape_roundtrip. Qed.
Print Assumptions C02_layer_unescape_found.

Theorem C02_layer_utf16_found : forall (pre units : list N) (suf : bytes), forallb utf16_unit units = true -> (7 <= Datatypes.length units)%nat -> utf16_stop suf = true -> (Datatypes.length (interleave0 units) + 64 <= Backtrack.default_fuel)%nat -> neutral Regexes.RE_codec_UTF16_RE pre = true -> let form := interleave0 units in let data := pre ++ form ++ suf in EscDec.find_utf16 data = Hang \/ (exists rest : list node, EscDec.find_utf16 data = Ok (Node [] (flat_map utf8_latin1 units) (s2b "codec.uft-16") (blen pre) (blen pre + blen form) [] :: rest) /\ Forall (fun nd : node => blen pre + blen form <= n_st nd) rest).
Proof. exact find_utf16_roundtrip. Qed.
Print Assumptions C02_layer_utf16_found.

Theorem C02_layer_xml_found : forall (pre : list N) (p suf : bytes), wf_bytes p -> (5 <= Datatypes.length p)%nat -> xml_stop suf = true -> (Datatypes.length (xml_form p) + 64 <= Backtrack.default_fuel)%nat -> neutral Regexes.RE_xml_XML_ESCAPE_RE pre = true -> let form := xml_form p in let data := pre ++ form ++ suf in EscDec.find_xml_hex data = Hang \/ (exists rest : list node, EscDec.find_xml_hex data = Ok (Node [] p (s2b "unescape.xml") (blen pre) (blen pre + blen form) [] :: rest) /\ Forall (fun nd : node => blen pre + blen form <= n_st nd) rest).
Proof. exact find_xml_hex_roundtrip. Qed.
Print Assumptions C02_layer_xml_found.

Theorem C02_layer_reverse_found : forall (nm : bytes) (pre : list N) (ws1 : bytes) (q : N) (p ws2 : bytes) (suf : list N), lower nm = s2b "reverse(" \/ lower nm = s2b "reversed(" -> ws_ok ws1 = true -> ws_ok ws2 = true -> is_quote q -> lit_ok q p = true -> (Datatypes.length p + Datatypes.length ws1 + Datatypes.length ws2 + 100 <= Backtrack.default_fuel)%nat -> neutral Regexes.RE_reverse_REVERSE_RE pre = true -> let form := nm ++ ws1 ++ RoundTrip2.quoted q (rev p) ++ ws2 ++ s2b ")" in let data := pre ++ form ++ suf in find_reverse data = Hang \/ (exists rest : list node, find_reverse data = Ok (Node (s2b "string") p (s2b "reverse") (blen pre) (blen pre + blen form) [] :: rest) /\ Forall (fun nd : node => blen pre + blen form <= n_st nd) rest).
Proof. exact find_reverse_roundtrip. Qed.
Print Assumptions C02_layer_reverse_found.

Theorem C02_layer_strreverse_found : forall (nm : bytes) (pre : list N) (ws1 : bytes) (q : N) (p ws2 : bytes) (suf : list N), lower nm = s2b "strreverse(" -> ws_ok ws1 = true -> ws_ok ws2 = true -> is_quote q -> lit_ok q p = true -> (Datatypes.length p + Datatypes.length ws1 + Datatypes.length ws2 + 100 <= Backtrack.default_fuel)%nat -> neutral Regexes.RE_vba_STRREVERSE_RE pre = true -> let form := nm ++ ws1 ++ RoundTrip2.quoted q (rev p) ++ ws2 ++ s2b ")" in let data := pre ++ form ++ suf in find_strreverse data = Hang \/ (exists rest : list node, find_strreverse data = Ok (Node (s2b "vba.string") p (s2b "vba.reverse") (blen pre) (blen pre + blen form) [] :: rest) /\ Forall (fun nd : node => blen pre + blen form <= n_st nd) rest).
Proof. exact find_strreverse_roundtrip. Qed.
Print Assumptions C02_layer_strreverse_found.

Theorem C02_layer_replace_found : forall (pre : list N) (q : N) (p c : bytes) (t : N) (tok' suf : list N), let tok := t :: tok' in let x := py_replace p c tok in is_quote q -> lit_ok q p = true -> lit_ok q c = true -> lit_ok q tok = true -> c <> [] -> ~ In t p -> (Datatypes.length x + Datatypes.length tok + Datatypes.length c + 201 <= Backtrack.default_fuel)%nat -> neutral Regexes.RE_replace_REPLACE_RE pre = true -> let form := RoundTrip2.quoted q x ++ s2b ".replace(" ++ RoundTrip2.quoted q tok ++ s2b ", " ++ RoundTrip2.quoted q c ++ s2b ")" in let data := pre ++ form ++ suf in find_replace data = Hang \/ (exists rest : list node, find_replace data = Ok (Node (s2b "string") p (s2b "replace") (blen pre) (blen pre + blen form) [] :: rest) /\ Forall (fun nd : node => blen pre + blen form <= n_st nd) rest).
Proof. exact find_replace_decodes. Qed.
Print Assumptions C02_layer_replace_found.

Theorem C02_layer_vba_replace_found : forall (pre : list N) (q : N) (p c : bytes) (t : N) (tok' suf : list N), let tok := t :: tok' in let x := py_replace p c tok in is_quote q -> lit_ok q p = true -> lit_ok q c = true -> lit_ok q tok = true -> c <> [] -> ~ In t p -> (Datatypes.length x + Datatypes.length tok + Datatypes.length c + 202 <= Backtrack.default_fuel)%nat -> neutral Regexes.RE_replace_VBA_REPLACE_RE pre = true -> let form := s2b "Replace(" ++ RoundTrip2.quoted q x ++ s2b ", " ++ RoundTrip2.quoted q tok ++ s2b ", " ++ RoundTrip2.quoted q c ++ s2b ")" in let data := pre ++ form ++ suf in find_vba_replace data = Hang \/ (exists rest : list node, find_vba_replace data = Ok (Node (s2b "vba.string") p (s2b "vba.replace") (blen pre) (blen pre + blen form) [] :: rest) /\ Forall (fun nd : node => blen pre + blen form <= n_st nd) rest).
Proof. exact find_vba_replace_decodes. Qed.
Print Assumptions C02_layer_vba_replace_found.

Theorem C02_layer_ps_replace_found : forall (pre : list N) (q : N) (p c : bytes) (t : N) (tok' : list N) (suf : bytes), let tok := t :: tok' in let x := py_replace p c tok in is_quote q -> lit_ok q p = true -> lit_ok q c = true -> lit_ok q tok = true -> c <> [] -> ~ In t p -> stop_q q suf = true -> (Datatypes.length x + Datatypes.length tok + Datatypes.length c + 202 <= Backtrack.default_fuel)%nat -> neutral Regexes.RE_replace_POWERSHELL_REPLACE_RE pre = true -> let form := RoundTrip2.quoted q x ++ s2b " -replace " ++ RoundTrip2.quoted q tok ++ s2b "," ++ RoundTrip2.quoted q c in let data := pre ++ form ++ suf in find_powershell_replace data = Hang \/ (exists rest : list node, find_powershell_replace data = Ok (Node (s2b "powershell.string") p (s2b "replace") (blen pre) (blen pre + blen form) [] :: rest) /\ Forall (fun nd : node => blen pre + blen form <= n_st nd) rest).
Proof. exact find_powershell_replace_decodes. Qed.
Print Assumptions C02_layer_ps_replace_found.

Theorem C02_layer_concat_found : forall (pre : list N) (q : N) (p : bytes) (js : list cpart) (suf : bytes), is_quote q -> part_ok p = true -> Forall cpart_ok js -> js <> [] -> concat_stop (last_q q js) suf = true -> (Datatypes.length (concat_form q p js) + Datatypes.length (take_wsu suf) + 150 <= Backtrack.default_fuel)%nat -> neutral Regexes.RE_concat_CONCAT_RE pre = true -> let form := concat_form q p js in let data := pre ++ form ++ suf in find_concat data = Hang \/ (exists rest : list node, find_concat data = Ok (Node (s2b "string") (concat_payload p js) (s2b "concatenation") (blen pre) (blen pre + blen form) [] :: rest) /\ Forall (fun nd : node => blen pre + blen form <= n_st nd) rest).
Proof. exact find_concat_roundtrip. Qed.
Print Assumptions C02_layer_concat_found.

Theorem C02_layer_carets_found : forall (pre : list N) (e p suf : bytes), cmd_unescape e = p -> forallb nn_byte e = true -> par_ok e 0 = true -> cmd_end_ok e suf = true -> neutral Regexes.RE_shell_CMD_RE pre = true -> Backtrack.word_at (rev pre) = false -> (Datatypes.length e + Datatypes.length suf + 90 <= Backtrack.default_fuel)%nat -> let form := s2b "cmd /c " ++ e in let data := pre ++ form ++ suf in Shell.find_cmd_strings data = Hang \/ (exists rest : list node, Shell.find_cmd_strings data = Ok (Node (s2b "shell.cmd") (s2b "cmd /c " ++ p) (if beqb p e then [] else carets_label) (blen pre) (blen pre + blen form) [] :: rest) /\ Forall (fun nd : node => blen pre + blen form <= n_st nd) rest).
Proof. exact find_cmd_strings_caret_layer. Qed.
Print Assumptions C02_layer_carets_found.

Theorem C02_layer_hex_found : forall (pre : list N) (p suf : bytes), wf_bytes p -> (10 <= Datatypes.length p)%nat -> hex_stop_lower suf = true -> (Datatypes.length (hexlify p) + 64 <= Backtrack.default_fuel)%nat -> neutral Regexes.RE_hex_HEX_RE pre = true -> let form := hexlify p in let data := pre ++ form ++ suf in find_hex data = Hang \/ (exists rest : list node, find_hex data = Ok (Node [] p DEC_HEX (blen pre) (blen pre + blen form) [] :: rest) /\ Forall (fun nd : node => blen pre + blen form <= n_st nd) rest).
Proof. exact find_hex_roundtrip_lower. Qed.
Print Assumptions C02_layer_hex_found.

Theorem C02_layer_HEX_found : forall (pre : list N) (p suf : bytes), wf_bytes p -> (10 <= Datatypes.length p)%nat -> hex_stop_upper suf = true -> upper_has_letter (upper (hexlify p)) = true -> (Datatypes.length (hexlify p) + 64 <= Backtrack.default_fuel)%nat -> neutral Regexes.RE_hex_HEX_RE pre = true -> let form := upper (hexlify p) in let data := pre ++ form ++ suf in find_hex data = Hang \/ (exists rest : list node, find_hex data = Ok (Node [] p DEC_HEX (blen pre) (blen pre + blen form) [] :: rest) /\ Forall (fun nd : node => blen pre + blen form <= n_st nd) rest).
Proof. exact find_hex_roundtrip_upper. Qed.
Print Assumptions C02_layer_HEX_found.

Theorem C02_layer_base64_found : forall (pre : list N) (p suf : bytes), wf_bytes p -> (16 <= Datatypes.length p)%nat -> b64_acceptable (b64_encode p) = true -> b64_stop suf = true -> (Datatypes.length (b64_encode p) + 64 <= Backtrack.default_fuel)%nat -> neutral Regexes.RE_base64_BASE64_RE pre = true -> let form := b64_encode p in let data := pre ++ form ++ suf in find_base64 data = Hang \/ (exists rest : list node, find_base64 data = Ok (Node [] p ENC_B64 (blen pre) (blen pre + blen form) [] :: rest) /\ Forall (fun nd : node => blen pre + blen form <= n_st nd) rest).
Proof. exact find_base64_roundtrip. Qed.
Print Assumptions C02_layer_base64_found.

Theorem C02_layer_xmlhex_found : forall (pre : list N) (l : list (xml_sp * N)) (suf : bytes), wf_bytes (map snd l) -> (5 <= Datatypes.length l)%nat -> xml_stop suf = true -> (Datatypes.length (xml_form_sp l) + 64 <= Backtrack.default_fuel)%nat -> neutral Regexes.RE_xml_XML_ESCAPE_RE pre = true -> let form := xml_form_sp l in let data := pre ++ form ++ suf in EscDec.find_xml_hex data = Hang \/ (exists rest : list node, EscDec.find_xml_hex data = Ok (Node [] (map snd l) (s2b "unescape.xml") (blen pre) (blen pre + blen form) [] :: rest) /\ Forall (fun nd : node => blen pre + blen form <= n_st nd) rest).
Proof. exact find_xml_hex_roundtrip_hexrefs. Qed.
Print Assumptions C02_layer_xmlhex_found.

Theorem C02_layer_ps_bytes_found : forall (xortool : bytes -> list bytes) (pre : list N) (els : list (ps_el * bytes)) (last : ps_el) (suf : bytes), ps_els_ok els -> el_ok last = true -> (500 <= Datatypes.length els)%nat -> ps_stop suf = true -> (2 * Datatypes.length (psb_text els last) + 100 <= Backtrack.default_fuel)%nat -> neutral Regexes.RE_powershell_POWERSHELL_BYTES_RE pre = true -> neutral Regexes.RE_xor_helper_XOR_RE pre = true -> neutral Regexes.RE_xor_helper_XOR_RE suf = true -> let form := psb_text els last in let data := pre ++ form ++ suf in find_powershell_bytes xortool data = Hang \/ (exists rest : list node, find_powershell_bytes xortool data = Ok (Node (s2b "powershell.bytes") (ps_values els last) [] (blen pre) (blen pre + blen form) [] :: rest) /\ Forall (fun nd : node => blen pre + blen form <= n_st nd) rest).
Proof. exact find_powershell_bytes_roundtrip. Qed.
Print Assumptions C02_layer_ps_bytes_found.

(* FULLY END TO END at the shipped scanner (Proofs/Dominance.v), for EVERY payload: the scan of unescape('<percent-encoded p>') with all 30 decoders and the shipped keyword lists is (matcher fuel aside) a root with EXACTLY ONE child, the function.unescape node over the whole text with value p - dominance over every other decoder and every keyword searcher is proved, not assumed *)
Theorem C02_unescape_whole_scan : forall (pe_size : bytes -> Z) (xortool : bytes -> list bytes) (extra : label -> option (bytes -> res (list node))) (p : bytes) (depth : Z), wf_bytes p -> p <> [] -> (Datatypes.length (quote_all p) + 64 <= Backtrack.default_fuel)%nat -> 0 < depth -> scan_default pe_size xortool extra RegistryTable.decoder_modules Keywords.shipped_keywords depth (form p) = Hang \/ (exists t c : node, scan_default pe_size xortool extra RegistryTable.decoder_modules Keywords.shipped_keywords depth (form p) = Ok t /\ n_val t = form p /\ n_kids t = [c] /\ n_ty c = s2b "string" /\ n_val c = p /\ n_obf c = s2b "function.unescape" /\ n_st c = 0 /\ n_en c = blen (form p)).
Proof. exact unescape_scan_tree_shipped. Qed.
Print Assumptions C02_unescape_whole_scan.

Theorem C02_unescape_dominant : forall (pe_size : bytes -> Z) (xortool : bytes -> list bytes) (extra : label -> option (bytes -> res (list node))) (kwdir : Registry.dtree), kw_clear kwdir = true -> forall p : bytes, wf_bytes p -> p <> [] -> (Datatypes.length (quote_all p) + 64 <= Backtrack.default_fuel)%nat -> forall (ty : label) (hs : list node), search_default pe_size xortool extra RegistryTable.decoder_modules kwdir (form p) = Ok hs -> dominant (search_of (search_default pe_size xortool extra RegistryTable.decoder_modules kwdir)) ty (form p) (hit p).
Proof. exact unescape_dominant. Qed.
Print Assumptions C02_unescape_dominant.

(* ... and the depth-1 tree flattens to the re-quoted payload *)
Theorem C02_unescape_flatten : forall (pe_size : bytes -> Z) (xortool : bytes -> list bytes) (extra : label -> option (bytes -> res (list node))) (kwdir : Registry.dtree), kw_clear kwdir = true -> forall p : bytes, wf_bytes p -> p <> [] -> (Datatypes.length (quote_all p) + 64 <= Backtrack.default_fuel)%nat -> forall t : node, scan_default pe_size xortool extra RegistryTable.decoder_modules kwdir 1 (form p) = Ok t -> flatten t = quoted p.
Proof. exact unescape_scan_flatten_1. Qed.
Print Assumptions C02_unescape_flatten.

(* a two-layer stack unescape(atob(base64 q)): the nested chain of exactly these two nodes, for every payload q *)
Theorem C02_two_layer_whole_scan : forall (pe_size : bytes -> Z) (xortool : bytes -> list bytes) (extra : label -> option (bytes -> res (list node))) (q : bytes) (depth : Z), wf_bytes q -> q <> [] -> (Datatypes.length (b64_encode q) + 64 <= Backtrack.default_fuel)%nat -> (Datatypes.length (quote_all (atob_form q)) + 64 <= Backtrack.default_fuel)%nat -> 1 < depth -> scan_default pe_size xortool extra RegistryTable.decoder_modules Keywords.shipped_keywords depth (form (atob_form q)) = Hang \/ (exists t c1 c2 : node, scan_default pe_size xortool extra RegistryTable.decoder_modules Keywords.shipped_keywords depth (form (atob_form q)) = Ok t /\ n_val t = form (atob_form q) /\ n_kids t = [c1] /\ hdr_eq c1 (hit (atob_form q)) /\ n_kids c1 = [c2] /\ hdr_eq c2 (atob_hit q)).
Proof. exact stack2_scan_tree_shipped. Qed.
Print Assumptions C02_two_layer_whole_scan.

Theorem C02_two_layer_flatten : forall (pe_size : bytes -> Z) (xortool : bytes -> list bytes) (extra : label -> option (bytes -> res (list node))) (kwdir : Registry.dtree), kw_clear kwdir = true -> kw_clear_of (s2b "atob(") kwdir = true -> forall q : bytes, wf_bytes q -> q <> [] -> (Datatypes.length (b64_encode q) + 64 <= Backtrack.default_fuel)%nat -> (Datatypes.length (quote_all (atob_form q)) + 64 <= Backtrack.default_fuel)%nat -> forall t : node, scan_default pe_size xortool extra RegistryTable.decoder_modules kwdir 2 (form (atob_form q)) = Ok t -> flatten t = quoted (quoted q).
Proof. exact stack2_scan_flatten. Qed.
Print Assumptions C02_two_layer_flatten.

(* generic tool: a pattern whose every word contains a byte outside an alphabet (decided by the verified product exploration) finds nothing in texts over that alphabet *)
Theorem C02_decoders_silent_on_alphabet : forall (r : Syntax.re) (ng : nat) (data : bytes), leaves_sigma r = true -> in_sigma data -> fi r ng data = Hang \/ fi r ng data = Ok [].
Proof. exact fi_in_sigma. Qed.
Print Assumptions C02_decoders_silent_on_alphabet.

Example C02_example :
  a2b_base64 (b64_encode (L"GET http://evil.example.com/payload.exe now")) = Ok (L"GET http://evil.example.com/payload.exe now")
  /\ unhexlify (hexlify (L"payload")) = Ok (L"payload").
Proof. vm_compute. split; reflexivity. Qed.
Print Assumptions C02_example.
