(* C04 - Context preservation: nesting never changes which bytes a result denotes.
   For EVERY registry with non-empty in-bounds hits (no assumption on the shipped decoders). *)
From MD Require Import Lib.Base Model.Node Model.Engine Model.Reference.
From MD Require Import Proofs.EngineRefine Proofs.EngineInv.

(* one search pass: every attached node x, reported at [a,b) = [a_lo x, a_hi x) of the searched text, placed
   under a frame that stands for text[lo..] with value pval, satisfies placed_ok:
     start = a - lo (so start + the starts of the enclosing contexts = a), end - start = b - a,
     lower (pval[start:end]) = lower (text[a:b])
   - recursively through undecoded contexts (pass_ok), for every depth of nesting *)
Theorem C04_pass : forall search, wf_search search -> forall d k a b n t,
  k <> KCtx -> n_kids n = [] ->
  ref_scan_node search (S d) k a b n = Ok t ->
  pass_ok (fun y => ref_scan_node search d KDec (a_lo y) (a_hi y) (a_node y) = Ok y /\ deep_ok search d y)
          (n_val n) 0 (n_val n) (a_kids t).
Proof. exact ref_pass_ok. Qed.
Print Assumptions C04_pass.

(* all passes of the whole tree *)
Theorem C04_all_levels : forall search, wf_search search -> forall d k a b n t,
  k <> KCtx -> ref_scan_node search d k a b n = Ok t -> deep_ok search d t.
Proof. exact ref_deep_ok. Qed.
Print Assumptions C04_all_levels.

(* the annotation [a,b) is genuinely the interval a decoder reported, with the same type and value *)
Theorem C04_annotation_is_reported_hit : forall search d k a b n t,
  n_kids n = [] -> ref_scan_node search (S d) k a b n = Ok t ->
  forall x, In x (pass_nodes (a_kids t)) ->
  exists h, In h (search (n_val n)) /\ nonempty_val h = true /\
            n_st h = a_lo x /\ n_en h = a_hi x /\
            n_ty h = n_ty (a_node x) /\ n_val h = n_val (a_node x) /\ n_obf h = n_obf (a_node x).
Proof. exact attached_from_hit. Qed.
Print Assumptions C04_annotation_is_reported_hit.

(* and the engine's tree is the erasure of that annotated tree *)
Theorem C04_engine_is_erasure : forall search, wf_search search -> forall d k a b n, k <> KCtx ->
  scan_node search d n = map_res erase (ref_scan_node search d k a b n).
Proof. exact engine_refines_reference. Qed.
Print Assumptions C04_engine_is_erasure.

(* placed_ok unfolds to the three clauses of the property *)
Theorem C04_placed_meaning : forall text lo pval x, placed_ok text lo pval x ->
  n_st (a_node x) + lo = a_lo x /\
  n_en (a_node x) - n_st (a_node x) = a_hi x - a_lo x /\
  lower (original pval (a_node x)) = lower (slice text (a_lo x) (a_hi x)).
Proof.
  intros text lo pval x (H1 & H2 & H3 & H4 & H5 & H6 & H7 & H8). unfold original. repeat split; try lia. exact H8.
Qed.
Print Assumptions C04_placed_meaning.

(* non-vacuity: a hit nested two contexts deep keeps denoting its bytes *)
Example C04_example :
  let search := fun v => if beqb v (L"abcdefgh")
                         then [Node (L"o") (L"bcdefg") [] 1 7 []; Node (L"i") (L"CDE") [] 2 5 []; Node (L"x") (L"d") [] 3 4 []]
                         else [] in
  scan search 3 (L"abcdefgh")
  = Ok (Node [] (L"abcdefgh") [] 0 8
          [Node (L"o") (L"bcdefg") [] 1 7 [Node (L"i") (L"CDE") [] 1 4 [Node (L"x") (L"d") [] 1 2 []]]]).
Proof. vm_compute. reflexivity. Qed.
Print Assumptions C04_example.

(* BEGIN shipped-registry instances *)
(* THE SHIPPED SCANNER (Proofs/DefaultEngine.v): the theorems above hold for any registry with in-bounds hits; these are the same statements about the model of Multidecoder().scan itself - the regenerated registry of all 30 decoders and the keyword searchers (scan_default), the registry with find_powershell_strings replaced by any conforming decoder ps (scan_default_with ... ps; F6 is the reason it does not conform itself), and the registry with the shell module excluded (scan_noshell) - for every input, depth limit, keyword directory and tool oracle (pe_size non-negative). *)
From MD Require Import Model.EngineR Model.Default Model.Flatten Proofs.DefaultWf Proofs.DefaultEngine Proofs.ChainProofs.

(* whole scan: every attached node sits where a decoder reported it, offsets of the enclosing contexts added up *)
Theorem C04_shipped_placed : forall pe_size : Base.bytes -> BinNums.Z, (forall b : Base.bytes, BinInt.Z.le BinNums.Z0 (pe_size b)) -> forall (xortool : Base.bytes -> list Base.bytes) (extra : Base.label -> option (Base.bytes -> Base.res (list Node.node))) (ps : Base.bytes -> Base.res (list Node.node)) (kwdir : Registry.dtree) (depth : BinNums.Z) (data : Base.bytes) (t : Node.node), strong_ok ps -> scan_default_with pe_size xortool extra ps kwdir depth data = Base.Ok t -> exists a : Reference.anode, Reference.ref_scan (search_of (search_default_with pe_size xortool extra ps kwdir)) depth data = Base.Ok a /\ Reference.erase a = t /\ EngineInv.deep_ok (search_of (search_default_with pe_size xortool extra ps kwdir)) (BinInt.Z.to_nat depth) a /\ (BinInt.Z.lt BinNums.Z0 depth -> Reference.a_kind a = Reference.KRoot /\ Reference.a_lo a = BinNums.Z0 /\ Reference.a_hi a = Base.blen data /\ Reference.a_node a = Engine.root_node data /\ EngineInv.pass_ok (fun y : Reference.anode => Reference.ref_scan_node (search_of (search_default_with pe_size xortool extra ps kwdir)) (PeanoNat.Nat.pred (BinInt.Z.to_nat depth)) Reference.KDec (Reference.a_lo y) (Reference.a_hi y) (Reference.a_node y) = Base.Ok y /\ EngineInv.deep_ok (search_of (search_default_with pe_size xortool extra ps kwdir)) (PeanoNat.Nat.pred (BinInt.Z.to_nat depth)) y) data BinNums.Z0 data (Reference.a_kids a) /\ List.Forall (EngineInv.placed_ok data BinNums.Z0 data) (Reference.a_kids a)).
Proof. exact default_scan_placed_ok. Qed.
Print Assumptions C04_shipped_placed.

Theorem C04_shipped_pass : forall pe_size : Base.bytes -> BinNums.Z, (forall b : Base.bytes, BinInt.Z.le BinNums.Z0 (pe_size b)) -> forall (xortool : Base.bytes -> list Base.bytes) (extra : Base.label -> option (Base.bytes -> Base.res (list Node.node))) (ps : Base.bytes -> Base.res (list Node.node)) (kwdir : Registry.dtree) (d : nat) (n t : Node.node), strong_ok ps -> Node.n_kids n = nil -> scan_node_r (search_default_with pe_size xortool extra ps kwdir) (S d) n = Base.Ok t -> forall (k : Reference.kind) (a b : BinNums.Z), k <> Reference.KCtx -> exists x : Reference.anode, Reference.ref_scan_node (search_of (search_default_with pe_size xortool extra ps kwdir)) (S d) k a b n = Base.Ok x /\ Reference.erase x = t /\ EngineInv.pass_ok (fun y : Reference.anode => Reference.ref_scan_node (search_of (search_default_with pe_size xortool extra ps kwdir)) d Reference.KDec (Reference.a_lo y) (Reference.a_hi y) (Reference.a_node y) = Base.Ok y /\ EngineInv.deep_ok (search_of (search_default_with pe_size xortool extra ps kwdir)) d y) (Node.n_val n) BinNums.Z0 (Node.n_val n) (Reference.a_kids x).
Proof. exact default_scan_node_pass_ok. Qed.
Print Assumptions C04_shipped_pass.

Theorem C04_shipped_all_levels : forall pe_size : Base.bytes -> BinNums.Z, (forall b : Base.bytes, BinInt.Z.le BinNums.Z0 (pe_size b)) -> forall (xortool : Base.bytes -> list Base.bytes) (extra : Base.label -> option (Base.bytes -> Base.res (list Node.node))) (ps : Base.bytes -> Base.res (list Node.node)) (kwdir : Registry.dtree) (d : nat) (n t : Node.node), strong_ok ps -> scan_node_r (search_default_with pe_size xortool extra ps kwdir) d n = Base.Ok t -> forall (k : Reference.kind) (a b : BinNums.Z), k <> Reference.KCtx -> exists x : Reference.anode, Reference.ref_scan_node (search_of (search_default_with pe_size xortool extra ps kwdir)) d k a b n = Base.Ok x /\ Reference.erase x = t /\ EngineInv.deep_ok (search_of (search_default_with pe_size xortool extra ps kwdir)) d x.
Proof. exact default_scan_node_deep_ok. Qed.
Print Assumptions C04_shipped_all_levels.

Theorem C04_shipped_is_reported_hit : forall pe_size : Base.bytes -> BinNums.Z, (forall b : Base.bytes, BinInt.Z.le BinNums.Z0 (pe_size b)) -> forall (xortool : Base.bytes -> list Base.bytes) (extra : Base.label -> option (Base.bytes -> Base.res (list Node.node))) (ps : Base.bytes -> Base.res (list Node.node)) (kwdir : Registry.dtree) (d : nat) (n t : Node.node), strong_ok ps -> Node.n_kids n = nil -> scan_node_r (search_default_with pe_size xortool extra ps kwdir) (S d) n = Base.Ok t -> forall (k : Reference.kind) (a b : BinNums.Z), k <> Reference.KCtx -> exists (x : Reference.anode) (hits : list Node.node), Reference.ref_scan_node (search_of (search_default_with pe_size xortool extra ps kwdir)) (S d) k a b n = Base.Ok x /\ Reference.erase x = t /\ search_default_with pe_size xortool extra ps kwdir (Node.n_val n) = Base.Ok hits /\ (forall y : Reference.anode, List.In y (EngineInv.pass_nodes (Reference.a_kids x)) -> exists h : Node.node, List.In h hits /\ Engine.nonempty_val h = true /\ Node.n_st h = Reference.a_lo y /\ Node.n_en h = Reference.a_hi y /\ Node.n_ty h = Node.n_ty (Reference.a_node y) /\ Node.n_val h = Node.n_val (Reference.a_node y) /\ Node.n_obf h = Node.n_obf (Reference.a_node y)).
Proof. exact default_scan_attached_from_hit. Qed.
Print Assumptions C04_shipped_is_reported_hit.

(* shell module excluded: no hypothesis on any decoder *)
Theorem C04_noshell_placed : forall pe_size : Base.bytes -> BinNums.Z, (forall b : Base.bytes, BinInt.Z.le BinNums.Z0 (pe_size b)) -> forall (xortool : Base.bytes -> list Base.bytes) (extra : Base.label -> option (Base.bytes -> Base.res (list Node.node))) (kwdir : Registry.dtree) (depth : BinNums.Z) (data : Base.bytes) (t : Node.node), scan_noshell pe_size xortool extra kwdir depth data = Base.Ok t -> exists a : Reference.anode, Reference.ref_scan (search_of (search_noshell pe_size xortool extra kwdir)) depth data = Base.Ok a /\ Reference.erase a = t /\ EngineInv.deep_ok (search_of (search_noshell pe_size xortool extra kwdir)) (BinInt.Z.to_nat depth) a /\ (BinInt.Z.lt BinNums.Z0 depth -> Reference.a_kind a = Reference.KRoot /\ Reference.a_lo a = BinNums.Z0 /\ Reference.a_hi a = Base.blen data /\ Reference.a_node a = Engine.root_node data /\ EngineInv.pass_ok (fun y : Reference.anode => Reference.ref_scan_node (search_of (search_noshell pe_size xortool extra kwdir)) (PeanoNat.Nat.pred (BinInt.Z.to_nat depth)) Reference.KDec (Reference.a_lo y) (Reference.a_hi y) (Reference.a_node y) = Base.Ok y /\ EngineInv.deep_ok (search_of (search_noshell pe_size xortool extra kwdir)) (PeanoNat.Nat.pred (BinInt.Z.to_nat depth)) y) data BinNums.Z0 data (Reference.a_kids a) /\ List.Forall (EngineInv.placed_ok data BinNums.Z0 data) (Reference.a_kids a)).
Proof. exact noshell_scan_placed_ok. Qed.
Print Assumptions C04_noshell_placed.

(* END shipped-registry instances *)
