(* C04 - Context preservation: nesting never changes which bytes a result denotes.
   For EVERY registry with non-empty in-bounds hits (no assumption on the shipped decoders). *)
From MD Require Import Lib.Base Model.Node Model.Engine Model.Reference.
From MD Require Import Proofs.EngineRefine Proofs.EngineInv.

(* one search pass: every attached node x, reported at [a,b) = [a_lo x, a_hi x) of the searched text, placed
   under a frame that stands for text[lo..] with value pval, satisfies placed_ok:
     start = a - lo (so start + the starts of the enclosing contexts = a), end - start = b - a,
     lower (pval[start:end]) = lower (text[a:b])
   - recursively through undecoded contexts (pass_ok), for every depth of nesting *)
Theorem C04_pass : forall search, wf_search search -> forall d k a b n t,
  k <> KCtx -> n_kids n = [] ->
  ref_scan_node search (S d) k a b n = Ok t ->
  pass_ok (fun y => ref_scan_node search d KDec (a_lo y) (a_hi y) (a_node y) = Ok y /\ deep_ok search d y)
          (n_val n) 0 (n_val n) (a_kids t).
Proof. exact ref_pass_ok. Qed.
Print Assumptions C04_pass.

(* all passes of the whole tree *)
Theorem C04_all_levels : forall search, wf_search search -> forall d k a b n t,
  k <> KCtx -> ref_scan_node search d k a b n = Ok t -> deep_ok search d t.
Proof. exact ref_deep_ok. Qed.
Print Assumptions C04_all_levels.

(* the annotation [a,b) is genuinely the interval a decoder reported, with the same type and value *)
Theorem C04_annotation_is_reported_hit : forall search d k a b n t,
  n_kids n = [] -> ref_scan_node search (S d) k a b n = Ok t ->
  forall x, In x (pass_nodes (a_kids t)) ->
  exists h, In h (search (n_val n)) /\ nonempty_val h = true /\
            n_st h = a_lo x /\ n_en h = a_hi x /\
            n_ty h = n_ty (a_node x) /\ n_val h = n_val (a_node x) /\ n_obf h = n_obf (a_node x).
Proof. exact attached_from_hit. Qed.
Print Assumptions C04_annotation_is_reported_hit.

(* and the engine's tree is the erasure of that annotated tree *)
Theorem C04_engine_is_erasure : forall search, wf_search search -> forall d k a b n, k <> KCtx ->
  scan_node search d n = map_res erase (ref_scan_node search d k a b n).
Proof. exact engine_refines_reference. Qed.
Print Assumptions C04_engine_is_erasure.

(* placed_ok unfolds to the three clauses of the property *)
Theorem C04_placed_meaning : forall text lo pval x, placed_ok text lo pval x ->
  n_st (a_node x) + lo = a_lo x /\
  n_en (a_node x) - n_st (a_node x) = a_hi x - a_lo x /\
  lower (original pval (a_node x)) = lower (slice text (a_lo x) (a_hi x)).
Proof.
  intros text lo pval x (H1 & H2 & H3 & H4 & H5 & H6 & H7 & H8). unfold original. repeat split; try lia. exact H8.
Qed.
Print Assumptions C04_placed_meaning.

(* non-vacuity: a hit nested two contexts deep keeps denoting its bytes *)
Example C04_example :
  let search := fun v => if beqb v (L"abcdefgh")
                         then [Node (L"o") (L"bcdefg") [] 1 7 []; Node (L"i") (L"CDE") [] 2 5 []; Node (L"x") (L"d") [] 3 4 []]
                         else [] in
  scan search 3 (L"abcdefgh")
  = Ok (Node [] (L"abcdefgh") [] 0 8
          [Node (L"o") (L"bcdefg") [] 1 7 [Node (L"i") (L"CDE") [] 1 4 [Node (L"x") (L"d") [] 1 2 []]]]).
Proof. vm_compute. reflexivity. Qed.
Print Assumptions C04_example.
