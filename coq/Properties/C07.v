(* C07 - The depth limit bounds recursion and only ever truncates the tree.  For ANY registry. *)
From MD Require Import Lib.Base Model.Node Model.Engine.
From MD Require Import Proofs.EngineRefine Proofs.EngineDepth.

Theorem C07_nonpositive : forall search depth data, depth <= 0 -> scan search depth data = Ok (root_node data).
Proof. exact scan_nonpositive. Qed.
Print Assumptions C07_nonpositive.

(* the tree for k is the tree for k+1 truncated: identical headers, every child list an order-preserving sub-list *)
Theorem C07_monotone : forall search k data t t',
  scan search k data = Ok t -> scan search (k + 1) data = Ok t' -> tree_le t t'.
Proof. exact scan_mono. Qed.
Print Assumptions C07_monotone.

Theorem C07_monotone_node : forall search d d' n t t', (d <= d')%nat ->
  scan_node search d n = Ok t -> scan_node search d' n = Ok t' -> tree_le t t'.
Proof. exact scan_node_mono_le. Qed.
Print Assumptions C07_monotone_node.

(* a shallower scan cannot fail where a deeper one succeeds *)
Theorem C07_ok_down : forall search k data t', scan search (k + 1) data = Ok t' -> exists t, scan search k data = Ok t.
Proof. exact scan_ok_down. Qed.
Print Assumptions C07_ok_down.

(* the decoders are applied only with 1 <= remaining depth <= k: the logging twin of the engine records every
   search; it computes the same tree, and every logged call respects the bound *)
Theorem C07_log_erase : forall search d n, map_res fst (scan_node_log search d n) = scan_node search d n.
Proof. exact scan_node_log_erase. Qed.
Print Assumptions C07_log_erase.

Theorem C07_bound : forall search d n t lg, scan_node_log search d n = Ok (t, lg) ->
  Forall (fun e => (1 <= fst e <= d)%nat) lg.
Proof. exact scan_node_log_bound. Qed.
Print Assumptions C07_bound.

(* termination even when every decoded value can be decoded again: the scan is structural on the depth;
   a registry that always decodes again yields height exactly k *)
Example C07_self_reproducing : map_res height (scan search_again 5 (L"ab")) = Ok 5%nat.
Proof. exact scan_again_5. Qed.
Print Assumptions C07_self_reproducing.

(* BEGIN shipped-registry instances *)
(* THE SHIPPED SCANNER (Proofs/DefaultEngine.v): the theorems above hold for any registry with in-bounds hits; these are the same statements about the model of Multidecoder().scan itself - the regenerated registry of all 30 decoders and the keyword searchers (scan_default), the registry with find_powershell_strings replaced by any conforming decoder ps (scan_default_with ... ps; F6 is the reason it does not conform itself), and the registry with the shell module excluded (scan_noshell) - for every input, depth limit, keyword directory and tool oracle (pe_size non-negative). *)
From MD Require Import Lib.Base Model.Node Model.Engine.
From MD Require Import Model.EngineR Model.Default Model.Flatten Proofs.DefaultWf Proofs.DefaultEngine Proofs.ChainProofs.

(* scan_default itself (all 30 decoders, F6 included): no hypothesis at all *)
Theorem C07_shipped_nonpositive : forall (pe_size : bytes -> Z) (xortool : bytes -> list bytes) (extra : label -> option (bytes -> res (list node))) (kwdir : Registry.dtree) (depth : Z) (data : bytes), depth <= 0 -> scan_default pe_size xortool extra RegistryTable.decoder_modules kwdir depth data = Ok (root_node data).
Proof. exact shipped_scan_depth_le0. Qed.
Print Assumptions C07_shipped_nonpositive.

Theorem C07_shipped_monotone : forall (pe_size : bytes -> Z) (xortool : bytes -> list bytes) (extra : label -> option (bytes -> res (list node))) (kwdir : Registry.dtree) (k : Z) (data : bytes) (t t' : node), scan_default pe_size xortool extra RegistryTable.decoder_modules kwdir k data = Ok t -> scan_default pe_size xortool extra RegistryTable.decoder_modules kwdir (k + 1) data = Ok t' -> EngineDepth.tree_le t t'.
Proof. exact shipped_scan_mono. Qed.
Print Assumptions C07_shipped_monotone.

Theorem C07_shipped_ok_down : forall (pe_size : bytes -> Z) (xortool : bytes -> list bytes) (extra : label -> option (bytes -> res (list node))) (kwdir : Registry.dtree) (k : Z) (data : bytes) (t' : node), scan_default pe_size xortool extra RegistryTable.decoder_modules kwdir (k + 1) data = Ok t' -> exists t : node, scan_default pe_size xortool extra RegistryTable.decoder_modules kwdir k data = Ok t.
Proof. exact shipped_scan_ok_down. Qed.
Print Assumptions C07_shipped_ok_down.

Theorem C07_shipped_monotone_node : forall (pe_size : bytes -> Z) (xortool : bytes -> list bytes) (extra : label -> option (bytes -> res (list node))) (kwdir : Registry.dtree) (d d' : nat) (n t t' : node), (d <= d')%nat -> scan_node_r (search_default pe_size xortool extra RegistryTable.decoder_modules kwdir) d n = Ok t -> scan_node_r (search_default pe_size xortool extra RegistryTable.decoder_modules kwdir) d' n = Ok t' -> EngineDepth.tree_le t t'.
Proof. exact shipped_scan_node_mono_le. Qed.
Print Assumptions C07_shipped_monotone_node.

Theorem C07_shipped_bound : forall (pe_size : bytes -> Z) (xortool : bytes -> list bytes) (extra : label -> option (bytes -> res (list node))) (kwdir : Registry.dtree) (depth : Z) (data : bytes) (t : node), 0 < depth -> scan_default pe_size xortool extra RegistryTable.decoder_modules kwdir depth data = Ok t -> exists lg : list (nat * bytes), EngineDepth.scan_node_log (search_of (search_default pe_size xortool extra RegistryTable.decoder_modules kwdir)) (Z.to_nat depth) (root_node data) = Ok (t, (Z.to_nat depth, data) :: lg) /\ Forall (fun e : nat * bytes => (1 <= fst e <= Z.to_nat depth)%nat) lg.
Proof. exact shipped_scan_log. Qed.
Print Assumptions C07_shipped_bound.

(* END shipped-registry instances *)
