(* C07 - The depth limit bounds recursion and only ever truncates the tree.  For ANY registry. *)
From MD Require Import Lib.Base Model.Node Model.Engine.
From MD Require Import Proofs.EngineRefine Proofs.EngineDepth.

Theorem C07_nonpositive : forall search depth data, depth <= 0 -> scan search depth data = Ok (root_node data).
Proof. exact scan_nonpositive. Qed.
Print Assumptions C07_nonpositive.

(* the tree for k is the tree for k+1 truncated: identical headers, every child list an order-preserving sub-list *)
Theorem C07_monotone : forall search k data t t',
  scan search k data = Ok t -> scan search (k + 1) data = Ok t' -> tree_le t t'.
Proof. exact scan_mono. Qed.
Print Assumptions C07_monotone.

Theorem C07_monotone_node : forall search d d' n t t', (d <= d')%nat ->
  scan_node search d n = Ok t -> scan_node search d' n = Ok t' -> tree_le t t'.
Proof. exact scan_node_mono_le. Qed.
Print Assumptions C07_monotone_node.

(* a shallower scan cannot fail where a deeper one succeeds *)
Theorem C07_ok_down : forall search k data t', scan search (k + 1) data = Ok t' -> exists t, scan search k data = Ok t.
Proof. exact scan_ok_down. Qed.
Print Assumptions C07_ok_down.

(* the decoders are applied only with 1 <= remaining depth <= k: the logging twin of the engine records every
   search; it computes the same tree, and every logged call respects the bound *)
Theorem C07_log_erase : forall search d n, map_res fst (scan_node_log search d n) = scan_node search d n.
Proof. exact scan_node_log_erase. Qed.
Print Assumptions C07_log_erase.

Theorem C07_bound : forall search d n t lg, scan_node_log search d n = Ok (t, lg) ->
  Forall (fun e => (1 <= fst e <= d)%nat) lg.
Proof. exact scan_node_log_bound. Qed.
Print Assumptions C07_bound.

(* termination even when every decoded value can be decoded again: the scan is structural on the depth;
   a registry that always decodes again yields height exactly k *)
Example C07_self_reproducing : map_res height (scan search_again 5 (L"ab")) = Ok 5%nat.
Proof. exact scan_again_5. Qed.
Print Assumptions C07_self_reproducing.
