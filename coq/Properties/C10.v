(* C10 - Reported network indicators are well-formed and normalised.  Statements pinned by harness/mkprop.py from Proofs/IpProofs.v, Proofs/PercentProofs.v, Proofs/NetworkProofs.v (tables are universally quantified: the statements hold for the TLD / false-positive tables regenerated from the source). *)
From MD Require Import Lib.Base Model.Node Model.Codec.Percent Model.Dec.Ip Model.Dec.ReLib Model.Dec.UrlSplit Model.Dec.Network.
From MD Require Import Proofs.IpProofs Proofs.PercentProofs Proofs.UrlSplitProofs Proofs.NetworkProofs.
From MD Require Import Regex.LocalityProofs Proofs.RoundTrip Proofs.RoundTrip2 Proofs.RoundTrip3 Proofs.RoundTrip4 Proofs.RoundTrip5 Proofs.RoundTrip6.
From MD Require Import Proofs.RoundTrip8.

(* the rendered address is a canonical dotted quad *)
Theorem C10_ip_canonical : forall n : Z, 0 <= n < 2 ^ 32 -> canonical_quad (ipv4_compressed n) = true.
Proof. exact compressed_canonical. Qed.
Print Assumptions C10_ip_canonical.

Theorem C10_canonical_iff : forall s : bytes, canonical_quad s = true <-> (exists a b c d : Z, 0 <= a < 256 /\ 0 <= b < 256 /\ 0 <= c < 256 /\ 0 <= d < 256 /\ s = quad a b c d).
Proof. exact canonical_quad_iff. Qed.
Print Assumptions C10_canonical_iff.

Theorem C10_is_ip_iff_canonical : forall s : bytes, is_ip s = canonical_quad s.
Proof. exact is_ip_iff_canonical. Qed.
Print Assumptions C10_is_ip_iff_canonical.

(* every IP node value is canonical; labelled ip_obfuscation exactly when it differs from the text *)
Theorem C10_parse_ip_canonical : forall (s v : bytes) (o : label) (e : Z), parse_ip s = Ok (v, o, e) -> canonical_quad v = true /\ (o = [] <-> v = s) /\ e = blen s.
Proof. exact parse_ip_canonical. Qed.
Print Assumptions C10_parse_ip_canonical.

(* an address found in free text (it passed is_ip) is reported verbatim, no label *)
Theorem C10_free_text_ip_verbatim : forall s : bytes, is_ip s = true -> parse_ip s = Ok (s, [], blen s).
Proof. exact is_ip_parse_verbatim. Qed.
Print Assumptions C10_free_text_ip_verbatim.

Theorem C10_find_ips_nodes : forall (data : bytes) (ms : list Backtrack.mtch) (out : list node), ms_ok data ms -> find_ips_post data ms = Ok out -> Forall (ip_node_ok data) out.
Proof. exact find_ips_post_spec. Qed.
Print Assumptions C10_find_ips_nodes.

(* non-empty name, a dot, a registered top-level domain *)
Theorem C10_is_domain : forall (tlds : list bytes) (d : bytes), is_domain tlds d = true -> exists name tld : list N, d = name ++ [ch_dot] ++ tld /\ name <> [] /\ In (upper tld) tlds /\ ~ In ch_dot tld.
Proof. exact is_domain_spec. Qed.
Print Assumptions C10_is_domain.

Theorem C10_is_domain_complete : forall (tlds : list bytes) (name : list N) (tld : bytes), name <> [] -> In (upper tld) tlds -> ~ In ch_dot tld -> is_domain tlds (name ++ [ch_dot] ++ tld) = true.
Proof. exact is_domain_complete. Qed.
Print Assumptions C10_is_domain_complete.

(* free-text domains: value = covered text, at least seven characters, is_domain *)
Theorem C10_find_domains_nodes : forall (tlds root_fpos tld_fpos : list bytes) (data : bytes) (ms : list Backtrack.mtch) (out : list node), ms_ok data ms -> find_domains_post tlds root_fpos tld_fpos data ms = Ok out -> Forall (domain_node_ok tlds data) out.
Proof. exact find_domains_post_spec. Qed.
Print Assumptions C10_find_domains_nodes.

Theorem C10_find_emails_nodes : forall (tlds : list bytes) (data : bytes) (ms : list Backtrack.mtch) (out : list node), Forall (email_span_ok data) ms -> find_emails_post tlds data ms = Ok out -> Forall (email_node_ok tlds data) out.
Proof. exact find_emails_post_spec. Qed.
Print Assumptions C10_find_emails_nodes.

(* accepted URLs: scheme http / https / ftp, non-empty host, valid port *)
Theorem C10_is_url : forall url : bytes, is_url url = Ok true -> exists (sp : split_result) (h : bytes), urlsplit url = Ok sp /\ In (sr_scheme sp) url_schemes /\ sr_hostname sp = Some h /\ h <> [] /\ (exists p : option Z, sr_port sp = Ok p).
Proof. exact is_url_true. Qed.
Print Assumptions C10_is_url.

(* URL node: value = normalize_percent_encoding of the covered text, labelled iff shorter, children = parse_url value *)
Theorem C10_find_urls_nodes : forall (tlds : list bytes) (data : bytes) (ms : list Backtrack.mtch) (out : list node), ms_ok data ms -> find_urls_post tlds data ms = Ok out -> Forall (url_node_ok tlds data) out.
Proof. exact find_urls_post_spec. Qed.
Print Assumptions C10_find_urls_nodes.

Theorem C10_percent_label_iff : forall u : bytes, snd (normalize_percent_encoding u) = PERCENT_OBF <-> blen (fst (normalize_percent_encoding u)) < blen u.
Proof. exact normalize_percent_label_iff. Qed.
Print Assumptions C10_percent_label_iff.

Theorem C10_percent_length : forall u : bytes, 0 <= count_unreserved_escapes u /\ blen u = blen (normalize_percent u) + 2 * count_unreserved_escapes u.
Proof. exact normalize_percent_length. Qed.
Print Assumptions C10_percent_length.

(* idempotent on texts whose every % starts a valid escape (false otherwise: %%341 -> %41 -> A, recorded in DESIGN.md) *)
Theorem C10_percent_idempotent : forall u : bytes, percent_wfb u = true -> normalize_percent_encoding (fst (normalize_percent_encoding u)) = (fst (normalize_percent_encoding u), []).
Proof. exact normalize_percent_idempotent. Qed.
Print Assumptions C10_percent_idempotent.

Theorem C10_find_urls_never_raises : forall (tlds : list bytes) (data : bytes) (ms : list Backtrack.mtch), ms_ok data ms -> exists out : list node, find_urls_post tlds data ms = Ok out.
Proof. exact find_urls_post_never_raises. Qed.
Print Assumptions C10_find_urls_never_raises.

(* END TO END: a URL without escapes / dot segments is reported with the text it covers as value and no label *)
Theorem C10_url_reported_verbatim : forall (pre : list N) (scheme : bytes) (labels : list bytes) (tld path suf : bytes), url_scheme_ok scheme -> labels_ok labels = true -> tld_ok tld = true -> mem (upper tld) Tables.TOP_LEVEL_DOMAINS = true -> let host := dotted labels ++ tld in (URL_HOST_MIN <= Datatypes.length host <= URL_HOST_MAX)%nat -> url_path_ok path = true -> url_stop suf = true -> let form := url_form scheme host path in neutral Regexes.RE_network_URL_RE pre = true -> is_printable pre = true -> (Datatypes.length form + Datatypes.length (take_trail suf) + 100 <= Backtrack.default_fuel)%nat -> let data := pre ++ form ++ suf in find_urls Tables.TOP_LEVEL_DOMAINS data = Hang \/ (exists rest : list node, find_urls Tables.TOP_LEVEL_DOMAINS data = Ok (Node URL_TYPE form [] (blen pre) (blen pre + blen form) (url_simple_kids scheme host path) :: rest) /\ Forall (fun nd : node => blen pre + blen form <= n_st nd) rest).
Proof. exact find_urls_roundtrip_simple_table. Qed.
Print Assumptions C10_url_reported_verbatim.

Theorem C10_domain_reported_verbatim : forall (pre : bytes) (labels : list bytes) (tld suf : bytes), labels_ok labels = true -> tld_ok tld = true -> mem (upper tld) Tables.TOP_LEVEL_DOMAINS = true -> let form := domain_form labels tld in 7 <= blen form -> domain_fp_b Tables.root_fpos Tables.tld_fpos form = false -> dom_pre_ok pre = true -> dom_stop suf = true -> (Datatypes.length pre + 2 * Datatypes.length form + Datatypes.length suf + 64 <= Backtrack.default_fuel)%nat -> let data := pre ++ form ++ suf in find_domains Tables.TOP_LEVEL_DOMAINS Tables.root_fpos Tables.tld_fpos data = Hang \/ (exists rest : list node, find_domains Tables.TOP_LEVEL_DOMAINS Tables.root_fpos Tables.tld_fpos data = Ok (Node (s2b "network.domain") form [] (blen pre) (blen pre + blen form) [] :: rest) /\ Forall (fun nd : node => blen pre + blen form <= n_st nd) rest).
Proof. exact find_domains_roundtrip_table. Qed.
Print Assumptions C10_domain_reported_verbatim.

Theorem C10_url_port_reported_verbatim : forall (pre : list N) (scheme : bytes) (labels : list bytes) (tld port path suf : bytes), url_scheme_ok scheme -> labels_ok labels = true -> tld_ok tld = true -> mem (upper tld) Tables.TOP_LEVEL_DOMAINS = true -> let host := dotted labels ++ tld in (URL_HOST_MIN <= Datatypes.length host <= URL_HOST_MAX)%nat -> port_ok port = true -> url_path_ok path = true -> url_stop suf = true -> let form := url_form scheme (hostport host port) path in neutral Regexes.RE_network_URL_RE pre = true -> is_printable pre = true -> (Datatypes.length form + Datatypes.length (take_trail suf) + 200 <= Backtrack.default_fuel)%nat -> let data := pre ++ form ++ suf in find_urls Tables.TOP_LEVEL_DOMAINS data = Hang \/ (exists rest : list node, find_urls Tables.TOP_LEVEL_DOMAINS data = Ok (Node URL_TYPE form [] (blen pre) (blen pre + blen form) (url_port_kids scheme host port path) :: rest) /\ Forall (fun nd : node => blen pre + blen form <= n_st nd) rest).
Proof. exact find_urls_roundtrip_port_table. Qed.
Print Assumptions C10_url_port_reported_verbatim.

(* a URL whose host is a canonical dotted quad is reported verbatim, host child typed network.ip *)
Theorem C10_url_ip_host_reported_verbatim : forall (tlds : list bytes) (pre : list N) (scheme q path suf : bytes), url_scheme_ok scheme -> canonical_quad q = true -> url_path_ok path = true -> url_stop suf = true -> let form := url_form scheme q path in neutral Regexes.RE_network_URL_RE pre = true -> url_ctx_ok pre form suf = true -> (Datatypes.length form + Datatypes.length (take_trail suf) + 100 <= Backtrack.default_fuel)%nat -> let data := pre ++ form ++ suf in find_urls tlds data = Hang \/ (exists rest : list node, find_urls tlds data = Ok (Node URL_TYPE form [] (blen pre) (blen pre + blen form) (url_ip_kids scheme q path) :: rest) /\ Forall (fun nd : node => blen pre + blen form <= n_st nd) rest).
Proof. exact find_urls_roundtrip_iphost. Qed.
Print Assumptions C10_url_ip_host_reported_verbatim.

Example C10_example :
  parse_ip (L"0x7f.1") = Ok (L"127.0.0.1", L"ip_obfuscation", 6)
  /\ normalize_percent_encoding (L"http://a.com/%7euser/%2f%41") = (L"http://a.com/~user/%2FA", L"escape.percent").
Proof. vm_compute. split; reflexivity. Qed.
Print Assumptions C10_example.
