(* C11 - Plain indicators are found at any offset with exact span and canonical value.  PARTIAL (see DESIGN.md): what is proved is (1) the validators accept every instance of the indicator grammars (canonical quads, name.TLD), (2) what each decoder reports for a given match list: the match text itself with the documented type and exactly the match span, balanced CreateObject, PE carving for any section table within bounds, (3) soundness and - for assertion-free patterns - completeness of the matcher model w.r.t. the regex language.  (4) OFFSET INDEPENDENCE of the matcher (Regex/LocalityProofs.v): what the matcher reports from a position onwards depends only on the text after that position and on the last lb_width r bytes before it, and shifts with the offset; lb_width is computed on the generated indicator regexes by name (0 or 1 byte).  (5) INSTANCE SELECTION proved end to end for IPv4 addresses, .exe / .dll names and e-mail addresses (Proofs/RoundTrip3.v); for domains, URLs, paths, CreateObject and PE files it is exercised by harness/props/C11.py. *)
From MD Require Import Lib.Base Model.Node Model.Dec.Ip Model.Dec.ReLib Model.Dec.UrlSplit Model.Dec.Network Model.Dec.NtPath Model.Dec.PathDec Model.Dec.StrOps Regex.Syntax Regex.Backtrack.
From MD Require Import Proofs.IpProofs Proofs.UrlSplitProofs Proofs.NetworkProofs Proofs.PathDecProofs Proofs.EscDecProofs Proofs.StrOpsProofs Regex.BacktrackProofs.
From MD Require Import Regex.LocalityProofs Generated.Regexes.
From MD Require Import Proofs.RoundTrip Proofs.RoundTrip3.
From MD Require Import Regex.LocalityProofs Proofs.RoundTrip Proofs.RoundTrip2 Proofs.RoundTrip3 Proofs.RoundTrip4 Proofs.RoundTrip5 Proofs.RoundTrip6.
From MD Require Import Proofs.RoundTrip7.
From MD Require Import Proofs.RoundTrip9.
From MD Require Import Proofs.RoundTrip8.

(* every canonical dotted quad is an instance ... *)
Theorem C11_quad_accepted : forall s : bytes, canonical_quad s = true <-> (exists a b c d : Z, 0 <= a < 256 /\ 0 <= b < 256 /\ 0 <= c < 256 /\ 0 <= d < 256 /\ s = quad a b c d).
Proof. exact canonical_quad_iff. Qed.
Print Assumptions C11_quad_accepted.

(* ... that is_ip accepts, and is reported verbatim *)
Theorem C11_is_ip_accepts_canonical : forall s : bytes, is_ip s = canonical_quad s.
Proof. exact is_ip_iff_canonical. Qed.
Print Assumptions C11_is_ip_accepts_canonical.

Theorem C11_ip_verbatim : forall s : bytes, is_ip s = true -> parse_ip s = Ok (s, [], blen s).
Proof. exact is_ip_parse_verbatim. Qed.
Print Assumptions C11_ip_verbatim.

(* every name.TLD with a registered TLD passes is_domain *)
Theorem C11_domain_accepted : forall (tlds : list bytes) (name : list N) (tld : bytes), name <> [] -> In (upper tld) tlds -> ~ In ch_dot tld -> is_domain tlds (name ++ [ch_dot] ++ tld) = true.
Proof. exact is_domain_complete. Qed.
Print Assumptions C11_domain_accepted.

Theorem C11_ips_reported : forall (data : bytes) (ms : list mtch) (out : list node), ms_ok data ms -> find_ips_post data ms = Ok out -> Forall (ip_node_ok data) out.
Proof. exact find_ips_post_spec. Qed.
Print Assumptions C11_ips_reported.

Theorem C11_domains_reported : forall (tlds root_fpos tld_fpos : list bytes) (data : bytes) (ms : list mtch) (out : list node), ms_ok data ms -> find_domains_post tlds root_fpos tld_fpos data ms = Ok out -> Forall (domain_node_ok tlds data) out.
Proof. exact find_domains_post_spec. Qed.
Print Assumptions C11_domains_reported.

Theorem C11_urls_reported : forall (tlds : list bytes) (data : bytes) (ms : list mtch) (out : list node), ms_ok data ms -> find_urls_post tlds data ms = Ok out -> Forall (url_node_ok tlds data) out.
Proof. exact find_urls_post_spec. Qed.
Print Assumptions C11_urls_reported.

Theorem C11_emails_reported : forall (tlds : list bytes) (data : bytes) (ms : list mtch) (out : list node), Forall (email_span_ok data) ms -> find_emails_post tlds data ms = Ok out -> Forall (email_node_ok tlds data) out.
Proof. exact find_emails_post_spec. Qed.
Print Assumptions C11_emails_reported.

(* POSIX paths, .exe / .dll names: the match text, the documented type, exactly the match span *)
Theorem C11_filenames_reported : forall (lbl : label) (data : bytes) (ms : list mtch), exists ns : list node, regex_hits_post lbl data ms = Ok ns /\ Forall2 (hit_of lbl data) ms ns.
Proof. exact regex_hits_post_spec. Qed.
Print Assumptions C11_filenames_reported.

(* CreateObject( ... up to its balancing parenthesis *)
Theorem C11_createobject : forall (data : bytes) (m : mtch) (n : node), span_ok data m 0 -> In n (createobject_expected data m) -> n_ty n = s2b "vba.function.createobject" /\ n_obf n = [] /\ n_kids n = [] /\ n_st n = m_start m 0 /\ m_end m 0 < n_en n /\ n_en n <= blen data /\ n_val n = slice data (n_st n) (n_en n) /\ (exists pre : list N, n_val n = group data m 0 ++ pre ++ [41%N] /\ brace_bal 40 41 pre = 0 /\ (forall a b : list N, pre = a ++ b -> 0 <= brace_bal 40 41 a)).
Proof. exact createobject_node_spec. Qed.
Print Assumptions C11_createobject.

Theorem C11_closing_brace : forall (data : bytes) (start op cl : Z), open_to_close op = Some cl -> 0 <= start -> exists r : Z, get_closing_brace data start op = Ok r /\ (r = -1 /\ (forall a b : list N, skipn (Z.to_nat start) data = a ++ b -> 0 <= brace_bal op cl a) \/ (exists (pre : list N) (c : N) (rest : list N), skipn (Z.to_nat start) data = pre ++ c :: rest /\ Z.of_N c = cl /\ r = start + blen pre + 1 /\ brace_bal op cl pre = 0 /\ (forall a b : list N, pre = a ++ b -> 0 <= brace_bal op cl a) /\ start < r <= blen data)).
Proof. exact get_closing_brace_spec. Qed.
Print Assumptions C11_closing_brace.

(* embedded PE: carved from the MZ offset to the end the section table gives (clamped to the data), for ANY oracle *)
Theorem C11_pe_carve : forall (pe_size : bytes -> Z) (data : bytes) (ms : list mtch) (ns : list node), pe_ms_ok data ms -> find_pe_files_post pe_size data ms = Ok ns -> Forall (pe_node_ok data) ns /\ Forall (fun n : node => exists m : mtch, In m ms /\ n_st n = m_start m 0) ns.
Proof. exact find_pe_files_post_spec. Qed.
Print Assumptions C11_pe_carve.

(* the matcher model returns only spans whose text is in the regex language, ordered and non-overlapping *)
Theorem C11_matcher_sound : forall (r : re) (ng : nat) (data : list N) (ms : list mtch), finditer r ng data = Some ms -> matches_ok r ng data ms.
Proof. exact finditer_sound. Qed.
Print Assumptions C11_matcher_sound.

(* assertion-free patterns: if the matcher finds nothing at a position, no word of the language starts there *)
Theorem C11_matcher_complete : forall (fuel : nat) (r : re) (p : pos), no_asserts r = true -> wf r = true -> match_here fuel r p = NoMatch -> forall w rest : list N, p_after p = w ++ rest -> ~ Lang r w.
Proof. exact match_here_complete. Qed.
Print Assumptions C11_matcher_complete.

(* matches reported from the end of a prefix onwards: two prefixes sharing their last lb_width r bytes give the same matches, shifted by the length difference - for EVERY regex, text and offset *)
Theorem C11_offset_independent_from : forall (fuel : nat) (r : re) (ng cnt : nat) (x1 x2 tail body : list N), (lb_width r <= Datatypes.length tail)%nat -> let pre1 := x1 ++ tail in let pre2 := x2 ++ tail in finditer_pos fuel r ng cnt (seek (Datatypes.length pre2) (start_pos (pre2 ++ body))) = option_map (map (shift_mtch (Z.of_nat (Datatypes.length pre2) - Z.of_nat (Datatypes.length pre1)))) (finditer_pos fuel r ng cnt (seek (Datatypes.length pre1) (start_pos (pre1 ++ body)))).
Proof. exact finditer_suffix_local. Qed.
Print Assumptions C11_offset_independent_from.

Theorem C11_offset_independent_gen : forall (fuel : nat) (r : re) (ng cnt : nat) (pre1 pre2 body : list N), firstn (lb_width r) (rev pre1) = firstn (lb_width r) (rev pre2) -> finditer_pos fuel r ng cnt (seek (Datatypes.length pre2) (start_pos (pre2 ++ body))) = option_map (map (shift_mtch (Z.of_nat (Datatypes.length pre2) - Z.of_nat (Datatypes.length pre1)))) (finditer_pos fuel r ng cnt (seek (Datatypes.length pre1) (start_pos (pre1 ++ body)))).
Proof. exact finditer_suffix_local_gen. Qed.
Print Assumptions C11_offset_independent_gen.

(* whole finditer from offset 0, when nothing matches inside the two prefixes *)
Theorem C11_offset_independent_scan : forall (r : re) (ng : nat) (pre1 pre2 body : list N), firstn (lb_width r) (rev pre1) = firstn (lb_width r) (rev pre2) -> quiet default_fuel r (Datatypes.length pre1) (start_pos (pre1 ++ body)) -> quiet default_fuel r (Datatypes.length pre2) (start_pos (pre2 ++ body)) -> finditer r ng (pre2 ++ body) = option_map (map (shift_mtch (Z.of_nat (Datatypes.length pre2) - Z.of_nat (Datatypes.length pre1)))) (finditer r ng (pre1 ++ body)).
Proof. exact finditer_quiet_prefix_local. Qed.
Print Assumptions C11_offset_independent_scan.

Theorem C11_offset_independent_match : forall (r : re) (ng : nat) (pre1 pre2 body : list N), firstn (lb_width r) (rev pre1) = firstn (lb_width r) (rev pre2) -> match_at r ng (pre2 ++ body) (Z.of_nat (Datatypes.length pre2)) = option_map (option_map (shift_mtch (Z.of_nat (Datatypes.length pre2) - Z.of_nat (Datatypes.length pre1)))) (match_at r ng (pre1 ++ body) (Z.of_nat (Datatypes.length pre1))).
Proof. exact match_at_local. Qed.
Print Assumptions C11_offset_independent_match.

Theorem C11_match_here_local : forall (fuel : nat) (r : re) (p q : pos), sim (lb_width r) p q -> out_obs (match_here fuel r q) = out_obs (shift_out (p_i q - p_i p) (match_here fuel r p)).
Proof. exact match_here_local_obs. Qed.
Print Assumptions C11_match_here_local.

(* the context the shipped indicator patterns look at before a position, computed on the regenerated regex terms *)
Theorem C11_lookbehind_IP : lb_width RE_network_IP_RE = 1%nat.
Proof. exact lbw_IP. Qed.
Print Assumptions C11_lookbehind_IP.

Theorem C11_lookbehind_DOMAIN : lb_width RE_network_DOMAIN_RE = 1%nat.
Proof. exact lbw_DOMAIN. Qed.
Print Assumptions C11_lookbehind_DOMAIN.

Theorem C11_lookbehind_URL : lb_width RE_network_URL_RE = 0%nat.
Proof. exact lbw_URL. Qed.
Print Assumptions C11_lookbehind_URL.

Theorem C11_lookbehind_EMAIL : lb_width RE_network_EMAIL_RE = 1%nat.
Proof. exact lbw_EMAIL. Qed.
Print Assumptions C11_lookbehind_EMAIL.

Theorem C11_lookbehind_PATH : lb_width RE_path_PATH_RE = 0%nat.
Proof. exact lbw_PATH. Qed.
Print Assumptions C11_lookbehind_PATH.

Theorem C11_lookbehind_WINDOWS_PATH : lb_width RE_path_WINDOWS_PATH_RE = 0%nat.
Proof. exact lbw_WINDOWS_PATH. Qed.
Print Assumptions C11_lookbehind_WINDOWS_PATH.

Theorem C11_lookbehind_EXECUTABLE : lb_width RE_filename_EXECUTABLE_RE = 1%nat.
Proof. exact lbw_EXECUTABLE. Qed.
Print Assumptions C11_lookbehind_EXECUTABLE.

(* INSTANCE SELECTION, END TO END (Proofs/RoundTrip3.v): every canonical quad (other than the .0 / .255 forms) after a prefix without digits whose last byte does not abut, before a suffix that does not extend it, outside the documented version / section / XML-tag contexts, is reported as network.ip with the text itself as value and exactly its span - at ANY offset *)
Theorem C11_ip_found : forall pre q suf : bytes, canonical_quad q = true -> endswith q (s2b ".0") = false -> endswith q (s2b ".255") = false -> ip_abut_ok pre = true -> ip_stop suf = true -> ip_context pre (blen pre) = Ok false -> neutral_tail RE_network_IP_RE pre = true -> let data := pre ++ q ++ suf in find_ips data = Hang \/ (exists rest : list node, find_ips data = Ok (Node (s2b "network.ip") q [] (blen pre) (blen pre + blen q) [] :: rest) /\ Forall (fun nd : node => blen pre + blen q <= n_st nd) rest).
Proof. exact find_ips_roundtrip. Qed.
Print Assumptions C11_ip_found.

(* the same under the weaker hypothesis that no match of the pattern starts inside the prefix *)
Theorem C11_ip_found_quiet : forall pre q suf : bytes, canonical_quad q = true -> endswith q (s2b ".0") = false -> endswith q (s2b ".255") = false -> ip_abut_ok pre = true -> ip_stop suf = true -> ip_context pre (blen pre) = Ok false -> let data := pre ++ q ++ suf in quiet default_fuel RE_network_IP_RE (Datatypes.length pre) (start_pos data) -> find_ips data = Hang \/ (exists rest : list node, find_ips data = Ok (Node (s2b "network.ip") q [] (blen pre) (blen pre + blen q) [] :: rest) /\ Forall (fun nd : node => blen pre + blen q <= n_st nd) rest).
Proof. exact find_ips_roundtrip_quiet. Qed.
Print Assumptions C11_ip_found_quiet.

Theorem C11_exe_found : forall (pre name : list N) (ext : bytes) (suf : list N), forallb is_word name = true -> name <> [] -> lower ext = s2b "exe" -> sep_free RE_filename_EXECUTABLE_RE pre = true -> word_at suf = false -> (Datatypes.length pre + Datatypes.length name + 64 <= default_fuel)%nat -> let form := file_form name ext in let data := pre ++ form ++ suf in find_executable_name data = Hang \/ (exists rest : list node, find_executable_name data = Ok (Node (s2b "executable.filename") form [] (blen pre) (blen pre + blen form) [] :: rest) /\ Forall (fun nd : node => blen pre + blen form <= n_st nd) rest).
Proof. exact find_executable_name_roundtrip. Qed.
Print Assumptions C11_exe_found.

Theorem C11_dll_found : forall (pre name : list N) (ext : bytes) (suf : list N), forallb is_word name = true -> name <> [] -> lower ext = s2b "dll" -> sep_free RE_filename_LIBRARY_RE pre = true -> word_at suf = false -> (Datatypes.length pre + Datatypes.length name + 64 <= default_fuel)%nat -> let form := file_form name ext in let data := pre ++ form ++ suf in find_library data = Hang \/ (exists rest : list node, find_library data = Ok (Node (s2b "executable.library.filename") form [] (blen pre) (blen pre + blen form) [] :: rest) /\ Forall (fun nd : node => blen pre + blen form <= n_st nd) rest).
Proof. exact find_library_roundtrip. Qed.
Print Assumptions C11_dll_found.

(* e-mail addresses under a TLD of the regenerated table *)
Theorem C11_email_found : forall (pre local : list N) (labels : list bytes) (tld suf : bytes), forallb email_local_byte local = true -> (3 <= Datatypes.length local)%nat -> is_word (hd 0%N local) = true -> labels_ok labels = true -> tld_ok tld = true -> mem (upper tld) Tables.TOP_LEVEL_DOMAINS = true -> sep_free RE_network_EMAIL_RE pre = true -> email_stop suf = true -> (Datatypes.length pre + Datatypes.length local + 2 * Datatypes.length (dotted labels) + Datatypes.length tld + 64 <= default_fuel)%nat -> let form := email_form local (dotted labels ++ tld) in let data := pre ++ form ++ suf in find_emails Tables.TOP_LEVEL_DOMAINS data = Hang \/ (exists rest : list node, find_emails Tables.TOP_LEVEL_DOMAINS data = Ok (Node (s2b "network.email") form [] (blen pre) (blen pre + blen form) [] :: rest) /\ Forall (fun nd : node => blen pre + blen form <= n_st nd) rest).
Proof. exact find_emails_roundtrip_table. Qed.
Print Assumptions C11_email_found.

(* the documented false-positive heuristics of find_ips look only at the text BEFORE the address *)
Theorem C11_ip_context_local : forall pre t : list N, ip_context (pre ++ t) (blen pre) = ip_context pre (blen pre).
Proof. exact ip_context_app. Qed.
Print Assumptions C11_ip_context_local.

(* domains under the regenerated TLD table, outside the documented false-positive shapes (as the boolean domain_fp_b), delimited as the look-behind / look-ahead require *)
Theorem C11_domain_found : forall (pre : bytes) (labels : list bytes) (tld suf : bytes), labels_ok labels = true -> tld_ok tld = true -> mem (upper tld) Tables.TOP_LEVEL_DOMAINS = true -> let form := domain_form labels tld in 7 <= blen form -> domain_fp_b Tables.root_fpos Tables.tld_fpos form = false -> dom_pre_ok pre = true -> dom_stop suf = true -> (Datatypes.length pre + 2 * Datatypes.length form + Datatypes.length suf + 64 <= default_fuel)%nat -> let data := pre ++ form ++ suf in find_domains Tables.TOP_LEVEL_DOMAINS Tables.root_fpos Tables.tld_fpos data = Hang \/ (exists rest : list node, find_domains Tables.TOP_LEVEL_DOMAINS Tables.root_fpos Tables.tld_fpos data = Ok (Node (s2b "network.domain") form [] (blen pre) (blen pre + blen form) [] :: rest) /\ Forall (fun nd : node => blen pre + blen form <= n_st nd) rest).
Proof. exact find_domains_roundtrip_table. Qed.
Print Assumptions C11_domain_found.

(* CreateObject( ... up to its balancing parenthesis, any letter case, any suffix *)
Theorem C11_createobject_found : forall (nm : bytes) (pre : list N) (arg : bytes) (suf : list N), lower nm = s2b "createobject(" -> paren_balanced arg = true -> neutral RE_vba_CREATE_OBJECT_RE pre = true -> let form := nm ++ arg ++ [41%N] in let data := pre ++ form ++ suf in find_createobject data = Hang \/ (exists rest : list node, find_createobject data = Ok (Node (s2b "vba.function.createobject") form [] (blen pre) (blen pre + blen form) [] :: rest) /\ Forall (fun nd : node => blen pre + blen nm <= n_st nd) rest).
Proof. exact find_createobject_roundtrip. Qed.
Print Assumptions C11_createobject_found.

Theorem C11_posix_path_found : forall (pre : list N) (dots : bytes) (segs : list bytes) (fname suf : bytes), path_dots dots = true -> segs <> [] -> forallb seg_ok segs = true -> fname_ok fname = true -> path_stop suf = true -> (2 * Datatypes.length (path_form dots segs fname) + 64 <= default_fuel)%nat -> neutral RE_path_PATH_RE pre = true -> let form := path_form dots segs fname in let data := pre ++ form ++ suf in find_path data = Hang \/ (exists rest : list node, find_path data = Ok (Node (s2b "path") form [] (blen pre) (blen pre + blen form) [] :: rest) /\ Forall (fun nd : node => blen pre + blen form <= n_st nd) rest).
Proof. exact find_path_roundtrip. Qed.
Print Assumptions C11_posix_path_found.

(* http / https / ftp URLs with a registered-domain host and a path over the unreserved class: the text itself, unlabelled, with scheme / domain / path children *)
Theorem C11_url_found : forall (pre : list N) (scheme : bytes) (labels : list bytes) (tld path suf : bytes), url_scheme_ok scheme -> labels_ok labels = true -> tld_ok tld = true -> mem (upper tld) Tables.TOP_LEVEL_DOMAINS = true -> let host := dotted labels ++ tld in (URL_HOST_MIN <= Datatypes.length host <= URL_HOST_MAX)%nat -> url_path_ok path = true -> url_stop suf = true -> let form := url_form scheme host path in neutral RE_network_URL_RE pre = true -> is_printable pre = true -> (Datatypes.length form + Datatypes.length (take_trail suf) + 100 <= default_fuel)%nat -> let data := pre ++ form ++ suf in find_urls Tables.TOP_LEVEL_DOMAINS data = Hang \/ (exists rest : list node, find_urls Tables.TOP_LEVEL_DOMAINS data = Ok (Node URL_TYPE form [] (blen pre) (blen pre + blen form) (url_simple_kids scheme host path) :: rest) /\ Forall (fun nd : node => blen pre + blen form <= n_st nd) rest).
Proof. exact find_urls_roundtrip_simple_table. Qed.
Print Assumptions C11_url_found.

Theorem C11_url_query_fragment_found : forall (tlds : list bytes) (pre : list N) (scheme : bytes) (labels : list bytes) (tld path : bytes) (q f : option bytes) (suf : bytes), url_scheme_ok scheme -> labels_ok labels = true -> tld_ok tld = true -> In (upper tld) tlds -> let host := dotted labels ++ tld in (URL_HOST_MIN <= Datatypes.length host <= URL_HOST_MAX)%nat -> url_qf_ok path q f = true -> url_stop suf = true -> let form := url_form scheme host (url_rest path q f) in neutral RE_network_URL_RE pre = true -> url_ctx_ok pre form suf = true -> (Datatypes.length form + Datatypes.length (take_trail suf) + 100 <= default_fuel)%nat -> let data := pre ++ form ++ suf in find_urls tlds data = Hang \/ (exists rest : list node, find_urls tlds data = Ok (Node URL_TYPE form [] (blen pre) (blen pre + blen form) (url_qf_kids scheme host path q f) :: rest) /\ Forall (fun nd : node => blen pre + blen form <= n_st nd) rest).
Proof. exact find_urls_roundtrip_query. Qed.
Print Assumptions C11_url_query_fragment_found.

(* drive paths X:\dir\...\file.ext: windows.path with its file-name child *)
Theorem C11_windows_path_found : forall (is_domain : bytes -> bool) (pre : list N) (d : N) (segs : list bytes) (base ext suf : bytes), is_alpha_ascii d = true -> wsegs_ok segs = true -> wfile_ok base ext = true -> wpath_stop suf = true -> let form := wpath_form d segs (wfile base ext) in neutral RE_path_WINDOWS_PATH_RE pre = true -> (2 * Datatypes.length form + 100 <= default_fuel)%nat -> let data := pre ++ form ++ suf in find_windows_path is_domain data = Hang \/ (exists rest : list node, find_windows_path is_domain data = Ok (Node WINDOWS_PATH_TYPE form [] (blen pre) (blen pre + blen form) (wpath_kids form base ext) :: rest) /\ Forall (fun nd : node => blen pre + blen form <= n_st nd) rest).
Proof. exact find_windows_path_roundtrip_drive. Qed.
Print Assumptions C11_windows_path_found.

(* embedded PE file: for a blob with a well-formed DOS / PE header (the model's own checks) whose size the pefile oracle reports as its length, after a prefix without MZ: one pe_file node spanning exactly the blob (the only hypothesis about the oracle is that equation) *)
Theorem C11_pe_found : forall (pe_size : bytes -> Z) (pre blob : bytes) (suf : list N), pe_header_ok blob = true -> pe_size (blob ++ suf) = blen blob -> no_mz pre = true -> let data := pre ++ blob ++ suf in find_pe_files pe_size data = Hang \/ (exists rest : list node, find_pe_files pe_size data = Ok (Node PE_TYPE blob [] (blen pre) (blen pre + blen blob) [] :: rest) /\ Forall (fun nd : node => blen pre + 2 <= n_st nd) rest).
Proof. exact find_pe_files_roundtrip. Qed.
Print Assumptions C11_pe_found.

(* END TO END (Proofs/RoundTrip9.v): UNC paths host / share / directories / file over the stated class are reported as ONE windows.unc.path node with exactly their span, verbatim, at any offset after a neutral prefix *)
Theorem C11_unc_path_found : forall (is_domain : bytes -> bool) (pre : list N) (host share : bytes) (dirs : list bytes) (base ext suf : bytes), whost_ok host = true -> wsegs_ok (share :: dirs) = true -> wfile_ok base ext = true -> wpath_stop suf = true -> let form := wunc_form host (share :: dirs) (wfile base ext) in neutral RE_path_WINDOWS_PATH_RE pre = true -> (2 * Datatypes.length form + 100 <= default_fuel)%nat -> let data := pre ++ form ++ suf in find_windows_path is_domain data = Hang \/ (exists rest : list node, find_windows_path is_domain data = Ok (Node UNC_PATH_TYPE form [] (blen pre) (blen pre + blen form) (wunc_kids is_domain host form base ext) :: rest) /\ Forall (fun nd : node => blen pre + blen form <= n_st nd) rest).
Proof. exact find_windows_path_roundtrip_unc. Qed.
Print Assumptions C11_unc_path_found.

Theorem C11_unc_path_domain_host : forall (tlds : list bytes) (pre : list N) (labels : list bytes) (tld share : bytes) (dirs : list bytes) (base ext suf : bytes), labels_ok labels = true -> tld_ok tld = true -> In (upper tld) tlds -> let host := dotted labels ++ tld in whost_ok host = true -> wsegs_ok (share :: dirs) = true -> wfile_ok base ext = true -> wpath_stop suf = true -> let form := wunc_form host (share :: dirs) (wfile base ext) in neutral RE_path_WINDOWS_PATH_RE pre = true -> (2 * Datatypes.length form + 100 <= default_fuel)%nat -> let data := pre ++ form ++ suf in find_windows_path (is_domain tlds) data = Hang \/ (exists rest : list node, find_windows_path (is_domain tlds) data = Ok (Node UNC_PATH_TYPE form [] (blen pre) (blen pre + blen form) (Node DOMAIN_TYPE host [] 2 (2 + blen host) [] :: wpath_kids form base ext) :: rest) /\ Forall (fun nd : node => blen pre + blen form <= n_st nd) rest).
Proof. exact find_windows_path_roundtrip_unc_domain. Qed.
Print Assumptions C11_unc_path_domain_host.

(* END TO END (Proofs/RoundTrip8.v): URLs with an explicit port are reported verbatim with exactly their span at any offset *)
Theorem C11_url_port_found : forall (pre : list N) (scheme : bytes) (labels : list bytes) (tld port path suf : bytes), url_scheme_ok scheme -> labels_ok labels = true -> tld_ok tld = true -> mem (upper tld) Tables.TOP_LEVEL_DOMAINS = true -> let host := dotted labels ++ tld in (URL_HOST_MIN <= Datatypes.length host <= URL_HOST_MAX)%nat -> port_ok port = true -> url_path_ok path = true -> url_stop suf = true -> let form := url_form scheme (hostport host port) path in neutral RE_network_URL_RE pre = true -> is_printable pre = true -> (Datatypes.length form + Datatypes.length (take_trail suf) + 200 <= default_fuel)%nat -> let data := pre ++ form ++ suf in find_urls Tables.TOP_LEVEL_DOMAINS data = Hang \/ (exists rest : list node, find_urls Tables.TOP_LEVEL_DOMAINS data = Ok (Node URL_TYPE form [] (blen pre) (blen pre + blen form) (url_port_kids scheme host port path) :: rest) /\ Forall (fun nd : node => blen pre + blen form <= n_st nd) rest).
Proof. exact find_urls_roundtrip_port_table. Qed.
Print Assumptions C11_url_port_found.

Theorem C11_url_ip_host_found : forall (tlds : list bytes) (pre : list N) (scheme q path suf : bytes), url_scheme_ok scheme -> canonical_quad q = true -> url_path_ok path = true -> url_stop suf = true -> let form := url_form scheme q path in neutral RE_network_URL_RE pre = true -> url_ctx_ok pre form suf = true -> (Datatypes.length form + Datatypes.length (take_trail suf) + 100 <= default_fuel)%nat -> let data := pre ++ form ++ suf in find_urls tlds data = Hang \/ (exists rest : list node, find_urls tlds data = Ok (Node URL_TYPE form [] (blen pre) (blen pre + blen form) (url_ip_kids scheme q path) :: rest) /\ Forall (fun nd : node => blen pre + blen form <= n_st nd) rest).
Proof. exact find_urls_roundtrip_iphost. Qed.
Print Assumptions C11_url_ip_host_found.

Example C11_example :
  find_ips (L"zz 10.20.30.40 zz") = Ok [Node (L"network.ip") (L"10.20.30.40") [] 3 14 []]
  /\ find_ips (L"10.20.30.40 <t>") = Ok [Node (L"network.ip") (L"10.20.30.40") [] 0 11 []].
Proof. vm_compute. split; reflexivity. Qed.
Print Assumptions C11_example.
