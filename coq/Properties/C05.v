(* C05 - Sibling results are laminar; raw hits inside a decoded region are suppressed. *)
From Coq Require Import Sorting.Sorted.
From MD Require Import Lib.Base Model.Node Model.Engine Model.Reference.
From MD Require Import Proofs.EngineRefine Proofs.EngineInv.

(* on the engine's own output: among the children a scan attaches, starts are non-decreasing and ends strictly
   increasing - for every pair of children, not only adjacent ones *)
Theorem C05_siblings : forall search d n t l1 c1 l2 c2 l3,
  wf_search search -> n_kids n = [] -> scan_node search (S d) n = Ok t ->
  n_kids t = l1 ++ c1 :: l2 ++ c2 :: l3 ->
  n_st c1 <= n_st c2 /\ n_en c1 < n_en c2.
Proof. exact scan_children_laminar. Qed.
Print Assumptions C05_siblings.

(* identically inside any depth of enclosing contexts and in every recursive pass: pass_ok carries the
   laminar clause for each child list, deep_ok for every level of the tree *)
Theorem C05_every_level : forall search, wf_search search -> forall d k a b n t,
  k <> KCtx -> ref_scan_node search d k a b n = Ok t -> deep_ok search d t.
Proof. exact ref_deep_ok. Qed.
Print Assumptions C05_every_level.

Theorem C05_pass_laminar : forall P text lo pv l, pass_ok P text lo pv l ->
  Forall (fun c => 0 <= n_st c /\ n_st c < n_en c /\ n_en c <= blen pv) (map erase l) /\
  Sorted sib_lt (map erase l).
Proof. exact pass_ok_erased. Qed.
Print Assumptions C05_pass_laminar.

(* nested under an undecoded context / suppressed under a decoded one: the reference drops a hit that ends at or
   before the last decoded end and attaches every other hit to the innermost open context containing it;
   the engine computes the reference (C06) *)
Theorem C05_engine_is_reference : forall search, wf_search search -> forall d k a b n, k <> KCtx ->
  scan_node search d n = map_res erase (ref_scan_node search d k a b n).
Proof. exact engine_refines_reference. Qed.
Print Assumptions C05_engine_is_reference.

(* the three-hit configuration on which the bookkeeping used to go wrong (decode_end kept relative to the
   context): [1,3) context, [1,2) decoded, [1,2) raw - the raw hit must be suppressed *)
Example C05_regression :
  let search := fun v => if beqb v (L"abcdef")
                         then [Node (L"t2") (L"bc") [] 1 3 []; Node (L"t0") (L"D0") [] 1 2 []; Node (L"t1") (L"b") [] 1 2 []]
                         else [] in
  scan search 3 (L"abcdef")
  = Ok (Node [] (L"abcdef") [] 0 6 [Node (L"t2") (L"bc") [] 1 3 [Node (L"t0") (L"D0") [] 0 1 []]]).
Proof. vm_compute. reflexivity. Qed.
Print Assumptions C05_regression.

(* BEGIN shipped-registry instances *)
(* THE SHIPPED SCANNER (Proofs/DefaultEngine.v): the theorems above hold for any registry with in-bounds hits; these are the same statements about the model of Multidecoder().scan itself - the regenerated registry of all 30 decoders and the keyword searchers (scan_default), the registry with find_powershell_strings replaced by any conforming decoder ps (scan_default_with ... ps; F6 is the reason it does not conform itself), and the registry with the shell module excluded (scan_noshell) - for every input, depth limit, keyword directory and tool oracle (pe_size non-negative). *)
From MD Require Import Model.EngineR Model.Default Model.Flatten Proofs.DefaultWf Proofs.DefaultEngine Proofs.ChainProofs.

Theorem C05_shipped_laminar : forall pe_size : Base.bytes -> BinNums.Z, (forall b : Base.bytes, BinInt.Z.le BinNums.Z0 (pe_size b)) -> forall (xortool : Base.bytes -> list Base.bytes) (extra : Base.label -> option (Base.bytes -> Base.res (list Node.node))) (ps : Base.bytes -> Base.res (list Node.node)) (kwdir : Registry.dtree) (depth : BinNums.Z) (data : Base.bytes) (t : Node.node) (l1 : list Node.node) (c1 : Node.node) (l2 : list Node.node) (c2 : Node.node) (l3 : list Node.node), strong_ok ps -> BinInt.Z.lt BinNums.Z0 depth -> scan_default_with pe_size xortool extra ps kwdir depth data = Base.Ok t -> Node.n_kids t = (l1 ++ c1 :: l2 ++ c2 :: l3)%list -> BinInt.Z.le (Node.n_st c1) (Node.n_st c2) /\ BinInt.Z.lt (Node.n_en c1) (Node.n_en c2).
Proof. exact default_scan_laminar. Qed.
Print Assumptions C05_shipped_laminar.

Theorem C05_shipped_node_laminar : forall pe_size : Base.bytes -> BinNums.Z, (forall b : Base.bytes, BinInt.Z.le BinNums.Z0 (pe_size b)) -> forall (xortool : Base.bytes -> list Base.bytes) (extra : Base.label -> option (Base.bytes -> Base.res (list Node.node))) (ps : Base.bytes -> Base.res (list Node.node)) (kwdir : Registry.dtree) (d : nat) (n t : Node.node) (l1 : list Node.node) (c1 : Node.node) (l2 : list Node.node) (c2 : Node.node) (l3 : list Node.node), strong_ok ps -> Node.n_kids n = nil -> scan_node_r (search_default_with pe_size xortool extra ps kwdir) (S d) n = Base.Ok t -> Node.n_kids t = (l1 ++ c1 :: l2 ++ c2 :: l3)%list -> BinInt.Z.le (Node.n_st c1) (Node.n_st c2) /\ BinInt.Z.lt (Node.n_en c1) (Node.n_en c2).
Proof. exact default_scan_node_laminar. Qed.
Print Assumptions C05_shipped_node_laminar.

(* suppression inside decoded regions = the reference procedure *)
Theorem C05_shipped_is_reference : forall pe_size : Base.bytes -> BinNums.Z, (forall b : Base.bytes, BinInt.Z.le BinNums.Z0 (pe_size b)) -> forall (xortool : Base.bytes -> list Base.bytes) (extra : Base.label -> option (Base.bytes -> Base.res (list Node.node))) (ps : Base.bytes -> Base.res (list Node.node)) (kwdir : Registry.dtree) (depth : BinNums.Z) (data : Base.bytes) (t : Node.node), strong_ok ps -> scan_default_with pe_size xortool extra ps kwdir depth data = Base.Ok t -> EngineRefine.map_res Reference.erase (Reference.ref_scan (search_of (search_default_with pe_size xortool extra ps kwdir)) depth data) = Base.Ok t /\ Engine.scan (search_of (search_default_with pe_size xortool extra ps kwdir)) depth data = Base.Ok t.
Proof. exact default_scan_refines_reference. Qed.
Print Assumptions C05_shipped_is_reference.

Theorem C05_noshell_laminar : forall pe_size : Base.bytes -> BinNums.Z, (forall b : Base.bytes, BinInt.Z.le BinNums.Z0 (pe_size b)) -> forall (xortool : Base.bytes -> list Base.bytes) (extra : Base.label -> option (Base.bytes -> Base.res (list Node.node))) (kwdir : Registry.dtree) (depth : BinNums.Z) (data : Base.bytes) (t : Node.node) (l1 : list Node.node) (c1 : Node.node) (l2 : list Node.node) (c2 : Node.node) (l3 : list Node.node), BinInt.Z.lt BinNums.Z0 depth -> scan_noshell pe_size xortool extra kwdir depth data = Base.Ok t -> Node.n_kids t = (l1 ++ c1 :: l2 ++ c2 :: l3)%list -> BinInt.Z.le (Node.n_st c1) (Node.n_st c2) /\ BinInt.Z.lt (Node.n_en c1) (Node.n_en c2).
Proof. exact noshell_scan_laminar. Qed.
Print Assumptions C05_noshell_laminar.

(* END shipped-registry instances *)
