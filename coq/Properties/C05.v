(* C05 - Sibling results are laminar; raw hits inside a decoded region are suppressed. *)
From Coq Require Import Sorting.Sorted.
From MD Require Import Lib.Base Model.Node Model.Engine Model.Reference.
From MD Require Import Proofs.EngineRefine Proofs.EngineInv.

(* on the engine's own output: among the children a scan attaches, starts are non-decreasing and ends strictly
   increasing - for every pair of children, not only adjacent ones *)
Theorem C05_siblings : forall search d n t l1 c1 l2 c2 l3,
  wf_search search -> n_kids n = [] -> scan_node search (S d) n = Ok t ->
  n_kids t = l1 ++ c1 :: l2 ++ c2 :: l3 ->
  n_st c1 <= n_st c2 /\ n_en c1 < n_en c2.
Proof. exact scan_children_laminar. Qed.
Print Assumptions C05_siblings.

(* identically inside any depth of enclosing contexts and in every recursive pass: pass_ok carries the
   laminar clause for each child list, deep_ok for every level of the tree *)
Theorem C05_every_level : forall search, wf_search search -> forall d k a b n t,
  k <> KCtx -> ref_scan_node search d k a b n = Ok t -> deep_ok search d t.
Proof. exact ref_deep_ok. Qed.
Print Assumptions C05_every_level.

Theorem C05_pass_laminar : forall P text lo pv l, pass_ok P text lo pv l ->
  Forall (fun c => 0 <= n_st c /\ n_st c < n_en c /\ n_en c <= blen pv) (map erase l) /\
  Sorted sib_lt (map erase l).
Proof. exact pass_ok_erased. Qed.
Print Assumptions C05_pass_laminar.

(* nested under an undecoded context / suppressed under a decoded one: the reference drops a hit that ends at or
   before the last decoded end and attaches every other hit to the innermost open context containing it;
   the engine computes the reference (C06) *)
Theorem C05_engine_is_reference : forall search, wf_search search -> forall d k a b n, k <> KCtx ->
  scan_node search d n = map_res erase (ref_scan_node search d k a b n).
Proof. exact engine_refines_reference. Qed.
Print Assumptions C05_engine_is_reference.

(* the three-hit configuration on which the bookkeeping used to go wrong (decode_end kept relative to the
   context): [1,3) context, [1,2) decoded, [1,2) raw - the raw hit must be suppressed *)
Example C05_regression :
  let search := fun v => if beqb v (L"abcdef")
                         then [Node (L"t2") (L"bc") [] 1 3 []; Node (L"t0") (L"D0") [] 1 2 []; Node (L"t1") (L"b") [] 1 2 []]
                         else [] in
  scan search 3 (L"abcdef")
  = Ok (Node [] (L"abcdef") [] 0 6 [Node (L"t2") (L"bc") [] 1 3 [Node (L"t0") (L"D0") [] 0 1 []]]).
Proof. vm_compute. reflexivity. Qed.
Print Assumptions C05_regression.
