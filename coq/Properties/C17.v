(* C17 - Keyword search reports exactly the delimited, case-insensitive occurrences.
   Only statements, `exact <lemma>` and Print Assumptions live here. *)
From MD Require Import Lib.Base Lib.Latin1 Model.Node Model.Keyword Proofs.KeywordProofs.
From MD Require Generated.Consts.

(* find_all (the `while start >= 0` loop as written) terminates on every input and returns
   exactly the neighbour-delimited members of the left-to-right non-overlapping occurrence list *)
Theorem C17_find_all_spec : forall kw data,
  find_all kw data =
  Ok (match kw with [] => [] | _ => filter (delimited kw data) (greedy_occ kw data) end).
Proof. exact find_all_spec. Qed.
Print Assumptions C17_find_all_spec.

(* declarative reading of the occurrence list: every member is an occurrence ... *)
Theorem C17_occurrences_sound : forall kw data s, In s (greedy_occ kw data) -> occurs_at kw data s.
Proof. exact greedy_occ_sound. Qed.
Print Assumptions C17_occurrences_sound.

(* ... members are increasing and at least |kw| apart (non-overlapping) ... *)
Theorem C17_occurrences_spaced : forall kw data, kw <> [] -> spaced (blen kw) (greedy_occ kw data).
Proof. intros kw data H. exact (greedy_spaced kw H data 0 0%nat). Qed.
Print Assumptions C17_occurrences_spaced.

(* ... and every occurrence anywhere is overlapped by a listed one starting at or before it (leftmost) *)
Theorem C17_occurrences_complete : forall kw data o, kw <> [] -> occurs_at kw data o ->
  exists s, In s (greedy_occ kw data) /\ s <= o < s + blen kw.
Proof. intros kw data o H. exact (greedy_occ_complete kw data o H). Qed.
Print Assumptions C17_occurrences_complete.

(* hits: value = keyword as listed, type = list name, span = the occurrence; for all keyword lists *)
Theorem C17_hit_fields : forall lbl kws data,
  find_keywords lbl kws data =
  Ok (flat_map (fun kw => map (keyword_hit lbl data kw)
                              (match lower kw with [] => []
                               | _ => filter (delimited (lower kw) (lower data))
                                             (greedy_occ (lower kw) (lower data)) end)) kws).
Proof. exact find_keywords_spec. Qed.
Print Assumptions C17_hit_fields.

(* MixedCase exactly when neither all-upper nor all-lower and different from the listed keyword *)
Theorem C17_mixed_iff : forall kw raw, lower raw = lower kw ->
  is_mixed_case kw raw = negb (isupper raw) && negb (islower raw) && negb (beqb raw kw).
Proof. exact mixed_case_iff. Qed.
Print Assumptions C17_mixed_iff.

(* the label constant of the model is the one the source defines now *)
Theorem C17_label_tied : MIXED_CASE_OBF = Generated.Consts.G_MIXED_CASE_OBF.
Proof. reflexivity. Qed.
Print Assumptions C17_label_tied.

(* non-vacuity: a concrete keyword set / text exercising overlap, delimiters and MixedCase *)
Example C17_example :
  find_keywords (L"api") [L"Ab"; L"a-a"] (L"ab AB aB abab a-a-a xaB")
  = Ok [Node (L"api") (L"Ab") [] 0 2 []; Node (L"api") (L"Ab") [] 3 5 [];
        Node (L"api") (L"Ab") (L"MixedCase") 6 8 []; Node (L"api") (L"a-a") [] 14 17 []].
Proof. vm_compute. reflexivity. Qed.
Print Assumptions C17_example.
