(* C18 - The registry contains every shipped decoder and honours configuration. *)
From Coq Require Import Sorting.Sorted Sorting.Permutation.
From MD Require Import Lib.Base Model.Node Model.Registry Proofs.RegistryProofs.
From MD Require Import Generated.RegistryTable.

(* include / exclude select exactly the decoders of the modules that are included (or all) and not excluded *)
Theorem C18_select : forall (D : Type) (modules : list (label * list D)) inc exc d,
  In d (get_analyzers modules inc exc) <->
  exists m ds, In (m, ds) modules /\ In d ds /\ (inc = [] \/ In m inc) /\ ~ In m exc.
Proof. intros D. exact (@get_analyzers_spec D). Qed.
Print Assumptions C18_select.

Theorem C18_select_order : forall (D : Type) (modules : list (label * list D)) inc exc,
  subseq (get_analyzers modules inc exc) (get_analyzers modules [] []).
Proof. intros D. exact (@get_analyzers_subseq D). Qed.
Print Assumptions C18_select_order.

Theorem C18_default_all : forall (D : Type) (modules : list (label * list D)),
  get_analyzers modules [] [] = concat (map snd modules).
Proof. intros D. exact (@get_analyzers_all D). Qed.
Print Assumptions C18_default_all.

(* one keyword searcher per non-empty keyword file, typed by the file's name, blank lines ignored,
   files in sub-directories included *)
Theorem C18_keywords : forall t name ws,
  In (name, ws) (get_keywords t) <->
  exists content, In (name, content) (tree_files t) /\ ws = keywords_of content /\ ws <> [].
Proof. exact get_keywords_spec. Qed.
Print Assumptions C18_keywords.

Theorem C18_keywords_count : forall t,
  List.length (get_keywords t) = List.length (filter has_keywords (tree_files t)).
Proof. exact get_keywords_length. Qed.
Print Assumptions C18_keywords_count.

Theorem C18_words : forall content w, In w (keywords_of content) <-> In w (splitlines content) /\ w <> [].
Proof. exact keywords_of_spec. Qed.
Print Assumptions C18_words.

Theorem C18_splitlines : forall d, joined (splitlines d) d /\ Forall clean (splitlines d).
Proof. exact splitlines_spec. Qed.
Print Assumptions C18_splitlines.

(* a custom keyword directory replaces the keyword searchers and nothing else; include / exclude touch only the decoders *)
Theorem C18_custom_dir_only_keywords : forall (D : Type) (m : list (label * list D)) k i e,
  build_registry m k i e = kw_part k ++ dec_part m i e /\
  firstn (List.length (get_keywords k)) (build_registry m k i e) = kw_part k /\
  skipn (List.length (get_keywords k)) (build_registry m k i e) = dec_part m i e.
Proof. intros D. exact (@build_registry_split D). Qed.
Print Assumptions C18_custom_dir_only_keywords.

(* every function the source marks for registration (translator table, regenerated each run) is in the default registry *)
Theorem C18_default_complete :
  get_analyzers decoder_modules [] [] = concat (map snd decoder_modules)
  /\ List.length (get_analyzers decoder_modules [] []) = List.length (concat (map snd decoder_modules))
  /\ Nat.ltb 0 (List.length (concat (map snd decoder_modules))) = true.
Proof. vm_compute. repeat split. Qed.
Print Assumptions C18_default_complete.

Example C18_example :
  get_analyzers decoder_modules [L"chr"; L"xml"; L"nosuch"] [L"xml"] = [L"find_chr"]
  /\ get_keywords (Dir [(L"b", L"x" ++ [13;10;10]%N ++ L"y" ++ [10]%N ++ L"x"); (L"a", [10;13]%N)] [(L"d", Dir [(L"c", L"k")] [])])
     = [(L"b", [L"x"; L"y"]); (L"c", [L"k"])].
Proof. vm_compute. split; reflexivity. Qed.
Print Assumptions C18_example.
