(* C09 - Results are reproducible: a function of input, depth and configuration only.
   Logic part: the registry built from the keyword directory does not depend on the order in which the file
   system enumerates it, nor on the iteration order / multiplicity of the words of a file (string-hash seed);
   the scan is a Gallina function of (registry, depth, data).  Hidden shared state in CPython / regex / pefile
   and thread interleavings are runtime behaviour no model can exhibit: exercised by harness/props/C09.py. *)
From Coq Require Import Sorting.Sorted Sorting.Permutation.
From MD Require Import Lib.Base Model.Node Model.Engine Model.Registry Proofs.RegistryProofs.

(* directory enumeration order: permuting the file listing and the sub-directory listing of every directory,
   recursively, leaves the keyword searchers unchanged *)
Theorem C09_directory_order_invariant : forall t t',
  names_distinct t -> dtree_perm t t' -> get_keywords t = get_keywords t'.
Proof. exact get_keywords_order_invariant. Qed.
Print Assumptions C09_directory_order_invariant.

Theorem C09_registry_order_invariant : forall (D : Type) (m : list (label * list D)) t t' i e,
  names_distinct t -> dtree_perm t t' -> build_registry m t i e = build_registry m t' i e.
Proof. intros D. exact (@build_registry_order_invariant D). Qed.
Print Assumptions C09_registry_order_invariant.

(* set iteration order / duplicates of the words of one file do not matter *)
Theorem C09_word_order_invariant : forall l l', (forall w, In w l <-> In w l') -> sort_uniq l = sort_uniq l'.
Proof. exact sort_uniq_perm_invariant. Qed.
Print Assumptions C09_word_order_invariant.

Theorem C09_lines_order_invariant : forall c c',
  (forall w, w <> [] -> (In w (splitlines c) <-> In w (splitlines c'))) -> keywords_of c = keywords_of c'.
Proof. exact keywords_of_lines_perm. Qed.
Print Assumptions C09_lines_order_invariant.

(* the scan is a function: equal registries (extensionally), depth and data give equal trees *)
Theorem C09_function : forall s1 s2 depth data,
  (forall v, s1 v = s2 v) -> scan s1 depth data = scan s2 depth data.
Proof.
  intros s1 s2 depth data H. unfold scan. destruct (depth <=? 0); [reflexivity|].
  generalize (root_node data). induction (Z.to_nat depth) as [|d IH]; intros n; [reflexivity|].
  assert (E : forall l s, foldM (step (scan_node s1 d)) l s = foldM (step (scan_node s2 d)) l s).
  { induction l as [|h l IHl]; intros s; [reflexivity|]. cbn [foldM].
    assert (Es : step (scan_node s1 d) s h = step (scan_node s2 d) s h).
    { unfold step. destruct (n_en h <=? decode_end s); [reflexivity|].
      destruct (pop_until (n_en h) (cur s) (stack s) (offset s)) as [[[c stk] off]| |]; cbn [bind]; try reflexivity.
      destruct (restates (f_node c) (shift h (- off))); [reflexivity|].
      destruct (is_decoding (n_val (f_node c)) (shift h (- off))); [|reflexivity]. rewrite IH. reflexivity. }
    rewrite Es. destruct (step (scan_node s2 d) s h); cbn [bind]; try reflexivity. apply IHl. }
  assert (F : forall l, mapM (scan_node s1 d) l = mapM (scan_node s2 d) l).
  { induction l as [|x l IHl]; [reflexivity|]. cbn [mapM]. rewrite IH.
    destruct (scan_node s2 d x); cbn [bind]; try reflexivity. rewrite IHl. reflexivity. }
  cbn [scan_node]. unfold results. rewrite H, E, F. reflexivity.
Qed.
Print Assumptions C09_function.

(* non-vacuity: two enumerations of the same directory, words listed in different orders with duplicates *)
Example C09_example :
  get_keywords (Dir [(L"api", L"StrLen" ++ [10]%N ++ L"strlen"); (L"key", L"k")] [(L"z", Dir [(L"n", L"w")] []); (L"d", Dir [] [])])
  = get_keywords (Dir [(L"key", L"k" ++ [13;10]%N ++ L"k"); (L"api", L"strlen" ++ [10;10]%N ++ L"StrLen" ++ [10]%N ++ L"strlen")] [(L"d", Dir [] []); (L"z", Dir [(L"n", L"w")] [])]).
Proof. vm_compute. reflexivity. Qed.
Print Assumptions C09_example.
