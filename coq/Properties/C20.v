(* C20 - JSON serialisation is lossless; equality is structural; summary lines; --replace = flatten. *)
From MD Require Import Lib.Base Model.Node Model.Flatten Model.Json Model.Query.
From MD Require Import Proofs.FlattenProofs Proofs.JsonProofs Proofs.QueryProofs.

Theorem C20_roundtrip : forall t, wf_node t -> as_node (node_to_dict t) = Ok t.
Proof. exact json_roundtrip. Qed.
Print Assumptions C20_roundtrip.

Theorem C20_encoding_injective : forall a b, wf_node a -> wf_node b -> node_to_dict a = node_to_dict b -> a = b.
Proof. exact node_to_dict_injective. Qed.
Print Assumptions C20_encoding_injective.

Theorem C20_hex : forall b, wf_bytes b -> fromhex (hexlify b) = Ok b.
Proof. exact fromhex_hexlify. Qed.
Print Assumptions C20_hex.

(* __eq__ is structural: a difference in any field of any descendant makes two trees unequal *)
Theorem C20_eq_structural : forall a b, node_eqb a b = true <-> a = b.
Proof. exact node_eqb_eq. Qed.
Print Assumptions C20_eq_structural.

(* summary: exactly one line per node below the root, the k-th line belongs to the k-th node in pre-order and is
   built from that node's real ancestor chain *)
Theorem C20_summary_length : forall t, List.length (string_summary t) = count_below t.
Proof. exact summary_length. Qed.
Print Assumptions C20_summary_length.

Theorem C20_summary_preorder : forall t k,
  nth_error (string_summary t) k = option_map chain_line (nth_error (preorder_chains [] t) k) /\
  option_map (hd t) (nth_error (preorder_chains [] t) k) = nth_error (preorder t) k.
Proof. exact summary_preorder. Qed.
Print Assumptions C20_summary_preorder.

Theorem C20_summary_paths : forall n anc ch, In ch (preorder_chains anc n) -> path_to n anc ch.
Proof. exact preorder_chains_paths. Qed.
Print Assumptions C20_summary_paths.

(* the escaped value never contains a line break (for any byte string) *)
Theorem C20_one_line : forall v, ~ In 10%N (py_repr_bytes v) /\ ~ In 13%N (py_repr_bytes v).
Proof. exact repr_one_line. Qed.
Print Assumptions C20_one_line.

(* --replace (squash_replace) equals the flattened tree when no two substituted results overlap *)
Theorem C20_replace_is_flatten : forall n, tidy n -> squash_replace (n_val n) (n_kids n) = flatten n.
Proof. exact squash_replace_is_flatten. Qed.
Print Assumptions C20_replace_is_flatten.

Example C20_example :
  as_node (node_to_dict (Node [] (L"ab") [] 0 2 [Node (L"x") [0; 255]%N (L"o") 0 1 []]))
  = Ok (Node [] (L"ab") [] 0 2 [Node (L"x") [0; 255]%N (L"o") 0 1 []])
  /\ string_summary (Node [] (L"ab") [] 0 2 [Node (L"x") [10; 39]%N (L"o") 0 1 []]) = [L">o/x \n'"].
Proof. vm_compute. split; reflexivity. Qed.
Print Assumptions C20_example.
