(* C18 (registry contents / configuration) and C09 (order-independence) for Model/Registry.v.
   Lemmas and theorems only; the model is in Model/Registry.v. *)
From Coq Require Import Sorting.Permutation Sorting.Sorted.
From MD Require Import Lib.Base Model.Node Model.Registry Generated.RegistryTable.

Local Open Scope N_scope.

(* ================================================================== *)
(* 1. lex_ltb is a strict total order on list N                        *)
(* ================================================================== *)

Lemma lex_ltb_irrefl a : lex_ltb a a = false.
Proof.
  induction a as [|x a IH]; cbn [lex_ltb]; [reflexivity|].
  rewrite N.ltb_irrefl. exact IH.
Qed.

Lemma lex_ltb_trans a b c : lex_ltb a b = true -> lex_ltb b c = true -> lex_ltb a c = true.
Proof.
  revert b c; induction a as [|x a IH]; intros [|y b] [|z c]; cbn [lex_ltb]; try congruence.
  destruct (x <? y) eqn:Exy; destruct (y <? x) eqn:Eyx;
  destruct (y <? z) eqn:Eyz; destruct (z <? y) eqn:Ezy;
  destruct (x <? z) eqn:Exz; destruct (z <? x) eqn:Ezx;
  rewrite ?N.ltb_lt, ?N.ltb_ge in *; try congruence; try lia.
  apply IH.
Qed.

Lemma lex_ltb_asym a b : lex_ltb a b = true -> lex_ltb b a = false.
Proof.
  intros H. destruct (lex_ltb b a) eqn:E; [|reflexivity].
  pose proof (lex_ltb_trans _ _ _ H E) as K. rewrite lex_ltb_irrefl in K. discriminate.
Qed.

(* trichotomy *)
Lemma lex_ltb_total a b : lex_ltb a b = false -> lex_ltb b a = false -> a = b.
Proof.
  revert b; induction a as [|x a IH]; intros [|y b]; cbn [lex_ltb]; try congruence.
  destruct (x <? y) eqn:Exy; destruct (y <? x) eqn:Eyx; try congruence.
  rewrite N.ltb_ge in *. intros H1 H2. assert (x = y) by lia. subst y.
  f_equal. apply IH; assumption.
Qed.

Lemma lex_ltb_trichotomy a b :
  (lex_ltb a b = true /\ beqb a b = false /\ lex_ltb b a = false) \/
  (lex_ltb a b = false /\ beqb a b = true /\ lex_ltb b a = false) \/
  (lex_ltb a b = false /\ beqb a b = false /\ lex_ltb b a = true).
Proof.
  destruct (lex_ltb a b) eqn:E1.
  - left. split; [reflexivity|]. split; [|apply lex_ltb_asym; exact E1].
    apply beqb_neq. intros ->. rewrite lex_ltb_irrefl in E1. discriminate.
  - destruct (lex_ltb b a) eqn:E2.
    + right; right. split; [reflexivity|]. split; [|reflexivity].
      apply beqb_neq. intros ->. rewrite lex_ltb_irrefl in E2. discriminate.
    + right; left. split; [reflexivity|]. split; [|reflexivity].
      apply beqb_eq. apply lex_ltb_total; assumption.
Qed.

Definition lex_lt (a b : list N) : Prop := lex_ltb a b = true.

(* ================================================================== *)
(* 2. strictly sorted lists are determined by their set of elements    *)
(* ================================================================== *)

Section SortedUnique.
  Context {A : Type} (R : A -> A -> Prop).
  Hypothesis R_irrefl : forall x, ~ R x x.
  Hypothesis R_trans : forall x y z, R x y -> R y z -> R x z.

  Lemma strongly_sorted_unique (l1 l2 : list A) :
    StronglySorted R l1 -> StronglySorted R l2 ->
    (forall x, In x l1 <-> In x l2) -> l1 = l2.
  Proof.
    revert l2; induction l1 as [|a l1 IH]; intros [|b l2] S1 S2 Hin.
    - reflexivity.
    - exfalso. apply (proj2 (Hin b)). left; reflexivity.
    - exfalso. apply (proj1 (Hin a)). left; reflexivity.
    - apply StronglySorted_inv in S1. destruct S1 as [S1 F1].
      apply StronglySorted_inv in S2. destruct S2 as [S2 F2].
      rewrite Forall_forall in F1, F2.
      assert (Eab : a = b).
      { destruct (proj1 (Hin a) (or_introl eq_refl)) as [E|Ha]; [symmetry; exact E|].
        destruct (proj2 (Hin b) (or_introl eq_refl)) as [E|Hb]; [exact E|].
        exfalso. apply (R_irrefl a). apply R_trans with b; [apply F1; exact Hb | apply F2; exact Ha]. }
      subst b. f_equal. apply IH; try assumption.
      intros x; split; intros Hx.
      + destruct (proj1 (Hin x) (or_intror Hx)) as [E|K]; [|exact K].
        subst x. exfalso. apply (R_irrefl a). apply F1; exact Hx.
      + destruct (proj2 (Hin x) (or_intror Hx)) as [E|K]; [|exact K].
        subst x. exfalso. apply (R_irrefl a). apply F2; exact Hx.
  Qed.

  Lemma strongly_sorted_NoDup (l : list A) : StronglySorted R l -> NoDup l.
  Proof.
    induction l as [|a l IH]; intros S; [constructor|].
    apply StronglySorted_inv in S. destruct S as [S F]. constructor; [|apply IH; exact S].
    intros Ha. rewrite Forall_forall in F. apply (R_irrefl a). apply F; exact Ha.
  Qed.
End SortedUnique.

(* ================================================================== *)
(* 3. sort_uniq  ( sorted(set(...)) )                                  *)
(* ================================================================== *)

Lemma insert_uniq_in x l w : In w (insert_uniq x l) <-> w = x \/ In w l.
Proof.
  induction l as [|y l IH]; cbn [insert_uniq].
  - cbn [In]. intuition.
  - destruct (lex_ltb x y) eqn:E1.
    + cbn [In]. intuition.
    + destruct (beqb x y) eqn:E2.
      * apply beqb_eq in E2. subst y. cbn [In]. intuition.
      * cbn [In]. rewrite IH. intuition.
Qed.

Lemma insert_uniq_sorted x l : StronglySorted lex_lt l -> StronglySorted lex_lt (insert_uniq x l).
Proof.
  induction l as [|y l IH]; intros S; cbn [insert_uniq].
  - constructor; constructor.
  - destruct (lex_ltb x y) eqn:E1.
    + constructor; [exact S|].
      apply StronglySorted_inv in S. destruct S as [S F].
      constructor; [exact E1|].
      rewrite Forall_forall in *. intros z Hz. apply lex_ltb_trans with y; [exact E1 | apply F; exact Hz].
    + destruct (beqb x y) eqn:E2; [exact S|].
      apply StronglySorted_inv in S. destruct S as [S F].
      constructor; [apply IH; exact S|].
      rewrite Forall_forall in *. intros z Hz. apply insert_uniq_in in Hz. destruct Hz as [->|Hz]; [|apply F; exact Hz].
      destruct (lex_ltb_trichotomy x y) as [[K _]|[[_ [K _]]|[_ [_ K]]]]; [congruence|congruence|exact K].
Qed.

Theorem sort_uniq_in l w : In w (sort_uniq l) <-> In w l.
Proof.
  induction l as [|x l IH]; cbn [sort_uniq fold_right]; [tauto|].
  fold (sort_uniq l). rewrite insert_uniq_in, IH. cbn [In]. intuition.
Qed.

Theorem sort_uniq_sorted l : StronglySorted lex_lt (sort_uniq l).
Proof.
  induction l as [|x l IH]; cbn [sort_uniq fold_right]; [constructor|].
  apply insert_uniq_sorted. exact IH.
Qed.

Lemma lex_lt_irrefl x : ~ lex_lt x x.
Proof. unfold lex_lt. rewrite lex_ltb_irrefl. discriminate. Qed.

Lemma lex_lt_trans x y z : lex_lt x y -> lex_lt y z -> lex_lt x z.
Proof. apply lex_ltb_trans. Qed.

Theorem sort_uniq_NoDup l : NoDup (sort_uniq l).
Proof. apply (strongly_sorted_NoDup lex_lt lex_lt_irrefl). apply sort_uniq_sorted. Qed.

(* C09: same set of words, any order / multiplicity *)
Theorem sort_uniq_perm_invariant l l' :
  (forall w, In w l <-> In w l') -> sort_uniq l = sort_uniq l'.
Proof.
  intros H. apply (strongly_sorted_unique lex_lt lex_lt_irrefl lex_lt_trans); try apply sort_uniq_sorted.
  intros w. rewrite !sort_uniq_in. apply H.
Qed.

Corollary sort_uniq_Permutation l l' : Permutation l l' -> sort_uniq l = sort_uniq l'.
Proof.
  intros P. apply sort_uniq_perm_invariant. intros w; split; apply Permutation_in; [exact P | symmetry; exact P].
Qed.

Corollary sort_uniq_dup l : sort_uniq (l ++ l) = sort_uniq l.
Proof. apply sort_uniq_perm_invariant. intros w. rewrite in_app_iff. tauto. Qed.

Corollary sort_uniq_idem l : sort_uniq (sort_uniq l) = sort_uniq l.
Proof. apply sort_uniq_perm_invariant. intros w. apply sort_uniq_in. Qed.

(* ================================================================== *)
(* 4. sort_named  ( dirs.sort() / sorted(files) )                      *)
(* ================================================================== *)

Definition name_lt {A} (x y : label * A) : Prop := lex_ltb (fst x) (fst y) = true.

Lemma name_lt_irrefl {A} (x : label * A) : ~ name_lt x x.
Proof. unfold name_lt. rewrite lex_ltb_irrefl. discriminate. Qed.

Lemma name_lt_trans {A} (x y z : label * A) : name_lt x y -> name_lt y z -> name_lt x z.
Proof. apply lex_ltb_trans. Qed.

Lemma insert_named_perm {A} (x : label * A) l : Permutation (insert_named x l) (x :: l).
Proof.
  induction l as [|y l IH]; cbn [insert_named]; [apply Permutation_refl|].
  destruct (lex_ltb (fst x) (fst y)); [apply Permutation_refl|].
  eapply perm_trans; [apply perm_skip; exact IH | apply perm_swap].
Qed.

Theorem sort_named_perm {A} (l : list (label * A)) : Permutation (sort_named l) l.
Proof.
  induction l as [|x l IH]; cbn [sort_named fold_right]; [constructor|].
  fold (sort_named l). eapply perm_trans; [apply insert_named_perm | apply perm_skip; exact IH].
Qed.

Lemma insert_named_sorted {A} (x : label * A) l :
  ~ In (fst x) (map fst l) -> StronglySorted name_lt l -> StronglySorted name_lt (insert_named x l).
Proof.
  induction l as [|y l IH]; intros Hn S; cbn [insert_named].
  - constructor; constructor.
  - apply StronglySorted_inv in S. destruct S as [S F].
    destruct (lex_ltb (fst x) (fst y)) eqn:E1.
    + constructor; [constructor; assumption|].
      constructor; [exact E1|].
      rewrite Forall_forall in *. intros z Hz. apply name_lt_trans with y; [exact E1 | apply F; exact Hz].
    + constructor.
      * apply IH; [|exact S]. intros K. apply Hn. right. exact K.
      * rewrite Forall_forall in *. intros z Hz.
        apply (Permutation_in _ (insert_named_perm x l)) in Hz. destruct Hz as [<-|Hz]; [|apply F; exact Hz].
        unfold name_lt.
        destruct (lex_ltb_trichotomy (fst x) (fst y)) as [[K _]|[[_ [K _]]|[_ [_ K]]]]; [congruence| |exact K].
        apply beqb_eq in K. exfalso. apply Hn. left. symmetry. exact K.
Qed.

Theorem sort_named_sorted {A} (l : list (label * A)) :
  NoDup (map fst l) -> StronglySorted name_lt (sort_named l).
Proof.
  induction l as [|x l IH]; intros ND; cbn [sort_named fold_right]; [constructor|].
  fold (sort_named l). cbn [map] in ND. inversion ND as [|? ? Hn ND']; subst.
  apply insert_named_sorted; [|apply IH; exact ND'].
  intros K. apply Hn. eapply Permutation_in; [|exact K].
  apply Permutation_map. apply sort_named_perm.
Qed.

(* C09: names within one directory are distinct, so the enumeration order is irrelevant *)
Theorem sort_named_perm_invariant {A} (l l' : list (label * A)) :
  NoDup (map fst l) -> Permutation l l' -> sort_named l = sort_named l'.
Proof.
  intros ND P.
  apply (strongly_sorted_unique name_lt name_lt_irrefl name_lt_trans).
  - apply sort_named_sorted; exact ND.
  - apply sort_named_sorted. eapply Permutation_NoDup; [|exact ND]. apply Permutation_map; exact P.
  - intros x; split; intros H.
    + apply (Permutation_in _ (Permutation_sym (sort_named_perm l'))).
      apply (Permutation_in _ P). apply (Permutation_in _ (sort_named_perm l)). exact H.
    + apply (Permutation_in _ (Permutation_sym (sort_named_perm l))).
      apply (Permutation_in _ (Permutation_sym P)). apply (Permutation_in _ (sort_named_perm l')). exact H.
Qed.

Lemma sort_named_map_fst {A} (l : list (label * A)) : Permutation (map fst (sort_named l)) (map fst l).
Proof. apply Permutation_map. apply sort_named_perm. Qed.

(* ================================================================== *)
(* 5. get_analyzers  (C18)                                             *)
(* ================================================================== *)

Lemma mem_label_spec x l : mem_label x l = true <-> In x l.
Proof.
  unfold mem_label. rewrite existsb_exists. split.
  - intros [y [Hy E]]. apply beqb_eq in E. subst y. exact Hy.
  - intros H. exists x. split; [exact H | apply beqb_refl].
Qed.

Lemma selected_spec inc exc m :
  selected inc exc m = true <-> (inc = [] \/ In m inc) /\ ~ In m exc.
Proof.
  unfold selected. rewrite andb_true_iff, negb_true_iff.
  assert (Hexc : mem_label m exc = false <-> ~ In m exc).
  { rewrite <- mem_label_spec. destruct (mem_label m exc); split; congruence. }
  rewrite Hexc. destruct inc as [|i inc].
  - intuition.
  - rewrite mem_label_spec. intuition discriminate.
Qed.

Theorem get_analyzers_spec {D} (modules : list (label * list D)) inc exc d :
  In d (get_analyzers modules inc exc) <->
  exists m ds, In (m, ds) modules /\ In d ds /\ (inc = [] \/ In m inc) /\ ~ In m exc.
Proof.
  unfold get_analyzers. rewrite in_flat_map. split.
  - intros [[m ds] [Hm Hd]]. cbn [fst snd] in Hd.
    destruct (selected inc exc m) eqn:E; [|destruct Hd].
    apply selected_spec in E. exists m, ds. tauto.
  - intros [m [ds [Hm [Hd [Hi He]]]]]. exists (m, ds). split; [exact Hm|]. cbn [fst snd].
    replace (selected inc exc m) with true; [exact Hd|].
    symmetry. apply selected_spec. tauto.
Qed.

Inductive subseq {A} : list A -> list A -> Prop :=
| subseq_nil : subseq [] []
| subseq_skip x l1 l2 : subseq l1 l2 -> subseq l1 (x :: l2)
| subseq_keep x l1 l2 : subseq l1 l2 -> subseq (x :: l1) (x :: l2).

Lemma subseq_refl {A} (l : list A) : subseq l l.
Proof. induction l; constructor; assumption. Qed.

Lemma subseq_nil_l {A} (l : list A) : subseq [] l.
Proof. induction l; constructor; assumption. Qed.

Lemma subseq_app {A} (a b c d : list A) : subseq a b -> subseq c d -> subseq (a ++ c) (b ++ d).
Proof. intros H1 H2. induction H1; cbn [app]; try constructor; assumption. Qed.

Lemma subseq_In {A} (a b : list A) x : subseq a b -> In x a -> In x b.
Proof. intros H; induction H; cbn [In]; intuition. Qed.

Theorem get_analyzers_all {D} (modules : list (label * list D)) :
  get_analyzers modules [] [] = concat (map snd modules).
Proof.
  unfold get_analyzers. rewrite flat_map_concat_map. reflexivity.
Qed.

(* filtering never reorders: the selected decoders appear in the order of the unfiltered registry *)
Theorem get_analyzers_subseq {D} (modules : list (label * list D)) inc exc :
  subseq (get_analyzers modules inc exc) (get_analyzers modules [] []).
Proof.
  unfold get_analyzers. induction modules as [|[m ds] ms IH]; cbn [flat_map]; [constructor|].
  apply subseq_app; [|exact IH]. cbn [fst snd].
  destruct (selected inc exc m); [|apply subseq_nil_l].
  cbn. apply subseq_refl.
Qed.

(* whole modules are taken or dropped *)
Theorem get_analyzers_cons {D} m (ds : list D) ms inc exc :
  get_analyzers ((m, ds) :: ms) inc exc =
  (if selected inc exc m then ds else []) ++ get_analyzers ms inc exc.
Proof. reflexivity. Qed.

(* a module that is both included and excluded is dropped *)
Theorem excluded_wins inc exc m : In m exc -> selected inc exc m = false.
Proof.
  intros He. destruct (selected inc exc m) eqn:E; [|reflexivity].
  apply selected_spec in E. tauto.
Qed.

(* include = [] (or None) means no include filter *)
Theorem no_include_filter exc m : selected [] exc m = negb (mem_label m exc).
Proof. reflexivity. Qed.

(* ================================================================== *)
(* 6. bytes.splitlines()                                               *)
(* ================================================================== *)

Definition clean (l : bytes) : Prop := ~ In 10 l /\ ~ In 13 l.

Definition strip_lf (d : bytes) : bytes := match d with 10 :: d' => d' | _ => d end.

Lemma splitlines_aux_cr cur d : splitlines_aux cur (13 :: d) = rev cur :: splitlines_aux [] (strip_lf d).
Proof.
  destruct d as [|e d]; [reflexivity|].
  destruct e as [|p]; [reflexivity|].
  destruct p as [p|p|]; try reflexivity;
  destruct p as [p|p|]; try reflexivity;
  destruct p as [p|p|]; try reflexivity;
  destruct p as [p|p|]; try reflexivity.
Qed.

Lemma splitlines_aux_lf cur d : splitlines_aux cur (10 :: d) = rev cur :: splitlines_aux [] d.
Proof. reflexivity. Qed.

Lemma splitlines_aux_other cur c d : c <> 10 -> c <> 13 -> splitlines_aux cur (c :: d) = splitlines_aux (c :: cur) d.
Proof.
  intros H10 H13.
  destruct c as [|p]; [reflexivity|].
  destruct p as [p|p|]; try reflexivity;
  destruct p as [p|p|]; try reflexivity;
  destruct p as [p|p|]; try reflexivity;
  destruct p as [p|p|]; try reflexivity; congruence.
Qed.

Lemma clean_nil : clean [].
Proof. split; intros []. Qed.

Lemma clean_cons c l : clean (c :: l) <-> c <> 10 /\ c <> 13 /\ clean l.
Proof. unfold clean. cbn [In]. intuition. Qed.

Lemma clean_app a b : clean (a ++ b) <-> clean a /\ clean b.
Proof. unfold clean. rewrite !in_app_iff. intuition. Qed.

Lemma splitlines_aux_clean l : forall cur d, clean l -> splitlines_aux cur (l ++ d) = splitlines_aux (rev l ++ cur) d.
Proof.
  induction l as [|c l IH]; intros cur d Hc; [reflexivity|].
  apply clean_cons in Hc. destruct Hc as [H10 [H13 Hc]].
  cbn [app rev]. rewrite splitlines_aux_other by assumption.
  rewrite IH by exact Hc. rewrite <- app_assoc. reflexivity.
Qed.

(* the five defining equations of splitlines *)
Theorem splitlines_nil : splitlines [] = [].
Proof. reflexivity. Qed.

Theorem splitlines_last l : clean l -> l <> [] -> splitlines l = [l].
Proof.
  intros Hc Hne. unfold splitlines. rewrite <- (app_nil_r l) at 1.
  rewrite splitlines_aux_clean by exact Hc. rewrite app_nil_r. cbn [splitlines_aux].
  destruct (rev l) eqn:E.
  - exfalso. apply Hne. rewrite <- (rev_involutive l), E. reflexivity.
  - rewrite <- E, rev_involutive. reflexivity.
Qed.

Theorem splitlines_lf l rest : clean l -> splitlines (l ++ 10 :: rest) = l :: splitlines rest.
Proof.
  intros Hc. unfold splitlines. rewrite splitlines_aux_clean by exact Hc.
  rewrite splitlines_aux_lf, app_nil_r, rev_involutive. reflexivity.
Qed.

Theorem splitlines_cr_any l rest : clean l -> splitlines (l ++ 13 :: rest) = l :: splitlines (strip_lf rest).
Proof.
  intros Hc. unfold splitlines. rewrite splitlines_aux_clean by exact Hc.
  rewrite splitlines_aux_cr, app_nil_r, rev_involutive. reflexivity.
Qed.

Theorem splitlines_crlf l rest : clean l -> splitlines (l ++ 13 :: 10 :: rest) = l :: splitlines rest.
Proof. intros Hc. rewrite splitlines_cr_any by exact Hc. reflexivity. Qed.

Theorem splitlines_cr l rest : clean l -> (forall r, rest <> 10 :: r) -> splitlines (l ++ 13 :: rest) = l :: splitlines rest.
Proof.
  intros Hc Hr. rewrite splitlines_cr_any by exact Hc. f_equal. f_equal.
  destruct rest as [|e rest]; [reflexivity|].
  destruct (N.eq_dec e 10) as [->|Hne]; [exfalso; eapply Hr; reflexivity|].
  destruct e as [|p]; [reflexivity|].
  destruct p as [p|p|]; try reflexivity;
  destruct p as [p|p|]; try reflexivity;
  destruct p as [p|p|]; try reflexivity;
  destruct p as [p|p|]; try reflexivity; congruence.
Qed.

(* every byte string is a clean line, or a clean line followed by a line break and a rest *)
Lemma first_break d :
  clean d \/ exists l c rest, d = l ++ c :: rest /\ clean l /\ (c = 10 \/ c = 13).
Proof.
  induction d as [|a d IH]; [left; apply clean_nil|].
  destruct (N.eq_dec a 10) as [->|H10]; [right; exists [], 10, d; split; [reflexivity|split; [apply clean_nil|tauto]]|].
  destruct (N.eq_dec a 13) as [->|H13]; [right; exists [], 13, d; split; [reflexivity|split; [apply clean_nil|tauto]]|].
  destruct IH as [Hc|[l [c [rest [-> [Hc Hcc]]]]]].
  - left. apply clean_cons. tauto.
  - right. exists (a :: l), c, rest. split; [reflexivity|]. split; [apply clean_cons; tauto | exact Hcc].
Qed.

Inductive eol : bytes -> Prop :=
| eol_lf : eol [10]
| eol_cr : eol [13]
| eol_crlf : eol [13; 10].

(* [joined ls d]: d is the lines ls, each followed by a line break; the last line may lack its line break
   (and is then non-empty) *)
Inductive joined : list bytes -> bytes -> Prop :=
| joined_nil : joined [] []
| joined_last l : l <> [] -> joined [l] l
| joined_cons l sep ls rest : eol sep -> joined ls rest -> joined (l :: ls) (l ++ sep ++ rest).

Lemma strip_lf_length d : (List.length (strip_lf d) <= List.length d)%nat.
Proof.
  destruct d as [|e d]; [apply le_n|].
  destruct (N.eq_dec e 10) as [->|Hne]; [cbn; auto|].
  replace (strip_lf (e :: d)) with (e :: d); [apply le_n|].
  destruct e as [|p]; [reflexivity|].
  destruct p as [p|p|]; try reflexivity;
  destruct p as [p|p|]; try reflexivity;
  destruct p as [p|p|]; try reflexivity;
  destruct p as [p|p|]; try reflexivity; congruence.
Qed.

Lemma strip_lf_cases d : (exists r, d = 10 :: r /\ strip_lf d = r) \/ ((forall r, d <> 10 :: r) /\ strip_lf d = d).
Proof.
  destruct d as [|e d]; [right; split; [intros r; discriminate | reflexivity]|].
  destruct (N.eq_dec e 10) as [->|Hne]; [left; exists d; split; reflexivity|].
  right. split; [intros r E; injection E as E1 E2; contradiction|].
  destruct e as [|p]; [reflexivity|].
  destruct p as [p|p|]; try reflexivity;
  destruct p as [p|p|]; try reflexivity;
  destruct p as [p|p|]; try reflexivity;
  destruct p as [p|p|]; try reflexivity; congruence.
Qed.

Lemma splitlines_spec_n n : forall d, (List.length d <= n)%nat ->
  joined (splitlines d) d /\ Forall clean (splitlines d).
Proof.
  induction n as [|n IH]; intros d Hlen.
  - destruct d; [|cbn in Hlen; lia]. split; constructor.
  - destruct (first_break d) as [Hc|[l [c [rest [-> [Hc Hcc]]]]]].
    + destruct d as [|a d']; [split; constructor|].
      rewrite splitlines_last by (assumption || discriminate).
      split; [constructor; discriminate | constructor; [exact Hc | constructor]].
    + rewrite app_length in Hlen. cbn [List.length] in Hlen.
      destruct Hcc as [->| ->].
      * rewrite splitlines_lf by exact Hc.
        destruct (IH rest ltac:(lia)) as [J F].
        split; [|constructor; assumption].
        change (l ++ 10 :: rest) with (l ++ [10] ++ rest). constructor; [constructor | exact J].
      * rewrite splitlines_cr_any by exact Hc.
        pose proof (strip_lf_length rest) as Hs.
        destruct (IH (strip_lf rest) ltac:(lia)) as [J F].
        split; [|constructor; assumption].
        destruct (strip_lf_cases rest) as [[r [-> E]]|[_ E]]; rewrite E in *.
        -- change (l ++ 13 :: 10 :: r) with (l ++ [13; 10] ++ r). constructor; [constructor | exact J].
        -- change (l ++ 13 :: rest) with (l ++ [13] ++ rest). constructor; [constructor | exact J].
Qed.

(* C18: the lines joined back with their line breaks give the content; no line contains 10 or 13 *)
Theorem splitlines_spec d : joined (splitlines d) d /\ Forall clean (splitlines d).
Proof. apply (splitlines_spec_n (List.length d)). apply le_n. Qed.

Corollary splitlines_no_eol d l : In l (splitlines d) -> ~ In 10 l /\ ~ In 13 l.
Proof.
  intros H. destruct (splitlines_spec d) as [_ F]. rewrite Forall_forall in F. apply F. exact H.
Qed.

(* joined really reconstructs the content: concatenating lines and separators *)
Lemma joined_bytes ls d : joined ls d -> forall c, In c d -> c = 10 \/ c = 13 \/ exists l, In l ls /\ In c l.
Proof.
  intros J; induction J as [|l Hne|l sep ls rest He J IH]; intros c Hc.
  - destruct Hc.
  - right; right. exists l. split; [left; reflexivity | exact Hc].
  - rewrite !in_app_iff in Hc. destruct Hc as [Hc|[Hc|Hc]].
    + right; right. exists l. split; [left; reflexivity | exact Hc].
    + destruct He; cbn [In] in Hc; intuition.
    + destruct (IH c Hc) as [K|[K|[l' [K1 K2]]]]; [tauto|tauto|].
      right; right. exists l'. split; [right; exact K1 | exact K2].
Qed.

(* text written with "\n" after every line reads back exactly *)
Definition unlines (ls : list bytes) : bytes := flat_map (fun l => l ++ [10]) ls.

Theorem splitlines_unlines ls : Forall clean ls -> splitlines (unlines ls) = ls.
Proof.
  induction 1 as [|l ls Hc F IH]; [reflexivity|].
  cbn [unlines flat_map]. rewrite <- app_assoc. cbn [app].
  rewrite splitlines_lf by exact Hc. f_equal. exact IH.
Qed.

(* ================================================================== *)
(* 7. keywords_of  ( sorted(set(content.splitlines()) - {b""}) )       *)
(* ================================================================== *)

Definition nonblank (w : bytes) : bool := match w with [] => false | _ => true end.

Lemma nonblank_spec w : nonblank w = true <-> w <> [].
Proof. destruct w; cbn; split; congruence. Qed.

Theorem keywords_of_spec content w :
  In w (keywords_of content) <-> In w (splitlines content) /\ w <> [].
Proof.
  unfold keywords_of. rewrite sort_uniq_in, filter_In. fold (nonblank w). rewrite nonblank_spec. tauto.
Qed.

Theorem keywords_of_sorted c : StronglySorted lex_lt (keywords_of c).
Proof. apply sort_uniq_sorted. Qed.

Theorem keywords_of_NoDup c : NoDup (keywords_of c).
Proof. apply sort_uniq_NoDup. Qed.

Corollary keywords_of_nonblank_clean c w : In w (keywords_of c) -> w <> [] /\ ~ In 10 w /\ ~ In 13 w.
Proof.
  intros H. apply keywords_of_spec in H. destruct H as [H Hne].
  split; [exact Hne | apply (splitlines_no_eol c); exact H].
Qed.

(* C09: permuting / duplicating lines, adding or removing blank lines, changing the kind of line break:
   only the SET of non-blank lines matters *)
Theorem keywords_of_lines_perm c c' :
  (forall w, w <> [] -> (In w (splitlines c) <-> In w (splitlines c'))) -> keywords_of c = keywords_of c'.
Proof.
  intros H. unfold keywords_of. apply sort_uniq_perm_invariant.
  intros w. rewrite !filter_In. fold (nonblank w). rewrite nonblank_spec.
  split; intros [H1 H2]; (split; [apply (H w H2); exact H1 | exact H2]).
Qed.

Corollary keywords_of_unlines_set ls ls' :
  Forall clean ls -> Forall clean ls' ->
  (forall w, w <> [] -> (In w ls <-> In w ls')) -> keywords_of (unlines ls) = keywords_of (unlines ls').
Proof.
  intros F F' H. apply keywords_of_lines_perm. rewrite !splitlines_unlines by assumption. exact H.
Qed.

Corollary keywords_of_unlines_perm ls ls' :
  Forall clean ls -> Permutation ls ls' -> keywords_of (unlines ls) = keywords_of (unlines ls').
Proof.
  intros F P. apply keywords_of_unlines_set; [exact F | |].
  - rewrite Forall_forall in *. intros x Hx. apply F. apply (Permutation_in _ (Permutation_sym P)). exact Hx.
  - intros w _. split; apply Permutation_in; [exact P | symmetry; exact P].
Qed.

Corollary keywords_of_unlines_dup ls : Forall clean ls -> keywords_of (unlines (ls ++ ls)) = keywords_of (unlines ls).
Proof.
  intros F. apply keywords_of_unlines_set; [apply Forall_app; split; exact F | exact F |].
  intros w _. rewrite in_app_iff. tauto.
Qed.

(* ================================================================== *)
(* 8. get_keywords                                                     *)
(* ================================================================== *)

Fixpoint tree_files (t : dtree) : list (label * bytes) :=
  match t with
  | Dir files subdirs => files ++ flat_map (fun nd => tree_files (snd nd)) subdirs
  end.

Definition searcher_of (f : label * bytes) : list (label * list bytes) :=
  match keywords_of (snd f) with [] => [] | ws => [(fst f, ws)] end.

Definition has_keywords (f : label * bytes) : bool :=
  match keywords_of (snd f) with [] => false | _ => true end.

Fixpoint dtree_ind' (P : dtree -> Prop)
  (H : forall files subs, Forall (fun nd => P (snd nd)) subs -> P (Dir files subs)) (t : dtree) : P t :=
  match t with
  | Dir files subs =>
      H files subs ((fix go (l : list (label * dtree)) : Forall (fun nd => P (snd nd)) l :=
                       match l with
                       | [] => Forall_nil _
                       | nd :: l' => Forall_cons nd (dtree_ind' P H (snd nd)) (go l')
                       end) subs)
  end.

Definition sub_keywords (nd : label * dtree) : label * list (label * list bytes) := (fst nd, get_keywords (snd nd)).

Lemma get_keywords_unfold files subs :
  get_keywords (Dir files subs) =
  file_searchers files ++ concat (map snd (sort_named (map sub_keywords subs))).
Proof.
  cbn [get_keywords]. f_equal. f_equal. f_equal. f_equal.
  induction subs as [|[n d] l IH]; [reflexivity|].
  cbn [map]. unfold sub_keywords at 1. cbn [fst snd]. f_equal. exact IH.
Qed.

Lemma file_searchers_eq files : file_searchers files = flat_map searcher_of (sort_named files).
Proof. reflexivity. Qed.

(* the searchers are exactly (up to order) one per file of the tree with a non-empty keyword set *)
Theorem get_keywords_perm t : Permutation (get_keywords t) (flat_map searcher_of (tree_files t)).
Proof.
  induction t as [files subs IH] using dtree_ind'.
  rewrite get_keywords_unfold. cbn [tree_files]. rewrite flat_map_app.
  apply Permutation_app.
  - rewrite file_searchers_eq. apply Permutation_flat_map. apply sort_named_perm.
  - rewrite <- flat_map_concat_map.
    eapply perm_trans; [apply Permutation_flat_map; apply sort_named_perm|].
    induction IH as [|nd l Hnd F IHl]; [constructor|].
    cbn [map flat_map]. rewrite flat_map_app. apply Permutation_app; [exact Hnd | exact IHl].
Qed.

Lemma searcher_of_in f name ws :
  In (name, ws) (searcher_of f) <-> name = fst f /\ ws = keywords_of (snd f) /\ ws <> [].
Proof.
  unfold searcher_of. destruct (keywords_of (snd f)) as [|w l] eqn:E.
  - split; [intros [] | intros [_ [-> K]]; congruence].
  - cbn [In]. split.
    + intros [K|[]]. injection K as <- <-. repeat split. discriminate.
    + intros [-> [-> _]]. left. reflexivity.
Qed.

(* C18 *)
Theorem get_keywords_spec t name ws :
  In (name, ws) (get_keywords t) <->
  exists content, In (name, content) (tree_files t) /\ ws = keywords_of content /\ ws <> [].
Proof.
  split.
  - intros H. apply (Permutation_in _ (get_keywords_perm t)) in H.
    apply in_flat_map in H. destruct H as [[n c] [Hf Hs]].
    apply searcher_of_in in Hs. cbn [fst snd] in Hs. destruct Hs as [-> [-> Hne]].
    exists c. repeat split; assumption.
  - intros [c [Hf [-> Hne]]].
    apply (Permutation_in _ (Permutation_sym (get_keywords_perm t))).
    apply in_flat_map. exists (name, c). split; [exact Hf|].
    apply searcher_of_in. cbn [fst snd]. repeat split. exact Hne.
Qed.

Lemma searchers_length l : List.length (flat_map searcher_of l) = List.length (filter has_keywords l).
Proof.
  induction l as [|f l IH]; [reflexivity|].
  cbn [flat_map filter]. rewrite app_length, IH.
  unfold searcher_of, has_keywords. destruct (keywords_of (snd f)); reflexivity.
Qed.

Theorem get_keywords_length t :
  List.length (get_keywords t) = List.length (filter has_keywords (tree_files t)).
Proof. rewrite (Permutation_length (get_keywords_perm t)). apply searchers_length. Qed.

(* every searcher has a non-empty, duplicate-free, strictly sorted word list without blank words *)
Corollary get_keywords_words t name ws :
  In (name, ws) (get_keywords t) ->
  ws <> [] /\ NoDup ws /\ StronglySorted lex_lt ws /\ Forall (fun w => w <> [] /\ ~ In 10 w /\ ~ In 13 w) ws.
Proof.
  intros H. apply get_keywords_spec in H. destruct H as [c [_ [-> Hne]]].
  split; [exact Hne|]. split; [apply keywords_of_NoDup|]. split; [apply keywords_of_sorted|].
  apply Forall_forall. intros w Hw. apply (keywords_of_nonblank_clean c). exact Hw.
Qed.

(* ================================================================== *)
(* 9. build_registry                                                   *)
(* ================================================================== *)

Definition kw_part {D} (kwdir : dtree) : list (searcher D) :=
  map (fun kw => KeywordSearch (fst kw) (snd kw)) (get_keywords kwdir).
Definition dec_part {D} (modules : list (label * list D)) (inc exc : list label) : list (searcher D) :=
  map DecoderFn (get_analyzers modules inc exc).

Theorem build_registry_split {D} (modules : list (label * list D)) kwdir inc exc :
  build_registry modules kwdir inc exc = kw_part kwdir ++ dec_part modules inc exc
  /\ firstn (List.length (get_keywords kwdir)) (build_registry modules kwdir inc exc) = kw_part kwdir
  /\ skipn (List.length (get_keywords kwdir)) (build_registry modules kwdir inc exc) = dec_part modules inc exc.
Proof.
  assert (E : List.length (get_keywords kwdir) = List.length (@kw_part D kwdir)) by (unfold kw_part; rewrite map_length; reflexivity).
  split; [reflexivity|]. change (build_registry modules kwdir inc exc) with (kw_part kwdir ++ dec_part modules inc exc).
  rewrite E. split.
  - rewrite firstn_app, Nat.sub_diag, firstn_all. cbn [firstn]. apply app_nil_r.
  - rewrite skipn_app, Nat.sub_diag, skipn_all. reflexivity.
Qed.

(* include / exclude only change the decoder part; the keyword directory only the keyword part *)
Theorem build_registry_filter_only_decoders {D} (modules : list (label * list D)) kwdir inc exc inc' exc' :
  firstn (List.length (get_keywords kwdir)) (build_registry modules kwdir inc exc) =
  firstn (List.length (get_keywords kwdir)) (build_registry modules kwdir inc' exc').
Proof.
  destruct (build_registry_split modules kwdir inc exc) as [_ [-> _]].
  destruct (build_registry_split modules kwdir inc' exc') as [_ [-> _]]. reflexivity.
Qed.

Theorem build_registry_kwdir_only_keywords {D} (modules : list (label * list D)) kwdir kwdir' inc exc :
  skipn (List.length (get_keywords kwdir)) (build_registry modules kwdir inc exc) =
  skipn (List.length (get_keywords kwdir')) (build_registry modules kwdir' inc exc).
Proof.
  destruct (build_registry_split modules kwdir inc exc) as [_ [_ ->]].
  destruct (build_registry_split modules kwdir' inc exc) as [_ [_ ->]]. reflexivity.
Qed.

Theorem build_registry_in {D} (modules : list (label * list D)) kwdir inc exc s :
  In s (build_registry modules kwdir inc exc) <->
  (exists name ws, s = KeywordSearch name ws /\ In (name, ws) (get_keywords kwdir)) \/
  (exists d, s = DecoderFn d /\ In d (get_analyzers modules inc exc)).
Proof.
  unfold build_registry. rewrite in_app_iff, !in_map_iff. split.
  - intros [[[n ws] [<- H]]|[d [<- H]]]; [left; exists n, ws; split; [reflexivity | exact H] | right; exists d; split; [reflexivity | exact H]].
  - intros [[n [ws [-> H]]]|[d [-> H]]]; [left; exists (n, ws); split; [reflexivity | exact H] | right; exists d; split; [reflexivity | exact H]].
Qed.

Theorem build_registry_length {D} (modules : list (label * list D)) kwdir inc exc :
  List.length (build_registry modules kwdir inc exc) =
  (List.length (filter has_keywords (tree_files kwdir)) + List.length (get_analyzers modules inc exc))%nat.
Proof.
  unfold build_registry. rewrite app_length, !map_length, get_keywords_length. reflexivity.
Qed.

(* ================================================================== *)
(* 10. C09: the keyword directory may be enumerated in any order       *)
(* ================================================================== *)

Inductive names_distinct : dtree -> Prop :=
| names_distinct_intro files subs :
    NoDup (map fst files) -> NoDup (map fst subs) ->
    Forall (fun nd => names_distinct (snd nd)) subs ->
    names_distinct (Dir files subs).

(* same directory tree, listed in a different order at every level: the files of a directory are permuted,
   and its sub-directories are permuted after being (recursively) re-listed under the same names *)
Inductive dtree_perm : dtree -> dtree -> Prop :=
| dtree_perm_intro files files' subs mid subs' :
    Permutation files files' ->
    Forall2 (fun a b => fst a = fst b /\ dtree_perm (snd a) (snd b)) subs mid ->
    Permutation mid subs' ->
    dtree_perm (Dir files subs) (Dir files' subs').

Lemma dtree_perm_refl t : dtree_perm t t.
Proof.
  induction t as [files subs IH] using dtree_ind'.
  apply dtree_perm_intro with (mid := subs); [apply Permutation_refl | | apply Permutation_refl].
  induction IH as [|nd l Hnd F IHl]; constructor; [split; [reflexivity | exact Hnd] | exact IHl].
Qed.

(* sanity: related trees contain the same files *)
Lemma dtree_perm_files t : forall t', dtree_perm t t' -> Permutation (tree_files t) (tree_files t').
Proof.
  induction t as [files subs IH] using dtree_ind'. intros t' HP.
  inversion HP as [f f' s mid subs' Pf F2 Ps]; subst. cbn [tree_files].
  apply Permutation_app; [exact Pf|].
  apply perm_trans with (flat_map (fun nd => tree_files (snd nd)) mid); [|apply Permutation_flat_map; exact Ps].
  clear HP Ps. induction F2 as [|a b l l' [_ Hab] F2 IHF]; [constructor|].
  inversion IH as [|? ? Ha IHt]; subst. cbn [flat_map].
  apply Permutation_app; [apply Ha; exact Hab | apply IHF; exact IHt].
Qed.

Theorem get_keywords_order_invariant t : forall t',
  names_distinct t -> dtree_perm t t' -> get_keywords t = get_keywords t'.
Proof.
  induction t as [files subs IH] using dtree_ind'. intros t' ND HP.
  inversion HP as [f f' s mid subs' Pf F2 Ps]; subst.
  inversion ND as [f s NDf NDs NDsub]; subst.
  rewrite !get_keywords_unfold. f_equal.
  - rewrite !file_searchers_eq. f_equal. apply sort_named_perm_invariant; assumption.
  - f_equal. f_equal.
    assert (E : map sub_keywords subs = map sub_keywords mid).
    { clear HP Ps ND NDs. induction F2 as [|a b l l' [Hn Hab] F2 IHF]; [reflexivity|].
      inversion IH as [|? ? Ha IHt]; subst. inversion NDsub as [|? ? Na Nt]; subst.
      cbn [map]. f_equal; [|apply IHF; assumption].
      unfold sub_keywords. rewrite Hn. f_equal. apply Ha; assumption. }
    rewrite E. apply sort_named_perm_invariant; [|apply Permutation_map; exact Ps].
    rewrite <- E. rewrite map_map. cbn [sub_keywords fst]. exact NDs.
Qed.

Corollary build_registry_order_invariant {D} (modules : list (label * list D)) t t' inc exc :
  names_distinct t -> dtree_perm t t' -> build_registry modules t inc exc = build_registry modules t' inc exc.
Proof. intros ND HP. unfold build_registry. rewrite (get_keywords_order_invariant t t' ND HP). reflexivity. Qed.

(* ================================================================== *)
(* 11. test vectors: every expected value below was printed by /venv/bin/python for the same input
   (bytes.splitlines, sorted(set(..)-{b''}), multidecoder.registry.get_keywords on a generated directory tree,
   multidecoder.registry.get_analyzers(include, exclude) as lists of function names)  *)
(* ================================================================== *)
Example py_sl_0 : splitlines [] = []. Proof. vm_compute. reflexivity. Qed.
Example py_sl_1 : splitlines [10%N] = [[]]. Proof. vm_compute. reflexivity. Qed.
Example py_sl_2 : splitlines [13%N] = [[]]. Proof. vm_compute. reflexivity. Qed.
Example py_sl_3 : splitlines [13%N; 10%N] = [[]]. Proof. vm_compute. reflexivity. Qed.
Example py_sl_4 : splitlines [10%N; 13%N] = [[]; []]. Proof. vm_compute. reflexivity. Qed.
Example py_sl_5 : splitlines [97%N] = [[97%N]]. Proof. vm_compute. reflexivity. Qed.
Example py_kw_5 : keywords_of [97%N] = [[97%N]]. Proof. vm_compute. reflexivity. Qed.
Example py_sl_6 : splitlines [97%N; 10%N] = [[97%N]]. Proof. vm_compute. reflexivity. Qed.
Example py_kw_6 : keywords_of [97%N; 10%N] = [[97%N]]. Proof. vm_compute. reflexivity. Qed.
Example py_sl_7 : splitlines [97%N; 13%N; 10%N; 98%N] = [[97%N]; [98%N]]. Proof. vm_compute. reflexivity. Qed.
Example py_kw_7 : keywords_of [97%N; 13%N; 10%N; 98%N] = [[97%N]; [98%N]]. Proof. vm_compute. reflexivity. Qed.
Example py_sl_8 : splitlines [97%N; 10%N; 10%N; 98%N] = [[97%N]; []; [98%N]]. Proof. vm_compute. reflexivity. Qed.
Example py_kw_8 : keywords_of [97%N; 10%N; 10%N; 98%N] = [[97%N]; [98%N]]. Proof. vm_compute. reflexivity. Qed.
Example py_sl_9 : splitlines [13%N; 13%N; 10%N; 10%N] = [[]; []; []]. Proof. vm_compute. reflexivity. Qed.
Example py_kw_9 : keywords_of [13%N; 13%N; 10%N; 10%N] = []. Proof. vm_compute. reflexivity. Qed.
Example py_sl_10 : splitlines [98%N; 10%N; 97%N; 10%N; 98%N; 10%N; 97%N; 13%N] = [[98%N]; [97%N]; [98%N]; [97%N]]. Proof. vm_compute. reflexivity. Qed.
Example py_kw_10 : keywords_of [98%N; 10%N; 97%N; 10%N; 98%N; 10%N; 97%N; 13%N] = [[97%N]; [98%N]]. Proof. vm_compute. reflexivity. Qed.
Example py_sl_11 : splitlines [97%N; 11%N; 98%N; 12%N; 99%N; 28%N; 100%N; 133%N; 101%N] = [[97%N; 11%N; 98%N; 12%N; 99%N; 28%N; 100%N; 133%N; 101%N]]. Proof. vm_compute. reflexivity. Qed.
Example py_kw_11 : keywords_of [97%N; 11%N; 98%N; 12%N; 99%N; 28%N; 100%N; 133%N; 101%N] = [[97%N; 11%N; 98%N; 12%N; 99%N; 28%N; 100%N; 133%N; 101%N]]. Proof. vm_compute. reflexivity. Qed.
Example py_sl_12 : splitlines [97%N; 98%N; 10%N; 97%N; 10%N; 97%N; 98%N; 99%N; 10%N; 10%N; 66%N; 10%N; 0%N; 10%N] = [[97%N; 98%N]; [97%N]; [97%N; 98%N; 99%N]; []; [66%N]; [0%N]]. Proof. vm_compute. reflexivity. Qed.
Example py_kw_12 : keywords_of [97%N; 98%N; 10%N; 97%N; 10%N; 97%N; 98%N; 99%N; 10%N; 10%N; 66%N; 10%N; 0%N; 10%N] = [[0%N]; [66%N]; [97%N]; [97%N; 98%N]; [97%N; 98%N; 99%N]]. Proof. vm_compute. reflexivity. Qed.
Example py_ga_0 : get_analyzers decoder_modules [] [] = [[102%N; 105%N; 110%N; 100%N; 95%N; 66%N; 97%N; 115%N; 101%N; 54%N; 52%N; 68%N; 101%N; 99%N; 111%N; 100%N; 101%N]; [102%N; 105%N; 110%N; 100%N; 95%N; 70%N; 114%N; 111%N; 109%N; 66%N; 97%N; 115%N; 101%N; 54%N; 52%N; 83%N; 116%N; 114%N; 105%N; 110%N; 103%N]; [102%N; 105%N; 110%N; 100%N; 95%N; 97%N; 116%N; 111%N; 98%N]; [102%N; 105%N; 110%N; 100%N; 95%N; 98%N; 97%N; 115%N; 101%N; 54%N; 52%N]; [102%N; 105%N; 110%N; 100%N; 95%N; 99%N; 104%N; 114%N]; [102%N; 105%N; 110%N; 100%N; 95%N; 117%N; 116%N; 102%N; 49%N; 54%N]; [102%N; 105%N; 110%N; 100%N; 95%N; 99%N; 111%N; 110%N; 99%N; 97%N; 116%N]; [102%N; 105%N; 110%N; 100%N; 95%N; 101%N; 120%N; 101%N; 99%N; 117%N; 116%N; 97%N; 98%N; 108%N; 101%N; 95%N; 110%N; 97%N; 109%N; 101%N]; [102%N; 105%N; 110%N; 100%N; 95%N; 108%N; 105%N; 98%N; 114%N; 97%N; 114%N; 121%N]; [102%N; 105%N; 110%N; 100%N; 95%N; 70%N; 114%N; 111%N; 109%N; 72%N; 101%N; 120%N; 83%N; 116%N; 114%N; 105%N; 110%N; 103%N]; [102%N; 105%N; 110%N; 100%N; 95%N; 104%N; 101%N; 120%N]; [102%N; 105%N; 110%N; 100%N; 95%N; 117%N; 110%N; 101%N; 115%N; 99%N; 97%N; 112%N; 101%N]; [102%N; 105%N; 110%N; 100%N; 95%N; 100%N; 111%N; 109%N; 97%N; 105%N; 110%N; 115%N]; [102%N; 105%N; 110%N; 100%N; 95%N; 101%N; 109%N; 97%N; 105%N; 108%N; 115%N]; [102%N; 105%N; 110%N; 100%N; 95%N; 105%N; 112%N; 115%N]; [102%N; 105%N; 110%N; 100%N; 95%N; 117%N; 114%N; 108%N; 115%N]; [102%N; 105%N; 110%N; 100%N; 95%N; 112%N; 97%N; 116%N; 104%N]; [102%N; 105%N; 110%N; 100%N; 95%N; 119%N; 105%N; 110%N; 100%N; 111%N; 119%N; 115%N; 95%N; 112%N; 97%N; 116%N; 104%N]; [102%N; 105%N; 110%N; 100%N; 95%N; 112%N; 101%N; 95%N; 102%N; 105%N; 108%N; 101%N; 115%N]; [102%N; 105%N; 110%N; 100%N; 95%N; 112%N; 111%N; 119%N; 101%N; 114%N; 115%N; 104%N; 101%N; 108%N; 108%N; 95%N; 98%N; 121%N; 116%N; 101%N; 115%N]; [102%N; 105%N; 110%N; 100%N; 95%N; 106%N; 115%N; 95%N; 114%N; 101%N; 103%N; 101%N; 120%N; 95%N; 114%N; 101%N; 112%N; 108%N; 97%N; 99%N; 101%N]; [102%N; 105%N; 110%N; 100%N; 95%N; 112%N; 111%N; 119%N; 101%N; 114%N; 115%N; 104%N; 101%N; 108%N; 108%N; 95%N; 114%N; 101%N; 112%N; 108%N; 97%N; 99%N; 101%N]; [102%N; 105%N; 110%N; 100%N; 95%N; 114%N; 101%N; 112%N; 108%N; 97%N; 99%N; 101%N]; [102%N; 105%N; 110%N; 100%N; 95%N; 118%N; 98%N; 97%N; 95%N; 114%N; 101%N; 112%N; 108%N; 97%N; 99%N; 101%N]; [102%N; 105%N; 110%N; 100%N; 95%N; 114%N; 101%N; 118%N; 101%N; 114%N; 115%N; 101%N]; [102%N; 105%N; 110%N; 100%N; 95%N; 99%N; 109%N; 100%N; 95%N; 115%N; 116%N; 114%N; 105%N; 110%N; 103%N; 115%N]; [102%N; 105%N; 110%N; 100%N; 95%N; 112%N; 111%N; 119%N; 101%N; 114%N; 115%N; 104%N; 101%N; 108%N; 108%N; 95%N; 115%N; 116%N; 114%N; 105%N; 110%N; 103%N; 115%N]; [102%N; 105%N; 110%N; 100%N; 95%N; 99%N; 114%N; 101%N; 97%N; 116%N; 101%N; 111%N; 98%N; 106%N; 101%N; 99%N; 116%N]; [102%N; 105%N; 110%N; 100%N; 95%N; 115%N; 116%N; 114%N; 114%N; 101%N; 118%N; 101%N; 114%N; 115%N; 101%N]; [102%N; 105%N; 110%N; 100%N; 95%N; 120%N; 109%N; 108%N; 95%N; 104%N; 101%N; 120%N]]. Proof. vm_compute. reflexivity. Qed.
Example py_ga_1 : get_analyzers decoder_modules [] [] = [[102%N; 105%N; 110%N; 100%N; 95%N; 66%N; 97%N; 115%N; 101%N; 54%N; 52%N; 68%N; 101%N; 99%N; 111%N; 100%N; 101%N]; [102%N; 105%N; 110%N; 100%N; 95%N; 70%N; 114%N; 111%N; 109%N; 66%N; 97%N; 115%N; 101%N; 54%N; 52%N; 83%N; 116%N; 114%N; 105%N; 110%N; 103%N]; [102%N; 105%N; 110%N; 100%N; 95%N; 97%N; 116%N; 111%N; 98%N]; [102%N; 105%N; 110%N; 100%N; 95%N; 98%N; 97%N; 115%N; 101%N; 54%N; 52%N]; [102%N; 105%N; 110%N; 100%N; 95%N; 99%N; 104%N; 114%N]; [102%N; 105%N; 110%N; 100%N; 95%N; 117%N; 116%N; 102%N; 49%N; 54%N]; [102%N; 105%N; 110%N; 100%N; 95%N; 99%N; 111%N; 110%N; 99%N; 97%N; 116%N]; [102%N; 105%N; 110%N; 100%N; 95%N; 101%N; 120%N; 101%N; 99%N; 117%N; 116%N; 97%N; 98%N; 108%N; 101%N; 95%N; 110%N; 97%N; 109%N; 101%N]; [102%N; 105%N; 110%N; 100%N; 95%N; 108%N; 105%N; 98%N; 114%N; 97%N; 114%N; 121%N]; [102%N; 105%N; 110%N; 100%N; 95%N; 70%N; 114%N; 111%N; 109%N; 72%N; 101%N; 120%N; 83%N; 116%N; 114%N; 105%N; 110%N; 103%N]; [102%N; 105%N; 110%N; 100%N; 95%N; 104%N; 101%N; 120%N]; [102%N; 105%N; 110%N; 100%N; 95%N; 117%N; 110%N; 101%N; 115%N; 99%N; 97%N; 112%N; 101%N]; [102%N; 105%N; 110%N; 100%N; 95%N; 100%N; 111%N; 109%N; 97%N; 105%N; 110%N; 115%N]; [102%N; 105%N; 110%N; 100%N; 95%N; 101%N; 109%N; 97%N; 105%N; 108%N; 115%N]; [102%N; 105%N; 110%N; 100%N; 95%N; 105%N; 112%N; 115%N]; [102%N; 105%N; 110%N; 100%N; 95%N; 117%N; 114%N; 108%N; 115%N]; [102%N; 105%N; 110%N; 100%N; 95%N; 112%N; 97%N; 116%N; 104%N]; [102%N; 105%N; 110%N; 100%N; 95%N; 119%N; 105%N; 110%N; 100%N; 111%N; 119%N; 115%N; 95%N; 112%N; 97%N; 116%N; 104%N]; [102%N; 105%N; 110%N; 100%N; 95%N; 112%N; 101%N; 95%N; 102%N; 105%N; 108%N; 101%N; 115%N]; [102%N; 105%N; 110%N; 100%N; 95%N; 112%N; 111%N; 119%N; 101%N; 114%N; 115%N; 104%N; 101%N; 108%N; 108%N; 95%N; 98%N; 121%N; 116%N; 101%N; 115%N]; [102%N; 105%N; 110%N; 100%N; 95%N; 106%N; 115%N; 95%N; 114%N; 101%N; 103%N; 101%N; 120%N; 95%N; 114%N; 101%N; 112%N; 108%N; 97%N; 99%N; 101%N]; [102%N; 105%N; 110%N; 100%N; 95%N; 112%N; 111%N; 119%N; 101%N; 114%N; 115%N; 104%N; 101%N; 108%N; 108%N; 95%N; 114%N; 101%N; 112%N; 108%N; 97%N; 99%N; 101%N]; [102%N; 105%N; 110%N; 100%N; 95%N; 114%N; 101%N; 112%N; 108%N; 97%N; 99%N; 101%N]; [102%N; 105%N; 110%N; 100%N; 95%N; 118%N; 98%N; 97%N; 95%N; 114%N; 101%N; 112%N; 108%N; 97%N; 99%N; 101%N]; [102%N; 105%N; 110%N; 100%N; 95%N; 114%N; 101%N; 118%N; 101%N; 114%N; 115%N; 101%N]; [102%N; 105%N; 110%N; 100%N; 95%N; 99%N; 109%N; 100%N; 95%N; 115%N; 116%N; 114%N; 105%N; 110%N; 103%N; 115%N]; [102%N; 105%N; 110%N; 100%N; 95%N; 112%N; 111%N; 119%N; 101%N; 114%N; 115%N; 104%N; 101%N; 108%N; 108%N; 95%N; 115%N; 116%N; 114%N; 105%N; 110%N; 103%N; 115%N]; [102%N; 105%N; 110%N; 100%N; 95%N; 99%N; 114%N; 101%N; 97%N; 116%N; 101%N; 111%N; 98%N; 106%N; 101%N; 99%N; 116%N]; [102%N; 105%N; 110%N; 100%N; 95%N; 115%N; 116%N; 114%N; 114%N; 101%N; 118%N; 101%N; 114%N; 115%N; 101%N]; [102%N; 105%N; 110%N; 100%N; 95%N; 120%N; 109%N; 108%N; 95%N; 104%N; 101%N; 120%N]]. Proof. vm_compute. reflexivity. Qed.
Example py_ga_2 : get_analyzers decoder_modules [[98%N; 97%N; 115%N; 101%N; 54%N; 52%N]] [] = [[102%N; 105%N; 110%N; 100%N; 95%N; 66%N; 97%N; 115%N; 101%N; 54%N; 52%N; 68%N; 101%N; 99%N; 111%N; 100%N; 101%N]; [102%N; 105%N; 110%N; 100%N; 95%N; 70%N; 114%N; 111%N; 109%N; 66%N; 97%N; 115%N; 101%N; 54%N; 52%N; 83%N; 116%N; 114%N; 105%N; 110%N; 103%N]; [102%N; 105%N; 110%N; 100%N; 95%N; 97%N; 116%N; 111%N; 98%N]; [102%N; 105%N; 110%N; 100%N; 95%N; 98%N; 97%N; 115%N; 101%N; 54%N; 52%N]]. Proof. vm_compute. reflexivity. Qed.
Example py_ga_3 : get_analyzers decoder_modules [[98%N; 97%N; 115%N; 101%N; 54%N; 52%N]; [104%N; 101%N; 120%N]] [] = [[102%N; 105%N; 110%N; 100%N; 95%N; 66%N; 97%N; 115%N; 101%N; 54%N; 52%N; 68%N; 101%N; 99%N; 111%N; 100%N; 101%N]; [102%N; 105%N; 110%N; 100%N; 95%N; 70%N; 114%N; 111%N; 109%N; 66%N; 97%N; 115%N; 101%N; 54%N; 52%N; 83%N; 116%N; 114%N; 105%N; 110%N; 103%N]; [102%N; 105%N; 110%N; 100%N; 95%N; 97%N; 116%N; 111%N; 98%N]; [102%N; 105%N; 110%N; 100%N; 95%N; 98%N; 97%N; 115%N; 101%N; 54%N; 52%N]; [102%N; 105%N; 110%N; 100%N; 95%N; 70%N; 114%N; 111%N; 109%N; 72%N; 101%N; 120%N; 83%N; 116%N; 114%N; 105%N; 110%N; 103%N]; [102%N; 105%N; 110%N; 100%N; 95%N; 104%N; 101%N; 120%N]]. Proof. vm_compute. reflexivity. Qed.
Example py_ga_4 : get_analyzers decoder_modules [] [[98%N; 97%N; 115%N; 101%N; 54%N; 52%N]] = [[102%N; 105%N; 110%N; 100%N; 95%N; 99%N; 104%N; 114%N]; [102%N; 105%N; 110%N; 100%N; 95%N; 117%N; 116%N; 102%N; 49%N; 54%N]; [102%N; 105%N; 110%N; 100%N; 95%N; 99%N; 111%N; 110%N; 99%N; 97%N; 116%N]; [102%N; 105%N; 110%N; 100%N; 95%N; 101%N; 120%N; 101%N; 99%N; 117%N; 116%N; 97%N; 98%N; 108%N; 101%N; 95%N; 110%N; 97%N; 109%N; 101%N]; [102%N; 105%N; 110%N; 100%N; 95%N; 108%N; 105%N; 98%N; 114%N; 97%N; 114%N; 121%N]; [102%N; 105%N; 110%N; 100%N; 95%N; 70%N; 114%N; 111%N; 109%N; 72%N; 101%N; 120%N; 83%N; 116%N; 114%N; 105%N; 110%N; 103%N]; [102%N; 105%N; 110%N; 100%N; 95%N; 104%N; 101%N; 120%N]; [102%N; 105%N; 110%N; 100%N; 95%N; 117%N; 110%N; 101%N; 115%N; 99%N; 97%N; 112%N; 101%N]; [102%N; 105%N; 110%N; 100%N; 95%N; 100%N; 111%N; 109%N; 97%N; 105%N; 110%N; 115%N]; [102%N; 105%N; 110%N; 100%N; 95%N; 101%N; 109%N; 97%N; 105%N; 108%N; 115%N]; [102%N; 105%N; 110%N; 100%N; 95%N; 105%N; 112%N; 115%N]; [102%N; 105%N; 110%N; 100%N; 95%N; 117%N; 114%N; 108%N; 115%N]; [102%N; 105%N; 110%N; 100%N; 95%N; 112%N; 97%N; 116%N; 104%N]; [102%N; 105%N; 110%N; 100%N; 95%N; 119%N; 105%N; 110%N; 100%N; 111%N; 119%N; 115%N; 95%N; 112%N; 97%N; 116%N; 104%N]; [102%N; 105%N; 110%N; 100%N; 95%N; 112%N; 101%N; 95%N; 102%N; 105%N; 108%N; 101%N; 115%N]; [102%N; 105%N; 110%N; 100%N; 95%N; 112%N; 111%N; 119%N; 101%N; 114%N; 115%N; 104%N; 101%N; 108%N; 108%N; 95%N; 98%N; 121%N; 116%N; 101%N; 115%N]; [102%N; 105%N; 110%N; 100%N; 95%N; 106%N; 115%N; 95%N; 114%N; 101%N; 103%N; 101%N; 120%N; 95%N; 114%N; 101%N; 112%N; 108%N; 97%N; 99%N; 101%N]; [102%N; 105%N; 110%N; 100%N; 95%N; 112%N; 111%N; 119%N; 101%N; 114%N; 115%N; 104%N; 101%N; 108%N; 108%N; 95%N; 114%N; 101%N; 112%N; 108%N; 97%N; 99%N; 101%N]; [102%N; 105%N; 110%N; 100%N; 95%N; 114%N; 101%N; 112%N; 108%N; 97%N; 99%N; 101%N]; [102%N; 105%N; 110%N; 100%N; 95%N; 118%N; 98%N; 97%N; 95%N; 114%N; 101%N; 112%N; 108%N; 97%N; 99%N; 101%N]; [102%N; 105%N; 110%N; 100%N; 95%N; 114%N; 101%N; 118%N; 101%N; 114%N; 115%N; 101%N]; [102%N; 105%N; 110%N; 100%N; 95%N; 99%N; 109%N; 100%N; 95%N; 115%N; 116%N; 114%N; 105%N; 110%N; 103%N; 115%N]; [102%N; 105%N; 110%N; 100%N; 95%N; 112%N; 111%N; 119%N; 101%N; 114%N; 115%N; 104%N; 101%N; 108%N; 108%N; 95%N; 115%N; 116%N; 114%N; 105%N; 110%N; 103%N; 115%N]; [102%N; 105%N; 110%N; 100%N; 95%N; 99%N; 114%N; 101%N; 97%N; 116%N; 101%N; 111%N; 98%N; 106%N; 101%N; 99%N; 116%N]; [102%N; 105%N; 110%N; 100%N; 95%N; 115%N; 116%N; 114%N; 114%N; 101%N; 118%N; 101%N; 114%N; 115%N; 101%N]; [102%N; 105%N; 110%N; 100%N; 95%N; 120%N; 109%N; 108%N; 95%N; 104%N; 101%N; 120%N]]. Proof. vm_compute. reflexivity. Qed.
Example py_ga_5 : get_analyzers decoder_modules [] [[110%N; 101%N; 116%N; 119%N; 111%N; 114%N; 107%N]; [120%N; 109%N; 108%N]] = [[102%N; 105%N; 110%N; 100%N; 95%N; 66%N; 97%N; 115%N; 101%N; 54%N; 52%N; 68%N; 101%N; 99%N; 111%N; 100%N; 101%N]; [102%N; 105%N; 110%N; 100%N; 95%N; 70%N; 114%N; 111%N; 109%N; 66%N; 97%N; 115%N; 101%N; 54%N; 52%N; 83%N; 116%N; 114%N; 105%N; 110%N; 103%N]; [102%N; 105%N; 110%N; 100%N; 95%N; 97%N; 116%N; 111%N; 98%N]; [102%N; 105%N; 110%N; 100%N; 95%N; 98%N; 97%N; 115%N; 101%N; 54%N; 52%N]; [102%N; 105%N; 110%N; 100%N; 95%N; 99%N; 104%N; 114%N]; [102%N; 105%N; 110%N; 100%N; 95%N; 117%N; 116%N; 102%N; 49%N; 54%N]; [102%N; 105%N; 110%N; 100%N; 95%N; 99%N; 111%N; 110%N; 99%N; 97%N; 116%N]; [102%N; 105%N; 110%N; 100%N; 95%N; 101%N; 120%N; 101%N; 99%N; 117%N; 116%N; 97%N; 98%N; 108%N; 101%N; 95%N; 110%N; 97%N; 109%N; 101%N]; [102%N; 105%N; 110%N; 100%N; 95%N; 108%N; 105%N; 98%N; 114%N; 97%N; 114%N; 121%N]; [102%N; 105%N; 110%N; 100%N; 95%N; 70%N; 114%N; 111%N; 109%N; 72%N; 101%N; 120%N; 83%N; 116%N; 114%N; 105%N; 110%N; 103%N]; [102%N; 105%N; 110%N; 100%N; 95%N; 104%N; 101%N; 120%N]; [102%N; 105%N; 110%N; 100%N; 95%N; 117%N; 110%N; 101%N; 115%N; 99%N; 97%N; 112%N; 101%N]; [102%N; 105%N; 110%N; 100%N; 95%N; 112%N; 97%N; 116%N; 104%N]; [102%N; 105%N; 110%N; 100%N; 95%N; 119%N; 105%N; 110%N; 100%N; 111%N; 119%N; 115%N; 95%N; 112%N; 97%N; 116%N; 104%N]; [102%N; 105%N; 110%N; 100%N; 95%N; 112%N; 101%N; 95%N; 102%N; 105%N; 108%N; 101%N; 115%N]; [102%N; 105%N; 110%N; 100%N; 95%N; 112%N; 111%N; 119%N; 101%N; 114%N; 115%N; 104%N; 101%N; 108%N; 108%N; 95%N; 98%N; 121%N; 116%N; 101%N; 115%N]; [102%N; 105%N; 110%N; 100%N; 95%N; 106%N; 115%N; 95%N; 114%N; 101%N; 103%N; 101%N; 120%N; 95%N; 114%N; 101%N; 112%N; 108%N; 97%N; 99%N; 101%N]; [102%N; 105%N; 110%N; 100%N; 95%N; 112%N; 111%N; 119%N; 101%N; 114%N; 115%N; 104%N; 101%N; 108%N; 108%N; 95%N; 114%N; 101%N; 112%N; 108%N; 97%N; 99%N; 101%N]; [102%N; 105%N; 110%N; 100%N; 95%N; 114%N; 101%N; 112%N; 108%N; 97%N; 99%N; 101%N]; [102%N; 105%N; 110%N; 100%N; 95%N; 118%N; 98%N; 97%N; 95%N; 114%N; 101%N; 112%N; 108%N; 97%N; 99%N; 101%N]; [102%N; 105%N; 110%N; 100%N; 95%N; 114%N; 101%N; 118%N; 101%N; 114%N; 115%N; 101%N]; [102%N; 105%N; 110%N; 100%N; 95%N; 99%N; 109%N; 100%N; 95%N; 115%N; 116%N; 114%N; 105%N; 110%N; 103%N; 115%N]; [102%N; 105%N; 110%N; 100%N; 95%N; 112%N; 111%N; 119%N; 101%N; 114%N; 115%N; 104%N; 101%N; 108%N; 108%N; 95%N; 115%N; 116%N; 114%N; 105%N; 110%N; 103%N; 115%N]; [102%N; 105%N; 110%N; 100%N; 95%N; 99%N; 114%N; 101%N; 97%N; 116%N; 101%N; 111%N; 98%N; 106%N; 101%N; 99%N; 116%N]; [102%N; 105%N; 110%N; 100%N; 95%N; 115%N; 116%N; 114%N; 114%N; 101%N; 118%N; 101%N; 114%N; 115%N; 101%N]]. Proof. vm_compute. reflexivity. Qed.
Example py_ga_6 : get_analyzers decoder_modules [[98%N; 97%N; 115%N; 101%N; 54%N; 52%N]] [[98%N; 97%N; 115%N; 101%N; 54%N; 52%N]] = []. Proof. vm_compute. reflexivity. Qed.
Example py_ga_7 : get_analyzers decoder_modules [[110%N; 111%N; 115%N; 117%N; 99%N; 104%N]] [] = []. Proof. vm_compute. reflexivity. Qed.
Example py_ga_8 : get_analyzers decoder_modules [] [[110%N; 111%N; 115%N; 117%N; 99%N; 104%N]] = [[102%N; 105%N; 110%N; 100%N; 95%N; 66%N; 97%N; 115%N; 101%N; 54%N; 52%N; 68%N; 101%N; 99%N; 111%N; 100%N; 101%N]; [102%N; 105%N; 110%N; 100%N; 95%N; 70%N; 114%N; 111%N; 109%N; 66%N; 97%N; 115%N; 101%N; 54%N; 52%N; 83%N; 116%N; 114%N; 105%N; 110%N; 103%N]; [102%N; 105%N; 110%N; 100%N; 95%N; 97%N; 116%N; 111%N; 98%N]; [102%N; 105%N; 110%N; 100%N; 95%N; 98%N; 97%N; 115%N; 101%N; 54%N; 52%N]; [102%N; 105%N; 110%N; 100%N; 95%N; 99%N; 104%N; 114%N]; [102%N; 105%N; 110%N; 100%N; 95%N; 117%N; 116%N; 102%N; 49%N; 54%N]; [102%N; 105%N; 110%N; 100%N; 95%N; 99%N; 111%N; 110%N; 99%N; 97%N; 116%N]; [102%N; 105%N; 110%N; 100%N; 95%N; 101%N; 120%N; 101%N; 99%N; 117%N; 116%N; 97%N; 98%N; 108%N; 101%N; 95%N; 110%N; 97%N; 109%N; 101%N]; [102%N; 105%N; 110%N; 100%N; 95%N; 108%N; 105%N; 98%N; 114%N; 97%N; 114%N; 121%N]; [102%N; 105%N; 110%N; 100%N; 95%N; 70%N; 114%N; 111%N; 109%N; 72%N; 101%N; 120%N; 83%N; 116%N; 114%N; 105%N; 110%N; 103%N]; [102%N; 105%N; 110%N; 100%N; 95%N; 104%N; 101%N; 120%N]; [102%N; 105%N; 110%N; 100%N; 95%N; 117%N; 110%N; 101%N; 115%N; 99%N; 97%N; 112%N; 101%N]; [102%N; 105%N; 110%N; 100%N; 95%N; 100%N; 111%N; 109%N; 97%N; 105%N; 110%N; 115%N]; [102%N; 105%N; 110%N; 100%N; 95%N; 101%N; 109%N; 97%N; 105%N; 108%N; 115%N]; [102%N; 105%N; 110%N; 100%N; 95%N; 105%N; 112%N; 115%N]; [102%N; 105%N; 110%N; 100%N; 95%N; 117%N; 114%N; 108%N; 115%N]; [102%N; 105%N; 110%N; 100%N; 95%N; 112%N; 97%N; 116%N; 104%N]; [102%N; 105%N; 110%N; 100%N; 95%N; 119%N; 105%N; 110%N; 100%N; 111%N; 119%N; 115%N; 95%N; 112%N; 97%N; 116%N; 104%N]; [102%N; 105%N; 110%N; 100%N; 95%N; 112%N; 101%N; 95%N; 102%N; 105%N; 108%N; 101%N; 115%N]; [102%N; 105%N; 110%N; 100%N; 95%N; 112%N; 111%N; 119%N; 101%N; 114%N; 115%N; 104%N; 101%N; 108%N; 108%N; 95%N; 98%N; 121%N; 116%N; 101%N; 115%N]; [102%N; 105%N; 110%N; 100%N; 95%N; 106%N; 115%N; 95%N; 114%N; 101%N; 103%N; 101%N; 120%N; 95%N; 114%N; 101%N; 112%N; 108%N; 97%N; 99%N; 101%N]; [102%N; 105%N; 110%N; 100%N; 95%N; 112%N; 111%N; 119%N; 101%N; 114%N; 115%N; 104%N; 101%N; 108%N; 108%N; 95%N; 114%N; 101%N; 112%N; 108%N; 97%N; 99%N; 101%N]; [102%N; 105%N; 110%N; 100%N; 95%N; 114%N; 101%N; 112%N; 108%N; 97%N; 99%N; 101%N]; [102%N; 105%N; 110%N; 100%N; 95%N; 118%N; 98%N; 97%N; 95%N; 114%N; 101%N; 112%N; 108%N; 97%N; 99%N; 101%N]; [102%N; 105%N; 110%N; 100%N; 95%N; 114%N; 101%N; 118%N; 101%N; 114%N; 115%N; 101%N]; [102%N; 105%N; 110%N; 100%N; 95%N; 99%N; 109%N; 100%N; 95%N; 115%N; 116%N; 114%N; 105%N; 110%N; 103%N; 115%N]; [102%N; 105%N; 110%N; 100%N; 95%N; 112%N; 111%N; 119%N; 101%N; 114%N; 115%N; 104%N; 101%N; 108%N; 108%N; 95%N; 115%N; 116%N; 114%N; 105%N; 110%N; 103%N; 115%N]; [102%N; 105%N; 110%N; 100%N; 95%N; 99%N; 114%N; 101%N; 97%N; 116%N; 101%N; 111%N; 98%N; 106%N; 101%N; 99%N; 116%N]; [102%N; 105%N; 110%N; 100%N; 95%N; 115%N; 116%N; 114%N; 114%N; 101%N; 118%N; 101%N; 114%N; 115%N; 101%N]; [102%N; 105%N; 110%N; 100%N; 95%N; 120%N; 109%N; 108%N; 95%N; 104%N; 101%N; 120%N]]. Proof. vm_compute. reflexivity. Qed.
Example py_ga_9 : get_analyzers decoder_modules [[104%N; 101%N; 120%N]; [110%N; 111%N; 115%N; 117%N; 99%N; 104%N]; [104%N; 101%N; 120%N]] [[120%N; 109%N; 108%N]] = [[102%N; 105%N; 110%N; 100%N; 95%N; 70%N; 114%N; 111%N; 109%N; 72%N; 101%N; 120%N; 83%N; 116%N; 114%N; 105%N; 110%N; 103%N]; [102%N; 105%N; 110%N; 100%N; 95%N; 104%N; 101%N; 120%N]]. Proof. vm_compute. reflexivity. Qed.
Example py_ga_10 : get_analyzers decoder_modules [[120%N; 109%N; 108%N]; [98%N; 97%N; 115%N; 101%N; 54%N; 52%N]] [[104%N; 101%N; 120%N]] = [[102%N; 105%N; 110%N; 100%N; 95%N; 66%N; 97%N; 115%N; 101%N; 54%N; 52%N; 68%N; 101%N; 99%N; 111%N; 100%N; 101%N]; [102%N; 105%N; 110%N; 100%N; 95%N; 70%N; 114%N; 111%N; 109%N; 66%N; 97%N; 115%N; 101%N; 54%N; 52%N; 83%N; 116%N; 114%N; 105%N; 110%N; 103%N]; [102%N; 105%N; 110%N; 100%N; 95%N; 97%N; 116%N; 111%N; 98%N]; [102%N; 105%N; 110%N; 100%N; 95%N; 98%N; 97%N; 115%N; 101%N; 54%N; 52%N]; [102%N; 105%N; 110%N; 100%N; 95%N; 120%N; 109%N; 108%N; 95%N; 104%N; 101%N; 120%N]]. Proof. vm_compute. reflexivity. Qed.
Example py_ga_11 : get_analyzers decoder_modules [[115%N; 104%N; 101%N; 108%N; 108%N]; [118%N; 98%N; 97%N]; [112%N; 97%N; 116%N; 104%N]] [[118%N; 98%N; 97%N]; [122%N; 122%N; 122%N]] = [[102%N; 105%N; 110%N; 100%N; 95%N; 112%N; 97%N; 116%N; 104%N]; [102%N; 105%N; 110%N; 100%N; 95%N; 119%N; 105%N; 110%N; 100%N; 111%N; 119%N; 115%N; 95%N; 112%N; 97%N; 116%N; 104%N]; [102%N; 105%N; 110%N; 100%N; 95%N; 99%N; 109%N; 100%N; 95%N; 115%N; 116%N; 114%N; 105%N; 110%N; 103%N; 115%N]; [102%N; 105%N; 110%N; 100%N; 95%N; 112%N; 111%N; 119%N; 101%N; 114%N; 115%N; 104%N; 101%N; 108%N; 108%N; 95%N; 115%N; 116%N; 114%N; 105%N; 110%N; 103%N; 115%N]]. Proof. vm_compute. reflexivity. Qed.
Example py_ga_12 : get_analyzers decoder_modules [[]] [] = []. Proof. vm_compute. reflexivity. Qed.
Example py_ga_13 : get_analyzers decoder_modules [[66%N; 97%N; 115%N; 101%N; 54%N; 52%N]] [] = []. Proof. vm_compute. reflexivity. Qed.
Example py_gk_34 : get_keywords (Dir [([98%N], [])] [([95%N; 120%N], (Dir [([95%N; 120%N], [11%N]); ([122%N], [12%N; 10%N; 13%N; 0%N; 10%N; 255%N; 254%N; 13%N; 255%N; 254%N; 13%N; 13%N; 10%N; 226%N; 128%N; 168%N; 13%N; 13%N; 10%N; 10%N; 97%N; 98%N; 100%N; 13%N; 10%N; 97%N; 98%N; 99%N; 10%N; 10%N])] [])); ([97%N; 97%N], (Dir [([126%N], [0%N; 10%N; 13%N; 11%N]); ([97%N; 45%N; 98%N], []); ([97%N; 32%N; 98%N], [13%N; 13%N; 10%N; 133%N]); ([97%N], [90%N; 101%N; 100%N; 13%N; 226%N; 128%N; 168%N; 10%N; 13%N; 11%N; 10%N; 13%N; 12%N; 13%N; 13%N; 10%N; 97%N; 98%N; 100%N; 13%N])] [([66%N], (Dir [] []))]))]) = [([95%N; 120%N], [[11%N]]); ([122%N], [[0%N]; [12%N]; [97%N; 98%N; 99%N]; [97%N; 98%N; 100%N]; [226%N; 128%N; 168%N]; [255%N; 254%N]]); ([97%N], [[11%N]; [12%N]; [90%N; 101%N; 100%N]; [97%N; 98%N; 100%N]; [226%N; 128%N; 168%N]]); ([97%N; 32%N; 98%N], [[133%N]]); ([126%N], [[0%N]; [11%N]])]. Proof. vm_compute. reflexivity. Qed.
Example py_gk_8 : get_keywords (Dir [] [([97%N; 97%N], (Dir [([122%N], [97%N; 98%N; 99%N; 10%N; 11%N; 13%N; 13%N; 10%N; 28%N; 10%N; 11%N; 10%N; 13%N; 97%N; 98%N; 13%N; 10%N; 97%N; 98%N; 99%N; 10%N; 10%N; 97%N; 9%N; 98%N; 13%N; 10%N; 97%N; 98%N; 99%N]); ([98%N], [226%N; 128%N; 168%N; 10%N; 97%N; 9%N; 98%N; 10%N; 97%N; 98%N]); ([233%N], [97%N; 98%N; 13%N; 10%N; 32%N; 13%N; 10%N; 97%N; 98%N; 99%N; 10%N; 226%N; 128%N; 168%N; 13%N; 13%N; 10%N])] [([97%N; 32%N; 98%N], (Dir [([97%N; 32%N; 98%N], [])] [([95%N; 120%N], (Dir [([97%N; 97%N], []); ([98%N], [255%N; 254%N; 13%N; 13%N; 10%N; 97%N; 98%N; 100%N; 13%N; 13%N; 10%N; 12%N; 13%N; 11%N; 13%N; 13%N; 10%N; 12%N; 13%N; 13%N; 10%N; 97%N; 98%N; 99%N; 13%N; 13%N; 10%N; 97%N; 98%N; 10%N; 98%N; 10%N]); ([95%N; 120%N], [0%N; 10%N; 0%N; 13%N; 10%N]); ([48%N], [])] []))]))]))]) = [([98%N], [[97%N; 9%N; 98%N]; [97%N; 98%N]; [226%N; 128%N; 168%N]]); ([122%N], [[11%N]; [28%N]; [97%N; 9%N; 98%N]; [97%N; 98%N]; [97%N; 98%N; 99%N]]); ([233%N], [[32%N]; [97%N; 98%N]; [97%N; 98%N; 99%N]; [226%N; 128%N; 168%N]]); ([95%N; 120%N], [[0%N]]); ([98%N], [[11%N]; [12%N]; [97%N; 98%N]; [97%N; 98%N; 99%N]; [97%N; 98%N; 100%N]; [98%N]; [255%N; 254%N]])]. Proof. vm_compute. reflexivity. Qed.
Example py_gk_19 : get_keywords (Dir [([97%N; 45%N; 98%N], [98%N; 13%N; 13%N; 10%N; 12%N; 10%N; 98%N; 13%N; 13%N; 10%N; 12%N; 10%N; 13%N; 90%N; 101%N; 100%N; 13%N; 10%N; 97%N; 98%N; 13%N; 97%N; 98%N; 99%N; 10%N; 13%N; 11%N; 13%N]); ([122%N], [13%N; 13%N; 10%N; 97%N; 32%N; 98%N; 10%N]); ([90%N; 57%N], []); ([97%N], [255%N; 254%N; 10%N; 10%N])] [([233%N], (Dir [([95%N; 120%N], [])] [])); ([97%N; 97%N], (Dir [([97%N], [])] [([233%N], (Dir [([95%N; 120%N], []); ([98%N], [97%N; 98%N; 99%N; 10%N; 10%N; 13%N; 97%N; 98%N; 100%N; 10%N; 13%N; 97%N; 9%N; 98%N; 10%N; 97%N; 98%N; 99%N; 13%N; 10%N; 12%N; 10%N; 13%N; 12%N; 13%N; 90%N; 101%N; 100%N])] [([90%N; 57%N], (Dir [([97%N; 97%N], [97%N; 98%N; 10%N; 90%N; 101%N; 100%N; 13%N; 97%N; 98%N; 99%N]); ([122%N], [97%N; 98%N; 99%N; 13%N; 10%N; 90%N; 101%N; 100%N; 10%N; 13%N; 10%N; 90%N; 101%N; 100%N])] []))]))]))]) = [([97%N], [[255%N; 254%N]]); ([97%N; 45%N; 98%N], [[11%N]; [12%N]; [90%N; 101%N; 100%N]; [97%N; 98%N]; [97%N; 98%N; 99%N]; [98%N]]); ([122%N], [[97%N; 32%N; 98%N]]); ([98%N], [[12%N]; [90%N; 101%N; 100%N]; [97%N; 9%N; 98%N]; [97%N; 98%N; 99%N]; [97%N; 98%N; 100%N]]); ([97%N; 97%N], [[90%N; 101%N; 100%N]; [97%N; 98%N]; [97%N; 98%N; 99%N]]); ([122%N], [[90%N; 101%N; 100%N]; [97%N; 98%N; 99%N]])]. Proof. vm_compute. reflexivity. Qed.
Example py_gk_1 : get_keywords (Dir [([97%N; 98%N], [13%N])] [([90%N; 57%N], (Dir [([97%N], [90%N; 101%N; 100%N; 13%N; 10%N; 255%N; 254%N; 13%N; 97%N; 98%N; 99%N; 10%N; 10%N; 97%N; 98%N; 99%N; 10%N; 255%N; 254%N; 10%N; 13%N; 12%N; 13%N; 13%N; 10%N; 12%N; 13%N; 13%N; 10%N; 133%N]); ([66%N], [97%N; 98%N; 100%N; 13%N; 13%N; 10%N; 97%N; 98%N; 100%N; 13%N; 10%N; 98%N; 10%N; 13%N; 12%N; 10%N; 13%N; 97%N; 98%N]); ([126%N], [97%N; 98%N; 13%N; 13%N; 10%N; 226%N; 128%N; 168%N; 13%N; 13%N; 10%N; 226%N; 128%N; 168%N])] [([233%N], (Dir [([97%N], [11%N; 13%N; 13%N; 10%N; 97%N; 98%N; 99%N; 10%N; 10%N; 90%N; 101%N; 100%N; 10%N; 13%N; 133%N; 13%N; 13%N; 10%N; 97%N; 98%N; 99%N; 10%N; 13%N; 11%N; 13%N; 28%N; 10%N; 13%N; 97%N; 32%N; 98%N]); ([97%N; 98%N], []); ([233%N], [32%N; 13%N; 12%N; 13%N; 97%N; 98%N; 99%N; 13%N; 10%N; 98%N; 10%N; 13%N; 13%N; 10%N; 97%N; 32%N; 98%N; 13%N; 13%N; 10%N; 133%N; 10%N; 11%N])] []))]))]) = [([66%N], [[12%N]; [97%N; 98%N]; [97%N; 98%N; 100%N]; [98%N]]); ([97%N], [[12%N]; [90%N; 101%N; 100%N]; [97%N; 98%N; 99%N]; [133%N]; [255%N; 254%N]]); ([126%N], [[97%N; 98%N]; [226%N; 128%N; 168%N]]); ([97%N], [[11%N]; [28%N]; [90%N; 101%N; 100%N]; [97%N; 32%N; 98%N]; [97%N; 98%N; 99%N]; [133%N]]); ([233%N], [[11%N]; [12%N]; [32%N]; [97%N; 32%N; 98%N]; [97%N; 98%N; 99%N]; [98%N]; [133%N]])]. Proof. vm_compute. reflexivity. Qed.

(* an order-invariance instance by computation: the same tree listed in two different orders *)
Example py_perm_instance :
  get_keywords (Dir [(L"b", L"x"); (L"a", L"y")] [(L"s", Dir [(L"q", [122; 10; 122]); (L"p", [])] []); (L"r", Dir [] [])]) =
  get_keywords (Dir [(L"a", L"y"); (L"b", L"x")] [(L"r", Dir [] []); (L"s", Dir [(L"p", []); (L"q", [122; 10; 122])] [])]).
Proof. vm_compute. reflexivity. Qed.

(* the relation dtree_perm does relate these two listings, so the theorem applies to them *)
Example perm_instance_related :
  dtree_perm (Dir [(L"b", L"x"); (L"a", L"y")] [(L"s", Dir [(L"q", [122; 10; 122]); (L"p", [])] []); (L"r", Dir [] [])])
             (Dir [(L"a", L"y"); (L"b", L"x")] [(L"r", Dir [] []); (L"s", Dir [(L"p", []); (L"q", [122; 10; 122])] [])]).
Proof.
  apply dtree_perm_intro with (mid := [(L"s", Dir [(L"p", []); (L"q", [122; 10; 122])] []); (L"r", Dir [] [])]).
  - apply perm_swap.
  - constructor; [split; [reflexivity|] | constructor; [split; [reflexivity | apply dtree_perm_refl] | constructor]].
    apply dtree_perm_intro with (mid := []); [apply perm_swap | constructor | constructor].
  - apply perm_swap.
Qed.

Example shipped_decoder_count : List.length (get_analyzers decoder_modules [] []) = 30%nat.
Proof. vm_compute. reflexivity. Qed.

Print Assumptions lex_ltb_irrefl.
Print Assumptions lex_ltb_trans.
Print Assumptions lex_ltb_trichotomy.
Print Assumptions get_analyzers_spec.
Print Assumptions get_analyzers_all.
Print Assumptions get_analyzers_subseq.
Print Assumptions excluded_wins.
Print Assumptions splitlines_spec.
Print Assumptions splitlines_lf.
Print Assumptions splitlines_cr.
Print Assumptions splitlines_crlf.
Print Assumptions splitlines_last.
Print Assumptions splitlines_unlines.
Print Assumptions keywords_of_spec.
Print Assumptions keywords_of_NoDup.
Print Assumptions keywords_of_sorted.
Print Assumptions get_keywords_perm.
Print Assumptions get_keywords_spec.
Print Assumptions get_keywords_length.
Print Assumptions get_keywords_words.
Print Assumptions build_registry_split.
Print Assumptions build_registry_filter_only_decoders.
Print Assumptions build_registry_kwdir_only_keywords.
Print Assumptions build_registry_in.
Print Assumptions build_registry_length.
Print Assumptions sort_uniq_perm_invariant.
Print Assumptions sort_named_perm_invariant.
Print Assumptions get_keywords_order_invariant.
Print Assumptions build_registry_order_invariant.
Print Assumptions keywords_of_lines_perm.
Print Assumptions keywords_of_unlines_perm.
Print Assumptions keywords_of_unlines_dup.
Print Assumptions dtree_perm_refl.
Print Assumptions dtree_perm_files.
