(* C20: node_to_dict / as_node round trip, and structural equality of trees. *)
From MD Require Import Lib.Base Model.Node Model.Json.

(* ------------------------------------------------------------------ *)
(* finite facts over the 256 byte values                               *)

Definition all_bytes : list N := map N.of_nat (seq 0 256).

Lemma in_all_bytes c : (c < 256)%N -> In c all_bytes.
Proof.
  intros Hc. unfold all_bytes. rewrite <- (N2Nat.id c). apply in_map. apply in_seq. lia.
Qed.

Lemma forall_bytes (p : N -> bool) : forallb p all_bytes = true -> forall c, (c < 256)%N -> p c = true.
Proof. intros H c Hc. rewrite forallb_forall in H. apply H. apply in_all_bytes. exact Hc. Qed.

Definition hex_byte_ok (c : N) : bool :=
  negb (is_space_ascii (hexdigit (c / 16))) &&
  match hexval (hexdigit (c / 16)), hexval (hexdigit (c mod 16)) with
  | Some hi, Some lo => (hi * 16 + lo =? c)%N
  | _, _ => false
  end.

Lemma hex_byte_ok_all : forallb hex_byte_ok all_bytes = true.
Proof. vm_compute. reflexivity. Qed.

Lemma hex_byte c : (c < 256)%N ->
  is_space_ascii (hexdigit (c / 16)) = false /\
  exists hi lo, hexval (hexdigit (c / 16)) = Some hi /\ hexval (hexdigit (c mod 16)) = Some lo /\
                (hi * 16 + lo)%N = c.
Proof.
  intros Hc. pose proof (forall_bytes _ hex_byte_ok_all c Hc) as H. unfold hex_byte_ok in H.
  apply andb_true_iff in H. destruct H as [Hsp Hv]. split.
  - destruct (is_space_ascii (hexdigit (c / 16))); [discriminate | reflexivity].
  - destruct (hexval (hexdigit (c / 16))) as [hi|]; [|discriminate].
    destruct (hexval (hexdigit (c mod 16))) as [lo|]; [|discriminate].
    exists hi, lo. repeat split. apply N.eqb_eq. exact Hv.
Qed.

Lemma fromhex_pair c1 c2 s hi lo :
  is_space_ascii c1 = false -> hexval c1 = Some hi -> hexval c2 = Some lo ->
  fromhex (c1 :: c2 :: s) = (do r <- fromhex s; Ok ((hi * 16 + lo)%N :: r)).
Proof. intros H1 H2 H3. cbn [fromhex]. rewrite H1, H2, H3. reflexivity. Qed.

(* bytes.fromhex(b.hex()) == b *)
Theorem fromhex_hexlify b : wf_bytes b -> fromhex (hexlify b) = Ok b.
Proof.
  induction b as [|c b IH]; intros Hwf.
  - reflexivity.
  - inversion Hwf as [|c' b' Hc Hb]; subst. cbn [hexlify].
    destruct (hex_byte c Hc) as [Hsp [hi [lo [Hhi [Hlo Hsum]]]]].
    rewrite (fromhex_pair _ _ _ hi lo Hsp Hhi Hlo). rewrite (IH Hb). cbn [bind].
    rewrite Hsum. reflexivity.
Qed.

Lemma hexlify_length b : List.length (hexlify b) = (2 * List.length b)%nat.
Proof. induction b as [|c b IH]; [reflexivity|]. cbn [hexlify List.length]. rewrite IH. lia. Qed.

(* b.hex() only contains 0-9 a-f, so it needs no JSON escaping *)
Definition is_lower_hex (c : N) : bool :=
  ((48 <=? c) && (c <=? 57) || (97 <=? c) && (c <=? 102))%N.

Lemma hexlify_chars b : wf_bytes b -> Forall (fun c => is_lower_hex c = true) (hexlify b).
Proof.
  induction b as [|c b IH]; intros Hwf; [constructor|].
  inversion Hwf as [|c' b' Hc Hb]; subst. cbn [hexlify].
  assert (H : forallb (fun c => is_lower_hex (hexdigit (c / 16)) && is_lower_hex (hexdigit (c mod 16)))
                      all_bytes = true) by (vm_compute; reflexivity).
  pose proof (forall_bytes _ H c Hc) as Hd. apply andb_true_iff in Hd. destruct Hd as [Hd1 Hd2].
  constructor; [exact Hd1|]. constructor; [exact Hd2|]. apply IH. exact Hb.
Qed.

(* ------------------------------------------------------------------ *)
(* as_node on a dictionary of the shape produced by node_to_dict       *)

Definition as_kids : list jv -> res (list node) :=
  fix go (l : list jv) : res (list node) :=
    match l with
    | [] => Ok []
    | x :: xs => do y <- as_node x; do ys <- go xs; Ok (y :: ys)
    end.

Lemma as_kids_cons x xs : as_kids (x :: xs) = (do y <- as_node x; do ys <- as_kids xs; Ok (y :: ys)).
Proof. reflexivity. Qed.

Lemma as_node_dict t hv o s e l :
  as_node (JObj [ (k_type, JStr t); (k_value, JStr hv); (k_obfuscation, JStr o);
                  (k_start, JInt s); (k_end, JInt e); (k_children, JArr l) ])
  = (do v <- fromhex hv; do ks <- as_kids l; Ok (Node t v o s e ks)).
Proof. reflexivity. Qed.

Lemma node_to_dict_unfold t v o s e ks :
  node_to_dict (Node t v o s e ks) =
  JObj [ (k_type, JStr t); (k_value, JStr (hexlify v)); (k_obfuscation, JStr o);
         (k_start, JInt s); (k_end, JInt e); (k_children, JArr (map node_to_dict ks)) ].
Proof. reflexivity. Qed.

Theorem json_roundtrip t : wf_node t -> as_node (node_to_dict t) = Ok t.
Proof.
  induction t as [t v o s e ks IH] using node_ind'. intros Hwf.
  inversion Hwf as [t' v' o' s' e' ks' Hv Hks]; subst.
  rewrite node_to_dict_unfold, as_node_dict. rewrite (fromhex_hexlify v Hv). cbn [bind].
  assert (Hk : as_kids (map node_to_dict ks) = Ok ks).
  { clear Hwf Hv. induction ks as [|c ks IHks]; [reflexivity|].
    inversion IH as [|c1 l1 Hc Hl]; subst. inversion Hks as [|c2 l2 Hwc Hwl]; subst.
    cbn [map]. rewrite as_kids_cons. rewrite (Hc Hwc). cbn [bind].
    rewrite (IHks Hl Hwl). reflexivity. }
  rewrite Hk. reflexivity.
Qed.

(* hence node_to_dict loses nothing on well-formed trees *)
Corollary node_to_dict_injective a b : wf_node a -> wf_node b -> node_to_dict a = node_to_dict b -> a = b.
Proof.
  intros Ha Hb E. pose proof (json_roundtrip a Ha) as Ra. rewrite E, (json_roundtrip b Hb) in Ra.
  injection Ra as Ra. symmetry. exact Ra.
Qed.

(* ------------------------------------------------------------------ *)
(* Node.__eq__ is structural equality                                  *)

Definition kids_eqb : list node -> list node -> bool :=
  fix go (l1 l2 : list node) : bool :=
    match l1, l2 with
    | [], [] => true
    | x :: xs, y :: ys => node_eqb x y && go xs ys
    | _, _ => false
    end.

Lemma node_eqb_unfold t1 v1 o1 s1 e1 k1 t2 v2 o2 s2 e2 k2 :
  node_eqb (Node t1 v1 o1 s1 e1 k1) (Node t2 v2 o2 s2 e2 k2) =
  beqb t1 t2 && beqb v1 v2 && beqb o1 o2 && (s1 =? s2) && (e1 =? e2) && kids_eqb k1 k2.
Proof. reflexivity. Qed.

Lemma kids_eqb_eq k1 :
  Forall (fun a => forall b, node_eqb a b = true <-> a = b) k1 ->
  forall k2, kids_eqb k1 k2 = true <-> k1 = k2.
Proof.
  induction k1 as [|x xs IHk]; intros Hall [|y ys]; cbn [kids_eqb]; try (split; congruence).
  inversion Hall as [|x' xs' Hx Hxs]; subst.
  rewrite andb_true_iff, (Hx y), (IHk Hxs ys). split.
  - intros [-> ->]. reflexivity.
  - intros E. injection E as -> ->. split; reflexivity.
Qed.

Theorem node_eqb_eq a : forall b, node_eqb a b = true <-> a = b.
Proof.
  induction a as [t1 v1 o1 s1 e1 k1 IH] using node_ind'. intros [t2 v2 o2 s2 e2 k2].
  rewrite node_eqb_unfold. rewrite !andb_true_iff, !beqb_eq, !Z.eqb_eq, (kids_eqb_eq k1 IH k2).
  split.
  - intros [[[[[-> ->] ->] ->] ->] ->]. reflexivity.
  - intros E. injection E as -> -> -> -> -> ->. repeat split.
Qed.

Corollary node_eqb_refl a : node_eqb a a = true.
Proof. apply node_eqb_eq. reflexivity. Qed.

Corollary node_eqb_neq a b : node_eqb a b = false <-> a <> b.
Proof.
  split.
  - intros H E. apply node_eqb_eq in E. congruence.
  - intros H. destruct (node_eqb a b) eqn:E; [apply node_eqb_eq in E; contradiction | reflexivity].
Qed.

(* the round trip in terms of Node.__eq__ *)
Corollary json_roundtrip_eq t : wf_node t ->
  exists t', as_node (node_to_dict t) = Ok t' /\ node_eqb t' t = true.
Proof. intros H. exists t. split; [apply json_roundtrip; exact H | apply node_eqb_refl]. Qed.

(* ------------------------------------------------------------------ *)
(* Test vectors (checked against /venv/bin/python)                      *)

Definition full (hv : string) (kids : jv) : jv :=
  JObj [ (L"type", JStr (L"x")); (L"value", JStr (L hv)); (L"obfuscation", JStr (L"o"));
         (L"start", JInt 1); (L"end", JInt 3); (L"children", kids) ].
Definition leaf_hi : node := Node (L"x") (L"hi") (L"o") 1 3 [].

Example ex_to_dict :
  node_to_dict (Node (L"t") [0%N; 255%N; 65%N] (L"ob") (-1) 2 [Node [] [] [] 0 0 []]) =
  JObj [ (L"type", JStr (L"t")); (L"value", JStr (L"00ff41")); (L"obfuscation", JStr (L"ob"));
         (L"start", JInt (-1)); (L"end", JInt 2);
         (L"children", JArr [ JObj [ (L"type", JStr []); (L"value", JStr []); (L"obfuscation", JStr []);
                                     (L"start", JInt 0); (L"end", JInt 0); (L"children", JArr []) ] ]) ].
Proof. vm_compute. reflexivity. Qed.

Example ex_as_node_ok : as_node (full "6869" (JArr [])) = Ok leaf_hi.
Proof. vm_compute. reflexivity. Qed.

Example ex_as_node_missing : as_node (JObj [ (L"type", JStr (L"x")) ]) = Raise (L"KeyError").
Proof. vm_compute. reflexivity. Qed.

Example ex_as_node_badhex : as_node (full "zz" (JArr [])) = Raise (L"ValueError").
Proof. vm_compute. reflexivity. Qed.

(* the missing key is noticed before the bad hex string is parsed only if it comes first *)
Example ex_as_node_order :
  as_node (JObj [ (L"value", JStr (L"zz")) ]) = Raise (L"KeyError") /\
  as_node (JObj [ (L"type", JStr (L"x")); (L"value", JStr (L"zz")) ]) = Raise (L"ValueError").
Proof. vm_compute. split; reflexivity. Qed.

Example ex_as_node_not_dict :
  as_node (JArr []) = Raise (L"TypeError") /\ as_node (JStr (L"abc")) = Raise (L"TypeError") /\
  as_node (JInt 5) = Raise (L"TypeError").
Proof. vm_compute. repeat split; reflexivity. Qed.

(* an empty str / dict is an acceptable (empty) list of children; non-empty ones and ints are not *)
Example ex_as_node_children_shapes :
  as_node (full "6869" (JStr [])) = Ok leaf_hi /\ as_node (full "6869" (JObj [])) = Ok leaf_hi /\
  as_node (full "6869" (JStr (L"ab"))) = Raise (L"TypeError") /\
  as_node (full "6869" (JObj [(L"a", JInt 1)])) = Raise (L"TypeError") /\
  as_node (full "6869" (JInt 7)) = Raise (L"TypeError").
Proof. vm_compute. repeat split; reflexivity. Qed.

(* fromhex skips white space between pairs only, and accepts upper case *)
Example ex_as_node_spaces :
  as_node (full "6869" (JArr [full "6869" (JArr []); full "4 1" (JArr [])])) = Raise (L"ValueError") /\
  as_node (full "6869" (JArr [full "6869" (JArr []); full "41 4B" (JArr [])])) =
    Ok (Node (L"x") (L"hi") (L"o") 1 3 [leaf_hi; Node (L"x") (L"AK") (L"o") 1 3 []]).
Proof. vm_compute. split; reflexivity. Qed.

Example ex_eq_deep :
  node_eqb (Node [] [] [] 0 0 [Node [] [] [] 0 0 [Node [] [1%N] [] 0 0 []]])
           (Node [] [] [] 0 0 [Node [] [] [] 0 0 [Node [] [2%N] [] 0 0 []]]) = false.
Proof. vm_compute. reflexivity. Qed.

(* ------------------------------------------------------------------ *)
Print Assumptions fromhex_hexlify.
Print Assumptions hexlify_chars.
Print Assumptions json_roundtrip.
Print Assumptions node_to_dict_injective.
Print Assumptions node_eqb_eq.
Print Assumptions node_eqb_neq.
Print Assumptions json_roundtrip_eq.
