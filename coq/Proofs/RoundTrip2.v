(* END-TO-END round trips  encode -> find  for the STRING-OPERATION layers, INCLUDING span selection by the
   model's own backtracking matcher (Regex/Backtrack.v) on the regenerated regex terms (Generated/Regexes.v,
   referred to by name only; the terms are unfolded by the proof scripts, never copied).
   Continuation of Proofs/RoundTrip.v (same conclusion shape, same fuel discipline).

   find_reverse, find_strreverse          (section 4):  name( ws quote rev(p) quote ws )  ->  value p
   find_replace, find_vba_replace,
   find_powershell_replace                (section 5):  the three call spellings  ->  value py_replace x a b,
                                                        and the decode-encode law for a token substitution
   find_concat                            (section 6):  a chain of n >= 2 literals  ->  value = the concatenation,
                                                        for ANY n (induction over the list of parts)

   Each form is embedded between a prefix in which no attempt succeeds ([quiet]; decidable sufficient condition
   [neutral]) and a suffix (any suffix when the pattern ends with a closing parenthesis; [stop_q] / [concat_stop]
   when it ends with a literal).  The form is found as the FIRST node with exactly its span, every other node
   starts at or after its end.

   New matcher facts (sections 1-2): the string-literal pattern of concat.py is NOT backtrack-free (its inner
   repeat first swallows the payload and fails on the closing quote), so besides [runs] we use [det]: the only
   position at which a part calls its continuation.  [m_star_cls] / [m_star_seq] give the behaviour of a greedy
   class* in front of a part none of the swallowed bytes can start; [string_det] is the literal itself;
   [scans] / [scans_finditer] describe a COMPLETE finditer scan (used for the inner pattern of find_concat,
   which must find exactly the junctions of the chain).

   Payload classes (exact booleans): [lit_ok q p] - inside double quotes no double quote, back-tick or backslash,
   inside single quotes no single quote; [part_ok] for the chain - no quote of either kind, no back-tick, no
   backslash, and the literal does not itself begin like a spacer.  The examples of section 7 show that each
   condition is needed (with the value Python computes on the same bytes). *)
From Coq Require Import List ZArith NArith Bool Lia Arith.
From MD Require Import Lib.Base Model.Node Regex.Syntax Regex.DerivProofs Regex.MonitorProofs
  Regex.Backtrack Regex.BacktrackProofs Regex.LocalityProofs Generated.Regexes Model.Dec.ReLib.
From MD Require Import Model.Dec.XmlChr Model.Dec.EscDec Model.Dec.StrOps.
From MD Require Import Proofs.BaseProofs Proofs.EscDecProofs Proofs.StrOpsProofs Proofs.Shapes1 Proofs.Shapes2
  Proofs.RoundTrip Proofs.DefaultTotal.
Import ListNotations.
Open Scope Z_scope.

(* ------------------------------------------------------------------ *)
(* 1.  Deterministic attempts                                            *)
(* ------------------------------------------------------------------ *)
(* [det n r w x cf]: on a text that starts with w ++ x the ONLY position at which r calls its continuation
   is the end of w: the answer of the attempt IS the answer of the continuation there (so the attempt fails
   when the continuation fails).  Stronger than [runs]; needed where a string literal is followed by a part
   that must fail (the repetition of the concatenation pattern, the scan of the inner pattern). *)
Definition det (n : nat) (r : re) (w x : list N) (cf : Z -> caps -> caps) : Prop :=
  forall f p c k, p_after p = w ++ x -> (n <= f)%nat ->
    m f r p c k = k (seek (List.length w) p) (cf (p_i p) c).

Lemma det_runs n r w x cf : det n r w x cf -> runs n r w x cf.
Proof. intros H f p c k Hp Hf _. apply H; assumption. Qed.

Lemma det_mono n n' r w x cf : det n r w x cf -> (n <= n')%nat -> det n' r w x cf.
Proof. intros H Hle f p c k Hp Hf. apply H; [exact Hp | lia]. Qed.

Lemma det_ext n r w x cf cf' : (forall i c, cf i c = cf' i c) -> det n r w x cf -> det n r w x cf'.
Proof. intros E H f p c k Hp Hf. rewrite <- E. apply H; assumption. Qed.

Lemma blocked_mono n n' r x : blocked n r x -> (n <= n')%nat -> blocked n' r x.
Proof. intros H Hle f p c k Hp Hf. apply H; [exact Hp | lia]. Qed.

Lemma det_cls mk b x : N.testbit mk b = true -> det 1 (Cls mk) [b] x cf_id.
Proof.
  intros Hb f p c k Hp Hf. destruct f as [|f]; [lia|]. cbn [m].
  cbn [List.length seek]. unfold adv. rewrite Hp. cbn [app]. rewrite Hb. reflexivity.
Qed.

Lemma det_seq na nb a b wa wb x cfa cfb :
  det na a wa (wb ++ x) cfa -> det nb b wb x cfb ->
  det (S (Nat.max na nb)) (Seq a b) (wa ++ wb) x
      (fun i c => cfb (i + Z.of_nat (List.length wa)) (cfa i c)).
Proof.
  intros Ha Hb f p c k Hp Hf. destruct f as [|f]; [lia|]. cbn [m].
  rewrite <- app_assoc in Hp.
  destruct (seek_word wa p (wb ++ x) (List.length wb) Hp) as (S1 & S2 & S3).
  rewrite app_length, S1. rewrite <- S3.
  rewrite (Ha f p c (fun p' c' => m f b p' c' k) Hp ltac:(lia)).
  apply Hb; [exact S2 | lia].
Qed.

Lemma det_grp n g a w x cf :
  det n a w x cf ->
  det (S n) (Grp g a) w x (fun i c => (g, (i, i + Z.of_nat (List.length w))) :: cf i c).
Proof.
  intros Ha f p c k Hp Hf. destruct f as [|f]; [lia|]. cbn [m].
  destruct (seek_word w p x 0 Hp) as (_ & _ & S3). rewrite <- S3.
  apply (Ha f p c (fun p' c' => k p' ((g, (p_i p, p_i p')) :: c')) Hp ltac:(lia)).
Qed.

Lemma blocked_alt na nb a b x : blocked na a x -> blocked nb b x -> blocked (S (Nat.max na nb)) (Alt a b) x.
Proof.
  intros Ha Hb f p c k Hp Hf. destruct f as [|f]; [lia|]. cbn [m].
  rewrite (Ha f p c k Hp ltac:(lia)). apply Hb; [exact Hp | lia].
Qed.

Lemma det_alt_l n nb a b w x cf :
  det n a w x cf -> blocked nb b (w ++ x) -> det (S (Nat.max n nb)) (Alt a b) w x cf.
Proof.
  intros Ha Hb f p c k Hp Hf. destruct f as [|f]; [lia|]. cbn [m].
  rewrite (Ha f p c k Hp ltac:(lia)).
  destruct (k (seek (List.length w) p) (cf (p_i p) c)) eqn:E; try reflexivity.
  apply Hb; [exact Hp | lia].
Qed.

Lemma det_alt_r na n a b w x cf :
  blocked na a (w ++ x) -> det n b w x cf -> det (S (Nat.max na n)) (Alt a b) w x cf.
Proof.
  intros Ha Hb f p c k Hp Hf. destruct f as [|f]; [lia|]. cbn [m].
  rewrite (Ha f p c k Hp ltac:(lia)). apply Hb; [exact Hp | lia].
Qed.

(* a repeat whose minimum is reached and whose body fails: nothing is consumed *)
Lemma det_rep_stop_blocked nb hi a x : blocked nb a x -> det (S nb) (Rep 0 hi a) [] x cf_id.
Proof.
  intros Hb f p c k Hp Hf. destruct f as [|f]; [lia|]. cbn [m]. cbn [app] in Hp.
  destruct hi as [[|h]|]; [reflexivity | |]; rewrite (Hb f p c _ Hp ltac:(lia)); reflexivity.
Qed.

(* a deterministic part followed by a part that fails: the sequence fails *)
Lemma blocked_seq_det na nb a b w x cf :
  det na a w x cf -> blocked nb b x -> blocked (S (Nat.max na nb)) (Seq a b) (w ++ x).
Proof.
  intros Ha Hb f p c k Hp Hf. destruct f as [|f]; [lia|]. cbn [m].
  rewrite (Ha f p c _ Hp ltac:(lia)).
  destruct (seek_word w p x 0 Hp) as (_ & S2 & _). apply Hb; [exact S2 | lia].
Qed.

Lemma seek_S j p b x : p_after p = b :: x ->
  seek (S j) p = seek j {| p_i := p_i p + 1; p_before := b :: p_before p; p_after := x |}.
Proof. intros Hp. cbn [seek]. unfold adv. rewrite Hp. reflexivity. Qed.

(* class* : greedy to the end of the run; when the continuation fails at every shorter prefix, the answer
   is the answer of the continuation at the end of the run *)
Lemma m_star_cls mk : forall w f p c K y,
  Forall (fun b => N.testbit mk b = true) w -> hd_out mk y ->
  p_after p = w ++ y -> (List.length w + 2 <= f)%nat ->
  (forall j, (j < List.length w)%nat -> K (seek j p) c = NoMatch) ->
  m f (Rep 0 None (Cls mk)) p c K = K (seek (List.length w) p) c.
Proof.
  induction w as [|b w IH]; intros f p c K y HF Hy Hp Hf HK.
  - cbn [List.length app] in *. destruct f as [|f]; [lia|]. cbn [m seek].
    destruct f as [|f]; [lia|]. cbn [m]. unfold adv. rewrite Hp.
    destruct y as [|b y]; [reflexivity|]. cbn [hd_out] in Hy. rewrite Hy. reflexivity.
  - inversion HF as [|? ? Hb HF']; subst. cbn [List.length app] in *.
    destruct f as [|f]; [lia|]. cbn [m pred option_map].
    rewrite (m_cls_take f mk p c _ b (w ++ y) Hp Hb ltac:(lia)). cbn [p_i].
    replace (p_i p + 1 =? p_i p) with false by (symmetry; apply Z.eqb_neq; lia).
    rewrite (seek_S _ p b (w ++ y) Hp).
    set (p1 := {| p_i := p_i p + 1; p_before := b :: p_before p; p_after := w ++ y |}).
    assert (Hp1 : p_after p1 = w ++ y) by reflexivity.
    rewrite (IH f p1 c K y HF' Hy Hp1 ltac:(lia)).
    + destruct (K (seek (List.length w) p1) c) eqn:E; try reflexivity.
      rewrite <- (HK 0%nat ltac:(lia)). reflexivity.
    + intros j Hj. unfold p1. rewrite <- (seek_S _ p b (w ++ y) Hp). apply HK. lia.
Qed.

(* class* rest, where no byte of the run can start rest: rest is entered at the end of the run only *)
Lemma m_star_seq mk rest w y f p c k :
  startable rest = true ->
  Forall (fun b => N.testbit mk b = true /\ N.testbit (first_cls rest) b = false) w ->
  hd_out mk y -> p_after p = w ++ y -> (List.length w + 3 + spine rest <= S f)%nat ->
  m (S f) (Seq (Rep 0 None (Cls mk)) rest) p c k = m f rest (seek (List.length w) p) c k.
Proof.
  intros Hs HF Hy Hp Hf. cbn [m].
  apply (m_star_cls mk w f p c (fun p' c' => m f rest p' c' k) y); [| exact Hy | exact Hp | lia |].
  - eapply Forall_impl; [|exact HF]. intros b [H _]. exact H.
  - intros j Hj.
    assert (E : p_after p = firstn j w ++ (skipn j w ++ y)) by (rewrite app_assoc, firstn_skipn; exact Hp).
    destruct (seek_word _ p _ 0 E) as (_ & S2 & _).
    rewrite firstn_length, Nat.min_l in S2 by lia.
    apply (blocked_first rest (skipn j w ++ y) Hs); [| exact S2 | lia].
    destruct (skipn j w) as [|b t] eqn:Es.
    + exfalso. apply (f_equal (@List.length N)) in Es. rewrite skipn_length in Es. cbn [List.length] in Es. lia.
    + cbn [app hd_out]. assert (Hin : In b w) by (rewrite <- (firstn_skipn j w), Es; apply in_or_app; right; left; reflexivity).
      rewrite Forall_forall in HF. apply (HF b Hin).
Qed.

Lemma det_star_then mk rest w v x nr cf :
  startable rest = true ->
  Forall (fun b => N.testbit mk b = true /\ N.testbit (first_cls rest) b = false) w ->
  hd_out mk (v ++ x) -> det nr rest v x cf ->
  det (List.length w + 4 + Nat.max nr (spine rest)) (Seq (Rep 0 None (Cls mk)) rest) (w ++ v) x
      (fun i c => cf (i + Z.of_nat (List.length w)) c).
Proof.
  intros Hs HF Hy Hr f p c k Hp Hf. destruct f as [|f]; [lia|].
  rewrite <- app_assoc in Hp.
  rewrite (m_star_seq mk rest w (v ++ x) f p c k Hs HF Hy Hp ltac:(lia)).
  destruct (seek_word w p (v ++ x) (List.length v) Hp) as (S1 & S2 & S3).
  rewrite app_length, S1, <- S3. apply Hr; [exact S2 | lia].
Qed.

Lemma blocked_star_then mk rest w y nb :
  startable rest = true ->
  Forall (fun b => N.testbit mk b = true /\ N.testbit (first_cls rest) b = false) w ->
  hd_out mk y -> blocked nb rest y ->
  blocked (List.length w + 4 + Nat.max nb (spine rest)) (Seq (Rep 0 None (Cls mk)) rest) (w ++ y).
Proof.
  intros Hs HF Hy Hb f p c k Hp Hf. destruct f as [|f]; [lia|].
  rewrite (m_star_seq mk rest w y f p c k Hs HF Hy Hp ltac:(lia)).
  destruct (seek_word w p y 0 Hp) as (_ & S2 & _). apply Hb; [exact S2 | lia].
Qed.

(* a greedy unbounded repeat over chunks; each chunk is run over in front of the text that really follows it *)
Fixpoint chunks_run (na : nat) (a : re) (chunks : list (list N)) (x : list N) : Prop :=
  match chunks with
  | [] => True
  | w :: cs => w <> [] /\ runs na a w (concat cs ++ x) cf_id /\ chunks_run na a cs x
  end.

Lemma runs_rep_chunks_ctx na nb a x : blocked nb a x ->
  forall chunks lo, chunks_run na a chunks x -> (lo <= List.length chunks)%nat ->
    runs (List.length chunks + S (Nat.max na nb)) (Rep lo None a) (concat chunks) x cf_id.
Proof.
  intros Hb. induction chunks as [|w chunks IH]; intros lo HF Hlo.
  - cbn [List.length] in Hlo. assert (lo = 0%nat) by lia. subst lo. cbn [concat List.length].
    apply (runs_mono (S nb)); [apply runs_rep_stop_blocked; exact Hb | lia].
  - destruct HF as (Hw & Hr & HF'). cbn [concat List.length] in *.
    apply (runs_mono (S (Nat.max na (List.length chunks + S (Nat.max na nb))))); [|lia].
    apply (runs_rep_step na _ lo None a w (concat chunks) x cf_id cf_id); [discriminate | exact Hw | exact Hr |].
    apply IH; [exact HF' | lia].
Qed.

(* ------------------------------------------------------------------ *)
(* 2.  The string literal of concat.py (STRING_RE) is deterministic      *)
(* ------------------------------------------------------------------ *)
(* the payload classes: what may stand between the quotes without any escape *)
Definition dq_char (c : N) : bool := ((c <? 256) && negb (c =? 34) && negb (c =? 96) && negb (c =? 92))%N.
Definition sq_char (c : N) : bool := ((c <? 256) && negb (c =? 39))%N.
Definition lit_char (q c : N) : bool := if (q =? 34)%N then dq_char c else sq_char c.
Definition lit_ok (q : N) (p : bytes) : bool := forallb (lit_char q) p.
Definition quoted (q : N) (p : bytes) : bytes := q :: p ++ [q].
(* the byte after the closing quote (if any) is not the same quote: otherwise the doubled-quote escape
   of the pattern continues the literal *)
Definition stop_q (q : N) (x : bytes) : bool := match x with [] => true | b :: _ => negb (b =? q)%N end.

Lemma dq_char_lt c : dq_char c = true -> (c < 256)%N.
Proof. unfold dq_char. intros H. rewrite !andb_true_iff in H. apply N.ltb_lt. apply H. Qed.
Lemma sq_char_lt c : sq_char c = true -> (c < 256)%N.
Proof. unfold sq_char. intros H. rewrite !andb_true_iff in H. apply N.ltb_lt. apply H. Qed.

Lemma Forall_table (P T : N -> bool) w :
  (forall c, P c = true -> (c < 256)%N) ->
  forallb (fun c => implb (P c) (T c)) bytes256 = true ->
  forallb P w = true -> Forall (fun c => T c = true) w.
Proof.
  intros Hlt Hchk Hw. apply Forall_forall. intros c Hc. rewrite forallb_forall in Hw, Hchk.
  specialize (Hw c Hc). specialize (Hchk c (bytes256_in c (Hlt c Hw))). rewrite Hw in Hchk. exact Hchk.
Qed.

(* bytes of class P are in the mask mk and outside the first set of rest *)
Lemma Forall_in_out (P : N -> bool) mk fc w :
  (forall c, P c = true -> (c < 256)%N) ->
  forallb (fun c => implb (P c) (N.testbit mk c && negb (N.testbit fc c))) bytes256 = true ->
  forallb P w = true -> Forall (fun b => N.testbit mk b = true /\ N.testbit fc b = false) w.
Proof.
  intros Hlt Hchk Hw.
  pose proof (Forall_table P (fun c => N.testbit mk c && negb (N.testbit fc c)) w Hlt Hchk Hw) as H.
  eapply Forall_impl; [|exact H]. cbv beta. intros c Hc. apply andb_true_iff in Hc. destruct Hc as [H1 H2].
  apply negb_true_iff in H2. split; assumption.
Qed.

Lemma hd_out_stop mk q x :
  mask_ok mk = true ->
  forallb (fun c => implb (negb (c =? q)%N) (negb (N.testbit mk c))) bytes256 = true ->
  stop_q q x = true -> hd_out mk x.
Proof.
  intros Hm Hchk Hx. apply (hd_out_of_pred mk (fun c => negb (c =? q)%N)); [exact Hm | exact Hchk |].
  destruct x as [|b x]; [exact I | exact Hx].
Qed.

Ltac hd_tac :=
  first [ hd_goal
        | eapply hd_out_stop; [ | | eassumption]; vm_compute; reflexivity ].
(* failure of a part by inspection of its alternatives and leading literal bytes *)
Ltac blk_tac :=
  cbn [app];
  lazymatch goal with
  | |- blocked _ (Alt _ _) _ => eapply blocked_alt; [blk_tac | blk_tac]
  | _ => first [ eapply blocked_first; [vm_compute; reflexivity | hd_tac]
               | eapply blocked_seq_cls; [vm_compute; reflexivity | blk_tac] ]
  end.

Lemma dq_string_det p x :
  forallb dq_char p = true -> stop_q 34 x = true ->
  det (List.length p + 40) RE_concat_STRING_RE (quoted 34 p) x cf_id.
Proof.
  intros HF Hx. unfold RE_concat_STRING_RE, quoted.
  eapply det_ext; [| eapply det_mono; [eapply det_alt_l|] ].
  2:{ eapply (det_seq _ _ _ _ [34%N] (p ++ [34%N]) x); [eapply det_cls; vm_compute; reflexivity|].
      eapply (det_seq _ _ _ _ [] (p ++ [34%N]) x).
      - eapply det_rep_stop_blocked. rewrite <- app_assoc.
        eapply blocked_star_then;
          [ vm_compute; reflexivity
          | eapply (Forall_in_out dq_char); [exact dq_char_lt | vm_compute; reflexivity | exact HF]
          | hd_goal
          | blk_tac ].
      - eapply det_star_then;
          [ vm_compute; reflexivity
          | eapply (Forall_in_out dq_char); [exact dq_char_lt | vm_compute; reflexivity | exact HF]
          | hd_goal
          | eapply det_cls; vm_compute; reflexivity ]. }
  2:{ blk_tac. }
  2:{ cbn [spine nullable List.length]. lia. }
  intros i c. reflexivity.
Qed.

Lemma sq_string_det p x :
  forallb sq_char p = true -> stop_q 39 x = true ->
  det (List.length p + 40) RE_concat_STRING_RE (quoted 39 p) x cf_id.
Proof.
  intros HF Hx. unfold RE_concat_STRING_RE, quoted.
  eapply det_ext; [| eapply det_mono; [eapply det_alt_r|] ].
  2:{ blk_tac. }
  2:{ eapply (det_seq _ _ _ _ [39%N] (p ++ [39%N]) x); [eapply det_cls; vm_compute; reflexivity|].
      eapply (det_seq _ _ _ _ [] (p ++ [39%N]) x).
      - eapply det_rep_stop_blocked. rewrite <- app_assoc.
        eapply blocked_star_then;
          [ vm_compute; reflexivity
          | eapply (Forall_in_out sq_char); [exact sq_char_lt | vm_compute; reflexivity | exact HF]
          | hd_goal
          | blk_tac ].
      - eapply det_star_then;
          [ vm_compute; reflexivity
          | eapply (Forall_in_out sq_char); [exact sq_char_lt | vm_compute; reflexivity | exact HF]
          | hd_goal
          | eapply det_cls; vm_compute; reflexivity ]. }
  2:{ cbn [spine nullable List.length]. lia. }
  intros i c. reflexivity.
Qed.

(* STRING_RE over a quoted payload of the class of its quote: one way to match, ending at the closing quote *)
Theorem string_det q p x :
  is_quote q -> lit_ok q p = true -> stop_q q x = true ->
  det (List.length p + 40) RE_concat_STRING_RE (quoted q p) x cf_id.
Proof.
  intros [-> | ->] HF Hx; [apply dq_string_det | apply sq_string_det]; assumption.
Qed.

Lemma string_runs q p x :
  is_quote q -> lit_ok q p = true -> stop_q q x = true ->
  runs (List.length p + 40) RE_concat_STRING_RE (quoted q p) x cf_id.
Proof. intros Hq HF Hx. apply det_runs. apply string_det; assumption. Qed.

(* ------------------------------------------------------------------ *)
(* 3.  The generated patterns run over their forms                       *)
(* ------------------------------------------------------------------ *)
(* optional white space where the patterns allow it *)
Definition ws_ok (w : bytes) : bool := forallb is_space_ascii w.

Lemma is_space_lt c : is_space_ascii c = true -> (c < 256)%N.
Proof.
  unfold is_space_ascii. intros H. apply orb_true_iff in H. destruct H as [H|H].
  - apply N.eqb_eq in H. subst c. reflexivity.
  - apply andb_true_iff in H. destruct H as [_ H]. apply N.leb_le in H. lia.
Qed.

Lemma ws_mask mk w :
  forallb (fun c => implb (is_space_ascii c) (N.testbit mk c)) bytes256 = true ->
  ws_ok w = true -> Forall (fun c => N.testbit mk c = true) w.
Proof. intros Hchk Hw. exact (Forall_table is_space_ascii (N.testbit mk) w is_space_lt Hchk Hw). Qed.

Lemma stop_q_ws q w y x :
  is_quote q -> ws_ok w = true -> stop_q q (y ++ x) = true -> stop_q q ((w ++ y) ++ x) = true.
Proof.
  intros Hq Hw Hy. destruct w as [|b w]; [exact Hy|]. cbn [app stop_q]. cbn [ws_ok forallb] in Hw.
  apply andb_true_iff in Hw. destruct Hw as [Hb _]. apply negb_true_iff. apply N.eqb_neq. intros ->.
  destruct Hq as [-> | ->]; discriminate Hb.
Qed.

Lemma is_quote_34 : is_quote 34. Proof. left. reflexivity. Qed.
Lemma is_quote_39 : is_quote 39. Proof. right. reflexivity. Qed.

Ltac quote_tac := first [exact is_quote_34 | exact is_quote_39 | assumption].
Ltac ws_run H := eapply runs_rep_cls; [eapply ws_mask; [vm_compute; reflexivity | exact H] | hd_goal | apply Nat.le_0_l].
Ltac low_out := cbn [hd_out app]; eapply testbit_lower_out; [eassumption | vm_compute; reflexivity | vm_compute; reflexivity].
Ltac fuel_tac := cbn [spine nullable]; unfold quoted; rewrite ?app_length; cbn [List.length]; lia.
Ltac cf_tac :=
  intros ? ?; cbv beta; unfold cf_id, blen, quoted; rewrite ?app_length; cbn [List.length];
  repeat match goal with
         | |- _ :: _ = _ :: _ => apply f_equal2
         | |- (_, _) = (_, _) => apply f_equal2
         end; try reflexivity; lia.

(* white-space* ( STRING ) white-space* ")"  *)
Ltac arg_close ws1 s ws2 H1 H2 HF :=
  lazymatch goal with |- runs _ _ (ws1 ++ quoted ?q s ++ _) _ _ =>
  eapply (runs_seq _ _ _ _ ws1 (quoted q s ++ ws2 ++ [41%N]));
    [ ws_run H1
    | eapply (runs_seq _ _ _ _ (quoted q s) (ws2 ++ [41%N]));
      [ eapply runs_grp; eapply string_runs; [quote_tac | exact HF | apply stop_q_ws; [quote_tac | exact H2 | reflexivity]]
      | eapply (runs_seq _ _ _ _ ws2 [41%N]); [ws_run H2 | eapply runs_cls; vm_compute; reflexivity] ] ]
  end.

Lemma reverse_runs nm ws1 q s ws2 suf :
  lower nm = L"reverse(" -> ws_ok ws1 = true -> ws_ok ws2 = true -> is_quote q -> lit_ok q s = true ->
  runs (List.length s + List.length ws1 + List.length ws2 + 100) RE_reverse_REVERSE_RE
       (nm ++ ws1 ++ quoted q s ++ ws2 ++ [41%N]) suf
       (fun i c => (1%nat, (i + 8 + blen ws1, i + 8 + blen ws1 + blen (quoted q s))) :: c).
Proof.
  intros Hnm H1 H2 Hq HF.
  change (L"reverse(") with [114; 101; 118; 101; 114; 115; 101; 40]%N in Hnm.
  split_name Hnm. unfold RE_reverse_REVERSE_RE. cbn [app].
  destruct Hq as [-> | ->].
  all: eapply runs_ext;
    [ | eapply runs_mono;
        [ step_lits;
          eapply runs_seq_skip; [eapply runs_opt_skip; [vm_compute; reflexivity | low_out] |];
          step_lits; arg_close ws1 s ws2 H1 H2 HF
        | fuel_tac ] ];
    cf_tac.
Qed.

Ltac low_in := eapply testbit_lower; [eassumption | vm_compute; reflexivity | vm_compute; reflexivity].

(* the spelling with the optional d *)
Lemma reversed_runs nm ws1 q s ws2 suf :
  lower nm = L"reversed(" -> ws_ok ws1 = true -> ws_ok ws2 = true -> is_quote q -> lit_ok q s = true ->
  runs (List.length s + List.length ws1 + List.length ws2 + 100) RE_reverse_REVERSE_RE
       (nm ++ ws1 ++ quoted q s ++ ws2 ++ [41%N]) suf
       (fun i c => (1%nat, (i + 9 + blen ws1, i + 9 + blen ws1 + blen (quoted q s))) :: c).
Proof.
  intros Hnm H1 H2 Hq HF.
  change (L"reversed(") with [114; 101; 118; 101; 114; 115; 101; 100; 40]%N in Hnm.
  split_name Hnm. unfold RE_reverse_REVERSE_RE. cbn [app].
  destruct Hq as [-> | ->].
  all: eapply runs_ext;
    [ | eapply runs_mono;
        [ step_lits;
          eapply (runs_seq _ _ _ _ [_] _); [eapply runs_opt_take; low_in |];
          step_lits; arg_close ws1 s ws2 H1 H2 HF
        | fuel_tac ] ];
    cf_tac.
Qed.

Lemma strreverse_runs nm ws1 q s ws2 suf :
  lower nm = L"strreverse(" -> ws_ok ws1 = true -> ws_ok ws2 = true -> is_quote q -> lit_ok q s = true ->
  runs (List.length s + List.length ws1 + List.length ws2 + 100) RE_vba_STRREVERSE_RE
       (nm ++ ws1 ++ quoted q s ++ ws2 ++ [41%N]) suf
       (fun i c => (1%nat, (i + 11 + blen ws1, i + 11 + blen ws1 + blen (quoted q s))) :: c).
Proof.
  intros Hnm H1 H2 Hq HF.
  change (L"strreverse(") with [115; 116; 114; 114; 101; 118; 101; 114; 115; 101; 40]%N in Hnm.
  split_name Hnm. unfold RE_vba_STRREVERSE_RE. cbn [app].
  destruct Hq as [-> | ->].
  all: eapply runs_ext;
    [ | eapply runs_mono; [ step_lits; arg_close ws1 s ws2 H1 H2 HF | fuel_tac ] ];
    cf_tac.
Qed.

(* ------------------------------------------------------------------ *)
(* 4.  Round trips: reverse / StrReverse                                 *)
(* ------------------------------------------------------------------ *)
Lemma forallb_rev {A} (f : A -> bool) l : forallb f (rev l) = forallb f l.
Proof.
  induction l as [|a l IH]; [reflexivity|]. cbn [rev forallb]. rewrite forallb_app, IH. cbn [forallb].
  rewrite andb_true_r. apply andb_comm.
Qed.

Lemma lit_ok_rev q p : lit_ok q (rev p) = lit_ok q p.
Proof. apply forallb_rev. Qed.

Lemma blen_quoted q p : blen (quoted q p) = blen p + 2.
Proof. unfold quoted, blen. cbn [List.length]. rewrite app_length. cbn [List.length]. lia. Qed.

(* the common part of find_reverse / find_strreverse *)
Theorem rev_form_roundtrip ty obf r ng pre lit ws1 q s ws2 suf n :
  mand_ok r ng [1%nat] = true -> (1 <= ng)%nat ->
  runs n r (lit ++ ws1 ++ quoted q s ++ ws2 ++ [41%N]) suf
       (fun i c => (1%nat, (i + blen lit + blen ws1, i + blen lit + blen ws1 + blen (quoted q s))) :: c) ->
  (n <= default_fuel)%nat -> lit <> [] ->
  let form := lit ++ ws1 ++ quoted q s ++ ws2 ++ [41%N] in
  let data := pre ++ form ++ suf in
  quiet default_fuel r (List.length pre) (start_pos data) ->
  find_and_deobfuscate ty r ng data (fun t => Ok (rev_slice t, obf)) 1 0 = Hang \/
  exists rest, find_and_deobfuscate ty r ng data (fun t => Ok (rev_slice t, obf)) 1 0
               = Ok (Node ty (rev s) obf (blen pre) (blen pre + blen form) [] :: rest) /\
               Forall (fun nd => blen pre + blen form <= n_st nd) rest.
Proof.
  intros Hm Hng R Hn Hlit form data Hq.
  assert (Hfne : form <> []) by (unfold form; destruct lit; [congruence | discriminate]).
  unfold find_and_deobfuscate.
  destruct (fi_form r ng pre form suf _ _ Hq R Hn Hfne) as [H | (rest & Hfi & Hrest)].
  { left. fold data in H. rewrite H. reflexivity. }
  fold data in Hfi. right.
  destruct (fi_spans r ng data [1%nat] Hm) as [H | (ms & Hms & Hall)]; [rewrite Hfi in H; discriminate H|].
  rewrite Hfi in Hms. injection Hms as <-.
  rewrite Hfi. cbn [bind].
  rewrite (deob_rev_post_total ty obf data _).
  2:{ eapply Forall_impl; [|exact Hall]. intros mt [H0 H1]. split; [exact H0 | apply H1; left; reflexivity]. }
  set (s0 := blen pre) in *. set (e := s0 + blen form) in *.
  set (g1 := (s0 + blen lit + blen ws1, s0 + blen lit + blen ws1 + blen (quoted q s))) in *.
  destruct (mk_mtch_g1 ng s0 e g1 [] Hng) as [N0 N1].
  set (mt := mk_mtch ng s0 e [(1%nat, g1)]) in *.
  assert (Eg : group data mt 1 = quoted q s).
  { unfold group. rewrite N1. unfold g1, s0.
    replace data with ((pre ++ lit ++ ws1) ++ quoted q s ++ (ws2 ++ [41%N] ++ suf)).
    - replace (blen pre + blen lit + blen ws1) with (blen (pre ++ lit ++ ws1)) by (rewrite !blen_app; lia).
      apply slice_mid.
    - unfold data, form. rewrite <- !app_assoc. reflexivity. }
  assert (Es : m_start mt 0 = s0) by (unfold m_start, span; rewrite N0; reflexivity).
  assert (Ee : m_end mt 0 = e) by (unfold m_end, span; rewrite N0; reflexivity).
  cbn [map]. rewrite Eg, Es, Ee. unfold quoted at 1. rewrite slice_strip_quotes.
  eexists. split; [reflexivity|].
  - apply Forall_map. eapply Forall_impl; [|exact Hrest]. intros m0 Hm0. cbn [n_st]. exact Hm0.
Qed.

Lemma lower_nonempty nm l : lower nm = l -> l <> [] -> nm <> [].
Proof. intros H Hl ->. apply Hl. symmetry. exact H. Qed.

(* ---- find_reverse: reverse( / reversed( in any letter case, optional white space, either quote ---- *)
Theorem find_reverse_roundtrip_quiet nm pre ws1 q p ws2 suf :
  lower nm = L"reverse(" \/ lower nm = L"reversed(" ->
  ws_ok ws1 = true -> ws_ok ws2 = true -> is_quote q -> lit_ok q p = true ->
  (List.length p + List.length ws1 + List.length ws2 + 100 <= default_fuel)%nat ->
  let form := nm ++ ws1 ++ quoted q (rev p) ++ ws2 ++ L")" in
  let data := pre ++ form ++ suf in
  quiet default_fuel RE_reverse_REVERSE_RE (List.length pre) (start_pos data) ->
  find_reverse data = Hang \/
  exists rest, find_reverse data
               = Ok (Node (L"string") p (L"reverse") (blen pre) (blen pre + blen form) [] :: rest) /\
               Forall (fun nd => blen pre + blen form <= n_st nd) rest.
Proof.
  intros Hnm H1 H2 Hq HF Hfuel form data Hquiet.
  rewrite <- (rev_involutive p).
  assert (HF' : lit_ok q (rev p) = true) by (rewrite lit_ok_rev; exact HF).
  assert (Hl : List.length (rev p) = List.length p) by apply rev_length.
  destruct Hnm as [Hnm | Hnm].
  - apply (rev_form_roundtrip (L"string") (L"reverse") RE_reverse_REVERSE_RE NG_reverse_REVERSE_RE pre nm ws1 q (rev p) ws2 suf
             (List.length (rev p) + List.length ws1 + List.length ws2 + 100) reverse_mandatory);
      [vm_compute; lia | | lia | apply (lower_nonempty _ _ Hnm); discriminate | exact Hquiet].
    rewrite (lower_blen _ _ Hnm). exact (reverse_runs nm ws1 q (rev p) ws2 suf Hnm H1 H2 Hq HF').
  - apply (rev_form_roundtrip (L"string") (L"reverse") RE_reverse_REVERSE_RE NG_reverse_REVERSE_RE pre nm ws1 q (rev p) ws2 suf
             (List.length (rev p) + List.length ws1 + List.length ws2 + 100) reverse_mandatory);
      [vm_compute; lia | | lia | apply (lower_nonempty _ _ Hnm); discriminate | exact Hquiet].
    rewrite (lower_blen _ _ Hnm). exact (reversed_runs nm ws1 q (rev p) ws2 suf Hnm H1 H2 Hq HF').
Qed.

Theorem find_reverse_roundtrip nm pre ws1 q p ws2 suf :
  lower nm = L"reverse(" \/ lower nm = L"reversed(" ->
  ws_ok ws1 = true -> ws_ok ws2 = true -> is_quote q -> lit_ok q p = true ->
  (List.length p + List.length ws1 + List.length ws2 + 100 <= default_fuel)%nat ->
  neutral RE_reverse_REVERSE_RE pre = true ->
  let form := nm ++ ws1 ++ quoted q (rev p) ++ ws2 ++ L")" in
  let data := pre ++ form ++ suf in
  find_reverse data = Hang \/
  exists rest, find_reverse data
               = Ok (Node (L"string") p (L"reverse") (blen pre) (blen pre + blen form) [] :: rest) /\
               Forall (fun nd => blen pre + blen form <= n_st nd) rest.
Proof.
  intros Hnm H1 H2 Hq HF Hfuel Hn form data.
  apply find_reverse_roundtrip_quiet; try assumption.
  apply quiet_no_first; [vm_compute; reflexivity | spine_goal | exact Hn].
Qed.

(* the plain spelling of the assignment: reverse("...") *)
Corollary find_reverse_roundtrip_spelled pre q p suf :
  is_quote q -> lit_ok q p = true -> (List.length p + 100 <= default_fuel)%nat ->
  neutral RE_reverse_REVERSE_RE pre = true ->
  let form := L"reverse(" ++ quoted q (rev p) ++ L")" in
  let data := pre ++ form ++ suf in
  find_reverse data = Hang \/
  exists rest, find_reverse data
               = Ok (Node (L"string") p (L"reverse") (blen pre) (blen pre + blen form) [] :: rest) /\
               Forall (fun nd => blen pre + blen form <= n_st nd) rest.
Proof.
  intros Hq HF Hfuel Hn.
  apply (find_reverse_roundtrip (L"reverse(") pre [] q p [] suf); try assumption; try reflexivity.
  - left. reflexivity.
  - cbn [List.length]. lia.
Qed.

(* ---- find_strreverse: StrReverse( in any letter case ---- *)
Theorem find_strreverse_roundtrip_quiet nm pre ws1 q p ws2 suf :
  lower nm = L"strreverse(" ->
  ws_ok ws1 = true -> ws_ok ws2 = true -> is_quote q -> lit_ok q p = true ->
  (List.length p + List.length ws1 + List.length ws2 + 100 <= default_fuel)%nat ->
  let form := nm ++ ws1 ++ quoted q (rev p) ++ ws2 ++ L")" in
  let data := pre ++ form ++ suf in
  quiet default_fuel RE_vba_STRREVERSE_RE (List.length pre) (start_pos data) ->
  find_strreverse data = Hang \/
  exists rest, find_strreverse data
               = Ok (Node (L"vba.string") p (L"vba.reverse") (blen pre) (blen pre + blen form) [] :: rest) /\
               Forall (fun nd => blen pre + blen form <= n_st nd) rest.
Proof.
  intros Hnm H1 H2 Hq HF Hfuel form data Hquiet.
  rewrite <- (rev_involutive p).
  assert (HF' : lit_ok q (rev p) = true) by (rewrite lit_ok_rev; exact HF).
  assert (Hl : List.length (rev p) = List.length p) by apply rev_length.
  apply (rev_form_roundtrip (L"vba.string") (L"vba.reverse") RE_vba_STRREVERSE_RE NG_vba_STRREVERSE_RE pre nm ws1 q (rev p) ws2 suf
           (List.length (rev p) + List.length ws1 + List.length ws2 + 100) strreverse_mandatory);
    [vm_compute; lia | | lia | apply (lower_nonempty _ _ Hnm); discriminate | exact Hquiet].
  rewrite (lower_blen _ _ Hnm). exact (strreverse_runs nm ws1 q (rev p) ws2 suf Hnm H1 H2 Hq HF').
Qed.

Theorem find_strreverse_roundtrip nm pre ws1 q p ws2 suf :
  lower nm = L"strreverse(" ->
  ws_ok ws1 = true -> ws_ok ws2 = true -> is_quote q -> lit_ok q p = true ->
  (List.length p + List.length ws1 + List.length ws2 + 100 <= default_fuel)%nat ->
  neutral RE_vba_STRREVERSE_RE pre = true ->
  let form := nm ++ ws1 ++ quoted q (rev p) ++ ws2 ++ L")" in
  let data := pre ++ form ++ suf in
  find_strreverse data = Hang \/
  exists rest, find_strreverse data
               = Ok (Node (L"vba.string") p (L"vba.reverse") (blen pre) (blen pre + blen form) [] :: rest) /\
               Forall (fun nd => blen pre + blen form <= n_st nd) rest.
Proof.
  intros Hnm H1 H2 Hq HF Hfuel Hn form data.
  apply find_strreverse_roundtrip_quiet; try assumption.
  apply quiet_no_first; [vm_compute; reflexivity | spine_goal | exact Hn].
Qed.

Corollary find_strreverse_roundtrip_spelled pre q p suf :
  is_quote q -> lit_ok q p = true -> (List.length p + 100 <= default_fuel)%nat ->
  neutral RE_vba_STRREVERSE_RE pre = true ->
  let form := L"StrReverse(" ++ quoted q (rev p) ++ L")" in
  let data := pre ++ form ++ suf in
  find_strreverse data = Hang \/
  exists rest, find_strreverse data
               = Ok (Node (L"vba.string") p (L"vba.reverse") (blen pre) (blen pre + blen form) [] :: rest) /\
               Forall (fun nd => blen pre + blen form <= n_st nd) rest.
Proof.
  intros Hq HF Hfuel Hn.
  apply (find_strreverse_roundtrip (L"StrReverse(") pre [] q p [] suf); try assumption; try reflexivity.
  cbn [List.length]. lia.
Qed.

(* ------------------------------------------------------------------ *)
(* 5.  The three replace spellings                                       *)
(* ------------------------------------------------------------------ *)
Lemma lower1_nonletter n l :
  lower1 n = l -> is_lower_ascii l = false -> n = l.
Proof.
  unfold lower1. destruct (is_upper_ascii n) eqn:E; intros H Hl; [|exact H]. exfalso.
  unfold is_upper_ascii in E. apply andb_true_iff in E. destruct E as [E1 E2].
  apply N.leb_le in E1. apply N.leb_le in E2. subst l. unfold is_lower_ascii in Hl.
  apply andb_false_iff in Hl. destruct Hl as [Hl|Hl]; apply N.leb_gt in Hl; lia.
Qed.

Ltac ws_then ws H := eapply (runs_seq _ _ _ _ ws _); [ws_run H|].
Ltac str_core HF stop_tac := eapply runs_grp; eapply string_runs; [quote_tac | exact HF | stop_tac].
Ltac str_then q s HF stop_tac := eapply (runs_seq _ _ _ _ (quoted q s) _); [str_core HF stop_tac|].
Ltac str_auto s HF stop_tac :=
  lazymatch goal with |- runs _ _ (quoted ?q s ++ _) _ _ => str_then q s HF stop_tac end.
Ltac stop_ws H := apply stop_q_ws; [quote_tac | exact H | reflexivity].

(* "x".replace( "a" , "b" ) *)
Lemma replace_runs nm q1 x ws1 q2 a ws2 ws3 q3 b ws4 suf :
  lower nm = L".replace(" ->
  is_quote q1 -> is_quote q2 -> is_quote q3 ->
  lit_ok q1 x = true -> lit_ok q2 a = true -> lit_ok q3 b = true ->
  ws_ok ws1 = true -> ws_ok ws2 = true -> ws_ok ws3 = true -> ws_ok ws4 = true ->
  runs (List.length x + List.length a + List.length b
        + List.length ws1 + List.length ws2 + List.length ws3 + List.length ws4 + 200) RE_replace_REPLACE_RE
       (quoted q1 x ++ nm ++ ws1 ++ quoted q2 a ++ ws2 ++ [44%N] ++ ws3 ++ quoted q3 b ++ ws4 ++ [41%N]) suf
       (fun i c =>
          let o2 := i + blen (quoted q1 x) + 9 + blen ws1 in
          let o3 := o2 + blen (quoted q2 a) + blen ws2 + 1 + blen ws3 in
          (3%nat, (o3, o3 + blen (quoted q3 b))) :: (2%nat, (o2, o2 + blen (quoted q2 a)))
          :: (1%nat, (i, i + blen (quoted q1 x))) :: c).
Proof.
  intros Hnm Hq1 Hq2 Hq3 F1 F2 F3 W1 W2 W3 W4.
  change (L".replace(") with [46; 114; 101; 112; 108; 97; 99; 101; 40]%N in Hnm.
  split_name Hnm. unfold RE_replace_REPLACE_RE. cbn [app].
  match goal with H : lower1 ?n = 46%N |- _ => apply lower1_nonletter in H; [subst n | reflexivity] end.
  destruct Hq1 as [-> | ->]; destruct Hq2 as [-> | ->]; destruct Hq3 as [-> | ->].
  all: eapply runs_ext;
    [ | eapply runs_mono;
        [ str_auto x F1 ltac:(reflexivity);
          step_lits; ws_then ws1 W1;
          str_auto a F2 ltac:(stop_ws W2);
          ws_then ws2 W2; step_lits; ws_then ws3 W3;
          str_auto b F3 ltac:(stop_ws W4);
          ws_then ws4 W4; eapply runs_cls; vm_compute; reflexivity
        | fuel_tac ] ];
    cf_tac.
Qed.

(* Replace( "x" , "a" , "b" ) *)
Lemma vba_replace_runs nm ws1 q1 x ws2 ws3 q2 a ws4 ws5 q3 b ws6 suf :
  lower nm = L"replace(" ->
  is_quote q1 -> is_quote q2 -> is_quote q3 ->
  lit_ok q1 x = true -> lit_ok q2 a = true -> lit_ok q3 b = true ->
  ws_ok ws1 = true -> ws_ok ws2 = true -> ws_ok ws3 = true -> ws_ok ws4 = true -> ws_ok ws5 = true -> ws_ok ws6 = true ->
  runs (List.length x + List.length a + List.length b
        + List.length ws1 + List.length ws2 + List.length ws3 + List.length ws4 + List.length ws5 + List.length ws6 + 200)
       RE_replace_VBA_REPLACE_RE
       (nm ++ ws1 ++ quoted q1 x ++ ws2 ++ [44%N] ++ ws3 ++ quoted q2 a ++ ws4 ++ [44%N] ++ ws5 ++ quoted q3 b ++ ws6 ++ [41%N]) suf
       (fun i c =>
          let o1 := i + 8 + blen ws1 in
          let o2 := o1 + blen (quoted q1 x) + blen ws2 + 1 + blen ws3 in
          let o3 := o2 + blen (quoted q2 a) + blen ws4 + 1 + blen ws5 in
          (3%nat, (o3, o3 + blen (quoted q3 b))) :: (2%nat, (o2, o2 + blen (quoted q2 a)))
          :: (1%nat, (o1, o1 + blen (quoted q1 x))) :: c).
Proof.
  intros Hnm Hq1 Hq2 Hq3 F1 F2 F3 W1 W2 W3 W4 W5 W6.
  change (L"replace(") with [114; 101; 112; 108; 97; 99; 101; 40]%N in Hnm.
  split_name Hnm. unfold RE_replace_VBA_REPLACE_RE. cbn [app].
  destruct Hq1 as [-> | ->]; destruct Hq2 as [-> | ->]; destruct Hq3 as [-> | ->].
  all: eapply runs_ext;
    [ | eapply runs_mono;
        [ step_lits; ws_then ws1 W1;
          str_auto x F1 ltac:(stop_ws W2); ws_then ws2 W2; step_lits; ws_then ws3 W3;
          str_auto a F2 ltac:(stop_ws W4); ws_then ws4 W4; step_lits; ws_then ws5 W5;
          str_auto b F3 ltac:(stop_ws W6); ws_then ws6 W6; eapply runs_cls; vm_compute; reflexivity
        | fuel_tac ] ];
    cf_tac.
Qed.

(* 'x' -replace 'a' , 'b'   (the pattern ends with the third literal: the suffix must not start with its quote) *)
Lemma ps_replace_runs nm q1 x ws1 ws2 q2 a ws3 ws4 q3 b suf :
  lower nm = L"-replace" ->
  is_quote q1 -> is_quote q2 -> is_quote q3 ->
  lit_ok q1 x = true -> lit_ok q2 a = true -> lit_ok q3 b = true ->
  ws_ok ws1 = true -> ws_ok ws2 = true -> ws_ok ws3 = true -> ws_ok ws4 = true ->
  stop_q q3 suf = true ->
  runs (List.length x + List.length a + List.length b
        + List.length ws1 + List.length ws2 + List.length ws3 + List.length ws4 + 200) RE_replace_POWERSHELL_REPLACE_RE
       (quoted q1 x ++ ws1 ++ nm ++ ws2 ++ quoted q2 a ++ ws3 ++ [44%N] ++ ws4 ++ quoted q3 b) suf
       (fun i c =>
          let o2 := i + blen (quoted q1 x) + blen ws1 + 8 + blen ws2 in
          let o3 := o2 + blen (quoted q2 a) + blen ws3 + 1 + blen ws4 in
          (3%nat, (o3, o3 + blen (quoted q3 b))) :: (2%nat, (o2, o2 + blen (quoted q2 a)))
          :: (1%nat, (i, i + blen (quoted q1 x))) :: c).
Proof.
  intros Hnm Hq1 Hq2 Hq3 F1 F2 F3 W1 W2 W3 W4 Hstop.
  change (L"-replace") with [45; 114; 101; 112; 108; 97; 99; 101]%N in Hnm.
  split_name Hnm. unfold RE_replace_POWERSHELL_REPLACE_RE. cbn [app].
  match goal with H : lower1 ?n = 45%N |- _ => apply lower1_nonletter in H; [subst n | reflexivity] end.
  destruct Hq1 as [-> | ->]; destruct Hq2 as [-> | ->]; destruct Hq3 as [-> | ->].
  all: eapply runs_ext;
    [ | eapply runs_mono;
        [ str_auto x F1 ltac:(stop_ws W1); ws_then ws1 W1; step_lits; ws_then ws2 W2;
          str_auto a F2 ltac:(stop_ws W3); ws_then ws3 W3; step_lits; ws_then ws4 W4;
          str_core F3 ltac:(exact Hstop)
        | fuel_tac ] ];
    cf_tac.
Qed.

Ltac cf_eq :=
  repeat match goal with
         | |- _ :: _ = _ :: _ => apply f_equal2
         | |- (_, _) = (_, _) => apply f_equal2
         end; try reflexivity; lia.

Lemma slice_at {A} (u v w : list A) s : s = blen u -> slice (u ++ v ++ w) s (s + blen v) = v.
Proof. intros ->. apply slice_mid. Qed.

(* the common part of the three decoders *)
Theorem replace_form_roundtrip ty obf r pre A q1 x B q2 a C q3 b D suf n :
  mand_ok r 3 [1; 2; 3]%nat = true ->
  let form := A ++ quoted q1 x ++ B ++ quoted q2 a ++ C ++ quoted q3 b ++ D in
  runs n r form suf
       (fun i c =>
          let o1 := i + blen A in
          let o2 := o1 + blen (quoted q1 x) + blen B in
          let o3 := o2 + blen (quoted q2 a) + blen C in
          (3%nat, (o3, o3 + blen (quoted q3 b))) :: (2%nat, (o2, o2 + blen (quoted q2 a)))
          :: (1%nat, (o1, o1 + blen (quoted q1 x))) :: c) ->
  (n <= default_fuel)%nat ->
  let data := pre ++ form ++ suf in
  quiet default_fuel r (List.length pre) (start_pos data) ->
  (do ms <- fi r 3 data; mapM (replace_node ty obf true data) ms) = Hang \/
  exists rest, (do ms <- fi r 3 data; mapM (replace_node ty obf true data) ms)
               = Ok (Node ty (py_replace x a b) obf (blen pre) (blen pre + blen form) [] :: rest) /\
               Forall (fun nd => blen pre + blen form <= n_st nd) rest.
Proof.
  intros Hm form R Hn data Hq.
  assert (Hfne : form <> []) by (unfold form, quoted; destruct A; discriminate).
  destruct (fi_form r 3 pre form suf _ _ Hq R Hn Hfne) as [H | (rest & Hfi & Hrest)].
  { left. fold data in H. rewrite H. reflexivity. }
  fold data in Hfi. right.
  destruct (fi_spans r 3 data [1; 2; 3]%nat Hm) as [H | (ms & Hms & Hall)]; [rewrite Hfi in H; discriminate H|].
  rewrite Hfi in Hms. injection Hms as <-. inversion Hall as [|? ? _ Hall']; subst.
  rewrite Hfi. cbn [bind].
  set (g := fun m0 => Node ty (py_replace (slice (group data m0 1) 1 (-1)) (slice (group data m0 2) 1 (-1))
                                     (slice (group data m0 3) 1 (-1))) obf (m_start m0 0) (m_end m0 0) []).
  assert (Erest : mapM (replace_node ty obf true data) rest = Ok (map g rest)).
  { apply mapM_map_ok. eapply Forall_impl; [|exact Hall']. intros m0 (_ & Hg). unfold replace_node.
    rewrite (group_req_ok _ _ _ _ (Hg 1%nat ltac:(cbn; tauto))),
            (group_req_ok _ _ _ _ (Hg 2%nat ltac:(cbn; tauto))),
            (group_req_ok _ _ _ _ (Hg 3%nat ltac:(cbn; tauto))). reflexivity. }
  set (s0 := blen pre) in *. set (e := s0 + blen form) in *.
  cbv zeta in Hfi.
  set (o1 := s0 + blen A) in *.
  set (o2 := o1 + blen (quoted q1 x) + blen B) in *.
  set (o3 := o2 + blen (quoted q2 a) + blen C) in *.
  change (mk_mtch 3 s0 e _)
    with ([Some (s0, e); Some (o1, o1 + blen (quoted q1 x)); Some (o2, o2 + blen (quoted q2 a));
           Some (o3, o3 + blen (quoted q3 b))] : mtch) in *.
  set (mt := ([Some (s0, e); Some (o1, o1 + blen (quoted q1 x)); Some (o2, o2 + blen (quoted q2 a));
               Some (o3, o3 + blen (quoted q3 b))] : mtch)) in *.
  assert (E1 : slice data o1 (o1 + blen (quoted q1 x)) = quoted q1 x).
  { replace data with ((pre ++ A) ++ quoted q1 x ++ (B ++ quoted q2 a ++ C ++ quoted q3 b ++ D ++ suf))
      by (unfold data, form; rewrite <- !app_assoc; reflexivity).
    apply slice_at. unfold o1, s0. rewrite blen_app. reflexivity. }
  assert (E2 : slice data o2 (o2 + blen (quoted q2 a)) = quoted q2 a).
  { replace data with ((pre ++ A ++ quoted q1 x ++ B) ++ quoted q2 a ++ (C ++ quoted q3 b ++ D ++ suf))
      by (unfold data, form; rewrite <- !app_assoc; reflexivity).
    apply slice_at. unfold o2, o1, s0. rewrite !blen_app. lia. }
  assert (E3 : slice data o3 (o3 + blen (quoted q3 b)) = quoted q3 b).
  { replace data with ((pre ++ A ++ quoted q1 x ++ B ++ quoted q2 a ++ C) ++ quoted q3 b ++ (D ++ suf))
      by (unfold data, form; rewrite <- !app_assoc; reflexivity).
    apply slice_at. unfold o3, o2, o1, s0. rewrite !blen_app. lia. }
  assert (Enode : replace_node ty obf true data mt = Ok (Node ty (py_replace x a b) obf s0 e [])).
  { unfold replace_node, group_req, mt. cbn [List.length Nat.ltb Nat.leb nth].
    rewrite E1, E2, E3. cbn [bind]. unfold quoted. rewrite !slice_strip_quotes. reflexivity. }
  cbn [mapM]. rewrite Enode, Erest. cbn [bind].
  eexists. split; [reflexivity|].
  apply Forall_map. eapply Forall_impl; [|exact Hrest]. intros m0 Hm0. cbn [n_st]. exact Hm0.
Qed.

(* ---- find_replace:  "x".replace( "a" , "b" )  (any letter case of .replace, optional white space) ---- *)
Theorem find_replace_roundtrip_quiet nm pre q1 x ws1 q2 a ws2 ws3 q3 b ws4 suf :
  lower nm = L".replace(" ->
  is_quote q1 -> is_quote q2 -> is_quote q3 ->
  lit_ok q1 x = true -> lit_ok q2 a = true -> lit_ok q3 b = true ->
  ws_ok ws1 = true -> ws_ok ws2 = true -> ws_ok ws3 = true -> ws_ok ws4 = true ->
  (List.length x + List.length a + List.length b
   + List.length ws1 + List.length ws2 + List.length ws3 + List.length ws4 + 200 <= default_fuel)%nat ->
  let form := quoted q1 x ++ nm ++ ws1 ++ quoted q2 a ++ ws2 ++ L"," ++ ws3 ++ quoted q3 b ++ ws4 ++ L")" in
  let data := pre ++ form ++ suf in
  quiet default_fuel RE_replace_REPLACE_RE (List.length pre) (start_pos data) ->
  find_replace data = Hang \/
  exists rest, find_replace data
               = Ok (Node (L"string") (py_replace x a b) (L"replace") (blen pre) (blen pre + blen form) [] :: rest) /\
               Forall (fun nd => blen pre + blen form <= n_st nd) rest.
Proof.
  intros Hnm Hq1 Hq2 Hq3 F1 F2 F3 W1 W2 W3 W4 Hfuel form data Hquiet.
  pose proof (replace_runs nm q1 x ws1 q2 a ws2 ws3 q3 b ws4 suf Hnm Hq1 Hq2 Hq3 F1 F2 F3 W1 W2 W3 W4) as R.
  pose proof (lower_blen _ _ Hnm) as Ln. change (blen (L".replace(")) with 9 in Ln.
  assert (Ef : form = [] ++ quoted q1 x ++ (nm ++ ws1) ++ quoted q2 a ++ (ws2 ++ [44%N] ++ ws3) ++ quoted q3 b ++ (ws4 ++ [41%N])).
  { unfold form. cbn [app]. rewrite <- !app_assoc. reflexivity. }
  unfold find_replace, find_replace_post. unfold data. rewrite Ef.
  eapply (replace_form_roundtrip (L"string") (L"replace") RE_replace_REPLACE_RE pre [] q1 x (nm ++ ws1) q2 a
            (ws2 ++ [44%N] ++ ws3) q3 b (ws4 ++ [41%N]) suf _ replace_mandatory).
  - rewrite <- Ef. eapply runs_ext; [|exact R].
    intros i c. cbv zeta. rewrite !blen_app, Ln. change (blen (@nil N)) with 0. change (blen [44%N]) with 1.
    cf_eq.
  - exact Hfuel.
  - rewrite <- Ef. exact Hquiet.
Qed.

Theorem find_replace_roundtrip nm pre q1 x ws1 q2 a ws2 ws3 q3 b ws4 suf :
  lower nm = L".replace(" ->
  is_quote q1 -> is_quote q2 -> is_quote q3 ->
  lit_ok q1 x = true -> lit_ok q2 a = true -> lit_ok q3 b = true ->
  ws_ok ws1 = true -> ws_ok ws2 = true -> ws_ok ws3 = true -> ws_ok ws4 = true ->
  (List.length x + List.length a + List.length b
   + List.length ws1 + List.length ws2 + List.length ws3 + List.length ws4 + 200 <= default_fuel)%nat ->
  neutral RE_replace_REPLACE_RE pre = true ->
  let form := quoted q1 x ++ nm ++ ws1 ++ quoted q2 a ++ ws2 ++ L"," ++ ws3 ++ quoted q3 b ++ ws4 ++ L")" in
  let data := pre ++ form ++ suf in
  find_replace data = Hang \/
  exists rest, find_replace data
               = Ok (Node (L"string") (py_replace x a b) (L"replace") (blen pre) (blen pre + blen form) [] :: rest) /\
               Forall (fun nd => blen pre + blen form <= n_st nd) rest.
Proof.
  intros Hnm Hq1 Hq2 Hq3 F1 F2 F3 W1 W2 W3 W4 Hfuel Hn form data.
  apply find_replace_roundtrip_quiet; try assumption.
  apply quiet_no_first; [vm_compute; reflexivity | spine_goal | exact Hn].
Qed.

(* ---- find_vba_replace:  Replace( "x" , "a" , "b" ) ---- *)
Theorem find_vba_replace_roundtrip_quiet nm pre ws1 q1 x ws2 ws3 q2 a ws4 ws5 q3 b ws6 suf :
  lower nm = L"replace(" ->
  is_quote q1 -> is_quote q2 -> is_quote q3 ->
  lit_ok q1 x = true -> lit_ok q2 a = true -> lit_ok q3 b = true ->
  ws_ok ws1 = true -> ws_ok ws2 = true -> ws_ok ws3 = true -> ws_ok ws4 = true -> ws_ok ws5 = true -> ws_ok ws6 = true ->
  (List.length x + List.length a + List.length b
   + List.length ws1 + List.length ws2 + List.length ws3 + List.length ws4 + List.length ws5 + List.length ws6 + 200
   <= default_fuel)%nat ->
  let form := nm ++ ws1 ++ quoted q1 x ++ ws2 ++ L"," ++ ws3 ++ quoted q2 a ++ ws4 ++ L"," ++ ws5 ++ quoted q3 b ++ ws6 ++ L")" in
  let data := pre ++ form ++ suf in
  quiet default_fuel RE_replace_VBA_REPLACE_RE (List.length pre) (start_pos data) ->
  find_vba_replace data = Hang \/
  exists rest, find_vba_replace data
               = Ok (Node (L"vba.string") (py_replace x a b) (L"vba.replace") (blen pre) (blen pre + blen form) [] :: rest) /\
               Forall (fun nd => blen pre + blen form <= n_st nd) rest.
Proof.
  intros Hnm Hq1 Hq2 Hq3 F1 F2 F3 W1 W2 W3 W4 W5 W6 Hfuel form data Hquiet.
  pose proof (vba_replace_runs nm ws1 q1 x ws2 ws3 q2 a ws4 ws5 q3 b ws6 suf Hnm Hq1 Hq2 Hq3 F1 F2 F3 W1 W2 W3 W4 W5 W6) as R.
  pose proof (lower_blen _ _ Hnm) as Ln. change (blen (L"replace(")) with 8 in Ln.
  assert (Ef : form = (nm ++ ws1) ++ quoted q1 x ++ (ws2 ++ [44%N] ++ ws3) ++ quoted q2 a ++ (ws4 ++ [44%N] ++ ws5)
                      ++ quoted q3 b ++ (ws6 ++ [41%N])).
  { unfold form. cbn [app]. rewrite <- !app_assoc. reflexivity. }
  unfold find_vba_replace, find_vba_replace_post. unfold data. rewrite Ef.
  eapply (replace_form_roundtrip (L"vba.string") (L"vba.replace") RE_replace_VBA_REPLACE_RE pre (nm ++ ws1) q1 x
            (ws2 ++ [44%N] ++ ws3) q2 a (ws4 ++ [44%N] ++ ws5) q3 b (ws6 ++ [41%N]) suf _ vba_replace_mandatory).
  - rewrite <- Ef. eapply runs_ext; [|exact R].
    intros i c. cbv zeta. rewrite !blen_app, Ln. change (blen [44%N]) with 1. cf_eq.
  - exact Hfuel.
  - rewrite <- Ef. exact Hquiet.
Qed.

Theorem find_vba_replace_roundtrip nm pre ws1 q1 x ws2 ws3 q2 a ws4 ws5 q3 b ws6 suf :
  lower nm = L"replace(" ->
  is_quote q1 -> is_quote q2 -> is_quote q3 ->
  lit_ok q1 x = true -> lit_ok q2 a = true -> lit_ok q3 b = true ->
  ws_ok ws1 = true -> ws_ok ws2 = true -> ws_ok ws3 = true -> ws_ok ws4 = true -> ws_ok ws5 = true -> ws_ok ws6 = true ->
  (List.length x + List.length a + List.length b
   + List.length ws1 + List.length ws2 + List.length ws3 + List.length ws4 + List.length ws5 + List.length ws6 + 200
   <= default_fuel)%nat ->
  neutral RE_replace_VBA_REPLACE_RE pre = true ->
  let form := nm ++ ws1 ++ quoted q1 x ++ ws2 ++ L"," ++ ws3 ++ quoted q2 a ++ ws4 ++ L"," ++ ws5 ++ quoted q3 b ++ ws6 ++ L")" in
  let data := pre ++ form ++ suf in
  find_vba_replace data = Hang \/
  exists rest, find_vba_replace data
               = Ok (Node (L"vba.string") (py_replace x a b) (L"vba.replace") (blen pre) (blen pre + blen form) [] :: rest) /\
               Forall (fun nd => blen pre + blen form <= n_st nd) rest.
Proof.
  intros Hnm Hq1 Hq2 Hq3 F1 F2 F3 W1 W2 W3 W4 W5 W6 Hfuel Hn form data.
  apply find_vba_replace_roundtrip_quiet; try assumption.
  apply quiet_no_first; [vm_compute; reflexivity | spine_goal | exact Hn].
Qed.

(* ---- find_powershell_replace:  'x' -replace 'a' , 'b'   (suffix not starting with the quote of 'b') ---- *)
Theorem find_powershell_replace_roundtrip_quiet nm pre q1 x ws1 ws2 q2 a ws3 ws4 q3 b suf :
  lower nm = L"-replace" ->
  is_quote q1 -> is_quote q2 -> is_quote q3 ->
  lit_ok q1 x = true -> lit_ok q2 a = true -> lit_ok q3 b = true ->
  ws_ok ws1 = true -> ws_ok ws2 = true -> ws_ok ws3 = true -> ws_ok ws4 = true ->
  stop_q q3 suf = true ->
  (List.length x + List.length a + List.length b
   + List.length ws1 + List.length ws2 + List.length ws3 + List.length ws4 + 200 <= default_fuel)%nat ->
  let form := quoted q1 x ++ ws1 ++ nm ++ ws2 ++ quoted q2 a ++ ws3 ++ L"," ++ ws4 ++ quoted q3 b in
  let data := pre ++ form ++ suf in
  quiet default_fuel RE_replace_POWERSHELL_REPLACE_RE (List.length pre) (start_pos data) ->
  find_powershell_replace data = Hang \/
  exists rest, find_powershell_replace data
               = Ok (Node (L"powershell.string") (py_replace x a b) (L"replace") (blen pre) (blen pre + blen form) [] :: rest) /\
               Forall (fun nd => blen pre + blen form <= n_st nd) rest.
Proof.
  intros Hnm Hq1 Hq2 Hq3 F1 F2 F3 W1 W2 W3 W4 Hstop Hfuel form data Hquiet.
  pose proof (ps_replace_runs nm q1 x ws1 ws2 q2 a ws3 ws4 q3 b suf Hnm Hq1 Hq2 Hq3 F1 F2 F3 W1 W2 W3 W4 Hstop) as R.
  pose proof (lower_blen _ _ Hnm) as Ln. change (blen (L"-replace")) with 8 in Ln.
  assert (Ef : form = [] ++ quoted q1 x ++ (ws1 ++ nm ++ ws2) ++ quoted q2 a ++ (ws3 ++ [44%N] ++ ws4) ++ quoted q3 b ++ []).
  { unfold form. cbn [app]. rewrite <- !app_assoc, app_nil_r. reflexivity. }
  unfold find_powershell_replace, find_powershell_replace_post. unfold data. rewrite Ef.
  eapply (replace_form_roundtrip (L"powershell.string") (L"replace") RE_replace_POWERSHELL_REPLACE_RE pre [] q1 x
            (ws1 ++ nm ++ ws2) q2 a (ws3 ++ [44%N] ++ ws4) q3 b [] suf _ powershell_replace_mandatory).
  - rewrite <- Ef. eapply runs_ext; [|exact R].
    intros i c. cbv zeta. rewrite !blen_app, Ln. change (blen (@nil N)) with 0. change (blen [44%N]) with 1. cf_eq.
  - exact Hfuel.
  - rewrite <- Ef. exact Hquiet.
Qed.

Theorem find_powershell_replace_roundtrip nm pre q1 x ws1 ws2 q2 a ws3 ws4 q3 b suf :
  lower nm = L"-replace" ->
  is_quote q1 -> is_quote q2 -> is_quote q3 ->
  lit_ok q1 x = true -> lit_ok q2 a = true -> lit_ok q3 b = true ->
  ws_ok ws1 = true -> ws_ok ws2 = true -> ws_ok ws3 = true -> ws_ok ws4 = true ->
  stop_q q3 suf = true ->
  (List.length x + List.length a + List.length b
   + List.length ws1 + List.length ws2 + List.length ws3 + List.length ws4 + 200 <= default_fuel)%nat ->
  neutral RE_replace_POWERSHELL_REPLACE_RE pre = true ->
  let form := quoted q1 x ++ ws1 ++ nm ++ ws2 ++ quoted q2 a ++ ws3 ++ L"," ++ ws4 ++ quoted q3 b in
  let data := pre ++ form ++ suf in
  find_powershell_replace data = Hang \/
  exists rest, find_powershell_replace data
               = Ok (Node (L"powershell.string") (py_replace x a b) (L"replace") (blen pre) (blen pre + blen form) [] :: rest) /\
               Forall (fun nd => blen pre + blen form <= n_st nd) rest.
Proof.
  intros Hnm Hq1 Hq2 Hq3 F1 F2 F3 W1 W2 W3 W4 Hstop Hfuel Hn form data.
  apply find_powershell_replace_roundtrip_quiet; try assumption.
  apply quiet_no_first; [vm_compute; reflexivity | spine_goal | exact Hn].
Qed.

(* the spellings of the assignment *)
Corollary find_replace_roundtrip_spelled pre q x a b suf :
  is_quote q -> lit_ok q x = true -> lit_ok q a = true -> lit_ok q b = true ->
  (List.length x + List.length a + List.length b + 201 <= default_fuel)%nat ->
  neutral RE_replace_REPLACE_RE pre = true ->
  let form := quoted q x ++ L".replace(" ++ quoted q a ++ L", " ++ quoted q b ++ L")" in
  let data := pre ++ form ++ suf in
  find_replace data = Hang \/
  exists rest, find_replace data
               = Ok (Node (L"string") (py_replace x a b) (L"replace") (blen pre) (blen pre + blen form) [] :: rest) /\
               Forall (fun nd => blen pre + blen form <= n_st nd) rest.
Proof.
  intros Hq F1 F2 F3 Hfuel Hn.
  apply (find_replace_roundtrip (L".replace(") pre q x [] q a [] [32%N] q b [] suf); try assumption; try reflexivity.
  cbn [List.length]. lia.
Qed.

Corollary find_vba_replace_roundtrip_spelled pre q x a b suf :
  is_quote q -> lit_ok q x = true -> lit_ok q a = true -> lit_ok q b = true ->
  (List.length x + List.length a + List.length b + 202 <= default_fuel)%nat ->
  neutral RE_replace_VBA_REPLACE_RE pre = true ->
  let form := L"Replace(" ++ quoted q x ++ L", " ++ quoted q a ++ L", " ++ quoted q b ++ L")" in
  let data := pre ++ form ++ suf in
  find_vba_replace data = Hang \/
  exists rest, find_vba_replace data
               = Ok (Node (L"vba.string") (py_replace x a b) (L"vba.replace") (blen pre) (blen pre + blen form) [] :: rest) /\
               Forall (fun nd => blen pre + blen form <= n_st nd) rest.
Proof.
  intros Hq F1 F2 F3 Hfuel Hn.
  apply (find_vba_replace_roundtrip (L"Replace(") pre [] q x [] [32%N] q a [] [32%N] q b [] suf); try assumption; try reflexivity.
  cbn [List.length]. lia.
Qed.

Corollary find_powershell_replace_roundtrip_spelled pre q x a b suf :
  is_quote q -> lit_ok q x = true -> lit_ok q a = true -> lit_ok q b = true ->
  stop_q q suf = true ->
  (List.length x + List.length a + List.length b + 202 <= default_fuel)%nat ->
  neutral RE_replace_POWERSHELL_REPLACE_RE pre = true ->
  let form := quoted q x ++ L" -replace " ++ quoted q a ++ L"," ++ quoted q b in
  let data := pre ++ form ++ suf in
  find_powershell_replace data = Hang \/
  exists rest, find_powershell_replace data
               = Ok (Node (L"powershell.string") (py_replace x a b) (L"replace") (blen pre) (blen pre + blen form) [] :: rest) /\
               Forall (fun nd => blen pre + blen form <= n_st nd) rest.
Proof.
  intros Hq F1 F2 F3 Hstop Hfuel Hn.
  apply (find_powershell_replace_roundtrip (L"-replace") pre q x [32%N] [32%N] q a [] [] q b suf); try assumption; try reflexivity.
  cbn [List.length]. lia.
Qed.

(* ---- decode-encode: undoing a token substitution ----
   The encoder replaces every occurrence of c in the payload by a token; the decoders evaluate the call that
   replaces the token by c.  This gives the payload back as soon as the FIRST byte of the token does not occur
   in the payload (then every occurrence of the token in the encoded text is one the encoder inserted, and the
   left-to-right scan meets them exactly at their beginnings).  "The token does not occur in the payload" alone
   is not enough: see rt2_side_token_overlap below. *)
Theorem py_replace_inverse p c t tok' :
  c <> [] -> ~ In t p -> py_replace (py_replace p c (t :: tok')) (t :: tok') c = p.
Proof.
  intros Hc Hnin. set (tok := t :: tok').
  assert (Htok : tok <> []) by discriminate.
  pose proof (py_replace_subst_all p c tok Hc) as H.
  induction H as [|v w _ IH|d v w _ _ IH].
  - apply py_replace_nil. exact Htok.
  - rewrite (py_replace_hit tok c w Htok). rewrite IH; [reflexivity|].
    intros Hin. apply Hnin. apply in_or_app. right. exact Hin.
  - rewrite (py_replace_miss tok c d w Htok).
    + rewrite IH; [reflexivity|]. intros Hin. apply Hnin. right. exact Hin.
    + unfold tok. cbn [prefixb]. replace (t =? d)%N with false; [reflexivity|].
      symmetry. apply N.eqb_neq. intros ->. apply Hnin. left. reflexivity.
Qed.

(* the literal classes are closed under the substitution *)
Lemma py_replace_forallb (P : N -> bool) x a b :
  a <> [] -> forallb P x = true -> forallb P b = true -> forallb P (py_replace x a b) = true.
Proof.
  intros Ha Hx Hb. pose proof (py_replace_subst_all x a b Ha) as H.
  induction H as [|v w _ IH|d v w _ _ IH]; [reflexivity| |].
  - rewrite forallb_app in Hx |- *. apply andb_true_iff in Hx. destruct Hx as [_ Hv].
    rewrite Hb, (IH Hv). reflexivity.
  - cbn [forallb] in Hx |- *. apply andb_true_iff in Hx. destruct Hx as [Hd Hv]. rewrite Hd, (IH Hv). reflexivity.
Qed.

Corollary find_replace_decodes pre q p c t tok' suf :
  let tok := t :: tok' in
  let x := py_replace p c tok in
  is_quote q -> lit_ok q p = true -> lit_ok q c = true -> lit_ok q tok = true ->
  c <> [] -> ~ In t p ->
  (List.length x + List.length tok + List.length c + 201 <= default_fuel)%nat ->
  neutral RE_replace_REPLACE_RE pre = true ->
  let form := quoted q x ++ L".replace(" ++ quoted q tok ++ L", " ++ quoted q c ++ L")" in
  let data := pre ++ form ++ suf in
  find_replace data = Hang \/
  exists rest, find_replace data
               = Ok (Node (L"string") p (L"replace") (blen pre) (blen pre + blen form) [] :: rest) /\
               Forall (fun nd => blen pre + blen form <= n_st nd) rest.
Proof.
  intros tok x Hq Fp Fc Ft Hc Hnin Hfuel Hn form data.
  assert (Fx : lit_ok q x = true) by (unfold x; apply py_replace_forallb; assumption).
  pose proof (find_replace_roundtrip_spelled pre q x tok c suf) as H. cbv zeta in H.
  subst x tok. rewrite (py_replace_inverse p c t tok' Hc Hnin) in H.
  apply H; assumption.
Qed.

Corollary find_vba_replace_decodes pre q p c t tok' suf :
  let tok := t :: tok' in
  let x := py_replace p c tok in
  is_quote q -> lit_ok q p = true -> lit_ok q c = true -> lit_ok q tok = true ->
  c <> [] -> ~ In t p ->
  (List.length x + List.length tok + List.length c + 202 <= default_fuel)%nat ->
  neutral RE_replace_VBA_REPLACE_RE pre = true ->
  let form := L"Replace(" ++ quoted q x ++ L", " ++ quoted q tok ++ L", " ++ quoted q c ++ L")" in
  let data := pre ++ form ++ suf in
  find_vba_replace data = Hang \/
  exists rest, find_vba_replace data
               = Ok (Node (L"vba.string") p (L"vba.replace") (blen pre) (blen pre + blen form) [] :: rest) /\
               Forall (fun nd => blen pre + blen form <= n_st nd) rest.
Proof.
  intros tok x Hq Fp Fc Ft Hc Hnin Hfuel Hn form data.
  assert (Fx : lit_ok q x = true) by (unfold x; apply py_replace_forallb; assumption).
  pose proof (find_vba_replace_roundtrip_spelled pre q x tok c suf) as H. cbv zeta in H.
  subst x tok. rewrite (py_replace_inverse p c t tok' Hc Hnin) in H.
  apply H; assumption.
Qed.

Corollary find_powershell_replace_decodes pre q p c t tok' suf :
  let tok := t :: tok' in
  let x := py_replace p c tok in
  is_quote q -> lit_ok q p = true -> lit_ok q c = true -> lit_ok q tok = true ->
  c <> [] -> ~ In t p -> stop_q q suf = true ->
  (List.length x + List.length tok + List.length c + 202 <= default_fuel)%nat ->
  neutral RE_replace_POWERSHELL_REPLACE_RE pre = true ->
  let form := quoted q x ++ L" -replace " ++ quoted q tok ++ L"," ++ quoted q c in
  let data := pre ++ form ++ suf in
  find_powershell_replace data = Hang \/
  exists rest, find_powershell_replace data
               = Ok (Node (L"powershell.string") p (L"replace") (blen pre) (blen pre + blen form) [] :: rest) /\
               Forall (fun nd => blen pre + blen form <= n_st nd) rest.
Proof.
  intros tok x Hq Fp Fc Ft Hc Hnin Hstop Hfuel Hn form data.
  assert (Fx : lit_ok q x = true) by (unfold x; apply py_replace_forallb; assumption).
  pose proof (find_powershell_replace_roundtrip_spelled pre q x tok c suf) as H. cbv zeta in H.
  subst x tok. rewrite (py_replace_inverse p c t tok' Hc Hnin) in H.
  apply H; assumption.
Qed.


(* ------------------------------------------------------------------ *)
(* 6.  Concatenation                                                     *)
(* ------------------------------------------------------------------ *)
(* the spacer of concat.py: white space or underscores, one operator, white space or underscores *)
Definition wsu_char (c : N) : bool := is_space_ascii c || (c =? 95)%N.
Definition wsu_ok (w : bytes) : bool := forallb wsu_char w.
Definition is_opb (c : N) : bool := ((c =? 38) || (c =? 43))%N.
Definition is_op (o : N) : Prop := o = 38%N \/ o = 43%N.
(* the text continues with a spacer: after the leading white space / underscores comes an operator *)
Fixpoint spacer_start (l : bytes) : bool :=
  match l with
  | [] => false
  | c :: l' => if wsu_char c then spacer_start l' else is_opb c
  end.
Fixpoint take_wsu (l : bytes) : bytes :=
  match l with
  | [] => []
  | c :: l' => if wsu_char c then c :: take_wsu l' else []
  end.
Definition plain_head (c : N) : bool := negb (wsu_char c) && negb (is_opb c).
Definition head_is (P : N -> bool) (x : bytes) : Prop := match x with [] => True | b :: _ => P b = true end.

Lemma wsu_char_lt c : wsu_char c = true -> (c < 256)%N.
Proof.
  unfold wsu_char. intros H. apply orb_true_iff in H. destruct H as [H|H]; [apply is_space_lt; exact H|].
  apply N.eqb_eq in H. subst c. reflexivity.
Qed.

Lemma wsu_split x : spacer_start x = false ->
  exists y, x = take_wsu x ++ y /\ wsu_ok (take_wsu x) = true /\ head_is plain_head y.
Proof.
  induction x as [|c x IH]; intros H.
  - exists []. repeat split.
  - cbn [spacer_start take_wsu] in *. destruct (wsu_char c) eqn:E.
    + destruct (IH H) as (y & E1 & E2 & E3). exists y. cbn [app wsu_ok forallb]. rewrite E. fold (wsu_ok (take_wsu x)).
      rewrite E2. split; [f_equal; exact E1 | split; [reflexivity | exact E3]].
    + exists (c :: x). split; [reflexivity|]. split; [reflexivity|]. cbn [head_is]. unfold plain_head. rewrite E, H. reflexivity.
Qed.

Lemma take_wsu_length x : (List.length (take_wsu x) <= List.length x)%nat.
Proof. induction x as [|c x IH]; [cbn; lia|]. cbn [take_wsu]. destruct (wsu_char c); cbn [List.length]; lia. Qed.

(* wsu* rest fails when the text does not continue with a spacer (rest begins with the operator) *)
Lemma blocked_wsu_rest mk rest x :
  startable rest = true -> mask_ok mk = true -> mask_ok (first_cls rest) = true ->
  forallb (fun c => implb (wsu_char c) (N.testbit mk c && negb (N.testbit (first_cls rest) c))) bytes256 = true ->
  forallb (fun c => implb (plain_head c) (negb (N.testbit mk c))) bytes256 = true ->
  forallb (fun c => implb (plain_head c) (negb (N.testbit (first_cls rest) c))) bytes256 = true ->
  spacer_start x = false ->
  blocked (List.length (take_wsu x) + 4 + Nat.max (spine rest) (spine rest)) (Seq (Rep 0 None (Cls mk)) rest) x.
Proof.
  intros Hs Hm1 Hm2 T1 T2 T3 Hx. destruct (wsu_split x Hx) as (y & E & Hw & Hy).
  rewrite E at 2. apply blocked_star_then.
  - exact Hs.
  - apply (Forall_in_out wsu_char); [exact wsu_char_lt | exact T1 | exact Hw].
  - apply (hd_out_of_pred mk plain_head); [exact Hm1 | exact T2 | exact Hy].
  - apply blocked_first; [exact Hs|]. apply (hd_out_of_pred _ plain_head); [exact Hm2 | exact T3 | exact Hy].
Qed.

Lemma wsu_mask mk w :
  forallb (fun c => implb (wsu_char c) (N.testbit mk c)) bytes256 = true ->
  wsu_ok w = true -> Forall (fun c => N.testbit mk c = true) w.
Proof. intros Hchk Hw. exact (Forall_table wsu_char (N.testbit mk) w wsu_char_lt Hchk Hw). Qed.

Definition nonwsu (c : N) : bool := negb (wsu_char c).

(* the spacer runs over  wsu* op wsu*  in front of a text that does not go on with white space *)
Lemma spacer_runs w1 o w2 x :
  wsu_ok w1 = true -> is_op o -> wsu_ok w2 = true -> head_is nonwsu x ->
  runs (List.length w1 + List.length w2 + 20) RE_concat_CONCAT_SPACER_RE (w1 ++ o :: w2) x cf_id.
Proof.
  intros H1 Ho H2 Hx. unfold RE_concat_CONCAT_SPACER_RE.
  assert (Hx' : forall mk, mask_ok mk = true ->
            forallb (fun c => implb (nonwsu c) (negb (N.testbit mk c))) bytes256 = true -> hd_out mk x).
  { intros mk Hm Ht. apply (hd_out_of_pred mk nonwsu); assumption. }
  destruct Ho as [-> | ->].
  - eapply runs_ext; [| eapply runs_mono].
    2:{ eapply (runs_seq _ _ _ _ w1 (38%N :: w2)).
        - eapply runs_rep_cls; [eapply wsu_mask; [vm_compute; reflexivity | exact H1] | hd_goal | apply Nat.le_0_l].
        - eapply (runs_seq _ _ _ _ [38%N] w2).
          + eapply runs_alt_l. eapply runs_cls. vm_compute. reflexivity.
          + eapply runs_rep_cls; [eapply wsu_mask; [vm_compute; reflexivity | exact H2] | | apply Nat.le_0_l].
            apply Hx'; vm_compute; reflexivity. }
    2:{ cbn [spine nullable List.length]; lia. }
    intros i c. reflexivity.
  - eapply runs_ext; [| eapply runs_mono].
    2:{ eapply (runs_seq _ _ _ _ w1 (43%N :: w2)).
        - eapply runs_rep_cls; [eapply wsu_mask; [vm_compute; reflexivity | exact H1] | hd_goal | apply Nat.le_0_l].
        - eapply (runs_seq _ _ _ _ [43%N] w2).
          + eapply runs_alt_r; [blk_tac|]. eapply runs_alt_l. eapply runs_cls. vm_compute. reflexivity.
          + eapply runs_rep_cls; [eapply wsu_mask; [vm_compute; reflexivity | exact H2] | | apply Nat.le_0_l].
            apply Hx'; vm_compute; reflexivity. }
    2:{ cbn [spine nullable List.length]; lia. }
    intros i c. reflexivity.
Qed.

Lemma spacer_blocked x :
  spacer_start x = false -> blocked (List.length (take_wsu x) + 20) RE_concat_CONCAT_SPACER_RE x.
Proof.
  intros Hx. unfold RE_concat_CONCAT_SPACER_RE. eapply blocked_mono.
  - apply blocked_wsu_rest; [vm_compute; reflexivity .. | exact Hx].
  - cbn [spine nullable orb andb]. lia.
Qed.

(* a chain  q p q  sep q' p' q'  sep ...  : the first literal and the list of (separator, literal) parts *)
Record cpart := { cp_w1 : bytes; cp_op : N; cp_w2 : bytes; cp_q : N; cp_lit : bytes }.
Definition sep_text (j : cpart) : bytes := cp_w1 j ++ cp_op j :: cp_w2 j.
Definition cpart_text (j : cpart) : bytes := sep_text j ++ quoted (cp_q j) (cp_lit j).
(* the literal class of the chain: no quote of either kind, no back-tick, no backslash; and the literal does
   not itself begin like a spacer (white space / underscores, then an operator) *)
Definition concat_char (c : N) : bool :=
  ((c <? 256) && negb (c =? 34) && negb (c =? 39) && negb (c =? 96) && negb (c =? 92))%N.
Definition part_ok (p : bytes) : bool := forallb concat_char p && negb (spacer_start p).
Definition cpart_ok (j : cpart) : Prop :=
  wsu_ok (cp_w1 j) = true /\ is_op (cp_op j) /\ wsu_ok (cp_w2 j) = true /\ is_quote (cp_q j) /\ part_ok (cp_lit j) = true.
Definition concat_form (q : N) (p : bytes) (js : list cpart) : bytes := quoted q p ++ concat (map cpart_text js).
Definition concat_payload (p : bytes) (js : list cpart) : bytes := p ++ concat (map cp_lit js).
(* the suffix continues neither the last literal nor the chain *)
Definition concat_stop (q : N) (x : bytes) : bool := stop_q q x && negb (spacer_start x).

Fixpoint chunks_text (q : N) (p : bytes) (js : list cpart) : bytes :=
  match js with [] => [] | j :: js' => quoted q p ++ sep_text j ++ chunks_text (cp_q j) (cp_lit j) js' end.
Fixpoint last_q (q : N) (js : list cpart) : N := match js with [] => q | j :: js' => last_q (cp_q j) js' end.
Fixpoint last_p (p : bytes) (js : list cpart) : bytes := match js with [] => p | j :: js' => last_p (cp_lit j) js' end.
Definition last_lit (q : N) (p : bytes) (js : list cpart) : bytes := quoted (last_q q js) (last_p p js).

Lemma concat_form_split : forall js q p, concat_form q p js = chunks_text q p js ++ last_lit q p js.
Proof.
  induction js as [|j js IH]; intros q p.
  - unfold concat_form, last_lit. cbn [map concat chunks_text last_q last_p app]. apply app_nil_r.
  - unfold concat_form, last_lit in *. cbn [map concat chunks_text last_q last_p]. unfold cpart_text at 1.
    rewrite <- !app_assoc. f_equal. f_equal. apply IH.
Qed.

Lemma concat_char_lt c : concat_char c = true -> (c < 256)%N.
Proof. unfold concat_char. intros H. rewrite !andb_true_iff in H. apply N.ltb_lt. apply H. Qed.

Lemma concat_char_lit q c : is_quote q -> concat_char c = true -> lit_char q c = true.
Proof.
  intros Hq H. unfold concat_char in H. rewrite !andb_true_iff in H. destruct H as ((((H1 & H2) & H3) & H4) & H5).
  destruct Hq as [-> | ->]; unfold lit_char; cbn [N.eqb Pos.eqb]; unfold dq_char, sq_char;
    rewrite H1; [rewrite H2, H4, H5 | rewrite H3]; reflexivity.
Qed.

Lemma part_ok_chars p : part_ok p = true -> forallb concat_char p = true /\ spacer_start p = false.
Proof. unfold part_ok. intros H. apply andb_true_iff in H. destruct H as [H1 H2]. apply negb_true_iff in H2. split; assumption. Qed.

Lemma part_ok_lit q p : is_quote q -> part_ok p = true -> lit_ok q p = true.
Proof.
  intros Hq H. destruct (part_ok_chars p H) as [H1 _]. unfold lit_ok. apply forallb_forall. intros c Hc.
  rewrite forallb_forall in H1. apply (concat_char_lit q c Hq). apply H1. exact Hc.
Qed.

Lemma last_ok : forall js q p, is_quote q -> part_ok p = true -> Forall cpart_ok js ->
  is_quote (last_q q js) /\ part_ok (last_p p js) = true.
Proof.
  induction js as [|j js IH]; intros q p Hq Hp HF; [split; assumption|].
  inversion HF as [|? ? (_ & _ & _ & Hqj & Hpj) HF']; subst. cbn [last_q last_p]. apply IH; assumption.
Qed.

Lemma stop_q_sep q j rest : is_quote q -> cpart_ok j -> stop_q q (sep_text j ++ rest) = true.
Proof.
  intros Hq (H1 & Ho & _). unfold sep_text. destruct (cp_w1 j) as [|b w].
  - cbn [app stop_q]. destruct Ho as [-> | ->]; destruct Hq as [-> | ->]; reflexivity.
  - cbn [app stop_q]. cbn [wsu_ok forallb] in H1. apply andb_true_iff in H1. destruct H1 as [Hb _].
    apply negb_true_iff. apply N.eqb_neq. intros ->. destruct Hq as [-> | ->]; discriminate Hb.
Qed.

Lemma nonwsu_quoted q p rest : is_quote q -> head_is nonwsu (quoted q p ++ rest).
Proof. intros [-> | ->]; reflexivity. Qed.

Lemma chain_head_nonwsu js q p x : is_quote q -> head_is nonwsu (chunks_text q p js ++ last_lit q p js ++ x).
Proof.
  intros Hq. destruct js as [|j js].
  - cbn [chunks_text app]. unfold last_lit. cbn [last_q last_p]. apply nonwsu_quoted. exact Hq.
  - cbn [chunks_text]. rewrite <- app_assoc. apply nonwsu_quoted. exact Hq.
Qed.

Definition CONCAT_ITEM : re := Seq RE_concat_STRING_RE RE_concat_CONCAT_SPACER_RE.

Lemma concat_re_shape : RE_concat_CONCAT_RE = Seq (Rep 1 None CONCAT_ITEM) RE_concat_STRING_RE.
Proof. reflexivity. Qed.

(* the repetition of  STRING SPACER  over all the literals but the last *)
Lemma concat_rep_runs x ql :
  stop_q ql x = true -> spacer_start x = false ->
  forall js q p lo,
    is_quote q -> part_ok p = true -> Forall cpart_ok js -> last_q q js = ql -> (lo <= List.length js)%nat ->
    runs (List.length (chunks_text q p js) + List.length (last_lit q p js) + List.length (take_wsu x) + 100)
         (Rep lo None CONCAT_ITEM) (chunks_text q p js) (last_lit q p js ++ x) cf_id.
Proof.
  intros Hx1 Hx2. induction js as [|j js IH]; intros q p lo Hq Hp HF Hql Hlo.
  - cbn [List.length] in Hlo. assert (lo = 0%nat) by lia. subst lo.
    cbn [chunks_text last_q] in *. subst ql. unfold last_lit. cbn [last_q last_p].
    eapply runs_mono.
    + apply runs_rep_stop_blocked. unfold CONCAT_ITEM.
      eapply blocked_seq_det; [apply (string_det q p x Hq (part_ok_lit q p Hq Hp) Hx1) | apply spacer_blocked; exact Hx2].
    + unfold quoted. cbn [List.length]. rewrite app_length. cbn [List.length]. lia.
  - inversion HF as [|? ? Hj HF']; subst. pose proof Hj as (H1 & Ho & H2 & Hqj & Hpj).
    cbn [chunks_text last_q List.length] in *. unfold last_lit in *. cbn [last_q last_p].
    rewrite (app_assoc (quoted q p)).
    eapply runs_ext; [| eapply runs_mono].
    2:{ eapply (runs_rep_step _ _ lo None CONCAT_ITEM (quoted q p ++ sep_text j)
                  (chunks_text (cp_q j) (cp_lit j) js) _ cf_id cf_id);
          [discriminate | unfold quoted; discriminate | | apply (IH (cp_q j) (cp_lit j) (pred lo) Hqj Hpj HF' eq_refl); lia].
        unfold CONCAT_ITEM.
        eapply runs_ext; [| eapply (runs_seq _ _ _ _ (quoted q p) (sep_text j) _ cf_id cf_id)].
        - intros i c. reflexivity.
        - apply (string_runs q p _ Hq (part_ok_lit q p Hq Hp)). apply stop_q_sep; assumption.
        - unfold sep_text. apply spacer_runs; try assumption. apply chain_head_nonwsu. exact Hqj. }
    2:{ unfold sep_text, quoted. rewrite !app_length. cbn [List.length]. rewrite !app_length. cbn [List.length]. lia. }
    intros i c. reflexivity.
Qed.

Lemma concat_stop_parts q x : concat_stop q x = true -> stop_q q x = true /\ spacer_start x = false.
Proof. unfold concat_stop. intros H. apply andb_true_iff in H. destruct H as [H1 H2]. apply negb_true_iff in H2. split; assumption. Qed.

(* CONCAT_RE runs over the whole chain *)
Theorem concat_runs q p js x :
  is_quote q -> part_ok p = true -> Forall cpart_ok js -> js <> [] -> concat_stop (last_q q js) x = true ->
  runs (List.length (concat_form q p js) + List.length (take_wsu x) + 150) RE_concat_CONCAT_RE (concat_form q p js) x cf_id.
Proof.
  intros Hq Hp HF Hne Hstop. destruct (concat_stop_parts _ _ Hstop) as [Hx1 Hx2].
  destruct (last_ok js q p Hq Hp HF) as [Hql Hpl].
  rewrite concat_re_shape, concat_form_split, app_length.
  eapply runs_ext; [| eapply runs_mono].
  2:{ eapply (runs_seq _ _ _ _ (chunks_text q p js) (last_lit q p js) x cf_id cf_id).
      - apply (concat_rep_runs x (last_q q js) Hx1 Hx2 js q p 1%nat Hq Hp HF eq_refl).
        destruct js; [congruence | cbn [List.length]; lia].
      - unfold last_lit. apply string_runs; [exact Hql | apply part_ok_lit; assumption | exact Hx1]. }
  2:{ unfold last_lit, quoted. cbn [List.length]. rewrite app_length. cbn [List.length]. lia. }
  intros i c. reflexivity.
Qed.

(* ---- the complete scan of a pattern over a text, as finditer performs it ---- *)
Inductive scans (fuel : nat) (r : re) : pos -> list (Z * Z * caps) -> Prop :=
| scans_nil p : p_after p = [] -> match_here fuel r p = NoMatch -> scans fuel r p []
| scans_skip p b p' l : match_here fuel r p = NoMatch -> adv p = Some (b, p') -> scans fuel r p' l -> scans fuel r p l
| scans_hit p e c l : match_here fuel r p = Found e c -> p_i e <> p_i p -> scans fuel r e l ->
                      scans fuel r p ((p_i p, p_i e, c) :: l).

Definition hit_mtch (ng : nat) (t : Z * Z * caps) : mtch := mk_mtch ng (fst (fst t)) (snd (fst t)) (snd t).

Lemma scans_finditer fuel r ng p l : scans fuel r p l ->
  forall cnt, (List.length l < cnt)%nat -> finditer_pos fuel r ng cnt p = Some (map (hit_mtch ng) l).
Proof.
  induction 1 as [p Hp HM | p b p' l HM Ha _ IH | p e c l HM Hne _ IH]; intros cnt Hc.
  - destruct cnt as [|cnt]; [cbn [List.length] in Hc; lia|]. cbn [finditer_pos]. rewrite Hp. cbn [List.length search_pos].
    rewrite HM. reflexivity.
  - rewrite (finditer_pos_skip _ _ _ _ _ _ _ HM Ha). apply IH. exact Hc.
  - destruct cnt as [|cnt]; [lia|]. cbn [finditer_pos]. rewrite (search_pos_here _ _ _ _ _ _ HM).
    replace (p_i e =? p_i p) with false by (symmetry; apply Z.eqb_neq; exact Hne).
    cbn [List.length] in Hc. rewrite (IH cnt ltac:(lia)). reflexivity.
Qed.

(* bytes that cannot start a match are skipped *)
Lemma scans_skip_run fuel r l rest : startable r = true -> (spine r <= fuel)%nat ->
  forall w p, Forall (fun b => N.testbit (first_cls r) b = false) w -> p_after p = w ++ rest ->
    scans fuel r (seek (List.length w) p) l -> scans fuel r p l.
Proof.
  intros Hs Hf. induction w as [|b w IH]; intros p HF Hp H; [exact H|].
  inversion HF as [|? ? Hb HF']; subst.
  apply (scans_skip fuel r p b {| p_i := p_i p + 1; p_before := b :: p_before p; p_after := w ++ rest |}).
  - unfold match_here. apply (blocked_first r (p_after p) Hs); [rewrite Hp; exact Hb | reflexivity | exact Hf].
  - unfold adv. rewrite Hp. reflexivity.
  - apply IH; [exact HF' | reflexivity |]. rewrite <- (seek_S _ p b (w ++ rest) Hp). exact H.
Qed.

(* ---- the inner pattern of find_concat (quote, spacer, quote) ---- *)
Lemma inner_runs q w1 o w2 q' x :
  is_quote q -> wsu_ok w1 = true -> is_op o -> wsu_ok w2 = true -> is_quote q' ->
  runs (List.length w1 + List.length w2 + 40) RE_concat_find_concat_0 (q :: (w1 ++ o :: w2) ++ [q']) x cf_id.
Proof.
  intros Hq H1 Ho H2 Hq'. unfold RE_concat_find_concat_0. rewrite <- app_assoc. cbn [app].
  destruct Hq as [-> | ->]; destruct Ho as [-> | ->]; destruct Hq' as [-> | ->].
  all: eapply runs_ext;
    [ | eapply runs_mono;
        [ eapply runs_seq_cls; [vm_compute; reflexivity|];
          eapply (runs_seq _ _ _ _ w1 (_ :: w2 ++ [_]));
          [ eapply runs_rep_cls; [eapply wsu_mask; [vm_compute; reflexivity | exact H1] | hd_goal | apply Nat.le_0_l] |];
          eapply (runs_seq _ _ _ _ [_] (w2 ++ [_]));
          [ first [ eapply runs_alt_l; eapply runs_cls; vm_compute; reflexivity
                  | eapply runs_alt_r; [blk_tac|]; eapply runs_alt_l; eapply runs_cls; vm_compute; reflexivity ] |];
          eapply (runs_seq _ _ _ _ w2 [_]);
          [ eapply runs_rep_cls; [eapply wsu_mask; [vm_compute; reflexivity | exact H2] | hd_goal | apply Nat.le_0_l]
          | eapply runs_cls; vm_compute; reflexivity ]
        | cbn [spine nullable orb andb List.length]; lia ] ];
    intros i c; reflexivity.
Qed.

(* an attempt at a quote that is not followed by a spacer fails *)
Lemma inner_blocked_quote q t :
  is_quote q -> spacer_start t = false ->
  blocked (List.length (take_wsu t) + 40) RE_concat_find_concat_0 (q :: t).
Proof.
  intros Hq Ht. unfold RE_concat_find_concat_0.
  destruct Hq as [-> | ->].
  all: eapply blocked_mono;
    [ eapply blocked_seq_cls; [vm_compute; reflexivity|];
      apply blocked_wsu_rest; [vm_compute; reflexivity .. | exact Ht]
    | cbn [spine nullable orb andb]; lia ].
Qed.

Lemma quote_not_wsu q : is_quote q -> wsu_char q = false /\ is_opb q = false.
Proof. intros [-> | ->]; split; reflexivity. Qed.

Lemma spacer_start_app p q rest : spacer_start p = false -> is_quote q -> spacer_start (p ++ q :: rest) = false.
Proof.
  intros Hp Hq. destruct (quote_not_wsu q Hq) as [Q1 Q2]. induction p as [|c p IH].
  - cbn [app spacer_start]. rewrite Q1. exact Q2.
  - cbn [app spacer_start] in *. destruct (wsu_char c); [apply IH; exact Hp | exact Hp].
Qed.

Lemma take_wsu_app_le p q rest : is_quote q -> (List.length (take_wsu (p ++ q :: rest)) <= List.length p)%nat.
Proof.
  intros Hq. destruct (quote_not_wsu q Hq) as [Q1 _]. induction p as [|c p IH].
  - cbn [app take_wsu]. rewrite Q1. cbn [List.length]. lia.
  - cbn [app take_wsu]. destruct (wsu_char c); cbn [List.length]; lia.
Qed.

Lemma inner_neutral_part p :
  forallb concat_char p = true -> Forall (fun b => N.testbit (first_cls RE_concat_find_concat_0) b = false) p.
Proof.
  intros H.
  pose proof (Forall_table concat_char (fun c => negb (N.testbit (first_cls RE_concat_find_concat_0) c)) p
                concat_char_lt ltac:(vm_compute; reflexivity) H) as HF.
  eapply Forall_impl; [|exact HF]. cbv beta. intros c Hc. apply negb_true_iff. exact Hc.
Qed.

(* the junctions of the chain, in the vocabulary of Proofs/StrOpsProofs.v *)
Fixpoint mkj (qprev : N) (js : list cpart) : list junction :=
  match js with
  | [] => []
  | j :: js' => {| j_close := qprev; j_sp := sep_text j; j_open := cp_q j; j_lit := cp_lit j |} :: mkj (cp_q j) js'
  end.
Definition span_hit (sp : Z * Z) : Z * Z * caps := (fst sp, snd sp, []).

Lemma inner_spine : (spine RE_concat_find_concat_0 <= 40)%nat.
Proof. apply Nat.leb_le. vm_compute. reflexivity. Qed.

(* the scan of the inner pattern, from the first byte of a literal (after its opening quote) to the end of the
   chain: exactly the junctions are found *)
Lemma inner_scan_chain : forall js pos q p,
  is_quote q -> part_ok p = true -> Forall cpart_ok js ->
  p_after pos = p ++ q :: concat (map cpart_text js) ->
  (List.length (p_after pos) + 100 <= default_fuel)%nat ->
  scans default_fuel RE_concat_find_concat_0 pos
        (map span_hit (junction_spans (p_i pos + blen p) (mkj q js))).
Proof.
  induction js as [|j js IH]; intros pos q p Hq Hp HF Hpos Hfuel.
  all: destruct (part_ok_chars p Hp) as [Hpc Hps].
  all: pose proof inner_spine as Hsp.
  all: assert (Hlen : (List.length p < List.length (p_after pos))%nat)
         by (rewrite Hpos, app_length; cbn [List.length]; lia).
  all: destruct (seek_word p pos _ 0 Hpos) as (_ & A1 & A2).
  all: assert (Hst : startable RE_concat_find_concat_0 = true) by (vm_compute; reflexivity).
  all: apply (scans_skip_run default_fuel RE_concat_find_concat_0 _ _ Hst ltac:(lia) p pos (inner_neutral_part p Hpc) Hpos).
  all: set (pos1 := seek (List.length p) pos) in *.
  - (* the closing quote of the last literal, then the end of the text *)
    cbn [map concat mkj junction_spans] in *.
    eapply (scans_skip _ _ pos1 q {| p_i := p_i pos1 + 1; p_before := q :: p_before pos1; p_after := [] |}).
    + unfold match_here. apply (inner_blocked_quote q [] Hq eq_refl); [exact A1 | cbn [take_wsu List.length]; lia].
    + unfold adv. rewrite A1. reflexivity.
    + apply scans_nil; [reflexivity|]. unfold match_here.
      apply (blocked_first RE_concat_find_concat_0 []); [vm_compute; reflexivity | exact I | reflexivity | lia].
  - inversion HF as [|? ? Hj HF']; subst. pose proof Hj as (H1 & Ho & H2 & Hqj & Hpj).
    cbn [map concat mkj junction_spans j_lit]. unfold junction_text at 1 2. cbn [j_close j_sp j_open].
    set (jt := q :: sep_text j ++ [cp_q j]).
    set (x := cp_lit j ++ cp_q j :: concat (map cpart_text js)).
    assert (E1 : p_after pos1 = jt ++ x).
    { rewrite A1. unfold jt, x. cbn [map concat]. unfold cpart_text at 1, quoted. cbn [app].
      rewrite <- !app_assoc. cbn [app]. rewrite <- ?app_assoc. cbn [app]. reflexivity. }
    assert (Hl1 : (List.length (p_after pos1) <= List.length (p_after pos))%nat).
    { rewrite A1, Hpos, app_length. lia. }
    assert (R : runs (List.length (cp_w1 j) + List.length (cp_w2 j) + 40) RE_concat_find_concat_0 jt x cf_id).
    { unfold jt, sep_text. apply inner_runs; assumption. }
    assert (Hl2 : (List.length (cp_w1 j) + List.length (cp_w2 j) <= List.length (p_after pos1))%nat).
    { rewrite E1. unfold jt, sep_text. cbn [List.length]. rewrite !app_length. cbn [List.length]. rewrite !app_length. cbn [List.length]. lia. }
    destruct (match_here_form _ _ jt x cf_id default_fuel pos1 R E1 ltac:(lia)) as (M1 & M2 & M3).
    set (e := seek (List.length jt) pos1) in *.
    replace (p_i pos + blen p) with (p_i pos1) by (rewrite A2; reflexivity).
    replace (p_i pos1 + blen jt) with (p_i e) by (rewrite M2; reflexivity).
    change (span_hit (p_i pos1, p_i e)) with (p_i pos1, p_i e, cf_id (p_i pos1) (@nil (nat * (Z * Z)))).
    apply scans_hit.
    + exact M1.
    + rewrite M2. unfold jt, blen. cbn [List.length]. lia.
    + apply (IH e (cp_q j) (cp_lit j) Hqj Hpj HF' M3).
      rewrite M3. rewrite E1 in Hl1. rewrite app_length in Hl1. fold x. lia.
Qed.

Lemma junction_spans_length : forall l pos, List.length (junction_spans pos l) = List.length l.
Proof. induction l as [|j l IH]; intros pos; [reflexivity|]. cbn [junction_spans List.length]. rewrite IH. reflexivity. Qed.

Lemma mkj_length : forall js q, List.length (mkj q js) = List.length js.
Proof. induction js as [|j js IH]; intros q; [reflexivity|]. cbn [mkj List.length]. rewrite IH. reflexivity. Qed.

Lemma parts_length js : (List.length js <= List.length (concat (map cpart_text js)))%nat.
Proof.
  induction js as [|j js IH]; [cbn; lia|]. cbn [map concat List.length]. rewrite app_length.
  unfold cpart_text at 1, quoted. rewrite app_length. cbn [List.length]. lia.
Qed.

Lemma spans_of_hits ng l : map (fun mi => span mi 0) (map (hit_mtch ng) (map span_hit l)) = l.
Proof.
  rewrite !map_map. rewrite <- (map_id l) at 2. apply map_ext. intros [s e]. reflexivity.
Qed.

(* finditer of the inner pattern on the chain text: exactly the junctions *)
Lemma inner_fi q p js :
  is_quote q -> part_ok p = true -> Forall cpart_ok js ->
  (List.length (concat_form q p js) + 100 <= default_fuel)%nat ->
  exists inner, fi RE_concat_find_concat_0 NG_concat_find_concat_0 (concat_form q p js) = Ok inner /\
                map (fun mi => span mi 0) inner = junction_spans (1 + blen p) (mkj q js).
Proof.
  intros Hq Hp HF Hfuel. destruct (part_ok_chars p Hp) as [Hpc Hps].
  set (form := concat_form q p js) in *.
  set (t := p ++ q :: concat (map cpart_text js)).
  assert (Ef : form = q :: t).
  { unfold form, concat_form, quoted, t. cbn [app]. rewrite <- app_assoc. reflexivity. }
  set (pos1 := {| p_i := 0 + 1; p_before := [q]; p_after := t |}).
  assert (Hlt : (List.length t < List.length form)%nat) by (rewrite Ef; cbn [List.length]; lia).
  assert (S1 : scans default_fuel RE_concat_find_concat_0 (start_pos form)
                 (map span_hit (junction_spans (1 + blen p) (mkj q js)))).
  { apply (scans_skip _ _ (start_pos form) q pos1).
    - unfold match_here. apply (inner_blocked_quote q t Hq (spacer_start_app p q _ Hps Hq)); [exact Ef|].
      pose proof (take_wsu_app_le p q (concat (map cpart_text js)) Hq) as Hl. fold t in Hl.
      assert (List.length p <= List.length t)%nat by (unfold t; rewrite app_length; lia). lia.
    - unfold adv, start_pos. cbn [p_after p_i p_before]. rewrite Ef. reflexivity.
    - change (1 + blen p) with (p_i pos1 + blen p).
      apply (inner_scan_chain js pos1 q p Hq Hp HF eq_refl). cbn [pos1 p_after]. lia. }
  exists (map (hit_mtch NG_concat_find_concat_0) (map span_hit (junction_spans (1 + blen p) (mkj q js)))).
  split; [|apply spans_of_hits].
  unfold fi, finditer.
  rewrite (scans_finditer _ _ NG_concat_find_concat_0 _ _ S1); [reflexivity|].
  rewrite map_length, junction_spans_length, mkj_length.
  pose proof (parts_length js) as Hl. unfold form, concat_form. rewrite app_length. lia.
Qed.

(* the chain as a [chain] of Proofs/StrOpsProofs.v *)
Definition chain_of (q : N) (p : bytes) (js : list cpart) : chain :=
  {| c_q0 := q; c_l1 := p; c_rest := mkj q js; c_qlast := last_q q js |}.

Lemma chain_tail_mkj : forall js q, chain_tail (mkj q js) (last_q q js) = q :: concat (map cpart_text js).
Proof.
  induction js as [|j js IH]; intros q; [reflexivity|].
  cbn [mkj chain_tail last_q map concat j_lit]. rewrite IH. unfold junction_text, cpart_text, quoted.
  cbn [j_close j_sp j_open app]. rewrite <- !app_assoc. cbn [app]. rewrite <- ?app_assoc. reflexivity.
Qed.

Lemma chain_of_text q p js : chain_text (chain_of q p js) = concat_form q p js.
Proof.
  unfold chain_text, chain_of, concat_form, quoted. cbn [c_q0 c_l1 c_rest c_qlast].
  rewrite chain_tail_mkj. cbn [app]. rewrite <- app_assoc. reflexivity.
Qed.

Lemma chain_of_value q p js : chain_value (chain_of q p js) = concat_payload p js.
Proof.
  unfold chain_value, chain_of, concat_payload. cbn [c_l1 c_rest]. f_equal.
  revert q. induction js as [|j js IH]; intros q; [reflexivity|]. cbn [mkj flat_map map concat j_lit]. rewrite IH. reflexivity.
Qed.

Lemma concat_post_starts data lo : forall ms,
  Forall (fun m0 => span_ok data m0 0) ms -> Forall (fun mt => lo <= m_start mt 0) ms ->
  find_concat_post data ms = Hang \/
  exists out, find_concat_post data ms = Ok out /\ Forall (fun nd => lo <= n_st nd) out.
Proof.
  intros ms Hs Hlo. unfold find_concat_post. apply mapM_cases.
  apply Forall_forall. intros m0 Hin. rewrite Forall_forall in Hs, Hlo.
  unfold concat_node. rewrite (group_req_ok _ _ _ _ (Hs m0 Hin)). cbn [bind].
  destruct (fi RE_concat_find_concat_0 NG_concat_find_concat_0 (group data m0 0)) as [inner|ex|] eqn:E; cbn [bind].
  - right. eexists. split; [reflexivity|]. cbn [n_st]. apply Hlo. exact Hin.
  - exfalso. apply (fi_not_raise _ _ _ _ E).
  - left. reflexivity.
Qed.

(* ---- find_concat: a chain of n >= 2 literals; one node spanning the chain, value = the concatenation ---- *)
Theorem find_concat_roundtrip_quiet pre q p js suf :
  is_quote q -> part_ok p = true -> Forall cpart_ok js -> js <> [] ->
  concat_stop (last_q q js) suf = true ->
  (List.length (concat_form q p js) + List.length (take_wsu suf) + 150 <= default_fuel)%nat ->
  let form := concat_form q p js in
  let data := pre ++ form ++ suf in
  quiet default_fuel RE_concat_CONCAT_RE (List.length pre) (start_pos data) ->
  find_concat data = Hang \/
  exists rest, find_concat data
               = Ok (Node (L"string") (concat_payload p js) (L"concatenation") (blen pre) (blen pre + blen form) [] :: rest) /\
               Forall (fun nd => blen pre + blen form <= n_st nd) rest.
Proof.
  intros Hq Hp HF Hne Hstop Hfuel form data Hquiet.
  pose proof (concat_runs q p js suf Hq Hp HF Hne Hstop) as R. fold form in R.
  assert (Hfne : form <> []) by (unfold form, concat_form, quoted; discriminate).
  unfold find_concat.
  destruct (fi_form RE_concat_CONCAT_RE NG_concat_CONCAT_RE pre form suf _ _ Hquiet R Hfuel Hfne)
    as [H | (rest & Hfi & Hrest)].
  { left. fold data in H. rewrite H. reflexivity. }
  fold data in Hfi.
  destruct (fi_spans RE_concat_CONCAT_RE NG_concat_CONCAT_RE data [] eq_refl) as [H | (ms & Hms & Hall)];
    [rewrite Hfi in H; discriminate H|].
  rewrite Hfi in Hms. injection Hms as <-. inversion Hall as [|? ? _ Hall']; subst.
  rewrite Hfi. cbn [bind].
  set (s0 := blen pre) in *. set (e := s0 + blen form) in *.
  change (mk_mtch NG_concat_CONCAT_RE s0 e (cf_id s0 [])) with ([Some (s0, e)] : mtch) in *.
  set (mt := ([Some (s0, e)] : mtch)) in *.
  destruct (inner_fi q p js Hq Hp HF ltac:(lia)) as (inner & Hin & Hsp).
  assert (Enode : concat_node data mt
                  = Ok (Node (L"string") (concat_payload p js) (L"concatenation") s0 e [])).
  { unfold concat_node, group_req, mt. cbn [List.length Nat.ltb Nat.leb nth].
    replace (slice data s0 e) with (concat_form q p js) by (symmetry; unfold e, s0, data; apply slice_mid).
    cbn [bind]. rewrite Hin. cbn [bind].
    rewrite <- (chain_of_text q p js). rewrite (concat_value_chain (chain_of q p js) inner Hsp).
    rewrite chain_of_value. reflexivity. }
  unfold find_concat_post. cbn [mapM]. rewrite Enode. cbn [bind].
  destruct (concat_post_starts data e rest) as [H | (out & Hout & Hst)].
  - eapply Forall_impl; [|exact Hall']. intros m0 [H0 _]. exact H0.
  - exact Hrest.
  - left. unfold find_concat_post in H. rewrite H. reflexivity.
  - right. unfold find_concat_post in Hout. rewrite Hout. cbn [bind]. exists out. split; [reflexivity | exact Hst].
Qed.

Theorem find_concat_roundtrip pre q p js suf :
  is_quote q -> part_ok p = true -> Forall cpart_ok js -> js <> [] ->
  concat_stop (last_q q js) suf = true ->
  (List.length (concat_form q p js) + List.length (take_wsu suf) + 150 <= default_fuel)%nat ->
  neutral RE_concat_CONCAT_RE pre = true ->
  let form := concat_form q p js in
  let data := pre ++ form ++ suf in
  find_concat data = Hang \/
  exists rest, find_concat data
               = Ok (Node (L"string") (concat_payload p js) (L"concatenation") (blen pre) (blen pre + blen form) [] :: rest) /\
               Forall (fun nd => blen pre + blen form <= n_st nd) rest.
Proof.
  intros Hq Hp HF Hne Hstop Hfuel Hn form data.
  apply find_concat_roundtrip_quiet; try assumption.
  apply quiet_no_first; [vm_compute; reflexivity | spine_goal | exact Hn].
Qed.

(* the spelling of the assignment: one quote character, the separator " + " or " & " *)
Definition simple_part (q o : N) (p : bytes) : cpart := {| cp_w1 := [32%N]; cp_op := o; cp_w2 := [32%N]; cp_q := q; cp_lit := p |}.
Definition simple_form (q o : N) (p1 : bytes) (ps : list bytes) : bytes :=
  quoted q p1 ++ concat (map (fun p => [32%N; o; 32%N] ++ quoted q p) ps).

Lemma simple_last_q q o ps : last_q q (map (simple_part q o) ps) = q.
Proof. induction ps as [|p ps IH]; [reflexivity | exact IH]. Qed.

Corollary find_concat_roundtrip_spelled pre q o p1 ps suf :
  is_quote q -> is_op o -> part_ok p1 = true -> forallb part_ok ps = true -> ps <> [] ->
  concat_stop q suf = true ->
  (List.length (simple_form q o p1 ps) + List.length (take_wsu suf) + 150 <= default_fuel)%nat ->
  neutral RE_concat_CONCAT_RE pre = true ->
  let form := simple_form q o p1 ps in
  let data := pre ++ form ++ suf in
  find_concat data = Hang \/
  exists rest, find_concat data
               = Ok (Node (L"string") (p1 ++ concat ps) (L"concatenation") (blen pre) (blen pre + blen form) [] :: rest) /\
               Forall (fun nd => blen pre + blen form <= n_st nd) rest.
Proof.
  intros Hq Ho H1 Hps Hne Hstop Hfuel Hn.
  assert (Ef : simple_form q o p1 ps = concat_form q p1 (map (simple_part q o) ps)).
  { unfold simple_form, concat_form. f_equal. rewrite map_map. reflexivity. }
  assert (Ev : p1 ++ concat ps = concat_payload p1 (map (simple_part q o) ps)).
  { unfold concat_payload. rewrite map_map. cbn [simple_part cp_lit]. rewrite map_id. reflexivity. }
  rewrite Ef in *. rewrite Ev.
  apply find_concat_roundtrip; try assumption.
  - apply Forall_forall. intros j Hj. apply in_map_iff in Hj. destruct Hj as (p & <- & Hp).
    rewrite forallb_forall in Hps. repeat split; try reflexivity; try assumption. apply Hps. exact Hp.
  - destruct ps; [congruence | discriminate].
  - rewrite simple_last_q. exact Hstop.
Qed.


(* ------------------------------------------------------------------ *)
(* 7.  Examples: non-vacuity, side conditions, the tie with Python       *)
(* ------------------------------------------------------------------ *)
(* The py_* examples are GENERATED: the expected value is what /venv/bin/python prints for
   multidecoder.decoders.{reverse.find_reverse, vba.find_strreverse, replace.find_replace, replace.find_vba_replace,
   replace.find_powershell_replace, concat.find_concat} on the same bytes (type, value, obfuscation, start, end). *)
(* rev1 : x = reverse??dlrow olleh??; y = rEVERSEd? ?cba??? *)
Definition ex_rev1 : bytes := [120; 32; 61; 32; 114; 101; 118; 101; 114; 115; 101; 40; 34; 100; 108; 114; 111; 119; 32; 111; 108; 108; 101; 104; 34; 41; 59; 32; 121; 32; 61; 32; 114; 69; 86; 69; 82; 83; 69; 100; 40; 32; 39; 99; 98; 97; 39; 9; 41]%N.
Example py_rev1 : find_reverse ex_rev1 = Ok [Node [115; 116; 114; 105; 110; 103]%N [104; 101; 108; 108; 111; 32; 119; 111; 114; 108; 100]%N [114; 101; 118; 101; 114; 115; 101]%N 4 26 []; Node [115; 116; 114; 105; 110; 103]%N [97; 98; 99]%N [114; 101; 118; 101; 114; 115; 101]%N 32 49 []].
Proof. vm_compute. reflexivity. Qed.
(* rev2 : reverse??b?a?? *)
Definition ex_rev2 : bytes := [114; 101; 118; 101; 114; 115; 101; 40; 34; 98; 34; 97; 34; 41]%N.
Example py_rev2 : find_reverse ex_rev2 = Ok [].
Proof. vm_compute. reflexivity. Qed.
(* rev3 : reverse??a??? *)
Definition ex_rev3 : bytes := [114; 101; 118; 101; 114; 115; 101; 40; 34; 97; 92; 34; 41]%N.
Example py_rev3 : find_reverse ex_rev3 = Ok [].
Proof. vm_compute. reflexivity. Qed.
(* rev4 : reverse??a??? *)
Definition ex_rev4 : bytes := [114; 101; 118; 101; 114; 115; 101; 40; 34; 97; 96; 34; 41]%N.
Example py_rev4 : find_reverse ex_rev4 = Ok [].
Proof. vm_compute. reflexivity. Qed.
(* rev5 : reverse??a?b?? *)
Definition ex_rev5 : bytes := [114; 101; 118; 101; 114; 115; 101; 40; 39; 97; 39; 98; 39; 41]%N.
Example py_rev5 : find_reverse ex_rev5 = Ok [].
Proof. vm_compute. reflexivity. Qed.
(* rev6 : reverse??cba???x?? *)
Definition ex_rev6 : bytes := [114; 101; 118; 101; 114; 115; 101; 40; 34; 99; 98; 97; 34; 41; 34; 120; 34; 41]%N.
Example py_rev6 : find_reverse ex_rev6 = Ok [Node [115; 116; 114; 105; 110; 103]%N [97; 98; 99]%N [114; 101; 118; 101; 114; 115; 101]%N 0 14 []].
Proof. vm_compute. reflexivity. Qed.
(* rev7 : reverse??b??a?? *)
Definition ex_rev7 : bytes := [114; 101; 118; 101; 114; 115; 101; 40; 34; 98; 34; 34; 97; 34; 41]%N.
Example py_rev7 : find_reverse ex_rev7 = Ok [Node [115; 116; 114; 105; 110; 103]%N [97; 34; 34; 98]%N [114; 101; 118; 101; 114; 115; 101]%N 0 15 []].
Proof. vm_compute. reflexivity. Qed.
(* rev8 : reverse??a?b?? *)
Definition ex_rev8 : bytes := [114; 101; 118; 101; 114; 115; 101; 40; 34; 97; 92; 98; 34; 41]%N.
Example py_rev8 : find_reverse ex_rev8 = Ok [Node [115; 116; 114; 105; 110; 103]%N [98; 92; 97]%N [114; 101; 118; 101; 114; 115; 101]%N 0 14 []].
Proof. vm_compute. reflexivity. Qed.
(* srev1 : Dim s: s = StrReverse??llehs?? & strREVERSE??dmc?? *)
Definition ex_srev1 : bytes := [68; 105; 109; 32; 115; 58; 32; 115; 32; 61; 32; 83; 116; 114; 82; 101; 118; 101; 114; 115; 101; 40; 34; 108; 108; 101; 104; 115; 34; 41; 32; 38; 32; 115; 116; 114; 82; 69; 86; 69; 82; 83; 69; 40; 39; 100; 109; 99; 39; 41]%N.
Example py_srev1 : find_strreverse ex_srev1 = Ok [Node [118; 98; 97; 46; 115; 116; 114; 105; 110; 103]%N [115; 104; 101; 108; 108]%N [118; 98; 97; 46; 114; 101; 118; 101; 114; 115; 101]%N 11 30 []; Node [118; 98; 97; 46; 115; 116; 114; 105; 110; 103]%N [99; 109; 100]%N [118; 98; 97; 46; 114; 101; 118; 101; 114; 115; 101]%N 33 50 []].
Proof. vm_compute. reflexivity. Qed.
(* srev2 : xStrReverse? ?ba? ? *)
Definition ex_srev2 : bytes := [120; 83; 116; 114; 82; 101; 118; 101; 114; 115; 101; 40; 32; 34; 98; 97; 34; 32; 41]%N.
Example py_srev2 : find_strreverse ex_srev2 = Ok [Node [118; 98; 97; 46; 115; 116; 114; 105; 110; 103]%N [97; 98]%N [118; 98; 97; 46; 114; 101; 118; 101; 114; 115; 101]%N 1 19 []].
Proof. vm_compute. reflexivity. Qed.
(* rep1 : var s = ?he#~#o w#~#d?.replace??#~#?, ?ll??; t = ?abc?.Replace? ?b? ,??B? ? *)
Definition ex_rep1 : bytes := [118; 97; 114; 32; 115; 32; 61; 32; 34; 104; 101; 35; 126; 35; 111; 32; 119; 35; 126; 35; 100; 34; 46; 114; 101; 112; 108; 97; 99; 101; 40; 34; 35; 126; 35; 34; 44; 32; 34; 108; 108; 34; 41; 59; 32; 116; 32; 61; 32; 39; 97; 98; 99; 39; 46; 82; 101; 112; 108; 97; 99; 101; 40; 32; 39; 98; 39; 32; 44; 9; 34; 66; 34; 32; 41]%N.
Example py_rep1 : find_replace ex_rep1 = Ok [Node [115; 116; 114; 105; 110; 103]%N [104; 101; 108; 108; 111; 32; 119; 108; 108; 100]%N [114; 101; 112; 108; 97; 99; 101]%N 8 43 []; Node [115; 116; 114; 105; 110; 103]%N [97; 66; 99]%N [114; 101; 112; 108; 97; 99; 101]%N 49 75 []].
Proof. vm_compute. reflexivity. Qed.
(* rep2 : ?###?.replace??##?, ?b?? *)
Definition ex_rep2 : bytes := [34; 35; 35; 35; 34; 46; 114; 101; 112; 108; 97; 99; 101; 40; 34; 35; 35; 34; 44; 32; 34; 98; 34; 41]%N.
Example py_rep2 : find_replace ex_rep2 = Ok [Node [115; 116; 114; 105; 110; 103]%N [98; 35]%N [114; 101; 112; 108; 97; 99; 101]%N 0 24 []].
Proof. vm_compute. reflexivity. Qed.
(* vrep1 : s = Replace??he#~#o?, ?#~#?, ?ll?? : t = REPLACE? ?abc? , ?b? , ?? ? *)
Definition ex_vrep1 : bytes := [115; 32; 61; 32; 82; 101; 112; 108; 97; 99; 101; 40; 34; 104; 101; 35; 126; 35; 111; 34; 44; 32; 34; 35; 126; 35; 34; 44; 32; 34; 108; 108; 34; 41; 32; 58; 32; 116; 32; 61; 32; 82; 69; 80; 76; 65; 67; 69; 40; 32; 39; 97; 98; 99; 39; 32; 44; 32; 39; 98; 39; 32; 44; 32; 39; 39; 32; 41]%N.
Example py_vrep1 : find_vba_replace ex_vrep1 = Ok [Node [118; 98; 97; 46; 115; 116; 114; 105; 110; 103]%N [104; 101; 108; 108; 111]%N [118; 98; 97; 46; 114; 101; 112; 108; 97; 99; 101]%N 4 34 []; Node [118; 98; 97; 46; 115; 116; 114; 105; 110; 103]%N [97; 99]%N [118; 98; 97; 46; 114; 101; 112; 108; 97; 99; 101]%N 41 68 []].
Proof. vm_compute. reflexivity. Qed.
(* prep1 : $s = ?he#~#o? -replace ?#~#?,?ll?; $t = ?abc?  -RePlace??b? , ?X? *)
Definition ex_prep1 : bytes := [36; 115; 32; 61; 32; 39; 104; 101; 35; 126; 35; 111; 39; 32; 45; 114; 101; 112; 108; 97; 99; 101; 32; 39; 35; 126; 35; 39; 44; 39; 108; 108; 39; 59; 32; 36; 116; 32; 61; 32; 34; 97; 98; 99; 34; 32; 32; 45; 82; 101; 80; 108; 97; 99; 101; 9; 34; 98; 34; 32; 44; 32; 39; 88; 39]%N.
Example py_prep1 : find_powershell_replace ex_prep1 = Ok [Node [112; 111; 119; 101; 114; 115; 104; 101; 108; 108; 46; 115; 116; 114; 105; 110; 103]%N [104; 101; 108; 108; 111]%N [114; 101; 112; 108; 97; 99; 101]%N 5 33 []; Node [112; 111; 119; 101; 114; 115; 104; 101; 108; 108; 46; 115; 116; 114; 105; 110; 103]%N [97; 88; 99]%N [114; 101; 112; 108; 97; 99; 101]%N 40 65 []].
Proof. vm_compute. reflexivity. Qed.
(* prep2 : ?abc? -replace ?b?,?x??y? *)
Definition ex_prep2 : bytes := [39; 97; 98; 99; 39; 32; 45; 114; 101; 112; 108; 97; 99; 101; 32; 39; 98; 39; 44; 39; 120; 39; 39; 121; 39]%N.
Example py_prep2 : find_powershell_replace ex_prep2 = Ok [Node [112; 111; 119; 101; 114; 115; 104; 101; 108; 108; 46; 115; 116; 114; 105; 110; 103]%N [97; 120; 39; 39; 121; 99]%N [114; 101; 112; 108; 97; 99; 101]%N 0 25 []].
Proof. vm_compute. reflexivity. Qed.
(* prep3 : ?abc? -replace ?b?,?x??y *)
Definition ex_prep3 : bytes := [39; 97; 98; 99; 39; 32; 45; 114; 101; 112; 108; 97; 99; 101; 32; 39; 98; 39; 44; 39; 120; 39; 39; 121]%N.
Example py_prep3 : find_powershell_replace ex_prep3 = Ok [Node [112; 111; 119; 101; 114; 115; 104; 101; 108; 108; 46; 115; 116; 114; 105; 110; 103]%N [97; 120; 99]%N [114; 101; 112; 108; 97; 99; 101]%N 0 22 []].
Proof. vm_compute. reflexivity. Qed.
(* prep4 : ?abc? -replace ?b?,?x? ?y? *)
Definition ex_prep4 : bytes := [39; 97; 98; 99; 39; 32; 45; 114; 101; 112; 108; 97; 99; 101; 32; 39; 98; 39; 44; 39; 120; 39; 32; 39; 121; 39]%N.
Example py_prep4 : find_powershell_replace ex_prep4 = Ok [Node [112; 111; 119; 101; 114; 115; 104; 101; 108; 108; 46; 115; 116; 114; 105; 110; 103]%N [97; 120; 99]%N [114; 101; 112; 108; 97; 99; 101]%N 0 22 []].
Proof. vm_compute. reflexivity. Qed.
(* cat1 : x = ?ab? + ?cd? + ?ef?; y *)
Definition ex_cat1 : bytes := [120; 32; 61; 32; 34; 97; 98; 34; 32; 43; 32; 34; 99; 100; 34; 32; 43; 32; 34; 101; 102; 34; 59; 32; 121]%N.
Example py_cat1 : find_concat ex_cat1 = Ok [Node [115; 116; 114; 105; 110; 103]%N [97; 98; 99; 100; 101; 102]%N [99; 111; 110; 99; 97; 116; 101; 110; 97; 116; 105; 111; 110]%N 4 22 []].
Proof. vm_compute. reflexivity. Qed.
(* cat2 : s = ?po? & ?wer? &_? ?shell? ? z *)
Definition ex_cat2 : bytes := [115; 32; 61; 32; 39; 112; 111; 39; 32; 38; 32; 39; 119; 101; 114; 39; 32; 38; 95; 10; 32; 39; 115; 104; 101; 108; 108; 39; 32; 39; 32; 122]%N.
Example py_cat2 : find_concat ex_cat2 = Ok [Node [115; 116; 114; 105; 110; 103]%N [112; 111; 119; 101; 114; 115; 104; 101; 108; 108]%N [99; 111; 110; 99; 97; 116; 101; 110; 97; 116; 105; 111; 110]%N 4 28 []].
Proof. vm_compute. reflexivity. Qed.
(* cat3 : ?ab? + ?cd? + x *)
Definition ex_cat3 : bytes := [34; 97; 98; 34; 32; 43; 32; 34; 99; 100; 34; 32; 43; 32; 120]%N.
Example py_cat3 : find_concat ex_cat3 = Ok [Node [115; 116; 114; 105; 110; 103]%N [97; 98; 99; 100]%N [99; 111; 110; 99; 97; 116; 101; 110; 97; 116; 105; 111; 110]%N 0 11 []].
Proof. vm_compute. reflexivity. Qed.
(* cat4 : ?ab? + ?cd? + ?ef? + ?g? *)
Definition ex_cat4 : bytes := [34; 97; 98; 34; 32; 43; 32; 34; 99; 100; 34; 32; 43; 32; 34; 101; 102; 34; 32; 43; 32; 34; 103; 34]%N.
Example py_cat4 : find_concat ex_cat4 = Ok [Node [115; 116; 114; 105; 110; 103]%N [97; 98; 99; 100; 101; 102; 103]%N [99; 111; 110; 99; 97; 116; 101; 110; 97; 116; 105; 111; 110]%N 0 24 []].
Proof. vm_compute. reflexivity. Qed.
(* cat5 : ?a? + ?b?? + ?c? *)
Definition ex_cat5 : bytes := [34; 97; 34; 32; 43; 32; 34; 98; 34; 34; 32; 43; 32; 34; 99; 34]%N.
Example py_cat5 : find_concat ex_cat5 = Ok [Node [115; 116; 114; 105; 110; 103]%N [97; 98]%N [99; 111; 110; 99; 97; 116; 101; 110; 97; 116; 105; 111; 110]%N 0 14 []].
Proof. vm_compute. reflexivity. Qed.
(* cat6 : ?+? + ?a? *)
Definition ex_cat6 : bytes := [34; 43; 34; 32; 43; 32; 34; 97; 34]%N.
Example py_cat6 : find_concat ex_cat6 = Ok [Node [115; 116; 114; 105; 110; 103]%N [43; 32; 34; 97]%N [99; 111; 110; 99; 97; 116; 101; 110; 97; 116; 105; 111; 110]%N 0 9 []].
Proof. vm_compute. reflexivity. Qed.
(* cat7 : ? + ? + ?a? *)
Definition ex_cat7 : bytes := [34; 32; 43; 32; 34; 32; 43; 32; 34; 97; 34]%N.
Example py_cat7 : find_concat ex_cat7 = Ok [Node [115; 116; 114; 105; 110; 103]%N [43; 32; 34; 97]%N [99; 111; 110; 99; 97; 116; 101; 110; 97; 116; 105; 111; 110]%N 0 11 []].
Proof. vm_compute. reflexivity. Qed.
(* cat8 : ?+x? + ?a? *)
Definition ex_cat8 : bytes := [34; 43; 120; 34; 32; 43; 32; 34; 97; 34]%N.
Example py_cat8 : find_concat ex_cat8 = Ok [Node [115; 116; 114; 105; 110; 103]%N [43; 120; 97]%N [99; 111; 110; 99; 97; 116; 101; 110; 97; 116; 105; 111; 110]%N 0 10 []].
Proof. vm_compute. reflexivity. Qed.
(* cat9 : ?a? + ? b? + ?_c? *)
Definition ex_cat9 : bytes := [34; 97; 34; 32; 43; 32; 34; 32; 98; 34; 32; 43; 32; 34; 95; 99; 34]%N.
Example py_cat9 : find_concat ex_cat9 = Ok [Node [115; 116; 114; 105; 110; 103]%N [97; 32; 98; 95; 99]%N [99; 111; 110; 99; 97; 116; 101; 110; 97; 116; 105; 111; 110]%N 0 17 []].
Proof. vm_compute. reflexivity. Qed.
(* cat10 : ?a? &amp; ?b? *)
Definition ex_cat10 : bytes := [34; 97; 34; 32; 38; 97; 109; 112; 59; 32; 34; 98; 34]%N.
Example py_cat10 : find_concat ex_cat10 = Ok [Node [115; 116; 114; 105; 110; 103]%N [97; 98]%N [99; 111; 110; 99; 97; 116; 101; 110; 97; 116; 105; 111; 110]%N 0 13 []].
Proof. vm_compute. reflexivity. Qed.
(* cat11 : ?a? + ?b? + ?c? *)
Definition ex_cat11 : bytes := [34; 97; 39; 32; 43; 32; 39; 98; 34; 32; 43; 32; 34; 99; 34]%N.
Example py_cat11 : find_concat ex_cat11 = Ok [Node [115; 116; 114; 105; 110; 103]%N [97; 98; 99]%N [99; 111; 110; 99; 97; 116; 101; 110; 97; 116; 105; 111; 110]%N 0 15 []].
Proof. vm_compute. reflexivity. Qed.
(* cat12 : ?a? + ?b? ? + 1 *)
Definition ex_cat12 : bytes := [34; 97; 34; 32; 43; 32; 34; 98; 34; 32; 10; 32; 43; 32; 49]%N.
Example py_cat12 : find_concat ex_cat12 = Ok [Node [115; 116; 114; 105; 110; 103]%N [97; 98]%N [99; 111; 110; 99; 97; 116; 101; 110; 97; 116; 105; 111; 110]%N 0 9 []].
Proof. vm_compute. reflexivity. Qed.
(* cat13 : ?a? + ?b?    *)
Definition ex_cat13 : bytes := [34; 97; 34; 32; 43; 32; 34; 98; 34; 32; 32; 32]%N.
Example py_cat13 : find_concat ex_cat13 = Ok [Node [115; 116; 114; 105; 110; 103]%N [97; 98]%N [99; 111; 110; 99; 97; 116; 101; 110; 97; 116; 105; 111; 110]%N 0 9 []].
Proof. vm_compute. reflexivity. Qed.
(* cat14 : ?a? + ?b? *)
Definition ex_cat14 : bytes := [34; 97; 34; 32; 43; 32; 34; 98; 34]%N.
Example py_cat14 : find_concat ex_cat14 = Ok [Node [115; 116; 114; 105; 110; 103]%N [97; 98]%N [99; 111; 110; 99; 97; 116; 101; 110; 97; 116; 105; 111; 110]%N 0 9 []].
Proof. vm_compute. reflexivity. Qed.

Example rt2_first_sets :
  first_cls RE_reverse_REVERSE_RE = mask_of (L"Rr") /\
  first_cls RE_vba_STRREVERSE_RE = mask_of (L"Ss") /\
  first_cls RE_replace_REPLACE_RE = mask_of [34; 39]%N /\
  first_cls RE_replace_VBA_REPLACE_RE = mask_of (L"Rr") /\
  first_cls RE_replace_POWERSHELL_REPLACE_RE = mask_of [34; 39]%N /\
  first_cls RE_concat_CONCAT_RE = mask_of [34; 39]%N /\
  first_cls RE_concat_find_concat_0 = mask_of [34; 39]%N.
Proof. vm_compute. repeat split; reflexivity. Qed.

(* ---- find_reverse ---- *)
Example rt2_reverse_text :
  L"x = " ++ (L"reverse(" ++ [] ++ quoted 34 (rev (L"hello world")) ++ [] ++ L")")
          ++ (L"; y = rEVERSEd( 'cba'" ++ [9; 41]%N) = ex_rev1.
Proof. vm_compute. reflexivity. Qed.
Example rt2_reverse_hyps :
  lit_ok 34 (L"hello world") = true /\ neutral RE_reverse_REVERSE_RE (L"x = ") = true /\
  (List.length (L"hello world") + 0 + 0 + 100 <= default_fuel)%nat.
Proof. split; [reflexivity|]. split; [vm_compute; reflexivity | small_fuel]. Qed.
(* the second call of the same text: the spelling reversed( in mixed case, white space, single quotes *)
Example rt2_reversed_hyps :
  lower (L"rEVERSEd(") = L"reversed(" /\ ws_ok [32%N] = true /\ ws_ok [9%N] = true /\ lit_ok 39 (L"abc") = true /\
  skipn 32 ex_rev1 = L"rEVERSEd(" ++ [32%N] ++ quoted 39 (rev (L"abc")) ++ [9%N] ++ L")".
Proof. vm_compute. repeat split; reflexivity. Qed.
(* SIDE CONDITIONS: the payload class.  A double quote inside a double-quoted literal ends it ... *)
Example rt2_side_reverse_quote :
  lit_ok 34 [97; 34; 98]%N = false /\ ex_rev2 = L"reverse(" ++ quoted 34 (rev [97; 34; 98]%N) ++ L")" /\
  find_reverse ex_rev2 = Ok [].
Proof. vm_compute. repeat split; reflexivity. Qed.
(* ... a backslash at the beginning of the payload (the end of the reversed literal) escapes the closing quote ... *)
Example rt2_side_reverse_backslash :
  lit_ok 34 [92; 97]%N = false /\ ex_rev3 = L"reverse(" ++ quoted 34 (rev [92; 97]%N) ++ L")" /\
  find_reverse ex_rev3 = Ok [].
Proof. vm_compute. repeat split; reflexivity. Qed.
(* ... so does a back-tick ... *)
Example rt2_side_reverse_backtick :
  lit_ok 34 [96; 97]%N = false /\ ex_rev4 = L"reverse(" ++ quoted 34 (rev [96; 97]%N) ++ L")" /\
  find_reverse ex_rev4 = Ok [].
Proof. vm_compute. repeat split; reflexivity. Qed.
(* ... and a single quote inside a single-quoted literal (but a double quote is fine there, and vice versa) *)
Example rt2_side_reverse_squote :
  lit_ok 39 [98; 39; 97]%N = false /\ lit_ok 34 [98; 39; 97]%N = true /\ lit_ok 39 [98; 34; 97]%N = true /\
  ex_rev5 = L"reverse(" ++ quoted 39 (rev [98; 39; 97]%N) ++ L")" /\ find_reverse ex_rev5 = Ok [].
Proof. vm_compute. repeat split; reflexivity. Qed.
(* the class is sufficient, not necessary: a backslash in the middle is an escape pair the pattern accepts,
   and the value is still the payload *)
Example rt2_side_reverse_not_necessary :
  lit_ok 34 [98; 92; 97]%N = false /\ ex_rev8 = L"reverse(" ++ quoted 34 (rev [98; 92; 97]%N) ++ L")" /\
  find_reverse ex_rev8 = Ok [Node (L"string") [98; 92; 97]%N (L"reverse") 0 14 []].
Proof. vm_compute. repeat split; reflexivity. Qed.
(* any suffix is allowed (the closing parenthesis ends the form), here one that begins with a quote *)
Example rt2_reverse_any_suffix :
  ex_rev6 = (L"reverse(" ++ quoted 34 (rev (L"abc")) ++ L")") ++ [34; 120; 34; 41]%N /\
  find_reverse ex_rev6 = Ok [Node (L"string") (L"abc") (L"reverse") 0 14 []].
Proof. vm_compute. split; reflexivity. Qed.

(* ---- find_strreverse ---- *)
Example rt2_strreverse_text :
  L"Dim s: s = " ++ (L"StrReverse(" ++ [] ++ quoted 34 (rev (L"shell")) ++ [] ++ L")") ++ L" & strREVERSE('dmc')" = ex_srev1.
Proof. vm_compute. reflexivity. Qed.
Example rt2_strreverse_hyps :
  lower (L"StrReverse(") = L"strreverse(" /\ lit_ok 34 (L"shell") = true /\
  neutral RE_vba_STRREVERSE_RE (L"Dim s: s = ") = false /\ neutral RE_vba_STRREVERSE_RE (L"Dim x: x = ") = true.
Proof. vm_compute. repeat split; reflexivity. Qed.
Example rt2_strreverse_ws :
  ex_srev2 = L"x" ++ (L"StrReverse(" ++ [32%N] ++ quoted 34 (rev (L"ab")) ++ [32%N] ++ L")") /\
  neutral RE_vba_STRREVERSE_RE (L"x") = true.
Proof. vm_compute. split; reflexivity. Qed.

(* ---- the replace spellings, with the token #~# ---- *)
Example rt2_token :
  py_replace (L"hello") (L"ll") (L"#~#") = L"he#~#o" /\ py_replace (L"he#~#o") (L"#~#") (L"ll") = L"hello" /\
  ~ In 35%N (L"hello") /\ lit_ok 34 (L"hello") = true /\ lit_ok 34 (L"ll") = true /\ lit_ok 34 (L"#~#") = true.
Proof.
  split; [reflexivity|]. split; [reflexivity|]. split; [|repeat split; reflexivity].
  cbn [s2b In]. intros H. repeat (destruct H as [H|H]; [discriminate H|]). exact H.
Qed.
Example rt2_replace_text :
  L"var s = " ++ (quoted 34 (L"he#~#o w#~#d") ++ L".replace(" ++ quoted 34 (L"#~#") ++ L", " ++ quoted 34 (L"ll") ++ L")")
  ++ (L"; t = 'abc'.Replace( 'b' ," ++ [9; 34; 66; 34; 32; 41]%N) = ex_rep1.
Proof. vm_compute. reflexivity. Qed.
Example rt2_replace_hyps :
  neutral RE_replace_REPLACE_RE (L"var s = ") = true /\
  py_replace (L"hello wlld") (L"ll") (L"#~#") = L"he#~#o w#~#d".
Proof. vm_compute. split; reflexivity. Qed.
Example rt2_vba_replace_text :
  L"s = " ++ (L"Replace(" ++ quoted 34 (L"he#~#o") ++ L", " ++ quoted 34 (L"#~#") ++ L", " ++ quoted 34 (L"ll") ++ L")")
  ++ L" : t = REPLACE( 'abc' , 'b' , '' )" = ex_vrep1 /\
  neutral RE_replace_VBA_REPLACE_RE (L"s = ") = true.
Proof. vm_compute. split; reflexivity. Qed.
Example rt2_ps_replace_text :
  L"$s = " ++ (quoted 39 (L"he#~#o") ++ L" -replace " ++ quoted 39 (L"#~#") ++ L"," ++ quoted 39 (L"ll"))
  ++ (L"; $t = " ++ [34; 97; 98; 99; 34; 32; 32] ++ L"-RePlace" ++ [9; 34; 98; 34; 32; 44; 32; 39; 88; 39])%N = ex_prep1 /\
  neutral RE_replace_POWERSHELL_REPLACE_RE (L"$s = ") = true /\ stop_q 39 (L"; $t") = true.
Proof. vm_compute. repeat split; reflexivity. Qed.
(* SIDE CONDITION of the decode-encode law: "the token does not occur in the payload" is not enough.
   payload #b, c = b, token ## : the encoded text is ###, and the call gives b# (Python agrees: py_rep2) *)
Example rt2_side_token_overlap :
  py_replace (L"#b") (L"b") (L"##") = L"###" /\ py_replace (L"###") (L"##") (L"b") = L"b#" /\
  ex_rep2 = quoted 34 (L"###") ++ L".replace(" ++ quoted 34 (L"##") ++ L", " ++ quoted 34 (L"b") ++ L")".
Proof. vm_compute. repeat split; reflexivity. Qed.
(* SIDE CONDITION of the PowerShell spelling (the pattern ends with the literal): a suffix that begins with the
   same quote continues the literal through the doubled-quote escape; node and value are different *)
Example rt2_side_ps_suffix_quote :
  stop_q 39 (L"'y'") = false /\
  ex_prep2 = (quoted 39 (L"abc") ++ L" -replace " ++ quoted 39 (L"b") ++ L"," ++ quoted 39 (L"x")) ++ L"'y'" /\
  find_powershell_replace ex_prep2 = Ok [Node (L"powershell.string") (L"ax''yc") (L"replace") 0 25 []].
Proof. vm_compute. repeat split; reflexivity. Qed.
(* sufficient, not necessary: without a closing quote further on the matcher falls back to the form *)
Example rt2_side_ps_suffix_not_necessary :
  stop_q 39 (L"'y") = false /\
  ex_prep3 = (quoted 39 (L"abc") ++ L" -replace " ++ quoted 39 (L"b") ++ L"," ++ quoted 39 (L"x")) ++ L"'y" /\
  find_powershell_replace ex_prep3 = Ok [Node (L"powershell.string") (L"axc") (L"replace") 0 22 []].
Proof. vm_compute. repeat split; reflexivity. Qed.

(* ---- find_concat ---- *)
Example rt2_concat_text :
  L"x = " ++ simple_form 34 43 (L"ab") [L"cd"; L"ef"] ++ L"; y" = ex_cat1.
Proof. vm_compute. reflexivity. Qed.
Example rt2_concat_hyps :
  part_ok (L"ab") = true /\ forallb part_ok [L"cd"; L"ef"] = true /\ concat_stop 34 (L"; y") = true /\
  neutral RE_concat_CONCAT_RE (L"x = ") = true /\ L"ab" ++ concat [L"cd"; L"ef"] = L"abcdef".
Proof. vm_compute. repeat split; reflexivity. Qed.
(* mixed quotes and separators: ampersands, an underscore and a line break (VB line continuation) *)
Definition ex_cat2_parts : list cpart :=
  [ {| cp_w1 := [32%N]; cp_op := 38%N; cp_w2 := [32%N]; cp_q := 39%N; cp_lit := L"wer" |};
    {| cp_w1 := [32%N]; cp_op := 38%N; cp_w2 := [95; 10; 32]%N; cp_q := 39%N; cp_lit := L"shell" |} ].
Example rt2_concat_mixed :
  L"s = " ++ concat_form 39 (L"po") ex_cat2_parts ++ L" ' z" = ex_cat2 /\
  concat_payload (L"po") ex_cat2_parts = L"powershell" /\
  concat_stop (last_q 39 ex_cat2_parts) (L" ' z") = true /\ neutral RE_concat_CONCAT_RE (L"s = ") = true.
Proof. vm_compute. repeat split; reflexivity. Qed.
Example rt2_concat_mixed_ok : Forall cpart_ok ex_cat2_parts.
Proof.
  unfold ex_cat2_parts.
  repeat (apply Forall_cons; [unfold cpart_ok; cbn [cp_w1 cp_op cp_w2 cp_q cp_lit]; repeat split;
                              first [reflexivity | left; reflexivity | right; reflexivity] |]).
  constructor.
Qed.
(* literals may begin with white space or an underscore *)
Example rt2_concat_ws_parts :
  ex_cat9 = simple_form 34 43 (L"a") [L" b"; L"_c"] /\ forallb part_ok [L" b"; L"_c"] = true.
Proof. vm_compute. split; reflexivity. Qed.
(* trailing white space after the chain is allowed *)
Example rt2_concat_trailing_ws :
  ex_cat13 = simple_form 34 43 (L"a") [L"b"] ++ L"   " /\ concat_stop 34 (L"   ") = true.
Proof. vm_compute. split; reflexivity. Qed.
(* SIDE CONDITIONS.  (1) the suffix must not begin with the quote of the last literal: the doubled-quote
   escape continues the literal; here the node is longer than the form and the value differs *)
Example rt2_side_concat_suffix_quote :
  ex_cat5 = simple_form 34 43 (L"a") [L"b"] ++ [34; 32; 43; 32; 34; 99; 34]%N /\
  concat_stop 34 [34; 32; 43; 32; 34; 99; 34]%N = false /\
  find_concat ex_cat5 = Ok [Node (L"string") (L"ab") (L"concatenation") 0 14 []].
Proof. vm_compute. repeat split; reflexivity. Qed.
(* (2) the suffix must not go on with a spacer: sufficient, not necessary (nothing follows the operator here) *)
Example rt2_side_concat_suffix_spacer :
  ex_cat3 = simple_form 34 43 (L"ab") [L"cd"] ++ L" + x" /\ concat_stop 34 (L" + x") = false /\
  find_concat ex_cat3 = Ok [Node (L"string") (L"abcd") (L"concatenation") 0 11 []].
Proof. vm_compute. repeat split; reflexivity. Qed.
(* (3) a literal that is itself a spacer (here the operator alone): the inner pattern of find_concat takes
   the literal WITH ITS QUOTES for a junction, and the value is not the concatenation of the parts.
   Python gives the same value: a defect of the decoder, not of the model. *)
Example rt2_side_concat_operator_literal :
  ex_cat6 = simple_form 34 43 (L"+") [L"a"] /\ part_ok (L"+") = false /\
  find_concat ex_cat6 = Ok [Node (L"string") [43; 32; 34; 97]%N (L"concatenation") 0 9 []].
Proof. vm_compute. repeat split; reflexivity. Qed.
Example rt2_side_concat_spacer_literal :
  ex_cat7 = simple_form 34 43 (L" + ") [L"a"] /\ part_ok (L" + ") = false /\
  find_concat ex_cat7 = Ok [Node (L"string") [43; 32; 34; 97]%N (L"concatenation") 0 11 []].
Proof. vm_compute. repeat split; reflexivity. Qed.
(* ... sufficient, not necessary: an operator followed by something else is harmless *)
Example rt2_side_concat_part_not_necessary :
  ex_cat8 = simple_form 34 43 (L"+x") [L"a"] /\ part_ok (L"+x") = false /\
  find_concat ex_cat8 = Ok [Node (L"string") (L"+xa") (L"concatenation") 0 10 []].
Proof. vm_compute. repeat split; reflexivity. Qed.
(* (4) the other kind of quote inside a literal (allowed by STRING_RE) can form a junction too:
   the value loses the text between the quotes.  Again Python agrees. *)
Example rt2_side_concat_other_quote :
  ex_cat11 = simple_form 34 43 [97; 39; 32; 43; 32; 39; 98]%N [L"c"] /\
  part_ok [97; 39; 32; 43; 32; 39; 98]%N = false /\ lit_ok 34 [97; 39; 32; 43; 32; 39; 98]%N = true /\
  find_concat ex_cat11 = Ok [Node (L"string") (L"abc") (L"concatenation") 0 15 []].
Proof. vm_compute. repeat split; reflexivity. Qed.
(* the third operator spelling of the pattern is found as well, but is NOT covered by the theorems: its first
   alternative matches the ampersand and is given up only when the rest fails (not a deterministic run) *)
Example rt2_concat_amp_entity : find_concat ex_cat10 = Ok [Node (L"string") (L"ab") (L"concatenation") 0 13 []].
Proof. vm_compute. reflexivity. Qed.
(* a single literal is no chain: n >= 2 is needed *)
Example rt2_side_concat_single : find_concat (L"x = " ++ quoted 34 (L"ab") ++ L"; y") = Ok [].
Proof. vm_compute. reflexivity. Qed.

(* the deterministic attempt on a literal: end position and no capture *)
Example rt2_string_match_here :
  match match_here default_fuel RE_concat_STRING_RE (start_pos (quoted 34 (L"abc") ++ L") tail")) with
  | Found e c => Some (p_i e, p_after e, c)
  | _ => None
  end = Some (5, L") tail", []).
Proof. vm_compute. reflexivity. Qed.

(* the theorems instantiated on the texts above: the node they promise is the node Python reports *)
Example rt2_reverse_apply :
  find_reverse ex_rev1 = Hang \/
  exists rest, find_reverse ex_rev1 = Ok (Node (L"string") (L"hello world") (L"reverse") 4 26 [] :: rest) /\
               Forall (fun nd => 26 <= n_st nd) rest.
Proof.
  rewrite <- rt2_reverse_text.
  exact (find_reverse_roundtrip (L"reverse(") (L"x = ") [] 34 (L"hello world") [] _
           (or_introl eq_refl) eq_refl eq_refl is_quote_34 eq_refl ltac:(small_fuel) ltac:(vm_compute; reflexivity)).
Qed.
Example rt2_strreverse_apply :
  find_strreverse ex_srev2 = Hang \/
  exists rest, find_strreverse ex_srev2 = Ok (Node (L"vba.string") (L"ab") (L"vba.reverse") 1 19 [] :: rest) /\
               Forall (fun nd => 19 <= n_st nd) rest.
Proof.
  replace ex_srev2 with (L"x" ++ (L"StrReverse(" ++ [32%N] ++ quoted 34 (rev (L"ab")) ++ [32%N] ++ L")") ++ [])
    by (vm_compute; reflexivity).
  exact (find_strreverse_roundtrip (L"StrReverse(") (L"x") [32%N] 34 (L"ab") [32%N] []
           eq_refl eq_refl eq_refl is_quote_34 eq_refl ltac:(small_fuel) ltac:(vm_compute; reflexivity)).
Qed.
Example rt2_replace_apply :
  find_replace ex_rep1 = Hang \/
  exists rest, find_replace ex_rep1 = Ok (Node (L"string") (L"hello wlld") (L"replace") 8 43 [] :: rest) /\
               Forall (fun nd => 43 <= n_st nd) rest.
Proof.
  rewrite <- rt2_replace_text.
  assert (Hnin : ~ In 35%N (L"hello wlld")).
  { cbn [s2b In]. intros H. repeat (destruct H as [H|H]; [discriminate H|]). exact H. }
  exact (find_replace_decodes (L"var s = ") 34 (L"hello wlld") (L"ll") 35 (L"~#") _
           is_quote_34 eq_refl eq_refl eq_refl ltac:(discriminate) Hnin ltac:(small_fuel) ltac:(vm_compute; reflexivity)).
Qed.
Example rt2_vba_replace_apply :
  find_vba_replace ex_vrep1 = Hang \/
  exists rest, find_vba_replace ex_vrep1 = Ok (Node (L"vba.string") (L"hello") (L"vba.replace") 4 34 [] :: rest) /\
               Forall (fun nd => 34 <= n_st nd) rest.
Proof.
  destruct rt2_vba_replace_text as [E _]. rewrite <- E.
  assert (Hnin : ~ In 35%N (L"hello")).
  { cbn [s2b In]. intros H. repeat (destruct H as [H|H]; [discriminate H|]). exact H. }
  exact (find_vba_replace_decodes (L"s = ") 34 (L"hello") (L"ll") 35 (L"~#") _
           is_quote_34 eq_refl eq_refl eq_refl ltac:(discriminate) Hnin ltac:(small_fuel) ltac:(vm_compute; reflexivity)).
Qed.
Example rt2_ps_replace_apply :
  find_powershell_replace ex_prep1 = Hang \/
  exists rest, find_powershell_replace ex_prep1 = Ok (Node (L"powershell.string") (L"hello") (L"replace") 5 33 [] :: rest) /\
               Forall (fun nd => 33 <= n_st nd) rest.
Proof.
  destruct rt2_ps_replace_text as [E _]. rewrite <- E.
  assert (Hnin : ~ In 35%N (L"hello")).
  { cbn [s2b In]. intros H. repeat (destruct H as [H|H]; [discriminate H|]). exact H. }
  exact (find_powershell_replace_decodes (L"$s = ") 39 (L"hello") (L"ll") 35 (L"~#")
           (L"; $t = " ++ [34; 97; 98; 99; 34; 32; 32] ++ L"-RePlace" ++ [9; 34; 98; 34; 32; 44; 32; 39; 88; 39])%N
           is_quote_39 eq_refl eq_refl eq_refl ltac:(discriminate) Hnin eq_refl ltac:(small_fuel) ltac:(vm_compute; reflexivity)).
Qed.
Example rt2_concat_apply :
  find_concat ex_cat1 = Hang \/
  exists rest, find_concat ex_cat1 = Ok (Node (L"string") (L"abcdef") (L"concatenation") 4 22 [] :: rest) /\
               Forall (fun nd => 22 <= n_st nd) rest.
Proof.
  rewrite <- rt2_concat_text.
  exact (find_concat_roundtrip_spelled (L"x = ") 34 43 (L"ab") [L"cd"; L"ef"] (L"; y")
           is_quote_34 (or_intror eq_refl) eq_refl eq_refl ltac:(discriminate) eq_refl ltac:(small_fuel) ltac:(vm_compute; reflexivity)).
Qed.
Example rt2_concat_mixed_apply :
  find_concat ex_cat2 = Hang \/
  exists rest, find_concat ex_cat2 = Ok (Node (L"string") (L"powershell") (L"concatenation") 4 28 [] :: rest) /\
               Forall (fun nd => 28 <= n_st nd) rest.
Proof.
  destruct rt2_concat_mixed as [E _]. rewrite <- E.
  exact (find_concat_roundtrip (L"s = ") 39 (L"po") ex_cat2_parts (L" ' z")
           is_quote_39 eq_refl rt2_concat_mixed_ok ltac:(discriminate) eq_refl ltac:(small_fuel) ltac:(vm_compute; reflexivity)).
Qed.

(* every statement of this file *)
Print Assumptions det_runs.
Print Assumptions det_mono.
Print Assumptions det_ext.
Print Assumptions blocked_mono.
Print Assumptions det_cls.
Print Assumptions det_seq.
Print Assumptions det_grp.
Print Assumptions blocked_alt.
Print Assumptions det_alt_l.
Print Assumptions det_alt_r.
Print Assumptions det_rep_stop_blocked.
Print Assumptions blocked_seq_det.
Print Assumptions seek_S.
Print Assumptions m_star_cls.
Print Assumptions m_star_seq.
Print Assumptions det_star_then.
Print Assumptions blocked_star_then.
Print Assumptions runs_rep_chunks_ctx.
Print Assumptions dq_char_lt.
Print Assumptions sq_char_lt.
Print Assumptions Forall_table.
Print Assumptions Forall_in_out.
Print Assumptions hd_out_stop.
Print Assumptions dq_string_det.
Print Assumptions sq_string_det.
Print Assumptions string_det.
Print Assumptions string_runs.
Print Assumptions is_space_lt.
Print Assumptions ws_mask.
Print Assumptions stop_q_ws.
Print Assumptions is_quote_34.
Print Assumptions is_quote_39.
Print Assumptions reverse_runs.
Print Assumptions reversed_runs.
Print Assumptions strreverse_runs.
Print Assumptions forallb_rev.
Print Assumptions lit_ok_rev.
Print Assumptions blen_quoted.
Print Assumptions rev_form_roundtrip.
Print Assumptions lower_nonempty.
Print Assumptions find_reverse_roundtrip_quiet.
Print Assumptions find_reverse_roundtrip.
Print Assumptions find_reverse_roundtrip_spelled.
Print Assumptions find_strreverse_roundtrip_quiet.
Print Assumptions find_strreverse_roundtrip.
Print Assumptions find_strreverse_roundtrip_spelled.
Print Assumptions lower1_nonletter.
Print Assumptions replace_runs.
Print Assumptions vba_replace_runs.
Print Assumptions ps_replace_runs.
Print Assumptions slice_at.
Print Assumptions replace_form_roundtrip.
Print Assumptions find_replace_roundtrip_quiet.
Print Assumptions find_replace_roundtrip.
Print Assumptions find_vba_replace_roundtrip_quiet.
Print Assumptions find_vba_replace_roundtrip.
Print Assumptions find_powershell_replace_roundtrip_quiet.
Print Assumptions find_powershell_replace_roundtrip.
Print Assumptions find_replace_roundtrip_spelled.
Print Assumptions find_vba_replace_roundtrip_spelled.
Print Assumptions find_powershell_replace_roundtrip_spelled.
Print Assumptions py_replace_inverse.
Print Assumptions py_replace_forallb.
Print Assumptions find_replace_decodes.
Print Assumptions find_vba_replace_decodes.
Print Assumptions find_powershell_replace_decodes.
Print Assumptions wsu_char_lt.
Print Assumptions wsu_split.
Print Assumptions take_wsu_length.
Print Assumptions blocked_wsu_rest.
Print Assumptions wsu_mask.
Print Assumptions spacer_runs.
Print Assumptions spacer_blocked.
Print Assumptions concat_form_split.
Print Assumptions concat_char_lt.
Print Assumptions concat_char_lit.
Print Assumptions part_ok_chars.
Print Assumptions part_ok_lit.
Print Assumptions last_ok.
Print Assumptions stop_q_sep.
Print Assumptions nonwsu_quoted.
Print Assumptions chain_head_nonwsu.
Print Assumptions concat_re_shape.
Print Assumptions concat_rep_runs.
Print Assumptions concat_stop_parts.
Print Assumptions concat_runs.
Print Assumptions scans_finditer.
Print Assumptions scans_skip_run.
Print Assumptions inner_runs.
Print Assumptions inner_blocked_quote.
Print Assumptions quote_not_wsu.
Print Assumptions spacer_start_app.
Print Assumptions take_wsu_app_le.
Print Assumptions inner_neutral_part.
Print Assumptions inner_spine.
Print Assumptions inner_scan_chain.
Print Assumptions junction_spans_length.
Print Assumptions mkj_length.
Print Assumptions parts_length.
Print Assumptions spans_of_hits.
Print Assumptions inner_fi.
Print Assumptions chain_tail_mkj.
Print Assumptions chain_of_text.
Print Assumptions chain_of_value.
Print Assumptions concat_post_starts.
Print Assumptions find_concat_roundtrip_quiet.
Print Assumptions find_concat_roundtrip.
Print Assumptions simple_last_q.
Print Assumptions find_concat_roundtrip_spelled.
Print Assumptions rt2_concat_apply.
Print Assumptions rt2_replace_apply.
