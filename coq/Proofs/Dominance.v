(* C02, FULLY END-TO-END at the shipped scanner, for EVERY payload:
   the whole-scan tree of   unescape('%XX%XX...')   (every payload byte percent-encoded), and of the two-layer
   stack   unescape('..')  around  atob("<base64>").

   ChainProofs: IF each layer's hit is [dominant] THEN the scan tree is the nested chain.
   RoundTrip:   the hit of a call form IS reported by its decoder with exactly its span.
   Here:        the hit is dominant over the WHOLE shipped registry (29 other decoders + keyword searchers),
                hence Multidecoder().scan(form p) has exactly one child below the root, the decoded payload
                (sections 5-6), and the stack has exactly the chain of two nested nodes (sections 9-10).
   Hypotheses kept: wf_bytes p, p <> [] (the engine drops empty values), the matcher-fuel bound of the round-trip
   theorem (|argument| + 64 <= 4 000 000), a DECIDABLE condition on the keyword directory (no keyword begins like
   the form; true for the shipped directory by computation), and Hang stays in the conclusions (matcher fuel on
   the other 29 patterns is not discussed).  NO hypothesis on the oracles pe_size / xortool / extra.

   How.  Every byte of [form p] lies in the 28-byte alphabet SIGMA = u n e s c a p ( ' percent 0-9 A-F ).
   For a regenerated regex term r, one reflective product exploration (Regex/MonitorProofs.v, contains_monitor)
   proves "every word of Lang r contains a byte outside SIGMA"; with finditer_sound the matcher then finds
   nothing in a SIGMA text.  This holds (by vm_compute on the named terms) for the driving pattern of every
   shipped decoder except BASE64_RE, HEX_RE and UNESCAPE_RE itself; the first two are handled through the
   shape facts of Shapes2 (a full-span match would make the whole text base64 / hex text, but it contains
   an opening parenthesis / starts with u).  In particular POWERSHELL_INDICATOR_RE finds nothing, so the one
   decoder that is not strong_ok (find_powershell_strings, F6) reports nothing on a form.
   For the atob form many patterns do match inside the base64 text (find_powershell_strings included: the text
   may spell pwsh); dominance only needs: kept hits start at or after 0 and end inside the text (section 8, every
   decoder, any value, any oracles) and no full-span hit from the searchers listed before find_atob (their
   patterns cannot start with the letter a: a derivative computation). *)
From Coq Require Import List ZArith NArith Bool Lia Arith.
From MD Require Import Lib.Base Model.Node Model.Keyword Model.Engine Model.EngineR Model.Flatten
  Model.Registry Model.Default
  Regex.Syntax Regex.DerivProofs Regex.MonitorProofs Regex.Backtrack Regex.BacktrackProofs
  Generated.Regexes Generated.RegistryTable Generated.Keywords Generated.Tables Model.Dec.ReLib
  Model.Codec.Percent Model.Codec.Base64 Model.Codec.Hex Model.Dec.B64Hex Model.Dec.EscDec Model.Dec.StrOps Model.Dec.PathDec
  Model.Dec.Shell Model.Dec.Network
  Proofs.BaseProofs Proofs.Base64Proofs Proofs.PercentProofs Proofs.KeywordProofs Proofs.B64HexProofs Proofs.Shapes1 Proofs.Shapes2
  Proofs.RoundTrip Proofs.EngineRefine Proofs.ChainProofs Proofs.DefaultTotal Proofs.DefaultWf Proofs.DefaultEngine.
From MD Require Proofs.FlattenProofs.
Import ListNotations.
Open Scope Z_scope.

(* ====================================================================== *)
(* 0. The form, its hit, its alphabet                                      *)
(* ====================================================================== *)
Definition form (p : bytes) : bytes := L"unescape('" ++ quote_all p ++ L"')".

Definition hit (p : bytes) : node := Node (L"string") p (L"function.unescape") 0 (blen (form p)) [].

Definition bits_of (l : list N) : N := fold_right (fun c acc => N.lor (N.shiftl 1 c) acc) 0%N l.
Definition sigma_bytes : list N := L"unescape('%0123456789ABCDEF)".
Definition sigma_mask : N := bits_of sigma_bytes.
(* the bytes that are NOT in the alphabet *)
Definition nsigma_mask : N := bits_of (filter (fun c => negb (N.testbit sigma_mask c)) bytes256).

Definition in_sigma (w : bytes) : Prop := Forall (fun c => N.testbit sigma_mask c = true) w.

Lemma nsigma_mask_ok : mask_ok nsigma_mask = true.
Proof. vm_compute. reflexivity. Qed.

Lemma sigma_disjoint_b : forallb (fun c => negb (N.testbit nsigma_mask c && N.testbit sigma_mask c)) bytes256 = true.
Proof. vm_compute. reflexivity. Qed.

Lemma sigma_disjoint c : N.testbit nsigma_mask c = true -> N.testbit sigma_mask c = false.
Proof.
  intros H. pose proof (mask_ok_bit _ _ nsigma_mask_ok H) as Hc.
  pose proof sigma_disjoint_b as D. rewrite forallb_forall in D. specialize (D c (bytes256_in c Hc)).
  cbv beta in D. destruct (N.testbit sigma_mask c); [|reflexivity].
  rewrite H in D. discriminate D.
Qed.

Lemma form_in_sigma p : wf_bytes p -> in_sigma (form p).
Proof.
  intros Hp. unfold form, in_sigma. apply Forall_app. split; [|apply Forall_app; split].
  - apply Forall_forall. apply forallb_forall. vm_compute. reflexivity.
  - apply quote_all_mask; [vm_compute; reflexivity | exact Hp].
  - apply Forall_forall. apply forallb_forall. vm_compute. reflexivity.
Qed.

Lemma blen_form p : blen (form p) = 3 * blen p + 12.
Proof.
  unfold form. rewrite !blen_app. change (blen (L"unescape('")) with 10. change (blen (L"')")) with 2.
  assert (E : blen (quote_all p) = 3 * blen p).
  { unfold quote_all. induction p as [|x p IH]; [reflexivity|]. cbn [flat_map quote_byte app].
    unfold blen in *. cbn [List.length]. lia. }
  lia.
Qed.


(* p = form p is impossible, also up to ASCII case: the lengths differ *)
Lemma lower_form_neq p : lower p <> lower (form p).
Proof.
  intros E. apply (f_equal blen) in E. rewrite !blen_lower, blen_form in E. pose proof (blen_nonneg p). lia.
Qed.

Corollary form_neq p : p <> form p.
Proof. intros E. apply (lower_form_neq p). rewrite <- E. reflexivity. Qed.

(* ====================================================================== *)
(* 1. A pattern all of whose words leave the alphabet finds nothing        *)
(* ====================================================================== *)
Definition leaves_sigma (r : re) : bool := explore (contains_monitor nsigma_mask) shape_fuel r false.

Lemma in_sub data s e c : In c (sub data s e) -> In c data.
Proof.
  unfold sub. intros H.
  assert (H1 : In c (skipn (Z.to_nat s) data)).
  { rewrite <- (firstn_skipn (Z.to_nat (e - s)) (skipn (Z.to_nat s) data)). apply in_or_app. left. exact H. }
  rewrite <- (firstn_skipn (Z.to_nat s) data). apply in_or_app. right. exact H1.
Qed.

Lemma no_word_in_sigma r data s e : leaves_sigma r = true -> in_sigma data -> ~ Lang r (sub data s e).
Proof.
  intros Hr Hd HL. pose proof (contains_sound nsigma_mask shape_fuel r Hr _ HL) as Hex.
  apply Exists_exists in Hex. destruct Hex as (c & Hin & Hc).
  apply in_sub in Hin. unfold in_sigma in Hd. rewrite Forall_forall in Hd.
  pose proof (sigma_disjoint c Hc) as Hn. rewrite (Hd c Hin) in Hn. discriminate Hn.
Qed.

Theorem fi_in_sigma r ng data : leaves_sigma r = true -> in_sigma data ->
  fi r ng data = Hang \/ fi r ng data = Ok [].
Proof.
  intros Hr Hd. destruct (fi_cases r ng data) as [H|(ms & Hfi & Hok & _)]; [left; exact H | right].
  destruct ms as [|mt ms]; [exact Hfi | exfalso].
  inversion Hok as [|? ? Hm _]; subst. destruct Hm as (s & e & groups & _ & _ & _ & _ & _ & HL & _).
  exact (no_word_in_sigma r data s e Hr Hd HL).
Qed.

(* the same for re.search *)
Lemma search_in_sigma r ng data : leaves_sigma r = true -> in_sigma data ->
  re_search r ng data = Hang \/ re_search r ng data = Ok None.
Proof.
  intros Hr Hd. unfold re_search. destruct (search r ng data) as [[mt|]|] eqn:E; [exfalso | right; reflexivity | left; reflexivity].
  destruct (search_sound r ng data mt E) as (s & e & groups & _ & _ & _ & _ & _ & HL & _).
  exact (no_word_in_sigma r data s e Hr Hd HL).
Qed.

(* ====================================================================== *)
(* 2. The decoders whose driving pattern leaves the alphabet report nothing *)
(* ====================================================================== *)
(* (Hang stays possible: the matcher's fuel is not discussed here; what matters is that no hit is reported) *)
Definition silent (d : bytes -> res (list node)) (v : bytes) : Prop := d v = Hang \/ d v = Ok [].

(* OBLIGATIONS on the regenerated terms are discharged inside: one vm_compute of [leaves_sigma] per pattern *)
Ltac silent_fi v Hv :=
  unfold silent;
  match goal with
  | |- context [fi ?r ?ng v] =>
      let E := fresh "E" in
      destruct (fi_in_sigma r ng v ltac:(vm_compute; reflexivity) Hv) as [E|E]; rewrite E; cbn [bind];
      [left; reflexivity | right; reflexivity]
  end.

Section Silent.
  Variable v : bytes.
  Hypothesis Hv : in_sigma v.

  Lemma find_xml_hex_silent : silent find_xml_hex v.
  Proof. unfold find_xml_hex. silent_fi v Hv. Qed.
  Lemma find_chr_silent : silent find_chr v.
  Proof. unfold find_chr. silent_fi v Hv. Qed.
  Lemma find_utf16_silent : silent find_utf16 v.
  Proof. unfold find_utf16. silent_fi v Hv. Qed.
  Lemma find_concat_silent : silent find_concat v.
  Proof. unfold find_concat. silent_fi v Hv. Qed.
  Lemma find_reverse_silent : silent find_reverse v.
  Proof. unfold find_reverse, find_and_deobfuscate. silent_fi v Hv. Qed.
  Lemma find_strreverse_silent : silent find_strreverse v.
  Proof. unfold find_strreverse, find_and_deobfuscate. silent_fi v Hv. Qed.
  Lemma find_replace_silent : silent find_replace v.
  Proof. unfold find_replace. silent_fi v Hv. Qed.
  Lemma find_powershell_replace_silent : silent find_powershell_replace v.
  Proof. unfold find_powershell_replace. silent_fi v Hv. Qed.
  Lemma find_vba_replace_silent : silent find_vba_replace v.
  Proof. unfold find_vba_replace. silent_fi v Hv. Qed.
  Lemma find_js_regex_replace_silent : silent find_js_regex_replace v.
  Proof. unfold find_js_regex_replace. silent_fi v Hv. Qed.
  Lemma find_createobject_silent : silent find_createobject v.
  Proof. unfold find_createobject. silent_fi v Hv. Qed.
  Lemma find_cmd_strings_silent : silent find_cmd_strings v.
  Proof. unfold find_cmd_strings. silent_fi v Hv. Qed.
  (* the decoder that is NOT strong_ok (F6): no powershell / pwsh token can be spelled in the alphabet *)
  Lemma find_powershell_strings_silent : silent find_powershell_strings v.
  Proof. unfold find_powershell_strings. silent_fi v Hv. Qed.
  Lemma find_atob_silent : silent find_atob v.
  Proof. unfold find_atob. silent_fi v Hv. Qed.
  Lemma find_Base64Decode_silent : silent find_Base64Decode v.
  Proof. unfold find_Base64Decode. silent_fi v Hv. Qed.
  Lemma find_FromBase64String_silent : silent find_FromBase64String v.
  Proof.
    unfold silent, find_FromBase64String. destruct (get_xorkey_cases v) as [H|(key & H & _)]; rewrite H; cbn [bind];
      [left; reflexivity | silent_fi v Hv].
  Qed.
  Lemma find_FromHexString_silent : silent find_FromHexString v.
  Proof.
    unfold silent, find_FromHexString. destruct (get_xorkey_cases v) as [H|(key & H & _)]; rewrite H; cbn [bind];
      [left; reflexivity | silent_fi v Hv].
  Qed.
  Lemma find_powershell_bytes_silent xortool : silent (find_powershell_bytes xortool) v.
  Proof. unfold find_powershell_bytes. silent_fi v Hv. Qed.
  Lemma find_executable_name_silent : silent find_executable_name v.
  Proof. unfold find_executable_name. silent_fi v Hv. Qed.
  Lemma find_library_silent : silent find_library v.
  Proof. unfold find_library. silent_fi v Hv. Qed.
  Lemma find_path_silent : silent find_path v.
  Proof. unfold find_path. silent_fi v Hv. Qed.
  Lemma find_windows_path_silent is_domain : silent (find_windows_path is_domain) v.
  Proof. unfold find_windows_path. silent_fi v Hv. Qed.
  (* ANY oracle pe_size: no MZ header can be spelled in the alphabet, the oracle is never consulted *)
  Lemma find_pe_files_silent pe_size : silent (find_pe_files pe_size) v.
  Proof. unfold find_pe_files. silent_fi v Hv. Qed.
  Lemma find_domains_silent tlds rf tf : silent (Network.find_domains tlds rf tf) v.
  Proof. unfold Network.find_domains. silent_fi v Hv. Qed.
  Lemma find_emails_silent tlds : silent (Network.find_emails tlds) v.
  Proof. unfold Network.find_emails. silent_fi v Hv. Qed.
  Lemma find_ips_silent : silent Network.find_ips v.
  Proof. unfold Network.find_ips. silent_fi v Hv. Qed.
  Lemma find_urls_silent tlds : silent (Network.find_urls tlds) v.
  Proof. unfold Network.find_urls. silent_fi v Hv. Qed.
End Silent.

(* ====================================================================== *)
(* 3. No full-span hit from the searchers listed before find_unescape      *)
(* ====================================================================== *)
(* d reports no hit whose span is the whole of v *)
Definition no_full (d : bytes -> res (list node)) (v : bytes) : Prop :=
  forall l g, d v = Ok l -> In g l -> ~ (n_st g = 0 /\ n_en g = blen v).

Lemma silent_no_full d v : silent d v -> no_full d v.
Proof. intros [H|H] l g E Hin; rewrite H in E; [discriminate E | injection E as <-; destruct Hin]. Qed.

(* BASE64_RE and HEX_RE do have words inside the alphabet; but a full-span match would make the whole text
   base64 text (no parenthesis) / hexadecimal text (does not start with u) *)
Lemma lparen_not_base64_text : N.testbit base64_text_mask 40 = false.
Proof. vm_compute. reflexivity. Qed.

Lemma find_base64_no_full v : In 40%N v -> no_full find_base64 v.
Proof.
  intros H40 l g E Hin (Hs & He).
  destruct (find_base64_total v) as [H|(nodes & H & Hall)]; rewrite H in E; [discriminate E|]. injection E as <-.
  rewrite Forall_forall in Hall. destruct (Hall g Hin) as (_ & _ & _ & _ & _ & _ & (Htxt & _) & _).
  rewrite Hs, He, slice_full in Htxt. rewrite Forall_forall in Htxt.
  pose proof (Htxt _ H40) as Hb. rewrite lparen_not_base64_text in Hb. discriminate Hb.
Qed.

Lemma find_hex_no_full c v : is_hex_digit c = false -> no_full find_hex (c :: v).
Proof.
  intros Hc l g E Hin (Hs & He).
  destruct (find_hex_total (c :: v)) as [H|(nodes & H & Hall)]; rewrite H in E; [discriminate E|]. injection E as <-.
  rewrite Forall_forall in Hall. destruct (Hall g Hin) as (_ & _ & _ & _ & _ & _ & (_ & Hhex) & _).
  rewrite Hs, He, slice_full in Hhex. cbn [forallb] in Hhex. rewrite Hc in Hhex. discriminate Hhex.
Qed.

Lemma form_has_lparen p : In 40%N (form p).
Proof. unfold form. apply in_or_app. left. vm_compute. repeat (first [left; reflexivity | right]). Qed.

Lemma form_head p : exists tl, form p = 117%N :: tl.
Proof. unfold form. eexists. reflexivity. Qed.

(* ---------- keyword searchers ---------- *)
Fixpoint prefixb_eq (a b : bytes) : bool :=
  match a, b with
  | [], _ => true
  | x :: a', y :: b' => N.eqb x y && prefixb_eq a' b'
  | _ :: _, [] => false
  end.

(* no keyword of the directory, lower-cased, begins with [pre]: a keyword can then not be the whole of a text
   whose lower-casing begins with [pre].  Decidable. *)
Definition kw_clear_of (pre : bytes) (kwdir : dtree) : bool :=
  forallb (fun kwl => forallb (fun kw => negb (prefixb_eq pre (lower kw))) (snd kwl)) (get_keywords kwdir).

(* for the unescape form; holds for the shipped directory (below) *)
Definition kw_clear (kwdir : dtree) : bool := kw_clear_of (L"unescape('") kwdir.

Lemma shipped_kw_clear : kw_clear shipped_keywords = true.
Proof. vm_compute. reflexivity. Qed.

(* the shipped directory does not even contain the word unescape *)
Lemma shipped_no_unescape_keyword :
  forallb (fun kwl => forallb (fun kw => negb (beqb (lower kw) (L"unescape"))) (snd kwl)) (get_keywords shipped_keywords) = true.
Proof. vm_compute. reflexivity. Qed.

Lemma prefixb_eq_app a b : prefixb_eq a (a ++ b) = true.
Proof. induction a as [|x a IH]; [reflexivity|]. cbn [app prefixb_eq]. rewrite N.eqb_refl, IH. reflexivity. Qed.

Lemma prefixb_same_length : forall a b, prefixb a b = true -> List.length a = List.length b -> a = b.
Proof.
  induction a as [|x a IH]; intros [|y b] H Hl; try discriminate Hl; [reflexivity|].
  cbn [prefixb] in H. apply andb_true_iff in H. destruct H as [Hx H]. apply N.eqb_eq in Hx. subst y.
  f_equal. apply IH; [exact H|]. cbn [List.length] in Hl. lia.
Qed.

(* a keyword hit covering the whole text is the text, up to case *)
Lemma keyword_no_full_of pre lbl kws v :
  prefixb_eq pre (lower v) = true ->
  forallb (fun kw => negb (prefixb_eq pre (lower kw))) kws = true ->
  no_full (find_keywords lbl kws) v.
Proof.
  intros Hv Hclear l g E Hin (Hs & He). rewrite find_keywords_spec in E. injection E as <-.
  apply in_flat_map in Hin. destruct Hin as (kw & Hkw & Hin). apply in_map_iff in Hin. destruct Hin as (s & <- & Hin).
  unfold keyword_hit in Hs, He. cbn [n_st n_en] in Hs, He. subst s.
  rewrite forallb_forall in Hclear. specialize (Hclear kw Hkw). apply negb_true_iff in Hclear.
  destruct (lower kw) as [|c r] eqn:El; [destruct Hin|]. apply filter_In in Hin. destruct Hin as [Hin _].
  apply greedy_occ_sound in Hin. destruct Hin as [_ Hp0].
  assert (Hp : prefixb (c :: r) (lower v) = true) by exact Hp0. clear Hp0.
  assert (Hlen : List.length (c :: r) = List.length (lower v)).
  { pose proof (blen_lower kw) as H1. pose proof (blen_lower v) as H2. rewrite El in H1. unfold blen in *. lia. }
  pose proof (prefixb_same_length _ _ Hp Hlen) as Eq. rewrite Eq, Hv in Hclear. discriminate Hclear.
Qed.

Lemma form_lower p : lower (form p) = L"unescape('" ++ lower (quote_all p ++ L"')").
Proof. reflexivity. Qed.

Lemma keyword_no_full lbl kws p :
  forallb (fun kw => negb (prefixb_eq (L"unescape('") (lower kw))) kws = true ->
  no_full (find_keywords lbl kws) (form p).
Proof. apply keyword_no_full_of. rewrite form_lower. apply prefixb_eq_app. Qed.

(* ====================================================================== *)
(* 4. Every other decoder of the registry on a form                        *)
(* ====================================================================== *)
(* what dominance asks of another searcher: no full-span hit, kept hits in bounds *)
(* kept hits start at or after 0 and end inside the text (all that dominance asks; weaker than hit_ok) *)
Definition inb (d : bytes -> res (list node)) (v : bytes) : Prop :=
  forall l g, d v = Ok l -> In g l -> nonempty_val g = true -> 0 <= n_st g /\ n_en g <= blen v.

Definition tame (d : bytes -> res (list node)) (v : bytes) : Prop := no_full d v /\ inb d v.

Lemma silent_tame d v : silent d v -> tame d v.
Proof.
  intros H. split; [apply silent_no_full, H|].
  intros l g E Hin. destruct H as [H|H]; rewrite H in E; [discriminate E | injection E as <-; destruct Hin].
Qed.

Lemma strong_in_bounds d v : strong_ok d -> inb d v.
Proof.
  intros Hd l g E Hin Hne. destruct (Hd v) as [H|(hs & H & Hall)]; rewrite H in E; [discriminate E|].
  injection E as <-. rewrite Forall_forall in Hall. destruct (Hall g Hin Hne) as (H0 & _ & H2). split; assumption.
Qed.

Definition unescape_name : label := L"find_unescape".

Section Others.
  Variable pe_size : bytes -> Z.
  Variable xortool : bytes -> list bytes.
  Variable extra : label -> option (bytes -> res (list node)).
  Variable p : bytes.
  Hypothesis Hp : wf_bytes p.

  Let Hv : in_sigma (form p) := form_in_sigma p Hp.

  Lemma others_tame name : In name modelled_names -> name <> unescape_name ->
    tame (decoder_by_name pe_size xortool extra name) (form p).
  Proof.
    unfold modelled_names. intros [<-|[<-|[<-|[<-|[<-|[<-|[<-|[<-|[<-|[<-|[<-|[<-|[<-|[<-|[<-|[<-|[<-|[<-|[<-|[<-|[<-|[<-|[<-|[<-|[<-|[<-|[<-|[<-|[<-|[<-|[]]]]]]]]]]]]]]]]]]]]]]]]]]]]]]] Hne.
    - apply silent_tame. exact (find_xml_hex_silent _ Hv).
    - apply silent_tame. exact (find_chr_silent _ Hv).
    - exfalso. apply Hne. reflexivity.
    - apply silent_tame. exact (find_utf16_silent _ Hv).
    - apply silent_tame. exact (find_concat_silent _ Hv).
    - apply silent_tame. exact (find_reverse_silent _ Hv).
    - apply silent_tame. exact (find_strreverse_silent _ Hv).
    - apply silent_tame. exact (find_replace_silent _ Hv).
    - apply silent_tame. exact (find_powershell_replace_silent _ Hv).
    - apply silent_tame. exact (find_vba_replace_silent _ Hv).
    - apply silent_tame. exact (find_js_regex_replace_silent _ Hv).
    - apply silent_tame. exact (find_createobject_silent _ Hv).
    - apply silent_tame. exact (find_cmd_strings_silent _ Hv).
    - apply silent_tame. exact (find_powershell_strings_silent _ Hv).
    - apply silent_tame. exact (find_atob_silent _ Hv).
    - split; [exact (find_base64_no_full _ (form_has_lparen p)) | exact (strong_in_bounds _ _ find_base64_strong)].
    - apply silent_tame. exact (find_Base64Decode_silent _ Hv).
    - apply silent_tame. exact (find_FromBase64String_silent _ Hv).
    - split; [|exact (strong_in_bounds _ _ find_hex_strong)].
      destruct (form_head p) as [tl ->]. apply (find_hex_no_full 117 tl). reflexivity.
    - apply silent_tame. exact (find_FromHexString_silent _ Hv).
    - apply silent_tame. exact (find_powershell_bytes_silent _ Hv xortool).
    - apply silent_tame. exact (find_executable_name_silent _ Hv).
    - apply silent_tame. exact (find_library_silent _ Hv).
    - apply silent_tame. exact (find_path_silent _ Hv).
    - apply silent_tame. exact (find_windows_path_silent _ Hv is_domain_default).
    - apply silent_tame. exact (find_pe_files_silent _ Hv pe_size).
    - apply silent_tame. exact (find_domains_silent _ Hv TOP_LEVEL_DOMAINS root_fpos tld_fpos).
    - apply silent_tame. exact (find_emails_silent _ Hv TOP_LEVEL_DOMAINS).
    - apply silent_tame. exact (find_ips_silent _ Hv).
    - apply silent_tame. exact (find_urls_silent _ Hv TOP_LEVEL_DOMAINS).
  Qed.

  Lemma keyword_tame kwdir kw : kw_clear kwdir = true -> In kw (get_keywords kwdir) ->
    tame (keyword_searcher kw) (form p).
  Proof.
    intros Hc Hin. unfold kw_clear, kw_clear_of in Hc. rewrite forallb_forall in Hc. specialize (Hc kw Hin).
    unfold keyword_searcher. split.
    - exact (keyword_no_full (fst kw) (snd kw) p Hc).
    - exact (strong_in_bounds _ _ (find_keywords_strong (fst kw) (snd kw))).
  Qed.
End Others.

(* ====================================================================== *)
(* 5. Dominance of the unescape hit over the whole shipped registry        *)
(* ====================================================================== *)
(* the registered decoder names listed before / after find_unescape, read off the GENERATED registry table *)
Fixpoint take_until (x : label) (l : list label) : list label :=
  match l with [] => [] | y :: l' => if beqb y x then [] else y :: take_until x l' end.
Fixpoint drop_after (x : label) (l : list label) : list label :=
  match l with [] => [] | y :: l' => if beqb y x then l' else drop_after x l' end.

Definition names_before : list label := take_until unescape_name (get_analyzers decoder_modules [] []).
Definition names_after : list label := drop_after unescape_name (get_analyzers decoder_modules [] []).

(* OBLIGATIONS on the generated registry table, by computation *)
Lemma analyzers_split : get_analyzers decoder_modules [] [] = names_before ++ unescape_name :: names_after.
Proof. vm_compute. reflexivity. Qed.

Lemma other_names_b :
  forallb (fun n => existsb (beqb n) modelled_names && negb (beqb n unescape_name)) (names_before ++ names_after) = true.
Proof. vm_compute. reflexivity. Qed.

Lemma other_names n : In n (names_before ++ names_after) -> In n modelled_names /\ n <> unescape_name.
Proof.
  intros Hin. pose proof other_names_b as H. rewrite forallb_forall in H. specialize (H n Hin).
  apply andb_true_iff in H. destruct H as [H1 H2]. split; [apply existsb_beqb_in, H1|].
  apply negb_true_iff in H2. intros ->. rewrite beqb_refl in H2. discriminate H2.
Qed.

Lemma tame_concat v : forall ds ls, Forall (fun d => tame d v) ds -> Forall2 (fun d l => d v = Ok l) ds ls ->
  forall g, In g (concat ls) -> ~ (n_st g = 0 /\ n_en g = blen v) /\ (nonempty_val g = true -> 0 <= n_st g /\ n_en g <= blen v).
Proof.
  intros ds ls Hall H2. induction H2 as [|d l ds ls Hd _ IH]; intros g Hin; [destruct Hin|].
  inversion Hall as [|? ? [Hnf Hib] Hall']; subst. cbn [concat] in Hin. apply in_app_or in Hin. destruct Hin as [Hin|Hin].
  - split; [exact (Hnf l g Hd Hin) | exact (Hib l g Hd Hin)].
  - exact (IH Hall' g Hin).
Qed.

Lemma Forall2_cons_inv_l {A B} (R : A -> B -> Prop) x l l' :
  Forall2 R (x :: l) l' -> exists y l'', l' = y :: l'' /\ R x y /\ Forall2 R l l''.
Proof. intros H. inversion H as [|? y ? l'' Hxy Hl]; subst. exists y, l''. auto. Qed.

Lemma inb_concat v : forall ds ls, Forall (fun d => inb d v) ds -> Forall2 (fun d l => d v = Ok l) ds ls ->
  forall g, In g (concat ls) -> nonempty_val g = true -> 0 <= n_st g /\ n_en g <= blen v.
Proof.
  intros ds ls Hall H2. induction H2 as [|d l ds ls Hd _ IH]; intros g Hin; [destruct Hin|].
  inversion Hall as [|? ? Hib Hall']; subst. cbn [concat] in Hin. apply in_app_or in Hin. destruct Hin as [Hin|Hin].
  - exact (Hib l g Hd Hin).
  - exact (IH Hall' g Hin).
Qed.

(* THE ASSEMBLY, for any registry split around the searcher du of the layer:
   the searchers listed before du (keyword searchers first) report no full-span hit, every searcher reports
   kept hits in bounds only, du reports h first, h covers the whole text and its value has another length *)
Theorem registry_dominant (dkw dpre dpost : list (bytes -> res (list node))) (du : bytes -> res (list node))
        (v : bytes) (hs : list node) (h : node) (rest : list node) (ty : label) :
  run_all (dkw ++ dpre ++ du :: dpost) v = Ok hs ->
  Forall (fun d => tame d v) dkw -> Forall (fun d => tame d v) dpre -> Forall (fun d => inb d v) dpost -> inb du v ->
  du v = Ok (h :: rest) ->
  nonempty_val h = true -> n_kids h = [] -> n_st h = 0 -> n_en h = blen v -> 0 < blen v ->
  blen (n_val h) <> blen v ->
  forall search, search v = hs -> dominant search ty v h.
Proof.
  intros Hrun Fkw Fpre Fpost Iu Hu Hne Hk Hs He Hpos Hlen search Hsearch.
  destruct (run_all_ok_concat_inv v _ hs Hrun) as (ls & HF2 & Ehs).
  apply Forall2_app_inv_l in HF2. destruct HF2 as (lkw & l2 & Hkw2 & HF2 & El).
  apply Forall2_app_inv_l in HF2. destruct HF2 as (lpre & l3 & Hpre2 & HF2 & El2).
  apply Forall2_cons_inv_l in HF2. destruct HF2 as (lu & lpost & El3 & Hu2 & Hpost2). subst l3 l2 ls.
  rewrite Hu in Hu2. injection Hu2 as <-.
  pose proof (tame_concat v _ _ Fkw Hkw2) as Tkw. pose proof (tame_concat v _ _ Fpre Hpre2) as Tpre.
  pose proof (inb_concat v _ _ Fpost Hpost2) as Tpost.
  rewrite !concat_app in Ehs. cbn [concat] in Ehs.
  unfold dominant. rewrite Hsearch, Ehs. clear Hsearch Hrun Ehs.
  split. { apply in_or_app. right. apply in_or_app. right. left. reflexivity. }
  split; [exact Hne|]. split; [exact Hk|]. rewrite Hs, He.
  split; [lia|]. split; [lia|]. split; [lia|].
  split. { rewrite slice_full. intros E. apply Hlen. rewrite <- (blen_lower (n_val h)), E. apply blen_lower. }
  split. { intros (_ & E & _). apply Hlen. rewrite E. reflexivity. }
  intros g Hin Hgne Hgh.
  assert (Hb : 0 <= n_st g /\ n_en g <= blen v).
  { apply in_app_or in Hin. destruct Hin as [Hin|Hin]; [exact (proj2 (Tkw g Hin) Hgne)|].
    apply in_app_or in Hin. destruct Hin as [Hin|Hin]; [exact (proj2 (Tpre g Hin) Hgne)|].
    apply in_app_or in Hin. destruct Hin as [Hin|Hin]; [|exact (Tpost g Hin Hgne)].
    destruct Hin as [E|Hin]; [exfalso; apply Hgh; symmetry; exact E|].
    apply (Iu _ g Hu); [right; exact Hin | exact Hgne]. }
  destruct Hb as (B0 & B2). split; [exact B0|]. split; [exact B2|].
  intros Hfull. exists (concat lkw ++ concat lpre), (rest ++ concat lpost). split.
  - rewrite <- !app_assoc. reflexivity.
  - intros Hl1. apply in_app_or in Hl1. destruct Hl1 as [Hl1|Hl1].
    + exact (proj1 (Tkw g Hl1) Hfull).
    + exact (proj1 (Tpre g Hl1) Hfull).
Qed.

Lemma decoder_by_name_unescape pe_size xortool extra :
  decoder_by_name pe_size xortool extra unescape_name = find_unescape.
Proof. reflexivity. Qed.

Section Dominance.
  Variable pe_size : bytes -> Z.                 (* ANY oracle: never consulted on a form *)
  Variable xortool : bytes -> list bytes.        (* ANY oracle *)
  Variable extra : label -> option (bytes -> res (list node)).
  Variable kwdir : dtree.
  Hypothesis Hkw : kw_clear kwdir = true.
  Variable p : bytes.
  Hypothesis Hp : wf_bytes p.
  Hypothesis Hne : p <> [].
  Hypothesis Hfuel : (List.length (quote_all p) + 64 <= default_fuel)%nat.

  Let sr := search_default pe_size xortool extra decoder_modules kwdir.

  (* RoundTrip, with nothing around the form *)
  Lemma unescape_on_form :
    find_unescape (form p) = Hang \/ exists rest, find_unescape (form p) = Ok (hit p :: rest).
  Proof.
    pose proof (find_unescape_roundtrip [] p [] Hp Hfuel eq_refl) as H. cbv zeta in H.
    assert (H' : find_unescape (form p ++ []) = Hang \/
                 exists rest, find_unescape (form p ++ []) = Ok (hit p :: rest) /\
                              Forall (fun nd => 0 + blen (form p) <= n_st nd) rest) by exact H.
    rewrite app_nil_r in H'. destruct H' as [H'|(rest & H' & _)]; [left; exact H' | right; exists rest; exact H'].
  Qed.

  Theorem unescape_dominant ty hs : sr (form p) = Ok hs -> dominant (search_of sr) ty (form p) (hit p).
  Proof.
    intros Hsr. pose proof Hsr as Hrun. unfold sr, search_default, registry in Hrun.
    rewrite analyzers_split, map_app, map_cons, decoder_by_name_unescape in Hrun.
    destruct unescape_on_form as [Hh|(rest & Hr)].
    { exfalso. destruct (run_all_ok_concat_inv (form p) _ hs Hrun) as (ls & HF2 & _).
      apply Forall2_app_inv_l in HF2. destruct HF2 as (_ & l2 & _ & HF2 & _).
      apply Forall2_app_inv_l in HF2. destruct HF2 as (_ & l3 & _ & HF2 & _).
      apply Forall2_cons_inv_l in HF2. destruct HF2 as (lu & _ & _ & Hu & _). rewrite Hh in Hu. discriminate Hu. }
    pose proof (blen_form p) as Hlen. pose proof (Base64Proofs.blen_nonneg p) as Hp0.
    apply (registry_dominant _ _ _ _ (form p) hs (hit p) rest ty Hrun).
    - apply Forall_map. apply Forall_forall. intros kw Hin. exact (keyword_tame p kwdir kw Hkw Hin).
    - apply Forall_map. apply Forall_forall. intros n Hin.
      destruct (other_names n (in_or_app _ _ _ (or_introl Hin))) as [Hm Hn].
      exact (others_tame pe_size xortool extra p Hp n Hm Hn).
    - apply Forall_map. apply Forall_forall. intros n Hin.
      destruct (other_names n (in_or_app _ _ _ (or_intror Hin))) as [Hm Hn].
      exact (proj2 (others_tame pe_size xortool extra p Hp n Hm Hn)).
    - exact (strong_in_bounds _ _ find_unescape_strong).
    - exact Hr.
    - unfold nonempty_val, hit. cbn [n_val]. destruct p; [contradiction Hne; reflexivity | reflexivity].
    - reflexivity.
    - reflexivity.
    - reflexivity.
    - lia.
    - cbn [hit n_val]. lia.
    - exact (search_of_ok _ _ _ Hsr).
  Qed.
End Dominance.

(* ====================================================================== *)
(* 6. The end-to-end statements about Multidecoder().scan                  *)
(* ====================================================================== *)
Lemma slice_from_end {A} (v : list A) : slice_from v (blen v) = [].
Proof.
  rewrite FlattenProofs.slice_from_in by (pose proof (Base64Proofs.blen_nonneg v); lia).
  unfold blen. rewrite Nat2Z.id. apply skipn_all.
Qed.

Definition quoted (p : bytes) : bytes := [34%N] ++ p ++ [34%N].

(* a successful scan with depth >= 1 has searched the data itself *)
Lemma scan_r_ok_searched sr depth data t : 0 < depth -> scan_r sr depth data = Ok t -> exists hs, sr data = Ok hs.
Proof.
  intros Hd H. unfold scan_r in H. destruct (depth <=? 0) eqn:E; [apply Z.leb_le in E; lia|].
  destruct (Z.to_nat depth) as [|d] eqn:En; [lia|].
  destruct (r_node_pass sr d (root_node data) t eq_refl H) as (hits & _ & Hs & _). exists hits. exact Hs.
Qed.

Section Scan.
  Variable pe_size : bytes -> Z.
  Variable xortool : bytes -> list bytes.
  Variable extra : label -> option (bytes -> res (list node)).
  Variable kwdir : dtree.
  Hypothesis Hkw : kw_clear kwdir = true.
  Variable p : bytes.
  Hypothesis Hp : wf_bytes p.
  Hypothesis Hne : p <> [].
  Hypothesis Hfuel : (List.length (quote_all p) + 64 <= default_fuel)%nat.

  Let sr := search_default pe_size xortool extra decoder_modules kwdir.

  (* the one-layer chain, with any positive number of levels *)
  Lemma form_chain d hs : sr (form p) = Ok hs -> chain (search_of sr) (S d) [] (form p) [hit p].
  Proof.
    intros Hs. apply chain_layer; [|apply chain_done].
    exact (unescape_dominant pe_size xortool extra kwdir Hkw p Hp Hne Hfuel [] hs Hs).
  Qed.

  (* item 2: the WHOLE tree below the root, for every payload and every depth limit >= 1 *)
  Theorem unescape_scan_tree depth : 0 < depth ->
    scan_default pe_size xortool extra decoder_modules kwdir depth (form p) = Hang \/
    exists t c, scan_default pe_size xortool extra decoder_modules kwdir depth (form p) = Ok t /\
                n_val t = form p /\ n_kids t = [c] /\
                n_ty c = L"string" /\ n_val c = p /\ n_obf c = L"function.unescape" /\
                n_st c = 0 /\ n_en c = blen (form p).
  Proof.
    intros Hd.
    destruct (scan_registry_never_raises pe_size xortool extra kwdir [] [] depth (form p)) as [H|(t & H)];
      cbv zeta in H; [left; exact H | right].
    change (scan_default pe_size xortool extra decoder_modules kwdir depth (form p) = Ok t) in H.
    destruct (scan_r_ok_searched sr depth (form p) t Hd H) as (hs & Hs).
    assert (Hc : chain (search_of sr) (Z.to_nat depth) [] (form p) [hit p]).
    { destruct (Z.to_nat depth) as [|d] eqn:En; [lia|]. exact (form_chain d hs Hs). }
    destruct (r_scan_chain_scan sr depth (form p) [hit p] t Hd Hc H) as (Hv & c & Hk & (E1 & E2 & E3 & E4 & E5) & _).
    exists t, c. split; [exact H|]. split; [exact Hv|]. split; [exact Hk|].
    rewrite E1, E2, E3, E4, E5. repeat split; reflexivity.
  Qed.

  Lemma subst_chain_form : subst_chain (form p) [hit p] = quoted p.
  Proof.
    cbn [subst_chain hit n_st n_en n_ty n_val]. rewrite slice_same, slice_from_end, app_nil_r. reflexivity.
  Qed.

  (* depth limit 1: flatten gives the payload, re-quoted because the hit is string-typed *)
  Theorem unescape_scan_flatten_1 t :
    scan_default pe_size xortool extra decoder_modules kwdir 1 (form p) = Ok t -> flatten t = quoted p.
  Proof.
    intros H. destruct (scan_r_ok_searched sr 1 (form p) t ltac:(lia) H) as (hs & Hs).
    pose proof (form_chain 0 hs Hs) as Hc.
    rewrite (r_scan_flatten_chain_scan sr [] (hit p) (form p) t Hc H (dominant_substituted_last _ _ _ _ (unescape_dominant pe_size xortool extra kwdir Hkw p Hp Hne Hfuel [] hs Hs))).
    exact subst_chain_form.
  Qed.

  (* any depth limit: the same whenever nothing is found in the payload (the decoded node is a leaf) *)
  Theorem unescape_scan_flatten depth t c : 0 < depth ->
    scan_default pe_size xortool extra decoder_modules kwdir depth (form p) = Ok t ->
    n_kids t = [c] -> n_kids c = [] -> flatten t = quoted p.
  Proof.
    intros Hd H Hk Hleaf. destruct (scan_r_ok_searched sr depth (form p) t Hd H) as (hs & Hs).
    assert (Hc : chain (search_of sr) (Z.to_nat depth) [] (form p) [hit p]).
    { destruct (Z.to_nat depth) as [|d] eqn:En; [lia|]. exact (form_chain d hs Hs). }
    destruct (r_scan_chain_scan sr depth (form p) [hit p] t Hd Hc H) as (Hv & Hn).
    rewrite (flatten_chain_leaf [] (hit p) t Hn).
    - rewrite Hv. exact subst_chain_form.
    - cbn [app List.length innermost]. rewrite Hk. exact Hleaf.
    - rewrite Hv. exact (dominant_substituted_last _ _ _ _ (unescape_dominant pe_size xortool extra kwdir Hkw p Hp Hne Hfuel [] hs Hs)).
  Qed.
End Scan.

(* ====================================================================== *)
(* 7. Test vectors.  The trees are what Multidecoder().scan(data, depth) returns under /venv/bin/python
      (3.12.1) on the baseline source, with the shipped keyword directory AND with decoders=get_analyzers()
      (no keyword file has a hit on these inputs); flatten() likewise.  Empty keyword directory here to keep
      the computations fast; the oracles are never called. *)
(* ====================================================================== *)
Definition ex_p1 : bytes := L"hello".
Definition ex_p2 : bytes := L"see http://example.com/a now".
Definition ex_p3 : bytes := [0; 255; 39; 120]%N.

Example ex_form1 : form ex_p1 = L"unescape('%68%65%6C%6C%6F')".
Proof. vm_compute. reflexivity. Qed.
Example ex_form3 : form ex_p3 = L"unescape('%00%FF%27%78')".
Proof. vm_compute. reflexivity. Qed.
Example ex_form2_len : blen (form ex_p2) = 96.
Proof. vm_compute. reflexivity. Qed.

Definition scan0 : Z -> bytes -> res node := scan_default pe0 xor0 extra0 decoder_modules (Dir [] []).

Example ex_scan1 : scan0 10 (form ex_p1) = Ok (Node [] (form ex_p1) [] 0 27 [hit ex_p1]).
Proof. vm_compute. reflexivity. Qed.

Example ex_scan3 : scan0 10 (form ex_p3) = Ok (Node [] (form ex_p3) [] 0 24 [hit ex_p3]).
Proof. vm_compute. reflexivity. Qed.

Example ex_scan2_depth1 : scan0 1 (form ex_p2) = Ok (Node [] (form ex_p2) [] 0 96 [hit ex_p2]).
Proof. vm_compute. reflexivity. Qed.

(* the payload contains a URL: found below the decoded node when the depth limit allows *)
Example ex_scan2 : scan0 10 (form ex_p2) =
  Ok (Node [] (form ex_p2) [] 0 96
        [Node (L"string") ex_p2 (L"function.unescape") 0 96
           [Node (L"network.url") (L"http://example.com/a") [] 4 24
              [Node (L"network.url.scheme") (L"http") [] 0 4 [];
               Node (L"network.domain") (L"example.com") [] 7 18 [];
               Node (L"network.url.path") (L"/a") [] 18 20 []]]]).
Proof. vm_compute. reflexivity. Qed.

Example ex_flatten1 : map_res flatten (scan0 10 (form ex_p1)) = Ok (quoted ex_p1).
Proof. vm_compute. reflexivity. Qed.
Example ex_flatten2 : map_res flatten (scan0 10 (form ex_p2)) = Ok (quoted ex_p2).
Proof. vm_compute. reflexivity. Qed.
Example ex_flatten3 : map_res flatten (scan0 1 (form ex_p3)) = Ok (quoted ex_p3).
Proof. vm_compute. reflexivity. Qed.

(* the search itself on a form: the unescape hit is the ONLY hit *)
Example ex_search1 : search_default pe0 xor0 extra0 decoder_modules (Dir [] []) (form ex_p1) = Ok [hit ex_p1].
Proof. vm_compute. reflexivity. Qed.

(* the hypotheses of the theorems on these payloads *)
Lemma kw_clear_empty : kw_clear (Dir [] []) = true.
Proof. reflexivity. Qed.

Lemma ex_wf (p : bytes) : forallb (fun c => (c <? 256)%N) p = true -> wf_bytes p.
Proof. intros H. apply Forall_forall. intros c Hc. rewrite forallb_forall in H. apply N.ltb_lt, H, Hc. Qed.

Lemma ex_fuel (p : bytes) : (List.length p <= 1000)%nat -> (List.length (quote_all p) + 64 <= default_fuel)%nat.
Proof.
  intros H. assert (E : List.length (quote_all p) = (3 * List.length p)%nat).
  { unfold quote_all. induction p as [|x p IH]; [reflexivity|]. cbn [flat_map quote_byte app List.length] in *.
    rewrite IH by lia. lia. }
  rewrite E. unfold default_fuel. lia.
Qed.

(* the theorems applied (not computed) *)
Example ex_dominant1 : dominant (search_of (search_default pe0 xor0 extra0 decoder_modules (Dir [] []))) [] (form ex_p1) (hit ex_p1).
Proof.
  apply (unescape_dominant pe0 xor0 extra0 (Dir [] []) kw_clear_empty ex_p1
           (ex_wf ex_p1 eq_refl) ltac:(discriminate) (ex_fuel ex_p1 ltac:(cbn; lia)) [] _ ex_search1).
Qed.

Example ex_tree2_applied :
  exists c, n_kids (Node [] (form ex_p2) [] 0 96
        [Node (L"string") ex_p2 (L"function.unescape") 0 96
           [Node (L"network.url") (L"http://example.com/a") [] 4 24
              [Node (L"network.url.scheme") (L"http") [] 0 4 [];
               Node (L"network.domain") (L"example.com") [] 7 18 [];
               Node (L"network.url.path") (L"/a") [] 18 20 []]]]) = [c] /\ n_val c = ex_p2 /\ n_st c = 0 /\ n_en c = blen (form ex_p2).
Proof.
  destruct (unescape_scan_tree pe0 xor0 extra0 (Dir [] []) kw_clear_empty ex_p2
              (ex_wf ex_p2 eq_refl) ltac:(discriminate) (ex_fuel ex_p2 ltac:(cbn; lia)) 10 ltac:(lia)) as [H|(t & c & H & _ & Hk & _ & Hv & _ & Hs & He)].
  - fold scan0 in H. rewrite ex_scan2 in H. discriminate H.
  - fold scan0 in H. rewrite ex_scan2 in H. injection H as <-. exists c. auto.
Qed.

Example ex_flatten3_applied : flatten (Node [] (form ex_p3) [] 0 24 [hit ex_p3]) = quoted ex_p3.
Proof.
  assert (H : scan_default pe0 xor0 extra0 decoder_modules (Dir [] []) 1 (form ex_p3) = Ok (Node [] (form ex_p3) [] 0 24 [hit ex_p3]))
    by (vm_compute; reflexivity).
  exact (unescape_scan_flatten_1 pe0 xor0 extra0 (Dir [] []) kw_clear_empty ex_p3
           (ex_wf ex_p3 eq_refl) ltac:(discriminate) (ex_fuel ex_p3 ltac:(cbn; lia)) _ H).
Qed.

(* the shipped keyword directory satisfies the keyword hypothesis: the theorems hold for Multidecoder() as shipped *)
Theorem unescape_scan_tree_shipped pe_size xortool extra p depth :
  wf_bytes p -> p <> [] -> (List.length (quote_all p) + 64 <= default_fuel)%nat -> 0 < depth ->
  scan_default pe_size xortool extra decoder_modules shipped_keywords depth (form p) = Hang \/
  exists t c, scan_default pe_size xortool extra decoder_modules shipped_keywords depth (form p) = Ok t /\
              n_val t = form p /\ n_kids t = [c] /\
              n_ty c = L"string" /\ n_val c = p /\ n_obf c = L"function.unescape" /\
              n_st c = 0 /\ n_en c = blen (form p).
Proof. intros Hp Hne Hf Hd. exact (unescape_scan_tree pe_size xortool extra shipped_keywords shipped_kw_clear p Hp Hne Hf depth Hd). Qed.

(* ====================================================================== *)
(* 8. Every shipped decoder, on ANY value, with ANY oracles: kept hits start at or after 0 and end inside
      the text.  (strong_ok gives it for 28 decoders; find_pe_files with an arbitrary oracle and
      find_powershell_strings, which are not strong_ok, satisfy this weaker bound.) *)
(* ====================================================================== *)
From MD Require Import Proofs.ShellProofs Proofs.PathDecProofs.
From MD Require Proofs.EscDecProofs.

Theorem find_powershell_strings_starts data nodes :
  find_powershell_strings data = Ok nodes -> Forall (fun n => 0 <= n_st n) nodes.
Proof.
  unfold find_powershell_strings. intros H.
  destruct (fi_cases RE_shell_POWERSHELL_INDICATOR_RE NG_shell_POWERSHELL_INDICATOR_RE data)
    as [Hh|(ms & Hfi & Hok & Hmand)]; [rewrite Hh in H; discriminate H|]. rewrite Hfi in H. cbn [bind] in H.
  pose proof ps_indicator_group1_mandatory as Hg. apply andb_true_iff in Hg. destruct Hg as [Hg1 Hg2].
  apply Nat.leb_le in Hg2. specialize (Hmand 1%nat Hg1 (le_n 1) Hg2).
  rewrite Forall_forall in Hok, Hmand. unfold find_powershell_strings_post in H.
  assert (Hassert : forall ind c, In ind ms -> ps_context data ind = Ok c -> ctx_assert_ok c).
  { intros ind c Hin Hc. destruct c as [en|b|]; cbn [ctx_assert_ok];
      [exact I | apply (ps_bounds_ok_all data ms ind b Hin Hc) | exact I]. }
  pose proof (find_powershell_strings_post_with_nodes (ps_context data) data ms nodes Hassert H) as Hall.
  eapply Forall_impl; [|exact Hall]. intros n (ind & Hin & c & _ & Hst & _). rewrite Hst.
  specialize (Hok ind Hin). specialize (Hmand ind Hin). cbv beta in Hmand.
  destruct (mtch_ok_groupk _ _ _ _ 0 Hok Hmand) as (Hs1 & _).
  destruct (EscDecProofs.span_ok_bounds data ind 1 Hs1) as (C0 & _). exact C0.
Qed.

Lemma find_powershell_strings_inb v : inb find_powershell_strings v.
Proof.
  intros l g E Hin _. pose proof (find_powershell_strings_starts v l E) as Hs.
  destruct (find_powershell_strings_ends v) as [H|(nodes & H & He)]; rewrite H in E; [discriminate E|].
  injection E as <-. rewrite Forall_forall in Hs, He. split; [exact (Hs g Hin) | exact (He g Hin)].
Qed.

Lemma find_pe_files_inb pe_size v : inb (find_pe_files pe_size) v.
Proof.
  intros l g E Hin _. destruct (find_pe_files_total pe_size v) as [H|(nodes & H & Hall & _)]; rewrite H in E; [discriminate E|].
  injection E as <-. rewrite Forall_forall in Hall. destruct (Hall g Hin) as (_ & _ & _ & _ & H0 & H2 & _). split; assumption.
Qed.

Definition pe_name : label := L"find_pe_files".

Lemma decoder_by_name_pe_irrel pe pe' xortool extra name : name <> pe_name ->
  decoder_by_name pe xortool extra name = decoder_by_name pe' xortool extra name.
Proof.
  intros Hn. unfold decoder_by_name. destruct (beqb name (L"find_pe_files")) eqn:E; [|reflexivity].
  apply beqb_eq in E. contradiction.
Qed.

Theorem all_inb pe_size xortool extra name v : In name modelled_names ->
  inb (decoder_by_name pe_size xortool extra name) v.
Proof.
  intros Hin. destruct (modelled_split name Hin) as [->|Hs]; [exact (find_powershell_strings_inb v)|].
  destruct (beqb name pe_name) eqn:E.
  - apply beqb_eq in E. subst name. exact (find_pe_files_inb pe_size v).
  - rewrite (decoder_by_name_pe_irrel pe_size (fun _ => 0) xortool extra name).
    + apply strong_in_bounds. apply (strong_names_ok (fun _ => 0) (fun _ => Z.le_refl 0) xortool extra name Hs).
    + intros ->. rewrite beqb_refl in E. discriminate E.
Qed.

(* ====================================================================== *)
(* 9. The second layer form: atob("<base64 of q>"), searched as a value of its own                        *)
(* ====================================================================== *)
Definition atob_form (q : bytes) : bytes := L"atob(" ++ [34%N] ++ b64_encode q ++ [34%N] ++ L")".
Definition atob_hit (q : bytes) : node := Node (L"javascript.string") q ENC_B64 0 (blen (atob_form q)) [].

Example atob_form_spelled q : atob_form q = L"atob(""" ++ b64_encode q ++ L""")".
Proof. reflexivity. Qed.

Lemma blen_atob_form q : blen (atob_form q) = 4 * ((blen q + 2) / 3) + 8.
Proof.
  unfold atob_form. rewrite !blen_app, b64_encode_length.
  change (blen (L"atob(")) with 5. change (blen [34%N]) with 1. change (blen (L")")) with 1. lia.
Qed.

Lemma blen_atob_form_gt q : blen q + 8 <= blen (atob_form q).
Proof.
  rewrite blen_atob_form. pose proof (Base64Proofs.blen_nonneg q) as H0.
  pose proof (Z.div_mod (blen q + 2) 3 ltac:(lia)) as H1. pose proof (Z.mod_pos_bound (blen q + 2) 3 ltac:(lia)) as H2. lia.
Qed.

Lemma atob_form_head q : exists tl, atob_form q = 97%N :: tl.
Proof. unfold atob_form. eexists. reflexivity. Qed.

(* ---------- a pattern that cannot start with the first byte of the text has no match at offset 0 ---------- *)
Lemma fi_starts_pos r ng c w ms : nullable r = false -> is_emp (deriv c r) = true ->
  fi r ng (c :: w) = Ok ms -> Forall (fun mt => 1 <= m_start mt 0) ms.
Proof.
  intros Hn He Hfi. destruct (fi_cases r ng (c :: w)) as [H|(ms' & H & Hok & _)]; rewrite H in Hfi; [discriminate Hfi|].
  injection Hfi as <-. eapply Forall_impl; [|exact Hok].
  intros mt (s & e & groups & -> & _ & H0 & H1 & H2 & HL & _).
  change (m_start (Some (s, e) :: groups) 0) with s.
  destruct (Z.eq_dec s 0) as [->|Hs]; [exfalso | lia].
  unfold sub in HL. cbn [Z.to_nat skipn] in HL. rewrite Z.sub_0_r in HL.
  destruct (Z.to_nat e) as [|k]; cbn [firstn] in HL.
  - apply nullable_correct in HL. rewrite Hn in HL. discriminate HL.
  - apply deriv_correct_nowf in HL. exact (Lang_Emp_deriv _ _ He HL).
Qed.

Lemma find_Base64Decode_no_full_a w : no_full find_Base64Decode (97%N :: w).
Proof.
  intros l g E Hin (Hs & _). unfold find_Base64Decode in E.
  destruct (fi RE_base64_BASE64DECODE_RE NG_base64_BASE64DECODE_RE (97%N :: w)) as [ms| |] eqn:Hfi;
    cbn [bind] in E; try discriminate E.
  pose proof (fi_starts_pos RE_base64_BASE64DECODE_RE NG_base64_BASE64DECODE_RE 97%N w ms
                ltac:(vm_compute; reflexivity) ltac:(vm_compute; reflexivity) Hfi) as Hst.
  pose proof (b64_call_post_starts _ _ _ 1 ms l Hst E) as Hn. rewrite Forall_forall in Hn. specialize (Hn g Hin). lia.
Qed.

Lemma maybe_xor_st key value nd ty nd' : maybe_xor key value nd ty = Ok nd' -> n_st nd' = n_st nd.
Proof.
  unfold maybe_xor. destruct (truthy_key key) as [k|]; [|intros [= <-]; reflexivity].
  unfold apply_xor_key. destruct (255 <? k); [intros [= <-]; reflexivity|].
  destruct (xor_bytes k value); cbn [bind]; try discriminate. intros [= <-]. destruct nd; reflexivity.
Qed.

Lemma fromb64_post_starts_any key data lo : forall ms out,
  Forall (fun mt => lo <= m_start mt 0) ms -> find_FromBase64String_post key data ms = Ok out ->
  Forall (fun nd => lo <= n_st nd) out.
Proof.
  induction ms as [|mt ms IH]; intros out HF H; cbn [find_FromBase64String_post] in H.
  - injection H as <-. constructor.
  - inversion HF as [|? ? Hm HF']; subst.
    destruct (group_arg data mt 2) as [t| |]; cbn [bind] in H; try discriminate H.
    destruct (try_a2b t) as [o| |]; cbn [bind] in H; try discriminate H.
    destruct o as [b|]; cbn [bind] in H.
    + destruct (maybe_xor key b _ POWERSHELL_BYTES_TYPE) as [nd| |] eqn:Ex; cbn [bind] in H; try discriminate H.
      destruct (find_FromBase64String_post key data ms) as [out'| |]; cbn [bind] in H; try discriminate H.
      injection H as <-. cbn [cons_opt]. constructor; [|apply IH; [exact HF' | reflexivity]].
      rewrite (maybe_xor_st _ _ _ _ _ Ex). exact Hm.
    + destruct (find_FromBase64String_post key data ms) as [out'| |]; cbn [bind] in H; try discriminate H.
      injection H as <-. apply IH; [exact HF' | reflexivity].
Qed.

Lemma find_FromBase64String_no_full_a w : no_full find_FromBase64String (97%N :: w).
Proof.
  intros l g E Hin (Hs & _). unfold find_FromBase64String in E.
  destruct (get_xorkey (97%N :: w)) as [key| |]; cbn [bind] in E; try discriminate E.
  destruct (fi RE_base64_FROMB64STRING_RE NG_base64_FROMB64STRING_RE (97%N :: w)) as [ms| |] eqn:Hfi;
    cbn [bind] in E; try discriminate E.
  pose proof (fi_starts_pos RE_base64_FROMB64STRING_RE NG_base64_FROMB64STRING_RE 97%N w ms
                ltac:(vm_compute; reflexivity) ltac:(vm_compute; reflexivity) Hfi) as Hst.
  pose proof (fromb64_post_starts_any key _ 1 ms l Hst E) as Hn. rewrite Forall_forall in Hn. specialize (Hn g Hin). lia.
Qed.

(* ---------- the registry around find_atob ---------- *)
Definition atob_name : label := L"find_atob".
Definition names_before_atob : list label := take_until atob_name (get_analyzers decoder_modules [] []).
Definition names_after_atob : list label := drop_after atob_name (get_analyzers decoder_modules [] []).

(* OBLIGATIONS on the generated registry table, by computation *)
Lemma analyzers_split_atob : get_analyzers decoder_modules [] [] = names_before_atob ++ atob_name :: names_after_atob.
Proof. vm_compute. reflexivity. Qed.

Lemma names_before_atob_eq : names_before_atob = [L"find_Base64Decode"; L"find_FromBase64String"].
Proof. vm_compute. reflexivity. Qed.

Lemma atob_names_modelled_b :
  forallb (fun n => existsb (beqb n) modelled_names) (names_before_atob ++ names_after_atob) = true.
Proof. vm_compute. reflexivity. Qed.

Lemma atob_names_modelled n : In n (names_before_atob ++ names_after_atob) -> In n modelled_names.
Proof.
  intros Hin. pose proof atob_names_modelled_b as H. rewrite forallb_forall in H. apply existsb_beqb_in, H, Hin.
Qed.

Lemma decoder_by_name_atob pe_size xortool extra : decoder_by_name pe_size xortool extra atob_name = find_atob.
Proof. reflexivity. Qed.

Section AtobDominance.
  Variable pe_size : bytes -> Z.                 (* ANY oracles *)
  Variable xortool : bytes -> list bytes.
  Variable extra : label -> option (bytes -> res (list node)).
  Variable kwdir : dtree.
  Hypothesis Hkw : kw_clear_of (L"atob(") kwdir = true.
  Variable q : bytes.
  Hypothesis Hq : wf_bytes q.
  Hypothesis Hne : q <> [].
  Hypothesis Hfuel : (List.length (b64_encode q) + 64 <= default_fuel)%nat.

  Let sr := search_default pe_size xortool extra decoder_modules kwdir.

  Lemma atob_on_form :
    find_atob (atob_form q) = Hang \/ exists rest, find_atob (atob_form q) = Ok (atob_hit q :: rest).
  Proof.
    pose proof (find_atob_roundtrip [] q [] 34%N 34%N Hq Hne (or_introl eq_refl) (or_introl eq_refl) Hfuel eq_refl) as H.
    cbv zeta in H.
    assert (H' : find_atob (atob_form q ++ []) = Hang \/
                 exists rest, find_atob (atob_form q ++ []) = Ok (atob_hit q :: rest) /\
                              Forall (fun nd => 0 + blen (atob_form q) <= n_st nd) rest) by exact H.
    rewrite app_nil_r in H'. destruct H' as [H'|(rest & H' & _)]; [left; exact H' | right; exists rest; exact H'].
  Qed.

  Lemma atob_form_lower : lower (atob_form q) = L"atob(" ++ lower ([34%N] ++ b64_encode q ++ [34%N] ++ L")").
  Proof. reflexivity. Qed.

  Lemma keyword_tame_atob kw : In kw (get_keywords kwdir) -> tame (keyword_searcher kw) (atob_form q).
  Proof.
    intros Hin. unfold kw_clear_of in Hkw. rewrite forallb_forall in Hkw. specialize (Hkw kw Hin).
    unfold keyword_searcher. split.
    - apply (keyword_no_full_of (L"atob(")); [rewrite atob_form_lower; apply prefixb_eq_app | exact Hkw].
    - exact (strong_in_bounds _ _ (find_keywords_strong (fst kw) (snd kw))).
  Qed.

  (* the atob hit is dominant over the whole shipped registry, for EVERY payload q *)
  Theorem atob_dominant ty hs : sr (atob_form q) = Ok hs -> dominant (search_of sr) ty (atob_form q) (atob_hit q).
  Proof.
    intros Hsr. pose proof Hsr as Hrun. unfold sr, search_default, registry in Hrun.
    rewrite analyzers_split_atob, map_app, map_cons, decoder_by_name_atob in Hrun.
    destruct atob_on_form as [Hh|(rest & Hr)].
    { exfalso. destruct (run_all_ok_concat_inv (atob_form q) _ hs Hrun) as (ls & HF2 & _).
      apply Forall2_app_inv_l in HF2. destruct HF2 as (_ & l2 & _ & HF2 & _).
      apply Forall2_app_inv_l in HF2. destruct HF2 as (_ & l3 & _ & HF2 & _).
      apply Forall2_cons_inv_l in HF2. destruct HF2 as (lu & _ & _ & Hu & _). rewrite Hh in Hu. discriminate Hu. }
    pose proof (blen_atob_form_gt q) as Hlen. pose proof (Base64Proofs.blen_nonneg q) as Hq0.
    apply (registry_dominant _ _ _ _ (atob_form q) hs (atob_hit q) rest ty Hrun).
    - apply Forall_map. apply Forall_forall. intros kw Hin. exact (keyword_tame_atob kw Hin).
    - rewrite names_before_atob_eq. destruct (atob_form_head q) as [tl Etl]. rewrite Etl.
      cbn [map]. apply Forall_cons; [split | apply Forall_cons; [split | apply Forall_nil]].
      + exact (find_Base64Decode_no_full_a tl).
      + exact (all_inb pe_size xortool extra (L"find_Base64Decode") (97%N :: tl) ltac:(vm_compute; tauto)).
      + exact (find_FromBase64String_no_full_a tl).
      + exact (all_inb pe_size xortool extra (L"find_FromBase64String") (97%N :: tl) ltac:(vm_compute; tauto)).
    - apply Forall_map. apply Forall_forall. intros n Hin.
      exact (all_inb pe_size xortool extra n (atob_form q) (atob_names_modelled n (in_or_app _ _ _ (or_intror Hin)))).
    - exact (strong_in_bounds _ _ find_atob_strong).
    - exact Hr.
    - unfold nonempty_val, atob_hit. cbn [n_val]. destruct q; [contradiction Hne; reflexivity | reflexivity].
    - reflexivity.
    - reflexivity.
    - reflexivity.
    - lia.
    - cbn [atob_hit n_val]. lia.
    - exact (search_of_ok _ _ _ Hsr).
  Qed.
End AtobDominance.

(* ====================================================================== *)
(* 10. The two-layer stack  unescape('..')  around  atob("..")  : a chain of length 2                    *)
(* ====================================================================== *)
(* scan_dominant_res of ChainProofs, for the engine over a res-valued registry: the sub-scan IS run *)
Lemma r_scan_dominant_res sr d n h hs : n_kids n = [] -> sr (n_val n) = Ok hs ->
  dominant (search_of sr) (n_ty n) (n_val n) h ->
  scan_node_r sr (S d) n = do h2 <- scan_node_r sr d h; Ok (set_kids n [h2]).
Proof.
  intros Hk Hs Hdom. cbn [scan_node_r]. rewrite Hk, Hs. cbn [bind].
  destruct (dominant_first (search_of sr) n h Hdom) as (rest & Hres & Hrest).
  unfold results in Hres. rewrite (search_of_ok sr _ hs Hs) in Hres. rewrite Hres.
  cbn [foldM]. rewrite (step_dominant (search_of sr) _ n h Hdom).
  destruct (scan_node_r sr d h) as [h2| |]; cbn [bind]; try reflexivity.
  rewrite fold_skipped by exact Hrest. reflexivity.
Qed.

Section Stack2.
  Variable pe_size : bytes -> Z.                 (* ANY oracles *)
  Variable xortool : bytes -> list bytes.
  Variable extra : label -> option (bytes -> res (list node)).
  Variable kwdir : dtree.
  Hypothesis Hkw1 : kw_clear kwdir = true.
  Hypothesis Hkw2 : kw_clear_of (L"atob(") kwdir = true.
  Variable q : bytes.
  Hypothesis Hq : wf_bytes q.
  Hypothesis Hne : q <> [].
  Hypothesis Hfuel2 : (List.length (b64_encode q) + 64 <= default_fuel)%nat.
  Hypothesis Hfuel1 : (List.length (quote_all (atob_form q)) + 64 <= default_fuel)%nat.

  Let sr := search_default pe_size xortool extra decoder_modules kwdir.
  Let p := atob_form q.

  Lemma atob_form_wf : wf_bytes p.
  Proof.
    unfold p, atob_form. apply Forall_app. split; [apply Forall_forall; intros c Hc; apply N.ltb_lt; revert c Hc; apply forallb_forall; reflexivity|].
    apply Forall_app. split; [repeat constructor|]. apply Forall_app. split.
    { apply Forall_forall. intros c Hc. apply b64_significant_lt. pose proof (b64_encode_alphabet q) as Ha.
      rewrite forallb_forall in Ha. exact (Ha c Hc). }
    repeat constructor.
  Qed.

  Lemma atob_form_ne : p <> [].
  Proof. unfold p, atob_form. discriminate. Qed.

  Theorem stack2_scan_tree depth : 1 < depth ->
    scan_default pe_size xortool extra decoder_modules kwdir depth (form p) = Hang \/
    exists t c1 c2, scan_default pe_size xortool extra decoder_modules kwdir depth (form p) = Ok t /\
      n_val t = form p /\ n_kids t = [c1] /\ hdr_eq c1 (hit p) /\ n_kids c1 = [c2] /\ hdr_eq c2 (atob_hit q).
  Proof.
    intros Hd.
    destruct (scan_registry_never_raises pe_size xortool extra kwdir [] [] depth (form p)) as [H|(t & H)];
      cbv zeta in H; [left; exact H | right].
    change (scan_default pe_size xortool extra decoder_modules kwdir depth (form p) = Ok t) in H.
    destruct (scan_r_ok_searched sr depth (form p) t ltac:(lia) H) as (hs1 & Hs1).
    pose proof (unescape_dominant pe_size xortool extra kwdir Hkw1 p atob_form_wf atob_form_ne Hfuel1 [] hs1 Hs1) as Hdom1.
    assert (Hs2 : exists hs2, sr p = Ok hs2).
    { assert (H' : scan_r sr depth (form p) = Ok t) by exact H. unfold scan_r in H'. destruct (depth <=? 0) eqn:E; [apply Z.leb_le in E; lia|].
      destruct (Z.to_nat depth) as [|[|d]] eqn:En; [lia | lia |].
      rewrite (r_scan_dominant_res _ (S d) (root_node (form p)) (hit p) hs1 eq_refl Hs1 Hdom1) in H'.
      destruct (scan_node_r sr (S d) (hit p)) as [h2| |] eqn:E2;
        cbn [bind] in H'; try discriminate H'.
      destruct (r_node_pass _ d (hit p) h2 eq_refl E2) as (hits & _ & Hs & _). exists hits. exact Hs. }
    destruct Hs2 as (hs2 & Hs2).
    pose proof (atob_dominant pe_size xortool extra kwdir Hkw2 q Hq Hne Hfuel2 (L"string") hs2 Hs2) as Hdom2.
    assert (Hc : chain (search_of sr) (Z.to_nat depth) [] (form p) [hit p; atob_hit q]).
    { destruct (Z.to_nat depth) as [|[|d]] eqn:En; [lia | lia |].
      apply chain_layer; [exact Hdom1|]. apply chain_layer; [exact Hdom2 | apply chain_done]. }
    destruct (r_scan_chain_scan sr depth (form p) [hit p; atob_hit q] t ltac:(lia) Hc H)
      as (Hv & c1 & Hk1 & Hh1 & c2 & Hk2 & Hh2 & _).
    exists t, c1, c2. split; [exact H|]. split; [exact Hv|]. split; [exact Hk1|]. split; [exact Hh1|].
    split; [exact Hk2 | exact Hh2].
  Qed.

  (* depth limit 2: both layers are substituted, each re-quoted (both hits are string-typed) *)
  Theorem stack2_scan_flatten t :
    scan_default pe_size xortool extra decoder_modules kwdir 2 (form p) = Ok t -> flatten t = quoted (quoted q).
  Proof.
    intros H.
    destruct (scan_r_ok_searched sr 2 (form p) t ltac:(lia) H) as (hs1 & Hs1).
    pose proof (unescape_dominant pe_size xortool extra kwdir Hkw1 p atob_form_wf atob_form_ne Hfuel1 [] hs1 Hs1) as Hdom1.
    assert (Hs2 : exists hs2, sr p = Ok hs2).
    { assert (H' : scan_node_r sr 2 (root_node (form p)) = Ok t) by exact H.
      rewrite (r_scan_dominant_res _ 1 (root_node (form p)) (hit p) hs1 eq_refl Hs1 Hdom1) in H'.
      destruct (scan_node_r sr 1 (hit p)) as [h2| |] eqn:E2;
        cbn [bind] in H'; try discriminate H'.
      destruct (r_node_pass _ 0 (hit p) h2 eq_refl E2) as (hits & _ & Hs & _). exists hits. exact Hs. }
    destruct Hs2 as (hs2 & Hs2).
    pose proof (atob_dominant pe_size xortool extra kwdir Hkw2 q Hq Hne Hfuel2 (L"string") hs2 Hs2) as Hdom2.
    assert (Hc : chain (search_of sr) (List.length ([hit p] ++ [atob_hit q])) [] (form p) ([hit p] ++ [atob_hit q])).
    { apply chain_layer; [exact Hdom1|]. apply chain_layer; [exact Hdom2 | apply chain_done]. }
    pose proof (blen_atob_form_gt q) as Hlen. pose proof (blen_form p) as Hlenf. pose proof (Base64Proofs.blen_nonneg q) as Hq0.
    assert (Eflat : flat_of p [atob_hit q] q = quoted q).
    { cbn [flat_of atob_hit n_st n_en n_ty n_val]. fold p. rewrite slice_same, slice_from_end, app_nil_r. reflexivity. }
    rewrite (r_scan_flatten_chain_scan sr [hit p] (atob_hit q) (form p) t Hc H).
    - cbn [app subst_chain hit atob_hit n_st n_en n_ty n_val]. fold p.
      rewrite !slice_same, !slice_from_end, !app_nil_r. reflexivity.
    - cbn [app substituted hit n_st n_en n_val]. split; [lia|]. split.
      + change (n_val (atob_hit q)) with q. rewrite Eflat, slice_full. intros E. apply (f_equal blen) in E.
        unfold quoted in E. rewrite !blen_app in E. change (blen [34%N]) with 1 in E. fold p in Hlen. lia.
      + exact (dominant_substituted_last _ _ _ _ Hdom2).
  Qed.
End Stack2.

(* ---------- the shipped keyword directory satisfies both keyword hypotheses ---------- *)
Lemma shipped_kw_clear_atob : kw_clear_of (L"atob(") shipped_keywords = true.
Proof. vm_compute. reflexivity. Qed.

Theorem stack2_scan_tree_shipped pe_size xortool extra q depth :
  wf_bytes q -> q <> [] ->
  (List.length (b64_encode q) + 64 <= default_fuel)%nat ->
  (List.length (quote_all (atob_form q)) + 64 <= default_fuel)%nat -> 1 < depth ->
  scan_default pe_size xortool extra decoder_modules shipped_keywords depth (form (atob_form q)) = Hang \/
  exists t c1 c2,
    scan_default pe_size xortool extra decoder_modules shipped_keywords depth (form (atob_form q)) = Ok t /\
    n_val t = form (atob_form q) /\ n_kids t = [c1] /\ hdr_eq c1 (hit (atob_form q)) /\
    n_kids c1 = [c2] /\ hdr_eq c2 (atob_hit q).
Proof.
  intros Hq Hne Hf2 Hf1 Hd.
  exact (stack2_scan_tree pe_size xortool extra shipped_keywords shipped_kw_clear shipped_kw_clear_atob q Hq Hne Hf2 Hf1 depth Hd).
Qed.

(* ---------- test vectors (Python: Multidecoder().scan / .flatten() on the baseline source, as in section 7) ---------- *)
Definition ex_q1 : bytes := L"hi".
Definition ex_q2 : bytes := [167; 11; 33; 253; 166; 220]%N.

Example ex_atob1 : atob_form ex_q1 = L"atob(""aGk="")".
Proof. vm_compute. reflexivity. Qed.
Example ex_atob2 : atob_form ex_q2 = L"atob(""pwsh/abc"")".
Proof. vm_compute. reflexivity. Qed.
Example ex_stack_form1 : form (atob_form ex_q1) = L"unescape('%61%74%6F%62%28%22%61%47%6B%3D%22%29')".
Proof. vm_compute. reflexivity. Qed.

Example ex_stack1 : scan0 10 (form (atob_form ex_q1)) =
  Ok (Node [] (form (atob_form ex_q1)) [] 0 48
        [Node (L"string") (atob_form ex_q1) (L"function.unescape") 0 48
           [Node (L"javascript.string") ex_q1 (L"encoding.base64") 0 12 []]]).
Proof. vm_compute. reflexivity. Qed.

(* the base64 text spells pwsh: find_powershell_strings does report a hit on the inner value - inside the atob span *)
Example ex_search_atob2 :
  map_res (map (fun n => (n_ty n, n_val n, n_st n, n_en n)))
          (search_default pe0 xor0 extra0 decoder_modules (Dir [] []) (atob_form ex_q2)) =
  Ok [(L"javascript.string", ex_q2, 0, 16); (L"shell.powershell", L"pwsh/abc", 6, 14)].
Proof. vm_compute. reflexivity. Qed.

Example ex_stack2 : scan0 10 (form (atob_form ex_q2)) =
  Ok (Node [] (form (atob_form ex_q2)) [] 0 60
        [Node (L"string") (atob_form ex_q2) (L"function.unescape") 0 60
           [Node (L"javascript.string") ex_q2 (L"encoding.base64") 0 16 []]]).
Proof. vm_compute. reflexivity. Qed.

Example ex_stack_flatten1 : map_res flatten (scan0 2 (form (atob_form ex_q1))) = Ok (quoted (quoted ex_q1)).
Proof. vm_compute. reflexivity. Qed.
Example ex_stack_flatten2 : map_res flatten (scan0 10 (form (atob_form ex_q2))) = Ok (quoted (quoted ex_q2)).
Proof. vm_compute. reflexivity. Qed.

Lemma ex_fuel_b64 (q : bytes) : (List.length (b64_encode q) <= 1000)%nat -> (List.length (b64_encode q) + 64 <= default_fuel)%nat.
Proof. intros H. unfold default_fuel. lia. Qed.

(* the theorem applied (not computed) to the second payload *)
Example ex_stack2_applied :
  exists c1 c2, n_kids (Node [] (form (atob_form ex_q2)) [] 0 60
        [Node (L"string") (atob_form ex_q2) (L"function.unescape") 0 60
           [Node (L"javascript.string") ex_q2 (L"encoding.base64") 0 16 []]]) = [c1] /\
    hdr_eq c1 (hit (atob_form ex_q2)) /\ n_kids c1 = [c2] /\ hdr_eq c2 (atob_hit ex_q2).
Proof.
  destruct (stack2_scan_tree pe0 xor0 extra0 (Dir [] []) kw_clear_empty eq_refl ex_q2 (ex_wf ex_q2 eq_refl) ltac:(discriminate)
              (ex_fuel_b64 ex_q2 ltac:(vm_compute; lia)) (ex_fuel (atob_form ex_q2) ltac:(vm_compute; lia)) 10 ltac:(lia))
    as [H|(t & c1 & c2 & H & _ & Hk1 & Hh1 & Hk2 & Hh2)]; fold scan0 in H; rewrite ex_stack2 in H; [discriminate H|].
  injection H as <-. exists c1, c2. auto.
Qed.

(* ====================================================================== *)
Print Assumptions nsigma_mask_ok.
Print Assumptions sigma_disjoint_b.
Print Assumptions sigma_disjoint.
Print Assumptions form_in_sigma.
Print Assumptions blen_form.
Print Assumptions lower_form_neq.
Print Assumptions form_neq.
Print Assumptions in_sub.
Print Assumptions no_word_in_sigma.
Print Assumptions fi_in_sigma.
Print Assumptions search_in_sigma.
Print Assumptions find_xml_hex_silent.
Print Assumptions find_chr_silent.
Print Assumptions find_utf16_silent.
Print Assumptions find_concat_silent.
Print Assumptions find_reverse_silent.
Print Assumptions find_strreverse_silent.
Print Assumptions find_replace_silent.
Print Assumptions find_powershell_replace_silent.
Print Assumptions find_vba_replace_silent.
Print Assumptions find_js_regex_replace_silent.
Print Assumptions find_createobject_silent.
Print Assumptions find_cmd_strings_silent.
Print Assumptions find_powershell_strings_silent.
Print Assumptions find_atob_silent.
Print Assumptions find_Base64Decode_silent.
Print Assumptions find_FromBase64String_silent.
Print Assumptions find_FromHexString_silent.
Print Assumptions find_powershell_bytes_silent.
Print Assumptions find_executable_name_silent.
Print Assumptions find_library_silent.
Print Assumptions find_path_silent.
Print Assumptions find_windows_path_silent.
Print Assumptions find_pe_files_silent.
Print Assumptions find_domains_silent.
Print Assumptions find_emails_silent.
Print Assumptions find_ips_silent.
Print Assumptions find_urls_silent.
Print Assumptions silent_no_full.
Print Assumptions lparen_not_base64_text.
Print Assumptions find_base64_no_full.
Print Assumptions find_hex_no_full.
Print Assumptions form_has_lparen.
Print Assumptions form_head.
Print Assumptions shipped_kw_clear.
Print Assumptions shipped_no_unescape_keyword.
Print Assumptions prefixb_eq_app.
Print Assumptions prefixb_same_length.
Print Assumptions keyword_no_full_of.
Print Assumptions form_lower.
Print Assumptions keyword_no_full.
Print Assumptions silent_tame.
Print Assumptions strong_in_bounds.
Print Assumptions others_tame.
Print Assumptions keyword_tame.
Print Assumptions analyzers_split.
Print Assumptions other_names_b.
Print Assumptions other_names.
Print Assumptions tame_concat.
Print Assumptions Forall2_cons_inv_l.
Print Assumptions inb_concat.
Print Assumptions registry_dominant.
Print Assumptions decoder_by_name_unescape.
Print Assumptions unescape_on_form.
Print Assumptions unescape_dominant.
Print Assumptions slice_from_end.
Print Assumptions scan_r_ok_searched.
Print Assumptions form_chain.
Print Assumptions unescape_scan_tree.
Print Assumptions subst_chain_form.
Print Assumptions unescape_scan_flatten_1.
Print Assumptions unescape_scan_flatten.
Print Assumptions ex_form1.
Print Assumptions ex_form3.
Print Assumptions ex_form2_len.
Print Assumptions ex_scan1.
Print Assumptions ex_scan3.
Print Assumptions ex_scan2_depth1.
Print Assumptions ex_scan2.
Print Assumptions ex_flatten1.
Print Assumptions ex_flatten2.
Print Assumptions ex_flatten3.
Print Assumptions ex_search1.
Print Assumptions kw_clear_empty.
Print Assumptions ex_wf.
Print Assumptions ex_fuel.
Print Assumptions ex_dominant1.
Print Assumptions ex_tree2_applied.
Print Assumptions ex_flatten3_applied.
Print Assumptions unescape_scan_tree_shipped.
Print Assumptions find_powershell_strings_starts.
Print Assumptions find_powershell_strings_inb.
Print Assumptions find_pe_files_inb.
Print Assumptions decoder_by_name_pe_irrel.
Print Assumptions all_inb.
Print Assumptions atob_form_spelled.
Print Assumptions blen_atob_form.
Print Assumptions blen_atob_form_gt.
Print Assumptions atob_form_head.
Print Assumptions fi_starts_pos.
Print Assumptions find_Base64Decode_no_full_a.
Print Assumptions maybe_xor_st.
Print Assumptions fromb64_post_starts_any.
Print Assumptions find_FromBase64String_no_full_a.
Print Assumptions analyzers_split_atob.
Print Assumptions names_before_atob_eq.
Print Assumptions atob_names_modelled_b.
Print Assumptions atob_names_modelled.
Print Assumptions decoder_by_name_atob.
Print Assumptions atob_on_form.
Print Assumptions atob_form_lower.
Print Assumptions keyword_tame_atob.
Print Assumptions atob_dominant.
Print Assumptions r_scan_dominant_res.
Print Assumptions atob_form_wf.
Print Assumptions atob_form_ne.
Print Assumptions stack2_scan_tree.
Print Assumptions stack2_scan_flatten.
Print Assumptions shipped_kw_clear_atob.
Print Assumptions stack2_scan_tree_shipped.
Print Assumptions ex_atob1.
Print Assumptions ex_atob2.
Print Assumptions ex_stack_form1.
Print Assumptions ex_stack1.
Print Assumptions ex_search_atob2.
Print Assumptions ex_stack2.
Print Assumptions ex_stack_flatten1.
Print Assumptions ex_stack_flatten2.
Print Assumptions ex_fuel_b64.
Print Assumptions ex_stack2_applied.
