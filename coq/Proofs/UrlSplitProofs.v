(* Properties of the urlsplit model (Model/Dec/UrlSplit.v): partition lemmas, the exceptions urlsplit can
   raise, the decomposition of a clean text into the five components, facts about .hostname / .port. *)
From MD Require Import Lib.Base Model.Dec.Ip Model.Dec.UrlSplit Proofs.BaseProofs.

(* ---------- list / slice helpers ---------- *)
Lemma blen_app {A} (a b : list A) : blen (a ++ b) = blen a + blen b.
Proof. unfold blen. rewrite app_length. lia. Qed.

Lemma blen_cons1 {A} (c : A) r : blen (c :: r) = 1 + blen r.
Proof. unfold blen. cbn [List.length]. lia. Qed.

Lemma blen_nil {A} : blen (@nil A) = 0.
Proof. reflexivity. Qed.

Lemma blen_zero_nil {A} (l : list A) : blen l = 0 -> l = [].
Proof. destruct l; [reflexivity|]. rewrite blen_cons1. pose proof (blen_nonneg l). lia. Qed.

Lemma nonempty_true {A} (l : list A) : nonempty l = true <-> l <> [].
Proof. destruct l; cbn; split; congruence. Qed.

Lemma nonempty_false {A} (l : list A) : nonempty l = false <-> l = [].
Proof. destruct l; cbn; split; congruence. Qed.

Lemma nonempty_blen {A} (l : list A) : nonempty l = true -> 0 < blen l.
Proof. destruct l; [discriminate|]. intros _. rewrite blen_cons1. pose proof (blen_nonneg l). lia. Qed.

(* the middle of a concatenation is selected by the obvious slice *)
Lemma slice_app_mid {A} (a b c : list A) : slice (a ++ b ++ c) (blen a) (blen a + blen b) = b.
Proof.
  pose proof (blen_nonneg a). pose proof (blen_nonneg b). pose proof (blen_nonneg c).
  rewrite slice_in; try lia.
  2:{ rewrite !blen_app. lia. }
  unfold blen. rewrite Nat2Z.id.
  rewrite skipn_app, skipn_all, Nat.sub_diag. cbn [skipn app].
  replace (Z.to_nat (Z.of_nat (List.length a) + Z.of_nat (List.length b) - Z.of_nat (List.length a)))
    with (List.length b + 0)%nat by lia.
  rewrite firstn_app_2. cbn [firstn]. apply app_nil_r.
Qed.

Lemma slice_app_mid' {A} (a b c : list A) lo hi :
  lo = blen a -> hi = blen a + blen b -> slice (a ++ b ++ c) lo hi = b.
Proof. intros -> ->. apply slice_app_mid. Qed.

Lemma slice_prefix {A} (a c : list A) : slice (a ++ c) 0 (blen a) = a.
Proof. apply (slice_app_mid' [] a c); reflexivity. Qed.

(* ---------- span_until / partition / rpartition ---------- *)
Lemma span_until_spec p s : forall a r, span_until p s = (a, r) ->
  s = a ++ r /\ forallb (fun c => negb (p c)) a = true /\
  match r with [] => True | c :: _ => p c = true end.
Proof.
  induction s as [|c t IH]; intros a r H; cbn [span_until] in H.
  - injection H as <- <-. repeat split.
  - destruct (p c) eqn:Hp.
    + injection H as <- <-. repeat split. exact Hp.
    + destruct (span_until p t) as [a' r'] eqn:E. injection H as <- <-.
      destruct (IH a' r' eq_refl) as [-> [Hall Hr]]. repeat split; try assumption.
      cbn [forallb]. rewrite Hp. exact Hall.
Qed.

Lemma forallb_neq_notin c a : forallb (fun x => negb (N.eqb c x)) a = true -> ~ In c a.
Proof.
  intros H Hin. rewrite forallb_forall in H. specialize (H c Hin). rewrite N.eqb_refl in H. discriminate.
Qed.

Lemma partition_found c s a b : partition c s = (a, true, b) -> s = a ++ c :: b /\ ~ In c a.
Proof.
  unfold partition. destruct (span_until (N.eqb c) s) as [a' r] eqn:E.
  destruct (span_until_spec _ _ _ _ E) as [-> [Hall Hr]].
  destruct r as [|x t]; intros H; [discriminate|]. injection H as <- <-.
  apply N.eqb_eq in Hr. subst x. split; [reflexivity|]. apply forallb_neq_notin. exact Hall.
Qed.

Lemma partition_notfound c s a b : partition c s = (a, false, b) -> a = s /\ b = [] /\ ~ In c s.
Proof.
  unfold partition. destruct (span_until (N.eqb c) s) as [a' r] eqn:E.
  destruct (span_until_spec _ _ _ _ E) as [-> [Hall Hr]].
  destruct r as [|x t]; intros H; [|discriminate]. injection H as <- <-.
  rewrite app_nil_r. repeat split. apply forallb_neq_notin. exact Hall.
Qed.

Lemma rpartition_found c s a b : rpartition c s = (a, true, b) -> s = a ++ c :: b /\ ~ In c b.
Proof.
  unfold rpartition. destruct (partition c (rev s)) as [[a' f] b'] eqn:E. destruct f.
  - intros H. injection H as <- <-. apply partition_found in E. destruct E as [E Hn].
    split.
    + rewrite <- (rev_involutive s), E. rewrite rev_app_distr. cbn [rev]. rewrite <- app_assoc. reflexivity.
    + intros Hin. apply Hn. apply in_rev. exact Hin.
  - intros H. discriminate.
Qed.

Lemma rpartition_notfound c s a b : rpartition c s = (a, false, b) -> a = [] /\ b = s /\ ~ In c s.
Proof.
  unfold rpartition. destruct (partition c (rev s)) as [[a' f] b'] eqn:E. destruct f.
  - intros H. discriminate.
  - intros H. injection H as <- <-. apply partition_notfound in E. destruct E as [_ [_ Hn]].
    repeat split. intros Hin. apply Hn. apply in_rev. rewrite rev_involutive. exact Hin.
Qed.

Lemma has_byte_in c s : has_byte c s = true <-> In c s.
Proof.
  unfold has_byte. rewrite existsb_exists. split.
  - intros [x [Hin Hx]]. apply N.eqb_eq in Hx. subst. exact Hin.
  - intros Hin. exists c. split; [exact Hin|apply N.eqb_refl].
Qed.

(* ---------- urlsplit raises only ValueError (or its subclass UnicodeDecodeError), never hangs ---------- *)
Lemma check_netloc_cases nl : check_netloc nl = Ok tt \/ check_netloc nl = Raise value_error.
Proof.
  unfold check_netloc. destruct (_ || _); [right; reflexivity|].
  destruct (_ && _); [|left; reflexivity]. destruct (check_bracketed_host _); [left|right]; reflexivity.
Qed.

Theorem urlsplit_raises b e : urlsplit b = Raise e -> is_value_error e = true.
Proof.
  unfold urlsplit. destruct (negb (is_ascii b)).
  - intros H. injection H as <-. reflexivity.
  - destruct (split_scheme (clean_url b)) as [scheme url1].
    destruct (split_netloc url1) as [[netloc rest]|].
    + destruct (check_netloc_cases netloc) as [-> | ->]; cbn [bind].
      * destruct (partition b_hash rest) as [[u3 f3] fr]. destruct (partition b_qmark u3) as [[p fq] q]. discriminate.
      * intros H. injection H as <-. reflexivity.
    + cbn [bind]. destruct (partition b_hash url1) as [[u3 f3] fr]. destruct (partition b_qmark u3) as [[p fq] q]. discriminate.
Qed.

Theorem urlsplit_no_hang b : urlsplit b <> Hang.
Proof.
  unfold urlsplit. destruct (negb (is_ascii b)); [discriminate|].
  destruct (split_scheme (clean_url b)) as [scheme url1].
  destruct (split_netloc url1) as [[netloc rest]|].
  - destruct (check_netloc_cases netloc) as [-> | ->]; cbn [bind]; [|discriminate].
    destruct (partition b_hash rest) as [[u3 f3] fr]. destruct (partition b_qmark u3) as [[p fq] q]. discriminate.
  - cbn [bind]. destruct (partition b_hash url1) as [[u3 f3] fr]. destruct (partition b_qmark u3) as [[p fq] q]. discriminate.
Qed.

Theorem urlsplit_non_ascii b : is_ascii b = false -> urlsplit b = Raise unicode_decode_error.
Proof. intros H. unfold urlsplit. rewrite H. reflexivity. Qed.

Theorem sr_port_cases r : (exists p, sr_port r = Ok p) \/ sr_port r = Raise value_error.
Proof.
  unfold sr_port. destruct (snd (hostinfo (sr_netloc r))) as [p|]; [|left; eexists; reflexivity].
  destruct (negb _); [right; reflexivity|]. destruct (_ <? _); [right; reflexivity|].
  destruct (_ <? _); [right; reflexivity|left; eexists; reflexivity].
Qed.

Lemma dec_value_nonneg p : forallb is_digit_ascii p = true -> 0 <= dec_value p.
Proof.
  unfold dec_value.
  assert (G : forall l acc, 0 <= acc -> forallb is_digit_ascii l = true ->
              0 <= fold_left (fun acc c => acc * 10 + (Z.of_N c - 48)) l acc).
  { induction l as [|c l IH]; intros acc Hacc Hd; cbn [fold_left]; [exact Hacc|].
    cbn [forallb] in Hd. apply andb_true_iff in Hd. destruct Hd as [Hc Hl]. apply IH; [|exact Hl].
    unfold is_digit_ascii in Hc. apply andb_true_iff in Hc. destruct Hc as [Hc1 Hc2].
    apply N.leb_le in Hc1. lia. }
  intros Hd. apply G; [lia|exact Hd].
Qed.

Theorem sr_port_range r v : sr_port r = Ok (Some v) -> 0 <= v <= 65535.
Proof.
  unfold sr_port. destruct (snd (hostinfo (sr_netloc r))) as [p|]; [|discriminate].
  destruct (forallb is_digit_ascii p) eqn:Hd; cbn [negb]; [|discriminate].
  destruct (_ <? _); [discriminate|].
  destruct (Z.ltb_spec 65535 (dec_value p)) as [Hlt|Hge]; [discriminate|].
  intros H. injection H as <-. split; [|lia]. apply dec_value_nonneg. exact Hd.
Qed.

(* ---------- the decomposition of the cleaned text ---------- *)
Lemma split_scheme_spec url sch rest : split_scheme url = (sch, rest) ->
  (sch = [] /\ rest = url) \/
  (exists raw, raw <> [] /\ url = raw ++ b_colon :: rest /\ sch = lower raw /\ ~ In b_colon raw).
Proof.
  unfold split_scheme. destruct (span_until (N.eqb b_colon) url) as [pre r] eqn:E.
  destruct (span_until_spec _ _ _ _ E) as [-> [Hall Hr]].
  destruct pre as [|c0 pre']; [intros H; injection H as <- <-; left; auto|].
  destruct r as [|x after]; [intros H; injection H as <- <-; left; auto|].
  destruct (_ && _); intros H; injection H as <- <-; [right|left; auto].
  exists (c0 :: pre'). apply N.eqb_eq in Hr. subst x.
  split; [discriminate|]. split; [reflexivity|]. split; [reflexivity|].
  apply forallb_neq_notin. exact Hall.
Qed.

Lemma split_netloc_spec url nl rest : split_netloc url = Some (nl, rest) ->
  url = b_slash :: b_slash :: nl ++ rest /\ forallb (fun c => negb (is_netloc_delim c)) nl = true.
Proof.
  unfold split_netloc. destruct url as [|c1 [|c2 t]]; try discriminate.
  destruct (N.eqb_spec c1 b_slash) as [->|]; [|discriminate].
  destruct (N.eqb_spec c2 b_slash) as [->|]; [|discriminate]. cbn [andb].
  intros H. injection H as H. destruct (span_until_spec _ _ _ _ H) as [-> [Hall _]].
  split; [reflexivity|exact Hall].
Qed.

(* [u] is the concatenation of the parts urlsplit reports; [raw] is the scheme as written *)
Definition url_shape (u : bytes) (r : split_result) (raw : bytes) (hs hn hq hf : bool) : Prop :=
  u = (if hs then raw ++ [b_colon] else []) ++ (if hn then [b_slash; b_slash] ++ sr_netloc r else [])
      ++ sr_path r ++ (if hq then b_qmark :: sr_query r else []) ++ (if hf then b_hash :: sr_fragment r else [])
  /\ sr_scheme r = (if hs then lower raw else [])
  /\ (hs = true -> raw <> [])
  /\ (hn = false -> sr_netloc r = [])
  /\ (hq = false -> sr_query r = [])
  /\ (hf = false -> sr_fragment r = []).

Lemma tail_shape url2 (hash_found q_found : bool) u3 path query fragment :
  partition b_hash url2 = (u3, hash_found, fragment) ->
  partition b_qmark u3 = (path, q_found, query) ->
  url2 = path ++ (if q_found then b_qmark :: query else []) ++ (if hash_found then b_hash :: fragment else [])
  /\ (q_found = false -> query = []) /\ (hash_found = false -> fragment = []).
Proof.
  intros Hh Hq. destruct hash_found.
  - apply partition_found in Hh. destruct Hh as [-> _]. destruct q_found.
    + apply partition_found in Hq. destruct Hq as [-> _]. rewrite <- app_assoc. cbn [app].
      repeat split; discriminate.
    + apply partition_notfound in Hq. destruct Hq as [-> [-> _]]. cbn [app]. repeat split. discriminate.
  - apply partition_notfound in Hh. destruct Hh as [-> [-> _]]. destruct q_found.
    + apply partition_found in Hq. destruct Hq as [-> _]. rewrite app_nil_r. repeat split; discriminate.
    + apply partition_notfound in Hq. destruct Hq as [-> [-> _]]. cbn [app]. rewrite app_nil_r. repeat split.
Qed.

Theorem urlsplit_shape u r : urlsplit u = Ok r ->
  exists raw hs hn hq hf, url_shape (clean_url u) r raw hs hn hq hf.
Proof.
  unfold urlsplit. destruct (negb (is_ascii u)); [discriminate|].
  destruct (split_scheme (clean_url u)) as [scheme url1] eqn:Es.
  destruct (split_netloc url1) as [[netloc rest]|] eqn:En.
  - destruct (check_netloc_cases netloc) as [-> | ->]; cbn [bind]; [|discriminate].
    destruct (partition b_hash rest) as [[u3 f3] fr] eqn:Eh. destruct (partition b_qmark u3) as [[p fq] q] eqn:Eq.
    intros H. injection H as <-.
    destruct (tail_shape _ _ _ _ _ _ _ Eh Eq) as [Hrest [Hq0 Hf0]].
    apply split_netloc_spec in En. destruct En as [En _].
    destruct (split_scheme_spec _ _ _ Es) as [[-> ->] | [raw [Hraw [Hu [-> _]]]]].
    + exists [], false, true, fq, f3. unfold url_shape. cbn [sr_scheme sr_netloc sr_path sr_query sr_fragment].
      split; [|repeat split; try discriminate; auto].
      rewrite En, Hrest. reflexivity.
    + exists raw, true, true, fq, f3. unfold url_shape. cbn [sr_scheme sr_netloc sr_path sr_query sr_fragment].
      split; [|repeat split; try discriminate; auto].
      rewrite Hu, En, Hrest. rewrite <- app_assoc. reflexivity.
  - cbn [bind].
    destruct (partition b_hash url1) as [[u3 f3] fr] eqn:Eh. destruct (partition b_qmark u3) as [[p fq] q] eqn:Eq.
    intros H. injection H as <-.
    destruct (tail_shape _ _ _ _ _ _ _ Eh Eq) as [Hrest [Hq0 Hf0]].
    destruct (split_scheme_spec _ _ _ Es) as [[-> ->] | [raw [Hraw [Hu [-> _]]]]].
    + exists [], false, false, fq, f3. unfold url_shape. cbn [sr_scheme sr_netloc sr_path sr_query sr_fragment].
      split; [|repeat split; try discriminate; auto].
      rewrite Hrest. reflexivity.
    + exists raw, true, false, fq, f3. unfold url_shape. cbn [sr_scheme sr_netloc sr_path sr_query sr_fragment].
      split; [|repeat split; try discriminate; auto].
      rewrite Hu, Hrest. rewrite <- app_assoc. reflexivity.
Qed.

(* a text without leading C0 control / space bytes and without tab, CR, LF is its own cleaned form *)
Definition clean (u : bytes) : Prop :=
  match u with c :: _ => is_c0_or_space c = false | [] => True end /\ forallb (fun c => negb (is_unsafe c)) u = true.

Lemma clean_url_id u : clean u -> clean_url u = u.
Proof.
  intros [H0 H1]. unfold clean_url.
  assert (E : lstrip_c0 u = u). { destruct u as [|c t]; [reflexivity|]. cbn [lstrip_c0]. rewrite H0. reflexivity. }
  rewrite E. unfold remove_unsafe. clear H0 E.
  induction u as [|c t IH]; [reflexivity|]. cbn [forallb] in H1. apply andb_true_iff in H1. destruct H1 as [Hc Ht].
  cbn [filter]. rewrite Hc. f_equal. apply IH. exact Ht.
Qed.

Corollary urlsplit_shape_clean u r : clean u -> urlsplit u = Ok r ->
  exists raw hs hn hq hf, url_shape u r raw hs hn hq hf.
Proof. intros Hc H. pose proof (urlsplit_shape u r H) as G. rewrite (clean_url_id u Hc) in G. exact G. Qed.

(* the scheme urlsplit reports is non-empty exactly when one was recognised *)
Lemma lower_nil_iff b : lower b = [] <-> b = [].
Proof. destruct b; cbn; split; congruence. Qed.

Lemma url_shape_scheme u r raw hs hn hq hf : url_shape u r raw hs hn hq hf ->
  (hs = true <-> sr_scheme r <> []).
Proof.
  intros [_ [Hs [Hraw _]]]. rewrite Hs. destruct hs; split; intros H; try congruence.
  - intros E. apply (proj1 (lower_nil_iff _)) in E. apply Hraw; auto.
Qed.

(* ---------- .hostname ---------- *)
Theorem sr_hostname_nonempty r h : sr_hostname r = Some h -> h <> [].
Proof.
  unfold sr_hostname. destruct (nonempty (fst (hostinfo (sr_netloc r)))) eqn:Hn; [|discriminate].
  destruct (partition b_pct (fst (hostinfo (sr_netloc r)))) as [[a found] zone] eqn:Ep.
  intros H. injection H as <-. destruct found.
  - intros E. apply app_eq_nil in E. destruct E as [_ E]. discriminate.
  - apply partition_notfound in Ep. destruct Ep as [-> [-> _]]. cbn [app]. rewrite app_nil_r.
    intros E. apply (proj1 (lower_nil_iff _)) in E. rewrite E in Hn. discriminate.
Qed.

(* the host name never keeps an upper-case letter before a percent sign *)
Theorem sr_hostname_none_iff r : sr_hostname r = None <-> fst (hostinfo (sr_netloc r)) = [].
Proof.
  unfold sr_hostname. destruct (fst (hostinfo (sr_netloc r))) as [|c t]; cbn [nonempty]; [tauto|].
  destruct (partition b_pct (c :: t)) as [[a f] z]. split; discriminate.
Qed.

(* ---------- test vectors (expected values printed by CPython 3.12.1) ---------- *)
Definition us_view (b : bytes) : res (list bytes * option bytes * res (option Z)) :=
  do r <- urlsplit b; Ok ([sr_scheme r; sr_netloc r; sr_path r; sr_query r; sr_fragment r], sr_hostname r, sr_port r).
Example urlsplit_ex0 : us_view (L"http://example.com/a/b?x=1#top") = Ok ([L"http"; L"example.com"; L"/a/b"; L"x=1"; L"top"], Some (L"example.com"), Ok (None)).
Proof. vm_compute. reflexivity. Qed.
Example urlsplit_ex1 : us_view (L"HTTPS://User:Pw@Example.COM:8080/p") = Ok ([L"https"; L"User:Pw@Example.COM:8080"; L"/p"; []; []], Some (L"example.com"), Ok (Some 8080)).
Proof. vm_compute. reflexivity. Qed.
Example urlsplit_ex2 : us_view (L"ftp://[::1]:21/") = Ok ([L"ftp"; L"[::1]:21"; L"/"; []; []], Some (L"::1"), Ok (Some 21)).
Proof. vm_compute. reflexivity. Qed.
Example urlsplit_ex3 : us_view (L"http://[::1%2E]/") = Ok ([L"http"; L"[::1%2E]"; L"/"; []; []], Some (L"::1%2E"), Ok (None)).
Proof. vm_compute. reflexivity. Qed.
Example urlsplit_ex4 : us_view (L"http://[::1./") = Raise (L"ValueError").
Proof. vm_compute. reflexivity. Qed.
Example urlsplit_ex5 : us_view (L"http://[1.2.3.4]/") = Raise (L"ValueError").
Proof. vm_compute. reflexivity. Qed.
Example urlsplit_ex6 : us_view ([104;116;116;112;58;47;47;104;195;169;46;99;111;109;47]%N) = Raise (L"UnicodeDecodeError").
Proof. vm_compute. reflexivity. Qed.
Example urlsplit_ex7 : us_view ([32;32;104;116;9;116;112;58;47;47;97;46;99;111;109]%N) = Ok ([L"http"; L"a.com"; []; []; []], Some (L"a.com"), Ok (None)).
Proof. vm_compute. reflexivity. Qed.
Example urlsplit_ex8 : us_view (L"http:///path") = Ok ([L"http"; []; L"/path"; []; []], None, Ok (None)).
Proof. vm_compute. reflexivity. Qed.
Example urlsplit_ex9 : us_view (L"//x?a?b#c#d") = Ok ([[]; L"x"; []; L"a?b"; L"c#d"], Some (L"x"), Ok (None)).
Proof. vm_compute. reflexivity. Qed.
Example urlsplit_ex10 : us_view (L"a+.-://x") = Ok ([L"a+.-"; L"x"; []; []; []], Some (L"x"), Ok (None)).
Proof. vm_compute. reflexivity. Qed.
Example urlsplit_ex11 : us_view (L"1http://x") = Ok ([[]; []; L"1http://x"; []; []], None, Ok (None)).
Proof. vm_compute. reflexivity. Qed.
Example urlsplit_ex12 : us_view (L"http://h.com:65536/") = Ok ([L"http"; L"h.com:65536"; L"/"; []; []], Some (L"h.com"), Raise (L"ValueError")).
Proof. vm_compute. reflexivity. Qed.
Example urlsplit_ex13 : us_view (L"http://h.com:0080/") = Ok ([L"http"; L"h.com:0080"; L"/"; []; []], Some (L"h.com"), Ok (Some 80)).
Proof. vm_compute. reflexivity. Qed.
Example urlsplit_ex14 : us_view (L"http://[v1.x]/") = Ok ([L"http"; L"[v1.x]"; L"/"; []; []], Some (L"v1.x"), Ok (None)).
Proof. vm_compute. reflexivity. Qed.
Example urlsplit_ex15 : us_view (L"http://a]b[c/") = Raise (L"ValueError").
Proof. vm_compute. reflexivity. Qed.
Example urlsplit_ex16 : us_view (L"http://h/p?#f") = Ok ([L"http"; L"h"; L"/p"; []; L"f"], Some (L"h"), Ok (None)).
Proof. vm_compute. reflexivity. Qed.
Example urlsplit_ex17 : us_view ([]) = Ok ([[]; []; []; []; []], None, Ok (None)).
Proof. vm_compute. reflexivity. Qed.

Print Assumptions urlsplit_raises.
Print Assumptions urlsplit_no_hang.
Print Assumptions urlsplit_shape.
Print Assumptions urlsplit_shape_clean.
Print Assumptions sr_port_cases.
Print Assumptions sr_port_range.
Print Assumptions sr_hostname_nonempty.
Print Assumptions sr_hostname_none_iff.
Print Assumptions partition_found.
Print Assumptions rpartition_found.
Print Assumptions slice_app_mid.
