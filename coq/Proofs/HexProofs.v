(* Proofs about the hexadecimal codecs of Model/Codec/Hex.v. *)
From MD Require Import Lib.Base Model.Codec.Hex.

(* lia extended with division / modulo by constants on N *)
Ltac nlia := zify; Z.to_euclidean_division_equations; lia.

(* ---------- test vectors (outputs are what /venv/bin/python 3.12.1 prints) ---------- *)
Example hexlify_ex1 : hexlify [0; 1; 255; 171]%N = L"0001ffab". Proof. vm_compute. reflexivity. Qed.
Example hexlify_ex2 : hexlify [] = []. Proof. reflexivity. Qed.
Example unhex_ex1 : unhexlify (L"AbCd") = Ok [171; 205]%N. Proof. vm_compute. reflexivity. Qed.
Example unhex_ex2 : unhexlify [] = Ok []. Proof. vm_compute. reflexivity. Qed.
Example unhex_ex3 : unhexlify (L"a") = Raise (L"Error"). Proof. vm_compute. reflexivity. Qed.
Example unhex_ex4 : unhexlify (L"ag") = Raise (L"Error"). Proof. vm_compute. reflexivity. Qed.
Example unhex_ex5 : unhexlify (L"agh") = Raise (L"Error"). Proof. vm_compute. reflexivity. Qed.
Example unhex_ex6 : unhexlify (L"ab ") = Raise (L"Error"). Proof. vm_compute. reflexivity. Qed.
Example unhex_ex7 : unhexlify (L"a b ") = Raise (L"Error"). Proof. vm_compute. reflexivity. Qed.
Example unhex_ex8 : unhexlify (L"0G") = Raise (L"Error"). Proof. vm_compute. reflexivity. Qed.
Example unhex_ex9 : unhexlify [255; 255]%N = Raise (L"Error"). Proof. vm_compute. reflexivity. Qed.
Example fromhex_ex1 : fromhex [] = Ok []. Proof. reflexivity. Qed.
Example fromhex_ex2 : fromhex (L" ") = Ok []. Proof. vm_compute. reflexivity. Qed.
Example fromhex_ex3 : fromhex (L"AB cd") = Ok [171; 205]%N. Proof. vm_compute. reflexivity. Qed.
Example fromhex_ex4 : fromhex (L" ab ") = Ok [171]%N. Proof. vm_compute. reflexivity. Qed.
Example fromhex_ex5 : fromhex (L"a b") = Raise (L"ValueError"). Proof. vm_compute. reflexivity. Qed.
Example fromhex_ex6 : fromhex (L"abc") = Raise (L"ValueError"). Proof. vm_compute. reflexivity. Qed.
Example fromhex_ex7 : fromhex (L"ab c") = Raise (L"ValueError"). Proof. vm_compute. reflexivity. Qed.
(* "ab\tcd\n\r\v\f ef" *)
Example fromhex_ex8 : fromhex [97; 98; 9; 99; 100; 10; 13; 11; 12; 32; 101; 102]%N = Ok [171; 205; 239]%N.
Proof. vm_compute. reflexivity. Qed.
(* \x1c, \x85, \xa0, U+2003 are str.isspace() but are NOT skipped by fromhex *)
Example fromhex_ex9 : fromhex [97; 98; 28; 99; 100]%N = Raise (L"ValueError"). Proof. vm_compute. reflexivity. Qed.
Example fromhex_ex10 : fromhex [97; 98; 160; 99; 100]%N = Raise (L"ValueError"). Proof. vm_compute. reflexivity. Qed.
Example fromhex_ex11 : fromhex [97; 98; 8195; 99; 100]%N = Raise (L"ValueError"). Proof. vm_compute. reflexivity. Qed.
Example fromhex_ex12 : fromhex (L"0x12") = Raise (L"ValueError"). Proof. vm_compute. reflexivity. Qed.
Example fromhex_ex13 : fromhex [97; 98; 0]%N = Raise (L"ValueError"). Proof. vm_compute. reflexivity. Qed.

(* ---------- generic helpers ---------- *)
Lemma pair_ind {A} (P : list A -> Prop) :
  P [] -> (forall a, P [a]) -> (forall a b r, P r -> P (a :: b :: r)) -> forall l, P l.
Proof.
  intros H0 H1 H2.
  assert (H : forall l, P l /\ forall a, P (a :: l)).
  { induction l as [|x l [IHa IHb]]; split; auto. }
  intros l. apply H.
Qed.

Lemma blen_cons {A} (a : A) (l : list A) : blen (a :: l) = blen l + 1.
Proof. unfold blen. cbn [List.length]. lia. Qed.

Lemma blen_nil {A} : blen (@nil A) = 0.
Proof. reflexivity. Qed.

Lemma blen_nonneg {A} (l : list A) : 0 <= blen l.
Proof. unfold blen. lia. Qed.

(* ---------- digits ---------- *)
Lemma hex_digit_val_lt c v : hex_digit_val c = Some v -> (v < 16)%N.
Proof.
  unfold hex_digit_val, is_digit_ascii.
  destruct (N.leb_spec 48 c), (N.leb_spec c 57), (N.leb_spec 97 c), (N.leb_spec c 102),
    (N.leb_spec 65 c), (N.leb_spec c 70); cbn [andb]; intros E; inversion E; lia.
Qed.

Lemma hex_digit_val_hex_digit n : (n < 16)%N -> hex_digit_val (hex_digit n) = Some n.
Proof.
  intros Hn. unfold hex_digit. rewrite (N.mod_small n 16) by exact Hn.
  unfold hex_digit_val, is_digit_ascii.
  destruct (N.ltb_spec n 10) as [Hlt|Hge].
  - destruct (N.leb_spec 48 (n + 48)), (N.leb_spec (n + 48) 57); cbn [andb]; try lia.
    f_equal. lia.
  - destruct (N.leb_spec 48 (n + 87)), (N.leb_spec (n + 87) 57),
      (N.leb_spec 97 (n + 87)), (N.leb_spec (n + 87) 102); cbn [andb]; try lia.
    f_equal. lia.
Qed.

Lemma hex_digit_is_hex n : is_hex_digit (hex_digit n) = true.
Proof.
  unfold is_hex_digit, hex_digit.
  assert (Hm : (n mod 16 < 16)%N) by (apply N.mod_lt; discriminate).
  pose proof (hex_digit_val_hex_digit (n mod 16) Hm) as E.
  unfold hex_digit in E. rewrite N.mod_mod in E by discriminate. rewrite E. reflexivity.
Qed.

Lemma hex_digit_not_space c v : hex_digit_val c = Some v -> is_space_ascii c = false.
Proof.
  unfold hex_digit_val, is_digit_ascii, is_space_ascii.
  destruct (N.leb_spec 48 c), (N.leb_spec c 57), (N.leb_spec 97 c), (N.leb_spec c 102),
    (N.leb_spec 65 c), (N.leb_spec c 70), (N.eqb_spec c 32), (N.leb_spec 9 c), (N.leb_spec c 13);
    cbn [andb orb]; intros E; try discriminate E; try reflexivity; lia.
Qed.

(* ---------- hexlify ---------- *)
Lemma hexlify_length p : blen (hexlify p) = 2 * blen p.
Proof.
  induction p as [|x p IH]; [reflexivity|].
  cbn [hexlify]. rewrite !blen_cons, IH. lia.
Qed.

Lemma hexlify_app p q : hexlify (p ++ q) = hexlify p ++ hexlify q.
Proof. induction p as [|x p IH]; [reflexivity|]. cbn [hexlify app]. rewrite IH. reflexivity. Qed.

Theorem hexlify_digits p : forallb is_hex_digit (hexlify p) = true.
Proof.
  induction p as [|x p IH]; [reflexivity|].
  cbn [hexlify forallb]. rewrite !hex_digit_is_hex, IH. reflexivity.
Qed.

(* ---------- unhexlify ---------- *)
Lemma unhex_pairs_hexlify p : wf_bytes p -> unhex_pairs (hexlify p) = Ok p.
Proof.
  induction 1 as [|x p Hx Hp IH]; [reflexivity|].
  cbn [hexlify unhex_pairs].
  rewrite !hex_digit_val_hex_digit by nlia.
  rewrite IH. cbn [bind]. do 2 f_equal. nlia.
Qed.

Theorem unhexlify_hexlify p : wf_bytes p -> unhexlify (hexlify p) = Ok p.
Proof.
  intros Hp. unfold unhexlify. rewrite hexlify_length.
  replace (2 * blen p) with (0 + 2 * blen p) by lia.
  rewrite Z.odd_add_mul_2. cbn [Z.odd]. apply unhex_pairs_hexlify, Hp.
Qed.

Lemma even_blen_cons2 {A} (a b : A) r : Z.even (blen (a :: b :: r)) = Z.even (blen r).
Proof.
  rewrite !blen_cons. replace (blen r + 1 + 1) with (Z.succ (Z.succ (blen r))) by lia.
  apply Z.even_succ_succ.
Qed.

Lemma unhex_pairs_ok_iff t :
  (exists p, unhex_pairs t = Ok p) <-> Z.even (blen t) = true /\ forallb is_hex_digit t = true.
Proof.
  induction t as [| a | a b r IH] using pair_ind.
  - split; [intros _; split; reflexivity | intros _; exists []; reflexivity].
  - split; [intros [p E]; discriminate E | intros [E _]; discriminate E].
  - rewrite even_blen_cons2. cbn [unhex_pairs forallb]. unfold is_hex_digit at 1 2.
    destruct (hex_digit_val a) as [x|], (hex_digit_val b) as [y|]; cbn [andb].
    + rewrite <- IH. split.
      * intros [p E]. destruct (unhex_pairs r) as [q| |]; try discriminate E. exists q; reflexivity.
      * intros [q E]. rewrite E. cbn [bind]. eexists; reflexivity.
    + split; [intros [p E]; discriminate E | intros [_ E]; discriminate E].
    + split; [intros [p E]; discriminate E | intros [_ E]; discriminate E].
    + split; [intros [p E]; discriminate E | intros [_ E]; discriminate E].
Qed.

Lemma odd_negb_even z : Z.odd z = negb (Z.even z).
Proof. rewrite <- Z.negb_even. reflexivity. Qed.

(* binascii.unhexlify succeeds exactly on even-length strings of hex digits *)
Theorem unhexlify_ok_iff t :
  (exists p, unhexlify t = Ok p) <-> Z.even (blen t) = true /\ forallb is_hex_digit t = true.
Proof.
  unfold unhexlify. rewrite odd_negb_even.
  destruct (Z.even (blen t)) eqn:Ev; cbn [negb].
  - rewrite unhex_pairs_ok_iff, Ev. reflexivity.
  - split; [intros [p E]; discriminate E | intros [E _]; discriminate E].
Qed.

(* every failure is binascii.Error, and unhexlify never hangs *)
Theorem unhexlify_total t : (exists p, unhexlify t = Ok p) \/ unhexlify t = Raise (L"Error").
Proof.
  unfold unhexlify. destruct (Z.odd (blen t)); [right; reflexivity|].
  induction t as [| a | a b r IH] using pair_ind.
  - left; exists []; reflexivity.
  - right; reflexivity.
  - cbn [unhex_pairs]. destruct (hex_digit_val a), (hex_digit_val b); try (right; reflexivity).
    destruct IH as [[q E]|E]; rewrite E; cbn [bind]; [left; eexists; reflexivity | right; reflexivity].
Qed.

Lemma unhex_pairs_length t : forall p, unhex_pairs t = Ok p -> blen t = 2 * blen p.
Proof.
  induction t as [| a | a b r IH] using pair_ind; intros p E.
  - injection E as <-. reflexivity.
  - discriminate E.
  - cbn [unhex_pairs] in E. destruct (hex_digit_val a), (hex_digit_val b); try discriminate E.
    destruct (unhex_pairs r) as [q| |]; try discriminate E.
    cbn [bind] in E. injection E as <-. rewrite !blen_cons, (IH q eq_refl). lia.
Qed.

Lemma unhexlify_pairs t p : unhexlify t = Ok p -> unhex_pairs t = Ok p.
Proof. unfold unhexlify. destruct (Z.odd (blen t)); [discriminate | auto]. Qed.

Theorem unhexlify_length t p : unhexlify t = Ok p -> blen t = 2 * blen p.
Proof. intros E. apply unhex_pairs_length, unhexlify_pairs, E. Qed.

Lemma unhex_pairs_wf t : forall p, unhex_pairs t = Ok p -> wf_bytes p.
Proof.
  induction t as [| a | a b r IH] using pair_ind; intros p E.
  - injection E as <-. constructor.
  - discriminate E.
  - cbn [unhex_pairs] in E.
    destruct (hex_digit_val a) as [x|] eqn:Ea; [|discriminate E].
    destruct (hex_digit_val b) as [y|] eqn:Eb; [|discriminate E].
    destruct (unhex_pairs r) as [q| |]; try discriminate E.
    cbn [bind] in E. injection E as <-.
    pose proof (hex_digit_val_lt _ _ Ea) as Hx. pose proof (hex_digit_val_lt _ _ Eb) as Hy.
    constructor; [cbv beta; lia | apply IH; reflexivity].
Qed.

Theorem unhexlify_wf t p : unhexlify t = Ok p -> wf_bytes p.
Proof. intros E. eapply unhex_pairs_wf, unhexlify_pairs, E. Qed.

(* unhexlify is injective up to the case of the digits: re-encoding gives the lower-cased text *)
Lemma hex_digit_lower c v : hex_digit_val c = Some v -> hex_digit v = lower1 c.
Proof.
  intros E. pose proof (hex_digit_val_lt _ _ E) as Hv.
  unfold hex_digit. rewrite N.mod_small by exact Hv.
  revert E. unfold hex_digit_val, lower1, is_digit_ascii, is_upper_ascii.
  destruct (N.leb_spec 48 c), (N.leb_spec c 57), (N.leb_spec 97 c), (N.leb_spec c 102),
    (N.leb_spec 65 c), (N.leb_spec c 70), (N.leb_spec c 90); cbn [andb]; intros E; inversion E; subst v;
    try lia;
    match goal with |- context [(?a <? 10)%N] => destruct (N.ltb_spec a 10) end; lia.
Qed.

Theorem hexlify_unhexlify t p : unhexlify t = Ok p -> hexlify p = lower t.
Proof.
  intros E. apply unhexlify_pairs in E. revert p E.
  induction t as [| a | a b r IH] using pair_ind; intros p E.
  - injection E as <-. reflexivity.
  - discriminate E.
  - cbn [unhex_pairs] in E.
    destruct (hex_digit_val a) as [x|] eqn:Ea; [|discriminate E].
    destruct (hex_digit_val b) as [y|] eqn:Eb; [|discriminate E].
    destruct (unhex_pairs r) as [q| |]; try discriminate E.
    cbn [bind] in E. injection E as <-.
    pose proof (hex_digit_val_lt _ _ Ea). pose proof (hex_digit_val_lt _ _ Eb).
    unfold lower. cbn [hexlify map]. fold (lower r). rewrite <- (IH q eq_refl).
    replace ((x * 16 + y) / 16)%N with x by nlia.
    replace ((x * 16 + y) mod 16)%N with y by nlia.
    rewrite (hex_digit_lower _ _ Ea), (hex_digit_lower _ _ Eb). reflexivity.
Qed.

(* ---------- bytes.fromhex ---------- *)
Lemma fromhex_unhex_pairs t : forall p, unhex_pairs t = Ok p -> fromhex t = Ok p.
Proof.
  induction t as [| a | a b r IH] using pair_ind; intros p E.
  - exact E.
  - discriminate E.
  - cbn [unhex_pairs] in E. cbn [fromhex].
    destruct (hex_digit_val a) as [x|] eqn:Ea; [|discriminate E].
    destruct (hex_digit_val b) as [y|] eqn:Eb; [|discriminate E].
    rewrite (hex_digit_not_space _ _ Ea).
    destruct (unhex_pairs r) as [q| |]; try discriminate E.
    rewrite (IH q eq_refl). exact E.
Qed.

(* on input that unhexlify accepts, bytes.fromhex gives the same bytes *)
Theorem fromhex_unhexlify t p : unhexlify t = Ok p -> fromhex t = Ok p.
Proof. intros E. apply fromhex_unhex_pairs, unhexlify_pairs, E. Qed.

Theorem fromhex_hexlify p : wf_bytes p -> fromhex (hexlify p) = Ok p.
Proof. intros Hp. apply fromhex_unhexlify, unhexlify_hexlify, Hp. Qed.

Lemma fromhex_skip_spaces w s : forallb is_space_ascii w = true -> fromhex (w ++ s) = fromhex s.
Proof.
  induction w as [|c w IH]; [reflexivity|].
  cbn [forallb app fromhex]. rewrite andb_true_iff. intros [Hc Hw]. rewrite Hc. apply IH, Hw.
Qed.

(* whitespace is accepted between (and around) groups of whole byte pairs *)
Theorem fromhex_space_between a w b p q :
  unhexlify a = Ok p -> forallb is_space_ascii w = true -> fromhex b = Ok q ->
  fromhex (a ++ w ++ b) = Ok (p ++ q).
Proof.
  intros Ea Hw Eb. apply unhexlify_pairs in Ea. revert p Ea.
  induction a as [| c | c d r IH] using pair_ind; intros p Ea.
  - injection Ea as <-. cbn [app]. rewrite fromhex_skip_spaces by exact Hw. exact Eb.
  - discriminate Ea.
  - cbn [unhex_pairs] in Ea. cbn [app fromhex].
    destruct (hex_digit_val c) as [x|] eqn:Ec; [|discriminate Ea].
    destruct (hex_digit_val d) as [y|] eqn:Ed; [|discriminate Ea].
    rewrite (hex_digit_not_space _ _ Ec).
    destruct (unhex_pairs r) as [p'| |]; try discriminate Ea.
    cbn [bind] in Ea. injection Ea as <-.
    rewrite (IH p' eq_refl). reflexivity.
Qed.

(* fromhex raises only ValueError and never hangs *)
Theorem fromhex_total s : (exists p, fromhex s = Ok p) \/ fromhex s = Raise (L"ValueError").
Proof.
  assert (H : forall s, ((exists p, fromhex s = Ok p) \/ fromhex s = Raise (L"ValueError")) /\
                        forall c, (exists p, fromhex (c :: s) = Ok p) \/ fromhex (c :: s) = Raise (L"ValueError")).
  { clear s. intros s. induction s as [|c2 s [IHa IHb]].
    - split; [left; exists []; reflexivity|].
      intros c. cbn [fromhex]. destruct (is_space_ascii c); [left; exists []; reflexivity|].
      destruct (hex_digit_val c); right; reflexivity.
    - split; [apply IHb|].
      intros c. cbn [fromhex]. destruct (is_space_ascii c); [apply IHb|].
      destruct (hex_digit_val c); [|right; reflexivity].
      destruct (hex_digit_val c2); [|right; reflexivity].
      destruct IHa as [[q E]|E]; rewrite E; cbn [bind]; [left; eexists; reflexivity | right; reflexivity]. }
  apply H.
Qed.

Print Assumptions unhexlify_hexlify.
Print Assumptions unhexlify_ok_iff.
Print Assumptions unhexlify_total.
Print Assumptions unhexlify_length.
Print Assumptions unhexlify_wf.
Print Assumptions hexlify_unhexlify.
Print Assumptions hexlify_digits.
Print Assumptions fromhex_unhexlify.
Print Assumptions fromhex_hexlify.
Print Assumptions fromhex_space_between.
Print Assumptions fromhex_total.
