(* Proofs about Model/Codec/Utf.v : UTF-8 round trip, UTF-16 decoding of Latin-1 text, exception analysis. *)
From MD Require Import Lib.Base Model.Codec.PyInt Model.Codec.Utf.

Ltac dm_lia := Z.div_mod_to_equations; lia.

(* decide every Z comparison of the goal from the hypotheses *)
Ltac decide_cmp :=
  repeat match goal with
  | |- context [?a <? ?b] =>
      first [ replace (a <? b) with true by (symmetry; apply Z.ltb_lt; dm_lia)
            | replace (a <? b) with false by (symmetry; apply Z.ltb_ge; dm_lia) ]
  | |- context [?a <=? ?b] =>
      first [ replace (a <=? b) with true by (symmetry; apply Z.leb_le; dm_lia)
            | replace (a <=? b) with false by (symmetry; apply Z.leb_gt; dm_lia) ]
  end.

Definition valid_scalar (n : Z) : Prop := 0 <= n <= 1114111 /\ ~ (55296 <= n <= 57343).

Lemma is_surrogate_iff n : is_surrogate n = true <-> 55296 <= n <= 57343.
Proof. unfold is_surrogate. rewrite andb_true_iff, Z.leb_le, Z.leb_le. tauto. Qed.

Lemma utf8_encode_cp_valid n : valid_scalar n -> utf8_encode_cp n = Ok (utf8_bytes_cp n).
Proof.
  intros [Hr Hs]. unfold utf8_encode_cp.
  replace ((n <? -2147483648) || (2147483647 <? n)) with false by (decide_cmp; reflexivity).
  replace ((n <? 0) || (1114111 <? n)) with false by (decide_cmp; reflexivity).
  destruct (is_surrogate n) eqn:E; [apply is_surrogate_iff in E; lia|reflexivity].
Qed.

Theorem utf8_encode_cp_ok_iff n : (exists b, utf8_encode_cp n = Ok b) <-> valid_scalar n.
Proof.
  split; [|intros H; eexists; apply utf8_encode_cp_valid, H].
  intros [b H]. unfold utf8_encode_cp in H.
  destruct (Z.ltb_spec n (-2147483648)); [discriminate|]. destruct (Z.ltb_spec 2147483647 n); [discriminate|].
  cbn [orb] in H. destruct (Z.ltb_spec n 0); [discriminate|]. destruct (Z.ltb_spec 1114111 n); [discriminate|].
  cbn [orb] in H. destruct (is_surrogate n) eqn:E; [discriminate|].
  split; [lia|]. intros Hs. apply is_surrogate_iff in Hs. congruence.
Qed.

Theorem utf8_encode_cp_ok_bytes n b : utf8_encode_cp n = Ok b -> b = utf8_bytes_cp n /\ valid_scalar n.
Proof.
  intros H. assert (V : valid_scalar n) by (apply utf8_encode_cp_ok_iff; eexists; exact H).
  rewrite (utf8_encode_cp_valid n V) in H. split; [congruence|exact V].
Qed.

(* exactly which exception chr(n).encode() raises *)
Theorem utf8_encode_cp_raise n :
  utf8_encode_cp n =
  if (n <? -2147483648) || (2147483647 <? n) then Raise overflow_error
  else if (n <? 0) || (1114111 <? n) then Raise value_error
  else if (55296 <=? n) && (n <=? 57343) then Raise unicode_encode_error
  else Ok (utf8_bytes_cp n).
Proof. reflexivity. Qed.

Theorem utf8_bytes_cp_wf n : 0 <= n <= 1114111 -> wf_bytes (utf8_bytes_cp n) /\ 1 <= blen (utf8_bytes_cp n) <= 4.
Proof.
  intros Hn. unfold utf8_bytes_cp, wf_bytes.
  destruct (Z.ltb_spec n 128); [|destruct (Z.ltb_spec n 2048); [|destruct (Z.ltb_spec n 65536)]];
    (split; [repeat constructor; dm_lia | unfold blen; cbn [List.length]; lia]).
Qed.

Lemma utf8_decode_cons c0 r0 :
  utf8_decode (c0 :: r0) =
      let z0 := Z.of_N c0 in
      if z0 <? 128 then option_map (cons z0) (utf8_decode r0)
      else if z0 <? 194 then None
      else if z0 <? 224 then
        match r0 with
        | c1 :: r1 =>
            let z1 := Z.of_N c1 in
            if is_cont z1
            then option_map (cons ((z0 - 192) * 64 + (z1 - 128))) (utf8_decode r1)
            else None
        | _ => None
        end
      else if z0 <? 240 then
        match r0 with
        | c1 :: c2 :: r2 =>
            let z1 := Z.of_N c1 in
            let z2 := Z.of_N c2 in
            let n := (z0 - 224) * 4096 + (z1 - 128) * 64 + (z2 - 128) in
            if is_cont z1 && is_cont z2 && (2048 <=? n) && negb (is_surrogate n)
            then option_map (cons n) (utf8_decode r2)
            else None
        | _ => None
        end
      else if z0 <? 245 then
        match r0 with
        | c1 :: c2 :: c3 :: r3 =>
            let z1 := Z.of_N c1 in
            let z2 := Z.of_N c2 in
            let z3 := Z.of_N c3 in
            let n := (z0 - 240) * 262144 + (z1 - 128) * 4096 + (z2 - 128) * 64 + (z3 - 128) in
            if is_cont z1 && is_cont z2 && is_cont z3 && (65536 <=? n) && (n <=? 1114111)
            then option_map (cons n) (utf8_decode r3)
            else None
        | _ => None
        end
      else None.
Proof. reflexivity. Qed.

(* decoding consumes exactly the encoding of one code point *)
Lemma utf8_decode_bytes_cp_app n rest :
  valid_scalar n -> utf8_decode (utf8_bytes_cp n ++ rest) = option_map (cons n) (utf8_decode rest).
Proof.
  intros [Hr Hs]. unfold utf8_bytes_cp.
  assert (Hs' : n < 55296 \/ 57343 < n) by lia. clear Hs. destruct Hs' as [Hs|Hs];
  (destruct (Z.ltb_spec n 128) as [H1|H1]; [|destruct (Z.ltb_spec n 2048) as [H2|H2]; [|destruct (Z.ltb_spec n 65536) as [H3|H3]]]);
    cbn [app]; rewrite utf8_decode_cons; cbv beta iota zeta; unfold is_cont, is_surrogate;
    rewrite ?Z2N.id by dm_lia; decide_cmp; cbn [andb negb]; f_equal; f_equal; dm_lia.
Qed.

Theorem utf8_decode_encode_cp_app n b rest :
  utf8_encode_cp n = Ok b -> utf8_decode (b ++ rest) = option_map (cons n) (utf8_decode rest).
Proof.
  intros H. apply utf8_encode_cp_ok_bytes in H as [-> V]. apply utf8_decode_bytes_cp_app, V.
Qed.

Theorem utf8_roundtrip n b : utf8_encode_cp n = Ok b -> utf8_decode b = Some [n].
Proof.
  intros H. rewrite <- (app_nil_r b). rewrite (utf8_decode_encode_cp_app n b [] H). reflexivity.
Qed.

Lemma mapM_encode_roundtrip l : forall bs,
  mapM utf8_encode_cp l = Ok bs -> utf8_decode (concat bs) = Some l.
Proof.
  induction l as [|n l IH]; intros bs H.
  - cbn in H. injection H as <-. reflexivity.
  - cbn [mapM] in H. destruct (utf8_encode_cp n) as [b| |] eqn:En; try discriminate.
    cbn [bind] in H. destruct (mapM utf8_encode_cp l) as [bs'| |] eqn:El; try discriminate.
    cbn [bind] in H. injection H as <-. cbn [concat].
    rewrite (utf8_decode_encode_cp_app n b _ En), (IH bs' eq_refl). reflexivity.
Qed.

Theorem utf8_roundtrip_list l b : utf8_encode l = Ok b -> utf8_decode b = Some l.
Proof.
  unfold utf8_encode. intros H. destruct (mapM utf8_encode_cp l) as [bs| |] eqn:E; try discriminate.
  cbn [bind] in H. injection H as <-. apply mapM_encode_roundtrip, E.
Qed.

Theorem utf8_encode_valid l :
  Forall valid_scalar l -> utf8_encode l = Ok (flat_map utf8_bytes_cp l).
Proof.
  unfold utf8_encode. intros H.
  assert (E : mapM utf8_encode_cp l = Ok (map utf8_bytes_cp l)).
  { induction H as [|n l Hn Hl IH]; [reflexivity|].
    cbn [mapM map]. rewrite (utf8_encode_cp_valid n Hn). cbn [bind]. rewrite IH. reflexivity. }
  rewrite E. cbn [bind]. rewrite flat_map_concat_map. reflexivity.
Qed.

(* ---------- UTF-16 ---------- *)
Lemma utf16_units_cons2 be ign x y rest :
  utf16_units be ign (x :: y :: rest) =
      let u := utf16_unit be x y in
      if is_high_surrogate u then
        match rest with
        | x2 :: y2 :: rest' =>
            let u2 := utf16_unit be x2 y2 in
            if is_low_surrogate u2
            then do r <- utf16_units be ign rest'; Ok (combine_surrogates u u2 :: r)
            else if ign then utf16_units be ign rest else Raise unicode_decode_error
        | _ => if ign then Ok [] else Raise unicode_decode_error
        end
      else if is_low_surrogate u then
        (if ign then utf16_units be ign rest else Raise unicode_decode_error)
      else do r <- utf16_units be ign rest; Ok (u :: r).
Proof. reflexivity. Qed.

Lemma utf16_unit_range be x y : (x < 256)%N -> (y < 256)%N -> 0 <= utf16_unit be x y < 65536.
Proof. intros Hx Hy. unfold utf16_unit. destruct be; lia. Qed.

(* Every code point produced by the decoder (strict or ignore) is a Unicode scalar value.
   Strong induction on the length because the loop consumes 2 or 4 bytes. *)
Lemma utf16_units_valid_len be ign (k : nat) : forall b l,
  (List.length b <= k)%nat -> wf_bytes b -> utf16_units be ign b = Ok l -> Forall valid_scalar l.
Proof.
  induction k as [|k IH]; intros b l Hk Hwf H.
  - destruct b; [|cbn in Hk; lia]. cbn in H. injection H as <-. constructor.
  - destruct b as [|x [|y rest]].
    + cbn in H. injection H as <-. constructor.
    + cbn in H. destruct ign; [injection H as <-; constructor|discriminate].
    + inversion Hwf as [|? ? Hx Hwf1]; subst. inversion Hwf1 as [|? ? Hy Hrest]; subst.
      cbn [List.length] in Hk. rewrite utf16_units_cons2 in H. cbv zeta in H.
      pose proof (utf16_unit_range be x y Hx Hy) as Hu.
      set (u := utf16_unit be x y) in *. clearbody u.
      unfold is_high_surrogate, is_low_surrogate in H.
      destruct (Z.leb_spec 55296 u) as [H1|H1]; [destruct (Z.leb_spec u 56319) as [H2|H2]|]; cbn [andb] in H.
      * (* high surrogate *)
        destruct rest as [|x2 [|y2 rest']].
        -- destruct ign; [injection H as <-; constructor|discriminate].
        -- destruct ign; [injection H as <-; constructor|discriminate].
        -- inversion Hrest as [|? ? Hx2 Hr1]; subst. inversion Hr1 as [|? ? Hy2 Hrest']; subst.
           pose proof (utf16_unit_range be x2 y2 Hx2 Hy2) as Hu2.
           set (u2 := utf16_unit be x2 y2) in *. clearbody u2.
           destruct (Z.leb_spec 56320 u2) as [H3|H3]; [destruct (Z.leb_spec u2 57343) as [H4|H4]|]; cbn [andb] in H.
           ++ destruct (utf16_units be ign rest') as [r| |] eqn:Er; try discriminate.
              cbn [bind] in H. injection H as <-. constructor.
              ** unfold valid_scalar, combine_surrogates. lia.
              ** apply (IH rest' r); [cbn [List.length] in Hk; lia|exact Hrest'|exact Er].
           ++ destruct ign; [|discriminate]. apply (IH (x2 :: y2 :: rest') l); [cbn [List.length] in *; lia|exact Hrest|exact H].
           ++ destruct ign; [|discriminate]. apply (IH (x2 :: y2 :: rest') l); [cbn [List.length] in *; lia|exact Hrest|exact H].
      * (* 56320 <= u : low surrogate or above *)
        destruct (Z.leb_spec 56320 u) as [H3|H3]; [|lia]. destruct (Z.leb_spec u 57343) as [H4|H4]; cbn [andb] in H.
        -- destruct ign; [|discriminate]. apply (IH rest l); [lia|exact Hrest|exact H].
        -- destruct (utf16_units be ign rest) as [r| |] eqn:Er; try discriminate.
           cbn [bind] in H. injection H as <-. constructor; [unfold valid_scalar; lia|].
           apply (IH rest r); [lia|exact Hrest|exact Er].
      * destruct (Z.leb_spec 56320 u) as [H3|H3]; [lia|]. cbn [andb] in H.
        destruct (utf16_units be ign rest) as [r| |] eqn:Er; try discriminate.
        cbn [bind] in H. injection H as <-. constructor; [unfold valid_scalar; lia|].
        apply (IH rest r); [lia|exact Hrest|exact Er].
Qed.

Lemma wf_bytes_tl2 x y rest : wf_bytes (x :: y :: rest) -> wf_bytes rest.
Proof. intros H. inversion H as [|? ? _ H1]; subst. inversion H1; subst. assumption. Qed.

Theorem utf16_decode_valid ign b l :
  wf_bytes b -> utf16_decode ign b = Ok l -> Forall valid_scalar l.
Proof.
  intros Hwf H. unfold utf16_decode in H.
  destruct b as [|x [|y rest]];
    try (eapply utf16_units_valid_len; [apply le_n|exact Hwf|exact H]).
  destruct ((x =? 255)%N && (y =? 254)%N); [|destruct ((x =? 254)%N && (y =? 255)%N)];
    (eapply utf16_units_valid_len; [apply le_n| |exact H]); try exact Hwf; eapply wf_bytes_tl2, Hwf.
Qed.

(* the decoders only ever raise UnicodeDecodeError, and never in "ignore" mode *)
Lemma utf16_units_outcomes_len be ign (k : nat) : forall b,
  (List.length b <= k)%nat ->
  (exists l, utf16_units be ign b = Ok l) \/ (ign = false /\ utf16_units be ign b = Raise unicode_decode_error).
Proof.
  induction k as [|k IH]; intros b Hk.
  - destruct b; [left; eexists; reflexivity|cbn in Hk; lia].
  - destruct b as [|x [|y rest]].
    + left; eexists; reflexivity.
    + cbn. destruct ign; [left; eexists; reflexivity|right; split; reflexivity].
    + cbn [List.length] in Hk. rewrite utf16_units_cons2. cbv zeta.
      assert (Hrest : (exists l, utf16_units be ign rest = Ok l) \/
                      (ign = false /\ utf16_units be ign rest = Raise unicode_decode_error)) by (apply IH; lia).
      destruct (is_high_surrogate (utf16_unit be x y)).
      * destruct rest as [|x2 [|y2 rest']].
        -- destruct ign; [left; eexists; reflexivity|right; split; reflexivity].
        -- destruct ign; [left; eexists; reflexivity|right; split; reflexivity].
        -- destruct (is_low_surrogate (utf16_unit be x2 y2)).
           ++ destruct (IH rest') as [[l ->]|[-> ->]]; [cbn [List.length] in Hk; lia| |].
              ** left; eexists; reflexivity.
              ** right; split; reflexivity.
           ++ destruct ign; [exact Hrest|right; split; reflexivity].
      * destruct (is_low_surrogate (utf16_unit be x y)).
        -- destruct ign; [exact Hrest|right; split; reflexivity].
        -- destruct Hrest as [[l ->]|[-> ->]]; [left; eexists; reflexivity|right; split; reflexivity].
Qed.

Theorem utf16_decode_outcomes ign b :
  (exists l, utf16_decode ign b = Ok l) \/ (ign = false /\ utf16_decode ign b = Raise unicode_decode_error).
Proof.
  unfold utf16_decode.
  destruct b as [|x [|y rest]]; try (eapply utf16_units_outcomes_len; apply le_n).
  destruct ((x =? 255)%N && (y =? 254)%N); [|destruct ((x =? 254)%N && (y =? 255)%N)];
    eapply utf16_units_outcomes_len; apply le_n.
Qed.

(* find_utf16: the only possible exception is UnicodeDecodeError (never UnicodeEncodeError) *)
Theorem utf16_to_utf8_outcomes b :
  wf_bytes b -> (exists r, utf16_to_utf8 b = Ok r) \/ utf16_to_utf8 b = Raise unicode_decode_error.
Proof.
  intros Hwf. unfold utf16_to_utf8.
  destruct (utf16_decode_outcomes false b) as [[l E]|[_ E]]; rewrite E; cbn [bind]; [left|right; reflexivity].
  rewrite (utf8_encode_valid l (utf16_decode_valid false b l Hwf E)). eexists; reflexivity.
Qed.

(* shell.py: decode("utf-16", errors="ignore").encode() never raises *)
Theorem utf16_ignore_to_utf8_total b : wf_bytes b -> exists r, utf16_ignore_to_utf8 b = Ok r.
Proof.
  intros Hwf. unfold utf16_ignore_to_utf8.
  destruct (utf16_decode_outcomes true b) as [[l E]|[E _]]; [|discriminate]. rewrite E. cbn [bind].
  rewrite (utf8_encode_valid l (utf16_decode_valid true b l Hwf E)). eexists; reflexivity.
Qed.

(* ---------- Latin-1 text stored as UTF-16-LE (what UTF16_RE of codec.py matches) ---------- *)
Definition interleave0 (units : list N) : bytes := flat_map (fun c => [c; 0%N]) units.

Lemma utf16_units_latin1 ign units :
  Forall (fun c => (c < 256)%N) units ->
  utf16_units false ign (interleave0 units) = Ok (map Z.of_N units).
Proof.
  induction 1 as [|c units Hc Hu IH]; [reflexivity|].
  unfold interleave0. cbn [flat_map app]. fold (interleave0 units).
  rewrite utf16_units_cons2. cbv zeta. unfold utf16_unit, is_high_surrogate, is_low_surrogate.
  change (Z.of_N 0) with 0. decide_cmp. cbn [andb]. rewrite IH. cbn [bind map]. f_equal; f_equal; lia.
Qed.

Theorem utf16_latin1 ign units :
  Forall (fun c => (c < 256)%N) units ->
  utf16_decode ign (interleave0 units) = Ok (map Z.of_N units).
Proof.
  intros H. destruct units as [|c units]; [reflexivity|].
  unfold utf16_decode. unfold interleave0 at 1. cbn [flat_map app]. fold (interleave0 units).
  replace (0 =? 254)%N with false by reflexivity. replace (0 =? 255)%N with false by reflexivity.
  rewrite !andb_false_r.
  change (c :: 0%N :: interleave0 units) with (interleave0 (c :: units)).
  apply utf16_units_latin1, H.
Qed.

Definition utf8_latin1 (c : N) : bytes :=
  if (c <? 128)%N then [c] else [(192 + c / 64)%N; (128 + c mod 64)%N].

Lemma utf8_bytes_cp_latin1 c : (c < 256)%N -> utf8_bytes_cp (Z.of_N c) = utf8_latin1 c.
Proof.
  intros Hc. unfold utf8_bytes_cp, utf8_latin1. destruct (N.ltb_spec c 128) as [H|H].
  - replace (Z.of_N c <? 128) with true by (symmetry; apply Z.ltb_lt; lia). rewrite N2Z.id. reflexivity.
  - replace (Z.of_N c <? 128) with false by (symmetry; apply Z.ltb_ge; lia).
    replace (Z.of_N c <? 2048) with true by (symmetry; apply Z.ltb_lt; lia).
    f_equal; [|f_equal]; apply N2Z.inj; rewrite Z2N.id by dm_lia.
    + rewrite N2Z.inj_add, N2Z.inj_div. reflexivity.
    + rewrite N2Z.inj_add, N2Z.inj_mod. reflexivity.
Qed.

(* find_utf16 on such input never raises; the value is the concatenation of the UTF-8 encodings *)
Theorem utf16_to_utf8_latin1 units :
  Forall (fun c => (c < 256)%N) units ->
  utf16_to_utf8 (interleave0 units) = Ok (flat_map utf8_latin1 units).
Proof.
  intros H. unfold utf16_to_utf8. rewrite (utf16_latin1 false units H). cbn [bind].
  rewrite utf8_encode_valid.
  - f_equal. induction H as [|c units Hc Hu IH]; [reflexivity|].
    cbn [map flat_map]. rewrite IH, (utf8_bytes_cp_latin1 c Hc). reflexivity.
  - apply Forall_map. eapply Forall_impl; [|exact H]. intros c Hc. unfold valid_scalar. cbv beta in Hc. lia.
Qed.

Corollary utf16_to_utf8_ascii units :
  Forall (fun c => (c < 128)%N) units -> utf16_to_utf8 (interleave0 units) = Ok units.
Proof.
  intros H. rewrite utf16_to_utf8_latin1 by (eapply Forall_impl; [|exact H]; cbv beta; intros; lia).
  f_equal. induction H as [|c units Hc Hu IH]; [reflexivity|].
  cbn [flat_map]. rewrite IH. unfold utf8_latin1. replace (c <? 128)%N with true by (symmetry; apply N.ltb_lt; exact Hc).
  reflexivity.
Qed.

(* ---------- test vectors: every right-hand side was printed by /venv/bin/python (3.12.1) ---------- *)
Example enc_ex01 : utf8_encode_cp 0 = Ok [0]%N. Proof. vm_compute. reflexivity. Qed.
Example enc_ex02 : utf8_encode_cp 128 = Ok [194; 128]%N. Proof. vm_compute. reflexivity. Qed.
Example enc_ex03 : utf8_encode_cp 2047 = Ok [223; 191]%N. Proof. vm_compute. reflexivity. Qed.
Example enc_ex04 : utf8_encode_cp 2048 = Ok [224; 160; 128]%N. Proof. vm_compute. reflexivity. Qed.
Example enc_ex05 : utf8_encode_cp 55295 = Ok [237; 159; 191]%N. Proof. vm_compute. reflexivity. Qed.
Example enc_ex06 : utf8_encode_cp 55296 = Raise unicode_encode_error. Proof. vm_compute. reflexivity. Qed.
Example enc_ex07 : utf8_encode_cp 57343 = Raise unicode_encode_error. Proof. vm_compute. reflexivity. Qed.
Example enc_ex08 : utf8_encode_cp 65535 = Ok [239; 191; 191]%N. Proof. vm_compute. reflexivity. Qed.
Example enc_ex09 : utf8_encode_cp 65536 = Ok [240; 144; 128; 128]%N. Proof. vm_compute. reflexivity. Qed.
Example enc_ex10 : utf8_encode_cp 1114111 = Ok [244; 143; 191; 191]%N. Proof. vm_compute. reflexivity. Qed.
Example enc_ex11 : utf8_encode_cp 1114112 = Raise value_error. Proof. vm_compute. reflexivity. Qed.
Example enc_ex12 : utf8_encode_cp (-1) = Raise value_error. Proof. vm_compute. reflexivity. Qed.
Example enc_ex13 : utf8_encode_cp 2147483647 = Raise value_error. Proof. vm_compute. reflexivity. Qed.
Example enc_ex14 : utf8_encode_cp 2147483648 = Raise overflow_error. Proof. vm_compute. reflexivity. Qed.
Example enc_ex15 : utf8_encode_cp (-2147483649) = Raise overflow_error. Proof. vm_compute. reflexivity. Qed.
Example dec_ex01 : utf8_decode [192; 128]%N = None. Proof. vm_compute. reflexivity. Qed.
Example dec_ex02 : utf8_decode [224; 159; 191]%N = None. Proof. vm_compute. reflexivity. Qed.
Example dec_ex03 : utf8_decode [237; 160; 128]%N = None. Proof. vm_compute. reflexivity. Qed.
Example dec_ex04 : utf8_decode [244; 144; 128; 128]%N = None. Proof. vm_compute. reflexivity. Qed.
Example dec_ex05 : utf8_decode [65; 226; 130; 172; 240; 159; 152; 128]%N = Some [65; 8364; 128512]. Proof. vm_compute. reflexivity. Qed.
Example dec_ex06 : utf8_decode [226; 130]%N = None. Proof. vm_compute. reflexivity. Qed.
Example u16_ex01 : utf16_decode false [255; 254]%N = Ok []. Proof. vm_compute. reflexivity. Qed.
Example u16_ex02 : utf16_decode false [255; 254; 65]%N = Raise unicode_decode_error. Proof. vm_compute. reflexivity. Qed.
Example u16_ex03 : utf16_decode true [255; 254; 65]%N = Ok []. Proof. vm_compute. reflexivity. Qed.
Example u16_ex04 : utf16_decode false [254; 255; 0; 65]%N = Ok [65]. Proof. vm_compute. reflexivity. Qed.
Example u16_ex05 : utf16_decode false [255; 254; 255; 254]%N = Ok [65279]. Proof. vm_compute. reflexivity. Qed.
Example u16_ex06 : utf16_decode false [254; 255; 255; 254]%N = Ok [65534]. Proof. vm_compute. reflexivity. Qed.
Example u16_ex07 : utf16_decode false [61; 216; 0; 222]%N = Ok [128512]. Proof. vm_compute. reflexivity. Qed.
Example u16_ex08 : utf16_decode true [61; 216; 65; 0]%N = Ok [65]. Proof. vm_compute. reflexivity. Qed.
Example u16_ex09 : utf16_decode true [61; 216; 65]%N = Ok []. Proof. vm_compute. reflexivity. Qed.
Example u16_ex10 : utf16_decode true [0; 222; 65; 0]%N = Ok [65]. Proof. vm_compute. reflexivity. Qed.
Example u16_ex11 : utf16_decode true [61; 216; 61; 216; 0; 222]%N = Ok [128512]. Proof. vm_compute. reflexivity. Qed.
Example u16_ex12 : utf16_decode false [61; 216; 61; 216; 0; 222]%N = Raise unicode_decode_error. Proof. vm_compute. reflexivity. Qed.
Example u16_ex13 : utf16_decode true [61; 216; 0; 222; 1]%N = Ok [128512]. Proof. vm_compute. reflexivity. Qed.
Example u16_ex14 : utf16_to_utf8 [104; 0; 233; 0; 172; 32]%N = Ok [104; 195; 169; 226; 130; 172]%N. Proof. vm_compute. reflexivity. Qed.

Print Assumptions utf8_roundtrip.
Print Assumptions utf8_roundtrip_list.
Print Assumptions utf8_encode_cp_ok_iff.
Print Assumptions utf8_bytes_cp_wf.
Print Assumptions utf16_decode_valid.
Print Assumptions utf16_decode_outcomes.
Print Assumptions utf16_to_utf8_outcomes.
Print Assumptions utf16_ignore_to_utf8_total.
Print Assumptions utf16_latin1.
Print Assumptions utf16_to_utf8_latin1.
Print Assumptions utf16_to_utf8_ascii.
